#!/usr/bin/env python3
"""Regenerates MANIFEST.json from checks.json + not_applicable.json (single source of truth)."""
import json, os
ROOT = os.path.dirname(os.path.dirname(os.path.abspath(__file__)))
checks = json.load(open(os.path.join(ROOT, "checks.json")))
na = json.load(open(os.path.join(ROOT, "not_applicable.json")))
hooks = json.load(open(os.path.join(ROOT, "hooks.json")))
engines = {}
out_checks = []
for pid in sorted(checks):
    c = checks[pid]
    if c.get("disabled") or not c.get("registered") or "level_text" not in c:
        continue
    engines.setdefault(c["engine"], []).append(pid)
    out_checks.append({
        "property_id": pid,
        "quick_cmd": "./check %s --tier quick" % pid,
        "thorough_cmd": "./check %s --tier thorough" % pid,
        "evidence_file": "/verif/evidence/%s.json" % pid,
        "replay_cmd_template": "./check %s --replay {path}" % pid,
        "engine": c["engine"],
        "level_claimed": {"category": c.get("level", "exploration"), "text": c["level_text"], "design_ref": c.get("design_ref", "DESIGN.md §4 " + pid)},
        "level_note": c.get("level_note", "; ".join(c.get("assumptions", [])) or "sampling, not proof"),
        "technique": c.get("technique", "deterministic simulation with fault injection: seeded search over histories/schedules/faults against a reference model"),
    })
claimed = {c["property_id"] for c in out_checks}
m = {
    "version": 1,
    "setup_cmd": "./setup.sh",
    "hooks": hooks,
    "engines": [{"name": e, "path": "sim/engines/" + e, "serves_properties": sorted(ps),
                 "kind_free_text": "Go test binary driven by ./check; one seed = one replayable simulated run"} for e, ps in sorted(engines.items())],
    "checks": out_checks,
    "notes": "Every check: ./check <ID> [--tier quick|thorough]; exit 0 held / 1 VIOLATION (replay file under /verif/replays) / 2 harness trouble. Known findings: /verif/KNOWN_FINDINGS.jsonl.",
    "not_applicable": [x for x in na if x["property_id"] not in claimed],
}
json.dump(m, open(os.path.join(ROOT, "MANIFEST.json"), "w"), indent=1)
print("MANIFEST.json: %d checks, %d not applicable" % (len(out_checks), len(m["not_applicable"])))
