#!/bin/sh
# usage: tools/try_mutant.sh <ID> <worktree> [check args...]
# Runs ./check <ID> against a scratch worktree of /repo (a seeded change) from a private root so that
# /verif's evidence/ and replays/ are left untouched. Output root: /dev/shm/vroot-<ID>
id="$1"; wt="$2"; shift 2
root=/dev/shm/vroot-$id
rm -rf $root; mkdir -p $root
cp /verif/check $root/check
for f in sim checks.json KNOWN_FINDINGS.jsonl tools not_applicable.json hooks.json; do ln -s /verif/$f $root/$f; done
cd $root
VERIF_REPO="$wt" VERIF_INSTR_REPO="$wt" ./check "$id" "$@"
rc=$?
echo "try_mutant: exit $rc (replays in $root/replays)"
exit $rc
