#!/bin/bash
# usage: verify_mutant.sh <worktree> <go test args...>
# Runs the demonstration with the change applied (expect FAIL) and with it reverted (expect PASS).
# The worktree must have the change applied (uncommitted) and the demo file(s) present (untracked).
wt=$1; shift
cd "$wt" || exit 2
export GOFLAGS=-mod=mod GOPROXY=off
git diff > /tmp/vm_patch.$$ 
echo "--- with change"
timeout 3000 go test "$@" -count=1 2>&1 | grep -E "^(ok|FAIL|---|panic)" | head -12
git stash -q            # stashes tracked changes only; untracked demo files stay
echo "--- without change"
timeout 3000 go test "$@" -count=1 2>&1 | grep -E "^(ok|FAIL|---|panic)" | head -12
git stash pop -q
git diff --stat | tail -1
rm -f /tmp/vm_patch.$$
