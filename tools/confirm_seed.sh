#!/bin/sh
# usage: tools/confirm_seed.sh <worktree> <outdir> <pkgdir (relative to worktree)> <demo -run regex> [more pkg dirs to test...]
# Confirms a seeded change: demo fails WITH the change, passes WITHOUT it, and the touched packages' existing tests pass WITH it.
wt="$1"; out="$2"; pkg="$3"; re="$4"; shift 4
export GOFLAGS=-mod=mod GOPROXY=off
cd "$wt/$pkg" || exit 2
echo "== demo WITH change"; timeout 1200 go test -count=1 -timeout 15m -run "$re" . 2>&1 | tail -5
echo "== demo WITHOUT change"; (cd "$wt" && git apply -R "$out/patch.diff") || exit 2
timeout 1200 go test -count=1 -timeout 15m -run "$re" . 2>&1 | tail -3
(cd "$wt" && git apply "$out/patch.diff") || exit 2
echo "== existing tests WITH change (demo files moved aside)"
mkdir -p /tmp/demo-aside-$$; for f in $(cd "$wt" && git status --porcelain | grep '^??' | awk '{print $2}'); do mkdir -p /tmp/demo-aside-$$/$(dirname $f); mv "$wt/$f" /tmp/demo-aside-$$/$f; done
for p in "$pkg" "$@"; do (cd "$wt/$p" && timeout 2400 go test -count=1 -p 4 -timeout 30m . 2>&1 | tail -3); done
(cd /tmp/demo-aside-$$ && find . -type f | while read f; do mv "$f" "$wt/$f"; done); rm -rf /tmp/demo-aside-$$
