#!/bin/sh
# usage: tools/sweep.sh "<seeds>" "<ids>" [tier]   — runs checks sequentially, prints one summary line per (seed,id)
seeds="$1"; ids="$2"; tier="${3:-quick}"
[ -d .build ] || sh setup.sh >/dev/null 2>&1
for s in $seeds; do for id in $ids; do
  start=$(date +%s)
  VERIF_SEED=$s ./check $id --tier $tier > /tmp/sweep-$$-$id-$s.log 2>&1; rc=$?
  echo "seed=$s id=$id rc=$rc wall=$(( $(date +%s)-start ))s viol=$(grep -c '^VIOLATION' /tmp/sweep-$$-$id-$s.log) known=$(grep -c '^KNOWN-FINDING' /tmp/sweep-$$-$id-$s.log)"
  if [ $rc -ne 0 ]; then grep -v '^KNOWN-FINDING' /tmp/sweep-$$-$id-$s.log | cut -c1-600 | tail -15; cp -r replays sweep-replays-$s-$id 2>/dev/null; fi
  rm -f /tmp/sweep-$$-$id-$s.log
done; done
