// Engine consensus: N real Tendermint2 ConsensusState validators in one process
// under a simulator that owns time (testing/synctest bubble + simulator-owned
// TimeoutTicker), message delivery (simnet + anti-entropy stub instead of the
// reactor/p2p), disks (simdb) and crashes. One event at a time: the simulator
// feeds one message / timeout / tx / claim into one node, waits for quiescence
// (synctest.Wait), collects the node's outputs, checks every oracle.
//
// See NOTES.md for deviations from DESIGN §3.2.
package consensus_sim

import (
	"container/heap"
	"encoding/binary"
	"encoding/hex"
	"fmt"
	"os"
	"path/filepath"
	"sort"
	"strings"
	"testing"
	"testing/synctest"
	"time"

	abci "github.com/gnolang/gno/tm2/pkg/bft/abci/types"
	cons "github.com/gnolang/gno/tm2/pkg/bft/consensus"
	cnscfg "github.com/gnolang/gno/tm2/pkg/bft/consensus/config"
	cstypes "github.com/gnolang/gno/tm2/pkg/bft/consensus/types"
	sm "github.com/gnolang/gno/tm2/pkg/bft/state"
	"github.com/gnolang/gno/tm2/pkg/bft/types"
	"github.com/gnolang/gno/tm2/pkg/crypto/ed25519"

	"verif/sim/kernel"
)

// T is set by TestSim: synctest.Test needs a *testing.T, the engine contract has none.
var T *testing.T

var runCounter int

func sortStrings(s []string) { sort.Strings(s) }

type slot struct {
	id    int
	key   ed25519.PrivKeyEd25519
	power int64 // genesis power (0 = standby, not in genesis)
	byz   bool
	node  *node // nil for byzantine slots
}

type ev struct {
	at   time.Duration
	seq  uint64
	node int // target node (-1: simulator-level event); used for slow-node starvation
	fn   func()
}

type evHeap []*ev

func (h evHeap) Len() int { return len(h) }
func (h evHeap) Less(i, j int) bool {
	if h[i].at != h[j].at {
		return h[i].at < h[j].at
	}
	return h[i].seq < h[j].seq
}
func (h evHeap) Swap(i, j int) { h[i], h[j] = h[j], h[i] }
func (h *evHeap) Push(x any)   { *h = append(*h, x.(*ev)) }
func (h *evHeap) Pop() any {
	o := *h
	x := o[len(o)-1]
	*h = o[:len(o)-1]
	return x
}

type netMsg struct {
	msg  cons.ConsensusMessage
	desc string
	// for maj23 claims (not a ConsensusState input; goes to HeightVoteSet.SetPeerMaj23 like the reactor does)
	claim *claimMsg
	// tampering note: "" genuine; otherwise what a byzantine relayer changed
	junk string
}

type claimMsg struct {
	height int64
	round  int
	typ    types.SignedMsgType
	id     types.BlockID
}

type sim struct {
	c    *kernel.Choices
	r    *kernel.Result
	p    kernel.Params
	prop string
	only map[string]bool // knob only=C31+C35: restrict which oracles may fail (sensitivity experiments)

	t0      time.Time
	scratch string
	heap    evHeap
	seq     uint64
	steps   int
	stop    bool

	chainID  string
	genDoc   *types.GenesisDoc
	genTime  time.Time
	initialH int64
	csConfig *cnscfg.ConsensusConfig
	debugLog bool
	trace    bool

	slots []*slot
	nodes []*node // honest nodes only (validators and standby)
	net   *simnet
	byz   *byzActor

	or *oracle

	heardVotes []*types.Vote // votes seen on the wire (replay / tampering material)
	junkKey    ed25519.PrivKeyEd25519

	// workload
	txSeq      int
	maxSteps   int
	faultSteps int
	endAt      time.Duration
	aePeriod   time.Duration
	aeBudget   int
	targetH    int64
	stabHeight map[int]int64
	crashPlan  []crashPlan
	crashesFired int
	tainted      bool
	walNotReplayed bool // some restart came back without its WAL-synced own votes (anomaly probes); names a later stall

	// weights (depend on the property under check)
	w weights

	commitsRound0  int
	liveStage      int    // 0 faults, 1 stabilised, 2 perfect (reactor-equivalent) gossip, 4 omniscient gossip, 3 done
	stallClass     string // classifyStall() at the moment perfect gossip was given up
	liveDeadline   time.Duration
	liveGoal       int64
	faultsFired    int
	honestCommits  map[int]int
	nextTimerLabel int
}

type weights struct {
	byz, netFaults, partitions, bigTx, junkVotes, junkParts, claims, valTx, paramTx, crash, slow, clockJump, highInitial int
}

func (s *sim) now() time.Duration { return time.Since(s.t0) }

func (s *sim) schedule(at time.Duration, node int, fn func()) {
	s.seq++
	heap.Push(&s.heap, &ev{at: at, seq: s.seq, node: node, fn: fn})
}

func (s *sim) fail(prop, oracle, format string, args ...any) {
	if s.only != nil && !s.only[prop] {
		s.r.Probe("suppressed_" + prop + "_" + oracle)
		return
	}
	v := kernel.Violation{Property: prop, Oracle: oracle, Signature: oracle, Msg: fmt.Sprintf(format, args...)}
	if k := s.p.IsKnown(&v); k != nil {
		// a committed known finding: recorded, the run goes on (or ends, for liveness) without a violation
		for _, o := range s.r.Known {
			if o.Property == prop && o.Oracle == oracle {
				return
			}
		}
		s.r.Known = append(s.r.Known, v)
		s.event("KNOWN %s/%s", prop, oracle)
		if strings.HasPrefix(oracle, "restart_failed") {
			// a node that forgot its votes cannot re-gossip them and may be unable to sign again in those
			// rounds: the rest of the run cannot decide liveness
			s.tainted = true
		}
		return
	}
	s.r.Fail(prop, oracle, format, args...)
	s.event("VIOLATION %s/%s", prop, oracle)
	s.stop = true
}

func short(b []byte) string {
	if len(b) == 0 {
		return "nil"
	}
	if len(b) > 4 {
		b = b[:4]
	}
	return hex.EncodeToString(b)
}

func (s *sim) genDocCopy() *types.GenesisDoc {
	g := *s.genDoc
	g.Validators = append([]types.GenesisValidator(nil), s.genDoc.Validators...)
	return &g
}

// ---------------------------------------------------------------------------

func run(c *kernel.Choices, p kernel.Params) (res *kernel.Result) {
	r := kernel.NewResult()
	var bubblePanic any
	func() {
		defer func() {
			if e := recover(); e != nil { // synctest deadlock panic (goroutines left blocked in the bubble)
				if bubblePanic == nil {
					bubblePanic = kernel.HarnessError{Msg: fmt.Sprintf("synctest: %v", e)}
				}
			}
		}()
		synctest.Test(T, func(t *testing.T) {
			defer func() {
				if e := recover(); e != nil {
					bubblePanic = e
				}
			}()
			s := &sim{c: c, r: r, p: p, prop: p.Property}
			s.run()
		})
	}()
	if bubblePanic != nil {
		panic(bubblePanic)
	}
	return r
}

func (s *sim) run() {
	c, r := s.c, s.r
	s.t0 = time.Now()
	runCounter++
	base := os.Getenv("VERIF_SCRATCH")
	if base == "" {
		base = filepath.Join(os.TempDir(), "verif-consensus")
	}
	s.scratch = filepath.Join(base, fmt.Sprintf("run-%d-%d", os.Getpid(), runCounter))
	os.RemoveAll(s.scratch)
	if err := os.MkdirAll(s.scratch, 0o700); err != nil {
		kernel.Harnessf("scratch: %v", err)
	}
	defer os.RemoveAll(s.scratch)
	s.debugLog = os.Getenv("VERIF_CS_LOG") != ""
	s.trace = os.Getenv("VERIF_SIM_TRACE") != ""
	if o := s.p.Knob("only", os.Getenv("VERIF_ONLY")); o != "" {
		s.only = map[string]bool{}
		for _, x := range strings.Split(o, "+") {
			s.only[x] = true
		}
	}

	s.drawConfig()
	s.or = newOracle(s)
	defer s.shutdownAll()
	if !s.bootAll() {
		return
	}
	s.planWorkload()

	for !s.stop && s.heap.Len() > 0 && s.steps < s.maxSteps {
		e := heap.Pop(&s.heap).(*ev)
		if e.at > s.endAt {
			break
		}
		if d := e.at - s.now(); d > 0 {
			time.Sleep(d)
			synctest.Wait()
		}
		// slow node: its events are starved for a while
		if e.node >= 0 {
			if n := s.slots[e.node].node; n != nil && n.slowUntil > s.now() {
				s.schedule(n.slowUntil, e.node, e.fn)
				r.Fault("slow_node_defer")
				continue
			}
		}
		if e.node >= 0 {
			s.steps++
		}
		if s.liveStage == 0 && s.steps >= s.faultSteps {
			// the fault phase used its step budget: stabilise now
			s.net.stabAt = s.now()
			s.onStabilise()
		}
		e.fn()
		if s.stop {
			break
		}
		s.checkLiveness()
	}
	s.finish()
	r.Steps = s.steps
	r.SimSeconds = s.now().Seconds()
	r.Sample = map[string]any{"n": len(s.slots), "config": s.describe(), "first_events": firstN(c.Log, 25)}
}

func firstN(s []string, n int) []string {
	if len(s) > n {
		s = s[:n]
	}
	return append([]string(nil), s...)
}

func (s *sim) describe() string {
	var pw []string
	for _, sl := range s.slots {
		t := "h"
		if sl.byz {
			t = "B"
		}
		pw = append(pw, fmt.Sprintf("%s%d", t, sl.power))
	}
	return fmt.Sprintf("powers=%s lat=%v jit=%v drop=%d dup=%d parts=%d stab=%v initialH=%d", strings.Join(pw, ","),
		s.net.baseLat, s.net.jitter, s.net.dropPm, s.net.dupPm, len(s.net.parts), s.net.stabAt, s.initialH)
}

// ---------------------------------------------------------------------------
// configuration

func (s *sim) drawConfig() {
	c := s.c
	w := weights{byz: 2, netFaults: 2, partitions: 1, bigTx: 1, junkVotes: 1, junkParts: 1, claims: 1, valTx: 1, paramTx: 1, slow: 1, clockJump: 1, highInitial: 1}
	switch s.prop {
	case "C31":
		w.byz, w.netFaults, w.partitions, w.claims = 4, 3, 3, 2
	case "C32":
		w.byz, w.bigTx = 5, 1
	case "C35":
		w.byz, w.junkVotes, w.claims = 4, 4, 4
	case "C39":
		w.bigTx, w.junkParts, w.byz = 5, 5, 3
	case "C41":
		w.valTx, w.paramTx, w.highInitial, w.netFaults = 5, 5, 4, 1
	case "C33", "C34":
		w.crash = 5
	}
	s.w = w

	nv := []int{4, 5, 7}[c.Weighted([]int{3, 2, 2})]
	// unequal powers
	powers := make([]int64, nv)
	shape := c.Intn(4)
	for i := range powers {
		switch shape {
		case 0:
			powers[i] = 1
		case 1:
			powers[i] = int64(1 + c.Intn(5))
		case 2:
			powers[i] = int64(1 + c.Intn(30))
		default:
			powers[i] = []int64{1, 2, 3, 10}[c.Intn(4)]
		}
	}
	var total int64
	for _, p := range powers {
		total += p
	}
	// byzantine subset with 3*byzPower < total
	byz := make([]bool, nv)
	if c.Chance(w.byz, w.byz+2) {
		want := 1 + c.Intn(2)
		var bp int64
		for k := 0; k < want; k++ {
			i := c.Intn(nv)
			if !byz[i] && 3*(bp+powers[i]) < total {
				byz[i] = true
				bp += powers[i]
			}
		}
	}
	s.chainID = "sim-chain"
	var seedb [8]byte
	binary.BigEndian.PutUint64(seedb[:], s.c.Seed)
	for i := 0; i < nv; i++ {
		key := ed25519.GenPrivKeyFromSecret(append(append([]byte("verif-consensus-key"), seedb[:]...), byte(i)))
		s.slots = append(s.slots, &slot{id: i, key: key, power: powers[i], byz: byz[i]})
	}
	// one standby honest node that val: txs may add to / remove from the validator set
	if c.Chance(w.valTx, w.valTx+2) {
		key := ed25519.GenPrivKeyFromSecret(append(append([]byte("verif-consensus-key"), seedb[:]...), byte(nv)))
		s.slots = append(s.slots, &slot{id: nv, key: key, power: 0})
	}

	s.junkKey = ed25519.GenPrivKeyFromSecret(append([]byte("verif-consensus-junk"), seedb[:]...))
	s.genTime = time.Now().UTC()
	s.initialH = 1
	if c.Chance(w.highInitial, w.highInitial+6) {
		// start just below the validator-info checkpoint interval (state/store.go: valSetCheckpointInterval = 100000)
		s.initialH = int64(100000 - 1 - c.Intn(6))
	}
	gd := &types.GenesisDoc{GenesisTime: s.genTime, ChainID: s.chainID, InitialHeight: s.initialH, ConsensusParams: types.DefaultConsensusParams()}
	for _, sl := range s.slots {
		if sl.power > 0 {
			gd.Validators = append(gd.Validators, types.GenesisValidator{Address: sl.key.PubKey().Address(), PubKey: sl.key.PubKey(), Power: sl.power, Name: fmt.Sprintf("v%d", sl.id)})
		}
	}
	if s.initialH == 1 {
		gd.InitialHeight = 0 // the common representation
	}
	s.genDoc = gd

	cfg := cnscfg.DefaultConsensusConfig()
	ms := func(lo, hi int) time.Duration { return time.Duration(c.Range(lo/10, hi/10)*10) * time.Millisecond }
	cfg.TimeoutPropose = ms(200, 1200)
	cfg.TimeoutProposeDelta = ms(50, 300)
	cfg.TimeoutPrevote = ms(100, 600)
	cfg.TimeoutPrevoteDelta = ms(50, 300)
	cfg.TimeoutPrecommit = ms(100, 600)
	cfg.TimeoutPrecommitDelta = ms(50, 300)
	cfg.TimeoutCommit = ms(50, 600)
	if v := s.p.KnobInt("timeout_commit_ms", envInt("VERIF_TIMEOUT_COMMIT_MS", 0)); v > 0 { // characterisation experiments
		cfg.TimeoutCommit = time.Duration(v) * time.Millisecond
	}
	cfg.SkipTimeoutCommit = false // zero-time progress is forbidden in the bubble (DESIGN 2.9)
	cfg.CreateEmptyBlocks = true
	s.csConfig = cfg

	nt := &simnet{s: s}
	nt.baseLat = time.Duration(1+c.Intn(40)) * time.Millisecond
	if v := envInt("VERIF_LAT_MS", 0); v > 0 {
		nt.baseLat = time.Duration(v) * time.Millisecond
	}
	if c.Chance(w.netFaults, w.netFaults+1) {
		nt.jitter = time.Duration([]int{0, 20, 100, 400, 1500}[c.Intn(5)]) * time.Millisecond
		nt.dropPm = []int{0, 10, 50, 150, 400}[c.Intn(5)]
		nt.dupPm = []int{0, 20, 100, 300}[c.Intn(4)]
	}
	s.faultSteps = 1000 + 500*c.Intn(5)
	if s.p.Tier == "thorough" {
		s.faultSteps *= 2
	}
	s.faultSteps = s.p.KnobInt("fault_steps", s.faultSteps)
	s.maxSteps = s.faultSteps + 6000
	faultSpan := time.Duration(5+c.Intn(40)) * time.Second
	nt.stabAt = faultSpan
	if nt.dropPm+nt.dupPm > 0 {
		ns := 1 + c.Intn(4)
		for k := 0; k < ns; k++ {
			from := time.Duration(c.Intn(int(faultSpan/time.Millisecond))) * time.Millisecond
			nt.storms = append(nt.storms, [2]time.Duration{from, from + time.Duration(500+c.Intn(8000))*time.Millisecond})
		}
	}
	if c.Chance(w.partitions, w.partitions+2) {
		np := 1 + c.Intn(3)
		for k := 0; k < np; k++ {
			from := time.Duration(c.Intn(int(faultSpan/time.Millisecond))) * time.Millisecond
			dur := time.Duration(200+c.Intn(6000)) * time.Millisecond
			p := partition{from: from, to: from + dur, side: make([]int, len(s.slots))}
			for i := range p.side {
				p.side[i] = c.Intn(2)
			}
			if p.to > faultSpan {
				p.to = faultSpan
			}
			nt.parts = append(nt.parts, p)
		}
	}
	s.net = nt
	s.aePeriod = time.Duration([]int{30, 80, 200, 500}[c.Intn(4)]) * time.Millisecond
	s.aeBudget = []int{4, 12, 40}[c.Intn(3)]
	s.honestCommits = map[int]int{}
	// knob adv (per mille of runs): adversarial scheduler for the fault phase. Behind a knob because replay files
	// record their knobs: tapes recorded without it keep their meaning.
	if pm := s.p.KnobInt("adv", 0); pm > 0 && c.Chance(pm, 1000) {
		a := &advNet{}
		for i := range a.victims {
			a.victims[i] = c.Intn(16)
		}
		a.pPrevote = []int{300, 600, 900}[c.Intn(3)]
		a.pProposal = []int{0, 300, 700}[c.Intn(3)]
		a.pPrecomm = []int{0, 300, 600}[c.Intn(3)]
		a.delay = time.Duration(1+c.Intn(3)) * (cfg.TimeoutPrevote + cfg.TimeoutPrecommit)
		nt.adv = a
		s.r.Probe("adv_scheduler_runs")
	}
}

// roundBudget is the time of `rounds` rounds' worth of timeouts (the liveness bound's unit).
func (s *sim) roundBudget(rounds int) time.Duration {
	var d time.Duration
	for r := 0; r < rounds; r++ {
		d += s.csConfig.Propose(r) + s.csConfig.Prevote(r) + s.csConfig.Precommit(r)
	}
	return 2*d + 4*s.csConfig.TimeoutCommit + 5*time.Second
}

func (s *sim) bootAll() bool {
	for _, sl := range s.slots {
		if sl.byz {
			continue
		}
		n := s.newNode(sl.id, sl.key)
		sl.node = n
		s.nodes = append(s.nodes, n)
	}
	s.byz = newByzActor(s)
	for _, n := range s.nodes {
		if err := n.boot(); err != nil {
			kernel.Harnessf("boot n%d: %v", n.id, err)
		}
		synctest.Wait()
		s.event("boot n%d", n.id)
		s.afterEvent(n)
		if s.stop {
			return false
		}
	}
	return true
}

func (s *sim) shutdownAll() {
	for _, n := range s.nodes {
		n.shutdown()
	}
	synctest.Wait()
}

// ---------------------------------------------------------------------------
// workload & fault plan (all counts drawn up front)

func (s *sim) planWorkload() {
	c := s.c
	span := s.net.stabAt
	spanMs := int(span / time.Millisecond)
	// anti-entropy ticks (self-rescheduling) for the whole run
	s.endAt = 1 << 62
	s.schedule(s.aePeriod, -1, s.antiEntropyTick)
	// periodic WAL flush (the real baseWAL flushes every 2s; its ticker is disabled, see node.boot)
	s.schedule(2*time.Second, -1, s.walFlushTick)
	// transactions
	ntx := 4 + c.Intn(20)
	for i := 0; i < ntx; i++ {
		at := time.Duration(c.Intn(spanMs)) * time.Millisecond
		kind := c.Weighted([]int{6, s.w.bigTx * 2, 1, 1})
		s.txSeq++
		var tx []byte
		switch kind {
		case 0:
			tx = []byte(fmt.Sprintf("k%d=v%d", c.Intn(12), s.txSeq))
		case 1:
			sz := 66000 + c.Intn(3)*66000 + c.Intn(5000)
			tx = make([]byte, sz)
			copy(tx, fmt.Sprintf("big%d=", s.txSeq))
			for j := 16; j < sz; j++ {
				tx[j] = byte('a' + (j*7+s.txSeq)%26)
			}
		case 2:
			tx = []byte(fmt.Sprintf("fail:%d", s.txSeq))
		default:
			tx = []byte(fmt.Sprintf("bad:%d", s.txSeq))
		}
		s.planTx(at, tx, fmt.Sprintf("tx#%d(%dB)", s.txSeq, len(tx)))
	}
	// validator-set changes: only ever raise honest power / add-remove the standby (keeps byz < 1/3 whatever subset commits)
	nval := 0
	if c.Chance(s.w.valTx, s.w.valTx+2) {
		nval = 1 + c.Intn(4)
	}
	for i := 0; i < nval; i++ {
		at := time.Duration(c.Intn(spanMs)) * time.Millisecond
		var hon []*slot
		for _, sl := range s.slots {
			if !sl.byz {
				hon = append(hon, sl)
			}
		}
		sl := hon[c.Intn(len(hon))]
		var pw int64
		if sl.power == 0 { // standby: add with some power, or remove
			pw = int64(c.Intn(4)) // 0 = remove (fails in the app if absent: a failing tx in a block, fine)
		} else {
			pw = sl.power + int64(c.Intn(4))
		}
		s.txSeq++
		s.planTx(at, makeValTx(sl.key.PubKey(), pw), fmt.Sprintf("valtx#%d(v%d->%d)", s.txSeq, sl.id, pw))
	}
	npar := 0
	if c.Chance(s.w.paramTx, s.w.paramTx+3) {
		npar = 1 + c.Intn(3)
	}
	if s.p.Knob("no_param_tx", os.Getenv("VERIF_NO_PARAM_TX")) != "" {
		npar = 0
	}
	for i := 0; i < npar; i++ {
		at := time.Duration(c.Intn(spanMs)) * time.Millisecond
		mtx := []int64{1000000, 500000, 300000}[c.Intn(3)]
		mdb := []int64{2000000, 1500000, 1200000}[c.Intn(3)]
		gas := []int64{3000000000, -1, 1000000000}[c.Intn(3)]
		iota := []int64{100, 1, 1000}[c.Intn(3)]
		s.txSeq++
		s.planTx(at, []byte(fmt.Sprintf("param:%d/%d/%d/%d/%d", mtx, mdb, gas, iota, s.txSeq)), fmt.Sprintf("paramtx#%d", s.txSeq))
	}
	// slow nodes
	if c.Chance(s.w.slow, s.w.slow+3) {
		k := 1 + c.Intn(2)
		for i := 0; i < k; i++ {
			at := time.Duration(c.Intn(spanMs)) * time.Millisecond
			dur := time.Duration(500+c.Intn(5000)) * time.Millisecond
			n := s.nodes[c.Intn(len(s.nodes))]
			s.schedule(at, -1, func() {
				if at+dur > s.net.stabAt {
					return
				}
				n.slowUntil = at + dur
				s.r.Fault("slow_node")
				s.event("slow n%d for %v", n.id, dur)
			})
		}
	}
	// clock jumps: bubble time advances with nothing delivered
	if c.Chance(s.w.clockJump, s.w.clockJump+3) {
		at := time.Duration(c.Intn(spanMs)) * time.Millisecond
		j := time.Duration(1+c.Intn(20)) * time.Second
		s.schedule(at, -1, func() {
			s.r.Fault("clock_jump")
			s.event("clock jump %v", j)
			time.Sleep(j)
			synctest.Wait()
		})
	}
	// timer skew per node (clock-rate differences)
	for _, n := range s.nodes {
		if c.Chance(1, 4) {
			n.skew = [][2]int{{1, 2}, {3, 2}, {2, 1}, {3, 1}}[c.Intn(4)]
			s.r.Fault("timer_skew")
		}
	}
	s.byz.plan(span)
	s.planCrashes(span)
	// the stabilisation point
	s.schedule(s.net.stabAt, -1, s.onStabilise)
}

func (s *sim) planTx(at time.Duration, tx []byte, desc string) {
	c := s.c
	// a client broadcasts to a few nodes (there is no mempool reactor in the simulation)
	k := 1 + c.Intn(len(s.nodes))
	start := c.Intn(len(s.nodes))
	for j := 0; j < k; j++ {
		n := s.nodes[(start+j)%len(s.nodes)]
		s.schedule(at+time.Duration(j)*time.Millisecond, n.id, func() {
			if !n.up {
				return
			}
			err := n.mem.CheckTx(types.Tx(tx), nil)
			synctest.Wait()
			s.event("tx n%d %s err=%v", n.id, desc, err != nil)
			s.afterEvent(n)
		})
	}
}

func (s *sim) walFlushTick() {
	s.schedule(s.now()+2*time.Second, -1, s.walFlushTick)
	for _, n := range s.nodes {
		if n.up && n.wal != nil && !n.wal.stopped {
			n.wal.FlushAndSync()
		}
	}
	synctest.Wait()
}

// ---------------------------------------------------------------------------
// delivery

func stepName(st cstypes.RoundStepType) string { return fmt.Sprintf("%d", st) }

func (s *sim) deliver(to *node, from int, m *netMsg) {
	if !to.up {
		s.event("lost(down) %d->%d %s", from, to.id, m.desc)
		return
	}
	peer := s.slots[from].key.PubKey().Address().ID()
	if m.claim != nil {
		s.deliverClaim(to, from, m)
		return
	}
	// the reactor drops (and disconnects) on ValidateBasic failure before the state machine sees the message
	if err := m.msg.ValidateBasic(); err != nil {
		s.r.Probe("reactor_rejected_invalid_basic")
		s.event("reject(basic) %d->%d %s", from, to.id, m.desc)
		return
	}
	switch msg := m.msg.(type) {
	case *cons.VoteMessage:
		v := msg.Vote.Copy()
		s.or.notePrevote(to, v)
		pre := s.or.preVote(to, string(peer), v)
		to.cs.AddVote(v, peer)
		synctest.Wait()
		s.event("dl %d->%d %s%s", from, to.id, m.desc, m.junk)
		s.afterEvent(to)
		s.or.postVote(to, v, pre)
	case *cons.ProposalMessage:
		pr := *msg.Proposal
		to.cs.SetProposal(&pr, peer)
		synctest.Wait()
		s.event("dl %d->%d %s%s", from, to.id, m.desc, m.junk)
		s.afterEvent(to)
	case *cons.BlockPartMessage:
		pt := *msg.Part
		pre := s.or.prePart(to, msg.Height, &pt)
		to.cs.AddProposalBlockPart(msg.Height, msg.Round, &pt, peer)
		synctest.Wait()
		s.event("dl %d->%d %s%s", from, to.id, m.desc, m.junk)
		s.afterEvent(to)
		s.or.postPart(to, msg.Height, &pt, pre)
	default:
		kernel.Harnessf("unknown message %T", m.msg)
	}
}

func (s *sim) deliverClaim(to *node, from int, m *netMsg) {
	cl := m.claim
	rs := to.cs.GetRoundState()
	if rs.Height != cl.height { // reactor: ignored
		s.event("dl %d->%d %s (other height)", from, to.id, m.desc)
		return
	}
	peer := s.slots[from].key.PubKey().Address().ID()
	wantErr, known := s.or.preClaim(to, string(peer), cl)
	err := rs.Votes.SetPeerMaj23(cl.round, cl.typ, peer, cl.id)
	s.r.Probe("maj23_claim_delivered")
	s.event("dl %d->%d %s err=%v", from, to.id, m.desc, err != nil)
	if known && wantErr != (err != nil) {
		s.fail("C35", "peer_maj23", "n%d SetPeerMaj23(%d,%d,%v) from %d: err=%v, reference expects error=%v", to.id, cl.round, cl.typ, cl.id, from, err, wantErr)
	}
}

// ---------------------------------------------------------------------------
// after every event on a node: collect outputs, feed the gossip stub, check oracles

func (s *sim) afterEvent(n *node) {
	if n.cs != nil {
		n.cs.VerifDrainStats()
	}
	n.mu.Lock()
	log, failure := n.obs, n.failure
	n.obs = nil
	n.mu.Unlock()
	nr := s.or.nref(n)
	nr.evs, nr.conflicts = nr.evs[:0], nr.conflicts[:0]

	if n.mach.Dead {
		s.onCrashed(n, log)
		return
	}
	if failure != "" {
		s.fail("C32", "consensus_failure", "n%d logged CONSENSUS FAILURE (panic in receiveRoutine) at step %d: %s", n.id, s.steps, failure)
		// (only reachable when that oracle is suppressed by the `only` knob) the process is gone
		s.event("n%d halted after CONSENSUS FAILURE", n.id)
		n.shutdown()
		n.halted = true
		return
	}
	// replay the node's observation log in its real order
	var rels []*released
	for i := range log {
		o := &log[i]
		switch {
		case o.rel != nil:
			s.or.signed(n, o.rel) // signer log (C34)
			rels = append(rels, o.rel)
		case o.ev != nil:
			nr.evs = append(nr.evs, o.ev)
			s.or.onNodeEvent(n, o.ev)
			s.probeEvent(n, o.ev)
		case o.confl != nil:
			nr.conflicts = append(nr.conflicts, *o.confl)
		case o.sched != nil:
			s.armTimer(n, *o.sched)
		}
		if s.stop {
			return
		}
	}
	rs := n.cs.GetRoundState()
	for _, rl := range rels {
		s.emitOwn(n, rs, rl)
	}
	s.or.afterEvent(n, rs)
}

func (s *sim) probeEvent(n *node, e any) {
	r := s.r
	switch x := e.(type) {
	case cstypes.EventLock:
		r.Probe("lock")
		s.or.lockEvents(n, x.HRS, "lock")
		s.byz.onLock(n, x.HRS)
	case cstypes.EventUnlock:
		r.Probe("unlock")
		s.or.lockEvents(n, x.HRS, "unlock")
	case cstypes.EventRelock:
		r.Probe("relock")
		s.or.lockEvents(n, x.HRS, "relock")
		s.byz.onLock(n, x.HRS) // a relock must refresh LockedRound: polkas of rounds below it stay powerless
	case cstypes.EventPolka:
		r.Probe("polka")
	case cstypes.EventNewValidBlock:
		r.Probe("new_valid_block")
	case cstypes.EventTimeoutPropose:
		r.Probe("timeout_propose")
	case cstypes.EventNewRound:
		if x.Round > 0 {
			r.Probe("round_gt0_entered")
		}
		s.byz.onNewRound(n, x)
	case types.EventValidatorSetUpdates:
		r.Probe("validator_set_update_applied")
	}
}

// emitOwn broadcasts what the node's private validator just released (its own
// vote / proposal + block parts) — the eager half of the gossip stub.
func (s *sim) emitOwn(n *node, rs *cstypes.RoundState, rl *released) {
	if rl.vote != nil {
		v := rl.vote
		m := &netMsg{msg: &cons.VoteMessage{Vote: v}, desc: voteDesc(v)}
		s.byz.observeVote(v)
		for _, o := range s.nodes {
			if o != n && s.honestWouldSendVote(o, v) {
				s.net.send(n.id, o, m)
			}
		}
		return
	}
	pr := rl.prop
	key := fmt.Sprintf("%d/%d", pr.Height, pr.Round)
	if n.bcastProp[key] {
		return
	}
	// the node's own parts were pushed on its internal queue right after the proposal; by now they are processed
	var ps *types.PartSet
	switch {
	case rs.ProposalBlockParts != nil && rs.ProposalBlockParts.HasHeader(pr.BlockID.PartsHeader):
		ps = rs.ProposalBlockParts
	case rs.ValidBlockParts != nil && rs.ValidBlockParts.HasHeader(pr.BlockID.PartsHeader):
		ps = rs.ValidBlockParts
	case rs.LockedBlockParts != nil && rs.LockedBlockParts.HasHeader(pr.BlockID.PartsHeader):
		ps = rs.LockedBlockParts
	}
	var parts []*types.Part
	if ps != nil && ps.IsComplete() {
		parts = make([]*types.Part, ps.Total())
		for i := range parts {
			parts[i] = ps.GetPart(i)
		}
	} else if meta := n.bs.LoadBlockMeta(pr.Height); meta != nil && meta.BlockID.PartsHeader.Equals(pr.BlockID.PartsHeader) {
		// the node committed its own proposal within the same event (it alone holds > 2/3 of the power)
		parts = make([]*types.Part, meta.BlockID.PartsHeader.Total)
		for i := range parts {
			parts[i] = n.bs.LoadBlockPart(pr.Height, i)
		}
	} else {
		// moved on (e.g. committed another block meanwhile); nothing of this proposal is left to send
		s.r.Probe("own_proposal_parts_unavailable")
		return
	}
	n.bcastProp[key] = true
	if pr.POLRound >= 0 {
		s.r.Probe("valid_block_reproposal")
	}
	s.or.registerBlock(pr.BlockID, parts, "", n.id)
	if len(parts) > 1 {
		s.r.Probe("multi_part_block_proposed")
	}
	pm := &netMsg{msg: &cons.ProposalMessage{Proposal: pr}, desc: fmt.Sprintf("proposal %d/%d %s pol=%d", pr.Height, pr.Round, short(pr.BlockID.Hash), pr.POLRound)}
	for _, o := range s.nodes {
		if o == n || !o.up {
			continue
		}
		// gossipDataRoutine sends the proposal (and the parts for the header it announces) only to a peer at the same height/round
		if ro := o.cs.GetRoundState(); ro.Height != pr.Height || ro.Round != pr.Round {
			continue
		}
		s.net.send(n.id, o, pm)
		for i, p := range parts {
			s.net.send(n.id, o, &netMsg{msg: &cons.BlockPartMessage{Height: pr.Height, Round: pr.Round, Part: p}, desc: fmt.Sprintf("part %d/%d #%d/%d %s", pr.Height, pr.Round, i, len(parts), short(pr.BlockID.PartsHeader.Hash))})
		}
	}
	s.byz.observeProposal(pr, parts)
}

// honestWouldSendVote: would an honest node's gossipVotesRoutine send vote v to peer b, given b's (true) round
// state? The reactor sends votes of the peer's own round, of the POL round of the peer's proposal, LastCommit
// precommits while the peer is in the NewHeight step, and the commit's precommits to a peer on a lower height.
// Votes of other rounds reach a node only through byzantine relays.
func (s *sim) honestWouldSendVote(b *node, v *types.Vote) bool {
	if !b.up {
		return true // lost anyway
	}
	rb := b.cs.GetRoundState()
	switch {
	case v.Height == rb.Height:
		if v.Round == rb.Round {
			return true
		}
		return v.Type == types.PrevoteType && rb.Proposal != nil && rb.Proposal.POLRound == v.Round
	case v.Height+1 == rb.Height:
		return v.Type == types.PrecommitType && rb.Step == cstypes.RoundStepNewHeight
	case v.Height > rb.Height:
		return false
	}
	return false
}

func voteDesc(v *types.Vote) string {
	return fmt.Sprintf("vote t%d %d/%d v%d %s", v.Type, v.Height, v.Round, v.ValidatorIndex, short(v.BlockID.Hash))
}

// ---------------------------------------------------------------------------
// the simulator's model of the TimeoutTicker (ticker.go's rule: a new request
// replaces the pending one unless it is for an older height/round/step)

func (s *sim) armTimer(n *node, st cons.SimTimeout) {
	if n.timerSet {
		old := n.timer
		if st.Height < old.Height {
			return
		} else if st.Height == old.Height {
			if st.Round < old.Round {
				return
			} else if st.Round == old.Round && old.Step > 0 && st.Step <= old.Step {
				return
			}
		}
	}
	n.timer, n.timerSet = st, true
	n.timerGen++
	gen, life := n.timerGen, n.life
	d := st.Duration
	if d < 0 {
		d = 0
	}
	d = d * time.Duration(n.skew[0]) / time.Duration(n.skew[1])
	s.schedule(s.now()+d, n.id, func() {
		if !n.up || n.life != life || n.timerGen != gen {
			return
		}
		n.ticker.Fire(st)
		synctest.Wait()
		s.event("timeout n%d %d/%d/%d", n.id, st.Height, st.Round, st.Step)
		s.afterEvent(n)
	})
}

// ---------------------------------------------------------------------------
// anti-entropy stub: plays the role of the reactor's gossip routines

func (s *sim) antiEntropyTick() {
	s.schedule(s.now()+s.aePeriod, -1, s.antiEntropyTick)
	if len(s.nodes) < 2 {
		return
	}
	if s.net.perfect {
		for _, a := range s.nodes {
			for _, b := range s.nodes {
				if a != b {
					s.antiEntropy(a, b, 1<<20)
				}
			}
		}
		return
	}
	i := s.c.Intn(len(s.nodes))
	j := s.c.Intn(len(s.nodes) - 1)
	if j >= i {
		j++
	}
	s.antiEntropy(s.nodes[i], s.nodes[j], s.aeBudget)
	if s.now() >= s.net.stabAt { // after stabilisation gossip is systematic
		for k, a := range s.nodes {
			b := s.nodes[(k+1+s.steps%(len(s.nodes)-1))%len(s.nodes)]
			if a != b {
				s.antiEntropy(a, b, s.aeBudget)
			}
		}
	}
}

// antiEntropy offers b what a has and b lacks (looking at both nodes' true state: an omniscient
// stand-in for PeerState bookkeeping), through simnet.
func (s *sim) antiEntropy(a, b *node, budget int) {
	if !a.up || !b.up || a.slowUntil > s.now() {
		return
	}
	ra, rb := a.cs.GetRoundState(), b.cs.GetRoundState()
	sent := 0
	send := func(m *netMsg) bool {
		if sent >= budget {
			return false
		}
		sent++
		s.net.send(a.id, b, m)
		return true
	}
	sendVotes := func(src interface {
		GetByIndex(int) *types.Vote
		Size() int
	}, have func(i int) bool) {
		if src == nil {
			return
		}
		for i := 0; i < src.Size(); i++ {
			v := src.GetByIndex(i)
			if v == nil || have(i) {
				continue
			}
			if !send(&netMsg{msg: &cons.VoteMessage{Vote: v}, desc: "ae " + voteDesc(v)}) {
				return
			}
		}
	}
	switch {
	case ra.Height == rb.Height:
		if ra.Proposal != nil && rb.Proposal == nil && ra.Round == rb.Round {
			pr := ra.Proposal
			send(&netMsg{msg: &cons.ProposalMessage{Proposal: pr}, desc: fmt.Sprintf("ae proposal %d/%d %s pol=%d", pr.Height, pr.Round, short(pr.BlockID.Hash), pr.POLRound)})
		}
		if ra.ProposalBlockParts != nil && rb.ProposalBlockParts != nil && ra.ProposalBlockParts.HasHeader(rb.ProposalBlockParts.Header()) {
			ba, bb := ra.ProposalBlockParts.BitArray(), rb.ProposalBlockParts.BitArray()
			for i := 0; i < ra.ProposalBlockParts.Total(); i++ {
				if ba.GetIndex(i) && !bb.GetIndex(i) {
					p := ra.ProposalBlockParts.GetPart(i)
					if !send(&netMsg{msg: &cons.BlockPartMessage{Height: ra.Height, Round: ra.Round, Part: p}, desc: fmt.Sprintf("ae part %d/%d #%d %s", ra.Height, ra.Round, i, short(ra.ProposalBlockParts.Header().Hash))}) {
						break
					}
				}
			}
		}
		if rb.Step == cstypes.RoundStepNewHeight && ra.LastCommit != nil && rb.LastCommit != nil {
			sendVotes(ra.LastCommit, func(i int) bool { return rb.LastCommit.GetByIndex(i) != nil })
		}
		if s.net.omni {
			// (i) the block b waits for, from wherever a holds it
			if rb.ProposalBlockParts != nil && !rb.ProposalBlockParts.IsComplete() {
				hdr := rb.ProposalBlockParts.Header()
				bb := rb.ProposalBlockParts.BitArray()
				for i := 0; i < hdr.Total; i++ {
					if bb.GetIndex(i) {
						continue
					}
					// any of a's part sets may hold part i (a re-proposal resets ProposalBlockParts to an empty set
					// with the same header while the locked/valid copy is complete)
					for _, ps := range []*types.PartSet{ra.ProposalBlockParts, ra.LockedBlockParts, ra.ValidBlockParts} {
						if ps == nil || !ps.HasHeader(hdr) {
							continue
						}
						if p := ps.GetPart(i); p != nil {
							send(&netMsg{msg: &cons.BlockPartMessage{Height: rb.Height, Round: rb.Round, Part: p}, desc: fmt.Sprintf("omni part %d #%d %s", rb.Height, i, short(hdr.Hash))})
							break
						}
					}
				}
			}
			// (ii) every vote of every round a knows; a node waiting in the commit step only gets rounds up to its own
			// (later rounds' votes are what a byzantine peer would have to relay, see liveness_wedged_...)
			for r := 0; r <= ra.Votes.Round(); r++ {
				if rb.Step == cstypes.RoundStepCommit && r > rb.Round {
					break
				}
				for _, t := range []types.SignedMsgType{types.PrevoteType, types.PrecommitType} {
					var va, vb *types.VoteSet
					if t == types.PrevoteType {
						va, vb = ra.Votes.Prevotes(r), rb.Votes.Prevotes(r)
					} else {
						va, vb = ra.Votes.Precommits(r), rb.Votes.Precommits(r)
					}
					if va != nil {
						sendVotes(va, func(i int) bool { return vb != nil && vb.GetByIndex(i) != nil })
					}
				}
			}
		}
		// gossipVotesForHeight: votes of the PEER's round (and of its proposal's POL round); queryMaj23Routine +
		// VoteSetBits: the majority we know for those rounds, and the votes for that block the peer lacks
		rounds := []int{rb.Round}
		if rb.Proposal != nil && rb.Proposal.POLRound >= 0 && rb.Proposal.POLRound != rb.Round {
			rounds = append(rounds, rb.Proposal.POLRound)
		}
		for _, r := range rounds {
			if r > ra.Votes.Round() {
				continue
			}
			for _, t := range []types.SignedMsgType{types.PrevoteType, types.PrecommitType} {
				if r != rb.Round && t == types.PrecommitType {
					continue
				}
				var va, vb *types.VoteSet
				if t == types.PrevoteType {
					va, vb = ra.Votes.Prevotes(r), rb.Votes.Prevotes(r)
				} else {
					va, vb = ra.Votes.Precommits(r), rb.Votes.Precommits(r)
				}
				if va == nil {
					continue
				}
				sendVotes(va, func(i int) bool { return vb != nil && vb.GetByIndex(i) != nil })
				if id, ok := va.TwoThirdsMajority(); ok {
					if _, okb := vb.TwoThirdsMajority(); !okb {
						s.aeMaj23(a, b, ra.Height, r, t, id, va, vb, send)
					}
				}
			}
		}
	case ra.Height > rb.Height:
		// b lags: the commit for b's height, then the block parts from a's store
		var src interface {
			GetByIndex(int) *types.Vote
			Size() int
		}
		var cid types.BlockID
		cround := -1
		if ra.Height == rb.Height+1 && ra.LastCommit != nil {
			if id, ok := ra.LastCommit.TwoThirdsMajority(); ok {
				src, cid, cround = ra.LastCommit, id, ra.LastCommit.Round()
			}
		} else if commit := a.bs.LoadBlockCommit(rb.Height); commit != nil {
			src, cid, cround = commit, commit.BlockID, commit.Round()
		}
		if src != nil {
			vb := rb.Votes.Precommits(cround)
			if _, okb := vb.TwoThirdsMajority(); !okb {
				s.aeMaj23(a, b, rb.Height, cround, types.PrecommitType, cid, src, vb, send)
			}
			// ps.PickSendVote(commit): whatever the peer lacks by validator index
			sendVotes(src, func(i int) bool { return vb != nil && vb.GetByIndex(i) != nil })
		}
		// gossipDataForCatchup: the peer state's part-set header is initialised from OUR block meta when the peer
		// announced none, so the committed block's parts are offered whether or not the peer expects them
		if meta := a.bs.LoadBlockMeta(rb.Height); meta != nil {
			var bb interface{ GetIndex(int) bool }
			expects := rb.ProposalBlockParts != nil && rb.ProposalBlockParts.HasHeader(meta.BlockID.PartsHeader)
			if expects {
				bb = rb.ProposalBlockParts.BitArray()
			}
			if expects || s.net.perfect || s.now() >= s.net.stabAt {
				for i := 0; i < meta.BlockID.PartsHeader.Total; i++ {
					if bb != nil && bb.GetIndex(i) {
						continue
					}
					p := a.bs.LoadBlockPart(rb.Height, i)
					if p == nil || !send(&netMsg{msg: &cons.BlockPartMessage{Height: rb.Height, Round: rb.Round, Part: p}, desc: fmt.Sprintf("ae catchup part %d #%d %s", rb.Height, i, short(meta.BlockID.PartsHeader.Hash))}) {
						break
					}
					if !expects {
						break // one unexpected part per pass is enough to show it is ignored
					}
				}
			}
		}
	}
	if sent > 0 {
		s.r.Probe("anti_entropy_msgs")
	}
}

// aeMaj23: a knows +2/3 for block id at (h, r, t); b does not. Claim it, then offer the votes for id that b lacks
// according to b's per-block bit array (the reactor's VoteSetMaj23 / VoteSetBits exchange).
func (s *sim) aeMaj23(a, b *node, h int64, r int, t types.SignedMsgType, id types.BlockID, src interface {
	GetByIndex(int) *types.Vote
	Size() int
}, vb *types.VoteSet, send func(*netMsg) bool) {
	if !send(&netMsg{claim: &claimMsg{height: h, round: r, typ: t, id: id}, desc: fmt.Sprintf("claim t%d %d/%d %s", t, h, r, short(id.Hash))}) {
		return
	}
	var bb interface{ GetIndex(int) bool }
	if vb != nil {
		if x := vb.BitArrayByBlockID(id); x != nil {
			bb = x
		}
	}
	for i := 0; i < src.Size(); i++ {
		v := src.GetByIndex(i)
		if v == nil || !v.BlockID.Equals(id) || (bb != nil && bb.GetIndex(i)) {
			continue
		}
		if !send(&netMsg{msg: &cons.VoteMessage{Vote: v}, desc: "ae " + voteDesc(v)}) {
			return
		}
	}
}

// ---------------------------------------------------------------------------
// stabilisation and bounded liveness (C31 / C33)

func (s *sim) onStabilise() {
	if s.liveStage != 0 {
		return
	}
	s.event("stabilise")
	s.stabHeight = map[int]int64{}
	var maxH int64
	for _, n := range s.nodes {
		n.slowUntil = 0
		n.skew = [2]int{1, 1} // clock-rate differences are faults too (a 3x slower timer is beyond partial synchrony)
		n.mach.CrashAt = 0    // crashes are faults: none after the stabilisation point
		n.pendingCrash = nil
		if n.up {
			h := n.bs.Height()
			s.stabHeight[n.id] = h
			if h > maxH {
				maxH = h
			}
		}
	}
	if maxH < s.initialH-1 {
		maxH = s.initialH - 1
	}
	s.liveGoal = maxH + 2
	s.liveStage = 1
	s.liveDeadline = s.now() + s.roundBudget(20)
	s.endAt = s.now() + 2*s.roundBudget(20) + 10*time.Second
	s.restartAllDown()
}

func (s *sim) liveReached() bool {
	for _, n := range s.nodes {
		if n.halted {
			continue
		}
		if !n.up || n.bs.Height() < s.liveGoal {
			return false
		}
	}
	return true
}

func (s *sim) checkLiveness() {
	if s.liveStage == 0 || s.liveStage == 3 {
		return
	}
	for _, n := range s.nodes {
		if n.halted || s.tainted {
			// a node was lost to a (known) finding earlier in the run: liveness of the rest is not decidable
			if s.r.Inconcl == "" {
				s.r.Inconcl = "a node was lost to a known finding; liveness not evaluated"
			}
			s.liveStage = 3
			s.stop = true
			return
		}
	}
	if s.liveReached() {
		if s.liveStage == 2 {
			s.r.Inconcl = "liveness bound missed with the anti-entropy stub, met with perfect gossip"
		}
		if s.liveStage == 4 {
			// the stall depended on what the (stubbed) reactor serves to whom: not decidable without the real reactor
			s.r.Inconcl = "liveness bound missed with reactor-equivalent perfect gossip, met with omniscient gossip (reactor is a stub: not decided)"
			s.r.Probe("stall_resolved_only_by_omniscient_gossip")
			if o, _ := s.stallClass, ""; o != "" {
				s.r.Probe("stall_resolved_only_by_omniscient_gossip:" + o)
			}
		}
		s.r.Probe("liveness_after_stabilisation")
		s.liveStage = 3
		s.stop = true // run complete
		return
	}
	if s.now() < s.liveDeadline {
		return
	}
	if s.liveStage == 1 {
		// attribute to the gossip stub first: perfect gossip from now on
		s.event("liveness bound missed; switching to perfect gossip")
		s.r.Probe("liveness_retry_perfect_gossip")
		s.net.perfect = true
		s.liveStage = 2
		s.liveDeadline = s.now() + s.roundBudget(20)
		s.maxSteps += 4000
		return
	}
	if s.liveStage == 2 {
		// second miss. Before calling it a defect of the state machine, rule out the gossip stub altogether: offer every
		// vote of every round and the block parts held as locked/valid block, i.e. more than any reactor would.
		// Only a stall that survives this is independent of the reactor (which is not run) and reported.
		s.stallClass, _ = s.classifyStall()
		s.event("liveness bound missed with perfect gossip (%s); switching to omniscient gossip", s.stallClass)
		s.r.Probe("liveness_retry_omniscient_gossip")
		s.net.omni = true
		s.liveStage = 4
		s.liveDeadline = s.now() + s.roundBudget(20)
		s.endAt = s.liveDeadline + 10*time.Second
		s.maxSteps += 4000
		return
	}
	var hs []string
	for _, n := range s.nodes {
		if !n.up {
			hs = append(hs, fmt.Sprintf("n%d:down", n.id))
			continue
		}
		rs := n.cs.GetRoundState()
		pbp := "nil"
		if rs.ProposalBlockParts != nil {
			pbp = fmt.Sprintf("%v(%d)", rs.ProposalBlockParts.Header(), rs.ProposalBlockParts.Count())
		}
		hs = append(hs, fmt.Sprintf("n%d:store=%d hrs=%d/%d/%d commitRound=%d parts=%s locked=%d votes=%s", n.id, n.bs.Height(), rs.Height, rs.Round, rs.Step, rs.CommitRound, pbp, rs.LockedRound, strings.ReplaceAll(rs.Votes.StringIndented(""), "\n", " ")))
	}
	prop := "C31"
	if s.crashesFired > 0 {
		prop = "C33"
	}
	oracle, why := s.classifyStall()
	if strings.HasPrefix(oracle, "liveness_") {
		prop = "C31" // the analysed consensus stall patterns are C31 findings whatever else happened in the run
	} else if strings.HasPrefix(oracle, "stall_after_restart") {
		prop = "C33"
	}
	s.liveStage = 3
	s.stop = true
	s.fail(prop, oracle, why+"after stabilisation at %v (faults stopped, byzantine silent) and then perfect gossip, honest nodes did not all reach height %d within 3x20 rounds of timeouts (the last 20 with omniscient gossip: every vote of every round and locked/valid block parts offered to everybody): %s",
		s.net.stabAt, s.liveGoal, strings.Join(hs, " "))
}

// classifyStall names the two stall patterns that were analysed as defects of the code under test
// (NOTES.md, "findings"), so that they can be listed in KNOWN_FINDINGS without masking other stalls.
func (s *sim) classifyStall() (oracle, why string) {
	// (1) every proposer's LastCommit yields a median time that is not after the last block time
	var top *node
	for _, n := range s.nodes {
		if n.up && (top == nil || n.bs.Height() > top.bs.Height()) {
			top = n
		}
	}
	if top != nil {
		rs := top.cs.GetRoundState()
		st := top.cs.GetState()
		if rs.LastCommit != nil && rs.LastCommit.HasTwoThirdsMajority() && rs.Height == st.LastBlockHeight+1 {
			mt := smMedian(rs.LastCommit.MakeCommit(), st.LastValidators)
			if !mt.After(st.LastBlockTime) {
				return "liveness_median_time_not_after_last_block", fmt.Sprintf("[every proposal for height %d is invalid: the weighted median %v of n%d's LastCommit (which includes stray nil precommits stamped with the wall clock) is not after the last block time %v, which runs ahead of the clock by TimeIota per block; configuration: TimeIotaMS=%d (default 100), TimeoutCommit=%v, wall clock now %v] ", rs.Height, mt, top.id, st.LastBlockTime, st.ConsensusParams.Block.TimeIotaMS, s.csConfig.TimeoutCommit, time.Now().UTC().Format("15:04:05.000"))
			}
		}
	}
	// (2) a node left the Commit step (round skip on +2/3-any of a later round) and never finalises
	for _, n := range s.nodes {
		if !n.up {
			continue
		}
		rs := n.cs.GetRoundState()
		if rs.CommitRound >= 0 && rs.Step != cstypes.RoundStepCommit && n.bs.Height() < rs.Height {
			if pc := rs.Votes.Precommits(rs.CommitRound); pc != nil {
				if id, ok := pc.TwoThirdsMajority(); ok && !id.IsZero() {
					return "liveness_wedged_after_leaving_commit_step", fmt.Sprintf("[n%d holds +2/3 precommits for %X at %d/%d (CommitRound set) but was moved out of RoundStepCommit to %d/%d/%d by +2/3-any votes of a later round; ProposalBlockParts was reset and nothing re-enters the commit] ", n.id, id.Hash, rs.Height, rs.CommitRound, rs.Height, rs.Round, rs.Step)
				}
			}
		}
	}
	// (2b) a node sits in RoundStepCommit without (all of) the committed block, and the only honest holders keep it
	// as their LOCKED/VALID block in a later round, where gossipDataRoutine does not serve it (it serves
	// rs.ProposalBlockParts only); with the byzantine validators silent the holders cannot finish a round alone
	for _, n := range s.nodes {
		if !n.up {
			continue
		}
		rs := n.cs.GetRoundState()
		if rs.Step != cstypes.RoundStepCommit || rs.ProposalBlockParts == nil || rs.ProposalBlockParts.IsComplete() {
			continue
		}
		hdr := rs.ProposalBlockParts.Header()
		for _, o := range s.nodes {
			if o == n || !o.up {
				continue
			}
			ro := o.cs.GetRoundState()
			if ro.Height != rs.Height {
				continue
			}
			holds := (ro.LockedBlockParts != nil && ro.LockedBlockParts.HasHeader(hdr)) || (ro.ValidBlockParts != nil && ro.ValidBlockParts.HasHeader(hdr))
			serves := ro.ProposalBlockParts != nil && ro.ProposalBlockParts.HasHeader(hdr)
			if holds && !serves {
				pbp := "nil"
				if ro.ProposalBlockParts != nil {
					pbp = ro.ProposalBlockParts.Header().String()
				}
				return "liveness_commit_step_starved_of_block_parts", fmt.Sprintf("[n%d is in RoundStepCommit of %d/%d with %d of %d parts of block %v; n%d holds that block as its locked/valid block in round %d but its ProposalBlockParts is %s, and gossipDataRoutine only serves rs.ProposalBlockParts to a peer of the same height; the rest of the honest power cannot complete a round without n%d] ",
					n.id, rs.Height, rs.CommitRound, rs.ProposalBlockParts.Count(), hdr.Total, hdr, o.id, ro.Round, pbp, n.id)
			}
		}
	}
	// (3) validators that restarted into the stuck height without their WAL (see the anomaly probes): they neither
	// re-send the votes they had signed nor can they sign other ones for those rounds (privval: same HRS)
	for _, n := range s.nodes {
		if !n.up {
			continue
		}
		rs := n.cs.GetRoundState()
		if why, ok := n.noReplay[rs.Height]; ok && n.bs.Height() < rs.Height {
			o := "stall_after_restart_in_first_height"
			if why == "_no_end_height_marker" {
				o = "stall_after_restart_without_end_height_marker"
			} else if why != "_first_height" {
				continue
			}
			return o, fmt.Sprintf("[n%d restarted into height %d without WAL catch-up replay (%s): its pre-crash votes are neither in its vote sets (not re-gossiped) nor can it sign different ones for the same rounds] ", n.id, rs.Height, strings.TrimPrefix(why, "_"))
		}
	}
	return "liveness", ""
}

func (s *sim) finish() {
	if s.r.Violation != nil {
		return
	}
	if s.liveStage != 3 && s.liveStage != 0 && s.r.Inconcl == "" {
		s.r.Inconcl = "run ended (step budget) before the liveness bound could be evaluated"
	}
	// end-of-run sweeps
	for _, n := range s.nodes {
		if n.up {
			s.or.sweepStores(n, "end")
			if s.stop && s.r.Violation != nil {
				return
			}
		}
	}
	nodes2 := 0
	for _, n := range s.nodes {
		if s.honestCommits[n.id] >= 2 {
			nodes2++
		}
	}
	faults := 0
	for _, k := range kernel.SortedKeys(s.r.Faults) {
		faults += s.r.Faults[k]
	}
	s.r.Nontrivial = nodes2 >= 2 && faults > 0
	s.r.ProbeN("heights_committed", int(s.or.maxHeight()-(s.initialH-1)))
}

var _ = abci.ResponseCommit{}

// event records a simulator event in the run's trace (and prints it when VERIF_SIM_TRACE is set).
func (s *sim) event(format string, args ...any) {
	s.c.Event(format, args...)
	if s.trace {
		fmt.Fprintf(os.Stderr, "%10.3f #%d %s\n", s.now().Seconds(), s.steps, fmt.Sprintf(format, args...))
	}
}

var smMedian = sm.MedianTime

func envInt(name string, def int) int {
	var v int
	if _, err := fmt.Sscanf(os.Getenv(name), "%d", &v); err != nil {
		return def
	}
	return v
}
