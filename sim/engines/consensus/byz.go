package consensus_sim

// Byzantine validators: simulator-controlled signers holding real keys. They run
// no ConsensusState; they look at the honest nodes' public round state and at
// the traffic they "hear", and craft equivocating proposals / votes, selective
// deliveries, POLRound lies, invalid blocks (single-field mutations), malformed
// parts, replayed and tampered votes, and false +2/3 claims. They stop at the
// stabilisation point.
import (
	"fmt"
	"time"

	cons "github.com/gnolang/gno/tm2/pkg/bft/consensus"
	cstypes "github.com/gnolang/gno/tm2/pkg/bft/consensus/types"
	sm "github.com/gnolang/gno/tm2/pkg/bft/state"
	"github.com/gnolang/gno/tm2/pkg/bft/types"
	tmtime "github.com/gnolang/gno/tm2/pkg/bft/types/time"
)

type byzActor struct {
	s     *sim
	ids   []int
	props []heardProp
	done  map[string]bool // one reaction per (slot, height, round, kind)
	prevotes map[int64][]*types.Vote // honest non-nil prevotes heard, per (recent) height
	allPrevotes map[int64][]*types.Vote // all honest prevotes heard, per (recent) height
	style int             // 0 amplify+split, 1 mostly silent, 2 chaotic
}

type heardProp struct {
	pr    *types.Proposal
	parts []*types.Part
}

func newByzActor(s *sim) *byzActor {
	b := &byzActor{s: s, done: map[string]bool{}}
	for _, sl := range s.slots {
		if sl.byz {
			b.ids = append(b.ids, sl.id)
		}
	}
	if len(b.ids) > 0 {
		b.style = s.c.Weighted([]int{3, 1, 2})
	}
	return b
}

func (b *byzActor) active() bool {
	return len(b.ids) > 0 && b.s.now() < b.s.net.stabAt && !b.s.net.perfect
}

func (b *byzActor) once(kind string, slot int, h int64, r int) bool {
	k := fmt.Sprintf("%s/%d/%d/%d", kind, slot, h, r)
	if b.done[k] {
		return false
	}
	b.done[k] = true
	return true
}

func (b *byzActor) valIndex(vals *types.ValidatorSet, slot int) int {
	i, _ := vals.GetByAddress(b.s.slots[slot].key.PubKey().Address())
	return i
}

func (b *byzActor) signVote(slot int, vals *types.ValidatorSet, t types.SignedMsgType, h int64, r int, id types.BlockID, ts time.Time) *types.Vote {
	s := b.s
	idx := b.valIndex(vals, slot)
	if idx < 0 {
		return nil
	}
	v := &types.Vote{Type: t, Height: h, Round: r, BlockID: id, Timestamp: ts, ValidatorAddress: s.slots[slot].key.PubKey().Address(), ValidatorIndex: idx}
	sig, err := s.slots[slot].key.Sign(v.SignBytes(s.chainID))
	if err != nil {
		panic(err)
	}
	v.Signature = sig
	return v
}

func (b *byzActor) sendVote(slot int, to *node, v *types.Vote, tag string) {
	b.s.net.send(slot, to, &netMsg{msg: &cons.VoteMessage{Vote: v}, desc: "byz " + voteDesc(v), junk: tag})
}

// subset draws a non-deterministic-looking but tape-driven subset of honest nodes.
func (b *byzActor) subset() []*node {
	var out []*node
	for _, n := range b.s.nodes {
		if b.s.c.Bool() {
			out = append(out, n)
		}
	}
	return out
}

func (b *byzActor) observeVote(v *types.Vote) {
	if len(b.s.heardVotes) < 400 {
		b.s.heardVotes = append(b.s.heardVotes, v)
	}
	if len(b.ids) > 0 && v.Type == types.PrevoteType {
		if b.allPrevotes == nil {
			b.allPrevotes = map[int64][]*types.Vote{}
		}
		if len(b.allPrevotes[v.Height]) < 300 {
			b.allPrevotes[v.Height] = append(b.allPrevotes[v.Height], v)
		}
		delete(b.allPrevotes, v.Height-2)
	}
	if len(b.ids) > 0 && v.Type == types.PrevoteType && !v.BlockID.IsZero() {
		if b.prevotes == nil {
			b.prevotes = map[int64][]*types.Vote{}
		}
		if len(b.prevotes[v.Height]) < 200 {
			b.prevotes[v.Height] = append(b.prevotes[v.Height], v)
		}
		delete(b.prevotes, v.Height-2)
	}
}

// onCommitWait: an honest node has +2/3 precommits for a block it has not received yet (RoundStepCommit,
// waiting for parts). A byzantine validator relays to it the honest prevotes of a LATER round it has heard
// (the honest reactor only sends a peer the votes of that peer's own round), topped up with its own.
func (b *byzActor) onCommitWait(n *node) {
	if !b.active() || b.style == 1 {
		return
	}
	s := b.s
	rs := n.cs.GetRoundState()
	if !b.once("cwait", n.id, rs.Height, rs.Round) {
		return
	}
	var bp int64
	for _, slot := range b.ids {
		if _, v := rs.Validators.GetByAddress(s.slots[slot].key.PubKey().Address()); v != nil {
			bp += v.VotingPower
		}
	}
	best := -1
	byRound := map[int][]*types.Vote{}
	pw := map[int]int64{}
	for _, v := range b.allPrevotes[rs.Height] {
		if v.Round <= rs.Round {
			continue
		}
		dup := false
		for _, o := range byRound[v.Round] {
			if o.ValidatorIndex == v.ValidatorIndex {
				dup = true
			}
		}
		if dup {
			continue
		}
		if _, val := rs.Validators.GetByIndex(v.ValidatorIndex); val != nil {
			byRound[v.Round] = append(byRound[v.Round], v)
			pw[v.Round] += val.VotingPower
			if 3*(pw[v.Round]+bp) > 2*rs.Validators.TotalVotingPower() && v.Round > best {
				best = v.Round
			}
		}
	}
	if best < 0 {
		return
	}
	s.r.Fault("byz_future_round_votes_to_committing_node")
	s.event("byz relays round-%d prevotes of height %d to n%d, which waits in the commit step of round %d", best, rs.Height, n.id, rs.Round)
	from := b.ids[0]
	for _, v := range byRound[best] {
		s.net.send(from, n, &netMsg{msg: &cons.VoteMessage{Vote: v}, desc: "relay " + voteDesc(v)})
	}
	for _, slot := range b.ids {
		if pv := b.signVote(slot, rs.Validators, types.PrevoteType, rs.Height, best, types.BlockID{}, tmtime.Now()); pv != nil {
			b.sendVote(slot, n, pv, "")
		}
	}
}

// onLock: an honest node just locked block B in round r. If, with the byzantine validators' help, an
// EARLIER round r' < r of this height has +2/3 prevotes for another block A, hand that stale polka to the
// locked node (replayed honest prevotes + fresh byzantine ones). A correct node keeps its lock.
func (b *byzActor) onLock(n *node, hrs cstypes.HRS) {
	// (also in the "mostly silent" style: a validator that withholds its prevotes is the one that creates
	// hidden polkas, i.e. rounds in which the honest prevotes for a block need only its vote to reach +2/3)
	if !b.active() || !b.once("stale", n.id, hrs.Height, hrs.Round) {
		return
	}
	s := b.s
	rs := n.cs.GetRoundState()
	if rs.Height != hrs.Height || rs.LockedBlock == nil {
		return
	}
	locked := rs.LockedBlock.Hash()
	var bp int64
	for _, slot := range b.ids {
		if _, v := rs.Validators.GetByAddress(s.slots[slot].key.PubKey().Address()); v != nil {
			bp += v.VotingPower
		}
	}
	type grp struct {
		id    types.BlockID
		votes []*types.Vote
		pw    int64
	}
	groups := map[string]*grp{}
	var keys []string
	for _, v := range b.prevotes[hrs.Height] {
		if v.Round >= hrs.Round || string(v.BlockID.Hash) == string(locked) {
			continue
		}
		if sl := s.slotByAddr(v.ValidatorAddress); sl == nil || sl.byz {
			continue
		}
		k := fmt.Sprintf("%03d/%x", v.Round, v.BlockID.Hash)
		g := groups[k]
		if g == nil {
			g = &grp{id: v.BlockID}
			groups[k] = g
			keys = append(keys, k)
		}
		dup := false
		for _, o := range g.votes {
			if o.ValidatorIndex == v.ValidatorIndex {
				dup = true
			}
		}
		if !dup {
			_, val := rs.Validators.GetByIndex(v.ValidatorIndex)
			if val != nil {
				g.votes = append(g.votes, v)
				g.pw += val.VotingPower
			}
		}
	}
	sortStrings(keys)
	for i := len(keys) - 1; i >= 0; i-- { // latest round first
		g := groups[keys[i]]
		if !(3*(g.pw+bp) > 2*rs.Validators.TotalVotingPower()) {
			continue
		}
		r := g.votes[0].Round
		s.r.Fault("byz_stale_polka_to_locked_node")
		s.event("byz hands n%d a stale polka %d/%d %s (locked %s at round %d)", n.id, hrs.Height, r, short(g.id.Hash), short(locked), hrs.Round)
		from := b.ids[0]
		for _, v := range g.votes {
			s.net.send(from, n, &netMsg{msg: &cons.VoteMessage{Vote: v}, desc: "replay " + voteDesc(v)})
		}
		for _, slot := range b.ids {
			if pv := b.signVote(slot, rs.Validators, types.PrevoteType, hrs.Height, r, g.id, tmtime.Now()); pv != nil {
				b.sendVote(slot, n, pv, "")
			}
		}
		return
	}
}

// observeProposal: an honest proposal went on the wire. Style 0 amplifies it: prevote for it to
// everybody, precommit for it to a drawn subset only (so that some nodes commit and others move on).
func (b *byzActor) observeProposal(pr *types.Proposal, parts []*types.Part) {
	if len(b.props) < 60 {
		b.props = append(b.props, heardProp{pr, parts})
	}
	if len(b.ids) == 0 || !b.active() || b.style == 1 {
		return
	}
	s := b.s
	ref := s.nodes[0]
	for _, n := range s.nodes {
		if n.up {
			ref = n
			break
		}
	}
	rs := ref.cs.GetRoundState()
	if rs.Height != pr.Height {
		return
	}
	for _, slot := range b.ids {
		if !b.once("amp", slot, pr.Height, pr.Round) || !s.c.Chance(2, 3) {
			continue
		}
		now := tmtime.Now()
		pv := b.signVote(slot, rs.Validators, types.PrevoteType, pr.Height, pr.Round, pr.BlockID, now)
		if pv == nil {
			continue
		}
		s.r.Fault("byz_amplify")
		for _, n := range s.nodes {
			b.sendVote(slot, n, pv, "")
		}
		pc := b.signVote(slot, rs.Validators, types.PrecommitType, pr.Height, pr.Round, pr.BlockID, now.Add(time.Millisecond))
		var sub []*node
		if s.c.Bool() { // exactly one node gets the precommit: it tends to commit alone
			sub = []*node{s.nodes[s.c.Intn(len(s.nodes))]}
		} else {
			sub = b.subset()
		}
		for _, n := range sub {
			// a little later, so that it tends to arrive after the prevotes
			m := &netMsg{msg: &cons.VoteMessage{Vote: pc}, desc: "byz " + voteDesc(pc)}
			d := time.Duration(s.c.Intn(300)) * time.Millisecond
			nn := n
			s.schedule(s.now()+d, -1, func() { s.net.send(slot, nn, m) })
		}
		if len(sub) < len(s.nodes) {
			// the others get a precommit for nil: an equivocation
			nilpc := b.signVote(slot, rs.Validators, types.PrecommitType, pr.Height, pr.Round, types.BlockID{}, now.Add(time.Millisecond))
			in := map[int]bool{}
			for _, n := range sub {
				in[n.id] = true
			}
			for _, n := range s.nodes {
				if !in[n.id] && s.c.Bool() {
					s.r.Fault("byz_equivocating_precommit")
					b.sendVote(slot, n, nilpc, "")
				}
			}
		}
	}
}

// onNewRound: an honest node entered (h, r). If a byzantine validator is the proposer, it acts.
func (b *byzActor) onNewRound(n *node, ev cstypes.EventNewRound) {
	if !b.active() {
		return
	}
	s := b.s
	sl := s.slotByAddr(ev.Proposer.Address)
	if sl == nil || !sl.byz || !b.once("propose", sl.id, ev.Height, ev.Round) {
		return
	}
	rs := n.cs.GetRoundState()
	if rs.Height != ev.Height {
		return
	}
	st := n.cs.GetState()
	var commit *types.Commit
	if ev.Height == st.InitialHeight {
		commit = types.NewCommit(types.BlockID{}, nil)
	} else if rs.LastCommit != nil && rs.LastCommit.HasTwoThirdsMajority() {
		commit = rs.LastCommit.MakeCommit()
	} else {
		return
	}
	mk := func(tag string) (*types.Block, *types.PartSet) {
		txs := []types.Tx{types.Tx(fmt.Sprintf("byz%s=%d/%d", tag, ev.Height, ev.Round))}
		if s.c.Chance(s.w.bigTx, s.w.bigTx+4) {
			big := make([]byte, 70000+s.c.Intn(70000))
			copy(big, fmt.Sprintf("byzbig%s%d=", tag, ev.Height))
			for i := 20; i < len(big); i++ {
				big[i] = byte('A' + i%23)
			}
			txs = append(txs, big)
		}
		return st.MakeBlock(ev.Height, txs, commit, sl.key.PubKey().Address())
	}
	kind := s.c.Weighted([]int{2, 4, 4, 2, 1})
	switch kind {
	case 0: // withhold
		s.r.Fault("byz_withhold_proposal")
		s.event("byz v%d withholds proposal %d/%d", sl.id, ev.Height, ev.Round)
	case 1: // one valid block to everybody (possibly lying about POLRound)
		blk, ps := mk("a")
		pol := -1
		if ev.Round > 0 && s.c.Bool() {
			pol = s.c.Intn(ev.Round)
			s.r.Fault("byz_polround_lie")
		}
		b.propose(sl.id, ev.Height, ev.Round, pol, blk, ps, "", s.nodes)
		s.r.Fault("byz_valid_proposal")
	case 2: // equivocation: two valid blocks to two groups
		ba, pa := mk("a")
		bb, pb := mk("b")
		var g1, g2 []*node
		for _, o := range s.nodes {
			if s.c.Bool() {
				g1 = append(g1, o)
			} else {
				g2 = append(g2, o)
			}
		}
		b.propose(sl.id, ev.Height, ev.Round, -1, ba, pa, "", g1)
		b.propose(sl.id, ev.Height, ev.Round, -1, bb, pb, "", g2)
		s.r.Fault("byz_equivocating_proposal")
		// and back both with votes, each to its group
		now := tmtime.Now()
		for _, pair := range []struct {
			ps *types.PartSet
			bl *types.Block
			g  []*node
		}{{pa, ba, g1}, {pb, bb, g2}} {
			id := types.BlockID{Hash: pair.bl.Hash(), PartsHeader: pair.ps.Header()}
			for _, slot := range b.ids {
				pv := b.signVote(slot, rs.Validators, types.PrevoteType, ev.Height, ev.Round, id, now)
				pc := b.signVote(slot, rs.Validators, types.PrecommitType, ev.Height, ev.Round, id, now)
				if pv == nil {
					continue
				}
				for _, o := range pair.g {
					b.sendVote(slot, o, pv, "")
					b.sendVote(slot, o, pc, "")
				}
				s.r.Fault("byz_equivocating_votes")
			}
		}
	case 3: // invalid block: exactly one field mutated
		blk, _ := mk("m")
		mut := b.mutateBlock(blk, st, rs)
		ps := blk.MakePartSet(types.BlockPartSizeBytes)
		b.propose(sl.id, ev.Height, ev.Round, -1, blk, ps, mut, s.nodes)
		s.r.Fault("byz_invalid_block_" + mut)
		// and vote for it, loudly
		id := types.BlockID{Hash: blk.Hash(), PartsHeader: ps.Header()}
		for _, slot := range b.ids {
			now := tmtime.Now()
			pv := b.signVote(slot, rs.Validators, types.PrevoteType, ev.Height, ev.Round, id, now)
			pc := b.signVote(slot, rs.Validators, types.PrecommitType, ev.Height, ev.Round, id, now)
			if pv == nil {
				continue
			}
			for _, o := range s.nodes {
				b.sendVote(slot, o, pv, "")
				b.sendVote(slot, o, pc, "")
			}
		}
	case 4: // a proposal whose block id does not match its parts (never checked against the assembled block)
		blk, ps := mk("x")
		other, _ := mk("y")
		id := types.BlockID{Hash: other.Hash(), PartsHeader: ps.Header()}
		b.proposeID(sl.id, ev.Height, ev.Round, -1, id, blk, ps, "", s.nodes)
		s.r.Fault("byz_proposal_hash_lie")
	}
}

func (b *byzActor) propose(slot int, h int64, r, pol int, blk *types.Block, ps *types.PartSet, invalid string, to []*node) {
	b.proposeID(slot, h, r, pol, types.BlockID{Hash: blk.Hash(), PartsHeader: ps.Header()}, blk, ps, invalid, to)
}

func (b *byzActor) proposeID(slot int, h int64, r, pol int, id types.BlockID, blk *types.Block, ps *types.PartSet, invalid string, to []*node) {
	s := b.s
	pr := types.NewProposal(h, r, pol, id)
	sig, err := s.slots[slot].key.Sign(pr.SignBytes(s.chainID))
	if err != nil {
		panic(err)
	}
	pr.Signature = sig
	parts := make([]*types.Part, ps.Total())
	for i := range parts {
		parts[i] = ps.GetPart(i)
	}
	s.or.registerBlock(types.BlockID{Hash: blk.Hash(), PartsHeader: ps.Header()}, parts, invalid, slot)
	s.event("byz v%d proposes %d/%d %s pol=%d invalid=%q to %d nodes", slot, h, r, short(id.Hash), pol, invalid, len(to))
	pm := &netMsg{msg: &cons.ProposalMessage{Proposal: pr}, desc: fmt.Sprintf("byz proposal %d/%d %s pol=%d", h, r, short(id.Hash), pol)}
	for _, o := range to {
		s.net.send(slot, o, pm)
		for i, p := range parts {
			s.net.send(slot, o, &netMsg{msg: &cons.BlockPartMessage{Height: h, Round: r, Part: p}, desc: fmt.Sprintf("byz part %d/%d #%d/%d %s", h, r, i, len(parts), short(id.PartsHeader.Hash))})
		}
	}
	if len(b.props) < 60 {
		b.props = append(b.props, heardProp{pr, parts})
	}
}

// mutateBlock applies exactly one invalidating change and returns its name.
func (b *byzActor) mutateBlock(blk *types.Block, st sm.State, rs *cstypes.RoundState) string {
	s := b.s
	first := blk.Height == st.InitialHeight
	for {
		switch s.c.Intn(9) {
		case 0:
			blk.Height++
			return "height"
		case 1:
			blk.ChainID = blk.ChainID + "x"
			return "chain_id"
		case 2:
			blk.LastBlockID = types.BlockID{Hash: []byte("01234567890123456789012345678901"), PartsHeader: types.PartSetHeader{Total: 1, Hash: []byte("01234567890123456789012345678901")}}
			return "last_block_id"
		case 3:
			blk.AppHash = []byte("not-the-app-hash-not-the-app-has")
			return "app_hash"
		case 4:
			blk.ValidatorsHash = []byte("not-the-validators-hash-not-the-")
			return "validators_hash"
		case 5:
			blk.Time = blk.Time.Add(time.Duration(1+s.c.Intn(5000)) * time.Millisecond)
			return "time"
		case 6:
			if first || len(blk.LastCommit.Precommits) == 0 {
				continue
			}
			// bad last commit: one signature replaced by garbage
			for i, cs := range blk.LastCommit.Precommits {
				if cs != nil {
					c2 := *cs
					c2.Signature = append([]byte(nil), cs.Signature...)
					c2.Signature[0] ^= 0xff
					pcs := append([]*types.CommitSig(nil), blk.LastCommit.Precommits...)
					pcs[i] = &c2
					blk.LastCommit = types.NewCommit(blk.LastCommit.BlockID, pcs)
					blk.LastCommitHash = nil
					return "last_commit_signature"
				}
			}
			continue
		case 7:
			if first || len(blk.LastCommit.Precommits) == 0 {
				continue
			}
			// bad last commit: not enough power (keep the single precommit of the weakest signer, and only
			// if that really is <= 2/3 of the previous set's power)
			pcs := make([]*types.CommitSig, len(blk.LastCommit.Precommits))
			keep, kp := -1, int64(0)
			for i, cs := range blk.LastCommit.Precommits {
				if cs == nil {
					continue
				}
				if _, val := rs.LastValidators.GetByIndex(i); val != nil && (keep < 0 || val.VotingPower < kp) {
					keep, kp = i, val.VotingPower
				}
			}
			if keep < 0 || 3*kp > 2*rs.LastValidators.TotalVotingPower() {
				continue
			}
			pcs[keep] = blk.LastCommit.Precommits[keep]
			blk.LastCommit = types.NewCommit(blk.LastCommit.BlockID, pcs)
			blk.LastCommitHash = nil
			// the time is the median of the commit: keep it as it was, so only the commit is wrong... it no
			// longer matches the median either, which is still a consequence of the single mutation
			return "last_commit_power"
		case 8:
			blk.LastResultsHash = []byte("not-the-results-hash-not-the-res")
			return "last_results_hash"
		}
	}
}

// plan schedules the time-driven byzantine junk (independent of protocol phase).
func (b *byzActor) plan(span time.Duration) {
	s := b.s
	if len(b.ids) == 0 && s.w.junkVotes+s.w.junkParts+s.w.claims <= 3 {
		// no byzantine validator: a byzantine *relayer* (any peer) can still tamper; keep a small amount
	}
	k := s.c.Intn(10 + 8*(s.w.junkVotes+s.w.junkParts+s.w.claims))
	spanMs := int(span / time.Millisecond)
	for i := 0; i < k; i++ {
		at := time.Duration(s.c.Intn(spanMs)) * time.Millisecond
		s.schedule(at, -1, b.junk)
	}
}

// junk: one tampered / replayed / fabricated message from some peer slot to some honest node.
func (b *byzActor) junk() {
	s := b.s
	if s.now() >= s.net.stabAt || s.net.perfect {
		return
	}
	to := s.nodes[s.c.Intn(len(s.nodes))]
	if !to.up {
		return
	}
	// garbage is relayed under a BYZANTINE peer's identity only: peer ids are authenticated (secret connection), and the
	// per-peer bookkeeping of the code under test (one +2/3 claim per peer and vote set, two catch-up rounds per peer)
	// would otherwise be used up in an honest peer's name, which no real adversary can do. (The draw keeps its old
	// bound so that recorded tapes keep their meaning.)
	x := s.c.Intn(len(s.slots))
	if len(b.ids) == 0 {
		return
	}
	from := b.ids[x%len(b.ids)]
	rs := to.cs.GetRoundState()
	kind := s.c.Weighted([]int{s.w.junkVotes * 3, s.w.junkParts * 3, s.w.claims * 2, 2, 2})
	switch kind {
	case 0: // tampered or replayed vote
		if len(b.heardAll()) == 0 {
			return
		}
		hv := b.heardAll()
		v := hv[s.c.Intn(len(hv))].Copy()
		tag := ""
		switch s.c.Intn(8) {
		case 0:
			tag = " [replay]"
		case 1:
			v.Signature = append([]byte(nil), v.Signature...)
			v.Signature[s.c.Intn(len(v.Signature))] ^= 1
			tag = " [bad sig]"
		case 2:
			v.ValidatorIndex = (v.ValidatorIndex + 1 + s.c.Intn(3)) % (rs.Validators.Size() + 2)
			tag = " [wrong index]"
		case 3:
			a := v.ValidatorAddress
			a[0] ^= 0x55
			v.ValidatorAddress = a
			tag = " [wrong address]"
		case 4:
			if v.Type == types.PrevoteType {
				v.Type = types.PrecommitType
			} else {
				v.Type = types.PrevoteType
			}
			tag = " [wrong type]"
		case 5:
			v.Round += 1 + s.c.Intn(3)
			tag = " [wrong round]"
		case 6:
			v.Height = rs.Height
			tag = " [moved height]"
		case 7:
			v.Timestamp = v.Timestamp.Add(time.Millisecond)
			tag = " [timestamp changed]"
		}
		s.r.Fault("junk_vote")
		s.net.send(from, to, &netMsg{msg: &cons.VoteMessage{Vote: v}, desc: "junk " + voteDesc(v), junk: tag})
	case 1: // malformed / duplicated / misplaced block part for the set the node is collecting
		ps := rs.ProposalBlockParts
		var parts []*types.Part
		if ps != nil {
			if info := s.or.blocks[hdrKey(ps.Header())]; info != nil {
				parts = info.parts
			}
		}
		if parts == nil && len(b.props) > 0 {
			parts = b.props[s.c.Intn(len(b.props))].parts
		}
		if parts == nil {
			return
		}
		src := parts[s.c.Intn(len(parts))]
		p := *src
		p.Bytes = append([]byte(nil), src.Bytes...)
		p.Proof.Aunts = append([][]byte(nil), src.Proof.Aunts...)
		tag := ""
		switch s.c.Intn(7) {
		case 0:
			tag = " [duplicate]"
		case 1:
			p.Bytes[s.c.Intn(len(p.Bytes))] ^= 1
			tag = " [bytes flipped]"
		case 2:
			if len(p.Proof.Aunts) > 0 {
				a := append([]byte(nil), p.Proof.Aunts[0]...)
				a[0] ^= 1
				p.Proof.Aunts[0] = a
			} else {
				p.Proof.LeafHash = append([]byte(nil), p.Proof.LeafHash...)
				p.Proof.LeafHash[0] ^= 1
			}
			tag = " [wrong proof]"
		case 3:
			p.Index = (p.Index + 1) % (len(parts) + 1)
			tag = " [wrong index, proof of another]"
		case 4:
			p.Index = len(parts) + s.c.Intn(3)
			tag = " [index out of range]"
		case 5:
			p.Index = len(parts) + s.c.Intn(3)
			p.Proof.Index = p.Index
			tag = " [index and proof index out of range]"
		case 6:
			p.Proof.Total++
			tag = " [wrong total]"
		}
		s.r.Fault("junk_part")
		s.net.send(from, to, &netMsg{msg: &cons.BlockPartMessage{Height: rs.Height, Round: rs.Round, Part: &p}, desc: fmt.Sprintf("junk part %d/%d #%d", rs.Height, rs.Round, p.Index), junk: tag})
	case 2: // a +2/3 claim (true or false) for some block
		var id types.BlockID
		if len(b.props) > 0 && s.c.Bool() {
			id = b.props[s.c.Intn(len(b.props))].pr.BlockID
		} else if s.c.Bool() {
			id = types.BlockID{Hash: []byte("fabricated-block-hash-fabricated"), PartsHeader: types.PartSetHeader{Total: 1, Hash: []byte("fabricated-parts-hash-fabricated")}}
		}
		t := types.PrevoteType
		if s.c.Bool() {
			t = types.PrecommitType
		}
		r := rs.Round
		if s.c.Chance(1, 4) {
			r += s.c.Intn(3)
		}
		s.r.Fault("junk_maj23_claim")
		s.net.send(from, to, &netMsg{claim: &claimMsg{height: rs.Height, round: r, typ: t, id: id}, desc: fmt.Sprintf("claim t%d %d/%d %s", t, rs.Height, r, short(id.Hash))})
	case 3: // a byzantine validator equivocates on votes right now
		if len(b.ids) == 0 {
			return
		}
		slot := b.ids[s.c.Intn(len(b.ids))]
		t := types.PrevoteType
		if s.c.Bool() {
			t = types.PrecommitType
		}
		ids := []types.BlockID{{}}
		if rs.Proposal != nil {
			ids = append(ids, rs.Proposal.BlockID)
		}
		if len(b.props) > 0 {
			ids = append(ids, b.props[s.c.Intn(len(b.props))].pr.BlockID)
		}
		now := tmtime.Now()
		for _, n := range s.nodes {
			id := ids[s.c.Intn(len(ids))]
			if v := b.signVote(slot, rs.Validators, t, rs.Height, rs.Round, id, now); v != nil {
				b.sendVote(slot, n, v, "")
			}
		}
		s.r.Fault("byz_equivocating_votes")
	case 4: // a proposal signed by somebody who is not the proposer
		if len(b.props) == 0 {
			return
		}
		hp := b.props[s.c.Intn(len(b.props))]
		pr := *hp.pr
		pr.Height, pr.Round = rs.Height, rs.Round
		// signed by a byzantine validator if there is one, else by a throw-away key: never by an honest key
		key := s.junkKey
		if len(b.ids) > 0 {
			key = s.slots[b.ids[s.c.Intn(len(b.ids))]].key
		}
		sig, _ := key.Sign(pr.SignBytes(s.chainID))
		pr.Signature = sig
		s.r.Fault("junk_proposal")
		s.net.send(from, to, &netMsg{msg: &cons.ProposalMessage{Proposal: &pr}, desc: fmt.Sprintf("junk proposal %d/%d %s", pr.Height, pr.Round, short(pr.BlockID.Hash)), junk: " [not signed by the proposer]"})
	}
}

func (b *byzActor) heardAll() []*types.Vote { return b.s.heardVotes }
