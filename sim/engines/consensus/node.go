package consensus_sim

import (
	"context"
	"fmt"
	"log/slog"
	"os"
	"path/filepath"
	"strings"
	"sync"
	"time"

	"github.com/gnolang/gno/tm2/pkg/bft/appconn"
	cons "github.com/gnolang/gno/tm2/pkg/bft/consensus"
	mempl "github.com/gnolang/gno/tm2/pkg/bft/mempool"
	memcfg "github.com/gnolang/gno/tm2/pkg/bft/mempool/config"
	"github.com/gnolang/gno/tm2/pkg/bft/privval"
	"github.com/gnolang/gno/tm2/pkg/bft/proxy"
	sm "github.com/gnolang/gno/tm2/pkg/bft/state"
	"github.com/gnolang/gno/tm2/pkg/bft/store"
	"github.com/gnolang/gno/tm2/pkg/bft/types"
	walm "github.com/gnolang/gno/tm2/pkg/bft/wal"
	"github.com/gnolang/gno/tm2/pkg/crypto"
	"github.com/gnolang/gno/tm2/pkg/crypto/ed25519"
	dbm "github.com/gnolang/gno/tm2/pkg/db"
	"github.com/gnolang/gno/tm2/pkg/events"
	p2pTypes "github.com/gnolang/gno/tm2/pkg/p2p/types"

	"verif/sim/kernel"
	"verif/sim/simdb"
)

// seedSigner is a types.Signer over a key derived from the run seed.
type seedSigner struct{ key ed25519.PrivKeyEd25519 }

func (s *seedSigner) PubKey() crypto.PubKey             { return s.key.PubKey() }
func (s *seedSigner) Sign(b []byte) ([]byte, error)     { return s.key.Sign(b) }
func (s *seedSigner) Close() error                      { return nil }
func (s *seedSigner) String() string                    { return "seedSigner" }

// released is one signature the private validator handed back to its caller.
type released struct {
	height int64
	round  int
	typ    byte // 1 prevote, 2 precommit, 32 proposal
	sign   []byte
	sig    []byte
	ts     time.Time
	life   int
	// decoded, for the gossip stub
	vote *types.Vote
	prop *types.Proposal
}

// loggingPV wraps the real privval.PrivValidator and records what it released
// (the C34 signer log, and the simulator's way to learn "this node just
// proposed / voted").
type loggingPV struct {
	types.PrivValidator
	n *node
}

func (p *loggingPV) SignVote(chainID string, v *types.Vote) error {
	err := p.PrivValidator.SignVote(chainID, v)
	if err == nil {
		cp := v.Copy()
		p.n.onReleased(released{height: v.Height, round: v.Round, typ: byte(v.Type), sign: cp.SignBytes(chainID), sig: cp.Signature, ts: cp.Timestamp, vote: cp})
	}
	return err
}

func (p *loggingPV) SignProposal(chainID string, pr *types.Proposal) error {
	err := p.PrivValidator.SignProposal(chainID, pr)
	if err == nil {
		cp := *pr
		p.n.onReleased(released{height: pr.Height, round: pr.Round, typ: byte(types.ProposalType), sign: cp.SignBytes(chainID), sig: cp.Signature, ts: cp.Timestamp, prop: &cp})
	}
	return err
}

// evRecorder is the evidence pool handed to ConsensusState: conflict reports are C35 observations.
type evRecorder struct{ n *node }

func (e evRecorder) ReportConflictingVotes(a, b *types.Vote) {
	e.n.mu.Lock()
	e.n.obs = append(e.n.obs, obs{confl: &[2]*types.Vote{a, b}})
	e.n.mu.Unlock()
}

// logCapture is the slog handler given to the node: it records CONSENSUS FAILURE.
type logCapture struct {
	n     *node
	debug bool
}

func (h *logCapture) Enabled(_ context.Context, l slog.Level) bool {
	return h.debug || l >= slog.LevelError
}

func (h *logCapture) Handle(_ context.Context, r slog.Record) error {
	if strings.HasPrefix(r.Message, "CONSENSUS FAILURE") {
		var sb strings.Builder
		r.Attrs(func(a slog.Attr) bool {
			if a.Key == "err" {
				fmt.Fprintf(&sb, "%v", a.Value.Any())
			}
			if a.Key == "stack" && h.debug {
				fmt.Fprintf(&sb, "\n%v", a.Value.Any())
			}
			return true
		})
		h.n.mu.Lock()
		if h.n.failure == "" {
			h.n.failure = sb.String()
			if h.n.failure == "" {
				h.n.failure = "panic"
			}
		}
		h.n.mu.Unlock()
	}
	if h.debug {
		var sb strings.Builder
		r.Attrs(func(a slog.Attr) bool { fmt.Fprintf(&sb, " %s=%v", a.Key, a.Value.Any()); return true })
		s := sb.String()
		if len(s) > 600 {
			s = s[:600]
		}
		fmt.Fprintf(os.Stderr, "[n%d %s] %s%s\n", h.n.id, r.Level, r.Message, s)
	}
	return nil
}
func (h *logCapture) WithAttrs([]slog.Attr) slog.Handler { return h }
func (h *logCapture) WithGroup(string) slog.Handler      { return h }

// walWrap sits between ConsensusState and the real baseWAL: it records the
// durable frontier (head file size at the last successful sync) and, when the
// machine died, takes the kill image before the dying receiveRoutine's
// deferred wal.Stop() flushes user-space buffers.
type walWrap struct {
	walm.WAL
	n         *node
	path      string
	syncedLen int64  // head size at last successful fsync
	killImage []byte // on-disk bytes at the moment of death (set by Stop when the machine is dead)
	haveImage bool
	stopped   bool
}

func (w *walWrap) noteSync(err error) error {
	if err == nil {
		if fi, e := os.Stat(w.path); e == nil {
			w.syncedLen = fi.Size()
		}
	}
	return err
}
func (w *walWrap) dead() bool { return w.n.mach.Dead }

func (w *walWrap) Write(m walm.WALMessage) error {
	if w.dead() {
		return nil
	}
	return w.WAL.Write(m)
}
func (w *walWrap) WriteSync(m walm.WALMessage) error {
	if w.dead() {
		return nil
	}
	return w.noteSync(w.WAL.WriteSync(m))
}
func (w *walWrap) WriteMetaSync(m walm.MetaMessage) error {
	if w.dead() {
		return nil
	}
	return w.noteSync(w.WAL.WriteMetaSync(m))
}
func (w *walWrap) FlushAndSync() error {
	if w.dead() {
		return nil
	}
	return w.noteSync(w.WAL.FlushAndSync())
}
func (w *walWrap) Stop() error {
	if w.stopped {
		return nil
	}
	w.stopped = true
	if w.n.mach.Dead && !w.haveImage {
		w.killImage, _ = os.ReadFile(w.path)
		w.haveImage = true
	}
	return w.WAL.Stop()
}

// node is one honest validator process and what survives it.
type node struct {
	id   int
	s    *sim
	key  ed25519.PrivKeyEd25519
	addr crypto.Address
	peer p2pTypes.ID

	// durable
	mach      *simdb.Machine
	blockDisk *simdb.Disk
	stateDisk *simdb.Disk
	appDisk   *simdb.Disk
	dir       string

	// process (rebuilt on restart)
	up      bool
	cs      *cons.ConsensusState
	ticker  *cons.SimTicker
	evsw    events.EventSwitch
	bs      *store.BlockStore
	stateDB dbm.DB
	mem     *mempl.CListMempool
	app     *simapp
	proxy   appconn.AppConns
	wal     *walWrap
	life    int

	crashing     bool
	pendingCrash *crashPlan
	lastWalImage     []byte
	lastWalImageTorn bool
	lastCrashPower   bool
	walFragment      bool  // a power-loss image left a torn line inside the WAL's current height
	walFragmentH     int64
	walFragmentPower bool
	downSince    time.Duration
	halted   bool // stopped for good after a (suppressed) CONSENSUS FAILURE
	started  bool // receiveRoutine was launched (cs.Wait() is safe)

	// observations written by the node's goroutine, drained by the simulator after quiescence
	mu      sync.Mutex
	obs     []obs // one ordered log: events, signer releases, timer requests, conflict reports
	failure string

	// signer log across lives (C34)
	signed   map[string]released
	noReplay map[int64]string // heights this node restarted into without getting its fsynced own votes back (why)
	ownAdded map[[3]int64]*types.Vote // own votes the node reported as added (WAL-synced), for the C33 replay check

	// simulator-side model of the timeout ticker
	timer    cons.SimTimeout
	timerSet bool
	timerGen int
	skew     [2]int // timeout duration multiplier num/den

	// progress bookkeeping
	storeH     int64 // block-store height already verified
	slowUntil  time.Duration
	bcastProp  map[string]bool
	lastStepAt time.Duration
}

// obs is one entry of the node's ordered observation log.
type obs struct {
	ev    events.Event
	rel   *released
	sched *cons.SimTimeout
	confl *[2]*types.Vote
}

func (n *node) onEvent(ev events.Event) {
	n.mu.Lock()
	n.obs = append(n.obs, obs{ev: ev})
	n.mu.Unlock()
}

func (n *node) onSchedule(st cons.SimTimeout) {
	n.mu.Lock()
	n.obs = append(n.obs, obs{sched: &st})
	n.mu.Unlock()
}

func (n *node) onReleased(r released) {
	r.life = n.life
	n.mu.Lock()
	n.obs = append(n.obs, obs{rel: &r})
	n.mu.Unlock()
}

func (n *node) walFile() string { return filepath.Join(n.dir, "wal", "wal") }
func (n *node) pvFile() string  { return filepath.Join(n.dir, "pv_state.json") }

func (s *sim) newNode(id int, key ed25519.PrivKeyEd25519) *node {
	n := &node{id: id, s: s, key: key, addr: key.PubKey().Address()}
	n.peer = n.addr.ID()
	n.mach = simdb.NewMachine()
	n.blockDisk = simdb.NewDisk(fmt.Sprintf("n%d.block", id), n.mach)
	n.stateDisk = simdb.NewDisk(fmt.Sprintf("n%d.state", id), n.mach)
	n.appDisk = simdb.NewDisk(fmt.Sprintf("n%d.app", id), n.mach)
	n.dir = filepath.Join(s.scratch, fmt.Sprintf("n%d", id))
	n.signed = map[string]released{}
	n.bcastProp = map[string]bool{}
	n.skew = [2]int{1, 1}
	n.storeH = s.initialH - 1
	if err := os.MkdirAll(filepath.Join(n.dir, "wal"), 0o700); err != nil {
		kernel.Harnessf("mkdir: %v", err)
	}
	return n
}

// boot constructs the process through the constructors production uses
// (node.NewNode's recipe minus reactors/RPC): app conns, state from DB or
// genesis, block store, Handshake, mempool, block executor, ConsensusState
// with privval from its files and a WAL on its file, then Start (WAL catch-up).
// A CrashSentinel raised while booting propagates to the caller.
func (n *node) boot() (err error) {
	s := n.s
	n.life++
	n.crashing = false
	n.wal = nil
	n.mu.Lock()
	n.obs, n.failure = nil, ""
	n.mu.Unlock()
	n.timerSet = false
	n.timerGen++

	logger := slog.New(&logCapture{n: n, debug: s.debugLog})

	blockDB := n.blockDisk.Open()
	n.stateDB = n.stateDisk.Open()
	n.app = newSimapp(n.appDisk.Open())
	n.proxy = appconn.NewAppConns(proxy.NewLocalClientCreator(n.app))
	n.proxy.SetLogger(logger)
	if err := n.proxy.Start(); err != nil {
		return fmt.Errorf("proxy start: %w", err)
	}
	genDoc := s.genDocCopy()
	state, err := sm.LoadStateFromDBOrGenesisDoc(n.stateDB, genDoc)
	if err != nil {
		return fmt.Errorf("load state: %w", err)
	}
	n.bs = store.NewBlockStore(blockDB)

	hs := cons.NewHandshaker(n.stateDB, state, n.bs, genDoc)
	hs.SetLogger(logger)
	if err := hs.Handshake(n.proxy); err != nil {
		return fmt.Errorf("handshake: %w", err)
	}
	state = sm.LoadState(n.stateDB)

	mc := memcfg.DefaultMempoolConfig()
	mc.CacheSize = 0 // the same tx may be re-offered after restarts; app-level dedup is not under test
	n.mem = mempl.NewCListMempool(mc, n.proxy.Mempool(), state.LastBlockHeight, state.ConsensusParams.Block.MaxTxBytes)
	n.mem.SetLogger(logger)

	blockExec := sm.NewBlockExecutor(n.stateDB, logger, n.proxy.Consensus(), n.mem)

	cfg := *s.csConfig
	cfg.RootDir = n.dir
	cfg.SetWalFile(n.walFile())
	ccfg := cfg
	cs := cons.NewConsensusState(&ccfg, state.Copy(), blockExec, n.bs, n.mem, evRecorder{n})
	cs.SetLogger(logger)

	pv, err := privval.NewPrivValidator(&seedSigner{n.key}, n.pvFile())
	if err != nil {
		return fmt.Errorf("privval: %w", err)
	}
	cs.SetPrivValidator(&loggingPV{PrivValidator: pv, n: n})

	n.evsw = events.NewEventSwitch()
	n.evsw.SetLogger(logger)
	if err := n.evsw.Start(); err != nil {
		return err
	}
	cs.SetEventSwitch(n.evsw)
	n.evsw.AddListener("sim", n.onEvent)

	n.ticker = cons.NewSimTicker(n.onSchedule)
	cs.SetTimeoutTicker(n.ticker)

	w, err := walm.NewWAL(n.walFile(), cons.VerifMaxMsgSize)
	if err != nil {
		return fmt.Errorf("wal: %w", err)
	}
	w.SetFlushInterval(1000 * time.Hour) // the periodic flusher is a simulator event instead (exact durable frontier)
	w.SetLogger(logger)
	n.wal = &walWrap{WAL: w, n: n, path: n.walFile()}
	if fi, e := os.Stat(n.walFile()); e == nil {
		n.wal.syncedLen = fi.Size()
	}
	if err := w.Start(); err != nil {
		return fmt.Errorf("wal start: %w", err)
	}
	n.wal.noteSync(nil)
	cs.VerifSetWAL(n.wal)

	n.cs = cs
	if err := cs.Start(); err != nil {
		return fmt.Errorf("cs start: %w", err)
	}
	n.started = true
	n.up = true
	return nil
}

// shutdown stops every goroutine the process owns (graceful; used at the end
// of a run and, after the images were taken, for crashed processes too).
func (n *node) shutdown() {
	if n.cs != nil {
		if n.cs.IsRunning() {
			n.cs.Stop()
		}
		if n.started {
			n.cs.Wait()
			n.started = false
		}
	}
	if n.wal != nil {
		n.wal.Stop() // no-op if receiveRoutine already did
	}
	if n.evsw != nil && n.evsw.IsRunning() {
		n.evsw.Stop()
	}
	if n.proxy != nil && n.proxy.IsRunning() {
		n.proxy.Stop()
	}
	n.up = false
}
