package consensus_sim

import (
	"os"
	"os/signal"
	"syscall"
	"testing"

	"verif/sim/kernel"
)

func TestSim(t *testing.T) {
	if os.Getenv("VERIF_PROP") == "" {
		t.Skip("driven by /verif/check")
	}
	// The first os/signal.Notify of the process must happen outside any synctest bubble
	// (autofile installs a SIGHUP handler when the WAL is opened).
	sig := make(chan os.Signal, 1)
	signal.Notify(sig, syscall.SIGHUP)
	T = t
	eng := map[string]kernel.Engine{}
	for _, p := range []string{"C31", "C32", "C33", "C34", "C35", "C39", "C41"} {
		eng[p] = run
	}
	code := kernel.Main("consensus", eng)
	if code != 0 {
		os.Exit(code)
	}
}
