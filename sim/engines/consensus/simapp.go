package consensus_sim

// simapp: the harness-owned deterministic key-value ABCI application (a STUB,
// listed as such in checks.json). It exists because the repo's persistent
// kvstore example opens a pebble directory itself (no DB seam) and commits
// non-atomically. Properties:
//   - state lives in one dbm.DB (a simdb disk of the node's Machine);
//   - Commit is one atomic Batch.WriteSync of {changed pairs, meta{height,hash}};
//   - app hash = SHA-256 over the sorted live pairs (incl. validator records);
//   - Info() is persistent (reads meta), so the Handshaker sees the app's
//     height/hash after a restart;
//   - txs:   "k=v"                      set
//            "val:<b64 amino pubkey>!<power>"  validator update (kvstore format)
//            "param:<maxTxBytes>/<maxDataBytes>/<maxGas>/<iota>" consensus-param update
//            "fail:..."                 DeliverTx error (still in the block)
//            "bad:..."                  rejected by CheckTx
//            anything else              stored under itself
import (
	"bytes"
	"crypto/sha256"
	"encoding/base64"
	"encoding/binary"
	"fmt"
	"sort"
	"strconv"
	"strings"

	"github.com/gnolang/gno/tm2/pkg/amino"
	abci "github.com/gnolang/gno/tm2/pkg/bft/abci/types"
	"github.com/gnolang/gno/tm2/pkg/crypto"
	dbm "github.com/gnolang/gno/tm2/pkg/db"
)

const (
	simappVersion = "simapp-1"
	metaKey       = "\x00meta"
	kvPrefix      = "kv/"
	valPrefix     = "val/"
)

type simapp struct {
	abci.BaseApplication
	db dbm.DB

	// committed
	height int64
	hash   []byte
	// working set of the block being executed (nil value = delete)
	pending map[string][]byte
	curH    int64
	valUpd  []abci.ValidatorUpdate
	parUpd  *abci.ConsensusParams

	Commits int // number of Commit calls in this process life (harness evidence)
}

var _ abci.Application = (*simapp)(nil)

func newSimapp(db dbm.DB) *simapp {
	a := &simapp{db: db, pending: map[string][]byte{}}
	bz, err := db.Get([]byte(metaKey))
	if err != nil {
		panic(err)
	}
	if len(bz) >= 8 {
		a.height = int64(binary.BigEndian.Uint64(bz[:8]))
		a.hash = append([]byte(nil), bz[8:]...)
	}
	return a
}

func (a *simapp) Info(abci.RequestInfo) abci.ResponseInfo {
	return abci.ResponseInfo{
		ABCIVersion:      "sim",
		AppVersion:       simappVersion,
		LastBlockHeight:  a.height,
		LastBlockAppHash: a.hash,
	}
}

func (a *simapp) InitChain(req abci.RequestInitChain) abci.ResponseInitChain {
	// validators are recorded in the working set; they become durable with the first Commit.
	for _, v := range req.Validators {
		a.pending[valPrefix+string(v.PubKey.Bytes())] = []byte(strconv.FormatInt(v.Power, 10))
	}
	return abci.ResponseInitChain{}
}

func (a *simapp) CheckTx(req abci.RequestCheckTx) abci.ResponseCheckTx {
	if bytes.HasPrefix(req.Tx, []byte("bad:")) {
		return abci.ResponseCheckTx{ResponseBase: abci.ResponseBase{Error: abci.StringError("bad tx")}}
	}
	return abci.ResponseCheckTx{GasWanted: 1}
}

func (a *simapp) BeginBlock(req abci.RequestBeginBlock) abci.ResponseBeginBlock {
	a.curH = req.Header.GetHeight()
	a.valUpd = nil
	a.parUpd = nil
	return abci.ResponseBeginBlock{}
}

func parseValTx(tx []byte) (crypto.PubKey, int64, error) {
	s := string(tx[len("val:"):])
	pp := strings.Split(s, "!")
	if len(pp) != 2 {
		return nil, 0, fmt.Errorf("expected pubkey!power")
	}
	bz, err := base64.StdEncoding.DecodeString(pp[0])
	if err != nil {
		return nil, 0, err
	}
	var pk crypto.PubKey
	if err := amino.Unmarshal(bz, &pk); err != nil {
		return nil, 0, err
	}
	pw, err := strconv.ParseInt(pp[1], 10, 64)
	if err != nil || pw < 0 {
		return nil, 0, fmt.Errorf("bad power")
	}
	return pk, pw, nil
}

func makeValTx(pk crypto.PubKey, power int64) []byte {
	return []byte(fmt.Sprintf("val:%s!%d", base64.StdEncoding.EncodeToString(pk.Bytes()), power))
}

func parseParamTx(tx []byte) (*abci.BlockParams, error) {
	ff := strings.Split(string(tx[len("param:"):]), "/")
	if len(ff) < 4 {
		return nil, fmt.Errorf("expected 4 fields")
	}
	var v [4]int64
	for i := range v {
		x, err := strconv.ParseInt(ff[i], 10, 64)
		if err != nil {
			return nil, err
		}
		v[i] = x
	}
	return &abci.BlockParams{MaxTxBytes: v[0], MaxDataBytes: v[1], MaxGas: v[2], TimeIotaMS: v[3]}, nil
}

func (a *simapp) DeliverTx(req abci.RequestDeliverTx) (res abci.ResponseDeliverTx) {
	tx := req.Tx
	switch {
	case bytes.HasPrefix(tx, []byte("fail:")):
		res.Error = abci.StringError("failing tx")
		return
	case bytes.HasPrefix(tx, []byte("val:")):
		pk, pw, err := parseValTx(tx)
		if err != nil {
			res.Error = abci.StringError("bad val tx")
			return
		}
		k := valPrefix + string(pk.Bytes())
		if pw == 0 {
			// only a validator of the COMMITTED set can be removed (one added earlier in this same block is not yet
			// known to the consensus engine: the update list would carry a removal of an unknown validator, which
			// makes ApplyBlock fail and the node kill itself — an application bug, not under test)
			cur, err := a.db.Get([]byte(k))
			if err != nil {
				panic(err)
			}
			if _, touched := a.pending[k]; cur == nil || touched {
				res.Error = abci.StringError("cannot remove unknown validator")
				return
			}
			a.pending[k] = nil
		} else {
			a.pending[k] = []byte(strconv.FormatInt(pw, 10))
		}
		// one update per pubkey per block (the real validator-set code rejects duplicates)
		for i, u := range a.valUpd {
			if u.PubKey.Equals(pk) {
				a.valUpd = append(a.valUpd[:i], a.valUpd[i+1:]...)
				break
			}
		}
		a.valUpd = append(a.valUpd, abci.ValidatorUpdate{Address: pk.Address(), PubKey: pk, Power: pw})
		res.Data = []byte("val")
		return
	case bytes.HasPrefix(tx, []byte("param:")):
		bp, err := parseParamTx(tx)
		if err != nil {
			res.Error = abci.StringError("bad param tx")
			return
		}
		a.parUpd = &abci.ConsensusParams{Block: bp}
		res.Data = []byte("param")
		return
	}
	var k, v []byte
	if i := bytes.IndexByte(tx, '='); i >= 0 {
		k, v = tx[:i], tx[i+1:]
	} else {
		k, v = tx, tx
	}
	if len(k) > 64 { // big filler txs: keep the key short, keep only a digest of the value
		h := sha256.Sum256(k)
		k = h[:]
	}
	if len(v) > 64 {
		h := sha256.Sum256(v)
		v = h[:]
	}
	a.pending[kvPrefix+string(k)] = append([]byte(nil), v...)
	res.Data = []byte(strconv.Itoa(len(tx)))
	res.GasUsed = 1
	return
}

func (a *simapp) get(k string) ([]byte, bool) {
	if v, ok := a.pending[k]; ok {
		return v, true
	}
	v, err := a.db.Get([]byte(k))
	if err != nil {
		panic(err)
	}
	if v == nil {
		return nil, false
	}
	return v, true
}

func (a *simapp) EndBlock(abci.RequestEndBlock) abci.ResponseEndBlock {
	return abci.ResponseEndBlock{ValidatorUpdates: a.valUpd, ConsensusParams: a.parUpd}
}

// contentHash hashes the sorted live pairs as they will be after applying pending.
func (a *simapp) contentHash() []byte {
	it, err := a.db.Iterator([]byte("a"), nil) // skips metaKey ("\x00...")
	if err != nil {
		panic(err)
	}
	defer it.Close()
	pk := make([]string, 0, len(a.pending))
	for k := range a.pending {
		pk = append(pk, k)
	}
	sort.Strings(pk)
	h := sha256.New()
	var lb [8]byte
	emit := func(k string, v []byte) {
		binary.BigEndian.PutUint64(lb[:], uint64(len(k)))
		h.Write(lb[:])
		h.Write([]byte(k))
		binary.BigEndian.PutUint64(lb[:], uint64(len(v)))
		h.Write(lb[:])
		h.Write(v)
	}
	i := 0
	for ; it.Valid(); it.Next() {
		k := string(it.Key())
		for i < len(pk) && pk[i] < k {
			if v := a.pending[pk[i]]; v != nil {
				emit(pk[i], v)
			}
			i++
		}
		if i < len(pk) && pk[i] == k {
			if v := a.pending[pk[i]]; v != nil {
				emit(k, v)
			}
			i++
			continue
		}
		emit(k, it.Value())
	}
	for ; i < len(pk); i++ {
		if v := a.pending[pk[i]]; v != nil {
			emit(pk[i], v)
		}
	}
	return h.Sum(nil)
}

func (a *simapp) Commit() abci.ResponseCommit {
	hash := a.contentHash()
	b := a.db.NewBatch()
	pk := make([]string, 0, len(a.pending))
	for k := range a.pending {
		pk = append(pk, k)
	}
	sort.Strings(pk)
	for _, k := range pk {
		if v := a.pending[k]; v == nil {
			b.Delete([]byte(k))
		} else {
			b.Set([]byte(k), v)
		}
	}
	meta := make([]byte, 8, 8+len(hash))
	binary.BigEndian.PutUint64(meta, uint64(a.curH))
	meta = append(meta, hash...)
	b.Set([]byte(metaKey), meta)
	if err := b.WriteSync(); err != nil {
		panic(err)
	}
	b.Close()
	a.height, a.hash = a.curH, hash
	a.pending = map[string][]byte{}
	a.Commits++
	return abci.ResponseCommit{ResponseBase: abci.ResponseBase{Data: hash}}
}
