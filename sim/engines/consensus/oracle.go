package consensus_sim

// Oracles. Each failure is tagged with the property it decides:
//   C31 agreement / own-history / bounded liveness (liveness lives in sim.go)
//   C32 independent re-validation of every stored block against the simulator's twin; no mutated block stored; no CONSENSUS FAILURE
//   C35 vote-set reference tallies (votes_ref.go)
//   C39 part-set reassembly
//   C41 block-store / state-store read-back
//   C34 signer log
import (
	"bytes"
	"encoding/hex"
	"fmt"
	"sort"
	"strings"
	"time"

	"github.com/gnolang/gno/tm2/pkg/amino"
	abci "github.com/gnolang/gno/tm2/pkg/bft/abci/types"
	cons "github.com/gnolang/gno/tm2/pkg/bft/consensus"
	cstypes "github.com/gnolang/gno/tm2/pkg/bft/consensus/types"
	sm "github.com/gnolang/gno/tm2/pkg/bft/state"
	"github.com/gnolang/gno/tm2/pkg/bft/types"
	walm "github.com/gnolang/gno/tm2/pkg/bft/wal"
	"github.com/gnolang/gno/tm2/pkg/events"

	"verif/sim/kernel"
	"verif/sim/simdb"
)

type blockInfo struct {
	id      types.BlockID
	parts   []*types.Part
	invalid string // "" = built by an honest proposer or a byzantine one following the rules; else the mutation applied
	origin  int
	honest  bool
}

type heightRec struct {
	h        int64
	id       types.BlockID
	block    *types.Block
	parts    []*types.Part
	storedBy map[int]bool
	seen     map[int]*types.Commit // per node: the seen commit it stored
	resp     *sm.ABCIResponses     // twin's responses
}

type nodeRef struct {
	cur  *refHVS
	last *refVoteSet

	lastPS      *types.PartSet
	lastPSCount int
	lockRound   map[int64]int
	lastH       int64
	lastR       int

	commitNoBlockH int64

	evs       []events.Event
	conflicts [][2]*types.Vote

	// snapshot of the reference precommit sets taken when the node fired EventNewBlock for a height:
	// exactly the state its MakeCommit (seen commit) was computed from
	commitSnap map[int64]map[int]*refVoteSet
}

type oracle struct {
	s       *sim
	blocks  map[string]*blockInfo
	heights map[int64]*heightRec
	topH    int64

	// the simulator's twin of the application and of the state transition
	twin       *simapp
	twinVals   map[int64]*types.ValidatorSet
	twinParams map[int64]abci.ConsensusParams
	appHash    map[int64][]byte // app hash after height h
	resHash    map[int64][]byte // results hash of height h
	totalTxs   map[int64]int64

	ref map[int]*nodeRef

	maxSigned map[int][3]int64 // per node: highest (height, round, step) released

	// cumulative (across lives) record of the valid prevotes each node was handed, per height/round/block:
	// the evidence a node can have had for unlocking (amnesia oracle)
	seenPrevotes map[int]map[int64]map[int]map[string]map[int]bool
}

func newOracle(s *sim) *oracle {
	o := &oracle{s: s, blocks: map[string]*blockInfo{}, heights: map[int64]*heightRec{}, twinVals: map[int64]*types.ValidatorSet{},
		twinParams: map[int64]abci.ConsensusParams{}, appHash: map[int64][]byte{}, resHash: map[int64][]byte{}, totalTxs: map[int64]int64{},
		ref: map[int]*nodeRef{}, maxSigned: map[int][3]int64{}, seenPrevotes: map[int]map[int64]map[int]map[string]map[int]bool{}}
	o.topH = s.initialH - 1
	o.twin = newSimapp(simdb.NewDisk("twin.app", nil).Open())
	var vals []*types.Validator
	var upd []abci.ValidatorUpdate
	for _, gv := range s.genDoc.Validators {
		vals = append(vals, types.NewValidator(gv.PubKey, gv.Power))
		upd = append(upd, abci.ValidatorUpdate{Address: gv.PubKey.Address(), PubKey: gv.PubKey, Power: gv.Power})
	}
	o.twin.InitChain(abci.RequestInitChain{Validators: upd})
	v0 := types.NewValidatorSet(vals)
	o.twinVals[s.initialH] = v0
	o.twinVals[s.initialH+1] = v0.CopyIncrementProposerPriority(1)
	o.twinParams[s.initialH] = s.genDoc.ConsensusParams
	o.totalTxs[s.initialH-1] = 0
	return o
}

func (o *oracle) maxHeight() int64 { return o.topH }

func (o *oracle) nref(n *node) *nodeRef {
	r := o.ref[n.id]
	if r == nil {
		r = &nodeRef{lockRound: map[int64]int{}, commitSnap: map[int64]map[int]*refVoteSet{}}
		o.ref[n.id] = r
	}
	return r
}

// ---------------------------------------------------------------------------
// block registry (C39 / C32)

func hdrKey(h types.PartSetHeader) string { return hex.EncodeToString(h.Hash) + fmt.Sprint(":", h.Total) }

func (o *oracle) registerBlock(id types.BlockID, parts []*types.Part, invalid string, origin int) *blockInfo {
	k := hdrKey(id.PartsHeader)
	if b := o.blocks[k]; b != nil {
		if invalid != "" && b.invalid == "" {
			b.invalid = invalid
		}
		return b
	}
	cp := make([]*types.Part, len(parts))
	for i, p := range parts {
		q := *p
		q.Bytes = append([]byte(nil), p.Bytes...)
		cp[i] = &q
	}
	b := &blockInfo{id: id, parts: cp, invalid: invalid, origin: origin, honest: !o.s.slots[origin].byz}
	o.blocks[k] = b
	return b
}

func proofEq(a, b *types.Part) bool {
	if a.Index != b.Index || !bytes.Equal(a.Bytes, b.Bytes) || a.Proof.Total != b.Proof.Total || a.Proof.Index != b.Proof.Index ||
		!bytes.Equal(a.Proof.LeafHash, b.Proof.LeafHash) || len(a.Proof.Aunts) != len(b.Proof.Aunts) {
		return false
	}
	for i := range a.Proof.Aunts {
		if !bytes.Equal(a.Proof.Aunts[i], b.Proof.Aunts[i]) {
			return false
		}
	}
	return true
}

// genuine: is this part exactly a part of the block identified by the header?
func (o *oracle) genuine(h types.PartSetHeader, p *types.Part) bool {
	if p.Index < 0 || p.Index >= h.Total {
		return false
	}
	if b := o.blocks[hdrKey(h)]; b != nil {
		return proofEq(b.parts[p.Index], p)
	}
	// unknown header (fabricated): fall back to the merkle proof itself
	return p.Proof.Index == p.Index && p.Proof.Total == h.Total && p.Proof.Verify(h.Hash, p.Bytes) == nil
}

type partPre struct {
	ps     *types.PartSet
	count  int
	expect bool
	skip   bool
}

func (o *oracle) prePart(n *node, height int64, p *types.Part) partPre {
	rs := n.cs.GetRoundState()
	ps := rs.ProposalBlockParts
	pre := partPre{ps: ps}
	if ps == nil {
		return pre
	}
	pre.count = ps.Count()
	pre.expect = rs.Height == height && p.Index < ps.Total() && ps.GetPart(p.Index) == nil && o.genuine(ps.Header(), p)
	return pre
}

func (o *oracle) postPart(n *node, height int64, p *types.Part, pre partPre) {
	if o.s.stop || !n.up {
		return
	}
	rs := n.cs.GetRoundState()
	if pre.ps == nil || rs.ProposalBlockParts != pre.ps {
		return // not expecting parts, or the node moved on (completed block -> commit -> new height)
	}
	delta := pre.ps.Count() - pre.count
	want := 0
	if pre.expect {
		want = 1
	}
	if delta != want {
		o.s.fail("C39", "part_accept", "n%d part #%d (h=%d) for set %v: count changed by %d, reference expects %d (genuine part of that block=%v)",
			n.id, p.Index, height, pre.ps.Header(), delta, want, pre.expect)
	}
}

// checkPartSet: whatever a node holds in its proposal part set must be the genuine bytes; a complete
// set must decode to the registered block.
func (o *oracle) checkPartSet(n *node, rs *cstypes.RoundState) {
	nr := o.nref(n)
	ps := rs.ProposalBlockParts
	if ps == nil {
		nr.lastPS = nil
		return
	}
	cnt := ps.Count()
	if ps == nr.lastPS && cnt == nr.lastPSCount {
		return
	}
	nr.lastPS, nr.lastPSCount = ps, cnt
	info := o.blocks[hdrKey(ps.Header())]
	ba := ps.BitArray()
	for i := 0; i < ps.Total(); i++ {
		if !ba.GetIndex(i) {
			continue
		}
		p := ps.GetPart(i)
		if p == nil {
			o.s.fail("C39", "part_set_state", "n%d part set %v: bit %d set but no part", n.id, ps.Header(), i)
			return
		}
		if info != nil {
			if p.Index != i || !bytes.Equal(p.Bytes, info.parts[i].Bytes) {
				o.s.fail("C39", "part_bytes", "n%d part set %v holds at index %d bytes that are not the proposer's part %d", n.id, ps.Header(), i, i)
				return
			}
		} else if !o.genuine(ps.Header(), p) {
			o.s.fail("C39", "part_bytes", "n%d part set %v (unregistered header) holds a part at %d that does not verify", n.id, ps.Header(), i)
			return
		}
	}
	if ps.IsComplete() && info != nil {
		if len(info.parts) > 1 {
			o.s.r.Probe("multi_part_block_assembled")
		}
		if rs.ProposalBlock != nil {
			if !rs.ProposalBlock.HashesTo(info.id.Hash) && info.honest {
				o.s.fail("C39", "assembled_hash", "n%d assembled a block hashing to %X from the parts of proposal block %X", n.id, rs.ProposalBlock.Hash(), info.id.Hash)
				return
			}
			if info.honest && rs.Proposal != nil && ps.HasHeader(rs.Proposal.BlockID.PartsHeader) && !rs.ProposalBlock.HashesTo(rs.Proposal.BlockID.Hash) {
				o.s.fail("C39", "assembled_hash", "n%d assembled block %X differs from its proposal's block id %X", n.id, rs.ProposalBlock.Hash(), rs.Proposal.BlockID.Hash)
				return
			}
		}
	}
}

// ---------------------------------------------------------------------------
// C35 hooks

type votePre struct {
	out    addOutcome
	target *refVoteSet
	lastC  bool
	known  bool
}

func (o *oracle) rollRef(n *node, rs *cstypes.RoundState) {
	nr := o.nref(n)
	if nr.cur != nil && nr.cur.height == rs.Height {
		return
	}
	if n.walFragment && rs.Height > n.walFragmentH {
		n.walFragment = false // an end-height marker now separates the fragment from what a replay reads
	}
	vals := o.twinVals[rs.Height]
	if vals == nil {
		kernel.Harnessf("no twin validator set for height %d (n%d)", rs.Height, n.id)
	}
	if nr.cur != nil && nr.cur.height+1 == rs.Height && !nr.cur.unknown && rs.LastCommit != nil {
		nr.last = nr.cur.sets[[2]int{rs.LastCommit.Round(), int(types.PrecommitType)}]
		if nr.last == nil {
			o.s.fail("C35", "last_commit", "n%d moved to height %d with LastCommit round %d for which the reference saw no precommit", n.id, rs.Height, rs.LastCommit.Round())
			return
		}
		if d := nr.last.compare(rs.LastCommit); d != "" {
			o.s.fail("C35", "last_commit", "n%d LastCommit for height %d: %s", n.id, rs.Height-1, d)
			return
		}
		if k := nr.last.strays(); k > 0 {
			o.s.r.ProbeN("commit_with_stray_precommits", 1)
		}
	} else {
		nr.last = nil
	}
	nr.cur = newRefHVS(o.s.chainID, rs.Height, vals)
}

func (o *oracle) preVote(n *node, peer string, v *types.Vote) votePre {
	rs := n.cs.GetRoundState()
	nr := o.nref(n)
	pre := votePre{}
	if nr.cur == nil || nr.cur.height != rs.Height || nr.cur.unknown {
		return pre
	}
	pre.known = true
	switch {
	case v.Height == rs.Height:
		tracked := v.Round <= rs.Votes.Round() || nr.cur.openedByCatchup(v.Round)
		if !tracked {
			if len(nr.cur.catchup[peer]) < 2 {
				nr.cur.catchup[peer] = append(nr.cur.catchup[peer], v.Round)
				o.s.r.Probe("catchup_round_opened")
			} else {
				pre.out = addOutcome{why: "unwanted round"}
				return pre
			}
		}
		pre.target = nr.cur.set(v.Round, v.Type)
		pre.out = pre.target.add(v)
	case v.Height+1 == rs.Height && rs.Step == cstypes.RoundStepNewHeight && v.Type == types.PrecommitType:
		if nr.last == nil { // no reference for the previous height's commit (the node restarted during it)
			pre.known = false
			return pre
		}
		pre.target = nr.last
		pre.lastC = true
		pre.out = nr.last.add(v)
	default:
		pre.out = addOutcome{why: "other height/step"}
	}
	o.s.r.Probe("vote_" + classify(pre.out))
	return pre
}

func classify(a addOutcome) string {
	switch {
	case a.added && a.conflict:
		return "conflict_counted"
	case a.added:
		return "added"
	case a.conflict:
		return "conflict_rejected"
	}
	switch a.why {
	case "duplicate":
		return "duplicate"
	case "bad signature":
		return "bad_signature"
	case "wrong step", "other height/step", "unwanted round":
		return "wrong_step"
	case "unknown validator index", "address mismatch":
		return "unknown_validator"
	case "non-deterministic signature":
		return "nondeterministic_sig"
	}
	return "rejected"
}

func (o *oracle) postVote(n *node, v *types.Vote, pre votePre) {
	if o.s.stop || !pre.known || !n.up {
		return
	}
	nr := o.nref(n)
	// added <=> EventVote fired for it
	fired := false
	for _, e := range nr.evs {
		if ev, ok := e.(types.EventVote); ok && ev.Vote != nil && bytes.Equal(ev.Vote.Signature, v.Signature) && ev.Vote.ValidatorIndex == v.ValidatorIndex &&
			ev.Vote.Type == v.Type && ev.Vote.Round == v.Round && ev.Vote.Height == v.Height {
			fired = true
		}
	}
	if fired != pre.out.added {
		o.s.fail("C35", "added", "n%d vote %s: added=%v, reference expects added=%v (%s)", n.id, voteDesc(v), fired, pre.out.added, pre.out.why)
		return
	}
	// conflict reported <=> reference classifies it as conflicting (own conflicting votes are only logged)
	rep := false
	for _, c := range nr.conflicts {
		if bytes.Equal(c[1].Signature, v.Signature) && c[0].ValidatorIndex == v.ValidatorIndex && !c[0].BlockID.Equals(c[1].BlockID) {
			rep = true
		}
	}
	want := pre.out.conflict && v.ValidatorAddress != n.addr
	if rep != want {
		o.s.fail("C35", "conflict_report", "n%d vote %s: conflict reported=%v, reference expects %v (%s)", n.id, voteDesc(v), rep, want, pre.out.why)
		return
	}
	if rep {
		o.s.r.Probe("conflicting_vote_reported")
	}
	if pre.target == nil {
		return
	}
	rs := n.cs.GetRoundState()
	var vs *types.VoteSet
	switch {
	case pre.lastC && rs.Height == v.Height+1:
		vs = rs.LastCommit
	case !pre.lastC && rs.Height == v.Height:
		if v.Type == types.PrevoteType {
			vs = rs.Votes.Prevotes(v.Round)
		} else {
			vs = rs.Votes.Precommits(v.Round)
		}
	default:
		return // the node moved to the next height within this event; rollRef compared LastCommit
	}
	if d := pre.target.compare(vs); d != "" {
		o.s.fail("C35", "tally", "n%d after %s (%s) at %d/%d t%d: %s", n.id, voteDesc(v), classify(pre.out), v.Height, v.Round, v.Type, d)
		return
	}
	if pre.target.maj != nil {
		o.s.r.Probe("maj23_checked")
	}
}

func (o *oracle) preClaim(n *node, peer string, cl *claimMsg) (wantErr, known bool) {
	nr := o.nref(n)
	if nr.cur == nil || nr.cur.height != cl.height || nr.cur.unknown {
		return false, false
	}
	rs := n.cs.GetRoundState()
	tracked := cl.round <= rs.Votes.Round() || nr.cur.openedByCatchup(cl.round)
	if !tracked {
		return false, true // "something we don't know about yet": no error, no effect
	}
	return nr.cur.set(cl.round, cl.typ).claim(peer, cl.id), true
}

// onNodeEvent sees the node's events in their real order.
func (o *oracle) onNodeEvent(n *node, e events.Event) {
	nr := o.nref(n)
	switch x := e.(type) {
	case types.EventVote:
		// the node's own vote enters its vote set through the internal queue: count it when (and only
		// when) the node reports having added it — its position in the log is its real position
		v := x.Vote
		if v != nil && v.ValidatorAddress == n.addr {
			// its WAL record was fsynced before the vote was handled (internal messages use WriteSync)
			if n.ownAdded == nil {
				n.ownAdded = map[[3]int64]*types.Vote{}
			}
			n.ownAdded[[3]int64{v.Height, int64(v.Round), int64(v.Type)}] = v
		}
		if v != nil && v.ValidatorAddress == n.addr && nr.cur != nil && nr.cur.height == v.Height && !nr.cur.unknown {
			nr.cur.set(v.Round, v.Type).add(v)
		}
	case types.EventNewBlock:
		if nr.cur != nil && x.Block != nil && nr.cur.height == x.Block.Height && !nr.cur.unknown {
			snap := map[int]*refVoteSet{}
			for k, rv := range nr.cur.sets {
				if k[1] == int(types.PrecommitType) {
					snap[k[0]] = rv.snapshot()
				}
			}
			nr.commitSnap[x.Block.Height] = snap
		}
	}
}

// signed: the C34 signer log, plus feeding the node's own vote to its reference tally.
func (o *oracle) signed(n *node, rl *released) {
	key := fmt.Sprintf("%d/%d/%d", rl.height, rl.round, rl.typ)
	step := int64(map[byte]int{byte(types.ProposalType): 1, byte(types.PrevoteType): 2, byte(types.PrecommitType): 3}[rl.typ])
	cur := [3]int64{rl.height, int64(rl.round), step}
	if ex, ok := n.signed[key]; ok {
		if !bytes.Equal(ex.sign, rl.sign) || !bytes.Equal(ex.sig, rl.sig) {
			o.s.fail("C34", "double_sign", "n%d released two different signatures for height/round/type %s (lives %d): sign-bytes %X vs %X", n.id, key, n.life, ex.sign, rl.sign)
			return
		}
		o.s.r.Probe("same_hrs_resigned_identically")
	} else {
		mx := o.maxSigned[n.id]
		if less3(cur, mx) {
			o.s.fail("C34", "hrs_regression", "n%d released a signature for %v after having released one for %v", n.id, cur, mx)
			return
		}
		n.signed[key] = *rl
	}
	if !less3(cur, o.maxSigned[n.id]) {
		o.maxSigned[n.id] = cur
	}
	if rl.vote != nil && rl.vote.Type == types.PrevoteType && !o.s.stop {
		o.lockedPrevote(n, rl.vote)
	}
	if rl.vote != nil && !o.s.stop {
		o.notePrevote(n, rl.vote)
		o.amnesia(n, rl)
	}
}

// notePrevote records a signature-checked prevote handed to node n (by the network, by itself).
func (o *oracle) notePrevote(n *node, v *types.Vote) {
	if v.Type != types.PrevoteType {
		return
	}
	vals := o.twinVals[v.Height]
	if vals == nil || v.ValidatorIndex < 0 || v.ValidatorIndex >= vals.Size() {
		return
	}
	addr, val := vals.GetByIndex(v.ValidatorIndex)
	if addr != v.ValidatorAddress || !val.PubKey.VerifyBytes(v.SignBytes(o.s.chainID), v.Signature) {
		return
	}
	byH := o.seenPrevotes[n.id]
	if byH == nil {
		byH = map[int64]map[int]map[string]map[int]bool{}
		o.seenPrevotes[n.id] = byH
	}
	byR := byH[v.Height]
	if byR == nil {
		byR = map[int]map[string]map[int]bool{}
		byH[v.Height] = byR
		delete(byH, v.Height-3)
	}
	byB := byR[v.Round]
	if byB == nil {
		byB = map[string]map[int]bool{}
		byR[v.Round] = byB
	}
	k := v.BlockID.Key()
	if byB[k] == nil {
		byB[k] = map[int]bool{}
	}
	byB[k][v.ValidatorIndex] = true
}

// polkaOtherThan: was node n ever handed +2/3 prevotes, in round q of height h, for something other than block a?
func (o *oracle) polkaOtherThan(n *node, h int64, q int, a types.BlockID) bool {
	vals := o.twinVals[h]
	if vals == nil {
		return true
	}
	for k, voters := range o.seenPrevotes[n.id][h][q] {
		if k == a.Key() {
			continue
		}
		var pw int64
		for i := range voters {
			_, val := vals.GetByIndex(i)
			pw += val.VotingPower
		}
		if 3*pw > 2*vals.TotalVotingPower() {
			return true
		}
	}
	return false
}

// amnesia: the node precommitted block A in round r; signing a prevote/precommit for another block B in a later
// round r' of the same height is legitimate only if it was handed, in some round q with r < q <= r', +2/3
// prevotes for something other than A (that is what unlocks it). Across a crash this is C33's "does not sign
// anything conflicting with what it signed before the crash"; within one life it is C31's locking rule.
func (o *oracle) amnesia(n *node, rl *released) {
	v := rl.vote
	if v == nil || v.BlockID.IsZero() {
		return
	}
	for r := v.Round - 1; r >= 0; r-- {
		pc, ok := n.signed[fmt.Sprintf("%d/%d/%d", v.Height, r, byte(types.PrecommitType))]
		if !ok || pc.vote == nil || pc.vote.BlockID.IsZero() {
			continue
		}
		if pc.vote.BlockID.Equals(v.BlockID) {
			return
		}
		for q := r + 1; q <= v.Round; q++ {
			if o.polkaOtherThan(n, v.Height, q, pc.vote.BlockID) {
				return
			}
		}
		prop, oracle, root := "C31", "lock_rule_amnesia", ""
		if pc.life != rl.life {
			prop, oracle = "C33", "amnesia_after_restart"
			// name the analysed root causes (NOTES.md) so that they can be listed without masking other amnesia
			switch n.noReplay[v.Height] {
			case "_first_height":
				oracle = "amnesia_after_restart_in_first_height"
				root = " [root cause: no WAL catch-up replay exists for the first height of a chain: the WAL starts with MetaMessage{0}, catchupReplay(h) needs MetaMessage{h}]"
			case "_no_end_height_marker":
				oracle = "amnesia_after_restart_without_end_height_marker"
				root = " [root cause: the node had died between SaveBlock(h-1) and the end-height marker; the handshake applied the block but nobody writes the marker, so height h has no replayable WAL]"
			}
		}
		o.s.fail(prop, oracle, "n%d precommitted %X in round %d of height %d (life %d) and then signed %s (life %d) although it was never handed +2/3 prevotes for anything else in rounds %d..%d%s",
			n.id, pc.vote.BlockID.Hash, r, v.Height, pc.life, voteDesc(v), rl.life, r+1, v.Round, root)
		return
	}
}

func less3(a, b [3]int64) bool {
	for i := 0; i < 3; i++ {
		if a[i] != b[i] {
			return a[i] < b[i]
		}
	}
	return false
}

func (o *oracle) lockEvents(n *node, hrs cstypes.HRS, kind string) {
	nr := o.nref(n)
	switch kind {
	case "lock":
		nr.lockRound[hrs.Height] = hrs.Round + 1
	case "relock":
		nr.lockRound[hrs.Height] = hrs.Round + 1
	case "unlock":
		if lr := nr.lockRound[hrs.Height]; lr > 0 {
			if hrs.Round+1 > lr {
				o.s.r.Probe("unlock_on_later_polka")
			}
			// C31 (locking rule, state.go addVote / enterPrecommit): a locked node unlocks only on a polka of a
			// round later than its lock round. Majorities never disappear, so the node's sets now still show it.
			rs := n.cs.GetRoundState()
			if rs.Height == hrs.Height {
				ok := false
				for q := lr; q <= hrs.Round && q <= rs.Votes.Round(); q++ { // lr is lockRound+1
					if pv := rs.Votes.Prevotes(q); pv != nil {
						if _, has := pv.TwoThirdsMajority(); has {
							ok = true
							break
						}
					}
				}
				if !ok {
					o.s.fail("C31", "lock_rule_unlock", "n%d, locked in round %d of height %d, unlocked in round %d although none of its prevote sets of rounds %d..%d has a +2/3 majority",
						n.id, lr-1, hrs.Height, hrs.Round, lr, hrs.Round)
				}
			}
		}
		nr.lockRound[hrs.Height] = 0
	}
}

// lockedPrevote: C31 (locking rule, defaultDoPrevote): while locked on B a node prevotes B.
func (o *oracle) lockedPrevote(n *node, v *types.Vote) {
	nr := o.nref(n)
	lr := nr.lockRound[v.Height]
	if lr == 0 || v.Round < lr {
		return
	}
	pc, ok := n.signed[fmt.Sprintf("%d/%d/%d", v.Height, lr-1, byte(types.PrecommitType))]
	if !ok || pc.vote == nil || pc.vote.BlockID.IsZero() {
		return
	}
	if !v.BlockID.Equals(pc.vote.BlockID) {
		o.s.fail("C31", "lock_rule_prevote", "n%d is locked on %X since round %d of height %d (no unlock since) but signed a prevote for %X in round %d",
			n.id, pc.vote.BlockID.Hash, lr-1, v.Height, v.BlockID.Hash, v.Round)
		return
	}
	o.s.r.Probe("prevoted_locked_block")
}

// ---------------------------------------------------------------------------
// after every event

func (o *oracle) afterEvent(n *node, rs *cstypes.RoundState) {
	s := o.s
	nr := o.nref(n)
	// stash this event's observations for the post-delivery hooks
	n.mu.Lock()
	n.mu.Unlock()
	// new blocks in the store?
	top := n.bs.Height()
	for h := n.storeH + 1; h <= top && !s.stop; h++ {
		if h < s.initialH {
			continue
		}
		o.newStoredBlock(n, h)
		n.storeH = h
	}
	if s.stop {
		return
	}
	o.rollRef(n, rs)
	if s.stop {
		return
	}
	o.checkPartSet(n, rs)
	if s.stop {
		return
	}
	// every own precommit/prevote the reference knows must be in the node's sets: compare the current round's sets
	if nr.cur != nil && !nr.cur.unknown && nr.cur.height == rs.Height {
		for _, t := range []types.SignedMsgType{types.PrevoteType, types.PrecommitType} {
			if ref := nr.cur.sets[[2]int{rs.Round, int(t)}]; ref != nil {
				var vs *types.VoteSet
				if t == types.PrevoteType {
					vs = rs.Votes.Prevotes(rs.Round)
				} else {
					vs = rs.Votes.Precommits(rs.Round)
				}
				if d := ref.compare(vs); d != "" {
					s.fail("C35", "tally", "n%d at %d/%d t%d: %s", n.id, rs.Height, rs.Round, t, d)
					return
				}
			}
		}
	}
	// probes on the round state
	if rs.Step == cstypes.RoundStepCommit && rs.ProposalBlock == nil && nr.commitNoBlockH != rs.Height {
		nr.commitNoBlockH = rs.Height
		s.r.Probe("commit_for_block_not_yet_received")
		s.byz.onCommitWait(n)
	}
	if nr.lastH == rs.Height && rs.Round > nr.lastR+1 {
		s.r.Probe("round_skip")
	}
	nr.lastH, nr.lastR = rs.Height, rs.Round
}

// newStoredBlock: node n's block store now holds height h.
func (o *oracle) newStoredBlock(n *node, h int64) {
	s := o.s
	meta := n.bs.LoadBlockMeta(h)
	if meta == nil {
		s.fail("C41", "load_meta", "n%d store height %d but LoadBlockMeta(%d)=nil", n.id, n.bs.Height(), h)
		return
	}
	rec := o.heights[h]
	if rec != nil {
		if !bytes.Equal(rec.id.Hash, meta.BlockID.Hash) {
			var who []string
			for _, k := range kernel.SortedKeys(mapKeys(rec.storedBy)) {
				who = append(who, "n"+k)
			}
			s.fail("C31", "agreement", "height %d: n%d stored block %X but %v stored block %X", h, n.id, meta.BlockID.Hash, who, rec.id.Hash)
			return
		}
	} else {
		if h != o.topH+1 {
			kernel.Harnessf("n%d stored height %d but the highest known is %d", n.id, h, o.topH)
		}
		rec = o.firstStore(n, h, meta)
		if rec == nil {
			return
		}
	}
	if rec.storedBy[n.id] {
		return
	}
	rec.storedBy[n.id] = true
	s.honestCommits[n.id]++
	seen := n.bs.LoadSeenCommit(h)
	if seen == nil {
		s.fail("C41", "load_seen_commit", "n%d stored block %d but LoadSeenCommit(%d)=nil", n.id, h, h)
		return
	}
	// the seen commit must be what the reference says MakeCommit yields for the commit round (C35) ...
	nr := o.nref(n)
	if snap, ok := nr.commitSnap[h]; ok {
		ref := snap[seen.Round()]
		delete(nr.commitSnap, h)
		if ref == nil {
			s.fail("C35", "make_commit", "n%d committed height %d in round %d where the reference saw no precommits", n.id, h, seen.Round())
			return
		}
		if d := ref.compareCommit(seen); d != "" {
			s.fail("C35", "make_commit", "n%d seen commit for height %d round %d: %s", n.id, h, seen.Round(), d)
			return
		}
	}
	// ... and independently justify the block (C32)
	if !o.verifyCommit(seen, rec.id, h, o.twinVals[h], fmt.Sprintf("n%d seen commit", n.id), "C32") {
		return
	}
	rec.seen[n.id] = seen
	if seen.Round() > 0 {
		s.r.Probe("commit_in_round_gt0")
	}
	s.event("commit n%d h=%d r=%d %s", n.id, h, seen.Round(), short(rec.id.Hash))
	o.checkStoresAt(n, h, true)
	if s.stop {
		return
	}
	// sampled older heights (full sweeps at restarts and at the end)
	if span := int(h - s.initialH); span > 0 {
		for k := 0; k < 2; k++ {
			o.checkStoresAt(n, s.initialH+int64(s.c.Intn(span)), false)
			if s.stop {
				return
			}
		}
	}
}

func mapKeys(m map[int]bool) map[string]bool {
	o := map[string]bool{}
	for k := range m {
		o[fmt.Sprint(k)] = true
	}
	return o
}

// verifyCommit: > 2/3 of vals' power signed blockID at (h, one round), signatures checked here.
func (o *oracle) verifyCommit(c *types.Commit, id types.BlockID, h int64, vals *types.ValidatorSet, what, prop string) bool {
	s := o.s
	if !c.BlockID.Equals(id) {
		s.fail(prop, "commit_block_id", "%s for height %d is for block %v, expected %v", what, h, c.BlockID, id)
		return false
	}
	if len(c.Precommits) != vals.Size() {
		s.fail(prop, "commit_size", "%s for height %d has %d entries for %d validators", what, h, len(c.Precommits), vals.Size())
		return false
	}
	round := -1
	var pw int64
	for i, cs := range c.Precommits {
		if cs == nil {
			continue
		}
		v := types.Vote(*cs)
		if v.Type != types.PrecommitType || v.Height != h {
			s.fail(prop, "commit_vote", "%s for height %d entry %d is %v", what, h, i, &v)
			return false
		}
		if round == -1 {
			round = v.Round
		} else if v.Round != round {
			s.fail(prop, "commit_vote", "%s for height %d mixes rounds %d and %d", what, h, round, v.Round)
			return false
		}
		addr, val := vals.GetByIndex(i)
		if v.ValidatorIndex != i || v.ValidatorAddress != addr || !val.PubKey.VerifyBytes(v.SignBytes(s.chainID), v.Signature) {
			s.fail(prop, "commit_signature", "%s for height %d entry %d: signature/validator does not verify", what, h, i)
			return false
		}
		if v.BlockID.Equals(id) {
			pw += val.VotingPower
		}
	}
	if !(3*pw > 2*vals.TotalVotingPower()) {
		s.fail(prop, "commit_power", "%s for height %d carries %d of %d voting power for block %X (needs > 2/3)", what, h, pw, vals.TotalVotingPower(), id.Hash)
		return false
	}
	return true
}

// firstStore: the first honest store of height h — independent re-validation (C32) and twin execution.
func (o *oracle) firstStore(n *node, h int64, meta *types.BlockMeta) *heightRec {
	s := o.s
	blk := n.bs.LoadBlock(h)
	if blk == nil {
		s.fail("C41", "load_block", "n%d LoadBlock(%d)=nil right after storing it", n.id, h)
		return nil
	}
	bad := func(what string, args ...any) *heightRec {
		s.fail("C32", "stored_block_invalid", "height %d stored by n%d (block %X): %s", h, n.id, meta.BlockID.Hash, fmt.Sprintf(what, args...))
		return nil
	}
	if !bytes.Equal(blk.Hash(), meta.BlockID.Hash) {
		s.fail("C41", "load_block", "n%d LoadBlock(%d) hashes to %X, meta says %X", n.id, h, blk.Hash(), meta.BlockID.Hash)
		return nil
	}
	if info := o.blocks[hdrKey(meta.BlockID.PartsHeader)]; info != nil && info.invalid != "" {
		return bad("it is the byzantine proposer's mutated block (%s)", info.invalid)
	}
	hd := blk.Header
	if hd.Height != h {
		return bad("header height %d", hd.Height)
	}
	if hd.ChainID != s.chainID {
		return bad("chain id %q", hd.ChainID)
	}
	prev := o.heights[h-1]
	if h == s.initialH {
		if !hd.LastBlockID.IsZero() {
			return bad("first block has LastBlockID %v", hd.LastBlockID)
		}
		if !hd.Time.Equal(s.genTime) {
			return bad("first block time %v != genesis time %v", hd.Time, s.genTime)
		}
		if len(blk.LastCommit.Precommits) != 0 {
			return bad("first block carries precommits")
		}
	} else {
		if !hd.LastBlockID.Equals(prev.id) {
			return bad("LastBlockID %v does not chain to height %d's block %v", hd.LastBlockID, h-1, prev.id)
		}
		if !hd.Time.After(prev.block.Time) {
			return bad("time %v not after previous block time %v", hd.Time, prev.block.Time)
		}
		if !o.verifyCommit(blk.LastCommit, prev.id, h-1, o.twinVals[h-1], fmt.Sprintf("LastCommit of block %d", h), "C32") {
			return nil
		}
		// BFT time: the block time is the weighted median of the last commit; it must lie between honest timestamps
		var lo, hi time.Time
		for i, cs := range blk.LastCommit.Precommits {
			if cs == nil {
				continue
			}
			addr, _ := o.twinVals[h-1].GetByIndex(i)
			if sl := s.slotByAddr(addr); sl != nil && !sl.byz {
				if lo.IsZero() || cs.Timestamp.Before(lo) {
					lo = cs.Timestamp
				}
				if hi.IsZero() || cs.Timestamp.After(hi) {
					hi = cs.Timestamp
				}
			}
		}
		if hd.Time.Before(lo) || hd.Time.After(hi) {
			// NOT a C32 failure (the property asks for a monotone median, which holds): WeightedMedian's
			// integer halving can select a byzantine timestamp when the commit carries an odd total. Evidence only.
			s.r.Probe("block_time_outside_honest_timestamps")
		}
		if mt := sm.MedianTime(blk.LastCommit, o.twinVals[h-1]); !hd.Time.Equal(mt) {
			return bad("time %v is not the weighted median %v of its LastCommit", hd.Time, mt)
		}
	}
	if !bytes.Equal(hd.LastCommitHash, blk.LastCommit.Hash()) {
		return bad("LastCommitHash mismatch")
	}
	if !bytes.Equal(hd.DataHash, blk.Data.Hash()) || hd.NumTxs != int64(len(blk.Data.Txs)) {
		return bad("DataHash/NumTxs mismatch")
	}
	if hd.TotalTxs != o.totalTxs[h-1]+hd.NumTxs {
		return bad("TotalTxs %d, expected %d", hd.TotalTxs, o.totalTxs[h-1]+hd.NumTxs)
	}
	if !bytes.Equal(hd.AppHash, o.appHash[h-1]) {
		return bad("AppHash %X, twin app hash after height %d is %X", hd.AppHash, h-1, o.appHash[h-1])
	}
	if !bytes.Equal(hd.LastResultsHash, o.resHash[h-1]) {
		return bad("LastResultsHash %X, twin says %X", hd.LastResultsHash, o.resHash[h-1])
	}
	if !bytes.Equal(hd.ValidatorsHash, o.twinVals[h].Hash()) {
		return bad("ValidatorsHash %X, twin says %X", hd.ValidatorsHash, o.twinVals[h].Hash())
	}
	if !bytes.Equal(hd.NextValidatorsHash, o.twinVals[h+1].Hash()) {
		return bad("NextValidatorsHash %X, twin says %X", hd.NextValidatorsHash, o.twinVals[h+1].Hash())
	}
	if !bytes.Equal(hd.ConsensusHash, o.twinParams[h].Hash()) {
		return bad("ConsensusHash %X, twin says %X", hd.ConsensusHash, o.twinParams[h].Hash())
	}
	if !o.twinVals[h].HasAddress(hd.ProposerAddress) {
		return bad("proposer %X is not a validator at this height", hd.ProposerAddress)
	}
	for _, tx := range blk.Data.Txs {
		if int64(len(tx)) > o.twinParams[h].Block.MaxTxBytes {
			return bad("tx of %d bytes exceeds MaxTxBytes %d", len(tx), o.twinParams[h].Block.MaxTxBytes)
		}
	}
	// canonical parts
	parts := make([]*types.Part, meta.BlockID.PartsHeader.Total)
	var raw []byte
	for i := range parts {
		parts[i] = n.bs.LoadBlockPart(h, i)
		if parts[i] == nil {
			s.fail("C41", "load_part", "n%d LoadBlockPart(%d,%d)=nil", n.id, h, i)
			return nil
		}
		raw = append(raw, parts[i].Bytes...)
	}
	if info := o.blocks[hdrKey(meta.BlockID.PartsHeader)]; info != nil {
		for i := range parts {
			if !proofEq(parts[i], info.parts[i]) {
				s.fail("C39", "stored_bytes", "n%d stored part %d of height %d differs from the proposer's bytes", n.id, i, h)
				return nil
			}
		}
	} else {
		// the proposer died in the event in which it proposed and (holding > 2/3 alone) committed: nothing was ever sent
		o.registerBlock(meta.BlockID, parts, "", n.id)
		s.r.Probe("block_registered_from_store")
	}
	if int64(len(raw)) > o.twinParams[h].Block.MaxDataBytes {
		// addProposalBlockPart decodes with MaxDataBytes as the limit
		return bad("block of %d bytes exceeds the decode limit %d", len(raw), o.twinParams[h].Block.MaxDataBytes)
	}

	rec := &heightRec{h: h, id: meta.BlockID, block: blk, parts: parts, storedBy: map[int]bool{}, seen: map[int]*types.Commit{}}
	o.heights[h] = rec
	o.topH = h

	// twin execution -> expectations for h+1 / h+2
	tw := o.twin
	resp := sm.NewABCIResponses(blk)
	resp.BeginBlock = tw.BeginBlock(abci.RequestBeginBlock{Hash: blk.Hash(), Header: hd.Copy()})
	for i, tx := range blk.Data.Txs {
		resp.DeliverTxs[i] = tw.DeliverTx(abci.RequestDeliverTx{Tx: tx})
	}
	resp.EndBlock = tw.EndBlock(abci.RequestEndBlock{Height: h})
	cr := tw.Commit()
	rec.resp = resp
	o.appHash[h] = cr.Data
	o.resHash[h] = resp.ResultsHash()
	o.totalTxs[h] = hd.TotalTxs
	nn := o.twinVals[h+1].Copy()
	if u := resp.EndBlock.ValidatorUpdates; len(u) > 0 {
		if err := nn.UpdateWithABCIValidatorUpdates(u); err != nil {
			kernel.Harnessf("twin: validator update at height %d failed: %v", h, err)
		}
		s.r.Probe("validator_set_change_committed")
		s.event("valset change at h=%d (effective h=%d)", h, h+2)
	}
	nn.IncrementProposerPriority(1)
	o.twinVals[h+2] = nn
	p := o.twinParams[h]
	if resp.EndBlock.ConsensusParams != nil {
		p = p.Update(*resp.EndBlock.ConsensusParams)
		s.r.Probe("consensus_params_change_committed")
	}
	o.twinParams[h+1] = p
	if len(parts) > 1 {
		s.r.Probe("multi_part_block_committed")
	}
	if h%100000 == 0 {
		s.r.Probe("validator_checkpoint_height_crossed")
	}
	return rec
}

func (s *sim) slotByAddr(a types.Address) *slot {
	for _, sl := range s.slots {
		if sl.key.PubKey().Address() == a {
			return sl
		}
	}
	return nil
}

// ---------------------------------------------------------------------------
// C41 read-back

func valsEq(a, b *types.ValidatorSet) string {
	if a.Size() != b.Size() {
		return fmt.Sprintf("size %d vs %d", a.Size(), b.Size())
	}
	for i := 0; i < a.Size(); i++ {
		_, x := a.GetByIndex(i)
		_, y := b.GetByIndex(i)
		if x.Address != y.Address || x.VotingPower != y.VotingPower || x.ProposerPriority != y.ProposerPriority || !x.PubKey.Equals(y.PubKey) {
			return fmt.Sprintf("validator %d: %v vs %v", i, x, y)
		}
	}
	if pa, pb := a.GetProposer(), b.GetProposer(); pa.Address != pb.Address {
		return fmt.Sprintf("proposer %v vs %v", pa.Address, pb.Address)
	}
	return ""
}

// checkStoresAt compares everything node n's stores return for height h with the simulator's record.
func (o *oracle) checkStoresAt(n *node, h int64, fresh bool) {
	s := o.s
	rec := o.heights[h]
	if rec == nil || !rec.storedBy[n.id] {
		return
	}
	meta := n.bs.LoadBlockMeta(h)
	if meta == nil || !meta.BlockID.Equals(rec.id) || !bytes.Equal(meta.Header.Hash(), rec.block.Header.Hash()) {
		if meta != nil && !bytes.Equal(meta.BlockID.Hash, rec.id.Hash) {
			s.fail("C31", "own_history", "n%d now has block %X at height %d, it had stored %X", n.id, meta.BlockID.Hash, h, rec.id.Hash)
			return
		}
		s.fail("C41", "load_meta", "n%d LoadBlockMeta(%d)=%v, recorded %v", n.id, h, meta, rec.id)
		return
	}
	blk := n.bs.LoadBlock(h)
	if blk == nil || !bytes.Equal(blk.Hash(), rec.id.Hash) || !bytes.Equal(amino.MustMarshal(blk), amino.MustMarshal(rec.block)) {
		s.fail("C41", "load_block", "n%d LoadBlock(%d) differs from the saved block %X", n.id, h, rec.id.Hash)
		return
	}
	for i, p := range rec.parts {
		q := n.bs.LoadBlockPart(h, i)
		if q == nil || !proofEq(p, q) {
			s.fail("C41", "load_part", "n%d LoadBlockPart(%d,%d) differs from the saved part", n.id, h, i)
			return
		}
	}
	if h > s.initialH {
		c := n.bs.LoadBlockCommit(h - 1)
		if c == nil || !bytes.Equal(amino.MustMarshal(c), amino.MustMarshal(rec.block.LastCommit)) {
			s.fail("C41", "load_block_commit", "n%d LoadBlockCommit(%d) differs from block %d's LastCommit", n.id, h-1, h)
			return
		}
	}
	sc := n.bs.LoadSeenCommit(h)
	if want := rec.seen[n.id]; want != nil {
		if sc == nil || !bytes.Equal(amino.MustMarshal(sc), amino.MustMarshal(want)) {
			s.fail("C41", "load_seen_commit", "n%d LoadSeenCommit(%d)=%v differs from the seen commit it saved %v", n.id, h, sc, want)
			return
		}
	}
	if n.bs.Height() < h {
		s.fail("C41", "store_height", "n%d store height %d below stored height %d", n.id, n.bs.Height(), h)
		return
	}
	// state store: validators for h (and, when fresh, h+1, h+2), params, ABCI responses
	hs := []int64{h}
	if fresh {
		hs = append(hs, h+1, h+2)
	}
	for _, hh := range hs {
		want := o.twinVals[hh]
		if want == nil {
			continue
		}
		got, err := sm.LoadValidators(n.stateDB, hh)
		if err != nil {
			s.fail("C41", "load_validators", "n%d LoadValidators(%d): %v (store height %d)", n.id, hh, err, n.bs.Height())
			return
		}
		if d := valsEq(got, want); d != "" {
			s.fail("C41", "load_validators", "n%d LoadValidators(%d) differs from the set in effect at that height: %s", n.id, hh, d)
			return
		}
	}
	hp := []int64{h}
	if fresh {
		hp = append(hp, h+1)
	}
	for _, hh := range hp {
		want, ok := o.twinParams[hh]
		if !ok {
			continue
		}
		got, err := sm.LoadConsensusParams(n.stateDB, hh)
		if err != nil {
			s.fail("C41", "load_params", "n%d LoadConsensusParams(%d): %v", n.id, hh, err)
			return
		}
		if !bytes.Equal(got.Hash(), want.Hash()) {
			s.fail("C41", "load_params", "n%d LoadConsensusParams(%d)=%+v, in effect %+v", n.id, hh, got.Block, want.Block)
			return
		}
	}
	gr, err := sm.LoadABCIResponses(n.stateDB, h)
	if err != nil {
		s.fail("C41", "load_abci_responses", "n%d LoadABCIResponses(%d): %v", n.id, h, err)
		return
	}
	if !bytes.Equal(gr.Bytes(), rec.resp.Bytes()) {
		s.fail("C41", "load_abci_responses", "n%d LoadABCIResponses(%d) differs from the twin's responses", n.id, h)
		return
	}
	s.r.Probe("store_readback_checked")
}

// afterRestart: the node came back; everything it had stored must still read back, and the reference
// vote tallies for its current height are unknown (its sets were rebuilt from its own WAL).
func (o *oracle) afterRestart(n *node) {
	s := o.s
	top := n.bs.Height()
	if top < n.storeH && n.storeH >= s.initialH {
		s.fail("C41", "store_height_decreased", "n%d block store height is %d after restart, it had reached %d (SaveBlock ends with a synced write)", n.id, top, n.storeH)
		return
	}
	// blocks it stored in the very event it died in have not been seen by the oracles yet
	nr0 := o.nref(n)
	nr0.cur, nr0.last = nil, nil
	for h := n.storeH + 1; h <= top && !s.stop; h++ {
		if h < s.initialH {
			continue
		}
		o.newStoredBlock(n, h)
		n.storeH = h
	}
	if s.stop {
		return
	}
	o.sweepStores(n, "restart")
	if s.stop {
		return
	}
	rs := n.cs.GetRoundState()
	vals := o.twinVals[rs.Height]
	if vals == nil {
		kernel.Harnessf("restart: no twin validator set for height %d (n%d)", rs.Height, n.id)
	}
	// WAL catch-up must bring back every vote of the current height the node had signed AND added before it
	// died (those records were fsynced): otherwise it has forgotten what it voted for (lock amnesia)
	var ks [][3]int64
	for k := range n.ownAdded {
		ks = append(ks, k)
	}
	sort.Slice(ks, func(i, j int) bool { return less3(ks[i], ks[j]) })
	for _, k := range ks {
		v := n.ownAdded[k]
		if v.Height < rs.Height {
			delete(n.ownAdded, k)
			continue
		}
		if v.Height != rs.Height {
			continue
		}
		var vs *types.VoteSet
		if v.Type == types.PrevoteType {
			vs = rs.Votes.Prevotes(v.Round)
		} else {
			vs = rs.Votes.Precommits(v.Round)
		}
		idx, _ := rs.Validators.GetByAddress(n.addr)
		var got *types.Vote
		if vs != nil && idx >= 0 {
			got = vs.GetByIndex(idx)
		}
		if got == nil || !bytes.Equal(got.Signature, v.Signature) {
			// "WAL not replayed" is not a C33 sentence by itself: counted as an anomaly; its consequences (a conflicting
			// signature, a node that cannot rejoin) are what the C33/C34 oracles decide
			kind := "anomaly:own_votes_not_replayed"
			if rs.Height == s.initialH {
				// the WAL of a fresh chain starts with MetaMessage{0}; catchupReplay(h) wants MetaMessage{h}
				kind = "anomaly:own_votes_not_replayed_first_height"
			} else if _, found, _ := n.wal.SearchForHeight(rs.Height, &walm.WALSearchOptions{IgnoreDataCorruptionErrors: true}); !found {
				// block h-1 was saved, the node died before the end-height marker, the handshake applied the block:
				// the WAL never gets a marker for it and height h runs without a replayable WAL
				kind = "anomaly:own_votes_not_replayed_no_end_height_marker"
			}
			s.r.Probe(kind)
			s.event("%s n%d h=%d (%s)", kind, n.id, rs.Height, voteDesc(v))
			s.walNotReplayed = true
			if n.noReplay == nil {
				n.noReplay = map[int64]string{}
			}
			n.noReplay[rs.Height] = strings.TrimPrefix(kind, "anomaly:own_votes_not_replayed")
			break
		}
		s.r.Probe("own_vote_restored_by_wal_replay")
	}
	nr := o.nref(n)
	nr.cur = newRefHVS(s.chainID, rs.Height, vals)
	nr.cur.unknown = true
}

// sweepStores: full read-back of every height node n stored (restarts, end of run).
func (o *oracle) sweepStores(n *node, when string) {
	top := n.bs.Height()
	for h := o.s.initialH; h <= top && !o.s.stop; h++ {
		rec := o.heights[h]
		if rec == nil {
			o.s.fail("C31", "own_history", "n%d (%s) has a block at height %d nobody committed", n.id, when, h)
			return
		}
		if !rec.storedBy[n.id] {
			continue
		}
		o.checkStoresAt(n, h, h == top)
	}
}

var _ = cons.VerifMaxMsgSize
