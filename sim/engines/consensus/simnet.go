package consensus_sim

import (
	"time"

	cons "github.com/gnolang/gno/tm2/pkg/bft/consensus"
	"github.com/gnolang/gno/tm2/pkg/bft/types"
)

// simnet: the message-passing layer that replaces the p2p switch. A message is
// (from slot, to node, ConsensusMessage). Per run it draws latency, jitter,
// drop, duplicate (reorder follows from jitter), a partition/heal schedule and
// a global-stabilisation time after which all faults stop.
type simnet struct {
	s       *sim
	baseLat time.Duration
	jitter  time.Duration
	dropPm  int // per mille
	dupPm   int
	parts   []partition
	storms  [][2]time.Duration // drop/duplicate only inside these windows (fault-free stretches in between)
	stabAt  time.Duration
	perfect bool // after a missed liveness bound: every message instantly to everyone
	omni    bool // after a second miss: the gossip stub additionally offers what NO reactor rule would keep from a peer (see antiEntropy)
	adv     *advNet // knob adv: an adversarial scheduler for the fault phase (nil = off)
}

// advNet: the network adversary of the fault phase (asynchrony is the adversary's to use before the
// stabilisation point). Per (height, round) it picks one honest "victim": prevotes reach the victim fast and the
// others late (so the victim alone sees the polka and locks, the others time out), the proposal of that round
// may reach the victim late (so that it relocks / precommits on a polka without the proposal), precommits reach
// the others late. Together with the byzantine stale-polka hand-over this drives many rounds per height with
// lock / relock / unlock transitions. Every decision is a tape draw.
type advNet struct {
	victims   [8]int // index into s.nodes per (height*3+round) mod 8
	pPrevote  int    // per mille: delay a prevote addressed to a non-victim
	pProposal int    // per mille: delay a proposal / block part addressed to the victim
	pPrecomm  int    // per mille: delay a precommit addressed to a non-victim
	delay     time.Duration
}

func (a *advNet) extra(s *sim, to *node, m *netMsg) time.Duration {
	var h int64
	var r int
	kind := 0 // 1 prevote, 2 precommit, 3 proposal/part
	switch x := m.msg.(type) {
	case *cons.VoteMessage:
		if x.Vote == nil {
			return 0
		}
		h, r = x.Vote.Height, x.Vote.Round
		kind = 1
		if x.Vote.Type == types.PrecommitType {
			kind = 2
		}
	case *cons.ProposalMessage:
		if x.Proposal == nil {
			return 0
		}
		h, r, kind = x.Proposal.Height, x.Proposal.Round, 3
	case *cons.BlockPartMessage:
		h, r, kind = x.Height, x.Round, 3
	default:
		return 0
	}
	if r < 0 || len(s.nodes) == 0 {
		return 0
	}
	victim := s.nodes[a.victims[(int(h%1000)*3+r)%len(a.victims)]%len(s.nodes)]
	pm := 0
	switch {
	case kind == 1 && to != victim:
		pm = a.pPrevote
	case kind == 2 && to != victim:
		pm = a.pPrecomm
	case kind == 3 && to == victim:
		pm = a.pProposal
	}
	if pm > 0 && s.c.Chance(pm, 1000) {
		s.r.Fault("adv_delay")
		return a.delay
	}
	return 0
}

type partition struct {
	from, to time.Duration
	side     []int // side[slot]
}

func (nt *simnet) faultsOn(at time.Duration) bool { return at < nt.stabAt && !nt.perfect }

func (nt *simnet) storm(at time.Duration) bool {
	if !nt.faultsOn(at) {
		return false
	}
	for _, w := range nt.storms {
		if at >= w[0] && at < w[1] {
			return true
		}
	}
	return false
}

// cut reports whether slots a and b are separated at time at.
func (nt *simnet) cut(a, b int, at time.Duration) bool {
	if !nt.faultsOn(at) {
		return false
	}
	for i := range nt.parts {
		p := &nt.parts[i]
		if at >= p.from && at < p.to && p.side[a] != p.side[b] {
			return true
		}
	}
	return false
}

// delay draws the delivery delay of one message sent now.
func (nt *simnet) delay() time.Duration {
	s := nt.s
	if nt.perfect {
		return 0
	}
	d := nt.baseLat
	if s.now() < nt.stabAt && nt.jitter > 0 {
		d += time.Duration(s.c.Intn(int(nt.jitter/time.Millisecond)+1)) * time.Millisecond
	}
	return d
}

// send schedules delivery of msg from slot `from` to honest node `to`, applying faults.
func (nt *simnet) send(from int, to *node, m *netMsg) {
	s := nt.s
	at := s.now()
	if nt.cut(from, to.id, at) {
		s.r.Fault("partition_drop")
		s.event("drop(partition) %d->%d %s", from, to.id, m.desc)
		return
	}
	storm := nt.storm(at)
	if storm {
		if s.c.Chance(nt.dropPm, 1000) {
			s.r.Fault("drop")
			s.event("drop %d->%d %s", from, to.id, m.desc)
			return
		}
	}
	d := nt.delay()
	if nt.adv != nil && nt.faultsOn(at) {
		d += nt.adv.extra(s, to, m)
	}
	s.schedule(at+d, to.id, func() { s.deliver(to, from, m) })
	if storm && s.c.Chance(nt.dupPm, 1000) {
		s.r.Fault("duplicate")
		d2 := nt.delay()
		s.schedule(at+d2, to.id, func() { s.deliver(to, from, m) })
	}
}
