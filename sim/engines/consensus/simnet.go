package consensus_sim

import (
	"time"
)

// simnet: the message-passing layer that replaces the p2p switch. A message is
// (from slot, to node, ConsensusMessage). Per run it draws latency, jitter,
// drop, duplicate (reorder follows from jitter), a partition/heal schedule and
// a global-stabilisation time after which all faults stop.
type simnet struct {
	s       *sim
	baseLat time.Duration
	jitter  time.Duration
	dropPm  int // per mille
	dupPm   int
	parts   []partition
	storms  [][2]time.Duration // drop/duplicate only inside these windows (fault-free stretches in between)
	stabAt  time.Duration
	perfect bool // after a missed liveness bound: every message instantly to everyone
	omni    bool // after a second miss: the gossip stub additionally offers what NO reactor rule would keep from a peer (see antiEntropy)
}

type partition struct {
	from, to time.Duration
	side     []int // side[slot]
}

func (nt *simnet) faultsOn(at time.Duration) bool { return at < nt.stabAt && !nt.perfect }

func (nt *simnet) storm(at time.Duration) bool {
	if !nt.faultsOn(at) {
		return false
	}
	for _, w := range nt.storms {
		if at >= w[0] && at < w[1] {
			return true
		}
	}
	return false
}

// cut reports whether slots a and b are separated at time at.
func (nt *simnet) cut(a, b int, at time.Duration) bool {
	if !nt.faultsOn(at) {
		return false
	}
	for i := range nt.parts {
		p := &nt.parts[i]
		if at >= p.from && at < p.to && p.side[a] != p.side[b] {
			return true
		}
	}
	return false
}

// delay draws the delivery delay of one message sent now.
func (nt *simnet) delay() time.Duration {
	s := nt.s
	if nt.perfect {
		return 0
	}
	d := nt.baseLat
	if s.now() < nt.stabAt && nt.jitter > 0 {
		d += time.Duration(s.c.Intn(int(nt.jitter/time.Millisecond)+1)) * time.Millisecond
	}
	return d
}

// send schedules delivery of msg from slot `from` to honest node `to`, applying faults.
func (nt *simnet) send(from int, to *node, m *netMsg) {
	s := nt.s
	at := s.now()
	if nt.cut(from, to.id, at) {
		s.r.Fault("partition_drop")
		s.event("drop(partition) %d->%d %s", from, to.id, m.desc)
		return
	}
	storm := nt.storm(at)
	if storm {
		if s.c.Chance(nt.dropPm, 1000) {
			s.r.Fault("drop")
			s.event("drop %d->%d %s", from, to.id, m.desc)
			return
		}
	}
	d := nt.delay()
	s.schedule(at+d, to.id, func() { s.deliver(to, from, m) })
	if storm && s.c.Chance(nt.dupPm, 1000) {
		s.r.Fault("duplicate")
		d2 := nt.delay()
		s.schedule(at+d2, to.id, func() { s.deliver(to, from, m) })
	}
}
