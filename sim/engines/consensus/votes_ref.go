package consensus_sim

// Reference tally for C35: per node / height / round / type, the votes that
// node was actually delivered, classified from the rules in the VoteSet doc
// comment and the property statement — written independently of vote_set.go:
//
//   eligible   right height/round/type, index in range, address = valset[index], signature verifies
//   duplicate  same validator, same block, same signature           -> not added, no error
//   nondet     same validator, same block, other signature          -> rejected
//   first      validator's first eligible vote                      -> added, counts for "any" and for its block
//   conflict   validator already voted for another block            -> always REPORTED; counted for its block only
//              if a peer claimed +2/3 for that block (SetPeerMaj23); never counted twice for "any"
//   maj23      the first block whose counted power exceeds 2/3 of the total; never changes
//   canonical  per validator: its vote for the maj23 block once that exists (votes for the majority get
//              priority, also a later verified conflicting one), else its first vote
import (
	"bytes"
	"fmt"

	"github.com/gnolang/gno/tm2/pkg/bft/types"
)

type refBlock struct {
	id      types.BlockID
	peerMaj bool
	voters  map[int]*types.Vote
	sum     int64
}

type refVoteSet struct {
	chainID string
	height  int64
	round   int
	typ     types.SignedMsgType
	vals    *types.ValidatorSet

	first   map[int]*types.Vote
	canon   map[int]*types.Vote
	blocks  map[string]*refBlock
	sum     int64
	maj     *types.BlockID
	peerMaj map[string]types.BlockID
	majSeq  int // how many times a (different) majority was observed: must stay <= 1
}

func newRefVoteSet(chainID string, h int64, r int, t types.SignedMsgType, vals *types.ValidatorSet) *refVoteSet {
	return &refVoteSet{chainID: chainID, height: h, round: r, typ: t, vals: vals,
		first: map[int]*types.Vote{}, canon: map[int]*types.Vote{}, blocks: map[string]*refBlock{}, peerMaj: map[string]types.BlockID{}}
}

type addOutcome struct {
	added    bool
	conflict bool // a conflict must be reported (VoteConflictingVotesError)
	why      string
}

func (rv *refVoteSet) total() int64 { return rv.vals.TotalVotingPower() }

func (rv *refVoteSet) add(v *types.Vote) addOutcome {
	if v.ValidatorIndex < 0 || len(v.ValidatorAddress) == 0 {
		return addOutcome{why: "no index/address"}
	}
	if v.Height != rv.height || v.Round != rv.round || v.Type != rv.typ {
		return addOutcome{why: "wrong step"}
	}
	if v.ValidatorIndex >= rv.vals.Size() {
		return addOutcome{why: "unknown validator index"}
	}
	addr, val := rv.vals.GetByIndex(v.ValidatorIndex)
	if addr != v.ValidatorAddress {
		return addOutcome{why: "address mismatch"}
	}
	key := v.BlockID.Key()
	idx := v.ValidatorIndex
	var existing *types.Vote
	if c := rv.canon[idx]; c != nil && c.BlockID.Key() == key {
		existing = c
	} else if b := rv.blocks[key]; b != nil && b.voters[idx] != nil {
		existing = b.voters[idx]
	}
	if existing != nil {
		if bytes.Equal(existing.Signature, v.Signature) {
			return addOutcome{why: "duplicate"}
		}
		return addOutcome{why: "non-deterministic signature"}
	}
	if !val.PubKey.VerifyBytes(v.SignBytes(rv.chainID), v.Signature) {
		return addOutcome{why: "bad signature"}
	}
	out := addOutcome{}
	b := rv.blocks[key]
	if rv.first[idx] == nil {
		rv.first[idx] = v
		rv.canon[idx] = v
		rv.sum += val.VotingPower
		if b == nil {
			b = &refBlock{id: v.BlockID, voters: map[int]*types.Vote{}}
			rv.blocks[key] = b
		}
	} else {
		out.conflict = true
		if rv.maj != nil && rv.maj.Key() == key {
			rv.canon[idx] = v // votes for the majority block get priority
		}
		if b == nil || !b.peerMaj {
			out.why = "conflicting, block not claimed by a peer"
			return out
		}
	}
	before := b.sum
	if b.voters[idx] == nil {
		b.voters[idx] = v
		b.sum += val.VotingPower
	}
	out.added = true
	T := rv.total()
	if !(3*before > 2*T) && 3*b.sum > 2*T && rv.maj == nil {
		id := v.BlockID
		rv.maj = &id
		for i, bv := range b.voters {
			rv.canon[i] = bv
		}
	}
	return out
}

// snapshot copies what compareCommit needs.
func (rv *refVoteSet) snapshot() *refVoteSet {
	c := &refVoteSet{chainID: rv.chainID, height: rv.height, round: rv.round, typ: rv.typ, vals: rv.vals, canon: map[int]*types.Vote{}}
	for i, v := range rv.canon {
		c.canon[i] = v
	}
	if rv.maj != nil {
		id := *rv.maj
		c.maj = &id
	}
	return c
}

// claim models SetPeerMaj23; returns whether an error is expected.
func (rv *refVoteSet) claim(peer string, id types.BlockID) (wantErr bool) {
	if ex, ok := rv.peerMaj[peer]; ok {
		return !ex.Equals(id)
	}
	rv.peerMaj[peer] = id
	b := rv.blocks[id.Key()]
	if b == nil {
		b = &refBlock{id: id, voters: map[int]*types.Vote{}}
		rv.blocks[id.Key()] = b
	}
	b.peerMaj = true
	return false
}

func sameVote(a, b *types.Vote) bool {
	if (a == nil) != (b == nil) {
		return false
	}
	if a == nil {
		return true
	}
	return a.Type == b.Type && a.Height == b.Height && a.Round == b.Round && a.BlockID.Equals(b.BlockID) &&
		a.ValidatorIndex == b.ValidatorIndex && a.ValidatorAddress == b.ValidatorAddress &&
		bytes.Equal(a.Signature, b.Signature) && a.Timestamp.Equal(b.Timestamp)
}

// compare checks the real vote set's answers against the reference; returns "" if equal.
func (rv *refVoteSet) compare(vs *types.VoteSet) string {
	if vs == nil {
		return "vote set missing"
	}
	maj, ok := vs.TwoThirdsMajority()
	if ok != (rv.maj != nil) {
		return fmt.Sprintf("TwoThirdsMajority ok=%v, reference majority=%v (counted any=%d/%d)", ok, rv.maj, rv.sum, rv.total())
	}
	if ok && !maj.Equals(*rv.maj) {
		return fmt.Sprintf("TwoThirdsMajority=%v, reference (first majority)=%v", maj, *rv.maj)
	}
	if vs.HasTwoThirdsMajority() != ok {
		return "HasTwoThirdsMajority disagrees with TwoThirdsMajority"
	}
	if got, want := vs.HasTwoThirdsAny(), 3*rv.sum > 2*rv.total(); got != want {
		return fmt.Sprintf("HasTwoThirdsAny=%v, reference %v (distinct power %d of %d)", got, want, rv.sum, rv.total())
	}
	ba := vs.BitArray()
	for i := 0; i < rv.vals.Size(); i++ {
		if ba.GetIndex(i) != (rv.first[i] != nil) {
			return fmt.Sprintf("BitArray[%d]=%v, reference has-vote=%v", i, ba.GetIndex(i), rv.first[i] != nil)
		}
		if g := vs.GetByIndex(i); !sameVote(g, rv.canon[i]) {
			return fmt.Sprintf("GetByIndex(%d)=%v, reference canonical=%v", i, g, rv.canon[i])
		}
	}
	for _, k := range sortedBlockKeys(rv.blocks) {
		b := rv.blocks[k]
		bb := vs.BitArrayByBlockID(b.id)
		if bb == nil {
			return fmt.Sprintf("BitArrayByBlockID(%v)=nil but the reference tracks that block", b.id)
		}
		for i := 0; i < rv.vals.Size(); i++ {
			if bb.GetIndex(i) != (b.voters[i] != nil) {
				return fmt.Sprintf("BitArrayByBlockID(%v)[%d]=%v, reference counted=%v", b.id, i, bb.GetIndex(i), b.voters[i] != nil)
			}
		}
	}
	if rv.typ == types.PrecommitType && rv.maj != nil {
		if d := rv.compareCommit(vs.MakeCommit()); d != "" {
			return d
		}
	}
	return ""
}

// compareCommit checks a commit made from this vote set.
func (rv *refVoteSet) compareCommit(c *types.Commit) string {
	if rv.maj == nil {
		return "commit made without a reference majority"
	}
	if !c.BlockID.Equals(*rv.maj) {
		return fmt.Sprintf("MakeCommit block id %v, reference majority %v", c.BlockID, *rv.maj)
	}
	if len(c.Precommits) != rv.vals.Size() {
		return fmt.Sprintf("MakeCommit has %d entries for %d validators", len(c.Precommits), rv.vals.Size())
	}
	var forMaj int64
	for i, cs := range c.Precommits {
		var g *types.Vote
		if cs != nil {
			v := types.Vote(*cs)
			g = &v
		}
		if !sameVote(g, rv.canon[i]) {
			return fmt.Sprintf("MakeCommit[%d]=%v, reference canonical=%v", i, g, rv.canon[i])
		}
		if g != nil && g.BlockID.Equals(*rv.maj) {
			_, val := rv.vals.GetByIndex(i)
			forMaj += val.VotingPower
		}
	}
	if !(3*forMaj > 2*rv.total()) {
		return fmt.Sprintf("MakeCommit carries only %d/%d power for the majority block", forMaj, rv.total())
	}
	return ""
}

// strays counts commit entries that are not votes for the majority block (by design allowed: see NOTES.md).
func (rv *refVoteSet) strays() int {
	n := 0
	if rv.maj == nil {
		return 0
	}
	for _, v := range rv.canon {
		if v != nil && !v.BlockID.Equals(*rv.maj) {
			n++
		}
	}
	return n
}

func sortedBlockKeys(m map[string]*refBlock) []string {
	ks := make([]string, 0, len(m))
	for k := range m {
		ks = append(ks, k)
	}
	sortStrings(ks)
	return ks
}

// refHVS is the per-node, per-height collection of reference vote sets.
type refHVS struct {
	chainID string
	height  int64
	vals    *types.ValidatorSet
	sets    map[[2]int]*refVoteSet
	catchup map[string][]int // peer -> rounds it was allowed to open
	unknown bool             // after a restart the node's sets were rebuilt from its WAL: reference resumes next height
}

func newRefHVS(chainID string, h int64, vals *types.ValidatorSet) *refHVS {
	return &refHVS{chainID: chainID, height: h, vals: vals, sets: map[[2]int]*refVoteSet{}, catchup: map[string][]int{}}
}

func (rh *refHVS) set(round int, t types.SignedMsgType) *refVoteSet {
	k := [2]int{round, int(t)}
	if s := rh.sets[k]; s != nil {
		return s
	}
	s := newRefVoteSet(rh.chainID, rh.height, round, t, rh.vals)
	rh.sets[k] = s
	return s
}

func (rh *refHVS) openedByCatchup(round int) bool {
	for _, rr := range rh.catchup {
		for _, r := range rr {
			if r == round {
				return true
			}
		}
	}
	return false
}
