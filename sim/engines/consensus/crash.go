package consensus_sim

// Stage 2: crash / restart (C33, C34).
//
// A crash is either "between two simulator events" or "at the k-th physical op
// over all of the node's simdb disks" (simdb.Machine.CrashAt -> CrashSentinel
// panics inside the node's goroutine; ConsensusState.receiveRoutine's own
// recover logs CONSENSUS FAILURE and stops — the simulator tells the two apart
// by the machine's Dead flag). What survives: simdb images (kill: every op
// issued; power loss: synced prefix + drawn part of the unsynced tail, per
// disk), the WAL file image (kill: bytes already write()n, user-space buffer
// lost; power loss: bytes up to the last fsync + a drawn, possibly torn, prefix
// of the rest), the privval state file as it is on disk (WriteFileAtomic).
// Restart = node.boot(): the same public constructors production uses.
import (
	"bytes"
	"fmt"
	"os"
	"strings"
	"testing/synctest"
	"time"

	abci "github.com/gnolang/gno/tm2/pkg/bft/abci/types"
	sm "github.com/gnolang/gno/tm2/pkg/bft/state"
	"github.com/gnolang/gno/tm2/pkg/bft/store"
	"github.com/gnolang/gno/tm2/pkg/bft/types"

	"verif/sim/simdb"
)

type crashPlan struct {
	node  int
	at    time.Duration
	kthOp int  // 0 = between events
	power bool // power-loss images (else kill)
	down  time.Duration
	boot  int // >0: also crash the k-th op of the restart itself (handshake / replay), then restart again
}

func (s *sim) planCrashes(span time.Duration) {
	c := s.c
	if s.w.crash == 0 || !c.Chance(s.w.crash, s.w.crash+1) {
		return
	}
	k := 1 + c.Intn(4)
	spanMs := int(span / time.Millisecond)
	for i := 0; i < k; i++ {
		cp := crashPlan{node: s.nodes[c.Intn(len(s.nodes))].id}
		cp.at = time.Duration(c.Intn(spanMs)) * time.Millisecond
		if c.Chance(3, 4) {
			cp.kthOp = 1 + c.Intn(40)
		}
		cp.power = c.Bool()
		cp.down = time.Duration(50+c.Intn(4000)) * time.Millisecond
		if c.Chance(1, 4) {
			cp.boot = 1 + c.Intn(12)
		}
		s.crashPlan = append(s.crashPlan, cp)
		cpp := cp
		s.schedule(cp.at, -1, func() { s.armCrash(cpp) })
	}
}

func (s *sim) armCrash(cp crashPlan) {
	n := s.slots[cp.node].node
	if !n.up || s.now() >= s.net.stabAt || n.pendingCrash != nil {
		return
	}
	n.pendingCrash = &cp
	if cp.kthOp == 0 {
		s.event("crash n%d between events (power=%v)", n.id, cp.power)
		n.mach.Dead = true // freeze the devices: from here on nothing reaches the disks
		s.onCrashed(n, nil)
		return
	}
	n.mach.CrashAt = n.mach.Ops + uint64(cp.kthOp)
	s.event("arm crash n%d at its physical op +%d (power=%v)", n.id, cp.kthOp, cp.power)
}

// onCrashed: the node's machine is dead (sentinel fired inside one of its goroutines, or a kill between events).
func (s *sim) onCrashed(n *node, log []obs) {
	cp := n.pendingCrash
	if cp == nil {
		cp = &crashPlan{node: n.id, down: time.Second}
	}
	s.crashesFired++
	s.r.Fault("crash")
	if cp.power {
		s.r.Fault("crash_power_loss_image")
	} else {
		s.r.Fault("crash_kill_image")
	}
	// signatures released before the death count for the signer log; votes the node had already added
	// may or may not have left the machine
	var added []*released
	sent := map[string]bool{}
	for i := range log {
		o := &log[i]
		if o.rel != nil {
			s.or.signed(n, o.rel)
			added = append(added, o.rel)
		}
		if ev, ok := o.ev.(types.EventVote); ok && ev.Vote != nil && ev.Vote.ValidatorAddress == n.addr {
			sent[string(ev.Vote.Signature)] = true
		}
	}
	rs := n.cs.GetRoundState()
	for _, rl := range added {
		if rl.vote != nil && sent[string(rl.sig)] && s.c.Bool() {
			s.emitOwn(n, rs, rl)
		}
	}
	s.event("crashed n%d (life %d) at op %d store=%d", n.id, n.life, n.mach.Ops, n.bs.Height())
	s.probeCrashPoint(n)

	// --- images ---
	// WAL: the kill image is what is on disk before anybody flushes
	n.crashing = true
	var killImg []byte
	if n.wal != nil && n.wal.haveImage {
		killImg = n.wal.killImage
	} else {
		killImg, _ = os.ReadFile(n.walFile())
	}
	// no WAL object yet (the node died during a restart, before it reopened its WAL): the file is the
	// previous crash image, all of it durable
	synced := int64(len(killImg))
	if n.wal != nil {
		synced = n.wal.syncedLen
	}
	n.shutdown() // stops receiveRoutine (if still there), WAL, event switch, app conns; flushes are undone below
	synctest.Wait()
	img := killImg
	if cp.power {
		if synced > int64(len(img)) {
			synced = int64(len(img))
		}
		if tail := len(img) - int(synced); tail > 0 {
			keep := s.c.Intn(tail + 1)
			if keep < tail {
				s.r.Fault("wal_unsynced_tail_lost")
			}
			img = img[:int(synced)+keep]
		}
	}
	if s.trace {
		fmt.Fprintf(os.Stderr, "WAL image n%d: kill=%d synced=%d kept=%d power=%v\n", n.id, len(killImg), synced, len(img), cp.power)
	}
	n.lastWalImage = img
	n.lastWalImageTorn = len(img) > 0 && img[len(img)-1] != '\n'
	n.lastCrashPower = cp.power
	if n.lastWalImageTorn {
		s.r.Probe("wal_image_ends_in_torn_line")
	}
	if err := os.WriteFile(n.walFile(), img, 0o600); err != nil {
		panic(err)
	}
	for _, d := range []*simdb.Disk{n.blockDisk, n.stateDisk, n.appDisk} {
		keep := d.Unsynced()
		if cp.power && keep > 0 {
			k := s.c.Intn(keep + 1)
			if k < keep {
				s.r.Fault("db_unsynced_tail_lost")
			}
			keep = k
		}
		d.Crash(keep)
	}
	n.mach.Reboot()
	n.up = false
	n.pendingCrash = nil
	n.downSince = s.now()
	bootCrash := cp.boot
	s.schedule(s.now()+cp.down, -1, func() { s.restart(n, bootCrash) })
}

// probeCrashPoint records where in block processing the node died (evidence: which crash points were reached).
func (s *sim) probeCrashPoint(n *node) {
	st := sm.LoadState(n.stateDisk.Open())
	info := newSimapp(n.appDisk.Open()).Info(abci.RequestInfo{})
	store := n.bs.Height()
	switch {
	case store == st.LastBlockHeight && info.LastBlockHeight == store:
		s.r.Probe("crash_point_between_blocks")
	case store == st.LastBlockHeight+1 && info.LastBlockHeight == st.LastBlockHeight:
		s.r.Probe("crash_point_block_saved_app_not_committed")
	case store == st.LastBlockHeight+1 && info.LastBlockHeight == store:
		s.r.Probe("crash_point_app_committed_state_not_saved")
	default:
		s.r.Probe("crash_point_other")
	}
}

func (s *sim) restartAllDown() {
	for _, n := range s.nodes {
		if !n.up && !n.halted && n.life > 0 {
			s.restart(n, 0)
		}
	}
}

// restart boots the node again from what survived. bootCrash>0 additionally kills the restart itself at
// its k-th physical op (crash during handshake / block replay), after which it is restarted once more.
func (s *sim) restart(n *node, bootCrash int) {
	if n.up || n.halted || s.stop {
		return
	}
	// which Handshaker.ReplayBlocks case is this?
	st := sm.LoadState(n.stateDisk.Open())
	app := newSimapp(n.appDisk.Open()).Info(abci.RequestInfo{})
	bsH := loadStoreHeight(n)
	stH := st.LastBlockHeight
	if st.IsEmpty() {
		stH = s.initialH - 1
	}
	switch {
	case bsH == 0 || bsH < s.initialH:
		s.r.Probe("handshake_case_empty_store")
	case bsH == stH && app.LastBlockHeight < bsH:
		s.r.Probe("handshake_case_store_eq_state_app_behind")
	case bsH == stH && app.LastBlockHeight == bsH:
		s.r.Probe("handshake_case_all_equal")
	case bsH == stH+1 && app.LastBlockHeight < stH:
		s.r.Probe("handshake_case_store_ahead_app_further_behind")
	case bsH == stH+1 && app.LastBlockHeight == stH:
		s.r.Probe("handshake_case_store_ahead_app_eq_state")
	case bsH == stH+1 && app.LastBlockHeight == bsH:
		s.r.Probe("handshake_case_store_ahead_app_eq_store_mock_replay")
	default:
		s.r.Probe("handshake_case_other")
	}
	if bootCrash > 0 && s.now() < s.net.stabAt {
		n.mach.CrashAt = n.mach.Ops + uint64(bootCrash)
	}
	s.event("restart n%d (life %d) store=%d state=%d app=%d", n.id, n.life+1, bsH, stH, app.LastBlockHeight)
	var bootErr error
	var crashed bool
	func() {
		defer func() {
			if e := recover(); e != nil {
				if _, ok := e.(simdb.CrashSentinel); ok {
					crashed = true
					return
				}
				bootErr = fmt.Errorf("panic: %v", e)
			}
		}()
		bootErr = n.boot()
	}()
	synctest.Wait()
	if crashed || n.mach.Dead {
		// died again while recovering
		s.r.Fault("crash_during_restart")
		s.event("n%d crashed during restart", n.id)
		n.pendingCrash = &crashPlan{node: n.id, power: s.c.Bool(), down: time.Duration(100+s.c.Intn(1000)) * time.Millisecond}
		n.mu.Lock()
		log := n.obs
		n.obs = nil
		n.mu.Unlock()
		s.onCrashed(n, log)
		return
	}
	n.mach.CrashAt = 0
	if bootErr != nil {
		if s.trace {
			bz, _ := os.ReadFile(n.walFile())
			lines := bytes.Split(bz, []byte("\n"))
			fmt.Fprintf(os.Stderr, "WAL %d bytes, %d lines; last sizes:", len(bz), len(lines))
			for i := max(0, len(lines)-12); i < len(lines); i++ {
				l := lines[i]
				hd := l
				if len(hd) > 24 {
					hd = hd[:24]
				}
				fmt.Fprintf(os.Stderr, " [%d:%q]", len(l), hd)
			}
			fmt.Fprintln(os.Stderr)
		}
		// C33 speaks of a KILLED process: failures that need a power-loss image (bytes never fsynced are lost) are
		// counted as anomalies, not violations; the same failure from a kill image is a violation.
		corrupt := strings.Contains(bootErr.Error(), "DataCorruptionError")
		n.shutdown()
		synctest.Wait()
		switch {
		case corrupt && (n.lastWalImageTorn || n.walFragment):
			if (n.lastWalImageTorn && n.lastCrashPower) || (n.walFragment && n.walFragmentPower) {
				// power loss left a torn last line; the catch-up replay of this (or of an earlier, successful) restart
				// appended complete records right behind the fragment and fragment+record is read as one corrupt line
				s.r.Probe("anomaly:restart_failed_torn_wal_tail_power_loss_image")
				s.event("anomaly: n%d cannot restart, torn WAL tail left by a power-loss image: %v", n.id, bootErr)
				if n.lastWalImageTorn {
					// do what the operator is told to do (drop the fragment) and go on
					if i := bytes.LastIndexByte(n.lastWalImage, '\n'); i >= 0 {
						os.WriteFile(n.walFile(), n.lastWalImage[:i+1], 0o600)
					}
					n.lastWalImageTorn, n.walFragment = false, false
					n.mach.Reboot()
					for _, d := range []*simdb.Disk{n.blockDisk, n.stateDisk, n.appDisk} {
						d.Crash(d.Unsynced())
					}
					s.event("operator repairs n%d's WAL (drops the torn fragment)", n.id)
					s.schedule(s.now()+time.Millisecond, -1, func() { s.restart(n, 0) })
					return
				}
				n.halted = true
				return
			}
			s.fail("C33", "restart_failed_torn_wal_tail_kill_image", "n%d cannot restart after being killed: its WAL ends in a torn line (bufio had flushed part of a record), catch-up replay appends new records right behind the fragment and reads fragment+record as one corrupt line: %v (store=%d state=%d app=%d)",
				n.id, bootErr, bsH, stH, app.LastBlockHeight)
			n.halted = true
			return
		case n.lastCrashPower && bsH == stH+1 && app.LastBlockHeight == bsH && strings.Contains(bootErr.Error(), "Could not find results for height"):
			// power loss after the app's synced Commit; the ABCI responses of that height (unsynced Set in the state DB)
			// were lost and the handshake's mock-app replay needs them. Impossible with a kill image.
			s.r.Probe("anomaly:restart_failed_abci_responses_not_durable")
			s.event("anomaly: n%d cannot restart, ABCI responses lost by a power-loss image: %v", n.id, bootErr)
			n.halted = true
			return
		}
		if strings.Contains(bootErr.Error(), "should not happen") {
			// baseWAL.SearchForHeight's backwards search computes a file index below the group's first file when the
			// group has exactly two files and the head holds no height marker (the state right after a rotation): every
			// start panics in catchupReplay until the WAL is removed by hand. Same root cause as C38 search_panic.
			s.fail("C33", "restart_failed_wal_search_panic", "n%d cannot restart after its crash (store=%d state=%d app=%d before the handshake, power-loss image=%v): catchupReplay -> baseWAL.SearchForHeight panics on a two-file WAL group whose head has no height marker: %v", n.id, bsH, stH, app.LastBlockHeight, n.lastCrashPower, bootErr)
			n.halted = true
			return
		}
		s.fail("C33", "restart_failed", "n%d cannot restart after its crash (store=%d state=%d app=%d before the handshake, power-loss image=%v): %v", n.id, bsH, stH, app.LastBlockHeight, n.lastCrashPower, bootErr)
		n.halted = true
		return
	}
	if n.lastWalImageTorn {
		n.walFragment = true // the fragment stays in the file until the height is over
		n.walFragmentPower = n.lastCrashPower
		n.walFragmentH = n.cs.GetRoundState().Height
		n.lastWalImageTorn = false
	}
	s.r.Probe("restart_ok")
	// after the handshake: block store, state and application agree
	st2 := sm.LoadState(n.stateDB)
	info := n.app.Info(abci.RequestInfo{})
	top := n.bs.Height()
	if top >= s.initialH {
		if st2.LastBlockHeight != top || info.LastBlockHeight != top {
			s.fail("C33", "handshake_heights", "n%d after restart: block store height %d, state height %d, app height %d", n.id, top, st2.LastBlockHeight, info.LastBlockHeight)
			return
		}
		if !bytes.Equal(st2.AppHash, info.LastBlockAppHash) {
			s.fail("C33", "handshake_app_hash", "n%d after restart at height %d: state app hash %X, app says %X", n.id, top, st2.AppHash, info.LastBlockAppHash)
			return
		}
		if want, ok := s.or.appHash[top]; ok && !bytes.Equal(want, st2.AppHash) {
			s.fail("C33", "handshake_app_hash", "n%d after restart at height %d: app hash %X, a never-crashed twin has %X", n.id, top, st2.AppHash, want)
			return
		}
		if meta := n.bs.LoadBlockMeta(top); meta == nil || !meta.BlockID.Equals(st2.LastBlockID) {
			s.fail("C33", "handshake_block_id", "n%d after restart: state.LastBlockID %v, block store meta %v", n.id, st2.LastBlockID, meta)
			return
		}
	}
	// reference vote tallies resume at the next height (the sets were rebuilt from the node's own WAL)
	nr := s.or.nref(n)
	nr.cur, nr.last = nil, nil
	nr.lastPS = nil
	nr.lockRound = map[int64]int{} // rebuilt from the events the WAL replay fired (they are in the log processed below)
	nr.commitSnap = map[int64]map[int]*refVoteSet{}
	s.or.afterRestart(n)
	if s.stop {
		return
	}
	s.afterEvent(n)
}

func loadStoreHeight(n *node) int64 {
	return store.LoadBlockStoreStateJSON(n.blockDisk.Open()).Height
}
