package consensus_sim

import "time"

// Stage 2 (crash / restart) — see crash handling below.

type crashPlan struct {
	node int
	at   time.Duration
}

func (s *sim) planCrashes(span time.Duration) {}

func (s *sim) onCrashed(n *node, log []obs) {}

func (s *sim) restartAllDown() {}
