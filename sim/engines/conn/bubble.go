// Engine conn: the real tm2/pkg/p2p/conn SecretConnection and MConnection over a
// simulator-owned in-memory pipe, inside a testing/synctest bubble (fake clock).
//
// bubble.go   - one bubble per run, panic transport, seeded crypto/rand
// simpipe.go  - the simulated pipe (chunking, stalls, tampering, back-pressure)
// refsecret.go- an independent implementation of the secret-connection wire
//               protocol used as the simulated peer / man in the middle
// secret.go   - C42
// mconn.go    - C43
package conn

import (
	crand "crypto/rand"
	"fmt"
	"io"
	"runtime/debug"
	"strings"
	"sync"
	"testing"
	"testing/synctest"
	"time"

	"verif/sim/kernel"
)

// T is TestSim's *testing.T: the engine functions receive none, and
// synctest.Test needs one.
var T *testing.T

// inBubble runs fn as the main goroutine of a fresh synctest bubble and
// returns the simulated seconds that elapsed. A panic inside fn is carried out
// of the bubble and re-raised in the caller (so kernel.Harnessf keeps working);
// goroutines still blocked when fn returns are a harness error.
func inBubble(fn func()) (simSeconds float64) {
	if T == nil {
		kernel.Harnessf("conn engine: T not set")
	}
	var pv any
	var stack string
	var leaked string
	func() {
		defer func() {
			if r := recover(); r != nil {
				if e, ok := r.(error); ok && strings.HasPrefix(e.Error(), "deadlock:") {
					leaked = e.Error()
					return
				}
				panic(r)
			}
		}()
		synctest.Test(T, func(t *testing.T) {
			start := time.Now()
			defer func() {
				simSeconds = time.Since(start).Seconds()
				if r := recover(); r != nil {
					pv = r
					stack = string(debug.Stack())
				}
			}()
			fn()
		})
	}()
	if pv != nil {
		switch pv.(type) {
		case kernel.HarnessError, kernel.ErrTapeOverrun:
			panic(pv)
		}
		panic(fmt.Sprintf("%v\n[in bubble] %s", pv, stack))
	}
	if leaked != "" {
		kernel.Harnessf("bubble ended with blocked goroutines (%s): every connection must be stopped and every pipe closed before the run returns", leaked)
	}
	return
}

// detRand is the seeded stand-in for crypto/rand.Reader (the only consumer in
// the code under test is genEphKeys). It is installed for the duration of one
// run; the harness makes sure the two handshaking sides draw their ephemeral
// keys at different quiescence points, so who gets which bytes is decided by
// the simulator.
type detRand struct {
	mu sync.Mutex
	s  uint64
	n  int
}

func (d *detRand) Read(p []byte) (int, error) {
	d.mu.Lock()
	defer d.mu.Unlock()
	for i := range p {
		if d.n%8 == 0 {
			d.s += 0x9e3779b97f4a7c15
		}
		z := d.s
		z = (z ^ (z >> 30)) * 0xbf58476d1ce4e5b9
		z = (z ^ (z >> 27)) * 0x94d049bb133111eb
		z ^= z >> 31
		p[i] = byte(z >> (8 * uint(d.n%8)))
		d.n++
	}
	return len(p), nil
}

func withSeededCryptoRand(seed uint64, fn func()) {
	prev := crand.Reader
	crand.Reader = io.Reader(&detRand{s: seed})
	defer func() { crand.Reader = prev }()
	fn()
}

// sleepSettle advances simulated time by d and then waits for every goroutine
// woken by timers due in that span to block again, so that the simulator never
// acts concurrently with timer-driven work of the code under test.
func sleepSettle(d time.Duration) {
	if d > 0 {
		time.Sleep(d)
	}
	synctest.Wait()
}

// rethrowHarness re-raises panics that belong to the harness (they must never
// be mistaken for a panic of the code under test).
func rethrowHarness(pv any) {
	switch pv.(type) {
	case kernel.HarnessError, kernel.ErrTapeOverrun:
		panic(pv)
	}
}
