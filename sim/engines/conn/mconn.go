package conn

import (
	"bytes"
	"encoding/binary"
	"fmt"
	"os"
	"strings"
	"sync"
	"testing/synctest"
	"time"

	"github.com/gnolang/gno/tm2/pkg/amino"
	"github.com/gnolang/gno/tm2/pkg/log"
	p2pconn "github.com/gnolang/gno/tm2/pkg/p2p/conn"

	"verif/sim/kernel"
)

// ---------------------------------------------------------------------------
// C43: MConnection under a hostile pipe.
//
// Two scenario families, drawn per run:
//
//	e2e  real A <-> real B. Messages are sent on drawn channels with sizes
//	     around the packet / receive-capacity boundaries; the simulator moves
//	     bytes (drawn chunking), sleeps (flush throttle, ping/pong, stats
//	     timers fire in simulated time), stalls longer than the pong timeout,
//	     sends one message larger than the receiver's capacity.
//	raw  real B <-> the simulator as a raw peer: it writes the packet stream
//	     itself (arbitrary legal packetisation and channel interleaving, pings,
//	     unsolicited pongs, at most one malformed item followed by decoy
//	     traffic), answers or withholds pongs, and decodes everything B writes
//	     with a reference decoder.
//
// Interleaving control: the connection's goroutines only ever block on the
// simpipe, on bubble timers and on their own channels; after every simulator
// action and after every sleep the simulator calls synctest.Wait(). Timer
// periods are chosen so that two timers of one connection never fire at the
// same instant within a run (ping interval odd ms, pong timeout +125us, flush
// throttle +250us, simulator instants +500us) - a select with two ready cases
// is the one thing the simulator cannot decide.
//
// Flavour "bp" (back-pressure: bounded pipe and/or a send-rate limit) lets the
// sender block for simulated time, timers pile up behind it and the order in
// which its select drains them is the Go runtime's choice. In that flavour only
// the simulator's own decisions enter the trace (no observations), and the
// oracles are the order-insensitive ones. See checks.json "rule".
// ---------------------------------------------------------------------------

type chanSpec struct {
	id      byte
	prio    int
	sendCap int
	recvCap int // 0 = package default (21MB)
	recvBuf int
}

type recvEv struct {
	ch   byte
	data []byte
}

type wireTap struct {
	buf   []byte
	asm   map[byte][]byte
	msgs  map[byte]int
	pings int
	pongs int
}

type mside struct {
	name string
	mc   *p2pconn.MConnection
	pipe *simPipe
	end  int

	mu       sync.Mutex
	recvLog  []recvEv
	errs     []string
	accepted map[byte][][]byte
	sendBusy map[byte]bool
	busy     int
	refused  int

	// simulator-goroutine state
	seenRecv  int
	seenErr   int
	got       map[byte]int
	poison    map[byte]int // index in accepted[ch] of a message the receiver must refuse
	dropped   map[byte]map[int]bool
	allowErr  string
	mustErr   string
	errored   bool
	closed    bool
	eofSent   bool
	stopped   bool
	seed      map[byte]uint64
	sentBytes map[byte]int
	lastInto  time.Duration
	errSent   int // raw mode: stream offset delivered when the error was seen
	recvLim   bool
	tap       wireTap
}

type msim struct {
	c    *kernel.Choices
	r    *kernel.Result
	p    kernel.Params
	stop bool

	cfg   p2pconn.MConnConfig
	pay   int
	chans []chanSpec
	bp    bool // back-pressure flavour: coarse trace
	draining bool
	afterDeath bool
	t0    time.Time

	sides     []*mside
	delivered int // messages verified end to end
	tapPayload int // message payload bytes (+1 per packet) seen by the reference decoders
	decisions int
	scenario  string

	cleanSince [2]time.Duration
	maxLag     time.Duration

	// raw mode
	raw *rawPeer
}

func (s *msim) now() time.Duration { return time.Since(s.t0) }

func (s *msim) fail(oracle, format string, args ...any) {
	if s.stop {
		return
	}
	s.stop = true
	v := &kernel.Violation{Property: "C43", Oracle: oracle, Signature: oracle, Msg: fmt.Sprintf(format, args...)}
	if k := s.p.IsKnown(v); k != nil {
		s.r.Known = append(s.r.Known, *v)
		return
	}
	s.r.Fail("C43", oracle, "%s", v.Msg)
}

// failTolerated is for the one violation pattern the model can step over: if
// it is listed in KNOWN_FINDINGS the run records it (once) and goes on with
// the affected message struck from the model; otherwise it is a violation.
func (s *msim) failTolerated(oracle, format string, args ...any) bool {
	if s.stop {
		return false
	}
	v := &kernel.Violation{Property: "C43", Oracle: oracle, Signature: oracle, Msg: fmt.Sprintf(format, args...)}
	if k := s.p.IsKnown(v); k != nil {
		for _, o := range s.r.Known {
			if o.Oracle == oracle {
				return true
			}
		}
		s.r.Known = append(s.r.Known, *v)
		return true
	}
	s.stop = true
	s.r.Fail("C43", oracle, "%s", v.Msg)
	return false
}

// nextAccepted returns the message of x's accepted list on ch that a consumer
// standing at index i meets next, given the bytes it actually saw. Accepted
// zero-length messages that the stream skipped are the "empty-message-dropped"
// pattern (Channel.isSendPending treats a popped empty message as "nothing
// pending" when another channel wins the round).
func (s *msim) nextAccepted(x *mside, ch byte, i int, actual []byte) (int, []byte, bool) {
	x.mu.Lock()
	acc := x.accepted[ch]
	x.mu.Unlock()
	for i < len(acc) {
		if x.dropped[ch][i] {
			i++
			continue
		}
		if len(acc[i]) == 0 && len(actual) > 0 {
			j := i
			for j < len(acc) && len(acc[j]) == 0 {
				j++
			}
			if j < len(acc) && bytes.Equal(acc[j], actual) {
				if !s.failTolerated("empty-message-dropped", "%s channel %02x: zero-length message #%d was accepted by Send/TrySend (returned true) but never put on the wire; the next message (#%d, %d bytes) followed directly", x.name, ch, i, j, len(actual)) {
					return i, nil, false
				}
				s.r.Probe("empty_message_dropped")
				for k := i; k < j; k++ {
					x.markDropped(ch, k)
				}
				i = j
				continue
			}
		}
		return i, acc[i], true
	}
	return i, nil, false
}

func (x *mside) markDropped(ch byte, k int) {
	if x.dropped[ch] == nil {
		x.dropped[ch] = map[int]bool{}
	}
	x.dropped[ch][k] = true
}

// missing reports how many accepted messages from index i on were never seen,
// after striking trailing zero-length ones under the known pattern.
func (s *msim) missing(x *mside, ch byte, i int, where string) int {
	x.mu.Lock()
	acc := x.accepted[ch]
	x.mu.Unlock()
	n, empties := 0, 0
	for k := i; k < len(acc); k++ {
		if x.dropped[ch][k] {
			continue
		}
		n++
		if len(acc[k]) == 0 {
			empties++
		}
	}
	if n > 0 && n == empties {
		if s.failTolerated("empty-message-dropped", "%s channel %02x: %d zero-length message(s) accepted by Send/TrySend (returned true) never showed up %s", x.name, ch, n, where) {
			s.r.Probe("empty_message_dropped")
			for k := i; k < len(acc); k++ {
				x.markDropped(ch, k)
			}
			return 0
		}
	}
	return n
}

func (s *msim) fault(kind string) {
	s.r.Fault(kind)
	s.decisions++
}

// dec records a simulator decision. While draining, how many rounds it takes
// is itself an observation, so drain-time moves are logged as observations.
func (s *msim) dec(format string, args ...any) {
	if s.draining {
		s.obs(format, args...)
		return
	}
	s.c.Event(format, args...)
}

// obs records an observation; only in the deterministic flavour.
//
// A connection that fails keeps racing with itself for the rest of that
// instant (its receive routine closes the pipe while its send routine may be
// flushing a pong plus whatever was buffered), so what it still got onto the
// wire - and therefore what its peer receives afterwards, and how long the
// drain takes - is not the simulator's decision: observations stop entering
// the trace once a failure has been observed (the failure itself does).
func (s *msim) obs(format string, args ...any) {
	if !s.bp && !s.afterDeath {
		s.c.Event(format, args...)
	}
}

func runMConn(c *kernel.Choices, p kernel.Params) *kernel.Result {
	r := kernel.NewResult()
	s := &msim{c: c, r: r, p: p}
	r.SimSeconds = inBubble(s.run)
	r.Nontrivial = s.delivered > 0 && s.decisions > 0 && r.Violation == nil
	r.Sample = map[string]any{"scenario": s.scenario, "first_events": c.Log[:min(len(c.Log), 25)], "events": c.Events(), "messages_verified": s.delivered}
	return r
}

func (s *msim) run() {
	s.drawConfig()
	if s.c.Weighted([]int{1, 1}) == 0 {
		s.scenario = "e2e"
		s.e2e()
	} else {
		s.scenario = "raw"
		s.rawRun()
	}
	if s.bp {
		s.scenario += "+bp"
	}
}

const unlimited = int64(1) << 40

var debugConn = os.Getenv("CONN_DEBUG") != ""

func (s *msim) drawConfig() {
	c := s.c
	s.pay = []int{1024, 1, 2, 7, 64, 257}[c.Intn(6)]
	n := c.Range(1, 4)
	ids := []byte{0x01, 0x20, 0x7f, 0xff, 0x00, 0x40}
	for i := 0; i < n; i++ {
		j := i + c.Intn(len(ids)-i)
		ids[i], ids[j] = ids[j], ids[i]
		s.chans = append(s.chans, chanSpec{
			id:      ids[i],
			prio:    []int{1, 5, 10}[c.Intn(3)],
			sendCap: []int{1, 2, 4, 16}[c.Intn(4)],
			recvCap: []int{0, 4096, 3*s.pay + 1, 300, 2 * s.pay}[c.Intn(5)],
			recvBuf: []int{0, 1, 64}[c.Intn(3)],
		})
	}
	s.bp = c.Chance(1, 4)
	pi := []int{60001, 5003, 1001, 301}[c.Intn(4)]
	ptNum := []int{3, 2, 1}[c.Intn(3)]
	s.cfg = p2pconn.MConnConfig{
		SendRate:                unlimited,
		RecvRate:                unlimited,
		MaxPacketMsgPayloadSize: s.pay,
		FlushThrottle:           time.Duration([]int{100, 10, 1000, 3}[c.Intn(4)])*time.Millisecond + 250*time.Microsecond,
		PingInterval:            time.Duration(pi) * time.Millisecond,
		PongTimeout:             time.Duration(pi*ptNum/4)*time.Millisecond + 125*time.Microsecond,
	}
	switch c.Weighted([]int{4, 1, 1}) {
	case 1:
		s.cfg.RecvRate = 512000
	case 2:
		s.cfg.RecvRate = 5000
	}
	if s.bp && c.Bool() {
		s.cfg.SendRate = []int64{512000, 20000}[c.Intn(2)]
	}
	c.Event("cfg pay=%d chans=%v bp=%v ping=%v pong=%v flush=%v sendrate=%d recvrate=%d", s.pay, s.chans, s.bp,
		s.cfg.PingInterval, s.cfg.PongTimeout, s.cfg.FlushThrottle, s.cfg.SendRate, s.cfg.RecvRate)
}

func (s *msim) spec(id byte) *chanSpec {
	for i := range s.chans {
		if s.chans[i].id == id {
			return &s.chans[i]
		}
	}
	return nil
}

func (s *msim) effCap(sp *chanSpec) int {
	if sp.recvCap == 0 {
		return 22020096
	}
	return sp.recvCap
}

func (s *msim) newSide(name string, pipe *simPipe, end int) *mside {
	x := &mside{name: name, pipe: pipe, end: end,
		accepted: map[byte][][]byte{}, sendBusy: map[byte]bool{}, got: map[byte]int{}, poison: map[byte]int{}, dropped: map[byte]map[int]bool{},
		seed: map[byte]uint64{}, sentBytes: map[byte]int{}, recvLim: s.cfg.RecvRate != unlimited}
	x.tap.asm, x.tap.msgs = map[byte][]byte{}, map[byte]int{}
	var descs []*p2pconn.ChannelDescriptor
	for _, sp := range s.chans {
		descs = append(descs, &p2pconn.ChannelDescriptor{ID: sp.id, Priority: sp.prio, SendQueueCapacity: sp.sendCap,
			RecvBufferCapacity: sp.recvBuf, RecvMessageCapacity: sp.recvCap})
		x.seed[sp.id] = s.c.Uint64()
	}
	onRecv := func(ch byte, b []byte) {
		cp := append([]byte{}, b...) // the slice is reused by the connection
		x.mu.Lock()
		x.recvLog = append(x.recvLog, recvEv{ch, cp})
		x.mu.Unlock()
	}
	onErr := func(err error) {
		x.mu.Lock()
		x.errs = append(x.errs, fmt.Sprint(err))
		x.mu.Unlock()
	}
	x.mc = p2pconn.NewMConnectionWithConfig(pipe.end(end), descs, onRecv, onErr, s.cfg)
	x.mc.SetLogger(log.NewNoopLogger())
	s.sides = append(s.sides, x)
	return x
}

func (x *mside) outDir() int { return x.end }
func (x *mside) inDir() int  { return 1 - x.end }

func (x *mside) alive() bool { return !x.errored && !x.closed && !x.stopped }

func errClass(e string) string {
	for _, k := range []string{"pong timeout", "exceeds available capacity", "unknown channel", "unknown message type", "recovered from panic",
		"read overflow", "EOF", "closed pipe", "broken pipe"} {
		if strings.Contains(e, k) {
			return k
		}
	}
	return "decode/other"
}

// ---- message generation ------------------------------------------------------

func (s *msim) drawSize(sp *chanSpec) int {
	p, c := s.pay, s.c
	cands := []int{1, p, p + 1, p - 1, 0, 2 * p, 2*p + 1, 2*p - 1, 3*p + c.Intn(p), 10 * p, c.Range(0, 3000), sp.recvCap, sp.recvCap - 1}
	n := cands[c.Intn(len(cands))]
	n = max(0, min(n, s.effCap(sp), 600*p, 20000))
	if s.cfg.RecvRate == 5000 {
		n = min(n, 1500)
	}
	return n
}

// nextMsg produces the next message body of side x on channel ch (position
// dependent content, so any two messages - and any two halves - differ).
func (x *mside) nextMsg(ch byte, n int) []byte {
	b := pstream(x.seed[ch], x.sentBytes[ch], n)
	x.sentBytes[ch] += n + 1
	return b
}

func (x *mside) noteAccepted(ch byte, msg []byte) {
	x.mu.Lock()
	x.accepted[ch] = append(x.accepted[ch], msg)
	x.mu.Unlock()
}

func (s *msim) sizeProbes(ch byte, msg []byte) {
	if len(msg) > s.pay {
		s.r.Probe("msgs_spanning_multiple_packets")
	}
	switch len(msg) {
	case 0:
		s.r.Probe("msg_size_0")
	case s.pay:
		s.r.Probe("msg_size_eq_max_payload")
	case s.pay + 1:
		s.r.Probe("msg_size_max_payload_plus_1")
	}
	if sp := s.spec(ch); sp != nil && sp.recvCap > 0 && len(msg) == sp.recvCap {
		s.r.Probe("msg_size_eq_recv_capacity")
	}
}

// send issues TrySend (inline) or Send (in a goroutine, because it may block
// for up to 10 simulated seconds when the queue is full).
func (s *msim) send(x *mside, ch byte, n int, try bool) {
	msg := x.nextMsg(ch, n)
	s.c.Event("send %s ch=%02x n=%d try=%v", x.name, ch, n, try)
	s.sizeProbes(ch, msg)
	if try {
		ok := x.mc.TrySend(ch, msg)
		if ok {
			x.noteAccepted(ch, msg)
		} else {
			x.refused++
			s.r.Probe("trysend_refused")
		}
		synctest.Wait()
		s.obs(" -> %v", ok)
		return
	}
	if x.sendBusy[ch] {
		return
	}
	x.mu.Lock()
	x.sendBusy[ch] = true
	x.busy++
	x.mu.Unlock()
	go func() {
		ok := x.mc.Send(ch, msg)
		if ok {
			x.noteAccepted(ch, msg)
		}
		x.mu.Lock()
		if !ok {
			x.refused++
		}
		x.sendBusy[ch] = false
		x.busy--
		x.mu.Unlock()
	}()
	synctest.Wait()
	x.mu.Lock()
	blocked := x.sendBusy[ch]
	x.mu.Unlock()
	if blocked {
		s.r.Probe("send_blocked_on_full_queue")
	}
	s.obs(" -> blocked=%v", blocked)
}

// ---- reference decoder of a real side's output --------------------------------

func (s *msim) tapFeed(x *mside, b []byte) (pings int) {
	t := &x.tap
	t.buf = append(t.buf, b...)
	for !s.stop {
		l, n := binary.Uvarint(t.buf)
		if n == 0 {
			return
		}
		if n < 0 || l > uint64(s.pay+64) {
			s.fail("wire-format", "%s wrote a packet length prefix the reference decoder rejects (uvarint n=%d value=%d)", x.name, n, l)
			return
		}
		if len(t.buf) < n+int(l) {
			return
		}
		var pkt p2pconn.Packet
		if err := amino.UnmarshalSized(t.buf[:n+int(l)], &pkt); err != nil {
			s.fail("wire-format", "%s wrote a packet the reference decoder cannot decode: %v", x.name, err)
			return
		}
		t.buf = t.buf[n+int(l):]
		switch k := pkt.(type) {
		case p2pconn.PacketPing:
			t.pings++
			pings++
		case p2pconn.PacketPong:
			t.pongs++
		case p2pconn.PacketMsg:
			if s.spec(k.ChannelID) == nil {
				s.fail("wire-format", "%s wrote a packet for unconfigured channel %02x", x.name, k.ChannelID)
				return
			}
			if len(k.Bytes) > s.pay || k.EOF > 1 {
				s.fail("wire-format", "%s wrote a packet with %d payload bytes (max %d), EOF=%d", x.name, len(k.Bytes), s.pay, k.EOF)
				return
			}
			t.asm[k.ChannelID] = append(t.asm[k.ChannelID], k.Bytes...)
			s.tapPayload += len(k.Bytes) + 1
			if k.EOF == 1 {
				i, exp, ok := s.nextAccepted(x, k.ChannelID, t.msgs[k.ChannelID], t.asm[k.ChannelID])
				if s.stop {
					return
				}
				if !ok || !bytes.Equal(exp, t.asm[k.ChannelID]) {
					s.fail("wire-reassembly", "%s: message #%d reassembled from its packet stream on channel %02x (%d bytes) is not the #%d message accepted by Send/TrySend (accepted there: %v, %d bytes)",
						x.name, i, k.ChannelID, len(t.asm[k.ChannelID]), i, ok, len(exp))
					return
				}
				t.msgs[k.ChannelID] = i + 1
				t.asm[k.ChannelID] = t.asm[k.ChannelID][:0]
			}
		default:
			s.fail("wire-format", "%s wrote a packet of type %T", x.name, pkt)
			return
		}
	}
	return
}


// ---- observation: run after every action ---------------------------------------

// verifyRecv checks the new deliveries of y against the per-channel list of
// messages its peer reports as accepted (lookup via want).
func (s *msim) verifyRecv(y *mside, want func(ch byte, i int, actual []byte) (int, []byte, bool), poison map[byte]int) {
	y.mu.Lock()
	log := y.recvLog[y.seenRecv:]
	y.mu.Unlock()
	for _, ev := range log {
		y.seenRecv++
		i, exp, ok := want(ev.ch, y.got[ev.ch], ev.data)
		if s.stop {
			return
		}
		if !ok {
			s.fail("delivery-unsent", "%s: onReceive(ch=%02x, %d bytes) is delivery #%d on that channel but the peer only sent %d complete messages there (duplicate or invented message)", y.name, ev.ch, len(ev.data), i, i)
			return
		}
		if !bytes.Equal(exp, ev.data) {
			s.fail("delivery-mismatch", "%s: delivery #%d on channel %02x has %d bytes, the #%d message sent there has %d bytes, contents equal=%v (altered, reordered, merged or split message)", y.name, i, ev.ch, len(ev.data), i, len(exp), false)
			return
		}
		if pi, ok := poison[ev.ch]; ok && i >= pi {
			s.fail("over-capacity-delivered", "%s: message #%d on channel %02x (%d bytes) exceeds the channel's receive capacity and was delivered", y.name, i, ev.ch, len(ev.data))
			return
		}
		y.got[ev.ch] = i + 1
		s.delivered++
		if len(ev.data) > s.pay {
			s.r.Probe("multi_packet_msgs_delivered")
		}
		s.obs("recv %s ch=%02x n=%d #%d", y.name, ev.ch, len(ev.data), i)
	}
}

func (s *msim) takeErrs(x *mside) {
	x.mu.Lock()
	errs := x.errs[x.seenErr:]
	x.mu.Unlock()
	for _, e := range errs {
		x.seenErr++
		cl := errClass(e)
		s.obs("error %s", x.name)
		s.afterDeath = true
		if x.errored {
			s.fail("error-twice", "%s: onError called more than once (second: %s)", x.name, e)
			return
		}
		x.errored = true
		if s.raw != nil {
			x.errSent = s.raw.sent
		}
		if cl == "recovered from panic" {
			s.fail("panic", "%s: the connection panicked (recovered by MConnection): %s", x.name, firstLine(e))
			return
		}
		if x.allowErr == "" {
			s.fail("unexpected-error", "%s: onError(%s) although nothing the simulator did justifies a failure (max pipe lag %v, pong timeout %v)", x.name, firstLine(e), s.maxLag, s.cfg.PongTimeout)
			return
		}
		s.r.Probe("conn_failed_as_expected")
		s.r.Probe("error_" + strings.ReplaceAll(cl, " ", "_"))
	}
}

func firstLine(s string) string {
	if i := strings.IndexByte(s, '\n'); i >= 0 {
		s = s[:i]
	}
	if len(s) > 200 {
		s = s[:200]
	}
	return s
}

// lag accounting: an upper bound on how long any byte waited on the wire. If
// twice that reaches the pong timeout, a pong timeout is legitimate.
func (s *msim) noteLag(d int, pending int) {
	now := s.now()
	if pending == 0 {
		s.cleanSince[d] = now
		return
	}
	if lag := now - s.cleanSince[d]; lag > s.maxLag {
		s.maxLag = lag
	}
	if 2*s.maxLag+2*time.Millisecond >= s.cfg.PongTimeout {
		for _, x := range s.sides {
			if x.allowErr == "" {
				x.allowErr = "lag"
			}
		}
	}
}

// pongDeadline: if no byte at all reached x during the whole window in which
// the pong for one of its pings was due, x must have failed by now.
func (s *msim) pongDeadline(x *mside) {
	if s.bp || x.recvLim || x.errored || x.stopped || x.closed {
		return
	}
	pi, pt := s.cfg.PingInterval, s.cfg.PongTimeout
	tick := (x.lastInto/pi + 1) * pi
	if s.now() >= tick+pt+time.Millisecond {
		s.fail("pong-timeout-missed", "%s: ping sent at +%v, nothing was delivered to it since +%v, now +%v, pong timeout %v: the connection must have failed", x.name, tick, x.lastInto, s.now(), pt)
	}
}

// ---- e2e -------------------------------------------------------------------------

func (s *msim) e2e() {
	c := s.c
	pipe := newSimPipe()
	A := s.newSide("A", pipe, 0)
	B := s.newSide("B", pipe, 1)
	if s.bp {
		pipe.SetCapacity(0, []int{600, 3000, 70000}[c.Intn(3)])
		pipe.SetCapacity(1, []int{600, 3000, 70000}[c.Intn(3)])
		for _, x := range s.sides {
			x.allowErr = "backpressure"
		}
	}
	if s.cfg.RecvRate != unlimited {
		for _, x := range s.sides {
			x.allowErr = "ratelimit"
		}
	}
	s.t0 = time.Now()
	for _, x := range s.sides {
		if err := x.mc.Start(); err != nil {
			kernel.Harnessf("Start: %v", err)
		}
	}
	defer s.shutdown()
	synctest.Wait()
	sleepSettle(500 * time.Microsecond)

	stallBudget, overBudget := c.Intn(2), c.Intn(2)
	nops := c.Range(5, 80)
	for i := 0; i < nops && !s.stop; i++ {
		s.r.Steps++
		switch c.Weighted([]int{6, 6, 3, 2, 2, 1, 1}) {
		case 0:
			x := s.sides[c.Intn(2)]
			sp := &s.chans[c.Intn(len(s.chans))]
			s.send(x, sp.id, s.drawSize(sp), c.Intn(3) != 0)
		case 1:
			x := s.sides[c.Intn(2)]
			s.move(x, s.drawChunk(pipe.Pending(x.outDir())))
		case 2:
			d := time.Duration(c.Range(1, 20)) * time.Millisecond
			c.Event("nap %v", d)
			sleepSettle(d)
		case 3:
			d := time.Duration(c.Range(50, 1500)) * time.Millisecond
			c.Event("sleep %v", d)
			sleepSettle(d)
			s.decisions++
		case 4:
			c.Event("sync")
			for range 2 {
				s.move(A, 1<<30)
				s.move(B, 1<<30)
			}
		case 5:
			if stallBudget == 0 || s.bp {
				continue
			}
			stallBudget--
			d := s.cfg.PingInterval + s.cfg.PongTimeout + time.Duration(c.Range(2, 50))*time.Millisecond
			c.Event("stall %v", d)
			s.fault("stall_longer_than_pong_timeout")
			sleepSettle(d)
		case 6:
			if overBudget == 0 {
				continue
			}
			x := s.sides[c.Intn(2)]
			sp := &s.chans[c.Intn(len(s.chans))]
			n := sp.recvCap + []int{1, s.pay, 2*s.pay + 1}[c.Intn(3)]
			c.Event("oversize %s ch=%02x n=%d", x.name, sp.id, n)
			overBudget--
			if sp.recvCap == 0 || !x.alive() || x.sendBusy[sp.id] {
				continue
			}
			y := s.sides[1-x.end]
			before := len(x.accepted[sp.id])
			s.send(x, sp.id, n, true)
			if len(x.accepted[sp.id]) > before {
				x.poison[sp.id] = before
				y.mustErr = "message exceeding receive capacity"
				if y.allowErr == "" {
					y.allowErr = "over-capacity message"
				}
				s.fault("msg_exceeds_recv_capacity")
			}
		}
		s.observeE2E()
	}
	s.drainE2E()
	if s.stop {
		return
	}
	s.finalE2E()
}

func (s *msim) drawChunk(avail int) int {
	c := s.c
	switch c.Weighted([]int{4, 2, 2, 2, 2}) {
	case 1:
		s.decisions++
		return 1
	case 2:
		s.decisions++
		return c.Range(1, 16)
	case 3:
		s.decisions++
		return c.Range(1, 200)
	case 4:
		s.decisions++
		return c.Range(1, 1500)
	}
	return 1 << 30
}

// move carries up to n bytes written by x to its peer.
func (s *msim) move(x *mside, n int) {
	y := s.sides[1-x.end]
	s.pongDeadline(y)
	if s.stop {
		return
	}
	b := x.pipe.Take(x.outDir(), n)
	s.dec("move %s n=%d", x.name, n)
	if len(b) == 0 {
		return
	}
	// observations are taken at packet level, not byte level: how many pongs
	// answer a burst of pings is decided inside the connection (the pong
	// channel has capacity 1), message packets and pings are not
	before := s.tapPayload
	pings := s.tapFeed(x, b)
	if s.stop {
		return
	}
	s.obs(" moved payload=%d pings=%d", s.tapPayload-before, pings)
	if y.closed || y.stopped {
		return // nobody reads any more
	}
	x.pipe.Inject(x.outDir(), b)
	y.lastInto = s.now()
	synctest.Wait()
}

// inFlight counts bytes that can still make a difference.
func (s *msim) inFlight() int {
	n := 0
	for _, x := range s.sides {
		y := s.sides[1-x.end]
		n += x.pipe.Pending(x.outDir())
		if !y.closed && !y.stopped {
			n += x.pipe.Unread(x.outDir())
		}
	}
	return n
}

func (s *msim) observeE2E() {
	if s.stop {
		return
	}
	A, B := s.sides[0], s.sides[1]
	pipe := A.pipe
	if A.alive() && B.alive() {
		s.noteLag(0, pipe.Pending(0))
		s.noteLag(1, pipe.Pending(1))
	}
	for _, x := range s.sides {
		y := s.sides[1-x.end]
		if !x.closed && pipe.EndClosed(x.end) {
			x.closed = true
			if y.allowErr == "" {
				y.allowErr = "peer closed"
			}
			pipe.BreakWrites(y.outDir())
			synctest.Wait()
		}
		if x.closed && !x.eofSent && pipe.Pending(x.outDir()) == 0 {
			x.eofSent = true
			pipe.SetEOF(x.outDir())
			synctest.Wait()
		}
	}
	for _, y := range s.sides {
		x := s.sides[1-y.end]
		s.verifyRecv(y, func(ch byte, i int, actual []byte) (int, []byte, bool) {
			return s.nextAccepted(x, ch, i, actual)
		}, x.poison)
	}
	for _, x := range s.sides {
		s.takeErrs(x)
	}
	for _, x := range s.sides {
		s.pongDeadline(x)
	}
}

func (s *msim) busySends() int {
	n := 0
	for _, x := range s.sides {
		x.mu.Lock()
		n += x.busy
		x.mu.Unlock()
	}
	return n
}

// settle tracks whether anything that matters is still moving. Ping/pong
// traffic never stops, so "no bytes in flight" is the wrong test: a round is
// quiet when no message was delivered, no message payload crossed the wire,
// no receiver has unread bytes and no Send is still blocked; the run has
// settled after three quiet rounds with every send queue empty (or after 60
// quiet rounds: Channel.sendQueueSize can leak, see the known finding).
type settleState struct {
	delivered, payload, partial, same, idle int
}

func (s *msim) queued() int {
	n := 0
	for _, x := range s.sides {
		if !x.alive() {
			continue
		}
		for _, ch := range x.mc.Status().Channels {
			n += ch.SendQueueSize
		}
	}
	return n
}

func (s *msim) unread() int {
	n := 0
	for _, x := range s.sides {
		if !x.closed && !x.stopped {
			n += x.pipe.Unread(x.inDir())
		}
	}
	return n
}

func (st *settleState) done(s *msim) bool {
	partial := 0 // bytes of a packet cut in two by the pipe
	for _, x := range s.sides {
		partial += len(x.tap.buf)
	}
	if st.delivered == s.delivered && st.payload == s.tapPayload && st.partial == partial {
		st.same++
	} else {
		st.same = 0
	}
	st.delivered, st.payload, st.partial = s.delivered, s.tapPayload, partial
	if debugConn {
		fmt.Fprintf(os.Stderr, "settle t=%v sig=%d/%d/%d same=%d busy=%d unread=%d queued=%d\n", s.now(), st.delivered, st.payload, st.partial, st.same, s.busySends(), s.unread(), s.queued())
	}

	if s.busySends() > 0 || s.unread() > 0 {
		st.same, st.idle = 0, 0
		return false
	}
	if st.same > 0 && s.queued() == 0 {
		st.idle++ // nothing moved and every send queue was already empty
	} else {
		st.idle = 0
	}
	return st.idle >= 3 || st.same >= 60
}

func (s *msim) drainE2E() {
	A, B := s.sides[0], s.sides[1]
	step := s.cfg.FlushThrottle + time.Millisecond - 250*time.Microsecond
	if s.cfg.RecvRate != unlimited || s.bp {
		step = max(step, 200*time.Millisecond)
	}
	var st settleState
	s.draining = true
	for i := 0; i < 2000 && !s.stop; i++ {
		s.move(A, 1<<30)
		s.move(B, 1<<30)
		if s.busySends() > 0 {
			sleepSettle(time.Second)
		} else {
			sleepSettle(step)
		}
		s.observeE2E()
		if st.done(s) {
			return
		}
	}
	if !s.stop {
		s.r.Inconcl = "drain did not settle"
		s.stop = true
	}
}

func (s *msim) finalE2E() {
	A, B := s.sides[0], s.sides[1]
	for _, y := range s.sides {
		x := s.sides[1-y.end]
		if y.mustErr != "" && !y.errored && x.alive() {
			s.fail("malformed-not-rejected", "%s received a %s, all bytes were delivered, and it did not fail", y.name, y.mustErr)
			return
		}
		if !x.alive() || !y.alive() || len(x.poison) > 0 {
			continue
		}
		for _, sp := range s.chans {
			x.mu.Lock()
			acc := x.accepted[sp.id]
			x.mu.Unlock()
			if s.missing(x, sp.id, y.got[sp.id], "at the receiver") != 0 {
				s.fail("message-lost", "%s -> %s channel %02x: %d messages accepted by Send/TrySend, %d delivered after everything was flushed and moved; first missing is #%d (%d bytes); both connections are still running",
					x.name, y.name, sp.id, len(acc), y.got[sp.id], y.got[sp.id], len(acc[y.got[sp.id]]))
				return
			}
		}
	}
	s.obs("final ok")
	// FlushStop: everything accepted before it must still arrive.
	if A.alive() && B.alive() && !s.bp && !B.recvLim && len(A.poison) == 0 && s.c.Bool() {
		n := s.c.Range(1, 6)
		for i := 0; i < n; i++ {
			sp := &s.chans[s.c.Intn(len(s.chans))]
			s.send(A, sp.id, s.drawSize(sp), true)
		}
		s.c.Event("flushstop A")
		done := false
		go func() { A.mc.FlushStop(); done = true }()
		synctest.Wait()
		if !done {
			kernel.Harnessf("FlushStop blocked on an unbounded pipe")
		}
		A.stopped = true
		if B.allowErr == "" {
			B.allowErr = "peer closed"
		}
		s.r.Probe("flushstop")
		for i := 0; i < 50 && !s.stop; i++ {
			s.move(A, 1<<30)
			sleepSettle(200 * time.Millisecond)
			s.observeE2E()
			if A.pipe.Unread(0) == 0 && A.pipe.Pending(0) == 0 {
				break
			}
		}
		sleepSettle(time.Second)
		s.observeE2E()
		if s.stop {
			return
		}
		for _, sp := range s.chans {
			if s.missing(A, sp.id, B.got[sp.id], "at the receiver after FlushStop") != 0 {
				s.fail("flushstop-lost", "A.FlushStop(): channel %02x had %d messages accepted before it, B received %d", sp.id, len(A.accepted[sp.id]), B.got[sp.id])
				return
			}
		}
	}
}

func (s *msim) shutdown() {
	for _, x := range s.sides {
		x.stopped = true
		x.mc.Stop()
	}
	seen := map[*simPipe]bool{}
	for _, x := range s.sides {
		if !seen[x.pipe] {
			x.pipe.Shutdown()
			seen[x.pipe] = true
		}
	}
	if s.busySends() > 0 {
		sleepSettle(11 * time.Second)
	}
	sleepSettle(300 * time.Millisecond)
	// nothing may be delivered by a stopped connection that was not sent
	if !s.stop && s.raw == nil {
		s.observeAfterStop()
	}
}

func (s *msim) observeAfterStop() {
	for _, y := range s.sides {
		x := s.sides[1-y.end]
		s.verifyRecv(y, func(ch byte, i int, actual []byte) (int, []byte, bool) {
			return s.nextAccepted(x, ch, i, actual)
		}, x.poison)
	}
}

// ---- raw peer ---------------------------------------------------------------------

type rawItem struct {
	b       []byte
	deliver *recvEv // this item completes a message
	kind    string
	bad     bool // malformed: the connection must fail once it has read this
	weak    bool // random garbage: may or may not decode
}

type rawPeer struct {
	items     []rawItem
	next      int    // next item to emit
	wire      []byte // emitted, not delivered
	emitted   int    // stream offset of the end of wire
	sent      int    // stream offset delivered
	ends      []int  // stream end offset of every emitted item (incl. pongs)
	itemOf    []int  // index into items (or -1 for a pong reply)
	badStart  int    // stream offset where the malformed item starts (-1: not emitted yet)
	badIdx    int    // index of the malformed item (-1 none)
	truncated bool
	withhold  bool
	expect    []recvEv // deliveries expected, in order, before the malformed item
	unknown   bool     // weak garbage delivered: expectations end
}

func pktMsg(ch byte, eof byte, b []byte) []byte {
	return amino.MustMarshalAnySized(p2pconn.PacketMsg{ChannelID: ch, EOF: eof, Bytes: b})
}

func sizedAny(url string, value []byte) []byte {
	var body []byte
	body = append(body, 0x0a)
	body = binary.AppendUvarint(body, uint64(len(url)))
	body = append(body, url...)
	if len(value) > 0 {
		body = append(body, 0x12)
		body = binary.AppendUvarint(body, uint64(len(value)))
		body = append(body, value...)
	}
	return append(binary.AppendUvarint(nil, uint64(len(body))), body...)
}

var malformedKinds = []string{"unknown_channel", "oversized_packet", "exceeds_recv_capacity", "unknown_type_url", "bad_field_encoding",
	"truncated_field", "zero_length_packet", "length_prefix_overflow", "length_prefix_too_large", "stream_truncated", "random_garbage"}

func (s *msim) genScript() *rawPeer {
	c := s.c
	rp := &rawPeer{badIdx: -1, badStart: -1}
	// honest traffic: messages cut into packets, queued per channel
	queues := map[byte][]rawItem{}
	seeds := map[byte]uint64{}
	offs := map[byte]int{}
	order := []byte{}
	for _, sp := range s.chans {
		seeds[sp.id] = c.Uint64()
		order = append(order, sp.id)
	}
	mkMsg := func(sp *chanSpec, n int, style int) []rawItem {
		body := pstream(seeds[sp.id], offs[sp.id], n)
		offs[sp.id] += n + 1
		var out []rawItem
		rest := body
		for {
			k := min(len(rest), s.pay)
			switch style {
			case 1: // arbitrary legal cuts, including empty non-final packets
				k -= c.Intn(k + 1)
			case 2:
				k = min(k, 1+c.Intn(3))
			}
			eof := byte(0)
			if k == len(rest) && (style == 0 || len(rest) == 0 || c.Bool()) {
				eof = 1
			}
			it := rawItem{b: pktMsg(sp.id, eof, rest[:k]), kind: "msg"}
			rest = rest[k:]
			if eof == 1 {
				it.deliver = &recvEv{sp.id, body}
				out = append(out, it)
				return out
			}
			out = append(out, it)
			if len(out) > 4000 {
				kernel.Harnessf("genScript: runaway packetisation")
			}
		}
	}
	nmsgs := c.Range(1, 14)
	for i := 0; i < nmsgs; i++ {
		sp := &s.chans[c.Intn(len(s.chans))]
		n := s.drawSize(sp)
		style := c.Weighted([]int{3, 2, 1})
		if style != 0 {
			n = min(n, 40*s.pay+40)
			if style == 2 {
				n = min(n, 300)
			}
			s.decisions++
		}
		queues[sp.id] = append(queues[sp.id], mkMsg(sp, n, style)...)
	}
	// interleave channels, sprinkle pings and unsolicited pongs
	var items []rawItem
	for {
		var live []byte
		for _, id := range order {
			if len(queues[id]) > 0 {
				live = append(live, id)
			}
		}
		if len(live) == 0 {
			break
		}
		id := live[c.Intn(len(live))]
		items = append(items, queues[id][0])
		queues[id] = queues[id][1:]
		if c.Chance(1, 12) {
			items = append(items, rawItem{b: amino.MustMarshalAnySized(p2pconn.PacketPing{}), kind: "ping"})
		} else if c.Chance(1, 30) {
			items = append(items, rawItem{b: amino.MustMarshalAnySized(p2pconn.PacketPong{}), kind: "pong"})
		}
	}
	// at most one malformed item; what follows it is decoy traffic
	if c.Chance(3, 5) {
		kind := c.Intn(len(malformedKinds))
		pos := c.Intn(len(items) + 1)
		bad := rawItem{kind: malformedKinds[kind], bad: true}
		maxPkt := len(pktMsg(1, 1, make([]byte, s.pay))) + 10
		switch kind {
		case 0:
			id := byte(0x33)
			for s.spec(id) != nil {
				id++
			}
			bad.b = pktMsg(id, byte(c.Intn(2)), pstream(7, 0, min(s.pay, 5)))
		case 1:
			bad.b = pktMsg(s.chans[0].id, 1, pstream(9, 0, s.pay+64+c.Intn(200)))
		case 2:
			var sp *chanSpec
			for i := range s.chans {
				if s.chans[i].recvCap > 0 {
					sp = &s.chans[i]
				}
			}
			if sp == nil {
				kind = 3
				bad.kind = malformedKinds[3]
				bad.b = sizedAny("/p2p.Bogus", []byte{1, 2, 3})
				break
			}
			// a run of full packets whose sum passes the capacity, EOF only at the end
			total := sp.recvCap + 1 + c.Intn(s.pay+1)
			body := pstream(11, 0, total)
			for len(body) > 0 {
				k := min(len(body), s.pay)
				eof := byte(0)
				if k == len(body) {
					eof = 1
				}
				bad.b = append(bad.b, pktMsg(sp.id, eof, body[:k])...)
				body = body[k:]
			}
		case 3:
			bad.b = sizedAny("/p2p.Bogus", []byte{1, 2, 3})
		case 4:
			bad.b = sizedAny(amino.GetTypeURL(p2pconn.PacketMsg{}), []byte{0xff, 0xff, 0xff, 0xff, 0xff, 0xff, 0xff, 0xff, 0xff, 0xff, 0xff, 0x01})
		case 5:
			bad.b = sizedAny(amino.GetTypeURL(p2pconn.PacketMsg{}), []byte{0x08, s.chans[0].id &^ 0x80, 0x1a, 0x7f, 0x01})
		case 6:
			bad.b = []byte{0x00}
		case 7:
			bad.b = bytes.Repeat([]byte{0xff}, 10)
		case 8:
			bad.b = binary.AppendUvarint(nil, uint64(maxPkt+1+c.Intn(1000)))
		case 9:
			if len(items) == 0 {
				bad.b = []byte{0x05}
			} else {
				pos = c.Intn(len(items))
				full := items[pos].b
				bad.b = full[:c.Range(1, len(full)-1)]
			}
			rp.truncated = true
		case 10:
			g := pstream(c.Uint64(), 0, c.Range(1, 40))
			bad.b = append(binary.AppendUvarint(nil, uint64(len(g))), g...)
			bad.weak = true
		}
		if rp.truncated {
			items = append(items[:pos:pos], bad)
		} else {
			items = append(items[:pos:pos], append([]rawItem{bad}, items[pos:]...)...)
		}
		rp.badIdx = pos
	}
	rp.items = items
	for i, it := range items {
		if rp.badIdx >= 0 && i >= rp.badIdx {
			break
		}
		if it.deliver != nil {
			rp.expect = append(rp.expect, *it.deliver)
		}
	}
	rp.withhold = c.Chance(1, 5)
	return rp
}

func (rp *rawPeer) emit(it rawItem, idx int) {
	if it.bad && rp.badStart < 0 {
		rp.badStart = rp.emitted
	}
	rp.wire = append(rp.wire, it.b...)
	rp.emitted += len(it.b)
	rp.ends = append(rp.ends, rp.emitted)
	rp.itemOf = append(rp.itemOf, idx)
}

func (s *msim) rawRun() {
	c := s.c
	pipe := newSimPipe()
	B := s.newSide("B", pipe, 0)
	rp := s.genScript()
	s.raw = rp
	c.Event("raw items=%d bad=%d withhold=%v", len(rp.items), rp.badIdx, rp.withhold)
	if s.bp {
		pipe.SetCapacity(0, []int{300, 2000, 70000}[c.Intn(3)])
		B.allowErr = "backpressure"
	}
	if s.cfg.RecvRate != unlimited {
		B.allowErr = "ratelimit"
	}
	if rp.withhold {
		s.fault("pongs_withheld")
		B.allowErr = "pongs withheld"
	}
	s.t0 = time.Now()
	if err := B.mc.Start(); err != nil {
		kernel.Harnessf("Start: %v", err)
	}
	defer s.shutdown()
	synctest.Wait()
	sleepSettle(500 * time.Microsecond)

	nops := c.Range(5, 90)
	for i := 0; i < nops && !s.stop; i++ {
		s.r.Steps++
		switch c.Weighted([]int{8, 3, 2, 3, 2}) {
		case 0:
			s.rawDeliver(B, s.drawChunk(0))
		case 1:
			d := time.Duration(c.Range(1, 20)) * time.Millisecond
			c.Event("nap %v", d)
			sleepSettle(d)
		case 2:
			d := time.Duration(c.Range(50, 1500)) * time.Millisecond
			if rp.withhold && c.Bool() {
				d = s.cfg.PingInterval / 2
			}
			c.Event("sleep %v", d)
			sleepSettle(d)
			s.decisions++
		case 3:
			sp := &s.chans[c.Intn(len(s.chans))]
			s.send(B, sp.id, s.drawSize(sp), c.Intn(3) != 0)
		case 4:
			if s.bp {
				s.rawCollect(B, s.drawChunk(0))
			}
		}
		s.observeRaw(B)
	}
	// the rest of the script arrives, then time passes
	s.draining = true
	for i := 0; i < 400 && !s.stop; i++ {
		if rp.next >= len(rp.items) && len(rp.wire) == 0 {
			break
		}
		s.rawDeliver(B, 1<<30)
		s.observeRaw(B)
	}
	if rp.truncated && !s.stop {
		c.Event("raw eof")
		pipe.SetEOF(B.inDir())
		synctest.Wait()
	}
	settle := 400 * time.Millisecond
	if rp.withhold && !s.bp {
		settle = s.cfg.PingInterval + s.cfg.PongTimeout + 10*time.Millisecond
	}
	sleepSettle(settle)
	s.observeRaw(B)
	// drain: B's output is read until nothing more comes (with back-pressure
	// every read lets the blocked sender go on a little)
	var st settleState
	settled := false
	s.draining = true
	for i := 0; i < 2000 && !s.stop && !settled; i++ {
		if !rp.truncated {
			s.rawDeliver(B, 1<<30) // pong replies queued behind the script
		}
		s.rawCollect(B, 1<<30)
		if s.busySends() > 0 || B.recvLim || s.bp {
			sleepSettle(max(200*time.Millisecond, s.cfg.FlushThrottle+time.Millisecond))
		} else {
			sleepSettle(s.cfg.FlushThrottle + time.Millisecond)
		}
		s.observeRaw(B)
		settled = st.done(s)
	}
	if s.stop {
		return
	}
	if !settled {
		s.r.Inconcl = "drain did not settle"
		return
	}
	// ---- final oracles
	// exact: B read the whole honest part of the stream
	exact := !rp.unknown && (!B.errored || (B.errSent > rp.badStart && rp.badStart >= 0 && strings.HasPrefix(B.allowErr, "malformed") && !B.recvLim && !s.bp))
	if rp.badIdx >= 0 && !rp.items[rp.badIdx].weak && !B.errored {
		s.fail("malformed-not-rejected", "raw peer sent a malformed item (%s), every byte was delivered and read, the connection did not fail", rp.items[rp.badIdx].kind)
		return
	}
	if rp.withhold && !s.bp && !B.recvLim && !B.errored {
		s.fail("pong-timeout-missed", "B pinged, the raw peer never sent a pong (pong timeout %v), the connection did not fail", s.cfg.PongTimeout)
		return
	}
	if exact && len(B.recvLog) != len(rp.expect) {
		i := len(B.recvLog)
		s.fail("message-lost", "raw peer completed %d messages before its malformed item / end of stream, B delivered %d; first missing: channel %02x, %d bytes", len(rp.expect), i, rp.expect[i].ch, len(rp.expect[i].data))
		return
	}
	// what B sent: every accepted message must have been on the wire, in order
	if B.alive() {
		for _, sp := range s.chans {
			if s.missing(B, sp.id, B.tap.msgs[sp.id], "on the wire") != 0 && !s.stop {
				s.fail("message-lost", "B: channel %02x: %d messages accepted by Send/TrySend, the reference decoder found %d on the wire after the flush throttle elapsed", sp.id, len(B.accepted[sp.id]), B.tap.msgs[sp.id])
				return
			}
		}
	}
	s.obs("final ok")
}

// rawDeliver hands the next n bytes of the raw peer's stream to B.
func (s *msim) rawDeliver(B *mside, n int) {
	rp := s.raw
	for len(rp.wire) < min(n, 4096) && rp.next < len(rp.items) {
		if !(rp.withhold && rp.items[rp.next].kind == "pong") {
			rp.emit(rp.items[rp.next], rp.next)
		}
		rp.next++
	}
	s.dec("deliver want=%d", n)
	n = min(n, len(rp.wire))
	if n == 0 {
		return
	}
	s.obs(" delivered %d", n)
	B.pipe.Inject(B.inDir(), rp.wire[:n])
	rp.wire = rp.wire[n:]
	rp.sent += n
	if !rp.withhold {
		B.lastInto = s.now()
	}
	if rp.badStart >= 0 && rp.sent > rp.badStart {
		bad := rp.items[rp.badIdx]
		if B.allowErr == "" || B.allowErr == "lag" {
			B.allowErr = "malformed " + bad.kind
		}
		if bad.weak {
			rp.unknown = true
		}
		if rp.sent >= rp.badStart+len(bad.b) && B.mustErr == "" {
			B.mustErr = bad.kind
			s.fault("malformed_" + bad.kind)
		}
	}
	synctest.Wait()
}

// rawCollect reads up to n bytes of what B wrote, decodes them and answers pings.
func (s *msim) rawCollect(B *mside, n int) {
	b := B.pipe.Take(B.outDir(), n)
	if len(b) == 0 {
		return
	}
	synctest.Wait()
	pings := s.tapFeed(B, b)
	if s.stop {
		return
	}
	rp := s.raw
	for i := 0; i < pings; i++ {
		s.r.Probe("pings_from_real_side")
		s.obs("ping from B")
		switch {
		case rp.withhold:
		case rp.truncated && rp.badStart >= 0:
			// the cut-off item is already on the wire: nothing well-formed can
			// follow it, so this ping stays unanswered and a pong timeout is fair
			if B.allowErr == "" {
				B.allowErr = "pong impossible after truncated item"
			}
		default:
			rp.emit(rawItem{b: amino.MustMarshalAnySized(p2pconn.PacketPong{}), kind: "pong"}, -1)
		}
	}
}

func (s *msim) observeRaw(B *mside) {
	if s.stop {
		return
	}
	rp := s.raw
	if B.alive() {
		s.noteLag(0, B.pipe.Pending(0)) // a ping that waited for the raw peer to look
		s.noteLag(1, len(rp.wire))
	}
	if !s.bp {
		s.rawCollect(B, 1<<30)
	}
	if !B.closed && B.pipe.EndClosed(B.end) {
		B.closed = true
	}
	s.verifyRecv(B, func(ch byte, i int, actual []byte) (int, []byte, bool) {
		// the raw stream is one sequence: the k-th delivery overall is known
		k := B.seenRecv - 1
		if rp.unknown {
			return i, actual, true
		}
		if k < len(rp.expect) && rp.expect[k].ch == ch {
			return i, rp.expect[k].data, true
		}
		return i, nil, false
	}, nil)
	s.takeErrs(B)
	if rp.withhold && !s.bp && !B.recvLim && B.alive() {
		pi, pt := s.cfg.PingInterval, s.cfg.PongTimeout
		if s.now() >= pi+pt+time.Millisecond {
			s.fail("pong-timeout-missed", "B pinged at +%v, the raw peer never answers, now +%v, pong timeout %v: the connection must have failed", pi, s.now(), pt)
		}
	}
}
