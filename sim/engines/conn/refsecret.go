package conn

import (
	"bytes"
	"crypto/cipher"
	"crypto/sha256"
	"encoding/binary"
	"errors"
	"io"

	"golang.org/x/crypto/chacha20poly1305"
	"golang.org/x/crypto/curve25519"
	"golang.org/x/crypto/hkdf"

	"github.com/gnolang/gno/tm2/pkg/amino"
	"github.com/gnolang/gno/tm2/pkg/crypto/ed25519"
)

// refPeer is an independent implementation of one side of the
// secret-connection wire protocol (written from the protocol description in
// secret_connection.go: X25519 ephemeral exchange, HKDF-SHA256 key/challenge
// derivation, ChaCha20-Poly1305 frames of 4+1024 bytes with a 96-bit
// little-endian counter nonce, amino-framed auth message). It is what the
// simulator uses to play an authenticated-but-hostile peer and a man in the
// middle, and to decode the wire bytes of the real implementation.
const (
	refDataMax   = 1024
	refFrameSize = 4 + refDataMax
	refSealed    = refFrameSize + 16
)

type refPeer struct {
	id      ed25519.PrivKeyEd25519
	ephPriv [32]byte
	ephPub  [32]byte

	remEph    [32]byte
	challenge [32]byte
	sendAead  cipher.AEAD
	recvAead  cipher.AEAD
	sendN     uint64
	recvN     uint64
}

// refAuthSig mirrors the unexported authSigMessage (amino encodes by field
// position, the Go type name is irrelevant).
type refAuthSig struct {
	Key ed25519.PubKeyEd25519
	Sig []byte
}

func newRefPeer(id ed25519.PrivKeyEd25519, ephSeed []byte) *refPeer {
	p := &refPeer{id: id}
	copy(p.ephPriv[:], ephSeed)
	pub, err := curve25519.X25519(p.ephPriv[:], curve25519.Basepoint)
	if err != nil {
		panic(err)
	}
	copy(p.ephPub[:], pub)
	return p
}

func (p *refPeer) pub() ed25519.PubKeyEd25519 { return p.id.PubKey().(ed25519.PubKeyEd25519) }

// ephWire is the first handshake message: the amino length-prefixed 32 bytes.
func ephWire(k [32]byte) []byte {
	return amino.MustMarshalSized(&k)
}

// parseEph decodes the peer's first handshake message from the front of b. It
// returns the number of bytes consumed, or 0 if b does not hold it fully yet.
func parseEph(b []byte) (k [32]byte, n int, err error) {
	want := len(ephWire(k))
	if len(b) < want {
		return k, 0, nil
	}
	if err = amino.UnmarshalSized(b[:want], &k); err != nil {
		return k, 0, err
	}
	return k, want, nil
}

// derive computes the session secrets from the peer's ephemeral key.
func (p *refPeer) derive(remEph [32]byte) error {
	p.remEph = remEph
	dh, err := curve25519.X25519(p.ephPriv[:], remEph[:])
	if err != nil {
		return err
	}
	locIsLeast := bytes.Compare(p.ephPub[:], remEph[:]) < 0
	r := hkdf.New(sha256.New, dh, nil, []byte("TENDERMINT_SECRET_CONNECTION_KEY_AND_CHALLENGE_GEN"))
	var res [96]byte
	if _, err := io.ReadFull(r, res[:]); err != nil {
		return err
	}
	copy(p.challenge[:], res[64:96])
	recvK, sendK := res[0:32], res[32:64]
	if !locIsLeast {
		recvK, sendK = sendK, recvK
	}
	if p.sendAead, err = chacha20poly1305.New(sendK); err != nil {
		return err
	}
	if p.recvAead, err = chacha20poly1305.New(recvK); err != nil {
		return err
	}
	p.sendN, p.recvN = 0, 0
	return nil
}

func refNonce(n uint64) []byte {
	var b [12]byte
	binary.LittleEndian.PutUint64(b[4:], n)
	return b[:]
}

// seal builds one encrypted frame. declared is the length field; honest
// callers pass len(chunk).
func (p *refPeer) seal(chunk []byte, declared uint32, pad byte) []byte {
	if len(chunk) > refDataMax {
		panic("refPeer.seal: chunk too large")
	}
	frame := make([]byte, refFrameSize)
	for i := range frame {
		frame[i] = pad
	}
	binary.LittleEndian.PutUint32(frame, declared)
	copy(frame[4:], chunk)
	out := p.sendAead.Seal(nil, refNonce(p.sendN), frame, nil)
	p.sendN++
	return out
}

// sealStream frames data honestly with the given chunk sizes (each 1..1024;
// the last size is reused when the list runs out).
func (p *refPeer) sealStream(data []byte, sizes []int) []byte {
	var out []byte
	i := 0
	for len(data) > 0 {
		sz := refDataMax
		if len(sizes) > 0 {
			sz = sizes[min(i, len(sizes)-1)]
		}
		sz = max(1, min(sz, refDataMax, len(data)))
		out = append(out, p.seal(data[:sz], uint32(sz), 0)...)
		data = data[sz:]
		i++
	}
	return out
}

var errRefOpen = errors.New("reference decoder: frame does not authenticate")

// open decrypts the next frame of the peer's stream and returns its payload.
func (p *refPeer) open(sealed []byte) ([]byte, error) {
	if len(sealed) != refSealed {
		return nil, errors.New("reference decoder: wrong sealed frame size")
	}
	frame, err := p.recvAead.Open(nil, refNonce(p.recvN), sealed, nil)
	if err != nil {
		return nil, errRefOpen
	}
	p.recvN++
	l := binary.LittleEndian.Uint32(frame)
	if l > refDataMax {
		return nil, errors.New("reference decoder: declared length exceeds 1024")
	}
	return frame[4 : 4+l], nil
}

// authPlain is the plaintext of the second handshake message for the given
// claimed identity key and signature.
func authPlain(key ed25519.PubKeyEd25519, sig []byte) []byte {
	return amino.MustMarshalSized(refAuthSig{Key: key, Sig: sig})
}

// honestAuth signs this session's challenge with the peer's identity key.
func (p *refPeer) honestAuth() []byte {
	sig, err := p.id.Sign(p.challenge[:])
	if err != nil {
		panic(err)
	}
	return authPlain(p.pub(), sig)
}

// parseAuth decodes an auth message plaintext.
func parseAuth(plain []byte) (refAuthSig, error) {
	var m refAuthSig
	err := amino.UnmarshalSized(plain, &m)
	return m, err
}
