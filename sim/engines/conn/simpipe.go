package conn

import (
	"errors"
	"io"
	"net"
	"sync"
	"time"

	"verif/sim/kernel"
)

// simPipe is a full-duplex in-memory connection owned by the simulator. It
// must be created inside the bubble (its channels are what the goroutines of
// the code under test durably block on; the mutex only guards short critical
// sections and is never held while parked).
//
// Direction d carries bytes written by end d to end 1-d. Per direction:
//
//	wq  bytes written but still "on the wire" - only the simulator moves them
//	    on (Deliver), and it may tamper with them first
//	rq  bytes the reader may consume now
//
// Nothing crosses from one end to the other without a simulator decision, so
// the two ends never interact behind the simulator's back (that includes
// Close: the peer sees EOF / write errors only when the simulator says so).
type simPipe struct {
	mu   sync.Mutex
	dir  [2]*pipeDir
	ends [2]*pipeEnd

	// nonblock: single-threaded phases. A Read that would have to park is a
	// harness bug (or the symptom of a model divergence) and returns
	// errWouldBlock instead of deadlocking the simulator.
	nonblock bool
	// pull-mode read chunking (single-threaded phases only: it draws).
	chunker func(avail, want int) int
}

var (
	errWouldBlock = errors.New("simpipe: read would block in a single-threaded phase")
	errPeerGone   = errors.New("simpipe: write: broken pipe")
)

type pipeDir struct {
	wq, rq   []byte
	eof      bool // reader gets io.EOF once rq is drained
	werr     bool // writer gets errPeerGone
	capacity int  // max len(wq)+len(rq); 0 = unbounded (writes never block)
	rsig     chan struct{}
	wsig     chan struct{}
	written  int64
	consumed int64
	reads    int
}

type pipeEnd struct {
	p        *simPipe
	id       int
	closed   bool
	closedCh chan struct{}
}

type pipeAddr string

func (a pipeAddr) Network() string { return "sim" }
func (a pipeAddr) String() string  { return string(a) }

func newSimPipe() *simPipe {
	p := &simPipe{}
	for i := range 2 {
		p.dir[i] = &pipeDir{rsig: make(chan struct{}, 1), wsig: make(chan struct{}, 1)}
		p.ends[i] = &pipeEnd{p: p, id: i, closedCh: make(chan struct{})}
	}
	return p
}

func poke(ch chan struct{}) {
	select {
	case ch <- struct{}{}:
	default:
	}
}

// ---- net.Conn side (called by the code under test) -------------------------

func (e *pipeEnd) Read(b []byte) (int, error) {
	p := e.p
	d := p.dir[1-e.id] // bytes flowing towards this end
	for {
		p.mu.Lock()
		if e.closed {
			p.mu.Unlock()
			return 0, io.ErrClosedPipe
		}
		if len(b) == 0 {
			p.mu.Unlock()
			return 0, nil
		}
		if len(d.rq) > 0 {
			n := min(len(b), len(d.rq))
			if ck := p.chunker; ck != nil {
				// the chunker draws from the choice tape and may panic (tape
				// overrun while shrinking): never call it with the lock held.
				// Pull-mode chunking only exists in single-threaded phases.
				avail := len(d.rq)
				p.mu.Unlock()
				k := ck(avail, len(b))
				p.mu.Lock()
				n = max(1, min(n, len(d.rq), k))
			}
			copy(b, d.rq[:n])
			d.rq = d.rq[n:]
			d.consumed += int64(n)
			d.reads++
			poke(d.wsig) // space for a blocked writer
			p.mu.Unlock()
			return n, nil
		}
		if d.eof {
			p.mu.Unlock()
			return 0, io.EOF
		}
		nb := p.nonblock
		p.mu.Unlock()
		if nb {
			return 0, errWouldBlock
		}
		select {
		case <-d.rsig:
		case <-e.closedCh:
		}
	}
}

func (e *pipeEnd) Write(b []byte) (int, error) {
	p := e.p
	d := p.dir[e.id]
	done := 0
	for {
		p.mu.Lock()
		if e.closed {
			p.mu.Unlock()
			return done, io.ErrClosedPipe
		}
		if d.werr {
			p.mu.Unlock()
			return done, errPeerGone
		}
		room := len(b) - done
		if d.capacity > 0 {
			room = min(room, d.capacity-len(d.wq)-len(d.rq))
		}
		if room > 0 {
			d.wq = append(d.wq, b[done:done+room]...)
			d.written += int64(room)
			done += room
		}
		if done == len(b) {
			p.mu.Unlock()
			return done, nil
		}
		nb := p.nonblock
		p.mu.Unlock()
		if nb {
			kernel.Harnessf("simpipe: write would block in a single-threaded phase")
		}
		select {
		case <-d.wsig:
		case <-e.closedCh:
		}
	}
}

func (e *pipeEnd) Close() error {
	p := e.p
	p.mu.Lock()
	if e.closed {
		p.mu.Unlock()
		return io.ErrClosedPipe
	}
	e.closed = true
	close(e.closedCh)
	p.mu.Unlock()
	return nil
}

func (e *pipeEnd) LocalAddr() net.Addr              { return pipeAddr("sim-end-" + string(rune('A'+e.id))) }
func (e *pipeEnd) RemoteAddr() net.Addr             { return pipeAddr("sim-end-" + string(rune('A'+1-e.id))) }
func (e *pipeEnd) SetDeadline(time.Time) error      { return nil }
func (e *pipeEnd) SetReadDeadline(time.Time) error  { return nil }
func (e *pipeEnd) SetWriteDeadline(time.Time) error { return nil }

var _ net.Conn = (*pipeEnd)(nil)

// ---- simulator side ---------------------------------------------------------

func (p *simPipe) end(i int) *pipeEnd { return p.ends[i] }

// Pending is the number of bytes written by end d that the simulator has not
// moved on yet.
func (p *simPipe) Pending(d int) int {
	p.mu.Lock()
	defer p.mu.Unlock()
	return len(p.dir[d].wq)
}

// Unread is the number of delivered bytes the reader has not consumed yet.
func (p *simPipe) Unread(d int) int {
	p.mu.Lock()
	defer p.mu.Unlock()
	return len(p.dir[d].rq)
}

func (p *simPipe) Written(d int) int64 {
	p.mu.Lock()
	defer p.mu.Unlock()
	return p.dir[d].written
}

// Deliver moves the first n on-the-wire bytes of direction d to the reader.
func (p *simPipe) Deliver(d, n int) int {
	p.mu.Lock()
	defer p.mu.Unlock()
	x := p.dir[d]
	n = min(n, len(x.wq))
	if n <= 0 {
		return 0
	}
	x.rq = append(x.rq, x.wq[:n]...)
	x.wq = x.wq[n:]
	poke(x.rsig)
	return n
}

// Take removes and returns the first n on-the-wire bytes (interception).
func (p *simPipe) Take(d, n int) []byte {
	p.mu.Lock()
	defer p.mu.Unlock()
	x := p.dir[d]
	n = min(n, len(x.wq))
	out := append([]byte(nil), x.wq[:n]...)
	x.wq = x.wq[n:]
	poke(x.wsig)
	return out
}

// Peek copies the on-the-wire bytes without removing them.
func (p *simPipe) Peek(d int) []byte {
	p.mu.Lock()
	defer p.mu.Unlock()
	return append([]byte(nil), p.dir[d].wq...)
}

// Rewrite replaces the on-the-wire bytes of direction d (tampering).
func (p *simPipe) Rewrite(d int, b []byte) {
	p.mu.Lock()
	defer p.mu.Unlock()
	p.dir[d].wq = append([]byte(nil), b...)
}

// Inject makes b readable by the reader of direction d as if end d had sent it.
func (p *simPipe) Inject(d int, b []byte) {
	if len(b) == 0 {
		return
	}
	p.mu.Lock()
	defer p.mu.Unlock()
	x := p.dir[d]
	x.rq = append(x.rq, b...)
	poke(x.rsig)
}

// SetEOF: the reader of direction d sees io.EOF after the delivered bytes.
func (p *simPipe) SetEOF(d int) {
	p.mu.Lock()
	defer p.mu.Unlock()
	p.dir[d].eof = true
	poke(p.dir[d].rsig)
}

// BreakWrites: the writer of direction d gets a broken-pipe error from now on.
func (p *simPipe) BreakWrites(d int) {
	p.mu.Lock()
	defer p.mu.Unlock()
	p.dir[d].werr = true
	poke(p.dir[d].wsig)
}

func (p *simPipe) SetCapacity(d, n int) {
	p.mu.Lock()
	defer p.mu.Unlock()
	p.dir[d].capacity = n
	poke(p.dir[d].wsig)
}

func (p *simPipe) EndClosed(i int) bool {
	p.mu.Lock()
	defer p.mu.Unlock()
	return p.ends[i].closed
}

func (p *simPipe) SetNonblock(nb bool, chunker func(avail, want int) int) {
	p.mu.Lock()
	defer p.mu.Unlock()
	p.nonblock = nb
	p.chunker = chunker
}

// Shutdown closes both ends (idempotent); used at the end of every run so that
// no goroutine stays parked on the pipe.
func (p *simPipe) Shutdown() {
	for i := range 2 {
		p.ends[i].Close()
	}
}
