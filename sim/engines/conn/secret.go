package conn

import (
	"bytes"
	"fmt"
	"sync"
	"testing/synctest"
	"time"

	"github.com/gnolang/gno/tm2/pkg/crypto/ed25519"
	p2pconn "github.com/gnolang/gno/tm2/pkg/p2p/conn"

	"verif/sim/kernel"
)

// ---------------------------------------------------------------------------
// C42: SecretConnection under a hostile pipe.
//
// Three scenario families, drawn per run:
//
//	e2e      real A <-> real B over one simpipe. The handshake runs in
//	         goroutines that only ever block on the pipe; the simulator moves
//	         bytes one direction at a time (drawn chunking, optional handshake
//	         fault) and calls synctest.Wait after every move. The data phase
//	         is single-threaded: write / tamper in-flight frames / move / read.
//	simpeer  real A <-> the simulator speaking the protocol itself (refPeer)
//	         with its own identity: interop check by an independent decoder,
//	         forged/invalid auth messages, low-order ephemeral keys, frames
//	         whose (authenticated) length field lies.
//	mitm     real A <-> M <-> real B with M owning both half sessions, and
//	         replay of a recorded handshake against a fresh responder.
//
// Oracle (what the code guarantees, no more): RemotePubKey() is the key whose
// owner signed *this* session's challenge - after a clean handshake that is
// the real peer; under MITM with M's own identity it is M's key, never the
// victim's; with anything else substituted the handshake fails. In the data
// phase every byte returned by Read is the next byte of what the peer wrote;
// a 1044-byte block that is not exactly the next frame of the writer yields an
// error and no data.
// ---------------------------------------------------------------------------

type ssim struct {
	c    *kernel.Choices
	r    *kernel.Result
	p    kernel.Params
	stop bool

	hsCompleted bool // at least one real side finished a handshake successfully
	decisions   int  // fault / chunking decisions that actually fired
	scenario    string
}

func (s *ssim) fail(oracle, format string, args ...any) {
	if s.stop {
		return
	}
	s.stop = true
	v := &kernel.Violation{Property: "C42", Oracle: oracle, Signature: oracle, Msg: fmt.Sprintf(format, args...)}
	if k := s.p.IsKnown(v); k != nil {
		s.r.Known = append(s.r.Known, *v)
		return
	}
	s.r.Fail("C42", oracle, "%s", v.Msg)
}

func (s *ssim) fault(kind string) {
	s.r.Fault(kind)
	s.decisions++
}

func runSecret(c *kernel.Choices, p kernel.Params) *kernel.Result {
	r := kernel.NewResult()
	s := &ssim{c: c, r: r, p: p}
	seed := c.Uint64()
	withSeededCryptoRand(seed, func() {
		r.SimSeconds = inBubble(s.run)
	})
	r.Nontrivial = s.hsCompleted && s.decisions > 0 && r.Violation == nil
	r.Sample = map[string]any{"scenario": s.scenario, "first_events": c.Log[:min(len(c.Log), 25)], "events": c.Events()}
	return r
}

func (s *ssim) run() {
	switch s.c.Weighted([]int{6, 3, 3}) {
	case 0:
		s.scenario = "e2e"
		s.e2e()
	case 1:
		s.scenario = "simpeer"
		s.simpeer()
	default:
		s.scenario = "mitm"
		s.mitm()
	}
}

// ---- shared helpers ---------------------------------------------------------

func (s *ssim) key(label string) ed25519.PrivKeyEd25519 {
	return ed25519.GenPrivKeyFromSecret(append([]byte(label), s.c.Bytes(4, 256)...))
}

// pstream returns n bytes at offset off of a non-periodic stream, so that a
// duplicated, dropped or reordered chunk can never look like the right data.
func pstream(seed uint64, off, n int) []byte {
	out := make([]byte, n)
	for i := range out {
		j := uint64(off + i)
		z := seed + (j/8+1)*0x9e3779b97f4a7c15
		z = (z ^ (z >> 30)) * 0xbf58476d1ce4e5b9
		z = (z ^ (z >> 27)) * 0x94d049bb133111eb
		z ^= z >> 31
		out[i] = byte(z >> (8 * (j % 8)))
	}
	return out
}

// realSide runs the real MakeSecretConnection in a goroutine of the bubble.
type realSide struct {
	name string
	priv ed25519.PrivKeyEd25519
	end  *pipeEnd

	mu       sync.Mutex
	done     bool
	sc       *p2pconn.SecretConnection
	err      error
	panicked any
}

func (x *realSide) pub() ed25519.PubKeyEd25519 { return x.priv.PubKey().(ed25519.PubKeyEd25519) }

// start launches the handshake and waits until it is parked on the pipe, so
// that (a) this side has already drawn its ephemeral key from the seeded
// crypto/rand before anybody else does and (b) its first message is on the wire.
func (x *realSide) start() {
	go func() {
		defer func() {
			if r := recover(); r != nil {
				x.mu.Lock()
				x.panicked, x.done = r, true
				x.mu.Unlock()
			}
		}()
		sc, err := p2pconn.MakeSecretConnection(x.end, x.priv)
		x.mu.Lock()
		x.sc, x.err, x.done = sc, err, true
		x.mu.Unlock()
	}()
	synctest.Wait()
}

func (x *realSide) state() (done bool, sc *p2pconn.SecretConnection, err error, pv any) {
	x.mu.Lock()
	defer x.mu.Unlock()
	return x.done, x.sc, x.err, x.panicked
}

// finish makes sure the handshake goroutine has returned: whatever it still
// waits for will never come, so the simulator ends the stream.
func (s *ssim) finish(x *realSide, p *simPipe) (ok bool) {
	synctest.Wait()
	if done, _, _, _ := x.state(); !done {
		p.SetEOF(1 - x.end.id)
		synctest.Wait()
	}
	done, sc, err, pv := x.state()
	if !done {
		kernel.Harnessf("handshake of %s did not return after EOF", x.name)
	}
	if pv != nil {
		s.fail("handshake-panic", "MakeSecretConnection of %s panicked: %v", x.name, pv)
		return false
	}
	if err == nil && sc == nil {
		s.fail("handshake-nil", "MakeSecretConnection of %s returned (nil, nil)", x.name)
		return false
	}
	return err == nil
}

// chunk draws how many of avail bytes move next; 0 on the tape means "all".
func (s *ssim) chunk(avail int) int {
	switch s.c.Weighted([]int{5, 2, 2, 2}) {
	case 1:
		s.decisions++
		return 1
	case 2:
		s.decisions++
		return s.c.Range(1, min(avail, 40))
	case 3:
		s.decisions++
		return s.c.Range(1, avail)
	}
	return avail
}

// feed injects b towards the real side of a half session in drawn chunks.
func (s *ssim) feed(p *simPipe, d int, b []byte) {
	for len(b) > 0 {
		n := min(len(b), s.chunk(len(b)))
		p.Inject(d, b[:n])
		b = b[n:]
		synctest.Wait()
		s.r.Steps++
	}
}

// ---- scenario e2e -------------------------------------------------------------

// dstate is the model of one direction of an established real<->real session.
type dstate struct {
	name   string
	seed   uint64
	W      []byte   // plaintext written so far
	frames [][]byte // sealed frames exactly as the real writer produced them
	chunks [][]byte // plaintext carried by each frame
	wire   []byte   // in flight: written, owned by the simulator, may be tampered with
	hist   [][]byte // frames already handed to the reader (replay material)
	vis    []byte   // everything made visible to the reader, after tampering
	rpos   int      // bytes of vis the reader's frame reads have consumed
	k      int      // frames the reader has accepted so far
	buf    int      // plaintext bytes of the last accepted frame not yet returned
	D      int      // plaintext bytes returned so far (always a prefix of W)
	cut    bool     // stream truncated: later writes vanish
	eof    bool
	first  string // first tampering applied (for messages)
	seenMismatch bool
}

func (s *ssim) e2e() {
	c := s.c
	pipe := newSimPipe()
	defer pipe.Shutdown()
	A := &realSide{name: "A", priv: s.key("A"), end: pipe.end(0)}
	B := &realSide{name: "B", priv: s.key("B"), end: pipe.end(1)}
	// handshake fault, drawn up front
	hsFault := c.Weighted([]int{8, 2, 1, 1, 1, 1})
	ephLen := len(ephWire([32]byte{}))
	hsTotal := ephLen + refSealed
	fDir, fOff, fBit := c.Intn(2), 0, 0
	switch hsFault {
	case 1: // flip one bit somewhere in the handshake bytes of one direction
		fOff, fBit = c.Intn(hsTotal), c.Intn(8)
	case 2: // truncate one direction after fOff bytes
		fOff = c.Intn(hsTotal)
	case 3: // reflection: A's own bytes come back to A, B hears nothing
	case 4: // substitute the ephemeral key of one direction by another valid key
	case 5: // flip the top bit of the ephemeral key's u-coordinate (ignored by X25519)
	}
	A.start()
	B.start()
	c.Event("e2e hsfault=%d dir=%d off=%d bit=%d", hsFault, fDir, fOff, fBit)

	moved := [2]int{}
	fired := false
	for step := 0; step < 6000 && !s.stop; step++ {
		p0, p1 := pipe.Pending(0), pipe.Pending(1)
		if hsFault == 3 {
			p1 = 0 // B's bytes are never moved
		}
		if p0 == 0 && p1 == 0 {
			break
		}
		d := 0
		if p0 > 0 && p1 > 0 {
			d = c.Intn(2)
		} else if p1 > 0 {
			d = 1
		}
		avail := pipe.Pending(d)
		n := min(avail, s.chunk(avail))
		if c.Chance(1, 12) { // the wire stalls: nothing becomes readable for a while
			st := time.Duration(c.Range(1, 5000)) * time.Millisecond
			c.Event("hs stall %v", st)
			sleepSettle(st)
			s.fault("hs_stall")
		}
		switch {
		case hsFault == 1 && d == fDir && moved[d] <= fOff && fOff < moved[d]+n:
			w := pipe.Peek(d)
			w[fOff-moved[d]] ^= 1 << uint(fBit)
			pipe.Rewrite(d, w)
			fired = true
			s.fault("hs_flip_bit")
		case hsFault == 2 && d == fDir && moved[d]+n > fOff:
			n = fOff - moved[d]
			if n > 0 {
				pipe.Deliver(d, n)
				moved[d] += n
			}
			pipe.Take(d, 1<<30)
			pipe.SetEOF(d)
			fired = true
			s.fault("hs_truncate")
			c.Event("hs truncate d=%d at=%d", d, fOff)
			synctest.Wait()
			hsFault = -2
			continue
		case hsFault == 4 && d == fDir && moved[d] == 0:
			w := pipe.Peek(d)
			if len(w) >= ephLen {
				sub := newRefPeer(s.key("M"), pstream(c.Uint64(), 0, 32))
				copy(w[:ephLen], ephWire(sub.ephPub))
				pipe.Rewrite(d, w)
				n = max(n, ephLen)
				fired = true
				s.fault("hs_eph_substituted")
			}
		}
		if hsFault == 5 && d == fDir && moved[d] == 0 {
			w := pipe.Peek(d)
			if len(w) >= ephLen {
				w[ephLen-1] ^= 0x80
				pipe.Rewrite(d, w)
				n = max(n, ephLen)
				fired = true
				s.fault("hs_eph_top_bit_flipped")
			}
		}
		if hsFault == 3 && d == 0 {
			b := pipe.Take(0, n)
			pipe.Inject(1, b) // back to A
			fired = true
		} else {
			pipe.Deliver(d, n)
		}
		moved[d] += n
		c.Event("hs move d=%d n=%d", d, n)
		synctest.Wait()
		s.r.Steps++
	}
	if hsFault == 3 {
		s.fault("hs_reflection")
	}
	okA := s.finish(A, pipe)
	okB := s.finish(B, pipe)
	if s.stop {
		return
	}
	c.Event("hs result A=%v B=%v", okA, okB)
	if okA || okB {
		s.hsCompleted = true
	}
	_, scA, errA, _ := A.state()
	_, scB, errB, _ := B.state()
	if !fired {
		if !okA || !okB {
			s.fail("clean-handshake-failed", "unfaulted handshake failed: A err=%v, B err=%v", errA, errB)
			return
		}
	} else {
		s.r.Probe("handshakes_under_fault")
		if !okA {
			s.r.Probe("hs_failed_as_expected")
		}
		if !okB {
			s.r.Probe("hs_failed_as_expected")
		}
		if hsFault == 3 && okA {
			s.fail("reflection-accepted", "A completed a handshake against its own reflected bytes (remote key %X)", scA.RemotePubKey().Bytes())
			return
		}
		if hsFault == 4 && (okA || okB) {
			s.fail("substituted-eph-accepted", "handshake completed although the ephemeral key of direction %d was replaced by an unrelated key: A ok=%v B ok=%v", fDir, okA, okB)
			return
		}
		if okA && okB {
			s.r.Probe("hs_survived_fault") // e.g. the ignored top bit of the X25519 u-coordinate
			if hsFault == 5 {
				s.r.Probe("hs_survived_eph_top_bit_flip")
			}
		}
	}
	if okA && !scA.RemotePubKey().Equals(B.pub()) {
		s.fail("remote-key", "A authenticated %X but talked to B=%X", scA.RemotePubKey().Bytes(), B.pub().Bytes())
		return
	}
	if okB && !scB.RemotePubKey().Equals(A.pub()) {
		s.fail("remote-key", "B authenticated %X but talked to A=%X", scB.RemotePubKey().Bytes(), A.pub().Bytes())
		return
	}
	if !(okA && okB) || hsFault == -2 {
		return
	}
	// anything still on the wire after both sides returned would be a surprise
	if pipe.Pending(0)+pipe.Pending(1)+pipe.Unread(0)+pipe.Unread(1) != 0 {
		s.fail("handshake-leftover", "bytes left over after the handshake: pending %d/%d unread %d/%d",
			pipe.Pending(0), pipe.Pending(1), pipe.Unread(0), pipe.Unread(1))
		return
	}
	s.dataPhase(pipe, [2]*p2pconn.SecretConnection{scA, scB})
}

var writeSizes = []int{1, 1024, 1023, 1025, 2, 100, 2048, 2047, 2049, 3000, 5000, 0}
var readSizes = []int{4096, 1024, 1, 1023, 1025, 7, 100, 2}

const (
	tFlip = iota
	tDrop
	tDup
	tSwap
	tReplay
	tReflect
	tGarbage
	tTruncate
	tDelByte
	tInsByte
	nTamper
)

var tamperNames = []string{"flip_bit", "drop_frame", "dup_frame", "swap_frames", "replay_old_frame", "reflect_frame", "garbage_frame", "truncate", "delete_byte", "insert_byte"}

func (s *ssim) dataPhase(pipe *simPipe, sc [2]*p2pconn.SecretConnection) {
	c := s.c
	// transport-level read chunking inside io.ReadFull (pull mode, single-threaded)
	chunkPolicy := c.Weighted([]int{3, 1, 2})
	chunkFired := false
	var chunker func(avail, want int) int
	switch chunkPolicy {
	case 1:
		chunker = func(avail, want int) int { chunkFired = true; return 1 }
	case 2:
		chunker = func(avail, want int) int {
			chunkFired = true
			return 1 + c.Intn(min(avail, want))
		}
	}
	pipe.SetNonblock(true, chunker)
	tamperBudget := 0
	if c.Chance(3, 5) {
		tamperBudget = c.Range(1, 3)
	}
	nops := c.Range(4, 60)
	ds := [2]*dstate{{name: "A->B", seed: c.Uint64()}, {name: "B->A", seed: c.Uint64()}}
	c.Event("data ops=%d tamper=%d chunk=%d", nops, tamperBudget, chunkPolicy)

	for i := 0; i < nops && !s.stop; i++ {
		d := c.Intn(2)
		x := ds[d]
		switch c.Weighted([]int{4, 4, 5, 2}) {
		case 0:
			s.opWrite(pipe, sc[d], x, d, writeSizes[c.Intn(len(writeSizes))])
		case 1:
			nf := len(x.wire) / refSealed
			n := len(x.wire)
			switch c.Weighted([]int{3, 3, 1}) {
			case 1:
				n = min(n, refSealed*c.Range(1, max(1, nf)))
			case 2:
				n = c.Range(0, n) // partial frame
			}
			s.opMove(pipe, x, d, n)
		case 2:
			s.opRead(sc[1-d], x, readSizes[c.Intn(len(readSizes))])
		case 3:
			if tamperBudget > 0 && s.opTamper(x, ds[1-d]) {
				tamperBudget--
			}
		}
		s.r.Steps++
	}
	// drain: everything still in flight arrives, then the stream ends
	for d := 0; d < 2 && !s.stop; d++ {
		x := ds[d]
		s.opMove(pipe, x, d, len(x.wire))
		pipe.SetEOF(d)
		x.eof = true
		c.Event("%s eof", x.name)
		for i := 0; i < 100000 && !s.stop; i++ {
			if x.buf == 0 && x.rpos >= len(x.vis) {
				break
			}
			s.opRead(sc[1-d], x, 4096)
		}
		if s.stop {
			return
		}
		// one more read: the stream is over, it must say so and return nothing
		s.opRead(sc[1-d], x, 4096)
		var all []byte
		for _, f := range x.frames {
			all = append(all, f...)
		}
		if bytes.Equal(all, x.vis) {
			if x.D != len(x.W) {
				s.fail("data-lost", "%s: untampered stream, %d bytes written but only %d read back", x.name, len(x.W), x.D)
			}
		} else if x.D == len(x.W) && len(x.W) > 0 {
			s.r.Probe("full_plaintext_despite_tamper") // duplicate/replay dropped by the nonce check
		}
	}
	if chunkFired {
		s.fault("read_chunking")
	}
}

func (s *ssim) opWrite(pipe *simPipe, sc *p2pconn.SecretConnection, x *dstate, d, n int) {
	data := pstream(x.seed, len(x.W), n)
	wn, err := sc.Write(data)
	s.c.Event("%s write %d", x.name, n)
	if err != nil || wn != n {
		s.fail("write-failed", "%s: Write(%d bytes) = %d, %v on an open connection", x.name, n, wn, err)
		return
	}
	got := pipe.Take(d, 1<<30)
	want := (n + refDataMax - 1) / refDataMax
	if len(got) != want*refSealed {
		s.fail("wire-framing", "%s: Write(%d bytes) put %d bytes on the wire, expected %d frames of %d", x.name, n, len(got), want, refSealed)
		return
	}
	if n >= 32 && bytes.Contains(got, data[n/2:n/2+16]) {
		s.fail("plaintext-on-wire", "%s: 16 consecutive plaintext bytes appear verbatim on the wire", x.name)
		return
	}
	x.W = append(x.W, data...)
	for i := 0; i < want; i++ {
		x.frames = append(x.frames, got[i*refSealed:(i+1)*refSealed])
		x.chunks = append(x.chunks, data[i*refDataMax:min(n, (i+1)*refDataMax)])
	}
	if n > refDataMax {
		s.r.Probe("multi_frame_write")
	}
	if !x.cut {
		x.wire = append(x.wire, got...)
	}
}

func (s *ssim) opMove(pipe *simPipe, x *dstate, d, n int) {
	n = min(n, len(x.wire))
	if n <= 0 {
		return
	}
	if n%refSealed != 0 {
		s.decisions++
		s.r.Probe("partial_frame_moved")
	}
	b := x.wire[:n]
	for i := 0; i+refSealed <= n; i += refSealed {
		if len(x.hist) < 64 {
			x.hist = append(x.hist, append([]byte(nil), b[i:i+refSealed]...))
		}
	}
	pipe.Inject(d, b)
	x.vis = append(x.vis, b...)
	x.wire = x.wire[n:]
	s.c.Event("%s move %d", x.name, n)
}

func (s *ssim) opTamper(x, other *dstate) bool {
	c := s.c
	kind := c.Intn(nTamper)
	nf := len(x.wire) / refSealed
	j := 0
	if nf > 0 {
		j = c.Intn(nf)
	}
	at := j * refSealed
	ok := false
	switch kind {
	case tFlip:
		if nf > 0 {
			x.wire[at+c.Intn(refSealed)] ^= 1 << uint(c.Intn(8))
			ok = true
		}
	case tDrop:
		if nf > 0 {
			x.wire = append(append([]byte(nil), x.wire[:at]...), x.wire[at+refSealed:]...)
			ok = true
		}
	case tDup:
		if nf > 0 {
			f := append([]byte(nil), x.wire[at:at+refSealed]...)
			x.wire = append(append(append([]byte(nil), x.wire[:at+refSealed]...), f...), x.wire[at+refSealed:]...)
			ok = true
		}
	case tSwap:
		if nf > 1 {
			j = c.Intn(nf - 1)
			at = j * refSealed
			w := append([]byte(nil), x.wire...)
			copy(w[at:], x.wire[at+refSealed:at+2*refSealed])
			copy(w[at+refSealed:], x.wire[at:at+refSealed])
			x.wire = w
			ok = true
		}
	case tReplay:
		if len(x.hist) > 0 {
			f := x.hist[c.Intn(len(x.hist))]
			x.wire = append(append(append([]byte(nil), x.wire[:at]...), f...), x.wire[at:]...)
			ok = true
		}
	case tReflect:
		if len(other.frames) > 0 {
			f := other.frames[c.Intn(len(other.frames))]
			x.wire = append(append(append([]byte(nil), x.wire[:at]...), f...), x.wire[at:]...)
			ok = true
		}
	case tGarbage:
		f := pstream(c.Uint64(), 0, refSealed)
		x.wire = append(append(append([]byte(nil), x.wire[:at]...), f...), x.wire[at:]...)
		ok = true
	case tTruncate:
		if !x.cut {
			cutAt := c.Range(0, len(x.wire))
			x.wire = x.wire[:cutAt]
			x.cut = true
			ok = true
		}
	case tDelByte:
		if len(x.wire) > 0 {
			o := c.Intn(len(x.wire))
			x.wire = append(append([]byte(nil), x.wire[:o]...), x.wire[o+1:]...)
			ok = true
		}
	case tInsByte:
		if len(x.wire) > 0 {
			o := c.Intn(len(x.wire))
			x.wire = append(append(append([]byte(nil), x.wire[:o]...), byte(c.Intn(256))), x.wire[o:]...)
			ok = true
		}
	}
	if ok {
		name := tamperNames[kind]
		if x.first == "" {
			x.first = name
		}
		s.fault(name)
		c.Event("%s tamper %s frame=%d", x.name, name, j)
	}
	return ok
}

// opRead performs one Read on the receiving real connection of direction x if
// it cannot block, and checks it against the model.
func (s *ssim) opRead(sc *p2pconn.SecretConnection, x *dstate, size int) {
	avail := len(x.vis) - x.rpos
	if x.buf == 0 && avail < refSealed && !x.eof {
		return // would block: not enough of the next frame is visible yet
	}
	buf := make([]byte, size)
	var n int
	var err error
	var pv any
	func() {
		defer func() { pv = recover() }()
		n, err = sc.Read(buf)
	}()
	if pv != nil {
		rethrowHarness(pv)
		s.fail("read-panic", "%s: Read panicked: %v (first tampering: %q)", x.name, pv, x.first)
		return
	}
	if err == errWouldBlock {
		kernel.Harnessf("%s: model thought a read could not block (buf=%d avail=%d eof=%v)", x.name, x.buf, avail, x.eof)
	}
	if n < 0 || n > size {
		s.fail("read-count", "%s: Read returned n=%d for a %d byte buffer", x.name, n, size)
		return
	}
	got := buf[:n]
	if x.buf > 0 { // served from the receiver's buffer of the last accepted frame
		if err != nil {
			s.fail("buffered-read-error", "%s: Read failed (%v) while %d authenticated bytes were still buffered", x.name, err, x.buf)
			return
		}
		if n > x.buf || !bytes.Equal(got, x.W[x.D:x.D+n]) {
			s.fail("data-mismatch", "%s: Read returned %d bytes that are not the next bytes of the written stream at offset %d (first tampering: %q)", x.name, n, x.D, x.first)
			return
		}
		x.buf -= n
		x.D += n
		s.c.Event("%s read buffered %d", x.name, n)
		return
	}
	if avail < refSealed { // stream ended (possibly mid-frame): must report it
		x.rpos = len(x.vis)
		if err == nil || n != 0 {
			s.fail("read-past-end", "%s: Read returned n=%d err=%v with only %d bytes of a frame left before EOF", x.name, n, err, avail)
			return
		}
		s.c.Event("%s read end", x.name)
		return
	}
	block := x.vis[x.rpos : x.rpos+refSealed]
	x.rpos += refSealed
	if x.k < len(x.frames) && bytes.Equal(block, x.frames[x.k]) {
		if err != nil {
			if !x.seenMismatch {
				s.fail("clean-read-error", "%s: Read of untampered frame %d failed: %v", x.name, x.k, err)
				return
			}
			s.r.Probe("in_order_frame_rejected_after_tamper")
			s.c.Event("%s read frame rejected-after-tamper", x.name)
			return
		}
		chunk := x.chunks[x.k]
		if n > len(chunk) || !bytes.Equal(got, chunk[:n]) || !bytes.Equal(got, x.W[x.D:x.D+n]) {
			s.fail("data-mismatch", "%s: frame %d accepted but Read returned %d bytes that are not the next bytes of the written stream at offset %d (first tampering: %q)", x.name, x.k, n, x.D, x.first)
			return
		}
		if x.seenMismatch {
			s.r.Probe("resynced_after_rejected_frame")
		}
		x.k++
		x.buf = len(chunk) - n
		x.D += n
		s.c.Event("%s read frame ok n=%d", x.name, n)
		return
	}
	// the block is not the writer's next frame: it must not yield anything
	x.seenMismatch = true
	if err == nil || n != 0 {
		s.fail("tampered-frame-accepted", "%s: a 1044-byte block that is not the writer's next frame (#%d) was accepted: n=%d err=%v (first tampering: %q)", x.name, x.k, n, err, x.first)
		return
	}
	s.r.Probe("frames_rejected")
	s.c.Event("%s read frame rejected", x.name)
}

// ---- scenario simpeer -------------------------------------------------------

// half is one half session: a real side on end 0 of its own pipe, the
// simulator (with a refPeer) on the other end.
type half struct {
	pipe *simPipe
	real *realSide
	ref  *refPeer
}

func (s *ssim) newHalf(name string, priv ed25519.PrivKeyEd25519, mid ed25519.PrivKeyEd25519) *half {
	p := newSimPipe()
	h := &half{pipe: p, real: &realSide{name: name, priv: priv, end: p.end(0)}}
	h.ref = newRefPeer(mid, pstream(s.c.Uint64(), 0, 32))
	return h
}

// recvEph takes the real side's first message off the wire.
func (s *ssim) recvEph(h *half) (k [32]byte, ok bool) {
	b := h.pipe.Peek(0)
	k, n, err := parseEph(b)
	if err != nil || n == 0 {
		s.fail("ref-interop-eph", "%s: first handshake message not decodable by the reference decoder (%d bytes on the wire, err=%v)", h.real.name, len(b), err)
		return k, false
	}
	h.pipe.Take(0, n)
	return k, true
}

// recvAuth takes the real side's auth frame off the wire and decodes it.
func (s *ssim) recvAuth(h *half) (m refAuthSig, plain []byte, ok bool) {
	b := h.pipe.Peek(0)
	if len(b) != refSealed {
		s.fail("ref-interop-auth", "%s: expected one %d-byte auth frame on the wire, found %d bytes", h.real.name, refSealed, len(b))
		return m, nil, false
	}
	h.pipe.Take(0, refSealed)
	plain, err := h.ref.open(b)
	if err == nil {
		m, err = parseAuth(plain)
	}
	if err != nil {
		s.fail("ref-interop-auth", "%s: auth frame not decodable by the reference decoder: %v", h.real.name, err)
		return m, nil, false
	}
	return m, plain, true
}

// checkRealAuth: the real side must have sent its own key and a valid
// signature over this session's challenge.
func (s *ssim) checkRealAuth(h *half, m refAuthSig) bool {
	if !m.Key.Equals(h.real.pub()) || !m.Key.VerifyBytes(h.ref.challenge[:], m.Sig) {
		s.fail("ref-interop-auth", "%s: auth message carries key %X / a signature that does not verify over the session challenge", h.real.name, m.Key.Bytes())
		return false
	}
	return true
}

var lowOrder = [][32]byte{
	{},
	{1},
	{0xe0, 0xeb, 0x7a, 0x7c, 0x3b, 0x41, 0xb8, 0xae, 0x16, 0x56, 0xe3, 0xfa, 0xf1, 0x9f, 0xc4, 0x6a, 0xda, 0x09, 0x8d, 0xeb, 0x9c, 0x32, 0xb1, 0xfd, 0x86, 0x62, 0x05, 0x16, 0x5f, 0x49, 0xb8, 0x00},
	{0x5f, 0x9c, 0x95, 0xbc, 0xa3, 0x50, 0x8c, 0x24, 0xb1, 0xd0, 0xb1, 0x55, 0x9c, 0x83, 0xef, 0x5b, 0x04, 0x44, 0x5c, 0xc4, 0x58, 0x1c, 0x8e, 0x86, 0xd8, 0x22, 0x4e, 0xdd, 0xd0, 0x9f, 0x11, 0x57},
	{0xec, 0xff, 0xff, 0xff, 0xff, 0xff, 0xff, 0xff, 0xff, 0xff, 0xff, 0xff, 0xff, 0xff, 0xff, 0xff, 0xff, 0xff, 0xff, 0xff, 0xff, 0xff, 0xff, 0xff, 0xff, 0xff, 0xff, 0xff, 0xff, 0xff, 0xff, 0x7f},
}

const (
	spHonest = iota
	spHonestSplit
	spBadSig
	spStolenKey
	spStolenKeyNoSig
	spLowOrder
	spGarbageAuth
	spWrongNonce
	spAuthTwice
	nSimpeer
)

var spNames = []string{"honest", "honest_split_auth", "bad_signature", "victim_key_own_signature", "victim_key_empty_signature", "low_order_ephemeral", "garbage_auth", "auth_wrong_nonce", "auth_signed_for_other_session"}

func (s *ssim) simpeer() {
	c := s.c
	variant := c.Weighted([]int{4, 2, 2, 2, 1, 1, 1, 1, 2})
	h := s.newHalf("A", s.key("A"), s.key("M"))
	defer h.pipe.Shutdown()
	victim := s.key("V")
	A := h.real
	c.Event("simpeer variant=%s", spNames[variant])
	ephFirst := c.Bool() // M may speak before it has heard A
	sendEph := h.ref.ephPub
	if variant == spLowOrder {
		sendEph = lowOrder[c.Intn(len(lowOrder))]
	}
	A.start()
	if ephFirst {
		s.feed(h.pipe, 1, ephWire(sendEph))
	}
	aEph, ok := s.recvEph(h)
	if !ok {
		return
	}
	if !ephFirst {
		s.feed(h.pipe, 1, ephWire(sendEph))
	}
	if variant == spLowOrder {
		s.fault("low_order_ephemeral")
		if s.finish(A, h.pipe) {
			s.fail("low-order-accepted", "handshake completed with a low-order ephemeral key %X", sendEph[:])
		} else {
			s.r.Probe("hs_failed_as_expected")
		}
		return
	}
	if err := h.ref.derive(aEph); err != nil {
		kernel.Harnessf("refPeer.derive: %v", err)
	}
	synctest.Wait()
	m, _, ok := s.recvAuth(h)
	if !ok || !s.checkRealAuth(h, m) {
		return
	}
	s.r.Probe("real_auth_verified_by_reference")
	// M's auth message
	var plain []byte
	sealed := []byte(nil)
	switch variant {
	case spHonest, spHonestSplit:
		plain = h.ref.honestAuth()
	case spBadSig:
		ch := h.ref.challenge
		ch[c.Intn(32)] ^= 1 << uint(c.Intn(8))
		sig, _ := h.ref.id.Sign(ch[:])
		plain = authPlain(h.ref.pub(), sig)
	case spStolenKey:
		sig, _ := h.ref.id.Sign(h.ref.challenge[:])
		plain = authPlain(victim.PubKey().(ed25519.PubKeyEd25519), sig)
	case spStolenKeyNoSig:
		plain = authPlain(victim.PubKey().(ed25519.PubKeyEd25519), make([]byte, 64*c.Intn(2)))
	case spGarbageAuth:
		plain = pstream(c.Uint64(), 0, c.Range(1, 200))
	case spWrongNonce:
		plain = h.ref.honestAuth()
		h.ref.sendN = uint64(c.Range(1, 3))
	case spAuthTwice:
		// a perfectly valid signature by the victim - but over the challenge of
		// a different session (what a relaying attacker can obtain)
		other := newRefPeer(victim, pstream(c.Uint64(), 0, 32))
		if err := other.derive(h.ref.ephPub); err != nil {
			kernel.Harnessf("derive: %v", err)
		}
		plain = other.honestAuth()
	}
	if variant == spHonestSplit {
		cut := c.Range(1, len(plain)-1)
		sealed = append(h.ref.seal(plain[:cut], uint32(cut), 0), h.ref.seal(plain[cut:], uint32(len(plain)-cut), 0x5a)...)
		s.decisions++
	} else {
		sealed = h.ref.seal(plain, uint32(len(plain)), 0)
	}
	if variant >= spBadSig {
		s.fault("forged_auth_" + spNames[variant])
	}
	s.feed(h.pipe, 1, sealed)
	okA := s.finish(A, h.pipe)
	if s.stop {
		return
	}
	_, scA, errA, _ := A.state()
	c.Event("simpeer hs ok=%v", okA)
	if variant == spHonest || variant == spHonestSplit {
		if !okA {
			s.fail("honest-peer-rejected", "handshake with an honest reference peer (%s) failed: %v", spNames[variant], errA)
			return
		}
		s.hsCompleted = true
		if !scA.RemotePubKey().Equals(h.ref.pub()) {
			s.fail("remote-key", "A authenticated %X, the peer that signed the challenge is %X", scA.RemotePubKey().Bytes(), h.ref.pub().Bytes())
			return
		}
		s.simpeerData(h, scA)
		return
	}
	if okA {
		s.fail("forged-auth-accepted", "handshake completed although the peer's auth message was %s; A now believes it talks to %X", spNames[variant], scA.RemotePubKey().Bytes())
		return
	}
	s.r.Probe("hs_failed_as_expected")
}

var evilLens = []uint32{1025, 1028, 2000, 2044, 4096, 65536, 0x7fffffff, 0x80000000, 0xffffffff}

// simpeerData: the reference peer decodes what the real side writes, sends
// honest frames with arbitrary chunk sizes, and finally (sometimes) a properly
// encrypted frame whose length field exceeds the data area.
func (s *ssim) simpeerData(h *half, sc *p2pconn.SecretConnection) {
	c := s.c
	h.pipe.SetNonblock(true, nil)
	seedOut, seedIn := c.Uint64(), c.Uint64()
	var W, R []byte // written by A (decoded by ref), sent by ref (read by A)
	nops := c.Range(2, 20)
	rbuf := 0
	pendingIn := 0 // plaintext bytes sent towards A and not yet read
	for i := 0; i < nops && !s.stop; i++ {
		switch c.Intn(3) {
		case 0: // A writes, the reference decoder reads the wire
			n := writeSizes[c.Intn(len(writeSizes))]
			data := pstream(seedOut, len(W), n)
			wn, err := sc.Write(data)
			if err != nil || wn != n {
				s.fail("write-failed", "A: Write(%d) = %d, %v", n, wn, err)
				return
			}
			wire := h.pipe.Take(0, 1<<30)
			if len(wire)%refSealed != 0 {
				s.fail("wire-framing", "A: %d bytes on the wire is not a whole number of frames", len(wire))
				return
			}
			var dec []byte
			for o := 0; o < len(wire); o += refSealed {
				p, err := h.ref.open(wire[o : o+refSealed])
				if err != nil {
					s.fail("ref-decode", "A: frame %d of a %d-byte write rejected by the reference decoder: %v", o/refSealed, n, err)
					return
				}
				dec = append(dec, p...)
			}
			if !bytes.Equal(dec, data) {
				s.fail("ref-decode", "A: reference decoder recovered %d bytes that differ from the %d written", len(dec), n)
				return
			}
			W = append(W, data...)
			c.Event("A write %d decoded", n)
			s.r.Probe("writes_decoded_by_reference")
		case 1: // the reference peer sends honest frames with odd sizes
			n := c.Range(1, 2500)
			data := pstream(seedIn, len(R), n)
			sizes := []int{c.Range(1, refDataMax), c.Range(1, refDataMax), refDataMax}
			h.pipe.Inject(1, h.ref.sealStream(data, sizes))
			R = append(R, data...)
			pendingIn += n
			s.decisions++
			c.Event("M send %d sizes=%v", n, sizes)
		case 2:
			if pendingIn == 0 {
				continue
			}
			size := readSizes[c.Intn(len(readSizes))]
			buf := make([]byte, size)
			n, err := sc.Read(buf)
			if err != nil || n == 0 || n > pendingIn || !bytes.Equal(buf[:n], R[rbuf:rbuf+n]) {
				s.fail("data-mismatch", "A: Read(%d) = %d, %v does not continue the reference peer's stream at offset %d", size, n, err, rbuf)
				return
			}
			rbuf += n
			pendingIn -= n
			c.Event("A read %d", n)
		}
		s.r.Steps++
	}
	for pendingIn > 0 && !s.stop {
		buf := make([]byte, 4096)
		n, err := sc.Read(buf)
		if err != nil || n == 0 || n > pendingIn || !bytes.Equal(buf[:n], R[rbuf:rbuf+n]) {
			s.fail("data-mismatch", "A: Read = %d, %v does not continue the reference peer's stream at offset %d", n, err, rbuf)
			return
		}
		rbuf += n
		pendingIn -= n
	}
	if s.stop || !c.Chance(2, 3) {
		return
	}
	// hostile but authenticated: the length field lies
	declared := evilLens[c.Intn(len(evilLens))]
	s.fault("oversized_length_field")
	c.Event("M send frame declared=%d", declared)
	h.pipe.Inject(1, h.ref.seal(pstream(c.Uint64(), 0, refDataMax), declared, 0))
	// a second, honest frame behind it: must never be confused with the first
	h.pipe.Inject(1, h.ref.seal([]byte("after"), 5, 0))
	buf := make([]byte, 8192)
	var n int
	var err error
	var pv any
	func() {
		defer func() { pv = recover() }()
		n, err = sc.Read(buf)
	}()
	if pv != nil {
		rethrowHarness(pv)
		s.fail("read-panic", "A: Read panicked on a frame declaring %d data bytes: %v", declared, pv)
		return
	}
	if err == nil || n != 0 {
		s.fail("oversized-length-accepted", "A: frame declaring %d data bytes (max 1024) was accepted: n=%d err=%v", declared, n, err)
		return
	}
	s.r.Probe("oversized_length_rejected")
}

// ---- scenario mitm -------------------------------------------------------------

const (
	mRelayAuth = iota
	mOwnIdentity
	mReplayHandshake
	nMitm
)

var mitmNames = []string{"relay_auth_between_two_sessions", "own_identity_both_sides", "replay_recorded_handshake"}

func (s *ssim) mitm() {
	c := s.c
	variant := c.Weighted([]int{3, 2, 2})
	c.Event("mitm variant=%s", mitmNames[variant])
	keyA, keyB, keyM := s.key("A"), s.key("B"), s.key("M")
	if variant == mReplayHandshake {
		s.replayHandshake(keyA, keyB)
		return
	}
	ha := s.newHalf("A", keyA, keyM)
	hb := s.newHalf("B", keyB, keyM)
	defer ha.pipe.Shutdown()
	defer hb.pipe.Shutdown()
	ha.real.start()
	hb.real.start()
	ephA, ok := s.recvEph(ha)
	if !ok {
		return
	}
	ephB, ok := s.recvEph(hb)
	if !ok {
		return
	}
	// M substitutes its own ephemeral keys in both directions
	s.fault("mitm_eph_substitution")
	if c.Bool() {
		s.feed(ha.pipe, 1, ephWire(ha.ref.ephPub))
		s.feed(hb.pipe, 1, ephWire(hb.ref.ephPub))
	} else {
		s.feed(hb.pipe, 1, ephWire(hb.ref.ephPub))
		s.feed(ha.pipe, 1, ephWire(ha.ref.ephPub))
	}
	if err := ha.ref.derive(ephA); err != nil {
		kernel.Harnessf("derive: %v", err)
	}
	if err := hb.ref.derive(ephB); err != nil {
		kernel.Harnessf("derive: %v", err)
	}
	synctest.Wait()
	ma, plainA, ok := s.recvAuth(ha)
	if !ok || !s.checkRealAuth(ha, ma) {
		return
	}
	mb, plainB, ok := s.recvAuth(hb)
	if !ok || !s.checkRealAuth(hb, mb) {
		return
	}
	switch variant {
	case mRelayAuth:
		// M can read both auth messages and re-encrypt them for the other
		// session - but they are signatures over the *other* challenge.
		s.fault("mitm_relay_auth")
		s.feed(hb.pipe, 1, hb.ref.seal(plainA, uint32(len(plainA)), 0))
		s.feed(ha.pipe, 1, ha.ref.seal(plainB, uint32(len(plainB)), 0))
	case mOwnIdentity:
		s.fault("mitm_own_identity")
		pa, pb := ha.ref.honestAuth(), hb.ref.honestAuth()
		s.feed(ha.pipe, 1, ha.ref.seal(pa, uint32(len(pa)), 0))
		s.feed(hb.pipe, 1, hb.ref.seal(pb, uint32(len(pb)), 0))
	}
	okA := s.finish(ha.real, ha.pipe)
	okB := s.finish(hb.real, hb.pipe)
	if s.stop {
		return
	}
	c.Event("mitm hs A=%v B=%v", okA, okB)
	_, scA, _, _ := ha.real.state()
	_, scB, _, _ := hb.real.state()
	pubM := keyM.PubKey().(ed25519.PubKeyEd25519)
	switch variant {
	case mRelayAuth:
		if okA || okB {
			who, sc := "A", scA
			if !okA {
				who, sc = "B", scB
			}
			s.fail("mitm-accepted", "%s completed the handshake with a man in the middle holding the session keys and authenticated %X", who, sc.RemotePubKey().Bytes())
			return
		}
		s.r.ProbeN("hs_failed_as_expected", 2)
		s.r.Probe("mitm_relay_rejected")
	case mOwnIdentity:
		// The code's guarantee: whoever signed the challenge is reported. The
		// caller must compare it with the peer it wanted.
		if !okA || !okB {
			s.fail("honest-peer-rejected", "a peer using its own identity on both half sessions was rejected: A ok=%v B ok=%v", okA, okB)
			return
		}
		s.hsCompleted = true
		if !scA.RemotePubKey().Equals(pubM) || !scB.RemotePubKey().Equals(pubM) {
			s.fail("remote-key", "man in the middle signing as %X was reported as %X to A and %X to B", pubM.Bytes(), scA.RemotePubKey().Bytes(), scB.RemotePubKey().Bytes())
			return
		}
		s.r.Probe("mitm_identified_as_itself")
		// relay a little data through M: both ends must still see exact bytes
		ha.pipe.SetNonblock(true, nil)
		hb.pipe.SetNonblock(true, nil)
		seed := c.Uint64()
		total := 0
		for i, n := 0, c.Range(1, 5); i < n && !s.stop; i++ {
			sz := writeSizes[c.Intn(len(writeSizes))]
			data := pstream(seed, total, sz)
			if wn, err := scA.Write(data); err != nil || wn != sz {
				s.fail("write-failed", "A: Write(%d) = %d, %v", sz, wn, err)
				return
			}
			wire := ha.pipe.Take(0, 1<<30)
			var dec []byte
			for o := 0; o+refSealed <= len(wire); o += refSealed {
				p, err := ha.ref.open(wire[o : o+refSealed])
				if err != nil {
					s.fail("ref-decode", "A: frame rejected by the reference decoder: %v", err)
					return
				}
				dec = append(dec, p...)
			}
			hb.pipe.Inject(1, hb.ref.sealStream(dec, nil))
			got := make([]byte, 0, sz)
			for len(got) < sz {
				buf := make([]byte, 4096)
				rn, err := scB.Read(buf)
				if err != nil || rn == 0 {
					s.fail("data-mismatch", "B: Read = %d, %v while %d relayed bytes were outstanding", rn, err, sz-len(got))
					return
				}
				got = append(got, buf[:rn]...)
			}
			if !bytes.Equal(got, data) {
				s.fail("data-mismatch", "B: relayed data differs from what A wrote")
				return
			}
			total += sz
			c.Event("relay %d", sz)
		}
	}
}

// replayHandshake records the bytes A sent in a clean session with B and plays
// them to a fresh B (new ephemeral key): B must not authenticate A.
func (s *ssim) replayHandshake(keyA, keyB ed25519.PrivKeyEd25519) {
	c := s.c
	pipe := newSimPipe()
	defer pipe.Shutdown()
	A := &realSide{name: "A", priv: keyA, end: pipe.end(0)}
	B := &realSide{name: "B", priv: keyB, end: pipe.end(1)}
	A.start()
	B.start()
	var rec []byte
	for i := 0; i < 50; i++ {
		b := pipe.Peek(0)
		rec = append(rec, b...)
		n := pipe.Deliver(0, len(b)) + pipe.Deliver(1, 1<<30)
		synctest.Wait()
		if n == 0 {
			break
		}
	}
	okA, okB := s.finish(A, pipe), s.finish(B, pipe)
	if s.stop {
		return
	}
	if !okA || !okB {
		_, _, ea, _ := A.state()
		_, _, eb, _ := B.state()
		s.fail("clean-handshake-failed", "unfaulted handshake failed: A err=%v, B err=%v", ea, eb)
		return
	}
	s.hsCompleted = true
	p2 := newSimPipe()
	defer p2.Shutdown()
	B2 := &realSide{name: "B2", priv: keyB, end: p2.end(0)}
	B2.start()
	s.fault("replay_recorded_handshake")
	c.Event("replay %d recorded bytes", len(rec))
	s.feed(p2, 1, rec)
	if s.finish(B2, p2) {
		_, sc, _, _ := B2.state()
		s.fail("handshake-replay-accepted", "a fresh responder accepted a byte-for-byte replay of an old handshake and authenticated %X", sc.RemotePubKey().Bytes())
		return
	}
	s.r.Probe("hs_failed_as_expected")
	s.r.Probe("handshake_replay_rejected")
}
