package conn

import (
	"fmt"
	"os"
	"strings"
	"testing"

	"verif/sim/kernel"
)

func TestSim(t *testing.T) {
	if os.Getenv("VERIF_PROP") == "" {
		t.Skip("driven by /verif/check")
	}
	T = t // bubbles are created with synctest.Test(T, ...) once per simulated run
	code := kernel.Main("conn", map[string]kernel.Engine{
		"C42": runSecret,
		"C43": runMConn,
	})
	if code != 0 {
		os.Exit(code)
	}
}

// TestDeterminism is a debugging aid (not used by the driver): it runs the
// seeds listed in CONN_SEEDS (comma separated, as printed by the driver) of
// property CONN_PROP CONN_REPEAT times each and prints the first event at
// which two runs of the same seed differ.
func TestDeterminism(t *testing.T) {
	seeds := os.Getenv("CONN_SEEDS")
	if seeds == "" {
		t.Skip("set CONN_SEEDS")
	}
	T = t
	eng := runMConn
	if os.Getenv("CONN_PROP") == "C42" {
		eng = runSecret
	}
	repeat := 5
	fmt.Sscan(os.Getenv("CONN_REPEAT"), &repeat)
	for _, f := range strings.Split(seeds, ",") {
		var seed uint64
		fmt.Sscan(f, &seed)
		var ref []string
		for i := 0; i < repeat; i++ {
			c := kernel.NewExplore(seed)
			c.MaxLog = 1 << 20
			r := eng(c, kernel.Params{Property: os.Getenv("CONN_PROP"), Knobs: map[string]string{}})
			if i == 0 {
				ref = c.Log
				t.Logf("seed %d: %d events, fp %s, violation=%v", seed, len(c.Log), c.Fingerprint(), r.Violation)
				if os.Getenv("CONN_PRINT") != "" {
					t.Log("\n" + strings.Join(c.Log, "\n"))
				}
				continue
			}
			for j := 0; j < len(ref) || j < len(c.Log); j++ {
				a, b := "<end>", "<end>"
				if j < len(ref) {
					a = ref[j]
				}
				if j < len(c.Log) {
					b = c.Log[j]
				}
				if a != b {
					lo := max(0, j-12)
					t.Errorf("seed %d run %d diverges at event %d:\n  first: %q\n  now:   %q\ncontext:\n  %s", seed, i, j, a, b, strings.Join(ref[lo:j], "\n  "))
					break
				}
			}
		}
	}
}
