package coop_mempool

import (
	"os"
	"testing"

	"verif/sim/kernel"
)

func TestSim(t *testing.T) {
	if os.Getenv("VERIF_PROP") == "" {
		t.Skip("driven by /verif/check")
	}
	code := kernel.Main("coop_mempool", map[string]kernel.Engine{
		"C40": runMempool,
	})
	if code != 0 {
		os.Exit(code)
	}
}
