// Engine coop_mempool (property C40): the real CListMempool (+ its clist, + the
// real local ABCI client) compiled with the sync shim, over a deterministic
// in-process ABCI application, driven by cooperative tasks:
//
//	submitters   CheckTx with duplicate / distinct, valid / invalid / "valid until
//	             height H" / "valid from height H" txs of various sizes and gas
//	consensus    exactly what BlockExecutor does: ReapMaxBytesMaxGas (proposal),
//	             later Lock, FlushAppConn, app commit, Update(height, block txs,
//	             DeliverTx results, preCheck, maxTxBytes) — which runs the
//	             recheck callbacks synchronously through the local client, as in
//	             production — Unlock
//	observer     what the RPC does: ReapMaxTxs(n), Size, TxsBytes
//	gossip       the reactor's broadcast routine: TxsWaitChan / TxsFront, then
//	             NextWaitChan / Next
//
// The local ABCI client answers CheckTxAsync synchronously (callbacks run
// inside CheckTx / Update, under the mempool lock); that is modelled as is.
//
// Reference: an ordered set driven by what the mempool REPORTED (a tx enters
// when the CheckTx callback says OK; leaves when committed or when a recheck
// may legitimately drop it), compared with the real contents every time the
// consensus task holds the mempool lock, and with every reap result at the
// moment it returns (reaps hold the mempool mutex, and nothing yields between
// the mutex release and the comparison, so the reference is exact there).
//
// Oracles (ids): duplicate, duplicate_after_cache_eviction, order, extra_tx,
// lost_tx, reap_not_prefix, reap_duplicate, reap_over_bytes, reap_over_gas,
// reap_over_count, committed_still_present, reentered_while_cached,
// size_limit, bytes_limit, tx_too_large_admitted, gas_mismatch, size_mismatch,
// txsbytes_mismatch, gossip_order, gossip_unknown_tx, lost_wakeup, deadlock,
// reap_wedged, panic.
package coop_mempool

import (
	"errors"
	"fmt"
	"reflect"
	"strings"

	abcicli "github.com/gnolang/gno/tm2/pkg/bft/abci/client"
	abci "github.com/gnolang/gno/tm2/pkg/bft/abci/types"
	"github.com/gnolang/gno/tm2/pkg/bft/appconn"
	"github.com/gnolang/gno/tm2/pkg/bft/mempool"
	mcfg "github.com/gnolang/gno/tm2/pkg/bft/mempool/config"
	"github.com/gnolang/gno/tm2/pkg/bft/types"
	"github.com/gnolang/gno/tm2/pkg/clist"

	"verif/sim/coop"
	"verif/sim/kernel"
)

var instrumentedPkgs = []string{
	"github.com/gnolang/gno/tm2/pkg/clist",
	"github.com/gnolang/gno/tm2/pkg/bft/mempool",
	"github.com/gnolang/gno/tm2/pkg/bft/abci/client",
}

// ---- the application --------------------------------------------------------

// tx layout: [kind, H, gas, id, padding...]
const (
	kValid      = 'v' // always valid
	kInvalid    = 'i' // never valid
	kValidUntil = 'u' // valid while app height < H
	kValidFrom  = 'f' // valid once app height >= H
)

func validAt(tx []byte, h int64) bool {
	if len(tx) < 4 {
		return false
	}
	switch tx[0] {
	case kValid:
		return true
	case kValidUntil:
		return h < int64(tx[1])
	case kValidFrom:
		return h >= int64(tx[1])
	}
	return false
}

type app struct {
	abci.BaseApplication
	height   int64
	checks   int
	rechecks int
}

func (a *app) CheckTx(req abci.RequestCheckTx) abci.ResponseCheckTx {
	if req.Type == abci.CheckTxTypeRecheck {
		a.rechecks++
	} else {
		a.checks++
	}
	if !validAt(req.Tx, a.height) {
		return abci.ResponseCheckTx{ResponseBase: abci.ResponseBase{Error: abci.StringError("invalid tx")}}
	}
	return abci.ResponseCheckTx{GasWanted: int64(req.Tx[2])}
}

func txName(tx []byte) string {
	if len(tx) < 4 {
		return fmt.Sprintf("%x", tx)
	}
	return fmt.Sprintf("%c%d#%d(g%d,%dB)", tx[0], tx[1], tx[3], tx[2], len(tx))
}

// ---- model of the LRU tx cache (only used for the cache oracles) --------------

type lru struct {
	size  int
	order []string // front = oldest
}

func (l *lru) has(tx string) bool {
	for _, t := range l.order {
		if t == tx {
			return true
		}
	}
	return false
}

func (l *lru) remove(tx string) {
	for i, t := range l.order {
		if t == tx {
			l.order = append(l.order[:i:i], l.order[i+1:]...)
			return
		}
	}
}

// push mirrors mapTxCache.Push: false (and move to back) if present.
func (l *lru) push(tx string) bool {
	if l.has(tx) {
		l.remove(tx)
		l.order = append(l.order, tx)
		return false
	}
	if len(l.order) >= l.size && len(l.order) > 0 {
		l.order = l.order[1:]
	}
	l.order = append(l.order, tx)
	return true
}

// ---- engine -------------------------------------------------------------------

type waitInfo struct {
	front bool
	elem  *clist.CElement
}

type worker struct {
	name    string
	ops     int
	waiting *waitInfo
}

type msim struct {
	evictedDup map[string]bool
	c    *kernel.Choices
	r    *kernel.Result
	p    kernel.Params
	prop string
	s    *coop.Sched

	cfg *mcfg.MempoolConfig
	app *app
	mem *mempool.CListMempool

	txs         [][]byte // the universe of txs of this run
	fresh       int      // counter for release txs
	maxTxBytes  int64
	preLimit    int // current preCheck: reject len(tx) > preLimit (0 = accept all)
	paramChange bool

	pool     []string // reference contents, arrival order
	arrivals []string // every accepted tx, in acceptance order
	cache    lru
	cacheOK  bool

	workers  map[string]*worker
	stop     bool
	knownHit map[string]bool
	nOps     int
}

// violate reports a violation unless it is a committed known finding, in which
// case the run goes on. It returns true when the run must stop.
func (m *msim) violate(oracle, format string, args ...any) bool {
	return m.violateSig(oracle, oracle, format, args...)
}

func (m *msim) violateSig(oracle, sig, format string, args ...any) bool {
	if m.stop {
		return true // the run is already over (first violation / known finding wins)
	}
	v := &kernel.Violation{Property: m.prop, Oracle: oracle, Signature: sig, Msg: fmt.Sprintf(format, args...)}
	if m.p.IsKnown(v) != nil {
		if !m.knownHit[sig] {
			m.knownHit[sig] = true
			m.r.Known = append(m.r.Known, *v)
		}
		m.r.Probe("known_finding_" + oracle)
		if oracle == "reap_over_count" {
			return false // harmless for the rest of the run
		}
		// the mempool is now in a state the reference cannot follow (e.g. it holds a
		// tx twice): end the run here instead of reporting the consequences
		m.stop = true
		return true
	}
	if m.r.Violation == nil {
		m.r.Violation = v
	}
	m.stop = true
	return true
}

func names(txs []string) string {
	var b strings.Builder
	b.WriteString("[")
	for i, t := range txs {
		if i > 0 {
			b.WriteString(" ")
		}
		b.WriteString(txName([]byte(t)))
	}
	b.WriteString("]")
	return b.String()
}

// txOf reads the transaction of a mempool list element (the element value is
// the unexported *mempoolTx; fields are found BY NAME).
func txOf(e *clist.CElement) ([]byte, int64) {
	v := reflect.ValueOf(e.Value)
	if v.Kind() != reflect.Pointer || v.Elem().Kind() != reflect.Struct {
		kernel.Harnessf("mempool list element holds %T, expected *mempoolTx", e.Value)
	}
	f := v.Elem().FieldByName("tx")
	g := v.Elem().FieldByName("gasWanted")
	if !f.IsValid() || !g.IsValid() || f.Kind() != reflect.Slice || g.Kind() != reflect.Int64 {
		kernel.Harnessf("mempoolTx no longer has fields tx []byte / gasWanted int64")
	}
	return f.Bytes(), g.Int()
}

func (m *msim) begin(w *worker, label string) {
	coop.Yield("op")
	m.s.OpBegin(label)
}

func (m *msim) end(w *worker) {
	m.s.OpEnd()
	w.ops++
	m.nOps++
}

// ---- submit ------------------------------------------------------------------

func (m *msim) checkTx(w *worker, tx []byte) {
	key := string(tx)
	m.begin(w, "CheckTx "+txName(tx))
	cbCalled := false
	err := m.mem.CheckTx(types.Tx(tx), func(res abci.Response) {
		// runs inside CheckTx, under the mempool lock
		cbCalled = true
		r, ok := res.(abci.ResponseCheckTx)
		if !ok {
			kernel.Harnessf("CheckTx callback got %T", res)
		}
		m.onAppResult(w, tx, r.Error == nil, r.GasWanted)
	})
	switch {
	case err == nil && cbCalled:
	case err == nil:
		m.r.Probe("checktx_no_err_no_callback")
		m.c.Event("%s CheckTx %s -> no error, no callback", w.name, txName(tx))
	case errors.Is(err, mempool.ErrTxInCache):
		m.r.Probe("checktx_in_cache")
		if m.cacheOK {
			if m.cache.push(key) {
				// the real cache knew the tx, the model did not: stop trusting the model
				m.cacheOK = false
				m.r.Probe("cache_model_desync")
			}
		}
		m.c.Event("%s CheckTx %s -> in cache", w.name, txName(tx))
	default:
		var full mempool.MempoolIsFullError
		var large mempool.TxTooLargeError
		switch {
		case errors.As(err, &full):
			m.r.Probe("checktx_mempool_full")
		case errors.As(err, &large):
			m.r.Probe("checktx_too_large")
		default:
			m.r.Probe("checktx_precheck_rejected")
		}
		m.c.Event("%s CheckTx %s -> %v", w.name, txName(tx), err)
	}
	m.end(w)
}

func (m *msim) onAppResult(w *worker, tx []byte, ok bool, gas int64) {
	key := string(tx)
	wasCached := m.cache.has(key)
	inPool := false
	for _, t := range m.pool {
		if t == key {
			inPool = true
		}
	}
	m.c.Event("%s CheckTx %s -> app ok=%v", w.name, txName(tx), ok)
	if m.cacheOK {
		m.cache.push(key)
		if !ok {
			m.cache.remove(key)
		}
	}
	if !ok {
		m.r.Probe("checktx_app_rejected")
		return
	}
	m.r.Probe("checktx_accepted")
	if gas != int64(tx[2]) {
		kernel.Harnessf("app gas %d for %s", gas, txName(tx))
	}
	if inPool {
		// The application accepted a tx that is still pending. Whether the mempool now
		// HOLDS it twice is decided from the real contents (oracle "duplicate" /
		// "duplicate_after_cache_eviction" in checkContents and reap_duplicate), not from
		// the callback: a mempool that ignores the second admission is correct.
		if m.cacheOK && !wasCached {
			m.r.Probe("resubmitted_after_cache_eviction_while_pending")
			m.evictedDup[key] = true
		}
		return
	} else if m.cacheOK && wasCached {
		if m.violate("reentered_while_cached", "tx %s passed the cache and was admitted although it is in the cache (cache, oldest first: %s)", txName(tx), names(m.cache.order)) {
			return
		}
	}
	m.pool = append(m.pool, key)
	m.arrivals = append(m.arrivals, key)
	if int64(len(tx)) > m.maxTxBytes {
		if m.violate("tx_too_large_admitted", "tx %s of %d bytes admitted, maxTxBytes=%d", txName(tx), len(tx), m.maxTxBytes) {
			return
		}
	}
	if len(m.pool) > m.cfg.Size {
		if m.violate("size_limit", "mempool holds %d txs, configured Size=%d", len(m.pool), m.cfg.Size) {
			return
		}
	}
	if b := poolBytes(m.pool); b > m.cfg.MaxPendingTxsBytes {
		m.violate("bytes_limit", "mempool holds %d bytes, configured MaxPendingTxsBytes=%d", b, m.cfg.MaxPendingTxsBytes)
	}
}

func poolBytes(p []string) int64 {
	var n int64
	for _, t := range p {
		n += int64(len(t))
	}
	return n
}

// ---- reaps ---------------------------------------------------------------------

// checkReap: called right after the reap returned (no yield in between).
func (m *msim) checkReap(what string, got types.Txs, maxBytes, maxGas int64, maxCount int) {
	if m.stop {
		return // the run already ended (violation or known finding): the reference is frozen
	}
	seen := map[string]bool{}
	var bytes, gas int64
	for i, t := range got {
		k := string(t)
		if seen[k] {
			if m.violate("reap_duplicate", "%s returned %s twice: %s", what, txName(t), reapNames(got)) {
				return
			}
		}
		seen[k] = true
		if i >= len(m.pool) || m.pool[i] != k {
			if m.violate("reap_not_prefix", "%s returned %s which is not a prefix of the mempool contents %s", what, reapNames(got), names(m.pool)) {
				return
			}
			break
		}
		bytes += int64(len(t))
		gas += int64(t[2])
	}
	if maxBytes > -1 && bytes > maxBytes {
		if m.violate("reap_over_bytes", "%s returned %d bytes > maxDataBytes: %s", what, bytes, reapNames(got)) {
			return
		}
	}
	if maxGas > -1 && gas > maxGas {
		if m.violate("reap_over_gas", "%s returned total gas %d > maxGas: %s", what, gas, reapNames(got)) {
			return
		}
	}
	if maxCount >= 0 && len(got) > maxCount {
		if m.violate("reap_over_count", "%s returned %d txs: %s (mempool: %s)", what, len(got), reapNames(got), names(m.pool)) {
			return
		}
	}
	// not demanded by the property, only counted: greedy maximality
	if maxCount < 0 {
		var b, g int64
		n := 0
		for _, t := range m.pool {
			if maxBytes > -1 && b+int64(len(t)) > maxBytes {
				break
			}
			if maxGas > -1 && g+int64(t[2]) > maxGas {
				break
			}
			b += int64(len(t))
			g += int64(t[2])
			n++
		}
		if len(got) < n {
			m.r.Probe("reap_shorter_than_greedy")
		}
		if n < len(m.pool) {
			m.r.Probe("reap_limited_by_bytes_or_gas")
		}
	} else if len(m.pool) > maxCount {
		m.r.Probe("reap_limited_by_count")
	}
}

func reapNames(t types.Txs) string {
	s := make([]string, len(t))
	for i := range t {
		s[i] = string(t[i])
	}
	return names(s)
}

func (m *msim) reapBytesGas(w *worker) types.Txs {
	maxBytes := []int64{-1, 30, 60, 100, 1}[m.c.Intn(5)]
	maxGas := []int64{-1, 8, 3, 20, 0}[m.c.Intn(5)]
	m.begin(w, "ReapMaxBytesMaxGas")
	got := m.mem.ReapMaxBytesMaxGas(maxBytes, maxGas)
	m.c.Event("%s ReapMaxBytesMaxGas(%d,%d) -> %s", w.name, maxBytes, maxGas, reapNames(got))
	m.r.Probe("reaps")
	m.checkReap(fmt.Sprintf("ReapMaxBytesMaxGas(%d,%d)", maxBytes, maxGas), got, maxBytes, maxGas, -1)
	m.end(w)
	return got
}

func (m *msim) reapMaxTxs(w *worker) {
	n := []int{-1, 0, 1, 2, 3, 1000}[m.c.Intn(6)]
	m.begin(w, "ReapMaxTxs")
	got := m.mem.ReapMaxTxs(n)
	m.c.Event("%s ReapMaxTxs(%d) -> %s", w.name, n, reapNames(got))
	m.r.Probe("reaps_max_txs")
	m.checkReap(fmt.Sprintf("ReapMaxTxs(%d)", n), got, -1, -1, n)
	m.end(w)
}

// ---- consensus -----------------------------------------------------------------

// walk returns the real contents; only meaningful while the caller holds the
// mempool lock (or everything else is quiescent).
func (m *msim) walk() []string {
	var out []string
	for e := m.mem.TxsFront(); e != nil; e = e.Next() {
		tx, gas := txOf(e)
		if len(tx) >= 3 && gas != int64(tx[2]) {
			m.violate("gas_mismatch", "mempool recorded gasWanted=%d for %s", gas, txName(tx))
		}
		out = append(out, string(tx))
		if len(out) > 10000 {
			m.violate("order", "walking the mempool list does not terminate (cycle)")
			break
		}
	}
	return out
}

// verifyLocked compares the real contents with the reference; caller holds the lock.
func (m *msim) verifyLocked(where string) []string {
	got := m.walk()
	if m.stop {
		return got
	}
	m.r.Probe("locked_content_checks")
	seen := map[string]bool{}
	for _, t := range got {
		if seen[t] {
			oracle := "duplicate"
			if m.evictedDup[t] {
				oracle = "duplicate_after_cache_eviction"
			}
			if m.violate(oracle, "%s: mempool holds %s twice: %s", where, txName([]byte(t)), names(got)) {
				return got
			}
		}
		seen[t] = true
	}
	if sz := m.mem.Size(); sz != len(got) {
		if m.violate("size_mismatch", "%s: Size()=%d but the list holds %d txs %s", where, sz, len(got), names(got)) {
			return got
		}
	}
	if tb := m.mem.TxsBytes(); tb != poolBytes(got) {
		if m.violate("txsbytes_mismatch", "%s: TxsBytes()=%d but the txs add up to %d bytes %s", where, tb, poolBytes(got), names(got)) {
			return got
		}
	}
	same := len(got) == len(m.pool)
	for i := 0; same && i < len(got); i++ {
		same = got[i] == m.pool[i]
	}
	if !same {
		ref := map[string]bool{}
		for _, t := range m.pool {
			ref[t] = true
		}
		for _, t := range got {
			if !ref[t] {
				m.violate("extra_tx", "%s: mempool holds %s which no CheckTx callback reported as admitted; contents %s, reference %s", where, txName([]byte(t)), names(got), names(m.pool))
				return got
			}
		}
		for _, t := range m.pool {
			if !seen[t] {
				m.violate("lost_tx", "%s: %s was admitted and neither committed nor dropped by a recheck, but is gone; contents %s, reference %s", where, txName([]byte(t)), names(got), names(m.pool))
				return got
			}
		}
		m.violate("order", "%s: mempool order %s differs from arrival order %s", where, names(got), names(m.pool))
	}
	return got
}

func (m *msim) block(w *worker, height int64) {
	c := m.c
	proposal := m.reapBytesGas(w) // CreateProposalBlock
	if m.stop {
		return
	}
	// the block that gets committed: our proposal, somebody else's, or an empty one
	var block []string
	switch c.Weighted([]int{6, 3, 1}) {
	case 0:
		for _, t := range proposal {
			block = append(block, string(t))
		}
	case 1:
		cands := append([]string(nil), m.pool...)
		for _, t := range m.txs {
			cands = append(cands, string(t))
		}
		n := c.Intn(5)
		used := map[string]bool{}
		for i := 0; i < n && len(cands) > 0; i++ {
			t := cands[c.Intn(len(cands))]
			if !used[t] {
				used[t] = true
				block = append(block, t)
			}
		}
	}
	resps := make([]abci.ResponseDeliverTx, len(block))
	valid := make([]bool, len(block))
	for i := range block {
		valid[i] = !c.Chance(1, 5)
		if !valid[i] {
			resps[i].Error = abci.StringError("deliver failed")
		}
	}
	btxs := make(types.Txs, len(block))
	for i, t := range block {
		btxs[i] = types.Tx(t)
	}

	// BlockExecutor.Commit
	m.begin(w, fmt.Sprintf("Commit h=%d", height))
	m.mem.Lock()
	coop.Yield("locked")
	if err := m.mem.FlushAppConn(); err != nil {
		kernel.Harnessf("FlushAppConn: %v", err)
	}
	before := m.verifyLocked(fmt.Sprintf("before Update(h=%d)", height))
	if m.stop {
		m.mem.Unlock()
		m.end(w)
		return
	}
	m.app.height = height // proxyApp.CommitSync
	newMax := int64(0)
	pre := mempool.PreCheckFunc(func(types.Tx) error { return nil }) // state.TxPreCheck
	if m.paramChange {
		switch c.Weighted([]int{10, 1, 1, 1}) {
		case 1:
			newMax = []int64{12, 25, 1 << 20}[c.Intn(3)]
		case 2:
			m.preLimit = []int{15, 28}[c.Intn(2)]
		case 3:
			m.preLimit = 0
		}
	}
	if m.preLimit > 0 {
		lim := m.preLimit
		pre = func(tx types.Tx) error {
			if len(tx) > lim {
				return fmt.Errorf("precheck: %d > %d bytes", len(tx), lim)
			}
			return nil
		}
	}
	if newMax != 0 {
		m.maxTxBytes = newMax
	}
	m.c.Event("%s Update h=%d block=%s valid=%v maxTxBytes=%d preLimit=%d", w.name, height, names(block), valid, newMax, m.preLimit)
	if err := m.mem.Update(height, btxs, resps, pre, newMax); err != nil {
		kernel.Harnessf("Update: %v", err)
	}
	m.r.Probe("updates")

	// what Update may and must have done
	committed := map[string]bool{}
	for i, t := range block {
		committed[t] = true
		if m.cacheOK {
			if valid[i] {
				m.cache.push(t)
			} else {
				m.cache.remove(t)
			}
		}
	}
	after := m.walk()
	if m.stop {
		m.mem.Unlock()
		m.end(w)
		return
	}
	for _, t := range after {
		if committed[t] {
			m.violate("committed_still_present", "after Update(h=%d) the committed tx %s is still in the mempool: %s", height, txName([]byte(t)), names(after))
			m.mem.Unlock()
			m.end(w)
			return
		}
	}
	// after must be a subsequence of before (nothing enters under the lock, order kept)
	j := 0
	var dropped []string
	for _, t := range before {
		if j < len(after) && after[j] == t {
			j++
		} else {
			dropped = append(dropped, t)
		}
	}
	if j != len(after) {
		m.violate("order", "Update(h=%d) changed the order or added txs: before %s after %s", height, names(before), names(after))
		m.mem.Unlock()
		m.end(w)
		return
	}
	for _, t := range dropped {
		switch {
		case committed[t]:
			m.r.Probe("committed_removed")
		case int64(len(t)) > m.maxTxBytes:
			m.r.Probe("recheck_dropped_too_large")
		case m.preLimit > 0 && len(t) > m.preLimit:
			m.r.Probe("recheck_dropped_precheck")
		case m.cfg.Recheck && !validAt([]byte(t), height):
			m.r.Probe("recheck_dropped_invalid")
			if m.cacheOK {
				m.cache.remove(t)
			}
		default:
			m.violate("lost_tx", "Update(h=%d) dropped %s which was neither committed nor invalidated; before %s after %s", height, txName([]byte(t)), names(before), names(after))
			m.mem.Unlock()
			m.end(w)
			return
		}
	}
	for _, t := range after {
		if m.cfg.Recheck && !validAt([]byte(t), height) {
			m.r.Probe("invalid_tx_survived_recheck")
		}
	}
	m.pool = append([]string(nil), after...)
	if sz := m.mem.Size(); sz != len(after) {
		m.violate("size_mismatch", "after Update(h=%d): Size()=%d but the list holds %d txs", height, sz, len(after))
	} else if tb := m.mem.TxsBytes(); tb != poolBytes(after) {
		m.violate("txsbytes_mismatch", "after Update(h=%d): TxsBytes()=%d but the txs add up to %d bytes", height, tb, poolBytes(after))
	}
	coop.Yield("locked")
	m.mem.Unlock()
	m.end(w)
}

// ---- observer / gossip --------------------------------------------------------

func (m *msim) observe(w *worker) {
	switch m.c.Weighted([]int{4, 2, 2, 1}) {
	case 0:
		m.reapMaxTxs(w)
	case 1:
		m.begin(w, "Size")
		n := m.mem.Size()
		m.end(w)
		if n < 0 || n > m.cfg.Size {
			m.violate("size_limit", "Size()=%d, configured Size=%d", n, m.cfg.Size)
		}
	case 2:
		m.begin(w, "TxsBytes")
		b := m.mem.TxsBytes()
		m.end(w)
		if b < 0 || b > m.cfg.MaxPendingTxsBytes {
			m.violate("bytes_limit", "TxsBytes()=%d, configured MaxPendingTxsBytes=%d", b, m.cfg.MaxPendingTxsBytes)
		}
	case 3:
		m.reapBytesGas(w)
	}
}

// gossip is the reactor's broadcastTxRoutine without the peer: every pass must
// see admitted txs in admission order.
func (m *msim) gossip(w *worker, steps int) {
	var next *clist.CElement
	var pass []string
	endPass := func() {
		if len(pass) == 0 {
			return
		}
		// pass must be a subsequence of arrivals
		j := 0
		for _, a := range m.arrivals {
			if j < len(pass) && pass[j] == a {
				j++
			}
		}
		if j != len(pass) {
			known := false
			for _, a := range m.arrivals {
				if a == pass[j] {
					known = true
				}
			}
			if !known {
				m.violate("gossip_unknown_tx", "the gossip routine met %s which was never admitted", txName([]byte(pass[j])))
			} else {
				m.violate("gossip_order", "the gossip routine saw %s, which is not in admission order %s", names(pass), names(m.arrivals))
			}
		}
		m.r.Probe("gossip_passes")
		pass = nil
	}
	for i := 0; i < steps && !m.stop; i++ {
		if next == nil {
			endPass()
			m.begin(w, "gossip TxsWaitChan")
			w.waiting = &waitInfo{front: true}
			coop.WaitClosed("TxsWaitChan", m.mem.TxsWaitChan())
			w.waiting = nil
			next = m.mem.TxsFront()
			m.end(w)
			if next == nil {
				continue
			}
		}
		tx, _ := txOf(next)
		pass = append(pass, string(tx))
		m.r.Probe("gossip_txs_seen")
		m.begin(w, "gossip NextWaitChan "+txName(tx))
		w.waiting = &waitInfo{elem: next}
		coop.WaitClosed("NextWaitChan", next.NextWaitChan())
		w.waiting = nil
		next = next.Next()
		m.end(w)
	}
	endPass()
}

// ---- run -----------------------------------------------------------------------

func runMempool(c *kernel.Choices, p kernel.Params) *kernel.Result {
	coop.RequireInstrumented(instrumentedPkgs...)
	m := &msim{c: c, r: kernel.NewResult(), p: p, prop: p.Property, workers: map[string]*worker{}, knownHit: map[string]bool{}, evictedDup: map[string]bool{}}
	m.s = coop.New(c)
	switch p.Knob("locklevel", "mix") {
	case "0":
		m.s.YieldSync, m.s.YieldAnchors = false, false
	case "1":
	default:
		if !c.Chance(1, 3) {
			m.s.YieldSync, m.s.YieldAnchors = false, false
		}
	}
	if m.s.YieldSync {
		m.r.Probe("runs_lock_level")
	} else {
		m.r.Probe("runs_op_level")
	}
	m.s.SleepLimit = 300
	// paramchange=1 lets the consensus task pass a smaller maxTxBytes / a rejecting
	// preCheck to Update (a consensus-parameter change). Off by default: on the
	// unchanged tree it makes recheckTxs panic or wedge (it drops the offending tx
	// without advancing recheckCursor), which the C40 statement does not speak about.
	m.paramChange = p.KnobInt("paramchange", 0) == 1

	m.cfg = mcfg.TestMempoolConfig()
	m.cfg.Size = []int{1000, 3, 5, 8}[c.Intn(4)]
	m.cfg.MaxPendingTxsBytes = []int64{1 << 30, 60, 120}[c.Intn(3)]
	caches := []int{1000, 3, 6, 2}
	if p.KnobInt("cache0", 0) == 1 {
		caches = append(caches, 0)
	}
	m.cfg.CacheSize = caches[c.Intn(len(caches))]
	m.cfg.Recheck = c.Bool()
	m.maxTxBytes = []int64{1 << 20, 20, 30}[c.Intn(3)]
	m.cache = lru{size: m.cfg.CacheSize}
	m.cacheOK = m.cfg.CacheSize > 0

	m.app = &app{}
	cli := abcicli.NewLocalClient(nil, m.app)
	m.mem = mempool.NewCListMempool(m.cfg, appconn.NewMempool(cli), 0, m.maxTxBytes)
	if c.Bool() {
		m.mem.EnableTxsAvailable()
	}

	// universe of txs
	ntx := 4 + c.Intn(10)
	for i := 0; i < ntx; i++ {
		kind := []byte{kValid, kValid, kValid, kValidUntil, kValidUntil, kInvalid, kValidFrom}[c.Intn(7)]
		h := byte(1 + c.Intn(3))
		gas := []byte{1, 0, 2, 3, 5, 8}[c.Intn(6)]
		size := 4 + []int{0, 3, 10, 18, 30}[c.Intn(5)]
		tx := make([]byte, size)
		tx[0], tx[1], tx[2], tx[3] = kind, h, gas, byte(i)
		for j := 4; j < size; j++ {
			tx[j] = byte(i)
		}
		m.txs = append(m.txs, tx)
	}
	c.Event("cfg size=%d maxbytes=%d cache=%d recheck=%v maxTxBytes=%d txs=%d locklevel=%v", m.cfg.Size, m.cfg.MaxPendingTxsBytes,
		m.cfg.CacheSize, m.cfg.Recheck, m.maxTxBytes, ntx, m.s.YieldSync)

	nsub := 1 + c.Intn(3)
	for i := 0; i < nsub; i++ {
		w := &worker{name: fmt.Sprintf("sub%d", i)}
		m.workers[w.name] = w
		n := 2 + c.Intn(8)
		m.s.Go(w.name, func() {
			for k := 0; k < n && !m.stop; k++ {
				m.checkTx(w, m.txs[c.Intn(len(m.txs))])
			}
		})
	}
	{
		w := &worker{name: "consensus"}
		m.workers[w.name] = w
		nb := 1 + c.Intn(4)
		m.s.Go(w.name, func() {
			for h := int64(1); h <= int64(nb) && !m.stop; h++ {
				m.block(w, h)
			}
		})
	}
	if c.Bool() {
		w := &worker{name: "observer"}
		m.workers[w.name] = w
		n := 1 + c.Intn(6)
		m.s.Go(w.name, func() {
			for k := 0; k < n && !m.stop; k++ {
				m.observe(w)
			}
		})
	}
	if c.Bool() {
		w := &worker{name: "gossip"}
		m.workers[w.name] = w
		n := 1 + c.Intn(8)
		m.s.Go(w.name, func() { m.gossip(w, n) })
	}

	m.runAll()

	if !m.stop {
		// final quiescent comparison
		w := &worker{name: "final"}
		m.workers[w.name] = w
		m.s.Go(w.name, func() {
			m.begin(w, "final check")
			m.mem.Lock()
			m.verifyLocked("end of run")
			m.mem.Unlock()
			m.end(w)
		})
		m.runAll()
	}

	st := m.s.Stats
	m.r.Steps = m.s.Steps
	m.r.ProbeN("ctx_switches", st.Switches)
	m.r.ProbeN("midop_switches", st.MidOpSwitches)
	m.r.ProbeN("blocked_on_lock", st.BlocksOnLock)
	m.r.ProbeN("blocked_on_wait", st.BlocksOnWait)
	m.r.ProbeN("waits_satisfied_by_wakeup", st.Wakeups)
	m.r.ProbeN("sync_yields", st.SyncYields)
	m.r.ProbeN("anchor_yields", st.AnchorYields)
	m.r.ProbeN("sleep_yields", st.Sleeps)
	m.r.ProbeN("ops", m.nOps)
	m.r.ProbeN("app_rechecks", m.app.rechecks)
	if !m.cacheOK && m.cfg.CacheSize > 0 {
		m.r.Probe("runs_cache_model_dropped")
	}
	m.s.Kill()

	active := 0
	for _, k := range kernel.SortedKeys(m.workers) {
		if m.workers[k].ops > 0 {
			active++
		}
	}
	m.r.Nontrivial = active >= 2 && st.MidOpSwitches >= 1 && len(m.arrivals) >= 1
	m.r.Sample = map[string]any{"ops": m.nOps, "steps": m.s.Steps, "admitted": len(m.arrivals),
		"first_events": c.Log[:min(len(c.Log), 25)]}
	return m.r
}

func (m *msim) runAll() {
	const maxSteps = 60000
	releases := 0
	for round := 0; ; round++ {
		if round > 100 {
			kernel.Harnessf("coop_mempool: %d release rounds without termination", round)
		}
		err := m.s.Run(maxSteps)
		if m.stop {
			return
		}
		switch x := err.(type) {
		case nil:
			return
		case *coop.Livelock:
			m.r.Probe("wedged")
			m.violate("reap_wedged", "task %s spins in %q: it sleeps waiting for a recheck that never completes (rechecking stays set)", x.Task, x.Label)
			m.stop = true
			return
		case *coop.StepLimit:
			kernel.Harnessf("coop_mempool: %v (livelock in the harness?)", x)
		case *coop.TaskPanic:
			m.r.Probe("panics")
			first := strings.SplitN(fmt.Sprint(x.Value), "\n", 2)[0]
			m.violateSig("panic", "panic: "+first, "mempool panicked in task %s during %q: %v", x.Task, x.Label, x.Value)
			m.stop = true // the mempool is in an undefined state
			return
		case *coop.Deadlock:
			m.r.Probe("quiescent_points")
			var waiters []*worker
			for _, b := range x.Blocked {
				w := m.workers[b.Name]
				if strings.HasPrefix(b.What, "Mutex") || strings.HasPrefix(b.What, "RWMutex") || w == nil || w.waiting == nil {
					m.r.Probe("deadlocks")
					m.violate("deadlock", "%s", x.Error())
					m.stop = true
					return
				}
				waiters = append(waiters, w)
			}
			releases++
			w := &worker{name: fmt.Sprintf("release%d", releases)}
			m.workers[w.name] = w
			m.s.Go(w.name, func() { m.release(w, waiters) })
		default:
			kernel.Harnessf("coop_mempool: unexpected scheduler error %v", err)
		}
	}
}

// release runs when only gossip waiters are left: a waiter whose element exists
// has lost its wake-up; legitimate waiters are released by one more admitted tx
// (or, if the mempool refuses it, by committing everything).
func (m *msim) release(w *worker, waiters []*worker) {
	for _, gw := range waiters {
		wi := gw.waiting
		m.r.Probe("waiter_checked")
		if wi.front {
			if n := m.mem.Size(); n > 0 {
				m.r.Probe("lost_wakeups")
				m.violate("lost_wakeup", "task %s is still blocked on TxsWaitChan although the mempool holds %d txs and nothing else can run", gw.name, n)
				m.stop = true
				return
			}
		} else if wi.elem.Next() != nil || wi.elem.Removed() {
			tx, _ := txOf(wi.elem)
			m.r.Probe("lost_wakeups")
			m.violate("lost_wakeup", "task %s is still blocked on NextWaitChan of %s although it has next=%v removed=%v and nothing else can run",
				gw.name, txName(tx), wi.elem.Next() != nil, wi.elem.Removed())
			m.stop = true
			return
		}
	}
	m.fresh++
	tx := []byte{kValid, 0, 1, byte(200 + m.fresh%50), byte(m.fresh)}
	n := len(m.arrivals)
	m.checkTx(w, tx)
	if m.stop || len(m.arrivals) > n {
		m.r.Probe("waiter_released_by_tx")
		return
	}
	// refused (full / too large): commit everything instead, which removes the tail the waiters stand on
	m.begin(w, "release commit")
	m.mem.Lock()
	all := m.verifyLocked("release")
	btxs := make(types.Txs, len(all))
	for i, t := range all {
		btxs[i] = types.Tx(t)
		if m.cacheOK {
			m.cache.push(t)
		}
	}
	m.app.height++
	if err := m.mem.Update(m.app.height+100, btxs, make([]abci.ResponseDeliverTx, len(all)), nil, 1<<20); err != nil {
		kernel.Harnessf("Update: %v", err)
	}
	m.maxTxBytes = 1 << 20
	m.pool = nil
	if rest := m.walk(); len(rest) != 0 {
		m.violate("committed_still_present", "after committing the whole mempool it still holds %s", names(rest))
	}
	m.mem.Unlock()
	m.end(w)
	m.r.Probe("waiter_released_by_commit")
}
