// Engine privval (property C34, single-validator part): the real
// privval.PrivValidator + state.FileState (CheckHRS, timestamp-only re-sign,
// Update/save through osm.WriteFileAtomic) on real files in a per-run scratch
// directory, with a harness signer behind the types.Signer seam.
//
// A run = a seeded history of vote / proposal sign requests (fresh HRS, exact
// repeat, timestamp-only change, conflicting block / chain id / POL round at
// the same HRS, height / round / step regressions, requests between the last
// released and the last attempted HRS) interleaved with crash + restart:
//
//   - crash before the signer produced a signature (signer seam panics);
//   - crash after the signature was produced, before the state was saved;
//   - crash DURING the save: WriteFileAtomic is open(temp,O_EXCL|O_SYNC) ->
//     write -> close -> rename(temp, state file). Every directory state that
//     sequence can leave behind is produced by replaying those steps by hand:
//     old file only; old + empty temp; old + partially written temp; old +
//     complete temp; new file (renamed, call not yet returned). ALL of them are
//     enumerated for each such save on side copies (restart through the real
//     constructor + a fixed battery of conflicting / regressing requests); one
//     drawn image continues the main timeline;
//   - plain restart after a signature was released.
//
// A fraction of the runs (knob prockill, per mille, chosen by the run seed) does
// not use those hand-made images at all: prockill.go runs the same real code in
// a child process and SIGKILLs it on entry of a seed-chosen REAL system call
// (strace fault injection); what the killed process left on disk is the image.
//
// Oracle, over RELEASED signatures only (Sign* returned nil to the caller):
// one sign-bytes and one signature per (height, round, step) for ever; no
// release below the highest released HRS; a timestamp-only re-request of the
// latest release returns the original signature and timestamp.
package privval

import (
	"bytes"
	"fmt"
	"os"
	"path/filepath"
	"strings"
	"sync/atomic"
	"syscall"
	"time"

	pvm "github.com/gnolang/gno/tm2/pkg/bft/privval"
	"github.com/gnolang/gno/tm2/pkg/bft/types"
	"github.com/gnolang/gno/tm2/pkg/crypto"

	"verif/sim/kernel"
)

// ---------------------------------------------------------------- signer seam

type crashSentinel struct{ where string }

const (
	sigNormal = iota
	sigCrashBefore
	sigCrashAfter
)

// faultSigner is the harness signer (stub component): deterministic ed25519,
// can kill the process right before or right after producing a signature.
type faultSigner struct {
	key   crypto.PrivKey
	mode  int
	calls int
}

func (f *faultSigner) String() string        { return "harness-signer" }
func (f *faultSigner) PubKey() crypto.PubKey { return f.key.PubKey() }
func (f *faultSigner) Close() error          { return nil }
func (f *faultSigner) Sign(b []byte) ([]byte, error) {
	f.calls++
	if f.mode == sigCrashBefore {
		f.mode = sigNormal
		panic(crashSentinel{"before_sign"})
	}
	sig, err := f.key.Sign(b)
	if f.mode == sigCrashAfter {
		f.mode = sigNormal
		panic(crashSentinel{"after_sign_before_save"})
	}
	return sig, err
}

// ---------------------------------------------------------------- requests

type hrs struct {
	h int64
	r int
	s int // 1 propose, 2 prevote, 3 precommit
}

func (a hrs) cmp(b hrs) int {
	switch {
	case a.h != b.h:
		if a.h < b.h {
			return -1
		}
		return 1
	case a.r != b.r:
		if a.r < b.r {
			return -1
		}
		return 1
	case a.s != b.s:
		if a.s < b.s {
			return -1
		}
		return 1
	}
	return 0
}

func (a hrs) String() string { return fmt.Sprintf("%d/%d/%d", a.h, a.r, a.s) }

type req struct {
	at     hrs
	blk    int // 0 nil, 1 A, 2 B
	pol    int // proposals: POLRound
	ts     int // timestamp selector
	chain  int // 0 main chain id, 1 another
	valIdx int // votes: not part of the sign bytes
	kind   string
	tsOnly bool // generated as "latest release, only the timestamp differs"
}

var chains = []string{"sim-chain", "sim-chain-2"}

var baseTime = time.Date(2026, 1, 2, 3, 4, 5, 0, time.UTC)

func tsOf(sel int) time.Time {
	switch {
	case sel < 0:
		return time.Time{}
	case sel%3 == 2:
		return baseTime.Add(time.Duration(sel)*time.Second + 123456789)
	}
	return baseTime.Add(time.Duration(sel) * time.Second)
}

func blockID(b int) types.BlockID {
	if b == 0 {
		return types.BlockID{}
	}
	return types.BlockID{
		Hash:        bytes.Repeat([]byte{byte(0x40 + b)}, 32),
		PartsHeader: types.PartSetHeader{Total: b, Hash: bytes.Repeat([]byte{byte(0x60 + b)}, 32)},
	}
}

func (q req) String() string {
	return fmt.Sprintf("%s@%s blk=%d pol=%d ts=%d chain=%d", q.kind, q.at, q.blk, q.pol, q.ts, q.chain)
}

// ---------------------------------------------------------------- timeline

type rel struct {
	sb  []byte
	sig []byte
	ts  time.Time
	q   req
}

// tl is one timeline: a validator directory + the oracle's memory of what that
// validator has released. Side branches clone it.
type tl struct {
	name      string
	dir, path string
	signer    *faultSigner
	pv        *pvm.PrivValidator
	released  map[hrs]rel
	maxRel    hrs
	hasRel    bool
	maxIssued hrs
	dead      bool // restart refused the state file
}

func (t *tl) hasRelAt(at hrs) bool { _, ok := t.released[at]; return ok }

type psim struct {
	c    *kernel.Choices
	r    *kernel.Result
	p    kernel.Params
	prop string
	stop bool

	root   string
	key    crypto.PrivKey
	tmpCtr int
	nRel   int
}

var runCounter atomic.Int64

func (s *psim) fail(oracle, format string, args ...any) {
	if s.r.Violation == nil {
		s.c.Event("VIOLATION %s", oracle)
	}
	s.r.Fail(s.prop, oracle, format, args...)
	s.stop = true
}

const stateFile = "priv_validator_state.json"

func (s *psim) newSigner() *faultSigner { return &faultSigner{key: s.key} }

// restart = what production does: construct the validator again from the files.
func (s *psim) restart(t *tl, why string) {
	t.signer = s.newSigner()
	var pv *pvm.PrivValidator
	var err error
	var pan any
	func() {
		defer func() {
			if r := recover(); r != nil {
				pan = r
			}
		}()
		pv, err = pvm.NewPrivValidator(t.signer, t.path)
	}()
	if pan != nil {
		// C34 does not promise recovery; a validator that cannot start signs nothing.
		s.r.Probe("restart_panicked")
		s.c.Event("[%s] restart (%s): constructor panicked: %v", t.name, why, strings.ReplaceAll(fmt.Sprint(pan), s.root, "$ROOT"))
		t.dead = true
		return
	}
	if err != nil {
		s.r.Probe("restart_refused_state_file")
		s.c.Event("[%s] restart (%s): constructor error: %v", t.name, why, strings.ReplaceAll(err.Error(), s.root, "$ROOT"))
		t.dead = true
		return
	}
	t.pv = pv
	s.c.Event("[%s] restart (%s): %v", t.name, why, pv)
}

func (s *psim) clone(t *tl, name string) *tl {
	n := &tl{name: name, released: make(map[hrs]rel, len(t.released)), maxRel: t.maxRel, hasRel: t.hasRel, maxIssued: t.maxIssued}
	for k, v := range t.released {
		n.released[k] = v
	}
	s.tmpCtr++
	n.dir = filepath.Join(s.root, fmt.Sprintf("branch%d", s.tmpCtr))
	n.path = filepath.Join(n.dir, stateFile)
	if err := os.MkdirAll(n.dir, 0o700); err != nil {
		kernel.Harnessf("mkdir: %v", err)
	}
	return n
}

// build turns a request into the message the validator is asked to sign.
func (s *psim) build(q req) (chainID string, vote *types.Vote, prop *types.Proposal, reqSB []byte) {
	chainID = chains[q.chain]
	if q.at.s == 1 {
		prop = &types.Proposal{Type: types.ProposalType, Height: q.at.h, Round: q.at.r, POLRound: q.pol, BlockID: blockID(q.blk), Timestamp: tsOf(q.ts)}
		reqSB = prop.SignBytes(chainID)
	} else {
		typ := types.PrevoteType
		if q.at.s == 3 {
			typ = types.PrecommitType
		}
		vote = &types.Vote{Type: typ, Height: q.at.h, Round: q.at.r, BlockID: blockID(q.blk), Timestamp: tsOf(q.ts),
			ValidatorAddress: s.key.PubKey().Address(), ValidatorIndex: q.valIdx}
		reqSB = vote.SignBytes(chainID)
	}
	return
}

// signBytesWithTS: the sign bytes of request q with its timestamp replaced.
func (s *psim) signBytesWithTS(q req, ts time.Time) []byte {
	chainID, vote, prop, _ := s.build(q)
	if prop != nil {
		prop.Timestamp = ts
		return prop.SignBytes(chainID)
	}
	vote.Timestamp = ts
	return vote.SignBytes(chainID)
}

// outcome is what the caller of Sign* observed: a panic, an error, or a
// released message (sign bytes of the returned message, signature, timestamp).
type outcome struct {
	pan any
	err error
	sb  []byte
	sig []byte
	ts  time.Time
}

// sign issues one request to the timeline's validator and applies the oracle.
// Returns "released", "refused", "crash:<where>" or "panic".
func (s *psim) sign(t *tl, q req, sigMode int) (out string, detail string) {
	chainID, vote, prop, reqSB := s.build(q)
	issuedBefore := t.maxIssued
	if q.at.cmp(t.maxIssued) > 0 {
		t.maxIssued = q.at
	}
	t.signer.mode = sigMode
	var o outcome
	func() {
		defer func() {
			if r := recover(); r != nil {
				o.pan = r
			}
		}()
		if prop != nil {
			o.err = t.pv.SignProposal(chainID, prop)
		} else {
			o.err = t.pv.SignVote(chainID, vote)
		}
	}()
	t.signer.mode = sigNormal
	if o.pan == nil && o.err == nil {
		if prop != nil {
			o.sb, o.sig, o.ts = prop.SignBytes(chainID), prop.Signature, prop.Timestamp
		} else {
			o.sb, o.sig, o.ts = vote.SignBytes(chainID), vote.Signature, vote.Timestamp
		}
	}
	return s.judge(t, q, reqSB, issuedBefore, o)
}

// judge is the C34 oracle over one observed outcome (t.maxIssued has already
// been raised to q.at; issuedBefore is its value before this request).
func (s *psim) judge(t *tl, q req, reqSB []byte, issuedBefore hrs, o outcome) (out string, detail string) {
	pan, err := o.pan, o.err
	if pan != nil {
		if cs, ok := pan.(crashSentinel); ok {
			return "crash:" + cs.where, ""
		}
		// a panic releases nothing; the process is gone
		s.r.Probe("sign_call_panicked")
		return "panic", fmt.Sprint(pan)
	}
	if err != nil {
		if q.tsOnly && q.at == issuedBefore {
			if old, ok := t.released[q.at]; ok {
				s.fail("timestamp_only_refused", "[%s] %v differs from the released %v only by its timestamp, and %v is the highest HRS ever requested, but the validator answered %q instead of returning the original signature and timestamp",
					t.name, q, old.q, q.at, err)
			}
		}
		cls := "other"
		for _, k := range []string{"height regression", "round regression", "step regression", "same HRS with conflicting data", "no SignBytes set"} {
			if strings.Contains(err.Error(), k) {
				cls = strings.ReplaceAll(k, " ", "_")
			}
		}
		s.r.Probe("refused:" + cls)
		if q.at.cmp(issuedBefore) > 0 {
			// not a C34 matter (C34 is pure safety), but a validator that refuses a
			// request above everything it was ever asked is not exercising anything
			s.r.Probe("fresh_request_above_all_refused")
		}
		if t.released != nil && q.at.cmp(t.maxIssued) == 0 && issuedBefore == q.at && !t.hasRelAt(q.at) && cls == "same_HRS_with_conflicting_data" {
			s.r.Probe("conflict_with_persisted_but_unreleased_signature_refused")
		}
		return "refused", err.Error()
	}
	// ---- released
	sb, sig, ts := o.sb, o.sig, o.ts
	s.nRel++
	if !s.key.PubKey().VerifyBytes(sb, sig) {
		s.fail("released_signature_invalid", "[%s] %v: Sign* returned nil but the returned signature does not verify over the returned message (timestamp %v)", t.name, q, ts)
		return "released", ""
	}
	if old, ok := t.released[q.at]; ok {
		if !bytes.Equal(old.sb, sb) || !bytes.Equal(old.sig, sig) {
			s.fail("double_sign", "[%s] two different signed messages released for HRS %v: first %v (ts %v), now %v (returned ts %v); sign-bytes equal=%v signature equal=%v",
				t.name, q.at, old.q, old.ts, q, ts, bytes.Equal(old.sb, sb), bytes.Equal(old.sig, sig))
			return "released", ""
		}
		if !bytes.Equal(reqSB, sb) {
			s.r.Probe("timestamp_only_resign_returned_original")
		} else {
			s.r.Probe("identical_resign_returned_original")
		}
	} else {
		if !bytes.Equal(reqSB, sb) {
			// C34 allows exactly one alteration: "the same message with a different timestamp"
			// gets the ORIGINAL signature and timestamp - also when the original was persisted
			// by a process that died before releasing it (first release for the oracle)
			if !bytes.Equal(s.signBytesWithTS(q, ts), sb) {
				s.fail("released_message_altered", "[%s] %v: first release for this HRS but the returned message differs from the requested one by more than its timestamp", t.name, q)
				return "released", ""
			}
			s.r.Probe("first_release_carried_persisted_unreleased_timestamp")
		}
		t.released[q.at] = rel{sb: sb, sig: sig, ts: ts, q: q}
	}
	if t.hasRel && q.at.cmp(t.maxRel) < 0 {
		s.fail("hrs_regression", "[%s] signature released for HRS %v after a signature for the higher HRS %v had been released", t.name, q.at, t.maxRel)
		return "released", ""
	}
	if q.tsOnly {
		if old := t.released[q.at]; !ts.Equal(old.ts) {
			s.fail("timestamp_not_original", "[%s] %v: returned timestamp %v, original %v", t.name, q, ts, old.ts)
		}
	}
	if !t.hasRel || q.at.cmp(t.maxRel) > 0 {
		t.maxRel, t.hasRel = q.at, true
	}
	return "released", ""
}

// ---------------------------------------------------------------- crash images of WriteFileAtomic

const (
	imgOld = iota
	imgOldTempEmpty
	imgOldTempPartial
	imgOldTempFull
	imgNew
	nImages
)

var imgNames = []string{"old_file", "old_file+empty_temp", "old_file+partial_temp", "old_file+complete_temp", "new_file(renamed,not_returned)"}

// replayAtomicWrite leaves in dir the state that osm.WriteFileAtomic(path, nw)
// leaves when the process dies after `upto` of its steps, starting from a
// directory holding old (nil = no state file).
func (s *psim) replayAtomicWrite(dir string, old, nw []byte, img int, cut int) {
	path := filepath.Join(dir, stateFile)
	os.Remove(path)
	if old != nil {
		if err := os.WriteFile(path, old, 0o600); err != nil {
			kernel.Harnessf("write image: %v", err)
		}
	}
	if img == imgOld {
		return
	}
	s.tmpCtr++
	tmp := filepath.Join(dir, fmt.Sprintf("write-file-atomic-%019d", s.tmpCtr))
	f, err := os.OpenFile(tmp, os.O_WRONLY|os.O_CREATE|os.O_SYNC|os.O_TRUNC|os.O_EXCL, 0o600) // step 1: open temp
	if err != nil {
		kernel.Harnessf("temp: %v", err)
	}
	defer f.Close()
	switch img {
	case imgOldTempEmpty:
		return
	case imgOldTempPartial:
		f.Write(nw[:cut]) // step 2 interrupted
		return
	}
	if _, err := f.Write(nw); err != nil { // step 2: write (O_SYNC)
		kernel.Harnessf("temp write: %v", err)
	}
	if img == imgOldTempFull {
		return
	}
	f.Close()                                    // step 3: close
	if err := os.Rename(tmp, path); err != nil { // step 4: rename
		kernel.Harnessf("rename: %v", err)
	}
}

func inode(path string) uint64 {
	if fi, err := os.Stat(path); err == nil {
		if st, ok := fi.Sys().(*syscall.Stat_t); ok {
			return st.Ino
		}
	}
	return 0
}

func readOrNil(path string) []byte {
	b, err := os.ReadFile(path)
	if err != nil {
		return nil
	}
	return b
}

// batteryReqs lists the adversarial requests around an interrupted attempt
// (nil = the process died outside any request) and the last release.
func batteryReqs(attemptp *req, lastRel *req) []req {
	qs := []req{}
	if attemptp != nil {
		c := *attemptp
		c.blk = (attemptp.blk + 1) % 3
		c.kind, c.tsOnly = "conflict-with-unreleased-attempt", false
		qs = append(qs, c)
	}
	if lastRel != nil {
		x := *lastRel
		x.blk = (lastRel.blk + 1) % 3
		x.kind, x.tsOnly = "conflict-with-last-release", false
		qs = append(qs, x)
		y := *lastRel
		y.ts = lastRel.ts + 1
		y.kind, y.tsOnly = "ts-only-of-last-release", true
		qs = append(qs, y)
		if lastRel.at.s > 1 {
			z := *lastRel
			z.at.s--
			z.kind, z.tsOnly = "step-regression", false
			qs = append(qs, z)
		}
		if lastRel.at.h > 0 {
			z := *lastRel
			z.at.h--
			z.kind, z.tsOnly = "height-regression", false
			qs = append(qs, z)
		}
	}
	if attemptp != nil {
		attempt := *attemptp
		a := attempt
		a.kind = "attempt-again"
		qs = append(qs, a)
		c2 := attempt
		c2.blk = (attempt.blk + 2) % 3
		c2.kind, c2.tsOnly = "conflict-after-attempt-again", false
		qs = append(qs, c2)
	}
	return qs
}

// battery: what a restarted validator is asked right after a crash around the
// save of `attempt` (never released): conflicting and regressing requests.
func (s *psim) battery(t *tl, attempt req, lastRel *req) {
	qs := batteryReqs(&attempt, lastRel)
	for _, q := range qs {
		if s.stop || t.dead {
			return
		}
		out, det := s.sign(t, q, sigNormal)
		s.c.Event("[%s]   %v -> %s %s", t.name, q, out, det)
		if out == "panic" {
			s.restart(t, "after panic")
		}
	}
}

// ---------------------------------------------------------------- generator

func (s *psim) freshAfter(base hrs) hrs {
	c := s.c
	n := base
	switch c.Weighted([]int{5, 3, 3}) {
	case 0: // next step(s)
		if n.s < 3 {
			n.s += 1 + c.Intn(3-n.s)
		} else {
			n.r++
			n.s = 1 + c.Intn(3)
		}
	case 1: // later round
		n.r += 1 + c.Intn(2)
		n.s = 1 + c.Intn(3)
	default: // later height
		n.h += 1 + int64(c.Intn(2))
		n.r = c.Intn(2)
		n.s = 1 + c.Intn(3)
	}
	return n
}

func (s *psim) drawTS() int {
	if s.c.Chance(1, 12) {
		return -1 // zero time
	}
	return s.c.Intn(6)
}

func (s *psim) gen(t *tl) req {
	c := s.c
	var last *rel
	if t.hasRel {
		l := t.released[t.maxRel]
		last = &l
	}
	w := []int{10, 3, 4, 4, 2, 3, 2}
	if last == nil {
		w = []int{1, 0, 0, 0, 0, 0, 0}
	}
	switch c.Weighted(w) {
	case 1: // exact repeat of the latest release (non-canonical field may differ)
		q := last.q
		q.kind, q.tsOnly = "repeat", false
		q.valIdx = c.Intn(3)
		return q
	case 2: // only the timestamp differs
		q := last.q
		q.kind, q.tsOnly = "ts-only", true
		for q.ts == last.q.ts {
			q.ts = last.q.ts + 1 + c.Intn(4)
		}
		return q
	case 3: // same HRS, other block
		q := last.q
		q.kind, q.tsOnly = "conflict-block", false
		q.blk = (q.blk + 1 + c.Intn(2)) % 3
		if c.Bool() {
			q.ts = s.drawTS()
		}
		return q
	case 4: // same HRS, other chain id / POL round
		q := last.q
		q.kind, q.tsOnly = "conflict-chain", false
		if q.at.s == 1 && c.Bool() {
			q.kind = "conflict-pol"
			q.pol++
		} else {
			q.chain = 1 - q.chain
		}
		return q
	case 5: // regression below the latest release
		q := req{at: t.maxRel, blk: c.Intn(3), ts: s.drawTS(), pol: -1, kind: "regress"}
		switch c.Intn(3) {
		case 0:
			if q.at.s > 1 {
				q.at.s -= 1 + c.Intn(q.at.s-1)
				q.kind = "regress-step"
				break
			}
			fallthrough
		case 1:
			if q.at.r > 0 {
				q.at.r -= 1 + c.Intn(q.at.r)
				q.at.s = 1 + c.Intn(3)
				q.kind = "regress-round"
				break
			}
			fallthrough
		default:
			if q.at.h > 0 {
				q.at.h -= 1 + int64(c.Intn(int(min(q.at.h, 2))))
				q.at.r = c.Intn(3)
				q.at.s = 1 + c.Intn(3)
				q.kind = "regress-height"
			} else if q.at.s > 1 {
				q.at.s--
				q.kind = "regress-step"
			} else {
				q.at = s.freshAfter(t.maxIssued)
				q.kind = "fresh"
			}
		}
		return q
	case 6: // above the latest release but not above the latest attempt
		q := req{at: s.freshAfter(t.maxRel), blk: c.Intn(3), ts: s.drawTS(), pol: -1 + c.Intn(2), kind: "fresh-after-last-release"}
		return q
	}
	base := t.maxIssued
	return req{at: s.freshAfter(base), blk: c.Intn(3), ts: s.drawTS(), pol: -1 + c.Intn(2), valIdx: c.Intn(3), kind: "fresh"}
}

// ---------------------------------------------------------------- run

func runPrivval(c *kernel.Choices, p kernel.Params) *kernel.Result {
	s := &psim{c: c, r: kernel.NewResult(), p: p, prop: p.Property}
	scratch := os.Getenv("VERIF_SCRATCH")
	if scratch == "" {
		scratch = "/dev/shm"
	}
	s.root = filepath.Join(scratch, fmt.Sprintf("pv-%d-%d", os.Getpid(), runCounter.Add(1)))
	os.RemoveAll(s.root)
	defer os.RemoveAll(s.root)
	s.key = engineKey()

	// a fraction of the runs (knob prockill, per mille; a function of the run seed) crash the
	// real code at real system-call boundaries by killing a child process: prockill.go
	if pm := p.KnobInt("prockill", pkDefaultPermille); pm > 0 && pkSelected(c.Seed, pm) {
		if strace, self := pkStracePath(); strace == "" || self == "" {
			s.r.Probe("prockill_unavailable")
		} else {
			if err := os.MkdirAll(s.root, 0o700); err != nil {
				kernel.Harnessf("mkdir: %v", err)
			}
			return s.runProcKill()
		}
	}

	main := &tl{name: "main", released: map[hrs]rel{}}
	main.dir = filepath.Join(s.root, "main")
	main.path = filepath.Join(main.dir, stateFile)
	if err := os.MkdirAll(main.dir, 0o700); err != nil {
		kernel.Harnessf("mkdir: %v", err)
	}
	renameLost := p.Knob("rename_not_durable", "0") == "1"

	// first start; optionally a crash during the very first save (file creation)
	if c.Chance(1, 6) {
		s.restart(main, "first start")
		nw := readOrNil(main.path)
		if nw == nil {
			kernel.Harnessf("constructor did not create the state file")
		}
		img := c.Intn(nImages)
		cut := 0
		if img == imgOldTempPartial {
			cut = 1 + c.Intn(len(nw)-1)
		}
		s.replayAtomicWrite(main.dir, nil, nw, img, cut)
		s.r.Fault("crash_in_first_save:" + imgNames[img])
		c.Event("CRASH during creation of the state file, image=%s cut=%d", imgNames[img], cut)
	}
	s.restart(main, "start")

	nops := 12 + c.Intn(50)
	if p.Tier == "thorough" {
		nops = 20 + c.Intn(200)
	}
	faultW := []int{8, 1 + c.Intn(2), 1 + c.Intn(3), 1 + c.Intn(4), c.Intn(4)}
	for i := 0; i < nops && !s.stop && !main.dead; i++ {
		q := s.gen(main)
		var lastRel *req
		if main.hasRel {
			l := main.released[main.maxRel].q
			lastRel = &l
		}
		fault := c.Weighted(faultW)
		s.r.Steps++
		switch fault {
		case 0: // no fault
			out, det := s.sign(main, q, sigNormal)
			c.Event("%v -> %s %s", q, out, det)
			if out == "panic" {
				s.restart(main, "after panic")
			}
		case 1, 2: // crash at the signer seam
			mode, name := sigCrashBefore, "before_sign"
			if fault == 2 {
				mode, name = sigCrashAfter, "after_sign_before_save"
			}
			out, det := s.sign(main, q, mode)
			c.Event("%v [crash armed: %s] -> %s %s", q, name, out, det)
			if out == "panic" || len(out) > 6 && out[:6] == "crash:" {
				if out != "panic" {
					s.r.Fault("crash_" + name)
				}
				s.restart(main, out)
				if !main.dead && !s.stop {
					s.battery(main, q, lastRel)
				}
			}
		case 3: // crash during the save: enumerate every image WriteFileAtomic can leave
			old := readOrNil(main.path)
			inoBefore := inode(main.path)
			snap := s.clone(main, "pre") // oracle memory before the call
			os.RemoveAll(snap.dir)
			out, det := s.sign(main, q, sigNormal)
			nw := readOrNil(main.path)
			if out == "released" && !bytes.Equal(old, nw) {
				if ino := inode(main.path); ino != 0 && ino != inoBefore {
					s.r.Probe("state_file_replaced_by_rename")
				} else {
					s.r.Probe("state_file_rewritten_in_place")
				}
			}
			if out != "released" || bytes.Equal(old, nw) {
				// nothing was saved: no crash point exists inside this call
				c.Event("%v [crash-in-save armed, no save happened] -> %s %s", q, out, det)
				if out == "panic" {
					s.restart(main, "after panic")
				}
				break
			}
			// The call saved new state. Re-interpret: the process died inside the
			// save, the signature was NOT released: roll the oracle back.
			main.released, main.maxRel, main.hasRel = snap.released, snap.maxRel, snap.hasRel
			s.nRel--
			c.Event("%v -> signed and saved; CRASH inside WriteFileAtomic (signature not released), enumerating %d images", q, nImages+1)
			cuts := []int{1 + c.Intn(len(nw)-1), len(nw) - 1}
			for img := 0; img < nImages && !s.stop; img++ {
				ncut := 1
				if img == imgOldTempPartial {
					ncut = 2
				}
				for k := 0; k < ncut && !s.stop; k++ {
					b := s.clone(main, fmt.Sprintf("img:%s", imgNames[img]))
					s.replayAtomicWrite(b.dir, old, nw, img, cuts[k])
					s.r.Probe("save_crash_images_enumerated")
					s.restart(b, "crash in save")
					if !b.dead {
						s.battery(b, q, lastRel)
					}
					os.RemoveAll(b.dir)
				}
			}
			// hypothetical (NOT possible with the real write sequence): a torn state file
			if !s.stop {
				b := s.clone(main, "hypothetical-torn-state-file")
				os.WriteFile(b.path, nw[:cuts[0]], 0o600)
				func() {
					defer func() { recover() }()
					if _, err := pvm.NewPrivValidator(s.newSigner(), b.path); err != nil {
						s.r.Probe("hypothetical_torn_state_file_refused")
					} else {
						s.r.Probe("hypothetical_torn_state_file_loaded")
					}
				}()
				os.RemoveAll(b.dir)
			}
			// the main timeline continues from one drawn image
			img := c.Intn(nImages)
			s.replayAtomicWrite(main.dir, old, nw, img, cuts[0])
			s.r.Fault("crash_in_save:" + imgNames[img])
			c.Event("main timeline continues from image %s", imgNames[img])
			s.restart(main, "crash in save")
			if !main.dead && !s.stop {
				s.battery(main, q, lastRel)
			}
		case 4: // released, then the process is restarted (kill / power loss after return)
			old := readOrNil(main.path)
			out, det := s.sign(main, q, sigNormal)
			c.Event("%v -> %s %s; then restart", q, out, det)
			if renameLost && out == "released" && !bytes.Equal(old, readOrNil(main.path)) && c.Bool() {
				// stricter disk model (knob): rename(2) without a directory fsync is not durable
				s.replayAtomicWrite(main.dir, old, nil, imgOld, 0)
				s.r.Fault("power_loss_reverted_rename")
				c.Event("power loss: the rename of the state file was not durable, old file is back")
			}
			s.r.Fault("restart_after_release")
			s.restart(main, "after release")
			if !main.dead && !s.stop {
				s.battery(main, q, lastRel)
			}
		}
	}
	if main.dead {
		s.r.Probe("run_ended_by_unloadable_state")
	}
	s.r.ProbeN("signatures_released", s.nRel)
	s.r.ProbeN("distinct_hrs_released", len(main.released))
	nf := 0
	for _, k := range kernel.SortedKeys(s.r.Faults) {
		nf += s.r.Faults[k]
	}
	s.r.Nontrivial = len(main.released) >= 3 && nf > 0
	s.r.Sample = map[string]any{"first_events": c.Log[:min(len(c.Log), 30)], "events": c.Events(), "released": s.nRel}
	return s.r
}
