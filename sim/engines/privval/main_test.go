package privval

import (
	"os"
	"runtime"
	"testing"

	"verif/sim/kernel"
)

// Child mode of the process-kill runs (prockill.go): the same test binary is
// started under strace with VERIF_PV_CHILD=<script>. Locking in init keeps the
// main goroutine on the main OS thread for the whole life of the process.
func init() {
	if os.Getenv(pkChildEnv) != "" {
		runtime.LockOSThread()
	}
}

func TestMain(m *testing.M) {
	if script := os.Getenv(pkChildEnv); script != "" {
		runtime.LockOSThread()
		pkChildMain(script) // never returns
	}
	os.Exit(m.Run())
}

func TestSim(t *testing.T) {
	if os.Getenv("VERIF_PROP") == "" {
		t.Skip("driven by /verif/check")
	}
	code := kernel.Main("privval", map[string]kernel.Engine{
		"C34": runPrivval,
	})
	if code != 0 {
		os.Exit(code)
	}
}
