package privval

import (
	"os"
	"testing"

	"verif/sim/kernel"
)

func TestSim(t *testing.T) {
	if os.Getenv("VERIF_PROP") == "" {
		t.Skip("driven by /verif/check")
	}
	code := kernel.Main("privval", map[string]kernel.Engine{
		"C34": runPrivval,
	})
	if code != 0 {
		os.Exit(code)
	}
}
