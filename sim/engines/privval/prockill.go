// Process-kill mode of the privval engine (property C34).
//
// The in-process mode (privval.go) produces crash images of the sign-state save
// by replaying what WriteFileAtomic is ASSUMED to do. This mode makes no such
// assumption: the real NewPrivValidator / SignVote / SignProposal / FileState.save
// / WriteFileAtomic run in a CHILD PROCESS (the same test binary, child mode,
// see pkChildMain) under
//
//	strace -f -y -o <file> -e signal=none -e trace=<every file-system mutation>
//	       -e inject=<syscall>:signal=SIGKILL:when=<n>
//
// and the child is SIGKILLed on ENTRY of a seed-chosen real system call that
// touches the validator's directory. Whatever the killed process left in the
// directory IS the crash image (kill semantics: everything write()n survives;
// power loss is the in-process mode's business). The next life (another child,
// possibly killed again) is asked the rest of the script plus adversarial
// requests (conflict with the last release, regressions, timestamp-only, the
// interrupted attempt again, conflicts with it) in a seed-drawn order.
//
// A life = dry run (no injection, on a copy of the directory) to learn which
// occurrences of which system calls touch the directory -> the seed picks one
// (0 = no kill: the dry run is adopted as the life) -> kill run on another copy
// -> the trace is checked: the killed call must be the intended one (same
// syscall, same index among the directory-touching calls of that name, same
// path kind), otherwise retry, and finally count the run inconclusive.
//
// Oracle: exactly the in-process one (psim.judge), fed ONLY with the lines the
// parent actually received from the child's stdout (one write(2) per outcome).
package privval

import (
	"bytes"
	"context"
	"encoding/hex"
	"encoding/json"
	"errors"
	"fmt"
	"os"
	"os/exec"
	"path/filepath"
	"regexp"
	"sort"
	"strconv"
	"strings"
	"sync"
	"syscall"
	"time"

	pvm "github.com/gnolang/gno/tm2/pkg/bft/privval"
	"github.com/gnolang/gno/tm2/pkg/crypto/ed25519"

	"verif/sim/kernel"
)

const (
	pkChildEnv        = "VERIF_PV_CHILD"
	pkDefaultPermille = 60
)

func engineKey() ed25519.PrivKeyEd25519 {
	return ed25519.GenPrivKeyFromSecret([]byte("verif-privval-engine"))
}

// ---------------------------------------------------------------- child

type pkReq struct {
	H                           int64
	R, S, Blk, Pol, TS, Chain, V int
}

type pkScript struct {
	State string
	Reqs  []pkReq
}

func toPK(q req) pkReq {
	return pkReq{H: q.at.h, R: q.at.r, S: q.at.s, Blk: q.blk, Pol: q.pol, TS: q.ts, Chain: q.chain, V: q.valIdx}
}

func (p pkReq) req() req {
	return req{at: hrs{p.H, p.R, p.S}, blk: p.Blk, pol: p.Pol, ts: p.TS, chain: p.Chain, valIdx: p.V}
}

// pkEmit writes one outcome line with a single write(2) on fd 1 (a pipe: writes
// of at most PIPE_BUF bytes are atomic). Once it returned the line is "released".
func pkEmit(format string, args ...any) {
	line := strings.NewReplacer("\n", " ", "\r", " ").Replace(fmt.Sprintf(format, args...)) + "\n"
	b := []byte(line)
	for len(b) > 0 {
		n, err := syscall.Write(1, b)
		if err == syscall.EINTR {
			continue
		}
		if err != nil {
			os.Exit(3)
		}
		b = b[n:]
	}
}

// pkChildMain is the child mode: the production constructor on the given state
// file, then the scripted requests one by one. The goroutine is locked to the
// main OS thread (init below), so every system call of the code under test is
// made by one thread and strace's per-thread occurrence counters are exact.
func pkChildMain(scriptPath string) {
	b, err := os.ReadFile(scriptPath)
	if err != nil {
		fmt.Fprintln(os.Stderr, "child: script:", err)
		os.Exit(4)
	}
	var sc pkScript
	if err := json.Unmarshal(b, &sc); err != nil {
		fmt.Fprintln(os.Stderr, "child: script:", err)
		os.Exit(4)
	}
	dir := filepath.Dir(sc.State)
	clean := func(v any) string {
		s := strings.ReplaceAll(fmt.Sprint(v), dir, "$D")
		if len(s) > 300 {
			s = s[:300]
		}
		return s
	}
	s := &psim{key: engineKey()}
	signer := s.newSigner()
	var pv *pvm.PrivValidator
	var pan any
	func() {
		defer func() {
			if r := recover(); r != nil {
				pan = r
			}
		}()
		pv, err = pvm.NewPrivValidator(signer, sc.State)
	}()
	switch {
	case pan != nil:
		pkEmit("O panic %s", clean(pan))
		os.Exit(0)
	case err != nil:
		pkEmit("O err %s", clean(err))
		os.Exit(0)
	}
	pkEmit("O ok %s", clean(pv))
	for i, pr := range sc.Reqs {
		q := pr.req()
		chainID, vote, prop, _ := s.build(q)
		pan = nil
		func() {
			defer func() {
				if r := recover(); r != nil {
					pan = r
				}
			}()
			if prop != nil {
				err = pv.SignProposal(chainID, prop)
			} else {
				err = pv.SignVote(chainID, vote)
			}
		}()
		switch {
		case pan != nil:
			pkEmit("R %d panic %s", i, clean(pan))
			os.Exit(0) // a panic takes the process down
		case err != nil:
			pkEmit("R %d ref %s", i, clean(err))
		case prop != nil:
			pkEmit("R %d rel %x %x %s", i, prop.SignBytes(chainID), prop.Signature, prop.Timestamp.UTC().Format(time.RFC3339Nano))
		default:
			pkEmit("R %d rel %x %x %s", i, vote.SignBytes(chainID), vote.Signature, vote.Timestamp.UTC().Format(time.RFC3339Nano))
		}
	}
	pkEmit("E")
	os.Exit(0)
}

// ---------------------------------------------------------------- strace

var pkStrace struct {
	once sync.Once
	path string
	self string
}

func pkStracePath() (strace, self string) {
	pkStrace.once.Do(func() {
		if p, err := exec.LookPath("strace"); err == nil {
			pkStrace.path = p
		}
		if e, err := os.Executable(); err == nil {
			pkStrace.self = e
		}
	})
	return pkStrace.path, pkStrace.self
}

// every system call that can change a file system (names unknown on this
// architecture are skipped by the '?' qualifier), plus openat (reads of the
// state file are harmless extra kill points "between two mutations").
const pkTraceSet = "trace=?open,?openat,?openat2,?creat,?rename,?renameat,?renameat2,?unlink,?unlinkat,?rmdir,?mkdir,?mkdirat," +
	"?link,?linkat,?symlink,?symlinkat,?mknod,?mknodat,?write,?pwrite64,?writev,?pwritev,?pwritev2,?fsync,?fdatasync,?sync,?syncfs," +
	"?sync_file_range,?ftruncate,?truncate,?fallocate,?chmod,?fchmod,?fchmodat,?chown,?fchown,?lchown,?fchownat," +
	"?copy_file_range,?sendfile,?splice,?setxattr,?fsetxattr,?lsetxattr,?utimensat"

// pkPoint is one traced system call (entry) of the child's main thread that
// touches the validator's directory.
type pkPoint struct {
	name string
	n    int    // occurrence among ALL calls of that name by that thread (strace's when=)
	si   int    // occurrence among the directory-touching calls of that name
	kind string // path kind: state, atomic-tmp, state.bak, dir, other; "a->b" for two paths
}

func (p pkPoint) String() string { return fmt.Sprintf("%s#%d(%s)", p.name, p.si, p.kind) }

type pkTrace struct {
	points   []pkPoint // directory-touching calls of the main thread, in order (a killed one included, last)
	killed   *pkPoint  // the call that shows "= ?" (si==0: it did not touch the directory)
	sigkill  bool
	exited   bool
	foreign  bool // a directory-touching call by another thread
	rawLines int
}

var pkTempName = regexp.MustCompile(`write-file-atomic-[0-9]+`)

func pkKindOf(rel string) string {
	rel = strings.TrimSuffix(rel, " (deleted)")
	rel = strings.Trim(rel, "/")
	switch {
	case rel == "":
		return "dir"
	case rel == stateFile:
		return "state"
	case strings.HasPrefix(rel, "write-file-atomic-"):
		return "atomic-tmp"
	case strings.HasPrefix(rel, stateFile):
		suf := rel[len(stateFile):]
		if len(suf) > 12 || strings.ContainsAny(suf, "0123456789/") {
			return "state.*"
		}
		return "state" + suf
	}
	return "other"
}

// pkKinds extracts the kinds of all paths inside dir that a trace line mentions
// (quoted path arguments and -y fd annotations).
func pkKinds(rest, dir string) []string {
	var ks []string
	for off := 0; ; {
		i := strings.Index(rest[off:], dir)
		if i < 0 {
			break
		}
		start := off + i + len(dir)
		end := start
		for end < len(rest) && rest[end] != '"' && rest[end] != '>' {
			end++
		}
		off = end
		rel := rest[start:end]
		if rel != "" && rel[0] != '/' && !strings.HasPrefix(rel, " (deleted)") {
			continue // a longer sibling name, not this directory
		}
		ks = append(ks, pkKindOf(rel))
	}
	return ks
}

func pkParse(path, dir string) (*pkTrace, error) {
	b, err := os.ReadFile(path)
	if err != nil {
		return nil, err
	}
	tr := &pkTrace{}
	mainPid := ""
	perName := map[string]int{}
	perNameS := map[string]int{}
	for _, line := range strings.Split(string(b), "\n") {
		line = strings.TrimRight(line, " ")
		if line == "" {
			continue
		}
		tr.rawLines++
		sp := strings.IndexAny(line, " \t")
		if sp <= 0 {
			continue
		}
		pid, rest := line[:sp], strings.TrimLeft(line[sp:], " \t")
		if _, err := strconv.Atoi(pid); err != nil {
			continue
		}
		if mainPid == "" {
			mainPid = pid
		}
		switch {
		case strings.HasPrefix(rest, "+++"):
			if pid == mainPid {
				if strings.Contains(rest, "killed by SIGKILL") {
					tr.sigkill = true
				} else if strings.Contains(rest, "exited with") {
					tr.exited = true
				}
			}
			continue
		case strings.HasPrefix(rest, "---"), strings.HasPrefix(rest, "<..."):
			continue
		}
		par := strings.IndexByte(rest, '(')
		if par <= 0 {
			continue
		}
		name := rest[:par]
		// arguments only: the result ("= 7</path>") is absent from a killed call
		argsPart := rest
		if i := strings.LastIndex(argsPart, ") = "); i >= 0 {
			argsPart = argsPart[:i]
		} else if i := strings.LastIndex(argsPart, "<unfinished ...>"); i >= 0 {
			argsPart = argsPart[:i]
		}
		kinds := pkKinds(argsPart, dir)
		if pid != mainPid {
			if len(kinds) > 0 {
				tr.foreign = true
			}
			continue
		}
		perName[name]++
		pt := pkPoint{name: name, n: perName[name]}
		if len(kinds) > 0 {
			perNameS[name]++
			pt.si = perNameS[name]
			pt.kind = strings.Join(kinds, "->")
			tr.points = append(tr.points, pt)
		}
		if strings.HasSuffix(rest, "= ?") || strings.HasSuffix(rest, "<unfinished ...>") {
			k := pt
			tr.killed = &k
		} else if tr.killed != nil {
			tr.killed = nil // an unfinished call that was resumed later
		}
	}
	// strace 6.1 writes no "+++ killed by SIGKILL +++" record for a tracee it killed by
	// injection: the trace simply ends with the call that shows "= ?"
	if tr.killed != nil && !tr.exited {
		tr.sigkill = true
	}
	if !tr.sigkill {
		tr.killed = nil
	}
	return tr, nil
}

type pkLife struct {
	lines  []string
	trace  *pkTrace
	stderr string
	err    error // could not run (timeout, strace trouble): inconclusive, never a violation
}

// pkExec runs one child life on dir. strace==true: under strace, optionally
// with a SIGKILL injected at inj.
func (s *psim) pkExec(dir string, reqs []req, useStrace bool, inj *pkPoint) *pkLife {
	strace, self := pkStracePath()
	ctl := filepath.Join(s.root, "ctl")
	if err := os.MkdirAll(ctl, 0o700); err != nil {
		kernel.Harnessf("mkdir: %v", err)
	}
	sc := pkScript{State: filepath.Join(dir, stateFile)}
	for _, q := range reqs {
		sc.Reqs = append(sc.Reqs, toPK(q))
	}
	sb, _ := json.Marshal(sc)
	scriptPath := filepath.Join(ctl, "script.json")
	if err := os.WriteFile(scriptPath, sb, 0o600); err != nil {
		kernel.Harnessf("script: %v", err)
	}
	tracePath := filepath.Join(ctl, "trace.txt")
	os.Remove(tracePath)
	ctx, cancel := context.WithTimeout(context.Background(), 240*time.Second)
	defer cancel()
	var cmd *exec.Cmd
	childArgs := []string{self, "-test.run", "^TestSim$"}
	if useStrace {
		args := []string{"-f", "-y", "-s", "0", "-o", tracePath, "-e", "signal=none", "-e", pkTraceSet}
		if inj != nil {
			args = append(args, "-e", fmt.Sprintf("inject=%s:signal=SIGKILL:when=%d", inj.name, inj.n))
		}
		cmd = exec.CommandContext(ctx, strace, append(args, childArgs...)...)
	} else {
		cmd = exec.CommandContext(ctx, childArgs[0], childArgs[1:]...)
	}
	cmd.Env = []string{"PATH=" + os.Getenv("PATH"), "HOME=/nonexistent", "GODEBUG=asyncpreemptoff=1", "GOMAXPROCS=1", pkChildEnv + "=" + scriptPath}
	cmd.Dir = ctl
	cmd.SysProcAttr = &syscall.SysProcAttr{Setpgid: true}
	cmd.Cancel = func() error { return syscall.Kill(-cmd.Process.Pid, syscall.SIGKILL) }
	cmd.WaitDelay = 5 * time.Second
	var stdout, stderr bytes.Buffer
	cmd.Stdout, cmd.Stderr = &stdout, &stderr
	runErr := cmd.Run()
	life := &pkLife{stderr: stderr.String()}
	if ctx.Err() != nil {
		life.err = fmt.Errorf("child timed out")
		return life
	}
	out := stdout.String()
	if !strings.HasSuffix(out, "\n") && out != "" { // cannot happen: every line is one atomic pipe write
		if i := strings.LastIndexByte(out, '\n'); i >= 0 {
			out = out[:i+1]
		} else {
			out = ""
		}
	}
	for _, l := range strings.Split(out, "\n") {
		if l != "" {
			life.lines = append(life.lines, l)
		}
	}
	if useStrace {
		tr, err := pkParse(tracePath, dir)
		if err != nil {
			life.err = fmt.Errorf("no strace output (%v; strace said: %.200s)", runErr, life.stderr)
			return life
		}
		life.trace = tr
		if !tr.sigkill && !tr.exited {
			life.err = fmt.Errorf("strace output without an exit record (%v; strace said: %.200s)", runErr, life.stderr)
		}
	} else if runErr != nil {
		kernel.Harnessf("privval child failed without any injection: %v\nstdout: %.600s\nstderr: %.1500s", runErr, out, life.stderr)
	}
	return life
}

func pkCopyDir(src, dst string) {
	os.RemoveAll(dst)
	if err := os.MkdirAll(dst, 0o700); err != nil {
		kernel.Harnessf("mkdir: %v", err)
	}
	es, err := os.ReadDir(src)
	if err != nil {
		kernel.Harnessf("readdir: %v", err)
	}
	for _, e := range es {
		sp, dp := filepath.Join(src, e.Name()), filepath.Join(dst, e.Name())
		if e.IsDir() {
			pkCopyDir(sp, dp)
			continue
		}
		fi, err := e.Info()
		if err != nil || !fi.Mode().IsRegular() {
			continue
		}
		b, err := os.ReadFile(sp)
		if err != nil {
			kernel.Harnessf("copy: %v", err)
		}
		if err := os.WriteFile(dp, b, fi.Mode().Perm()); err != nil {
			kernel.Harnessf("copy: %v", err)
		}
	}
}

// pkImage describes the directory a life left behind, without any name that
// differs between two executions of the same seed.
func pkImage(dir string) string {
	es, _ := os.ReadDir(dir)
	var ks []string
	for _, e := range es {
		k := pkKindOf(e.Name())
		if fi, err := e.Info(); err == nil && fi.Mode().IsRegular() {
			k += fmt.Sprintf(":%dB", fi.Size())
		}
		ks = append(ks, k)
	}
	sort.Strings(ks)
	return "[" + strings.Join(ks, " ") + "]"
}

// ---------------------------------------------------------------- the run

// pkSelected: whether this run is a process-kill run; a function of the run
// seed only (no tape value: the tapes of in-process runs are unchanged, and the
// shrinker cannot turn one mode into the other).
func pkSelected(seed uint64, permille int) bool {
	z := (seed ^ 0x5bd1e995c34c34c3) * 0xbf58476d1ce4e5b9
	z ^= z >> 29
	z *= 0x94d049bb133111eb
	z ^= z >> 32
	return int(z%1000) < permille
}

func sameButTS(a, b req) bool {
	return a.at == b.at && a.blk == b.blk && a.chain == b.chain && (a.at.s != 1 || a.pol == b.pol) && a.ts != b.ts && tsOf(a.ts) != tsOf(b.ts)
}

func pkShort(b []byte) string {
	if len(b) > 6 {
		b = b[:6]
	}
	return hex.EncodeToString(b)
}

func (s *psim) pkInconclusive(why string) {
	s.r.Probe("prockill_inconclusive")
	s.r.Inconcl = "prockill: " + why
	s.c.Event("INCONCLUSIVE %s", why)
	s.stop = true
}

// pkJudge feeds the child's outcome lines to the oracle. Returns whether the
// constructor succeeded (line "O ok" received), how many requests got an
// outcome line, and whether the child went down by a panic it reported.
func (s *psim) pkJudge(t *tl, script []req, lines []string) (opened bool, done int, panicked bool, finished bool) {
	c := s.c
	for _, l := range lines {
		if s.stop {
			return
		}
		f := strings.SplitN(l, " ", 4)
		switch f[0] {
		case "O":
			switch {
			case len(f) >= 2 && f[1] == "ok":
				opened = true
				c.Event("child: constructor ok: %s", strings.Join(f[2:], " "))
			case len(f) >= 2 && f[1] == "err":
				// C34 does not promise recovery; a validator that cannot start signs nothing.
				s.r.Probe("prockill_restart_failed")
				c.Event("child: constructor error: %s", pkTempName.ReplaceAllString(strings.Join(f[2:], " "), "write-file-atomic-N"))
				t.dead = true
				return
			default:
				s.r.Probe("prockill_restart_failed")
				s.r.Probe("restart_panicked")
				c.Event("child: constructor panicked: %s", pkTempName.ReplaceAllString(strings.Join(f[2:], " "), "write-file-atomic-N"))
				t.dead = true
				return
			}
		case "E":
			finished = true
		case "R":
			if len(f) < 3 || !opened {
				kernel.Harnessf("malformed child line %q", l)
			}
			i, err := strconv.Atoi(f[1])
			if err != nil || i != done || i >= len(script) {
				kernel.Harnessf("child line out of sequence: %q (expected request %d of %d)", l, done, len(script))
			}
			q := script[i]
			done++
			s.r.Steps++
			_, _, _, reqSB := s.build(q)
			issuedBefore := t.maxIssued
			if q.at.cmp(t.maxIssued) > 0 {
				t.maxIssued = q.at
			}
			// the script was generated from a PREDICTED timeline: establish "differs from
			// the release at this HRS only by its timestamp" from what really was released
			old, has := t.released[q.at]
			q.tsOnly = has && sameButTS(q, old.q)
			var o outcome
			rest := ""
			if len(f) == 4 {
				rest = f[3]
			}
			switch f[2] {
			case "panic":
				o.pan = rest
			case "ref":
				o.err = errors.New(rest)
			case "rel":
				g := strings.Split(rest, " ")
				if len(g) != 3 {
					kernel.Harnessf("malformed child line %q", l)
				}
				var e1, e2, e3 error
				o.sb, e1 = hex.DecodeString(g[0])
				o.sig, e2 = hex.DecodeString(g[1])
				o.ts, e3 = time.Parse(time.RFC3339Nano, g[2])
				if e1 != nil || e2 != nil || e3 != nil {
					kernel.Harnessf("malformed child line %q", l)
				}
			default:
				kernel.Harnessf("malformed child line %q", l)
			}
			out, det := s.judge(t, q, reqSB, issuedBefore, o)
			if out == "released" {
				c.Event("child: %v -> released sb=%s sig=%s ts=%s", q, pkShort(o.sb), pkShort(o.sig), o.ts.UTC().Format(time.RFC3339Nano))
			} else {
				c.Event("child: %v -> %s %s", q, out, pkTempName.ReplaceAllString(det, "write-file-atomic-N"))
			}
			if out == "panic" {
				panicked = true
				return
			}
		default:
			kernel.Harnessf("malformed child line %q", l)
		}
	}
	return
}

// pkInProcess is a life that is not killed: the validator is constructed in the
// engine's own process on the directory the last child left behind.
func (s *psim) pkInProcess(t *tl, dir string, script []req, why string) {
	t.dir, t.path = dir, filepath.Join(dir, stateFile)
	s.restart(t, why)
	if t.dead {
		s.r.Probe("prockill_restart_failed")
		return
	}
	for _, q := range script {
		if s.stop || t.dead {
			return
		}
		old, has := t.released[q.at]
		q.tsOnly = has && sameButTS(q, old.q)
		s.r.Steps++
		out, det := s.sign(t, q, sigNormal)
		s.c.Event("%v -> %s %s", q, out, det)
		if out == "panic" {
			s.restart(t, "after panic")
		}
	}
}

func (s *psim) runProcKill() *kernel.Result {
	c := s.c
	c.Event("mode: process kill at real system-call boundaries")
	s.r.Probe("prockill_runs")
	main := &tl{name: "main", released: map[hrs]rel{}}
	vdir := filepath.Join(s.root, "v") // the validator's directory
	ddir := filepath.Join(s.root, "d") // dry-run copy
	kdir := filepath.Join(s.root, "k") // kill-run copy
	if err := os.MkdirAll(vdir, 0o700); err != nil {
		kernel.Harnessf("mkdir: %v", err)
	}
	nLives := 2 + c.Weighted([]int{5, 1, 1})
	// an in-process prefix (0 = none: the first child starts on an empty directory and
	// creates the state file) gives the child lives a history to contradict
	if npre := c.Intn(5); npre > 0 {
		sh := &tl{name: "predicted", released: map[hrs]rel{}}
		var pre []req
		for i := 0; i < npre; i++ {
			q := s.gen(sh)
			if q.at.cmp(sh.maxIssued) > 0 {
				sh.maxIssued = q.at
			}
			if !sh.hasRel || q.at.cmp(sh.maxRel) > 0 {
				sh.released[q.at] = rel{q: q}
				sh.maxRel, sh.hasRel = q.at, true
			}
			pre = append(pre, q)
		}
		c.Event("prefix: %d requests in-process, not killed", npre)
		s.pkInProcess(main, vdir, pre, "prefix, in-process")
		main.pv, main.signer = nil, nil
	}
	var pending []req
	var attempt *req
	afterKill := false
	kills := 0
	for life := 0; life < nLives && !s.stop && !main.dead; life++ {
		// ---- the script of this life
		var script []req
		if afterKill {
			var lastRel *req
			if main.hasRel {
				l := main.released[main.maxRel].q
				lastRel = &l
			}
			bat := batteryReqs(attempt, lastRel)
			for i := 0; i < len(bat)-1; i++ { // seed-drawn order (0 = keep)
				j := i + c.Intn(len(bat)-i)
				bat[i], bat[j] = bat[j], bat[i]
			}
			script = append(script, bat...)
		}
		nbat := len(script)
		script = append(script, pending...)
		ncarried := len(pending)
		pending = nil
		nnew := 1 + c.Intn(6)
		if ncarried > 0 {
			nnew = c.Intn(4)
		}
		// generator state = the oracle's memory + predicted effect of the script so far
		sh := &tl{name: "predicted", released: make(map[hrs]rel, len(main.released)), maxRel: main.maxRel, hasRel: main.hasRel, maxIssued: main.maxIssued}
		for k, v := range main.released {
			sh.released[k] = v
		}
		predict := func(q req) {
			if q.at.cmp(sh.maxIssued) > 0 {
				sh.maxIssued = q.at
			}
			if !sh.hasRel || q.at.cmp(sh.maxRel) > 0 {
				sh.released[q.at] = rel{q: q}
				sh.maxRel, sh.hasRel = q.at, true
			}
		}
		for _, q := range script {
			predict(q)
		}
		for i := 0; i < nnew; i++ {
			q := s.gen(sh)
			predict(q)
			script = append(script, q)
		}
		last := life == nLives-1
		c.Event("life %d: script of %d requests (%d adversarial, %d carried over, %d new)%s", life, len(script), nbat, ncarried, nnew,
			map[bool]string{true: "; last life, in-process, not killed", false: ""}[last])

		// ---- run it
		var lines []string
		killedAt := (*pkPoint)(nil)
		if last {
			// the last life runs in this process (nobody kills it): same constructor, same files
			s.pkInProcess(main, vdir, script, "last life, in-process")
			break
		} else {
			pkCopyDir(vdir, ddir)
			dry := s.pkExec(ddir, script, true, nil)
			if dry.err != nil || dry.trace.sigkill || dry.trace.foreign {
				why := "dry run: directory touched by a second thread"
				if dry.err != nil {
					why = "dry run: " + dry.err.Error()
				} else if dry.trace.sigkill {
					why = "dry run: child killed without injection"
				}
				s.pkInconclusive(why)
				break
			}
			cands := dry.trace.points
			c.Event("life %d: dry run: %d system calls touch the validator directory", life, len(cands))
			k := c.Intn(len(cands) + 1)
			if k == 0 {
				// no kill: the dry run IS this life
				c.Event("life %d: no kill", life)
				os.RemoveAll(vdir)
				if err := os.Rename(ddir, vdir); err != nil {
					kernel.Harnessf("adopt: %v", err)
				}
				lines = dry.lines
			} else {
				want := cands[k-1]
				c.Event("life %d: KILL on entry of %s [directory-touching call %d of %d]", life, want, k, len(cands))
				ok := false
				for try := 0; try < 4 && !ok; try++ {
					pkCopyDir(vdir, kdir)
					kl := s.pkExec(kdir, script, true, &want)
					if kl.err != nil || !kl.trace.sigkill || kl.trace.killed == nil {
						continue
					}
					got := *kl.trace.killed
					pts := kl.trace.points
					if got.name != want.name || got.si != want.si || got.kind != want.kind || len(pts) != k {
						// start-up noise shifted the numbering: re-derive it from a fresh dry run
						pkCopyDir(vdir, ddir)
						if d2 := s.pkExec(ddir, script, true, nil); d2.err == nil && !d2.trace.sigkill && len(d2.trace.points) == len(cands) {
							if p := d2.trace.points[k-1]; p.name == want.name && p.si == want.si && p.kind == want.kind {
								want.n = p.n
							}
						}
						continue
					}
					same := true
					for i := range pts {
						if pts[i].name != cands[i].name || pts[i].kind != cands[i].kind {
							same = false
						}
					}
					if !same {
						continue
					}
					ok = true
					lines = kl.lines
				}
				os.RemoveAll(ddir)
				if !ok {
					os.RemoveAll(kdir)
					s.pkInconclusive("the injected SIGKILL did not land on the intended system call")
					break
				}
				os.RemoveAll(vdir)
				if err := os.Rename(kdir, vdir); err != nil {
					kernel.Harnessf("adopt: %v", err)
				}
				killedAt = &want
				kills++
				s.r.Fault("prockill:" + want.name + "(" + want.kind + ")")
				s.r.Probe("prockill_killed_at:" + want.name)
				c.Event("life %d: process killed; crash image %s", life, pkImage(vdir))
			}
		}

		// ---- oracle over what the parent received
		opened, done, panicked, finished := s.pkJudge(main, script, lines)
		if s.stop || main.dead {
			break
		}
		attempt, afterKill = nil, false
		switch {
		case killedAt != nil:
			afterKill = true
			if !opened {
				c.Event("life %d: died inside the constructor", life)
				s.r.Probe("prockill_killed_in_constructor")
				pending = append(pending, script...)
			} else {
				if done < len(script) {
					q := script[done] // the request the child died in: issued, NOT released
					if q.at.cmp(main.maxIssued) > 0 {
						main.maxIssued = q.at
					}
					attempt = &q
					c.Event("life %d: died inside %v (not released)", life, q)
					pending = append(pending, script[done+1:]...)
				} else {
					c.Event("life %d: died after the last request", life)
				}
			}
		case panicked:
			afterKill = true // the process went down inside a request
			q := script[done-1]
			attempt = &q
			pending = append(pending, script[done:]...)
		case !finished:
			kernel.Harnessf("privval child ended without being killed, without a panic and without finishing its script (%d lines)", len(lines))
		default:
			s.r.Fault("restart_after_release")
		}
		if len(pending) > 6 {
			pending = pending[:6]
		}
	}
	if main.dead {
		s.r.Probe("run_ended_by_unloadable_state")
	}
	s.r.ProbeN("signatures_released", s.nRel)
	s.r.ProbeN("distinct_hrs_released", len(main.released))
	s.r.Nontrivial = len(main.released) >= 3 && kills > 0
	s.r.Sample = map[string]any{"first_events": c.Log[:min(len(c.Log), 40)], "events": c.Events(), "released": s.nRel, "mode": "prockill"}
	return s.r
}
