// Engine wal (property C38): the real consensus write-ahead log
// (tm2/pkg/bft/wal baseWAL + WALWriter/WALReader + SearchForHeight) over the
// real tm2/pkg/autofile Group, writing real files in a per-run scratch
// directory, inside a testing/synctest bubble so that the group/WAL tickers
// run on simulated time.
//
// A run = a seeded history (Write / WriteSync / WriteMetaSync / FlushAndSync /
// explicit rotation / graceful close+reopen / simulated time / crash+restart
// with kill or power-loss image and continued writing) followed by FAULT
// ENUMERATION over the produced byte stream:
//
//   - truncation images: every byte offset of the stream when it is small,
//     else every offset of a trailing window + every record boundary +-3 + the
//     kill / sync frontiers of every op + a drawn sample; each image is a
//     directory holding exactly the files a crash at that offset leaves behind
//     (rotated files before the offset, the containing file as the head,
//     truncated), reopened and read with the real reader;
//   - single-byte corruption images (every position when small, else targeted
//     positions + a drawn sample);
//   - SearchForHeight for every height written / never written, on the final
//     layout and on a sample of the truncation images, in all search modes.
//
// The model is a list of expected lines ("entries"): message, height marker,
// or "corrupt" (a line that was glued to the torn tail left by an earlier
// crash). Byte offsets are never predicted: they are measured from the files.
package wal

import (
	"bytes"
	"errors"
	"fmt"
	"io"
	"os"
	"path/filepath"
	"sort"
	"sync/atomic"
	"testing"
	"testing/synctest"
	"time"

	"github.com/gnolang/gno/tm2/pkg/amino"
	auto "github.com/gnolang/gno/tm2/pkg/autofile"
	tmtime "github.com/gnolang/gno/tm2/pkg/bft/types/time"
	walm "github.com/gnolang/gno/tm2/pkg/bft/wal"

	"verif/sim/kernel"
)

// ---------------------------------------------------------------- messages

// simMsg is the harness's WALMessage. It is registered with amino in a
// harness-owned package so that the real encoder/decoder can (un)marshal it.
type simMsg struct {
	Seq  int64
	Data []byte
}

func (simMsg) AssertWALMessage() {}

var _ = amino.RegisterPackage(amino.NewPackage(
	"verif/sim/engines/wal", "verifwal", amino.GetCallersDirname(),
).WithTypes(simMsg{}))

// realWAL is what walm.NewWAL returns (its concrete type is unexported).
type realWAL interface {
	walm.WAL
	Group() *auto.Group
	SetFlushInterval(time.Duration)
	IsRunning() bool
}

type entryKind int

const (
	kMsg entryKind = iota
	kMeta
	kCorrupt // a line glued to an earlier torn tail: must be reported as an error
)

type entry struct {
	kind entryKind
	tm   time.Time // kMsg: TimedWALMessage.Time
	seq  int64     // kMsg: simMsg.Seq
	data []byte    // kMsg: simMsg.Data
	h    int64     // kMeta: height
}

func (e entry) String() string {
	switch e.kind {
	case kMsg:
		return fmt.Sprintf("msg(seq=%d,%dB)", e.seq, len(e.data))
	case kMeta:
		return fmt.Sprintf("meta(h=%d)", e.h)
	}
	return "corrupt-line"
}

// snap is the durability bookkeeping after one op.
type snap struct {
	n        int // entries (complete lines) written so far
	extra    int // bytes of a pending torn fragment after entry n (0 if none)
	buffered int // bytes still in the group's user-space buffer
	synced   int // entries covered by the last successful sync
}

type rotFile struct {
	idx      int // file name suffix
	endEntry int // number of entries written when it was rotated
}

type fileSeg struct {
	idx        int
	start, end int // offsets in the surviving stream
	data       []byte
}

type wsim struct {
	c    *kernel.Choices
	r    *kernel.Result
	p    kernel.Params
	prop string
	stop bool

	root string
	gen  int
	dir  string
	w    realWAL
	open []realWAL

	startedAt time.Time
	flushIv   time.Duration
	maxSize   int64
	headLimit int64
	totLimit  int64

	entries     []entry
	pendingFrag bool
	fragLen     int
	synced      int
	firstEntry  int
	rot         []rotFile // rotated files present on disk, oldest first
	maxIdx      int
	snaps       []snap
	nextH       int64
	maxH        int64
	seq         int64
	simNS       time.Duration
	cut         bool // a known finding hides the rest of the log from the reader: skip the enumeration phases
	tiny        bool // profile: short history of small records, so that EVERY offset and byte is enumerated
	knownSeen   map[string]bool
	anoms       map[string]string

	// filled by finalize()
	stream   []byte
	lineEnd  []int // lineEnd[i] = offset after the i-th surviving line
	files    []fileSeg
	nCorrupt int
	gluedAccepted bool // the sequential reader accepted a line glued to a crash's torn tail (anomaly): the model adopted the reader's view of it
}

var theT *testing.T
var runCounter atomic.Int64

func (s *wsim) fail(oracle, format string, args ...any) {
	v := &kernel.Violation{Property: s.prop, Oracle: oracle, Signature: oracle}
	if k := s.p.IsKnown(v); k != nil {
		if !s.knownSeen[oracle] {
			s.knownSeen[oracle] = true
			v.Msg = fmt.Sprintf(format, args...)
			s.r.Known = append(s.r.Known, *v)
			s.c.Event("known finding %s", oracle)
		}
		s.r.Probe("known:" + oracle)
		return
	}
	s.r.Fail(s.prop, oracle, format, args...)
	s.c.Event("VIOLATION %s", oracle)
	s.stop = true
}

// anomaly: behaviour that is wrong for a WAL but that a strict reading of C38
// does not demand (C38 speaks of corrupted *message* lines, and does not
// quantify over "crash, restart, keep appending"): damaged or glued MARKER
// lines that are accepted, or reported as a clean EOF. Counted and sampled,
// promoted to a violation only by the knob strict_<oracle>=1 / strict_all=1.
func (s *wsim) anomaly(oracle, format string, args ...any) {
	if s.p.Knob("strict_"+oracle, "0") == "1" || s.p.Knob("strict_all", "0") == "1" {
		s.fail(oracle, format, args...)
		return
	}
	s.r.Probe("anomaly:" + oracle)
	if _, ok := s.anoms[oracle]; !ok {
		s.anoms[oracle] = fmt.Sprintf(format, args...)
		s.c.Event("anomaly %s", oracle)
	}
}

// ---------------------------------------------------------------- real WAL handling

func (s *wsim) headPath(dir string) string { return filepath.Join(dir, "wal") }

func idxPath(head string, k int) string { return fmt.Sprintf("%s.%03d", head, k) }

func (s *wsim) newWAL(dir string) realWAL {
	opts := []func(*auto.Group){auto.GroupHeadSizeLimit(s.headLimit)}
	if s.totLimit >= 0 {
		opts = append(opts, auto.GroupTotalSizeLimit(s.totLimit))
	}
	w, err := walm.NewWAL(s.headPath(dir), s.maxSize, opts...)
	if err != nil {
		kernel.Harnessf("NewWAL(%s): %v", dir, err)
	}
	s.open = append(s.open, w)
	return w
}

func (s *wsim) forget(w realWAL) {
	for i, x := range s.open {
		if x == w {
			s.open = append(s.open[:i], s.open[i+1:]...)
			return
		}
	}
}

// closeRO closes a WAL that was opened but never started.
func (s *wsim) closeRO(w realWAL) {
	w.Group().Close()
	s.forget(w)
}

func (s *wsim) stopWAL(w realWAL) {
	if err := w.Stop(); err != nil {
		kernel.Harnessf("Stop: %v", err)
	}
	w.Wait()
	s.forget(w)
}

func (s *wsim) cleanup() {
	for _, w := range append([]realWAL(nil), s.open...) {
		func() {
			defer func() { recover() }()
			if w.IsRunning() {
				w.Stop()
			} else {
				w.Group().Close()
			}
		}()
	}
	s.open = nil
}

// startLive opens+starts the WAL on s.dir (production path: NewWAL, Start).
func (s *wsim) startLive() {
	empty := true
	if ents, err := os.ReadDir(s.dir); err == nil {
		for _, e := range ents {
			if fi, err := e.Info(); err == nil && fi.Size() > 0 {
				empty = false
			}
		}
	}
	s.w = s.newWAL(s.dir)
	s.w.SetFlushInterval(s.flushIv)
	s.startedAt = time.Now()
	if err := s.w.Start(); err != nil {
		kernel.Harnessf("Start: %v", err)
	}
	if empty {
		// OnStart writes (and syncs) the height-0 marker into an empty group.
		s.appendEntry(entry{kind: kMeta, h: 0})
		s.synced = len(s.entries)
	}
	s.maxIdx = s.w.Group().MaxIndex()
	if len(s.rot) > 0 && s.rot[len(s.rot)-1].idx+1 != s.maxIdx {
		kernel.Harnessf("reopened group has head index %d, last rotated file known to the harness is %d", s.maxIdx, s.rot[len(s.rot)-1].idx)
	}
	s.observe("start")
}

func (s *wsim) appendEntry(e entry) {
	if s.pendingFrag {
		// the new line is glued to the torn tail of an earlier crash
		e = entry{kind: kCorrupt}
		s.pendingFrag = false
		s.fragLen = 0
		s.r.Probe("line_glued_to_torn_tail")
	}
	s.entries = append(s.entries, e)
}

// observe records rotation / deletion / buffering after an op. Rotation is
// seen through the group's MaxIndex; deletion (total size limit) is seen in the
// directory itself, because the group's own MinIndex is not trustworthy (see
// the orphan comment below).
func (s *wsim) observe(what string) {
	g := s.w.Group()
	ma := g.MaxIndex()
	for k := s.maxIdx; k < ma; k++ {
		s.rot = append(s.rot, rotFile{idx: k, endEntry: len(s.entries)})
		s.synced = len(s.entries) // rotation flushes and fsyncs the old head before renaming it
		s.r.Probe("rotations")
	}
	s.maxIdx = ma
	head := s.headPath(s.dir)
	newestDeleted := -1
	for i, f := range s.rot {
		if _, err := os.Stat(idxPath(head, f.idx)); err != nil {
			newestDeleted = i
		}
	}
	if newestDeleted >= 0 {
		// autofile's pruning loop (ensureTotalSizeLimit) computes index =
		// MinIndex+i while also advancing MinIndex, so when it must delete more
		// than one file in a pass it skips every second file and can push
		// MinIndex beyond MaxIndex. Skipped files stay on disk as orphans (and
		// rejoin the group at the next reopen). The pruning policy is not part
		// of C38: the harness removes the orphans (and counts them) so that
		// "the log" stays a contiguous range of files.
		for _, f := range s.rot[:newestDeleted+1] {
			if err := os.Remove(idxPath(head, f.idx)); err == nil {
				s.r.Probe("orphan_file_left_by_total_limit_pruning")
				s.c.Event("harness removed orphan rotated file %d", f.idx)
			}
		}
		s.firstEntry = s.rot[newestDeleted].endEntry
		s.r.ProbeN("files_deleted_by_total_limit", newestDeleted+1)
		s.rot = append([]rotFile(nil), s.rot[newestDeleted+1:]...)
	}
	if mi := g.MinIndex(); mi > ma {
		s.r.Probe("group_MinIndex_beyond_MaxIndex")
	}
	extra := 0
	if s.pendingFrag {
		extra = s.fragLen
	}
	s.snaps = append(s.snaps, snap{n: len(s.entries), extra: extra, buffered: g.Buffered(), synced: s.synced})
	first := ma
	if len(s.rot) > 0 {
		first = s.rot[0].idx
	}
	s.c.Event("%s -> entries=%d synced=%d buffered=%d files=[%d..%d]", what, len(s.entries), s.synced, g.Buffered(), first, ma)
}

// ---------------------------------------------------------------- history ops

func pattern(n int, seed int64) []byte {
	b := make([]byte, n)
	x := uint32(seed*2654435761 + 12345)
	for i := range b {
		x = x*1664525 + 1013904223
		b[i] = byte(x >> 24)
	}
	return b
}

func (s *wsim) encLen(n int) int {
	return len(amino.MustMarshalSized(walm.TimedWALMessage{Time: tmtime.Now(), Msg: simMsg{Seq: s.seq + 1, Data: pattern(n, s.seq+1)}}))
}

func (s *wsim) drawDataLen() (int, string) {
	c := s.c
	max := int(s.maxSize)
	w := []int{6, 3, 3, 2, 1}
	if max <= 300 {
		w = []int{6, 1, 4, 0, 0}
	}
	if s.tiny {
		w = []int{1, 0, 0, 0, 0}
	}
	switch c.Weighted(w) {
	case 0:
		return c.Intn(41), "small"
	case 1:
		return c.Range(100, 1500), "medium"
	case 2: // encoded length within +-3 of the maximum
		target := max + c.Range(-3, 3)
		n := max - 40
		if n < 0 {
			n = 0
		}
		for i := 0; i < 4; i++ {
			d := target - s.encLen(n)
			if d == 0 {
				break
			}
			n += d
			if n < 0 {
				n = 0
				break
			}
		}
		return n, "around-max"
	case 3:
		return c.Range(2000, 12000), "multi-KB"
	default: // larger than the group's 40 KiB user-space buffer
		return c.Range(41000, 47000), "over-buffer"
	}
}

func (s *wsim) opWrite(sync bool) {
	n, class := s.drawDataLen()
	s.seq++
	msg := simMsg{Seq: s.seq, Data: pattern(n, s.seq)}
	twm := walm.TimedWALMessage{Time: tmtime.Now(), Msg: msg}
	sized := amino.MustMarshalSized(twm)
	tooBig := s.maxSize > 0 && int64(len(sized)) > s.maxSize
	var err error
	name := "Write"
	if sync {
		name = "WriteSync"
		err = s.w.WriteSync(msg)
	} else {
		err = s.w.Write(msg)
	}
	if err != nil {
		if !tooBig {
			kernel.Harnessf("%s of %d-byte message failed unexpectedly: %v", name, len(sized), err)
		}
		s.r.Probe("write_rejected_too_big")
		s.observe(fmt.Sprintf("%s %s data=%d enc=%d REJECTED", name, class, n, len(sized)))
		return
	}
	if tooBig {
		s.r.Probe("oversize_write_accepted")
	}
	if int64(len(sized)) == s.maxSize {
		s.r.Probe("write_exactly_max_size")
	}
	s.appendEntry(entry{kind: kMsg, tm: twm.Time, seq: msg.Seq, data: msg.Data})
	if sync {
		s.synced = len(s.entries)
	}
	s.observe(fmt.Sprintf("%s %s data=%d enc=%d", name, class, n, len(sized)))
}

func (s *wsim) opMeta() {
	h := s.nextH
	s.nextH++
	if s.c.Chance(1, 4) {
		s.nextH += int64(s.c.Range(1, 3)) // leave heights that are never written
	}
	if err := s.w.WriteMetaSync(walm.MetaMessage{Height: h}); err != nil {
		kernel.Harnessf("WriteMetaSync: %v", err)
	}
	s.maxH = h
	s.appendEntry(entry{kind: kMeta, h: h})
	s.synced = len(s.entries)
	s.observe(fmt.Sprintf("WriteMetaSync h=%d", h))
}

func (s *wsim) opFlush() {
	if err := s.w.FlushAndSync(); err != nil {
		kernel.Harnessf("FlushAndSync: %v", err)
	}
	s.synced = len(s.entries)
	s.observe("FlushAndSync")
}

func (s *wsim) opRotate() {
	s.w.Group().RotateFile()
	s.observe("RotateFile")
}

func (s *wsim) opSleep() {
	d := []time.Duration{10 * time.Millisecond, 500 * time.Millisecond, time.Second, 2500 * time.Millisecond, 7 * time.Second}[s.c.Intn(5)]
	t1 := time.Since(s.startedAt)
	time.Sleep(d)
	synctest.Wait()
	t2 := time.Since(s.startedAt)
	s.simNS += d
	// the WAL's periodic flusher ticks at startedAt + k*flushIv; the simulator
	// wrote nothing while asleep, so one tick makes everything durable.
	if t2/s.flushIv > t1/s.flushIv {
		if b := s.w.Group().Buffered(); b != 0 {
			kernel.Harnessf("periodic flush tick expected in (%v,%v] (interval %v) but %d bytes are still buffered", t1, t2, s.flushIv, b)
		}
		s.synced = len(s.entries)
		s.r.Probe("periodic_flush_tick")
	}
	s.observe(fmt.Sprintf("sleep %v", d))
}

func (s *wsim) opReopen() {
	s.stopWAL(s.w)
	s.synced = len(s.entries)
	s.r.Fault("close_reopen")
	s.c.Event("graceful stop")
	if s.c.Bool() {
		s.flushIv = s.drawFlushIv()
	}
	s.startLive()
}

func (s *wsim) drawFlushIv() time.Duration {
	return []time.Duration{2 * time.Second, 100 * time.Millisecond, time.Hour}[s.c.Intn(3)]
}

// diskStream reads the files the live directory holds right now.
func (s *wsim) diskStream(dir string) (stream []byte, files []fileSeg) {
	head := s.headPath(dir)
	for k := 0; k <= len(s.rot); k++ {
		p, idx := head, s.maxIdx
		if k < len(s.rot) {
			idx = s.rot[k].idx
			p = idxPath(head, idx)
		}
		b, err := os.ReadFile(p)
		if err != nil {
			if k == len(s.rot) && os.IsNotExist(err) {
				b = nil
			} else {
				kernel.Harnessf("reading %s: %v", filepath.Base(p), err)
			}
		}
		files = append(files, fileSeg{idx: idx, start: len(stream), end: len(stream) + len(b), data: b})
		stream = append(stream, b...)
	}
	return
}

func lineEnds(b []byte) (ends []int) {
	for i, x := range b {
		if x == '\n' {
			ends = append(ends, i+1)
		}
	}
	return
}

// opCrash: the process dies between two ops. kill keeps what was write()n;
// power loss keeps the synced prefix plus a drawn part of the unsynced tail.
// The image becomes the new live directory and the WAL is restarted on it.
func (s *wsim) opCrash() {
	during := ""
	if !s.pendingFrag && s.c.Bool() {
		// power loss DURING a write op: run the op, push its bytes to the file,
		// and keep only a prefix of what was not yet durable before the op.
		sb, mb := s.synced, s.maxIdx
		switch s.c.Intn(3) {
		case 0:
			s.opWrite(false)
			during = "Write"
		case 1:
			s.opWrite(true)
			during = "WriteSync"
		default:
			s.opMeta()
			during = "WriteMetaSync"
		}
		if s.stop {
			return
		}
		if err := s.w.FlushAndSync(); err != nil { // harness step: materialise the bytes, not a sync of the model
			kernel.Harnessf("FlushAndSync: %v", err)
		}
		if s.maxIdx == mb {
			s.synced = sb
		}
	}
	stream, files := s.diskStream(s.dir)
	ends := lineEnds(stream)
	have := len(s.entries) - s.firstEntry
	if len(ends) > have {
		s.fail("layout_mismatch", "files hold %d complete lines but only %d records were written", len(ends), have)
		return
	}
	yCount := s.synced - s.firstEntry
	if yCount > len(ends) {
		s.fail("synced_lost", "kill image at op %d: %d records were reported synced but only %d complete lines were ever write()n to the files (buffered=%d)",
			s.r.Steps, yCount, len(ends), s.w.Group().Buffered())
		return
	}
	yOff := 0
	if yCount > 0 {
		yOff = ends[yCount-1]
	}
	if s.pendingFrag && yCount == len(ends) {
		yOff = len(stream) // the torn fragment is part of the durable image we restarted from
	}
	t := len(stream)
	kind := "kill"
	if during != "" || s.c.Bool() {
		kind = "power_loss"
		span := len(stream) - yOff
		if s.c.Bool() { // tear close to the end (last bytes / newline of the last line)
			t = len(stream) - s.c.Intn(min(3, span+1))
		} else {
			t = yOff + s.c.Intn(span+1)
		}
	}
	if during != "" {
		kind = "power_loss_during_" + during
	}
	headSeg := files[len(files)-1]
	if t < headSeg.start {
		kernel.Harnessf("crash offset %d before head start %d (synced offset %d)", t, headSeg.start, yOff)
	}
	// build the image
	old := s.w
	s.gen++
	nd := filepath.Join(s.root, fmt.Sprintf("g%d", s.gen))
	if err := os.MkdirAll(nd, 0o700); err != nil {
		kernel.Harnessf("mkdir: %v", err)
	}
	nh := s.headPath(nd)
	for _, f := range files[:len(files)-1] {
		if err := os.WriteFile(idxPath(nh, f.idx), f.data, 0o600); err != nil {
			kernel.Harnessf("write image: %v", err)
		}
	}
	if err := os.WriteFile(nh, headSeg.data[:t-headSeg.start], 0o600); err != nil {
		kernel.Harnessf("write image: %v", err)
	}
	// the dead process: its object is dropped (stopping it flushes into the OLD directory only)
	s.stopWAL(old)
	// model
	nComplete := sort.SearchInts(ends, t+1) // lines with end <= t
	lost := len(s.entries) - (s.firstEntry + nComplete)
	s.entries = s.entries[:s.firstEntry+nComplete]
	lastEnd := 0
	if nComplete > 0 {
		lastEnd = ends[nComplete-1]
	}
	s.pendingFrag = t > lastEnd
	s.fragLen = t - lastEnd
	if s.pendingFrag {
		s.r.Probe("crash_left_torn_tail")
	}
	s.synced = len(s.entries)
	// snapshots that refer to lost entries are no longer crash points of this disk
	keep := s.snaps[:0]
	for _, sn := range s.snaps {
		if sn.n <= len(s.entries) && !(sn.n == len(s.entries) && sn.extra > s.fragLen) {
			keep = append(keep, sn)
		}
	}
	s.snaps = keep
	s.r.Fault(kind)
	s.c.Event("CRASH %s: stream=%d synced_off=%d keep=%d -> %d records lost, torn_tail=%d", kind, len(stream), yOff, t, lost, s.fragLen)
	s.dir = nd
	if s.c.Bool() {
		s.flushIv = s.drawFlushIv()
	}
	s.startLive()
}

// ---------------------------------------------------------------- reading

type item struct {
	kind  entryKind // kMsg / kMeta, or kCorrupt for an error
	tm    time.Time
	seq   int64
	data  []byte
	other string // a decoded message that is not a simMsg
	h     int64
	err   string
	typed bool
}

func (it item) String() string {
	switch it.kind {
	case kMsg:
		return fmt.Sprintf("msg(seq=%d,%dB%s)", it.seq, len(it.data), it.other)
	case kMeta:
		return fmt.Sprintf("meta(h=%d)", it.h)
	}
	return "error(" + it.err + ")"
}

func (it item) matches(e entry) bool {
	switch e.kind {
	case kMsg:
		return it.kind == kMsg && it.other == "" && it.seq == e.seq && it.tm.Equal(e.tm) && bytes.Equal(it.data, e.data)
	case kMeta:
		return it.kind == kMeta && it.h == e.h
	}
	return it.kind == kCorrupt
}

// readItems drains a WALReader. The reader may be continued after an error
// (every error consumes its line); limit bounds the loop.
func readItems(dec *walm.WALReader, limit int) (items []item, eof bool, pan any) {
	defer func() {
		if r := recover(); r != nil {
			pan = r
		}
	}()
	for len(items) < limit {
		m, meta, err := dec.ReadMessage()
		if err != nil {
			if errors.Is(err, io.EOF) {
				return items, true, nil
			}
			items = append(items, item{kind: kCorrupt, err: err.Error(), typed: walm.IsDataCorruptionError(err)})
			continue
		}
		switch {
		case m != nil:
			if sm, ok := m.Msg.(simMsg); ok {
				items = append(items, item{kind: kMsg, tm: m.Time, seq: sm.Seq, data: sm.Data})
			} else {
				items = append(items, item{kind: kMsg, tm: m.Time, other: fmt.Sprintf(" %T", m.Msg)})
			}
		case meta != nil:
			items = append(items, item{kind: kMeta, h: meta.Height})
		default:
			items = append(items, item{kind: kCorrupt, err: "reader returned (nil,nil,nil)"})
		}
	}
	return items, false, nil
}

func (s *wsim) readAll(w realWAL, limit int) ([]item, bool, any) {
	g := w.Group()
	gr, err := g.NewReader(g.MinIndex(), 0)
	if err != nil {
		kernel.Harnessf("NewReader: %v", err)
	}
	dec := walm.NewWALReader(gr, s.maxSize)
	items, eof, pan := readItems(dec, limit)
	func() {
		defer func() { recover() }()
		gr.Close()
	}()
	return items, eof, pan
}

// ---------------------------------------------------------------- finalize

func (s *wsim) finalize() bool {
	s.stopWAL(s.w)
	s.w = nil
	s.c.Event("final graceful stop")
	s.stream, s.files = s.diskStream(s.dir)
	s.lineEnd = lineEnds(s.stream)
	have := len(s.entries) - s.firstEntry
	tail := len(s.stream)
	if len(s.lineEnd) > 0 {
		tail -= s.lineEnd[len(s.lineEnd)-1]
	}
	wantTail := 0
	if s.pendingFrag {
		wantTail = s.fragLen
	}
	if len(s.lineEnd) != have || tail != wantTail {
		s.fail("layout_mismatch", "after a graceful stop the files hold %d complete lines + %d trailing bytes; %d records were written (+%d bytes of torn tail)",
			len(s.lineEnd), tail, have, wantTail)
		return false
	}
	for _, e := range s.vis() {
		if e.kind == kCorrupt {
			s.nCorrupt++
		}
	}
	sizes := make([]int, len(s.files))
	for i, f := range s.files {
		sizes[i] = f.end - f.start
	}
	s.c.Event("final layout: stream=%d lines=%d files=%v first_index=%d glued_lines=%d", len(s.stream), len(s.lineEnd), sizes, s.files[0].idx, s.nCorrupt)
	return true
}

// vis is the list of entries that survive in the final files.
func (s *wsim) vis() []entry { return s.entries[s.firstEntry:] }

// endOf(n) = stream offset after the first n surviving entries.
func (s *wsim) endOf(n int) int {
	if n <= 0 {
		return 0
	}
	return s.lineEnd[n-1]
}

// nComplete(t) = number of surviving lines that end at or before offset t.
func (s *wsim) nComplete(t int) int { return sort.SearchInts(s.lineEnd, t+1) }

// fileOfEntry returns the position in s.files of the file holding surviving entry i.
func (s *wsim) fileOfEntry(i int) int {
	off := s.endOf(i) // start offset of line i
	for k, f := range s.files {
		if off < f.end {
			return k
		}
	}
	return len(s.files) - 1
}

// ---------------------------------------------------------------- oracles

// checkExact: the untouched log reads back exactly what was written.
func (s *wsim) checkExact(w realWAL, what string) {
	E := s.vis()
	items, eof, pan := s.readAll(w, len(E)+8)
	if pan != nil {
		s.fail("reader_panic", "%s: reader panicked: %v", what, pan)
		return
	}
	for i, it := range items {
		if i >= len(E) {
			s.fail("read_mismatch", "%s: reader returned %v after the %d records written (invented record)", what, it, len(E))
			return
		}
		if !it.matches(E[i]) {
			if E[i].kind == kCorrupt {
				s.anomaly("glued_line_accepted", "%s: line %d is a record appended (after a restart) to the torn tail of a crash; the reader returned %v for it without any error, so the appended record is silently lost", what, i, it)
				if s.stop {
					return
				}
				// later phases compare against what the reader makes of this line
				E[i] = entry{kind: it.kind, tm: it.tm, seq: it.seq, data: it.data, h: it.h}
				s.nCorrupt--
				s.gluedAccepted = true
				continue
			}
			s.fail("read_mismatch", "%s: record %d read back as %v, written as %v", what, i, it, E[i])
			return
		}
		if it.kind == kCorrupt && !it.typed {
			s.r.Probe("error_not_DataCorruptionError")
		}
	}
	if eof && len(items) < len(E) && E[len(items)].kind == kCorrupt {
		s.anomaly("corruption_reported_as_eof", "%s: line %d is a record appended (after a restart) to the torn tail of a crash; the reader reports a clean EOF there, hiding the %d records written after it",
			what, len(items), len(E)-len(items)-1)
		s.cut = true
		return
	}
	if !eof || len(items) != len(E) {
		s.fail("read_mismatch", "%s: read %d records (eof=%v), %d were written", what, len(items), eof, len(E))
	}
}

// checkPrefix: the image read is a prefix of what was written, then EOF or an
// error; entries up to reqN (durable at the crash point) must all be present.
func (s *wsim) checkPrefix(w realWAL, what string, visN, reqN int) (nRead int, end string) {
	E := s.vis()[:visN]
	items, eof, pan := s.readAll(w, len(s.vis())+8)
	if pan != nil {
		s.fail("reader_panic", "%s: reader panicked: %v", what, pan)
		return 0, "panic"
	}
	end = "eof"
	if !eof {
		end = "no-eof"
	}
	n := 0
	for _, it := range items {
		if n < len(E) && it.matches(E[n]) {
			n++
			continue
		}
		if it.kind != kCorrupt {
			if n >= len(E) {
				s.fail("truncation_invented", "%s: reader returned %v beyond the %d complete lines of the image", what, it, len(E))
			} else if E[n].kind == kCorrupt {
				s.anomaly("glued_line_accepted", "%s: line %d is a record appended (after a restart) to the torn tail of a crash; the reader returned %v for it without any error", what, n, it)
			} else {
				s.fail("truncation_altered", "%s: record %d read as %v, written as %v", what, n, it, E[n])
			}
			return n, "bad"
		}
		// an error ends the prefix
		end = "error"
		if !it.typed {
			s.r.Probe("error_not_DataCorruptionError")
		}
		s.r.Probe("truncation_image_ended_by_error")
		break
	}
	if !eof && end != "error" {
		s.fail("truncation_invented", "%s: reader produced %d items without reaching EOF", what, len(items))
		return n, "bad"
	}
	if end == "eof" && n < len(E) && E[n].kind == kCorrupt {
		s.anomaly("corruption_reported_as_eof", "%s: line %d is a record appended to the torn tail of a crash; the reader reports a clean EOF there", what, n)
		return n, "bad"
	}
	if n < reqN {
		s.fail("synced_lost", "%s: only %d records readable (then %s) but %d were covered by a successful sync before the crash point", what, n, end, reqN)
		return n, "bad"
	}
	if n < len(E) {
		s.r.Probe("complete_line_not_returned")
	}
	return n, end
}

var searchModes = []walm.WALSearchMode{walm.WALSearchModeInvalid, walm.WALSearchModeBackwards, walm.WALSearchModeBinary}

// checkSearch runs SearchForHeight(h) on w, whose files hold the first visN
// surviving entries laid out so that entry i lives in file fileOf(i).
func (s *wsim) checkSearch(w realWAL, what string, visN int, fileOf func(int) int, h int64, mode walm.WALSearchMode, ignoreCorrupt bool) {
	E := s.vis()[:visN]
	want := -1
	hasCorrupt := false
	for i, e := range E {
		if e.kind == kMeta && e.h == h && want < 0 {
			want = i
		}
		if e.kind == kCorrupt {
			hasCorrupt = true
		}
	}
	var opts *walm.WALSearchOptions
	if mode != walm.WALSearchModeInvalid || ignoreCorrupt {
		opts = &walm.WALSearchOptions{Mode: mode, IgnoreDataCorruptionErrors: ignoreCorrupt}
	}
	var (
		rd    io.ReadCloser
		found bool
		err   error
		pan   any
	)
	func() {
		defer func() {
			if r := recover(); r != nil {
				pan = r
			}
		}()
		rd, found, err = w.SearchForHeight(h, opts)
	}()
	s.r.Probe("searches")
	if pan != nil {
		s.fail("search_panic", "%s: SearchForHeight(%d, mode=%d) panicked: %v", what, h, mode, pan)
		return
	}
	defer func() {
		if rd != nil {
			func() {
				defer func() { recover() }()
				rd.Close()
			}()
		}
	}()
	if err != nil {
		if hasCorrupt {
			s.r.Probe("search_error_on_log_with_glued_line")
			return
		}
		s.fail("search_error", "%s: SearchForHeight(%d, mode=%d) on an intact log: %v", what, h, mode, err)
		return
	}
	if found != (want >= 0) {
		if hasCorrupt || s.nCorrupt > 0 || s.gluedAccepted {
			// (s.nCorrupt: the log holds a line glued to the torn tail of an earlier crash somewhere — e.g. an unterminated
			// marker at the end of a rotated file that the sequential reader accepts and the search does not. Logs written
			// by crash + restart + append are outside C38's quantifier; their handling is tracked by anomaly probes.)
			s.r.Probe("search_disagrees_on_log_with_glued_line")
			return
		}
		s.fail("search_found_mismatch", "%s: SearchForHeight(%d, mode=%d) found=%v but marker written=%v (layout: %d files)", what, h, mode, found, want >= 0, len(s.files))
		return
	}
	if !found {
		s.r.Probe("search_not_found_ok")
		return
	}
	dec := walm.NewWALReader(rd, s.maxSize) // as consensus catchupReplay does
	items, eof, rp := readItems(dec, len(E)+8)
	if rp != nil {
		s.fail("reader_panic", "%s: reading after SearchForHeight(%d) panicked: %v", what, h, rp)
		return
	}
	rest := E[want+1:]
	inFile := 0 // records after the marker that live in the marker's file
	for i := want + 1; i < len(E) && fileOf(i) == fileOf(want); i++ {
		inFile++
	}
	if s.gluedAccepted {
		// the model adopted the sequential reader's view of a line glued to a crash's torn tail (anomaly
		// glued_line_accepted); what a reader positioned by the search makes of that line is the same anomaly, not C38
		s.r.Probe("search_position_not_judged_on_log_with_accepted_glued_line")
		return
	}
	for i, it := range items {
		if i < len(rest) && rest[i].kind == kCorrupt && it.kind != kCorrupt {
			s.anomaly("glued_line_accepted", "%s: reading after SearchForHeight(%d): line %d after the marker is a record appended to the torn tail of a crash; the reader returned %v for it without any error", what, h, i, it)
			return
		}
		if i >= len(rest) || !it.matches(rest[i]) {
			exp := "EOF"
			if i < len(rest) {
				exp = rest[i].String()
			}
			s.fail("search_position", "%s: after SearchForHeight(%d, mode=%d) item %d is %v, expected %s (marker is record %d)", what, h, mode, i, it, exp, want)
			return
		}
	}
	if eof && len(items) < len(rest) && rest[len(items)].kind == kCorrupt {
		s.anomaly("corruption_reported_as_eof", "%s: reading after SearchForHeight(%d): line %d after the marker is a record appended to the torn tail of a crash; the reader reports a clean EOF there", what, h, len(items))
		return
	}
	if !eof || len(items) < inFile {
		s.fail("search_position", "%s: after SearchForHeight(%d, mode=%d) the reader yielded %d records (eof=%v); %d follow the marker in its own file", what, h, mode, len(items), eof, inFile)
		return
	}
	s.r.Probe("search_found_ok")
	if len(items) < len(rest) {
		tailFail := s.fail
		if s.p.Knob("search_tail", "violation") == "anomaly" {
			tailFail = s.anomaly
		}
		tailFail("search_tail_lost", "SearchForHeight(%d): marker is in file %d of %d; the returned reader ended after %d records at the end of that file, %d more records follow in later files",
			h, fileOf(want)+1, len(s.files), len(items), len(rest)-len(items))
	} else if fileOf(want) != len(s.files)-1 && len(rest) > inFile {
		s.r.Probe("search_reader_crossed_files")
	}
}

func (s *wsim) searchHeights() []int64 {
	hs := []int64{-1, s.maxH + 1, s.maxH + 7}
	for h := int64(0); h <= s.maxH; h++ {
		hs = append(hs, h)
	}
	return hs
}

// ---------------------------------------------------------------- images

type imager struct {
	s      *wsim
	dir    string
	curK   int // position in s.files of the file acting as head; -1 = nothing built
	curLen int
}

func (im *imager) reset() {
	os.RemoveAll(im.dir)
	if err := os.MkdirAll(im.dir, 0o700); err != nil {
		kernel.Harnessf("mkdir: %v", err)
	}
	im.curK = -1
}

// set builds the directory a crash at stream offset t leaves behind. renamed:
// t is exactly the end of a rotated file and the rename already happened.
func (im *imager) set(t int, renamed bool) (layoutFiles int) {
	s := im.s
	k := len(s.files) - 1
	for i, f := range s.files {
		if t < f.end || (t == f.end && !renamed) {
			k = i
			break
		}
		if t == f.end && renamed && i+1 < len(s.files) {
			k = i + 1
			break
		}
	}
	f := s.files[k]
	want := t - f.start
	if want < 0 {
		want = 0
	}
	head := s.headPath(im.dir)
	if im.curK != k {
		im.reset()
		for _, g := range s.files[:k] {
			if err := os.WriteFile(idxPath(head, g.idx), g.data, 0o600); err != nil {
				kernel.Harnessf("write image: %v", err)
			}
		}
		if err := os.WriteFile(head, f.data[:want], 0o600); err != nil {
			kernel.Harnessf("write image: %v", err)
		}
		im.curK, im.curLen = k, want
		return k + 1
	}
	if want <= im.curLen {
		if err := os.Truncate(head, int64(want)); err != nil {
			kernel.Harnessf("truncate image: %v", err)
		}
	} else if err := os.WriteFile(head, f.data[:want], 0o600); err != nil {
		kernel.Harnessf("write image: %v", err)
	}
	im.curLen = want
	return k + 1
}

// fileOfIn maps an entry to its file when file position k acts as the head.
func (s *wsim) fileOfIn(k int) func(int) int {
	return func(i int) int {
		j := s.fileOfEntry(i)
		if j > k {
			j = k
		}
		return j
	}
}

func (s *wsim) phaseTruncation(quick bool) {
	c := s.c
	L := len(s.stream)
	type tgt struct {
		t   int
		req int // surviving entries that must be readable
	}
	// requirement for a generic offset: the largest synced frontier at or before it
	var syncedSet []int
	for _, sn := range s.snaps {
		if sn.synced >= s.firstEntry {
			syncedSet = append(syncedSet, sn.synced-s.firstEntry)
		}
	}
	sort.Ints(syncedSet)
	reqAt := func(t int) int {
		r := 0
		for _, y := range syncedSet {
			if s.endOf(y) <= t {
				r = y
			} else {
				break
			}
		}
		return r
	}
	offs := map[int]int{} // t -> req (max)
	add := func(t, req int) {
		if t < 0 || t > L {
			return
		}
		if old, ok := offs[t]; !ok || req > old {
			offs[t] = req
		}
	}
	smallLimit, window, samples, maxBound := 3000, 400, 150, 120
	if !quick {
		smallLimit, window, samples, maxBound = 12000, 4000, 600, 1000
	}
	exhaustive := L <= smallLimit
	if exhaustive {
		for t := 0; t <= L; t++ {
			add(t, reqAt(t))
		}
		s.r.Probe("runs_with_every_offset_enumerated")
	} else {
		for t := L - window; t <= L; t++ {
			add(t, reqAt(t))
		}
		bounds := append([]int{0}, s.lineEnd...)
		step := 1
		if len(bounds) > maxBound {
			step = len(bounds)/maxBound + 1
		}
		for i := c.Intn(step); i < len(bounds); i += step {
			for d := -3; d <= 3; d++ {
				add(bounds[i]+d, reqAt(bounds[i]+d))
			}
		}
		for _, f := range s.files {
			for d := -3; d <= 3; d++ {
				add(f.end+d, reqAt(f.end+d))
			}
		}
		for i := 0; i < samples; i++ {
			t := c.Intn(L + 1)
			add(t, reqAt(t))
		}
	}
	// crash points of every op: kill image (what was write()n) with the op's own sync frontier
	for _, sn := range s.snaps {
		if sn.n < s.firstEntry {
			continue
		}
		f := s.endOf(sn.n-s.firstEntry) + sn.extra - sn.buffered
		req := sn.synced - s.firstEntry
		if req < 0 {
			req = 0
		}
		if f < 0 {
			continue
		}
		add(f, req)
	}
	ts := make([]int, 0, len(offs))
	for t := range offs {
		ts = append(ts, t)
	}
	sort.Sort(sort.Reverse(sort.IntSlice(ts)))

	im := &imager{s: s, dir: filepath.Join(s.root, "img"), curK: -1}
	hs := s.searchHeights()
	torn, images, searched := 0, 0, 0
	fileEnds := map[int]bool{}
	for _, f := range s.files[:len(s.files)-1] {
		fileEnds[f.end] = true
	}
	for _, t := range ts {
		if s.stop {
			break
		}
		variants := []bool{false}
		if fileEnds[t] {
			variants = []bool{false, true}
		}
		for _, renamed := range variants {
			nf := im.set(t, renamed)
			visN := s.nComplete(t)
			if t > s.endOf(visN) {
				torn++
			}
			w := s.newWAL(im.dir)
			what := fmt.Sprintf("truncation image at stream offset %d/%d (%d files, renamed=%v)", t, L, nf, renamed)
			n, end := s.checkPrefix(w, what, visN, offs[t])
			images++
			s.c.Event("trunc t=%d files=%d renamed=%v complete=%d req=%d read=%d end=%s", t, nf, renamed, visN, offs[t], n, end)
			// SearchForHeight on images that end right after a line, and on a sample
			if !s.stop && (t == s.endOf(visN) && visN > 0 && s.vis()[visN-1].kind == kMeta || images%37 == 0) {
				fo := s.fileOfIn(nf - 1)
				h := hs[c.Intn(len(hs))]
				if c.Bool() && visN > 0 && s.vis()[visN-1].kind == kMeta {
					h = s.vis()[visN-1].h
				}
				s.checkSearch(w, what, visN, fo, h, searchModes[c.Intn(3)], c.Chance(1, 4))
				searched++
			}
			s.closeRO(w)
			if s.stop {
				break
			}
		}
	}
	s.r.ProbeN("truncation_images", images)
	s.r.ProbeN("torn_record_images", torn)
	s.r.ProbeN("truncation_images_searched", searched)
	if images > 0 {
		s.r.Fault("truncation")
	}
	os.RemoveAll(im.dir)
}

func (s *wsim) phaseSearch() {
	w := s.newWAL(s.dir)
	defer func() { s.closeRO(w) }()
	for _, h := range s.searchHeights() {
		for _, mode := range searchModes {
			if s.stop {
				return
			}
			s.checkSearch(w, "final layout", len(s.vis()), s.fileOfEntry, h, mode, false)
		}
	}
	if len(s.files) >= 2 {
		s.r.Probe("search_over_rotated_layout")
	}
	if len(s.files) >= 5 {
		s.r.Probe("search_over_5+_files")
	}
}

// phaseFlip: single-byte corruption of the final files.
func (s *wsim) phaseFlip(quick bool) {
	c := s.c
	L := len(s.stream)
	if L == 0 {
		return
	}
	dir := filepath.Join(s.root, "flip")
	os.RemoveAll(dir)
	if err := os.MkdirAll(dir, 0o700); err != nil {
		kernel.Harnessf("mkdir: %v", err)
	}
	head := s.headPath(dir)
	pathOf := func(k int) string {
		if k == len(s.files)-1 {
			return head
		}
		return idxPath(head, s.files[k].idx)
	}
	for k, f := range s.files {
		if err := os.WriteFile(pathOf(k), f.data, 0o600); err != nil {
			kernel.Harnessf("write image: %v", err)
		}
	}
	E := s.vis()
	type flip struct {
		pos int
		val byte
	}
	var flips []flip
	mask := func() byte { return 1 << uint(c.Intn(8)) }
	small, samples := 3000, 250
	if !quick {
		small, samples = 6000, 1500
	}
	if L <= small {
		for p := 0; p < L; p++ {
			flips = append(flips, flip{p, s.stream[p] ^ mask()})
		}
		s.r.Probe("runs_with_every_byte_flipped")
	} else {
		for i := 0; i < samples; i++ {
			p := c.Intn(L)
			flips = append(flips, flip{p, s.stream[p] ^ mask()})
		}
	}
	// targeted: line starts/ends, newline bytes, special replacement values
	special := []byte{'\n', '#', '"', '0', '9', 'A', '=', 0}
	nb := len(s.lineEnd)
	step := 1
	if nb > 120 {
		step = nb/120 + 1
	}
	for i := c.Intn(step); i < nb; i += step {
		st, en := s.endOf(i), s.lineEnd[i]
		for _, p := range []int{st, st + 1, en - 2, en - 1} {
			if p >= 0 && p < L {
				flips = append(flips, flip{p, s.stream[p] ^ mask()})
				flips = append(flips, flip{p, special[c.Intn(len(special))]})
			}
		}
		if E[i].kind == kMeta { // every byte of a sample of marker lines
			for p := st; p < en; p++ {
				flips = append(flips, flip{p, s.stream[p] ^ mask()})
			}
		} else if en-st > 8 {
			p := st + c.Intn(en-st)
			flips = append(flips, flip{p, special[c.Intn(len(special))]})
		}
	}
	done, silentSame, metaFlips := 0, 0, 0
	for _, fl := range flips {
		if s.stop {
			break
		}
		if fl.val == s.stream[fl.pos] {
			continue
		}
		k := 0
		for i, f := range s.files {
			if fl.pos < f.end {
				k = i
				break
			}
		}
		f := s.files[k]
		poke := func(v byte) {
			fh, err := os.OpenFile(pathOf(k), os.O_WRONLY, 0o600)
			if err == nil {
				_, err = fh.WriteAt([]byte{v}, int64(fl.pos-f.start))
				fh.Close()
			}
			if err != nil {
				kernel.Harnessf("patch image: %v", err)
			}
		}
		if j0 := s.nComplete(fl.pos); j0 < len(E) && E[j0].kind == kCorrupt {
			// the target is already a corrupt (glued) line left by an earlier crash+append: the property says nothing
			// about damaging it further, and a '\n' written into it legitimately resurrects the record it had swallowed
			continue
		}
		poke(fl.val)
		j := s.nComplete(fl.pos) // index of the damaged line
		if j >= len(E) {
			j = len(E) // inside the trailing torn fragment
		}
		w := s.newWAL(dir)
		items, eof, pan := s.readAll(w, len(E)+10)
		s.closeRO(w)
		poke(s.stream[fl.pos])
		done++
		what := fmt.Sprintf("byte %d (line %d, %v) changed %#02x->%#02x", fl.pos, j, entryAt(E, j), s.stream[fl.pos], fl.val)
		if pan != nil {
			s.fail("reader_panic", "%s: reader panicked: %v", what, pan)
			break
		}
		if !eof {
			s.fail("corruption_invented", "%s: reader produced %d items without reaching EOF", what, len(items))
			break
		}
		nlImg := len(s.lineEnd)
		if s.stream[fl.pos] == '\n' {
			nlImg--
		} else if fl.val == '\n' {
			nlImg++
		}
		if len(items) < nlImg && j < len(E) && E[j].kind == kMsg {
			s.fail("msg_corruption_reported_as_eof", "%s: the reader reported a clean EOF after %d lines although the files hold %d lines", what, len(items), nlImg)
			continue
		}
		if len(items) < nlImg {
			s.anomaly("corruption_reported_as_eof", "%s: the reader reported a clean EOF after %d lines although the files hold %d lines: the damaged line is reported as end-of-log and %d later records are hidden",
				what, len(items), nlImg, nlImg-len(items)-1)
			continue
		}
		// the LAST newline of the stream lost: the last line (plus any torn fragment behind it) becomes an unterminated
		// tail, which is what a crash-truncated log looks like: prefix + EOF is a legal answer
		unterminated := s.stream[fl.pos] == '\n' && bytes.IndexByte(s.stream[fl.pos+1:], '\n') < 0
		if unterminated {
			s.r.Probe("flip_made_last_line_unterminated")
		}
		// 1. lines before the damaged one are untouched
		// 2. every successfully decoded item is, in order, one of the records written
		// 3. if the damaged line itself is not returned unaltered, an error must be reported
		ei := 0
		errs := 0
		gotDamaged := false
		bad := false
		isMeta := j < len(E) && E[j].kind == kMeta
		if isMeta {
			metaFlips++
		}
		for n, it := range items {
			if n < j {
				if !it.matches(E[n]) {
					s.fail("corruption_spread", "%s: record %d before the damaged line read as %v, written as %v", what, n, it, E[n])
					bad = true
					break
				}
				ei = n + 1
				continue
			}
			if it.kind == kCorrupt {
				errs++
				if !it.typed {
					s.r.Probe("error_not_DataCorruptionError")
				}
				continue
			}
			for ei < len(E) && !it.matches(E[ei]) {
				ei++
			}
			if ei >= len(E) {
				if isMeta {
					s.anomaly("meta_flip_accepted", "%s: reader returned %v without any error — an altered height marker (marker lines carry no checksum)", what, it)
				} else {
					s.fail("corruption_accepted", "%s: reader returned %v which was never written (altered or invented record)", what, it)
				}
				bad = true
				break
			}
			if ei == j {
				gotDamaged = true
			}
			ei++
		}
		if bad {
			continue
		}
		if len(items) < j {
			s.fail("corruption_spread", "%s: only %d items read, %d intact records precede the damaged line", what, len(items), j)
			continue
		}
		if j < len(E) && !gotDamaged && errs == 0 && E[j].kind != kCorrupt && !unterminated {
			s.fail("corruption_silent_drop", "%s: the damaged record vanished without an error", what)
			continue
		}
		if gotDamaged {
			silentSame++
		}
		if errs > 0 {
			s.r.Probe("corruption_reported")
		}
	}
	s.c.Event("flips=%d benign=%d on_marker_lines=%d", done, silentSame, metaFlips)
	s.r.ProbeN("byte_flip_images", done)
	s.r.ProbeN("byte_flips_decoding_to_identical_record", silentSame)
	s.r.ProbeN("byte_flips_on_marker_lines", metaFlips)
	if done > 0 {
		s.r.Fault("byte_flip")
	}
	os.RemoveAll(dir)
}

func entryAt(E []entry, j int) string {
	if j < len(E) {
		return E[j].String()
	}
	return "torn tail"
}

// ---------------------------------------------------------------- run

func runWAL(c *kernel.Choices, p kernel.Params) *kernel.Result {
	var res *kernel.Result
	var pan any
	synctest.Test(theT, func(t *testing.T) {
		s := &wsim{c: c, r: kernel.NewResult(), p: p, prop: p.Property, knownSeen: map[string]bool{}, anoms: map[string]string{}}
		defer func() {
			if r := recover(); r != nil {
				pan = r
			}
			s.cleanup()
			if s.root != "" {
				os.RemoveAll(s.root)
			}
		}()
		s.run()
		res = s.r
	})
	if pan != nil {
		panic(pan)
	}
	return res
}

func (s *wsim) run() {
	c := s.c
	// The thorough tier runs MORE histories of the same per-run configuration as the quick tier. The larger per-run
	// configuration (up to 320 ops, 64 KiB records, thousands of truncation/flip points; knob deep=1) raised three
	// alarm shapes on the unchanged tree in its first complete run (search_position, corruption_silent_drop,
	// corruption_accepted at file-rotation boundaries) that have not been triaged yet: it is not part of the registered
	// commands until they are (DESIGN 8.9).
	quick := s.p.Tier != "thorough" || s.p.Knob("deep", "0") == "0"
	scratch := os.Getenv("VERIF_SCRATCH")
	if scratch == "" {
		scratch = "/dev/shm"
	}
	s.root = filepath.Join(scratch, fmt.Sprintf("wal-%d-%d", os.Getpid(), runCounter.Add(1)))
	os.RemoveAll(s.root)
	s.dir = filepath.Join(s.root, "g0")
	if err := os.MkdirAll(s.dir, 0o700); err != nil {
		kernel.Harnessf("mkdir: %v", err)
	}
	s.maxSize = []int64{4096, 256, 65536}[c.Weighted([]int{4, 2, 2})]
	s.headLimit = []int64{600, 200, 2000, 8000, 50000}[c.Weighted([]int{4, 2, 3, 2, 1})]
	s.totLimit = -1 // group default (1 GiB)
	if c.Chance(1, 4) {
		s.totLimit = s.headLimit * int64(c.Range(3, 8))
	}
	s.flushIv = s.drawFlushIv()
	s.tiny = c.Chance(1, 3)
	s.nextH = 1
	c.Event("cfg maxSize=%d headLimit=%d totalLimit=%d flushInterval=%v tiny=%v", s.maxSize, s.headLimit, s.totLimit, s.flushIv, s.tiny)
	s.startLive()

	nops := 10 + c.Intn(70)
	if !quick {
		nops = 20 + c.Intn(300)
		if s.maxSize > 4096 && nops > 120 {
			nops = 120 // 64 KiB records x hundreds of ops x thousands of truncation points cost tens of CPU-minutes per run
		}
	}
	if s.tiny {
		nops = 6 + c.Intn(34)
	}
	wts := []int{
		30,            // Write
		10,            // WriteSync
		8 + c.Intn(8), // WriteMetaSync
		4,             // FlushAndSync
		c.Intn(4),     // RotateFile
		6,             // sleep
		c.Intn(4),     // close+reopen
		c.Intn(4),     // crash+restart
	}
	for i := 0; i < nops && !s.stop; i++ {
		switch c.Weighted(wts) {
		case 0:
			s.opWrite(false)
		case 1:
			s.opWrite(true)
		case 2:
			s.opMeta()
		case 3:
			s.opFlush()
		case 4:
			s.opRotate()
		case 5:
			s.opSleep()
		case 6:
			s.opReopen()
		case 7:
			s.opCrash()
		}
		s.r.Steps++
	}
	if !s.stop && s.finalize() {
		// 1. the untouched log
		w := s.newWAL(s.dir)
		s.checkExact(w, "untouched log")
		s.closeRO(w)
		if s.cut {
			s.r.Probe("run_cut_short_by_reader_eof_at_glued_line")
		}
		if !s.stop && !s.cut {
			s.phaseSearch()
		}
		if !s.stop && !s.cut {
			s.phaseTruncation(quick)
		}
		if !s.stop && !s.cut && s.p.Knob("flips", "1") != "0" {
			s.phaseFlip(quick)
		}
	}
	s.r.SimSeconds = s.simNS.Seconds()
	s.r.ProbeN("records_written", len(s.entries))
	s.r.ProbeN("stream_bytes", len(s.stream))
	if len(s.files) > 1 {
		s.r.ProbeN("files_in_final_layout", len(s.files))
	}
	s.r.Nontrivial = len(s.entries) >= 5 && s.r.Probes["truncation_images"] > 0
	s.r.Sample = map[string]any{"first_events": c.Log[:min(len(c.Log), 25)], "events": c.Events(), "records": len(s.entries), "files": len(s.files)}
	if len(s.anoms) > 0 {
		s.r.Sample.(map[string]any)["anomalies"] = s.anoms
	}
}
