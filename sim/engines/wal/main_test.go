package wal

import (
	"os"
	"os/signal"
	"runtime/debug"
	"syscall"
	"testing"

	"verif/sim/kernel"
)

func TestSim(t *testing.T) {
	if os.Getenv("VERIF_PROP") == "" {
		t.Skip("driven by /verif/check")
	}
	// autofile installs a SIGHUP handler for every file it opens; the first
	// os/signal.Notify of the process must happen outside any synctest bubble.
	hup := make(chan os.Signal, 1)
	signal.Notify(hup, syscall.SIGHUP)
	theT = t
	debug.SetGCPercent(400) // thousands of short-lived 40 KiB group buffers per run
	code := kernel.Main("wal", map[string]kernel.Engine{
		"C38": runWAL,
	})
	if code != 0 {
		os.Exit(code)
	}
}
