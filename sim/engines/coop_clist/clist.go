// Engine coop_clist (property C49): the real tm2/pkg/clist, compiled with the
// sync shim (build overlay produced by /verif/sim/cmd/instrument), driven by
// 2..4 cooperative tasks whose interleaving at every lock / wait-group
// operation is decided by the seed.
//
// Oracles
//
//	linearizability  the history of completed operations (invoke/return stamped
//	                 with the scheduler's logical clock, unique values) must be
//	                 linearizable w.r.t. a sequential model of the list
//	                 (porcupine; Unknown = inconclusive, never a violation)
//	lost_wakeup      when every unfinished task is blocked, a task blocked in
//	                 FrontWait/BackWait/WaitChan although the list is non-empty,
//	                 or in NextWait/NextWaitChan (PrevWait) of e although e has a
//	                 next (prev) or is removed, has lost its wake-up. Legitimate
//	                 waiters are then released (one PushBack, or Remove of the
//	                 head a PrevWait waits on) and the run continues, so that at
//	                 the end nobody may still be blocked.
//	deadlock         a task blocked on a lock nobody will release
//	panic            the list panicked although every call respected its contract
//	traversal_order  (backstop, implied by linearizability) a traversal never
//	                 repeats an element and traversals agree on relative order
//	remove_value     Remove returned another value than the element's
package coop_clist

import (
	"fmt"
	"sort"
	"strings"
	"time"

	"github.com/anishathalye/porcupine"

	"github.com/gnolang/gno/tm2/pkg/clist"

	"verif/sim/coop"
	"verif/sim/kernel"
)

const clistPkg = "github.com/gnolang/gno/tm2/pkg/clist"

// ---- operations -----------------------------------------------------------

const (
	opPushBack = iota
	opRemove
	opFront
	opNext
	opFrontWait
	opNextWait
	opWaitChan     // <-l.WaitChan()
	opNextWaitChan // <-e.NextWaitChan()
	opLen
	opBack
	opDetachPrev
	opDetachNext
	// "all" mode only (mixed-direction observers)
	opPrev
	opPrevWait
	opRemoved
	opBackWait
	opPrevWaitChan
	nOps
)

var opNames = [...]string{"PushBack", "Remove", "Front", "Next", "FrontWait", "NextWait", "WaitChan", "NextWaitChan",
	"Len", "Back", "DetachPrev", "DetachNext", "Prev", "PrevWait", "Removed", "BackWait", "PrevWaitChan"}

type in struct {
	Kind int
	Arg  int // element id, -1 if none
}

type out struct {
	V int // element id / length / value; -1 = nil
	B bool
}

type opRec struct {
	task      int
	in        in
	out       out
	call, ret int64
	done      bool
}

func (o *opRec) String() string {
	arg := ""
	if o.in.Arg >= 0 {
		arg = fmt.Sprintf("e%d", o.in.Arg)
	}
	res := "pending"
	if o.done {
		switch o.in.Kind {
		case opPushBack, opDetachPrev, opDetachNext, opWaitChan, opNextWaitChan, opPrevWaitChan:
			res = "ok"
		case opLen:
			res = fmt.Sprint(o.out.V)
		case opRemoved:
			res = fmt.Sprint(o.out.B)
		default:
			if o.out.V < 0 {
				res = "nil"
			} else {
				res = fmt.Sprintf("e%d", o.out.V)
			}
		}
	}
	return fmt.Sprintf("t%d [%d,%d] %s(%s) -> %s", o.task, o.call, o.ret, opNames[o.in.Kind], arg, res)
}

// ---- sequential model -------------------------------------------------------

const maxE = 80

type lstate struct {
	head, tail, n int8
	created       [maxE]bool
	removed       [maxE]bool
	next, prev    [maxE]int8
}

func modelInit() interface{} {
	return lstate{head: -1, tail: -1}
}

func modelStep(state, input, output interface{}) (bool, interface{}) {
	s := state.(lstate) // a copy
	i := input.(in)
	o := output.(out)
	e := i.Arg
	if e >= 0 && i.Kind != opPushBack && !s.created[e] {
		return false, state // the element is not in existence yet at this point
	}
	switch i.Kind {
	case opPushBack:
		if s.created[e] {
			return false, state
		}
		s.created[e] = true
		s.prev[e], s.next[e] = s.tail, -1
		if s.tail >= 0 {
			s.next[s.tail] = int8(e)
		} else {
			s.head = int8(e)
		}
		s.tail = int8(e)
		s.n++
		return true, s
	case opRemove:
		if s.removed[e] {
			return false, state
		}
		p, nx := s.prev[e], s.next[e]
		s.n--
		if p < 0 {
			s.head = nx
		} else {
			s.next[p] = nx
		}
		if nx < 0 {
			s.tail = p
		} else {
			s.prev[nx] = p
		}
		s.removed[e] = true
		return o.V == e, s
	case opFront:
		return o.V == int(s.head), state
	case opBack:
		return o.V == int(s.tail), state
	case opFrontWait:
		return s.head >= 0 && o.V == int(s.head), state
	case opBackWait:
		return s.tail >= 0 && o.V == int(s.tail), state
	case opWaitChan:
		return s.n > 0, state
	case opNext:
		return o.V == int(s.next[e]), state
	case opPrev:
		return o.V == int(s.prev[e]), state
	case opNextWait:
		return o.V == int(s.next[e]) && (o.V >= 0 || s.removed[e]), state
	case opPrevWait:
		return o.V == int(s.prev[e]) && (o.V >= 0 || s.removed[e]), state
	case opNextWaitChan:
		return s.next[e] >= 0 || s.removed[e], state
	case opPrevWaitChan:
		return s.prev[e] >= 0 || s.removed[e], state
	case opRemoved:
		return o.B == s.removed[e], state
	case opLen:
		return o.V == int(s.n), state
	case opDetachPrev:
		if !s.removed[e] {
			return false, state
		}
		s.prev[e] = -1
		return true, s
	case opDetachNext:
		if !s.removed[e] {
			return false, state
		}
		s.next[e] = -1
		return true, s
	}
	return false, state
}

func modelHash(state interface{}) uint64 {
	s := state.(lstate)
	h := uint64(14695981039346656037)
	mix := func(b byte) { h = (h ^ uint64(b)) * 1099511628211 }
	mix(byte(s.head))
	mix(byte(s.tail))
	mix(byte(s.n))
	for i := 0; i < maxE; i++ {
		if !s.created[i] {
			continue
		}
		mix(byte(i))
		mix(byte(s.next[i]))
		mix(byte(s.prev[i]))
		if s.removed[i] {
			mix(1)
		}
	}
	return h
}

var model = porcupine.Model{
	Init: modelInit,
	Step: modelStep,
	Hash: modelHash,
	DescribeOperation: func(input, output interface{}) string {
		return fmt.Sprintf("%s(%d)->%v", opNames[input.(in).Kind], input.(in).Arg, output)
	},
}

// ---- engine ---------------------------------------------------------------

type waitInfo struct {
	kind int
	elem int
}

type worker struct {
	id      int
	name    string
	nops    int
	w       []int
	cur     int // element id the traversal stands on, -1 none
	waiting *waitInfo
	ops     int
	trav    []int // current traversal (forward), for the backstop oracle
}

type eng struct {
	c    *kernel.Choices
	r    *kernel.Result
	prop string
	s    *coop.Sched
	l    *clist.CList
	all  bool

	nextID  int
	elems   map[int]*clist.CElement
	known   []int // ids some task has a pointer to (push returned or seen by a traversal)
	isKnown map[int]bool
	claimed map[int]bool // a Remove of it was (or is being) issued
	pushRet map[int]int64
	pushInv map[int]int64

	hist    []*opRec
	travs   [][]int
	workers []*worker
	stop    bool
}

func (e *eng) fail(oracle, format string, args ...any) {
	e.r.Fail(e.prop, oracle, format, args...)
	e.stop = true
}

func (e *eng) idOf(x *clist.CElement) int {
	if x == nil {
		return -1
	}
	id, ok := x.Value.(int)
	if !ok {
		e.fail("foreign_element", "list returned an element whose value %v was never pushed", x.Value)
		return -1
	}
	if old, ok := e.elems[id]; ok && old != x {
		e.fail("foreign_element", "two distinct elements carry value %d", id)
	}
	e.elems[id] = x
	if !e.isKnown[id] {
		e.isKnown[id] = true
		e.known = append(e.known, id)
	}
	return id
}

// do runs one operation of the calling task and records it.
func (e *eng) do(w *worker, kind, arg int, f func() out) out {
	coop.Yield("op")
	rec := &opRec{task: w.id, in: in{Kind: kind, Arg: arg}}
	e.hist = append(e.hist, rec)
	e.s.OpBegin(fmt.Sprintf("%s(%d)", opNames[kind], arg))
	rec.call = e.s.Stamp()
	if kind == opPushBack {
		e.pushInv[arg] = rec.call
	}
	rec.out = f()
	rec.ret = e.s.Stamp()
	rec.done = true
	if kind == opPushBack {
		e.pushRet[arg] = rec.ret
	}
	e.s.OpEnd()
	w.ops++
	e.c.Event("op %s", rec.String())
	return rec.out
}

func (e *eng) wait(w *worker, kind, arg int, f func() out) out {
	w.waiting = &waitInfo{kind: kind, elem: arg}
	o := e.do(w, kind, arg, f)
	w.waiting = nil
	return o
}

func (e *eng) endTraversal(w *worker) {
	if len(w.trav) > 1 {
		e.travs = append(e.travs, w.trav)
	}
	w.trav = nil
}

func (e *eng) visit(w *worker, id int, fresh bool) {
	if fresh {
		e.endTraversal(w)
	}
	w.cur = id
	if id < 0 {
		e.endTraversal(w)
		return
	}
	w.trav = append(w.trav, id)
}

func (e *eng) push(w *worker) {
	if e.nextID >= maxE {
		kernel.Harnessf("coop_clist: more than %d elements", maxE)
	}
	id := e.nextID
	e.nextID++
	e.do(w, opPushBack, id, func() out {
		x := e.l.PushBack(id)
		e.idOf(x)
		return out{V: -1}
	})
}

func (e *eng) remove(w *worker, id int) {
	e.claimed[id] = true
	x := e.elems[id]
	o := e.do(w, opRemove, id, func() out {
		v := e.l.Remove(x)
		iv, _ := v.(int)
		return out{V: iv}
	})
	if o.V != id {
		e.fail("remove_value", "Remove(e%d) returned value %d", id, o.V)
		return
	}
	// removed elements must be detached by whoever removed them (clist contract);
	// which side is detached is the caller's choice
	switch e.c.Weighted([]int{5, 2, 1, 1}) {
	case 0:
		e.do(w, opDetachPrev, id, func() out { x.DetachPrev(); return out{V: -1} })
	case 1:
	case 2:
		e.do(w, opDetachNext, id, func() out { x.DetachNext(); return out{V: -1} })
	case 3:
		e.do(w, opDetachPrev, id, func() out { x.DetachPrev(); return out{V: -1} })
		e.do(w, opDetachNext, id, func() out { x.DetachNext(); return out{V: -1} })
	}
}

func (e *eng) step(w *worker) {
	c := e.c
	k := c.Weighted(w.w)
	cur := w.cur
	var x *clist.CElement
	if cur >= 0 {
		x = e.elems[cur]
	}
	switch k {
	case opPushBack:
		e.push(w)
	case opRemove:
		var cands []int
		for _, id := range e.known {
			if !e.claimed[id] {
				cands = append(cands, id)
			}
		}
		if len(cands) == 0 {
			o := e.do(w, opFront, -1, func() out { return out{V: e.idOf(e.l.Front())} })
			e.visit(w, o.V, true)
			return
		}
		e.remove(w, cands[c.Intn(len(cands))])
	case opFront:
		o := e.do(w, opFront, -1, func() out { return out{V: e.idOf(e.l.Front())} })
		e.visit(w, o.V, true)
	case opBack:
		e.do(w, opBack, -1, func() out { return out{V: e.idOf(e.l.Back())} })
	case opLen:
		e.do(w, opLen, -1, func() out { return out{V: e.l.Len()} })
	case opFrontWait:
		o := e.wait(w, opFrontWait, -1, func() out { return out{V: e.idOf(e.l.FrontWait())} })
		e.visit(w, o.V, true)
	case opBackWait:
		e.wait(w, opBackWait, -1, func() out { return out{V: e.idOf(e.l.BackWait())} })
	case opNext:
		if x == nil {
			o := e.do(w, opFront, -1, func() out { return out{V: e.idOf(e.l.Front())} })
			e.visit(w, o.V, true)
			return
		}
		o := e.do(w, opNext, cur, func() out { return out{V: e.idOf(x.Next())} })
		e.visit(w, o.V, false)
	case opNextWait:
		if x == nil {
			o := e.wait(w, opFrontWait, -1, func() out { return out{V: e.idOf(e.l.FrontWait())} })
			e.visit(w, o.V, true)
			return
		}
		o := e.wait(w, opNextWait, cur, func() out { return out{V: e.idOf(x.NextWait())} })
		if o.V < 0 {
			e.r.Probe("nextwait_returned_nil")
		}
		e.visit(w, o.V, false)
	case opWaitChan, opNextWaitChan:
		// the pattern of the mempool reactor's broadcast routine
		if x == nil {
			e.wait(w, opWaitChan, -1, func() out { coop.WaitClosed("WaitChan", e.l.WaitChan()); return out{V: -1} })
			o := e.do(w, opFront, -1, func() out { return out{V: e.idOf(e.l.Front())} })
			e.visit(w, o.V, true)
			return
		}
		e.wait(w, opNextWaitChan, cur, func() out { coop.WaitClosed("NextWaitChan", x.NextWaitChan()); return out{V: -1} })
		o := e.do(w, opNext, cur, func() out { return out{V: e.idOf(x.Next())} })
		e.visit(w, o.V, false)
	case opPrev:
		if x == nil {
			e.do(w, opBack, -1, func() out { return out{V: e.idOf(e.l.Back())} })
			return
		}
		e.do(w, opPrev, cur, func() out { return out{V: e.idOf(x.Prev())} })
	case opPrevWait:
		if x == nil {
			return
		}
		e.wait(w, opPrevWait, cur, func() out { return out{V: e.idOf(x.PrevWait())} })
	case opPrevWaitChan:
		if x == nil {
			return
		}
		e.wait(w, opPrevWaitChan, cur, func() out { coop.WaitClosed("PrevWaitChan", x.PrevWaitChan()); return out{V: -1} })
	case opRemoved:
		if x == nil {
			return
		}
		e.do(w, opRemoved, cur, func() out { return out{B: x.Removed()} })
	}
}

// roles: weight vectors over the operations (swarm: each run mixes a few).
func (e *eng) roleWeights(role int) []int {
	w := make([]int, nOps)
	switch role {
	case 0: // pusher
		w[opPushBack] = 10
		w[opLen] = 1
	case 1: // pusher + remover (what the mempool does under its lock)
		w[opPushBack] = 6
		w[opRemove] = 5
		w[opLen] = 1
	case 2: // remover
		w[opRemove] = 8
		w[opFront] = 2
		w[opBack] = 1
	case 3: // non-blocking traverser
		w[opFront] = 2
		w[opNext] = 9
		w[opLen] = 1
		w[opBack] = 1
	case 4: // blocking traverser
		w[opFrontWait] = 1
		w[opNextWait] = 9
	case 5: // channel waiter (reactor style)
		w[opWaitChan] = 9
	case 6: // everything
		for i := 0; i <= opBack; i++ {
			w[i] = 2
		}
	}
	if e.all {
		switch role {
		case 2:
			w[opRemoved] = 2
		case 3:
			w[opPrev] = 5
			w[opRemoved] = 2
		case 4:
			w[opPrevWait] = 1
			w[opBackWait] = 1
		case 5:
			w[opPrevWaitChan] = 1
		case 6:
			w[opPrev], w[opRemoved], w[opBackWait] = 2, 2, 1
		}
	}
	return w
}

func runClist(c *kernel.Choices, p kernel.Params) *kernel.Result {
	coop.RequireInstrumented(clistPkg)
	e := &eng{c: c, r: kernel.NewResult(), prop: p.Property,
		elems: map[int]*clist.CElement{}, isKnown: map[int]bool{}, claimed: map[int]bool{},
		pushRet: map[int]int64{}, pushInv: map[int]int64{}}
	e.all = p.Knob("ops", "fwd") == "all"
	e.s = coop.New(c)
	e.s.YieldSync = p.KnobInt("locklevel", 1) == 1
	e.l = clist.New()

	maxOps := p.KnobInt("maxops", 36)
	nt := 2 + c.Intn(3)
	// pre-fill: some runs start from a non-empty list
	pre := []int{0, 0, 1, 3}[c.Intn(4)]
	budget := maxOps - pre
	mutators := 0
	for i := 0; i < nt; i++ {
		w := &worker{id: i, name: fmt.Sprintf("t%d", i), cur: -1}
		role := 1
		if i > 0 {
			role = c.Intn(7)
		} else if c.Bool() {
			role = 0
		}
		w.w = e.roleWeights(role)
		w.nops = 2 + c.Intn(budget/nt-1)
		// Linearizability checking is exponential in the number of CONCURRENT
		// MUTATIONS whose order nobody observes: at most two tasks mutate at
		// length, further mutating tasks get three operations.
		if role <= 2 || role == 6 {
			mutators++
			if mutators > 2 && w.nops > 3 {
				w.nops = 3
			}
		}
		c.Event("task %s role=%d nops=%d", w.name, role, w.nops)
		e.workers = append(e.workers, w)
	}
	setup := &worker{id: nt, name: "setup", cur: -1}
	for i := 0; i < pre; i++ {
		e.push(setup) // outside the scheduler: plain sequential calls
	}
	for _, w := range e.workers {
		w := w
		e.s.Go(w.name, func() {
			for w.ops < w.nops && !e.stop {
				before := w.ops
				e.step(w)
				if w.ops == before { // nothing applicable: count it so that the loop is bounded
					w.ops++
				}
			}
			e.endTraversal(w)
		})
	}

	e.runAll(nt)

	st := e.s.Stats
	e.r.Steps = e.s.Steps
	e.r.ProbeN("ctx_switches", st.Switches)
	e.r.ProbeN("midop_switches", st.MidOpSwitches)
	e.r.ProbeN("blocked_on_lock", st.BlocksOnLock)
	e.r.ProbeN("blocked_on_wait", st.BlocksOnWait)
	e.r.ProbeN("waits_satisfied_by_wakeup", st.Wakeups)
	e.r.ProbeN("sync_yields", st.SyncYields)
	e.r.ProbeN("ops", len(e.hist))
	e.r.Probe(fmt.Sprintf("policy_%d", e.s.Policy))

	if e.r.Violation == nil {
		e.checkHistory()
	}
	e.s.Kill()

	active := 0
	for _, w := range e.workers {
		if w.ops > 0 {
			active++
		}
	}
	e.r.Nontrivial = active >= 2 && st.MidOpSwitches >= 1 && len(e.hist) >= 4
	e.r.Sample = map[string]any{"tasks": nt, "ops": len(e.hist), "steps": e.s.Steps,
		"first_events": c.Log[:min(len(c.Log), 25)]}
	return e.r
}

// runAll runs the scheduler to completion, classifying every deadlock on the
// way (lost wake-up / lock deadlock / legitimate wait that is then released).
func (e *eng) runAll(nt int) {
	const maxSteps = 40000
	inspectors := 0
	for round := 0; ; round++ {
		if round > 200 {
			kernel.Harnessf("coop_clist: %d release rounds without termination", round)
		}
		err := e.s.Run(maxSteps)
		if e.stop {
			return
		}
		switch x := err.(type) {
		case nil:
			return
		case *coop.StepLimit:
			kernel.Harnessf("coop_clist: %v (livelock in the harness?)", x)
		case *coop.TaskPanic:
			if strings.HasPrefix(x.Task, "inspector") {
				kernel.Harnessf("inspector panicked: %v\n%s", x.Value, x.Stack)
			}
			e.r.Probe("panics")
			e.fail("panic", "clist panicked in task %s during %s although the call respected its contract: %v\nhistory:\n%s",
				x.Task, x.Label, x.Value, e.dump())
			return
		case *coop.Deadlock:
			e.r.Probe("quiescent_points")
			var waiters []*worker
			for _, b := range x.Blocked {
				if strings.HasPrefix(b.What, "Mutex") || strings.HasPrefix(b.What, "RWMutex") {
					e.r.Probe("deadlocks")
					e.fail("deadlock", "%s\nhistory:\n%s", x.Error(), e.dump())
					return
				}
				var w *worker
				for _, ww := range e.workers {
					if ww.name == b.Name {
						w = ww
					}
				}
				if w == nil || w.waiting == nil {
					e.r.Probe("deadlocks")
					e.fail("deadlock", "task %s is blocked on %s outside any *Wait operation: %s\nhistory:\n%s", b.Name, b.What, x.Error(), e.dump())
					return
				}
				waiters = append(waiters, w)
			}
			// Everybody who is not finished is blocked in a *Wait. Inspect the
			// (quiescent) list from a fresh task, then release the legitimate waiters.
			inspectors++
			iw := &worker{id: nt + inspectors, name: fmt.Sprintf("inspector%d", inspectors), cur: -1}
			e.s.Go(iw.name, func() { e.inspect(iw, waiters) })
		default:
			kernel.Harnessf("coop_clist: unexpected scheduler error %v", err)
		}
	}
}

func (e *eng) inspect(iw *worker, waiters []*worker) {
	needPush := false
	var removeHeads []int
	for _, w := range waiters {
		wi := w.waiting
		var exists bool
		var why string
		switch wi.kind {
		case opFrontWait, opBackWait, opWaitChan:
			n := e.l.Len()
			exists, why = n > 0, fmt.Sprintf("the list holds %d elements", n)
			needPush = true
		case opNextWait, opNextWaitChan:
			x := e.elems[wi.elem]
			nx, rm := x.Next(), x.Removed()
			exists, why = nx != nil || rm, fmt.Sprintf("e%d has next=%v removed=%v", wi.elem, nx != nil, rm)
			needPush = true
		case opPrevWait, opPrevWaitChan:
			x := e.elems[wi.elem]
			pv, rm := x.Prev(), x.Removed()
			exists, why = pv != nil || rm, fmt.Sprintf("e%d has prev=%v removed=%v", wi.elem, pv != nil, rm)
			if !exists {
				removeHeads = append(removeHeads, wi.elem)
			}
		default:
			kernel.Harnessf("waiter in op %d", wi.kind)
		}
		e.r.Probe("waiter_checked")
		if exists {
			e.r.Probe("lost_wakeups")
			e.fail("lost_wakeup", "task %s is still blocked in %s(%d) while every other task is finished or blocked, although %s\nhistory:\n%s",
				w.name, opNames[wi.kind], wi.elem, why, e.dump())
			return
		}
	}
	for _, id := range removeHeads {
		if !e.claimed[id] {
			e.r.Probe("waiter_released_by_remove")
			e.remove(iw, id)
		}
	}
	if needPush {
		e.r.Probe("waiter_released_by_push")
		e.push(iw)
	}
}

func (e *eng) dump() string {
	var b strings.Builder
	n := 0
	for _, o := range e.hist {
		if n++; n > 120 {
			b.WriteString("  ...\n")
			break
		}
		b.WriteString("  " + o.String() + "\n")
	}
	return b.String()
}

func (e *eng) checkHistory() {
	var ops []porcupine.Operation
	for _, o := range e.hist {
		if !o.done {
			kernel.Harnessf("coop_clist: pending operation %s after all tasks finished", o)
		}
		ops = append(ops, porcupine.Operation{ClientId: o.task, Input: o.in, Call: o.call, Output: o.out, Return: o.ret})
	}
	switch porcupine.CheckOperationsTimeout(model, ops, 30*time.Second) {
	case porcupine.Ok:
		e.r.Probe("porcupine_ok")
	case porcupine.Unknown:
		e.r.Probe("porcupine_unknown")
		e.r.Inconcl = "porcupine timeout"
	case porcupine.Illegal:
		e.r.Probe("porcupine_illegal")
		e.fail("linearizability", "history of %d operations is not linearizable w.r.t. the sequential list:\n%s", len(e.hist), e.dump())
		return
	}
	// backstop: traversal order
	type pair struct{ a, b int }
	before := map[pair]bool{}
	for _, tr := range e.travs {
		seen := map[int]bool{}
		for _, id := range tr {
			if seen[id] {
				e.fail("traversal_order", "a forward traversal visited e%d twice: %v\nhistory:\n%s", id, tr, e.dump())
				return
			}
			seen[id] = true
		}
		for i := range tr {
			for j := i + 1; j < len(tr); j++ {
				before[pair{tr[i], tr[j]}] = true
			}
		}
	}
	var ps []pair
	for p := range before {
		ps = append(ps, p)
	}
	sort.Slice(ps, func(i, j int) bool {
		if ps[i].a != ps[j].a {
			return ps[i].a < ps[j].a
		}
		return ps[i].b < ps[j].b
	})
	for _, p := range ps {
		if before[pair{p.b, p.a}] {
			e.fail("traversal_order", "traversals disagree on the order of e%d and e%d: %v\nhistory:\n%s", p.a, p.b, e.travs, e.dump())
			return
		}
		// real-time order of the pushes
		if ra, ok := e.pushRet[p.b]; ok {
			if ib, ok2 := e.pushInv[p.a]; ok2 && ra < ib {
				e.fail("traversal_order", "a traversal saw e%d before e%d although PushBack(e%d) returned before PushBack(e%d) was invoked\nhistory:\n%s",
					p.a, p.b, p.b, p.a, e.dump())
				return
			}
		}
	}
}
