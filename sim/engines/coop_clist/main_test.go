package coop_clist

import (
	"os"
	"testing"

	"verif/sim/kernel"
)

func TestSim(t *testing.T) {
	if os.Getenv("VERIF_PROP") == "" {
		t.Skip("driven by /verif/check")
	}
	code := kernel.Main("coop_clist", map[string]kernel.Engine{
		"C49": runClist,
	})
	if code != 0 {
		os.Exit(code)
	}
}
