package tree

import (
	"bytes"
	"math"

	"github.com/gnolang/gno/tm2/pkg/crypto/merkle"
)

// ---- reference: position of a leaf in the RFC-6962 style tree -------------

func refSplit(n int) int { // largest power of two strictly below n (n >= 2)
	k := 1
	for k*2 < n {
		k *= 2
	}
	return k
}

// refShape is the root-to-leaf turn sequence of item index in a list of total
// items ("" for the only item of a 1-list); ok=false when (index,total) names
// no leaf. The root hash commits to the tree of hashes, so a (LeafHash, Aunts)
// pair can only be checked against a POSITION in that tree; Index and Total
// enter verification only through this shape.
func refShape(index, total int) (string, bool) {
	if index < 0 || total <= 0 || index >= total {
		return "", false
	}
	var b []byte
	for total > 1 {
		k := refSplit(total)
		if index < k {
			b = append(b, 'L')
			total = k
		} else {
			b = append(b, 'R')
			index -= k
			total -= k
		}
	}
	return string(b), true
}

func cloneSP(sp merkle.SimpleProof) merkle.SimpleProof {
	o := merkle.SimpleProof{Total: sp.Total, Index: sp.Index, LeafHash: cpb(sp.LeafHash)}
	for _, a := range sp.Aunts {
		o.Aunts = append(o.Aunts, cpb(a))
	}
	return o
}

func sameSP(a, b merkle.SimpleProof) bool { // nil and empty slices are the same value on the wire
	return a.Total == b.Total && a.Index == b.Index && bytes.Equal(a.LeafHash, b.LeafHash) && eqBytesList(a.Aunts, b.Aunts)
}

// simpleTarget is one genuine SimpleProof together with the real verifier it
// is consumed by.
type simpleTarget struct {
	what   string             // verifier under test, for messages and probes
	sp     merkle.SimpleProof // genuine proof of item sp.Index
	root   []byte             // genuine root
	leaf   []byte             // genuine leaf bytes (as the verifier takes them)
	other  []byte             // leaf bytes of another item that differ from leaf (nil if none)
	anyDup bool               // the list holds two byte-equal items
	// verify runs the real verifier on (proof, root, leaf)
	verify func(sp merkle.SimpleProof, root, leaf []byte) error
	// bindsTotal: the verifier is given the list length by its caller and
	// compares it (PartSet.AddPart): Total aliases must then be rejected too.
	bindsTotal bool
	otherRoot  []byte // root of a different list (nil if none)
}

type smut struct {
	kind string // probe granularity
	sig  string // signature granularity
	sp   merkle.SimpleProof
}

// simpleMutants: the structured mutations of a SimpleProof. Every field of the
// struct is covered; why each one must change the verdict:
//
//	Index    - selects the leaf position; with Total fixed every index is a
//	           different position, and index<0 / index>=total name no position
//	           at all (must be rejected whatever the hashes are).
//	Total    - together with Index it fixes the position (depth and turns). A
//	           Total that yields the SAME turn sequence for this Index is an
//	           alias: the root does not commit to the list length, so no
//	           verifier with this signature can tell (not flagged, counted).
//	LeafHash - hash of the item; is compared with the hash of the offered leaf
//	           and is the start of the fold.
//	Aunts    - each aunt is hash input on the way to the root; their number is
//	           the depth of the position. Dropped, duplicated, swapped, extra,
//	           shortened or lengthened aunts all change hash input or depth.
//
// Mutants that are equal to the genuine proof as values (e.g. swapping two
// equal aunts, nil vs empty) are skipped by the caller.
func (s *p25) simpleMutants(sp merkle.SimpleProof) []smut {
	var out []smut
	add := func(kind, sig string, f func(m *merkle.SimpleProof)) {
		m := cloneSP(sp)
		f(&m)
		out = append(out, smut{kind, sig, m})
	}
	I, T, n := sp.Index, sp.Total, len(sp.Aunts)
	k := 1 + s.c.Intn(5)
	// Index
	add("index-1", "index-neighbour", func(m *merkle.SimpleProof) { m.Index = I - 1 })
	add("index+1", "index-neighbour", func(m *merkle.SimpleProof) { m.Index = I + 1 })
	add("index=0", "index-other", func(m *merkle.SimpleProof) { m.Index = 0 })
	add("index=total-1", "index-other", func(m *merkle.SimpleProof) { m.Index = T - 1 })
	if T > 2 {
		j := s.c.Intn(T)
		add("index=drawn", "index-other", func(m *merkle.SimpleProof) { m.Index = j })
	}
	add("index=total", "index>=total", func(m *merkle.SimpleProof) { m.Index = T })
	add("index=total+k", "index>=total", func(m *merkle.SimpleProof) { m.Index = T + k })
	add("index+=total", "index>=total", func(m *merkle.SimpleProof) { m.Index = I + T })
	add("index|bit32", "index>=total", func(m *merkle.SimpleProof) { m.Index = I | 1<<32 })
	add("index|bit62", "index>=total", func(m *merkle.SimpleProof) { m.Index = I | 1<<62 })
	add("index=-1", "index<0", func(m *merkle.SimpleProof) { m.Index = -1 })
	add("index=minint", "index<0", func(m *merkle.SimpleProof) { m.Index = math.MinInt })
	// Total
	add("total-1", "total", func(m *merkle.SimpleProof) { m.Total = T - 1 })
	add("total+1", "total", func(m *merkle.SimpleProof) { m.Total = T + 1 })
	add("total*2", "total", func(m *merkle.SimpleProof) { m.Total = T * 2 })
	add("total^1", "total", func(m *merkle.SimpleProof) { m.Total = T ^ 1 })
	add("total+k", "total", func(m *merkle.SimpleProof) { m.Total = T + 1 + k })
	add("total|bit32", "total", func(m *merkle.SimpleProof) { m.Total = T | 1<<32 })
	add("total=index+1", "total", func(m *merkle.SimpleProof) { m.Total = I + 1 })
	add("total=index", "index>=total", func(m *merkle.SimpleProof) { m.Total = I })
	add("total=0", "total<=0", func(m *merkle.SimpleProof) { m.Total = 0 })
	add("total=-1", "total<=0", func(m *merkle.SimpleProof) { m.Total = -1 })
	add("index<->total", "index>=total", func(m *merkle.SimpleProof) { m.Index, m.Total = T, I })
	// LeafHash
	add("leafhash-bit", "leafhash", func(m *merkle.SimpleProof) { m.LeafHash = flipBit(m.LeafHash, s.c.Intn(256)) })
	add("leafhash-short", "leafhash", func(m *merkle.SimpleProof) { m.LeafHash = m.LeafHash[:len(m.LeafHash)-1] })
	add("leafhash-nil", "leafhash", func(m *merkle.SimpleProof) { m.LeafHash = nil })
	// Aunts
	for i := 0; i < n; i++ {
		i := i
		add("aunt-bit", "aunt-flipped", func(m *merkle.SimpleProof) { m.Aunts[i] = flipBit(m.Aunts[i], s.c.Intn(256)) })
	}
	if n > 0 {
		add("aunt-dropped-first", "aunt-dropped", func(m *merkle.SimpleProof) { m.Aunts = m.Aunts[1:] })
		add("aunt-dropped-last", "aunt-dropped", func(m *merkle.SimpleProof) { m.Aunts = m.Aunts[:n-1] })
		add("aunts-nil", "aunt-dropped", func(m *merkle.SimpleProof) { m.Aunts = nil })
		add("aunt-duplicated-first", "aunt-duplicated", func(m *merkle.SimpleProof) {
			m.Aunts = append([][]byte{cpb(m.Aunts[0])}, m.Aunts...)
		})
		add("aunt-duplicated-last", "aunt-duplicated", func(m *merkle.SimpleProof) { m.Aunts = append(m.Aunts, cpb(m.Aunts[n-1])) })
		add("aunt-short", "aunt-length", func(m *merkle.SimpleProof) { m.Aunts[0] = m.Aunts[0][:len(m.Aunts[0])-1] })
		add("aunt-long", "aunt-length", func(m *merkle.SimpleProof) { m.Aunts[n-1] = append(m.Aunts[n-1], 0) })
	}
	if n > 2 {
		j := 1 + s.c.Intn(n-2)
		add("aunt-dropped-middle", "aunt-dropped", func(m *merkle.SimpleProof) { m.Aunts = append(m.Aunts[:j:j], m.Aunts[j+1:]...) })
	}
	if n > 1 {
		add("aunts-swapped-low", "aunts-swapped", func(m *merkle.SimpleProof) { m.Aunts[0], m.Aunts[1] = m.Aunts[1], m.Aunts[0] })
		add("aunts-swapped-high", "aunts-swapped", func(m *merkle.SimpleProof) { m.Aunts[n-1], m.Aunts[n-2] = m.Aunts[n-2], m.Aunts[n-1] })
		add("aunts-reversed", "aunts-swapped", func(m *merkle.SimpleProof) {
			for i, j := 0, n-1; i < j; i, j = i+1, j-1 {
				m.Aunts[i], m.Aunts[j] = m.Aunts[j], m.Aunts[i]
			}
		})
	}
	add("aunt-extra-zero", "aunt-extra", func(m *merkle.SimpleProof) { m.Aunts = append(m.Aunts, make([]byte, 32)) })
	add("aunt-extra-leafhash", "aunt-extra", func(m *merkle.SimpleProof) { m.Aunts = append([][]byte{cpb(m.LeafHash)}, m.Aunts...) })
	// the signature names what the mutated (Index, Total) pair IS, whatever edit produced it
	for i := range out {
		switch m := out[i].sp; {
		case m.Index < 0:
			out[i].sig = "index<0"
		case m.Total <= 0:
			out[i].sig = "total<=0"
		case m.Index >= m.Total:
			out[i].sig = "index>=total"
		}
	}
	return out
}

// sweepSimple: completeness of the genuine proof, then the mutation sweep.
func (s *p25) sweepSimple(t simpleTarget) {
	if s.stop {
		return
	}
	pre := "simple." + t.what + "."
	// completeness
	if !s.accepts("genuine", func() error { return t.verify(cloneSP(t.sp), cpb(t.root), cpb(t.leaf)) }) {
		s.flag("simple-proof-rejected", "genuine", "%s: the genuine proof of item %d/%d does not verify against the list's root %X", t.what, t.sp.Index, t.sp.Total, t.root)
		return
	}
	s.r.Probe(pre + "genuine_verified")
	s.r.Probe("simple.proofs_verified")
	if t.sp.Index == t.sp.Total-1 {
		s.r.Probe("simple.last_item_proofs")
	}
	if t.sp.Total == 1 {
		s.r.Probe("simple.single_item_lists")
	}
	trueShape, _ := refShape(t.sp.Index, t.sp.Total)

	// false claims with the genuine proof: another leaf, another root
	claim := func(kind, sig string, root, leaf []byte) {
		if s.stop {
			return
		}
		s.r.Probe("mut." + kind)
		if s.accepts(kind, func() error { return t.verify(cloneSP(t.sp), root, leaf) }) {
			s.flag("simple-mutated-proof-accepted", sig, "%s: genuine proof of item %d/%d accepted for %s (root %X leaf %.40X)", t.what, t.sp.Index, t.sp.Total, kind, root, leaf)
		}
	}
	claim("leaf-bit-flipped", "wrong-leaf", cpb(t.root), flipBit(t.leaf, s.c.Intn(64)))
	claim("leaf-extended", "wrong-leaf", cpb(t.root), append(cpb(t.leaf), 0))
	if t.other != nil {
		claim("leaf-of-other-item", "proof-of-i-for-j", cpb(t.root), cpb(t.other))
	}
	claim("root-bit-flipped", "wrong-root", flipBit(t.root, s.c.Intn(256)), cpb(t.leaf))
	claim("root-empty", "wrong-root", nil, cpb(t.leaf))
	if t.otherRoot != nil && !bytes.Equal(t.otherRoot, t.root) {
		claim("root-of-other-list", "wrong-root", cpb(t.otherRoot), cpb(t.leaf))
	}

	for _, m := range s.simpleMutants(t.sp) {
		if s.stop {
			return
		}
		if sameSP(m.sp, t.sp) {
			s.r.Probe("mut.skipped_noop")
			continue
		}
		s.r.Probe("mut." + m.kind)
		shape, valid := refShape(m.sp.Index, m.sp.Total)
		onlyPos := bytes.Equal(m.sp.LeafHash, t.sp.LeafHash) && eqBytesList(m.sp.Aunts, t.sp.Aunts)
		mustFail := true
		switch {
		case onlyPos && valid && shape == trueShape && !t.bindsTotal:
			// Total alias: same position in the hash tree under another list length.
			mustFail = false
		case onlyPos && valid && t.anyDup:
			// duplicate items: another position may genuinely hold the same leaf with the same aunts
			mustFail = false
		}
		mm := m
		acc := s.accepts(m.kind, func() error { return t.verify(cloneSP(mm.sp), cpb(t.root), cpb(t.leaf)) })
		if acc && !mustFail {
			if onlyPos && valid && shape == trueShape {
				s.r.Probe("simple.total_alias_accepted")
			} else {
				s.r.Probe("simple.duplicate_item_position_accepted")
			}
		}
		if acc && mustFail {
			s.flag("simple-mutated-proof-accepted", m.sig, "%s: proof of item %d/%d (%d aunts) still verifies for the true leaf and root after mutation %q: Index=%d Total=%d aunts=%d (names a position: %v)",
				t.what, t.sp.Index, t.sp.Total, len(t.sp.Aunts), m.kind, m.sp.Index, m.sp.Total, len(m.sp.Aunts), valid)
			return
		}
		// A proof that names no position, or carries the wrong number of aunts for its
		// position, folds to "no hash". It must not be accepted against the root of the
		// EMPTY list either (the data hash of a block without transactions is empty).
		if !valid || len(shape) != len(m.sp.Aunts) {
			for _, er := range [][]byte{nil, {}} {
				er := er
				if s.accepts(m.kind+"+empty-root", func() error { return t.verify(cloneSP(mm.sp), er, cpb(t.leaf)) }) {
					s.r.Probe("mut.malformed_vs_empty_root_accepted")
					s.flag("simple-mutated-proof-accepted", "malformed-proof+empty-root", "%s: a malformed proof (mutation %q: Index=%d Total=%d aunts=%d) is accepted as proving leaf %.40X under the EMPTY root (the hash of the empty list)",
						t.what, m.kind, m.sp.Index, m.sp.Total, len(m.sp.Aunts), t.leaf)
					break
				}
			}
			s.r.Probe("mut.malformed_vs_empty_root")
		}
	}
	if s.stop {
		return
	}
	// Observation only (out of the property's scope: no in-tree producer or decoder hands out
	// aunts that alias one another): merkle.innerHash appends to its left operand, so a proof
	// whose aunts are views into ONE buffer with spare capacity is overwritten while it is being
	// verified. Counted, never failed on. All genuine inputs above use independent slices.
	if n := len(t.sp.Aunts); n >= 2 {
		buf := make([]byte, 32*n+96)
		al := cloneSP(t.sp)
		for i, a := range t.sp.Aunts {
			copy(buf[32*i:], a)
			al.Aunts[i] = buf[32*i : 32*i+len(a)]
		}
		before := cpb(buf)
		s.r.Probe("obs.aunts_in_shared_buffer")
		ok := s.accepts("aunts-in-shared-buffer", func() error { return t.verify(al, cpb(t.root), cpb(t.leaf)) })
		if !ok {
			s.r.Probe("obs.aunts_in_shared_buffer_genuine_rejected")
		}
		if !bytes.Equal(before, buf) {
			s.r.Probe("obs.aunts_in_shared_buffer_overwritten")
		}
	}
}

func (s *p25) simpleSizes() []int {
	return []int{1, 2, 3, 4, 5, 7, 8, 9, 15, 16, 17, 31, 32, 33}
}
