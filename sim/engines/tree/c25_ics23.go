package tree

import (
	"bytes"

	ics23 "github.com/cosmos/ics23/go"

	"github.com/gnolang/gno/tm2/pkg/crypto/merkle"

	"verif/sim/kernel"
)

// sweepIcs23: structured mutations of proof op i (an ics23 CommitmentProof in
// protobuf, which is how every decoder registered in
// rootmulti.DefaultProofRuntime reads ProofOp.Data). The op is decoded, ONE
// field of the decoded value is changed, and the op is re-encoded; a mutant
// whose encoding equals the genuine one is skipped.
//
// Fields mutated and why the verdict must depend on each:
//
//	ExistenceProof.Key / .Value - hashed into the leaf and compared with the
//	    key/value being claimed.
//	LeafOp.Prefix               - first bytes of the leaf preimage.
//	LeafOp.Hash/PrehashKey/PrehashValue/Length - decide how the leaf preimage
//	    is built; the spec pins them.
//	InnerOp.Prefix / .Suffix    - sibling hashes and domain byte: hash input.
//	InnerOp.Hash                - hash function of the step; pinned by the spec.
//	the path as a list          - a dropped / duplicated step changes the chain
//	    of hashes; two exchanged steps or a step whose sibling moved to the
//	    other side hash differently.
//	NonExistenceProof.Left/.Right - the two existence proofs whose adjacency IS
//	    the absence claim; dropping or exchanging them changes the claim.
//
// NOT treated as must-fail: NonExistenceProof.Key. Verification takes the key
// from its caller (ProofOp.Key, bound to the key path) and never reads this
// copy, by design of ics23; a change there is only counted.
func (s *p25) sweepIcs23(i int, ops []merkle.ProofOp, reject func(kind, sig string, p *merkle.Proof), accepted func(p *merkle.Proof) bool) {
	orig := ops[i]
	dec := func() *ics23.CommitmentProof {
		cp := &ics23.CommitmentProof{}
		if err := cp.Unmarshal(orig.Data); err != nil {
			kernel.Harnessf("decoding a genuine %s op: %v", orig.Type, err)
		}
		return cp
	}
	layer := "tree-op."
	if i > 0 {
		layer = "store-op."
	}
	try := func(kind, sig string, f func(cp *ics23.CommitmentProof) bool) {
		if s.stop {
			return
		}
		cp := dec()
		if !f(cp) {
			return
		}
		bz, err := cp.Marshal()
		if err != nil {
			return // the mutated value has no encoding: nothing to offer
		}
		if bytes.Equal(bz, orig.Data) {
			s.r.Probe("mut.skipped_noop")
			return
		}
		op := orig
		op.Data = bz
		n := append([]merkle.ProofOp(nil), ops...)
		n[i] = op
		reject(layer+kind, sig, &merkle.Proof{Ops: n})
	}
	type acc struct {
		name string
		get  func(cp *ics23.CommitmentProof) *ics23.ExistenceProof
	}
	var eps []acc
	probe := dec()
	if probe.GetExist() != nil {
		eps = append(eps, acc{"", func(cp *ics23.CommitmentProof) *ics23.ExistenceProof { return cp.GetExist() }})
	}
	if ne := probe.GetNonexist(); ne != nil {
		if ne.Left != nil {
			eps = append(eps, acc{"left.", func(cp *ics23.CommitmentProof) *ics23.ExistenceProof { return cp.GetNonexist().Left }})
		}
		if ne.Right != nil {
			eps = append(eps, acc{"right.", func(cp *ics23.CommitmentProof) *ics23.ExistenceProof { return cp.GetNonexist().Right }})
		}
		if ne.Left != nil && ne.Right != nil {
			try("nonexist-left-dropped", "ics23-neighbour-dropped", func(cp *ics23.CommitmentProof) bool { cp.GetNonexist().Left = nil; return true })
			try("nonexist-right-dropped", "ics23-neighbour-dropped", func(cp *ics23.CommitmentProof) bool { cp.GetNonexist().Right = nil; return true })
			try("nonexist-neighbours-swapped", "ics23-neighbours-swapped", func(cp *ics23.CommitmentProof) bool {
				n := cp.GetNonexist()
				n.Left, n.Right = n.Right, n.Left
				return true
			})
		}
		// ignored by design: counted, never flagged
		if len(ne.Key) > 0 {
			cp := dec()
			cp.GetNonexist().Key[0] ^= 1
			if bz, err := cp.Marshal(); err == nil {
				op := orig
				op.Data = bz
				n := append([]merkle.ProofOp(nil), ops...)
				n[i] = op
				s.r.Probe("mut.ignored_by_design.nonexist-key")
				if accepted(&merkle.Proof{Ops: n}) {
					s.r.Probe("mut.ignored_by_design.nonexist-key_accepted")
				}
			}
		}
	}
	for _, a := range eps {
		a := a
		e0 := a.get(probe)
		flipAt := func(b []byte, pos int) {
			b[pos] ^= 1
		}
		for _, pos := range ends(len(e0.Key)) {
			pos := pos
			try(a.name+"key-flip", "ics23-key", func(cp *ics23.CommitmentProof) bool { flipAt(a.get(cp).Key, pos); return true })
		}
		for _, pos := range ends(len(e0.Value)) {
			pos := pos
			try(a.name+"value-flip", "ics23-value", func(cp *ics23.CommitmentProof) bool { flipAt(a.get(cp).Value, pos); return true })
		}
		if e0.Leaf != nil {
			if len(e0.Leaf.Prefix) > 0 {
				try(a.name+"leaf-prefix-flip", "ics23-leaf-prefix", func(cp *ics23.CommitmentProof) bool { flipAt(a.get(cp).Leaf.Prefix, 0); return true })
			}
			try(a.name+"leaf-prefix-extended", "ics23-leaf-prefix", func(cp *ics23.CommitmentProof) bool {
				l := a.get(cp).Leaf
				l.Prefix = append(l.Prefix, 0)
				return true
			})
			try(a.name+"leaf-hash-op", "ics23-leaf-op", func(cp *ics23.CommitmentProof) bool { a.get(cp).Leaf.Hash = ics23.HashOp_SHA512; return true })
			try(a.name+"leaf-prehash-key-op", "ics23-leaf-op", func(cp *ics23.CommitmentProof) bool {
				a.get(cp).Leaf.PrehashKey = ics23.HashOp_SHA256
				return true
			})
			try(a.name+"leaf-prehash-value-op", "ics23-leaf-op", func(cp *ics23.CommitmentProof) bool {
				a.get(cp).Leaf.PrehashValue = ics23.HashOp_NO_HASH
				return true
			})
			try(a.name+"leaf-length-op", "ics23-leaf-op", func(cp *ics23.CommitmentProof) bool {
				a.get(cp).Leaf.Length = ics23.LengthOp_NO_PREFIX
				return true
			})
		}
		n := len(e0.Path)
		for j := 0; j < n; j++ {
			j := j
			st := e0.Path[j]
			for _, pos := range ends(len(st.Prefix)) {
				pos := pos
				try(a.name+"step-prefix-flip", "ics23-step-bytes", func(cp *ics23.CommitmentProof) bool { flipAt(a.get(cp).Path[j].Prefix, pos); return true })
			}
			for _, pos := range ends(len(st.Suffix)) {
				pos := pos
				try(a.name+"step-suffix-flip", "ics23-step-bytes", func(cp *ics23.CommitmentProof) bool { flipAt(a.get(cp).Path[j].Suffix, pos); return true })
			}
			try(a.name+"step-hash-op", "ics23-step-op", func(cp *ics23.CommitmentProof) bool { a.get(cp).Path[j].Hash = ics23.HashOp_SHA512; return true })
			// the sibling moved to the other side (32-byte children, 1-byte domain prefix)
			try(a.name+"step-direction", "ics23-step-direction", func(cp *ics23.CommitmentProof) bool {
				st := a.get(cp).Path[j]
				switch {
				case len(st.Prefix) == 1 && len(st.Suffix) == 32:
					st.Prefix, st.Suffix = append(cpb(st.Prefix), st.Suffix...), nil
				case len(st.Prefix) == 33 && len(st.Suffix) == 0:
					st.Prefix, st.Suffix = cpb(st.Prefix[:1]), cpb(st.Prefix[1:])
				default:
					return false
				}
				return true
			})
		}
		if n > 0 {
			for _, j := range dedupe(0, n-1, s.c.Intn(n)) {
				j := j
				try(a.name+"step-dropped", "ics23-step-dropped", func(cp *ics23.CommitmentProof) bool {
					e := a.get(cp)
					e.Path = append(e.Path[:j:j], e.Path[j+1:]...)
					return true
				})
				try(a.name+"step-duplicated", "ics23-step-duplicated", func(cp *ics23.CommitmentProof) bool {
					e := a.get(cp)
					p := append([]*ics23.InnerOp(nil), e.Path[:j+1]...)
					e.Path = append(p, e.Path[j:]...)
					return true
				})
			}
		}
		if n > 1 {
			for _, j := range ends(n - 1) {
				j := j
				try(a.name+"steps-swapped", "ics23-steps-swapped", func(cp *ics23.CommitmentProof) bool {
					e := a.get(cp)
					e.Path[j], e.Path[j+1] = e.Path[j+1], e.Path[j]
					return true
				})
			}
		}
	}
}

// ends: first and last position of a sequence of length n.
func ends(n int) []int {
	if n <= 0 {
		return nil
	}
	return dedupe(0, n-1)
}

// dedupe returns the distinct non-negative values in order of first appearance.
func dedupe(v ...int) []int {
	var out []int
	for _, x := range v {
		if x < 0 {
			continue
		}
		dup := false
		for _, y := range out {
			dup = dup || x == y
		}
		if !dup {
			out = append(out, x)
		}
	}
	return out
}
