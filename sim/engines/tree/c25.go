package tree

// C25, second half: the simple-Merkle layer exercised THROUGH ITS REAL USES on
// states produced by a simulated history.
//
// This is a simulation target and not input fuzzing because the proofs that
// are verified and mutated are the ones the real components hand out for
// states reached through a faulted history: the real rootmulti store over a
// simdb disk (1-4 sub-stores, real store/bptree and store/iavl) is driven by a
// seeded history of Set/Delete/Commit with close+reopen, crash(k) inside
// Commit, crash right after Commit (kill / power loss) and pruning; the real
// ABCI query path (Query / QueryImmutable with Prove=true) produces the
// proofs, the real proof runtime (rootmulti.DefaultProofRuntime) verifies them
// against the CommitID.Hash the simulated commit returned, and the block-level
// proofs (Txs.Proof/TxProof.Validate, ABCIResults.ProveResult, PartSet.AddPart,
// SimpleProofsFromByteSlices/FromMap + SimpleValueOp) are built from the
// tx-like records and per-store commit hashes of that same history.
//
// The phase runs only for C25 and only AFTER the unchanged bptree body
// (runBptree), so the draws of C23/C24/C26 (and of the first half of C25) do
// not move.

import (
	"bytes"
	"fmt"

	"verif/sim/kernel"
)

type p25 struct {
	c    *kernel.Choices
	r    *kernel.Result
	p    kernel.Params
	stop bool

	knownSeen map[string]bool
}

// flag reports a violation under (oracle, signature). Findings the coordinator
// has listed in KNOWN_FINDINGS.jsonl are recorded and the run goes on.
func (s *p25) flag(oracle, sig, format string, args ...any) {
	v := kernel.Violation{Property: s.p.Property, Oracle: oracle, Signature: sig, Msg: fmt.Sprintf(format, args...)}
	if k := s.p.IsKnown(&v); k != nil {
		if !s.knownSeen[oracle+"/"+sig] {
			s.knownSeen[oracle+"/"+sig] = true
			s.r.Known = append(s.r.Known, v)
		}
		s.r.Probe("known." + sig)
		return
	}
	if s.r.Violation == nil {
		s.r.Violation = &v
	}
	s.stop = true
}

// accepts runs one verification. A panic inside the verifier while it chews on
// a malformed (mutated) proof is recovered on purpose: for the soundness
// oracle it means "did not verify"; it is counted (probe verify_panic.*) and
// reported as a robustness observation, never as a C25 violation.
func (s *p25) accepts(kind string, f func() error) (ok bool) {
	defer func() {
		if x := recover(); x != nil {
			switch x.(type) {
			case kernel.HarnessError, kernel.ErrTapeOverrun:
				panic(x)
			}
			s.r.Probe("verify_panic." + kind)
			ok = false
		}
	}()
	return f() == nil
}

func cpb(b []byte) []byte {
	if b == nil {
		return nil
	}
	return append(make([]byte, 0, len(b)), b...)
}

func flipBit(b []byte, bit int) []byte {
	o := cpb(b)
	if len(o) == 0 {
		return []byte{1}
	}
	bit %= len(o) * 8
	o[bit/8] ^= 1 << (bit % 8)
	return o
}

func eqBytesList(a, b [][]byte) bool {
	if len(a) != len(b) {
		return false
	}
	for i := range a {
		if !bytes.Equal(a[i], b[i]) {
			return false
		}
	}
	return true
}

// runC25 = the existing C25 body, then the multistore phase, then the
// block-level phase on the data of the multistore history.
func runC25(c *kernel.Choices, p kernel.Params) *kernel.Result {
	r := runBptree(c, p)
	if r.Violation != nil {
		return r
	}
	s := &p25{c: c, r: r, p: p, knownSeen: map[string]bool{}}
	c.MaxLog = len(c.Log) + 400 // keep the readable trace of phases 2 and 3 in replay files too (the fingerprint covers everything anyway)
	c.Event("-- C25 phase 2: multistore commit proofs --")
	m := s.multistore()
	if !s.stop {
		c.Event("-- C25 phase 3: block-level simple proofs --")
		s.blockProofs(m)
	}
	if m != nil && m.latest >= 2 && r.Faults["ms_reopen"]+r.Faults["ms_crash_in_commit"]+r.Faults["ms_crash_after_commit"] > 0 && r.Probes["ms.proofs_verified"] > 0 {
		r.Nontrivial = true
	}
	return r
}
