package tree

import (
	"bytes"
	"fmt"
	"sort"

	"github.com/gnolang/gno/tm2/pkg/store"
	storebptree "github.com/gnolang/gno/tm2/pkg/store/bptree"
	stypes "github.com/gnolang/gno/tm2/pkg/store/types"

	"verif/sim/kernel"
	"verif/sim/simdb"
)

// C26 at the STORE level (the way gno.land mounts it): a rootmulti with one
// store/bptree sub-store whose fast index is toggled on/off across restarts
// (FastStoreConstructor vs StoreConstructor), commits, crash at the commit's
// write, and reads through (a) the live store after reload and (b) immutable
// query views at retained versions. Every read must equal the model of the
// version being read; an index that was left behind while the feature was off
// must be rebuilt (or not trusted) once it is on again.

func runStoreFast(c *kernel.Choices, p kernel.Params) *kernel.Result {
	r := kernel.NewResult()
	fail := func(oracle, format string, args ...any) *kernel.Result {
		r.Fail(p.Property, oracle, format, args...)
		return r
	}
	mach := simdb.NewMachine()
	disk := simdb.NewDisk("store", mach)
	key := store.NewStoreKey("main")
	fast := c.Bool()
	prune := []stypes.PruningOptions{stypes.PruneNothing, stypes.PruneSyncable, stypes.NewPruningOptions(2, 0)}[c.Intn(3)]
	var ms stypes.CommitMultiStore
	open := func() error {
		db := disk.Open()
		ms = store.NewCommitMultiStore(db)
		ms.SetStoreOptions(stypes.StoreOptions{PruningOptions: prune})
		cons := storebptree.StoreConstructor
		if fast {
			cons = storebptree.FastStoreConstructor
		}
		ms.MountStoreWithDB(key, cons, db)
		return ms.LoadLatestVersion()
	}
	if err := open(); err != nil {
		kernel.Harnessf("initial open: %v", err)
	}
	model := map[string][]byte{}
	versions := map[int64]map[string][]byte{}
	var latest int64
	nkeys := []int{4, 12, 60}[c.Intn(3)]
	keyOf := func(i int) string { return fmt.Sprintf("/a/k%03d", i) }
	valCtr := 0
	c.Event("storefast: fast=%v prune=%+v keys=%d", fast, prune, nkeys)
	checkLive := func(when string) *kernel.Result {
		st := ms.GetStore(key)
		for i := 0; i < nkeys; i++ {
			k := keyOf(i)
			got := st.Get(nil, []byte(k))
			want, ok := model[k]
			if (ok && !bytes.Equal(got, want)) || (!ok && got != nil) {
				return fail("live-read-vs-model", "%s (fast index %v): live store Get(%s)=%q, the tree/model holds %q (present=%v) at version %d", when, fast, k, got, want, ok, latest)
			}
		}
		r.Probe("live_read_sweeps")
		return nil
	}
	checkViews := func(when string) *kernel.Result {
		var vs []int64
		for v := range versions {
			vs = append(vs, v)
		}
		sort.Slice(vs, func(i, j int) bool { return vs[i] < vs[j] })
		for _, v := range vs {
			if v == 0 || v < latest-2 { // views of old versions may legitimately be pruned
				continue
			}
			view, release, err := ms.MultiImmutableCacheWrapWithVersion(v)
			if err != nil {
				if v == latest {
					return fail("latest-view-unavailable", "%s: immutable view of the latest version %d: %v", when, v, err)
				}
				continue
			}
			st := view.GetStore(key)
			for i := 0; i < nkeys; i++ {
				k := keyOf(i)
				got := st.Get(nil, []byte(k))
				want, ok := versions[v][k]
				if (ok && !bytes.Equal(got, want)) || (!ok && got != nil) {
					release()
					return fail("view-read-vs-model", "%s (fast index %v): immutable view at version %d Get(%s)=%q, that version holds %q (present=%v)", when, fast, v, k, got, want, ok)
				}
			}
			release()
			r.Probe("view_read_sweeps")
		}
		return nil
	}
	nops := 20 + c.Intn(80)
	for i := 0; i < nops; i++ {
		switch c.Weighted([]int{10, 4, 5, 3, 2, 2}) {
		case 0: // set
			k := keyOf(c.Intn(nkeys))
			valCtr++
			v := []byte(fmt.Sprintf("seq=%d", valCtr))
			ms.GetStore(key).Set(nil, []byte(k), v)
			model[k] = v
			c.Event("Set %s", k)
		case 1: // delete
			k := keyOf(c.Intn(nkeys))
			ms.GetStore(key).Delete(nil, []byte(k))
			delete(model, k)
			c.Event("Delete %s", k)
		case 2: // commit
			cid := ms.Commit()
			latest = cid.Version
			versions[latest] = map[string][]byte{}
			for k, v := range model {
				versions[latest][k] = v
			}
			c.Event("Commit v%d %X", cid.Version, cid.Hash)
			r.Probe("commits")
			if bad := checkLive("after commit"); bad != nil {
				return bad
			}
		case 3: // restart, possibly toggling the fast index
			old := fast
			if c.Bool() {
				fast = !fast
			}
			c.Event("restart fast %v -> %v", old, fast)
			r.Fault("restart")
			if old != fast {
				r.Fault("fast_index_toggled")
			}
			if err := open(); err != nil {
				return fail("reload-error", "reload with fast index %v (was %v) at version %d: %v", fast, old, latest, err)
			}
			// uncommitted writes died with the process
			model = map[string][]byte{}
			for k, v := range versions[latest] {
				model[k] = v
			}
			if got := ms.LastCommitID().Version; got != latest {
				return fail("reload-version", "reloaded at version %d, committed %d", got, latest)
			}
			if bad := checkLive("after restart"); bad != nil {
				return bad
			}
			if bad := checkViews("after restart"); bad != nil {
				return bad
			}
		case 4: // crash at the commit's physical write, then restart
			mach.CrashAt = mach.Ops + 1
			crashed := func() (crashed bool) {
				defer func() {
					if x := recover(); x != nil {
						if _, ok := x.(simdb.CrashSentinel); ok {
							crashed = true
							return
						}
						panic(x)
					}
				}()
				ms.Commit()
				return false
			}()
			if !crashed {
				kernel.Harnessf("Commit issued no physical write")
			}
			disk.Crash(disk.Unsynced())
			mach.Reboot()
			r.Fault("crash_in_commit")
			if c.Bool() {
				fast = !fast
				r.Fault("fast_index_toggled")
			}
			c.Event("crash in commit; restart fast=%v", fast)
			if err := open(); err != nil {
				return fail("reload-error", "reload after crash in commit (fast %v): %v", fast, err)
			}
			model = map[string][]byte{}
			for k, v := range versions[latest] {
				model[k] = v
			}
			if bad := checkLive("after crash+restart"); bad != nil {
				return bad
			}
		case 5:
			if bad := checkViews("mid-run"); bad != nil {
				return bad
			}
		}
		r.Steps++
	}
	if bad := checkLive("end of run"); bad != nil {
		return bad
	}
	if bad := checkViews("end of run"); bad != nil {
		return bad
	}
	r.Nontrivial = r.Faults["restart"]+r.Faults["crash_in_commit"] > 0 && r.Probes["commits"] >= 2
	r.Sample = map[string]any{"first_events": c.Log[:min(len(c.Log), 25)]}
	return r
}

// runC26 mixes the tree-level and the store-level histories.
func runC26(c *kernel.Choices, p kernel.Params) *kernel.Result {
	if c.Intn(2) == 0 {
		return runBptree(c, p)
	}
	return runStoreFast(c, p)
}
