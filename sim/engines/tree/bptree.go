// Engine tree: the real bptree.MutableTree / ImmutableTree / nodeDB / fast
// index / prune / export / import over the simulated disk, driven by a seeded
// history with reopen, crash (kill and power loss), injected I/O errors and
// per-run configuration (node cache size, fast index, flush threshold, sync).
//
// Oracles: a versioned ordered-map model (C23), a never-faulted reference twin
// fed the same logical history (C24), ics23 verification (C25), and a
// fast-index-off second handle (C26, part i + end-of-run F-entry audit).
package tree

import (
	"bytes"
	"encoding/binary"
	"errors"
	"fmt"
	"sort"

	ics23 "github.com/cosmos/ics23/go"

	bp "github.com/gnolang/gno/tm2/pkg/bptree"

	"verif/sim/kernel"
	"verif/sim/simdb"
)

type cfg struct {
	cache int
	fast  bool
	flush int
	sync  bool
}

type lop struct { // logical op of a working session
	del bool
	k   string
	v   []byte
}

type bsim struct {
	collapses int
	c    *kernel.Choices
	r    *kernel.Result
	prop string

	mach *simdb.Machine
	disk *simdb.Disk
	t    *bp.MutableTree
	cf   cfg

	working map[string][]byte
	loaded  int64                        // version the working tree derives from
	all     map[int64]map[string][]byte // contents of every version ever durably or tentatively saved
	hist    map[int64][]lop             // session ops that produced version v from v-1
	hashes  map[int64][]byte            // root hash returned by SaveVersion
	avail   map[int64]bool              // retained versions (model)
	latest  int64
	durable int64 // highest version known to be on stable storage
	session []lop
	poisoned bool

	imp       *bp.MutableTree // state-synced twin: imported from an export of the latest version, then fed the same ops
	ref       *bp.MutableTree // reference twin: default config, plain simdb, never faulted/reopened/pruned
	refLatest int64

	keys   []string
	removed []string
	maxHeight int
	valCtr int
	stop   bool
}

func (s *bsim) fail(oracle, format string, args ...any) {
	s.r.Fail(s.prop, oracle, format, args...)
	s.stop = true
}

func (s *bsim) drawCfg() cfg {
	c := s.c
	return cfg{
		cache: []int{0, 1, 3, 50, 10000}[c.Intn(5)],
		fast:  c.Bool(),
		flush: []int{100 * 1024, 1, 64, 2000}[c.Intn(4)],
		sync:  c.Bool(),
	}
}

func (s *bsim) open() error {
	s.t = bp.NewMutableTreeWithDB(s.disk.Open(), s.cf.cache, nil,
		bp.FastIndexOption(s.cf.fast), bp.FlushThresholdOption(s.cf.flush), bp.SyncOption(s.cf.sync))
	_, err := s.t.Load()
	return err
}

func copyMap(m map[string][]byte) map[string][]byte {
	n := make(map[string][]byte, len(m))
	for k, v := range m {
		n[k] = v
	}
	return n
}

func sortedKeys(m map[string][]byte) []string {
	ks := make([]string, 0, len(m))
	for k := range m {
		ks = append(ks, k)
	}
	sort.Strings(ks)
	return ks
}

func (s *bsim) genKeys() {
	c := s.c
	// the 20000-key profile reaches tree height 3 (two inner levels above the leaves' parents): needed for shrink-by-
	// more-than-one-level campaigns (opCollapse)
	n := []int{6, 40, 120, 400, 1300, 4200, 20000}[c.Weighted([]int{1, 2, 4, 4, 2, 2, 1})]
	shape := c.Intn(3)
	s.keys = make([]string, n)
	for i := range s.keys {
		switch shape {
		case 0:
			s.keys[i] = fmt.Sprintf("k%05d", i)
		case 1: // shared prefixes and boundary bytes
			s.keys[i] = string([]byte{byte(i % 3 * 127), byte(i / 3 % 256), byte(i / 768)}) + "\x00\xff"[i%2:i%2+1]
		default:
			s.keys[i] = fmt.Sprintf("%x/%d", i%7, i)
		}
	}
	sort.Strings(s.keys)
	// dedup
	out := s.keys[:0]
	for i, k := range s.keys {
		if i == 0 || k != s.keys[i-1] {
			out = append(out, k)
		}
	}
	s.keys = out
}

func (s *bsim) pickKey() string {
	c := s.c
	switch c.Intn(8) {
	case 0: // a key never in the keyspace (absent / between neighbours)
		return s.keys[c.Intn(len(s.keys))] + "~"
	case 1:
		return "\x00"
	case 2:
		return "\xff\xff\xff"
	}
	return s.keys[c.Intn(len(s.keys))]
}

func (s *bsim) newVal() []byte {
	s.valCtr++
	c := s.c
	switch c.Intn(12) {
	case 0:
		return []byte{}
	case 1:
		return bytes.Repeat([]byte{byte(s.valCtr)}, 300+c.Intn(1500))
	}
	return []byte(fmt.Sprintf("v%d", s.valCtr))
}

func (s *bsim) applyRef(o lop) {
	if s.loaded != s.latest {
		return // the twin only mirrors sessions that can become the next version
	}
	s.applyRefRaw(o)
	s.applyImp(o)
}

func (s *bsim) applyImp(o lop) {
	if s.imp == nil {
		return
	}
	var err error
	if o.del {
		_, _, err = s.imp.Remove([]byte(o.k))
	} else {
		_, err = s.imp.Set([]byte(o.k), o.v)
	}
	if err != nil {
		s.fail("imported-twin-op-error", "op on the tree imported from an export failed: %v", err)
	}
}

func (s *bsim) applyRefRaw(o lop) {
	if o.del {
		s.ref.Remove([]byte(o.k))
	} else {
		s.ref.Set([]byte(o.k), o.v)
	}
}

// rebuildRef reconstructs the reference twin from the recorded per-version
// session histories up to version v (used after a crash lost versions).
func (s *bsim) rebuildRef(v int64) {
	s.ref = bp.NewMutableTreeWithDB(simdb.NewDisk("ref", nil).Open(), 10000, nil)
	for i := int64(1); i <= v; i++ {
		for _, o := range s.hist[i] {
			s.applyRefRaw(o)
		}
		h, ver, err := s.ref.SaveVersion()
		if err != nil || ver != i {
			kernel.Harnessf("ref twin rebuild: SaveVersion v%d: ver=%d err=%v", i, ver, err)
		}
		if !bytes.Equal(h, s.hashes[i]) {
			s.fail("hash-vs-replayed-history", "version %d: hash %x recorded from the faulted tree, %x when the same logical history (without rolled-back ops) is replayed on a fresh tree", i, s.hashes[i], h)
			return
		}
	}
	s.refLatest = v
}

// ---- op implementations --------------------------------------------------

func (s *bsim) opSet() {
	k, v := s.pickKey(), s.newVal()
	if s.c.Chance(1, 6) && len(s.keys) > 0 { // 90/10 style appends
		k = fmt.Sprintf("zz%06d", s.valCtr)
	} else if len(s.removed) > 0 && s.c.Chance(1, 5) { // re-create a recently removed key (routing around old separators)
		k = s.removed[s.c.Intn(len(s.removed))]
	}
	_, had := s.working[k]
	upd, err := s.t.Set([]byte(k), v)
	s.c.Event("Set %q len=%d -> upd=%v err=%v", k, len(v), upd, err)
	if s.poisoned {
		if !errors.Is(err, bp.ErrSessionPoisoned) {
			s.fail("poison-not-enforced", "Set after failed SaveVersion returned %v", err)
		}
		return
	}
	if err != nil {
		s.fail("set-error", "Set(%q) failed on a healthy session: %v", k, err)
		return
	}
	if upd != had {
		s.fail("set-updated-flag", "Set(%q) updated=%v, model had=%v", k, upd, had)
		return
	}
	s.working[k] = v
	o := lop{k: k, v: v}
	s.session = append(s.session, o)
	s.applyRef(o)
}

func (s *bsim) opRemove() {
	k := s.pickKey()
	old, had := s.working[k]
	val, removed, err := s.t.Remove([]byte(k))
	s.c.Event("Remove %q -> removed=%v err=%v", k, removed, err)
	if s.poisoned {
		if !errors.Is(err, bp.ErrSessionPoisoned) {
			s.fail("poison-not-enforced", "Remove after failed SaveVersion returned %v", err)
		}
		return
	}
	if err != nil {
		s.fail("remove-error", "Remove(%q): %v", k, err)
		return
	}
	if removed != had || (had && !bytes.Equal(val, old)) {
		s.fail("remove-result", "Remove(%q) = (%q,%v), model (%q,%v)", k, val, removed, old, had)
		return
	}
	if !had {
		return // not a mutation: the session stays clean
	}
	delete(s.working, k)
	s.removed = append(s.removed, k)
	if len(s.removed) > 16 {
		s.removed = s.removed[1:]
	}
	o := lop{del: true, k: k}
	s.session = append(s.session, o)
	s.applyRef(o)
}

type reader interface {
	Get(key []byte) ([]byte, error)
	Has(key []byte) (bool, error)
	Size() int64
	GetByIndex(index int64) ([]byte, []byte, error)
	GetWithIndex(key []byte) (int64, []byte, error)
	IterateRange(start, end []byte, ascending bool, fn func(key, value []byte) bool) (bool, error)
}

// checkReads compares a handful of reads on rd against model m.
func (s *bsim) checkReads(what string, rd reader, m map[string][]byte, n int) {
	c := s.c
	ks := sortedKeys(m)
	if rd.Size() != int64(len(m)) {
		s.fail("size", "%s: Size=%d model=%d", what, rd.Size(), len(m))
		return
	}
	for i := 0; i < n && !s.stop; i++ {
		switch c.Intn(5) {
		case 0, 1:
			k := s.pickKey()
			if len(ks) > 0 && c.Bool() {
				k = ks[c.Intn(len(ks))]
			}
			v, err := rd.Get([]byte(k))
			mv, ok := m[k]
			if err != nil || (ok && (v == nil || !bytes.Equal(v, mv))) || (!ok && v != nil) {
				s.fail("get", "%s: Get(%q)=%q,%v model=%q present=%v", what, k, v, err, mv, ok)
				return
			}
			h, err := rd.Has([]byte(k))
			if err != nil || h != ok {
				s.fail("has", "%s: Has(%q)=%v,%v model=%v", what, k, h, err, ok)
				return
			}
		case 2:
			if len(ks) == 0 {
				continue
			}
			i := c.Intn(len(ks))
			k, v, err := rd.GetByIndex(int64(i))
			if err != nil || string(k) != ks[i] || !bytes.Equal(v, m[ks[i]]) {
				s.fail("get-by-index", "%s: GetByIndex(%d)=(%q,%q,%v) model (%q,%q)", what, i, k, v, err, ks[i], m[ks[i]])
				return
			}
		case 3:
			k := s.pickKey()
			idx, v, err := rd.GetWithIndex([]byte(k))
			want := sort.SearchStrings(ks, k)
			mv, ok := m[k]
			if err != nil || idx != int64(want) || (ok && !bytes.Equal(v, mv)) || (!ok && v != nil) {
				s.fail("get-with-index", "%s: GetWithIndex(%q)=(%d,%q,%v) model (%d,%q,%v)", what, k, idx, v, err, want, mv, ok)
				return
			}
		case 4:
			var start, end []byte
			if c.Bool() {
				start = []byte(s.pickKey())
			}
			if c.Bool() {
				end = []byte(s.pickKey())
			}
			asc := c.Bool()
			var got []string
			bad := ""
			_, err := rd.IterateRange(start, end, asc, func(k, v []byte) bool {
				got = append(got, string(k))
				if !bytes.Equal(v, m[string(k)]) {
					bad = fmt.Sprintf("value of %q is %q, model %q", k, v, m[string(k)])
				}
				return false
			})
			var want []string
			for _, k := range ks {
				if (start == nil || k >= string(start)) && (end == nil || k < string(end)) {
					want = append(want, k)
				}
			}
			if !asc {
				for i, j := 0, len(want)-1; i < j; i, j = i+1, j-1 {
					want[i], want[j] = want[j], want[i]
				}
			}
			if err != nil || bad != "" || fmt.Sprint(got) != fmt.Sprint(want) {
				s.fail("iterate-range", "%s: IterateRange(%q,%q,asc=%v) err=%v %s got %d keys want %d: %.300q vs %.300q", what, start, end, asc, err, bad, len(got), len(want), got, want)
				return
			}
		}
	}
}

func (s *bsim) opReadWorking() {
	if s.poisoned {
		// documented: a failed SaveVersion discards staged values the working
		// tree still references; only Rollback/LoadVersion make it readable again
		if s.c.Bool() {
			s.opRollback()
		}
		return
	}
	s.c.Event("read working")
	s.checkReads("working tree", s.t, s.working, 3)
	if !s.stop && s.loaded == s.latest && s.refLatest == s.latest && !s.poisoned {
		if h, rh := s.t.WorkingHash(), s.ref.WorkingHash(); !bytes.Equal(h, rh) {
			s.fail("working-hash-vs-twin", "WorkingHash %x differs from the reference twin's %x (config %+v)", h, rh, s.cf)
		}
	}
}

func (s *bsim) pickVersion() int64 {
	var vs []int64
	for v := range s.avail {
		vs = append(vs, v)
	}
	if len(vs) == 0 {
		return 0
	}
	sort.Slice(vs, func(i, j int) bool { return vs[i] < vs[j] })
	return vs[s.c.Intn(len(vs))]
}

func (s *bsim) opReadVersion() {
	v := s.pickVersion()
	if v == 0 {
		return
	}
	imm, err := s.t.GetImmutable(v)
	s.c.Event("read version %d err=%v", v, err)
	if err != nil {
		s.fail("retained-version-unreadable", "GetImmutable(%d) on a retained version: %v", v, err)
		return
	}
	defer imm.Close()
	s.checkReads(fmt.Sprintf("version %d", v), imm, s.all[v], 3)
	if !s.stop && !bytes.Equal(imm.Hash(), s.hashes[v]) {
		s.fail("saved-hash-changed", "version %d hash now %x, was %x at save", v, imm.Hash(), s.hashes[v])
	}
}

// proofs on a retained version (C25)
func (s *bsim) opProof() {
	v := s.pickVersion()
	if v == 0 {
		return
	}
	imm, err := s.t.GetImmutable(v)
	if err != nil {
		s.fail("retained-version-unreadable", "GetImmutable(%d): %v", v, err)
		return
	}
	defer imm.Close()
	m := s.all[v]
	ks := sortedKeys(m)
	root := s.hashes[v]
	k := s.pickKey()
	if len(ks) > 0 && s.c.Bool() {
		k = ks[s.c.Intn(len(ks))]
	}
	s.c.Event("proof v=%d key=%q", v, k)
	val, present := m[k]
	// neighbours (documented limitation: empty values are unprovable in ics23)
	idx := sort.SearchStrings(ks, k)
	emptyNeighbour := false
	if !present {
		if idx > 0 && len(m[ks[idx-1]]) == 0 {
			emptyNeighbour = true
		}
		if idx < len(ks) && len(m[ks[idx]]) == 0 {
			emptyNeighbour = true
		}
	}
	if present {
		if len(val) == 0 {
			return
		}
		p, err := imm.GetMembershipProof([]byte(k))
		if err != nil {
			s.fail("membership-proof-missing", "v%d GetMembershipProof(%q): %v", v, k, err)
			return
		}
		s.r.Probe("membership_proofs")
		if !ics23.VerifyMembership(bp.BptreeSpec, root, p, []byte(k), val) {
			s.fail("membership-proof-rejected", "v%d proof for present key %q does not verify against the version's root", v, k)
			return
		}
		if ics23.VerifyMembership(bp.BptreeSpec, root, p, []byte(k), append(append([]byte{}, val...), 'x')) ||
			ics23.VerifyMembership(bp.BptreeSpec, root, p, []byte(k+"x"), val) {
			s.fail("membership-proof-unsound", "v%d proof for %q verifies for another key or value", v, k)
			return
		}
		other := s.pickVersion()
		if !bytes.Equal(s.hashes[other], root) && ics23.VerifyMembership(bp.BptreeSpec, s.hashes[other], p, []byte(k), val) {
			s.fail("membership-proof-unsound", "v%d proof for %q verifies against the different root of v%d", v, k, other)
			return
		}
		if ics23.VerifyNonMembership(bp.BptreeSpec, root, p, []byte(k)) {
			s.fail("membership-proof-unsound", "existence proof accepted as non-membership")
			return
		}
		if _, err := imm.GetNonMembershipProof([]byte(k)); err == nil {
			s.fail("nonmembership-proof-for-present-key", "v%d GetNonMembershipProof(%q) succeeded for a present key", v, k)
		}
		return
	}
	if len(ks) == 0 {
		return
	}
	p, err := imm.GetNonMembershipProof([]byte(k))
	if err != nil {
		s.fail("nonmembership-proof-missing", "v%d GetNonMembershipProof(%q): %v", v, k, err)
		return
	}
	s.r.Probe("nonmembership_proofs")
	if idx == 0 {
		s.r.Probe("nonmembership_before_first")
	} else if idx == len(ks) {
		s.r.Probe("nonmembership_after_last")
	}
	ok := ics23.VerifyNonMembership(bp.BptreeSpec, root, p, []byte(k))
	if !ok && !emptyNeighbour {
		s.fail("nonmembership-proof-rejected", "v%d proof for absent key %q does not verify", v, k)
		return
	}
	// must not verify for a present key
	pk := ks[s.c.Intn(len(ks))]
	if ics23.VerifyNonMembership(bp.BptreeSpec, root, p, []byte(pk)) {
		s.fail("nonmembership-proof-unsound", "v%d non-membership proof for %q verifies for present key %q", v, k, pk)
		return
	}
	if _, err := imm.GetMembershipProof([]byte(k)); err == nil {
		s.fail("membership-proof-for-absent-key", "v%d GetMembershipProof(%q) succeeded for an absent key", v, k)
	}
}

func (s *bsim) opSave() {
	if s.loaded != s.latest {
		return
	}
	if s.c.Chance(1, 12) && !s.poisoned { // injected I/O error on the commit batch
		s.mach.FailAt[s.mach.Ops+1] = true
		_, _, err := s.t.SaveVersion()
		s.c.Event("SaveVersion with injected error -> %v", err)
		if err == nil {
			s.fail("save-swallowed-io-error", "SaveVersion returned nil although its batch write failed")
			return
		}
		delete(s.mach.FailAt, s.mach.Ops)
		s.r.Fault("db_error_in_save")
		s.poisoned = true
		s.imp = nil
		return
	}
	h, ver, err := s.t.SaveVersion()
	s.c.Event("SaveVersion -> v=%d hash=%x err=%v", ver, h, err)
	if s.poisoned {
		if !errors.Is(err, bp.ErrSessionPoisoned) {
			s.fail("poison-not-enforced", "SaveVersion after a failed SaveVersion returned %v", err)
		}
		return
	}
	if err != nil {
		s.fail("save-error", "SaveVersion: %v", err)
		return
	}
	if ver != s.latest+1 {
		s.fail("save-version-number", "SaveVersion returned version %d, expected %d", ver, s.latest+1)
		return
	}
	s.latest = ver
	s.loaded = ver
	s.all[ver] = copyMap(s.working)
	s.hist[ver] = s.session
	s.session = nil
	s.hashes[ver] = h
	s.avail[ver] = true
	if s.cf.sync {
		s.durable = ver
	}
	rh, rv, rerr := s.ref.SaveVersion()
	if rerr != nil || rv != ver {
		kernel.Harnessf("ref twin SaveVersion: v=%d err=%v (want v%d)", rv, rerr, ver)
	}
	s.refLatest = ver
	if s.imp != nil {
		ih, iv, ierr := s.imp.SaveVersion()
		if ierr != nil || iv != ver {
			s.fail("imported-twin-save", "tree imported at an earlier version: SaveVersion -> v%d err=%v, want v%d", iv, ierr, ver)
			return
		}
		s.r.Probe("imported_twin_versions_compared")
		if !bytes.Equal(ih, h) {
			s.fail("hash-vs-imported-twin", "version %d: root hash %x on the tree that lived through the history, %x on a tree that was imported from an export of an earlier version and then applied the same operations", ver, h, ih)
			return
		}
	}
	if !bytes.Equal(h, rh) {
		s.fail("hash-vs-twin", "version %d: root hash %x, reference twin (no reopen, default cache, no fast index, no pruning) %x; config %+v", ver, h, rh, s.cf)
	}
}

func (s *bsim) opRollback() {
	s.t.Rollback()
	s.c.Event("Rollback")
	s.working = copyMap(s.all[s.loaded])
	s.session = nil
	s.poisoned = false
	if s.loaded == s.latest {
		s.ref.Rollback()
		if s.imp != nil {
			s.imp.Rollback()
		}
	} else {
		s.imp = nil
	}
	s.r.Probe("rollbacks")
	s.checkReads("after rollback", s.t, s.working, 2)
}

func (s *bsim) opLoadVersion() {
	s.imp = nil // the imported twin only follows an undisturbed latest lineage
	v := s.pickVersion()
	if v == 0 {
		return
	}
	if s.loaded == s.latest && len(s.session) > 0 {
		s.ref.Rollback()
	}
	_, err := s.t.LoadVersion(v)
	s.c.Event("LoadVersion %d err=%v", v, err)
	if err != nil {
		s.fail("retained-version-unreadable", "LoadVersion(%d) of a retained version: %v", v, err)
		return
	}
	s.loaded = v
	s.working = copyMap(s.all[v])
	s.session = nil
	s.poisoned = false
	s.checkReads(fmt.Sprintf("after LoadVersion(%d)", v), s.t, s.working, 2)
}

func (s *bsim) ensureLatestClean() bool {
	s.imp = nil // the imported twin only follows an undisturbed latest lineage
	if s.loaded != s.latest || len(s.session) > 0 || s.poisoned {
		s.c.Event("discard session, back to latest %d", s.latest)
		if s.loaded == s.latest {
			s.ref.Rollback()
		}
		if s.latest == 0 {
			s.t.Rollback()
			s.working = map[string][]byte{}
			s.session = nil
			s.poisoned = false
			return true
		}
		if _, err := s.t.LoadVersion(s.latest); err != nil {
			s.fail("retained-version-unreadable", "LoadVersion(latest=%d): %v", s.latest, err)
			return false
		}
		s.loaded = s.latest
		s.working = copyMap(s.all[s.latest])
		s.session = nil
		s.poisoned = false
	}
	return true
}

func (s *bsim) opPrune(crash bool) {
	if s.latest < 2 {
		return
	}
	var vs []int64
	for v := range s.avail {
		if v < s.latest {
			vs = append(vs, v)
		}
	}
	if len(vs) == 0 {
		return
	}
	sort.Slice(vs, func(i, j int) bool { return vs[i] < vs[j] })
	to := vs[s.c.Intn(len(vs))]
	if len(s.session) > 0 && s.loaded == s.latest && !s.poisoned && s.c.Bool() {
		err := s.t.PruneVersionsTo(to)
		s.c.Event("Prune %d with dirty session -> %v", to, err)
		if !errors.Is(err, bp.ErrUncommittedChanges) {
			s.fail("prune-with-dirty-session", "PruneVersionsTo(%d) with uncommitted changes returned %v", to, err)
		}
		return
	}
	if !s.ensureLatestClean() {
		return
	}
	if crash {
		// die somewhere inside the prune's commits
		s.mach.CrashAt = s.mach.Ops + 1 + uint64(s.c.Intn(3))
		s.c.Event("Prune to %d with crash armed at op %d", to, s.mach.CrashAt)
		crashed := s.guard(func() { s.t.PruneVersionsTo(to) })
		if !crashed {
			s.mach.CrashAt = 0
			for v := range s.avail {
				if v <= to {
					delete(s.avail, v)
				}
			}
			return
		}
		s.recoverAfterCrash("prune")
		return
	}
	err := s.t.PruneVersionsTo(to)
	s.c.Event("Prune to %d -> %v", to, err)
	if err != nil {
		s.fail("prune-error", "PruneVersionsTo(%d) (latest %d): %v", to, s.latest, err)
		return
	}
	s.r.Probe("prunes")
	for v := range s.avail {
		if v <= to {
			delete(s.avail, v)
		}
	}
}

// guard runs f and reports whether the simulated crash fired inside it.
func (s *bsim) guard(f func()) (crashed bool) {
	defer func() {
		if r := recover(); r != nil {
			if _, ok := r.(simdb.CrashSentinel); ok {
				crashed = true
				return
			}
			panic(r)
		}
	}()
	f()
	return false
}

func (s *bsim) opReopen() {
	s.cf = s.drawCfg()
	s.c.Event("close+reopen cfg=%+v", s.cf)
	s.t.Close()
	s.r.Fault("reopen")
	if s.loaded == s.latest && len(s.session) > 0 {
		s.ref.Rollback()
	}
	if err := s.open(); err != nil {
		s.fail("reopen-error", "Load after clean close: %v", err)
		return
	}
	s.afterOpen("reopen")
}

func (s *bsim) opCrashInSave() {
	if !s.ensureLatestClean() {
		return
	}
	// make a few changes, then die at the commit's write (or right after it)
	n := 1 + s.c.Intn(4)
	for i := 0; i < n && !s.stop; i++ {
		if s.c.Intn(3) == 0 {
			s.opRemove()
		} else {
			s.opSet()
		}
	}
	if s.stop {
		return
	}
	after := s.c.Bool()
	if after {
		s.opSave()
		if s.stop {
			return
		}
		s.c.Event("crash right after SaveVersion returned")
	} else {
		s.mach.CrashAt = s.mach.Ops + 1
		s.c.Event("crash armed at SaveVersion's write, op %d", s.mach.CrashAt)
		if !s.guard(func() { s.t.SaveVersion() }) {
			kernel.Harnessf("SaveVersion issued no physical write")
		}
		s.ref.Rollback()
	}
	s.recoverAfterCrash("save")
}

func (s *bsim) recoverAfterCrash(where string) {
	// kill: everything written survives; power loss: a suffix of the unsynced ops is lost
	un := s.disk.Unsynced()
	keep := un
	if s.c.Bool() && un > 0 {
		keep = s.c.Intn(un + 1)
		s.r.Fault("power_loss")
	} else {
		s.r.Fault("kill")
	}
	dropped := s.disk.Crash(keep)
	s.mach.Reboot()
	s.c.Event("crash in %s: unsynced=%d kept=%d dropped=%d", where, un, keep, dropped)
	s.cf = s.drawCfg()
	if err := s.open(); err != nil {
		s.fail("recovery-load-error", "Load after crash in %s (kept %d of %d unsynced ops, cfg %+v): %v", where, keep, un, s.cf, err)
		return
	}
	s.afterOpen("crash-" + where)
}

// afterOpen re-synchronises the model with what survived and checks it.
func (s *bsim) afterOpen(why string) {
	s.imp = nil // the imported twin only follows an undisturbed latest lineage
	s.ref.Rollback() // whatever session the twin mirrored died with the process
	v := s.t.Version()
	if v > s.latest || v < s.durable {
		s.fail("recovered-version-out-of-range", "%s: tree is at version %d; model latest %d, durable frontier %d", why, v, s.latest, s.durable)
		return
	}
	if v < s.latest {
		s.r.Probe("versions_lost_to_power_loss")
	}
	got := map[int64]bool{}
	for _, av := range s.t.AvailableVersions() {
		got[int64(av)] = true
	}
	for av := range got {
		if _, ok := s.all[av]; !ok || av > v {
			s.fail("phantom-version", "%s: version %d is available but was never saved (latest %d)", why, av, v)
			return
		}
	}
	if v > 0 && !got[v] {
		s.fail("latest-not-available", "%s: loaded version %d not in AvailableVersions", why, v)
		return
	}
	if why == "reopen" {
		for av := range s.avail {
			if !got[av] {
				s.fail("retained-version-lost", "%s: retained version %d disappeared", why, av)
				return
			}
		}
		for av := range got {
			if !s.avail[av] {
				s.fail("pruned-version-back", "%s: pruned version %d reappeared", why, av)
				return
			}
		}
	}
	// after a crash the retained set is whatever the disk says (prunes may be partial/undone)
	s.avail = got
	for ver := range s.all {
		if ver > v {
			delete(s.all, ver)
			delete(s.hist, ver)
			delete(s.hashes, ver)
		}
	}
	if v < s.refLatest || v < s.latest {
		s.latest = v
		s.rebuildRef(v)
		if s.stop {
			return
		}
	}
	s.latest = v
	s.loaded = v
	if s.durable > v {
		s.durable = v
	}
	s.working = copyMap(s.all[v])
	s.session = nil
	s.poisoned = false
	if v > 0 && !bytes.Equal(s.t.Hash(), s.hashes[v]) {
		s.fail("hash-after-reopen", "%s: version %d hash %x after reopen, %x when saved (cfg %+v)", why, v, s.t.Hash(), s.hashes[v], s.cf)
		return
	}
	s.checkReads(why, s.t, s.working, 4)
	// every surviving version must read back
	for _, av := range s.t.AvailableVersions() {
		if s.stop {
			return
		}
		if s.c.Chance(1, 2) {
			imm, err := s.t.GetImmutable(int64(av))
			if err != nil {
				s.fail("retained-version-unreadable", "%s: GetImmutable(%d): %v", why, av, err)
				return
			}
			s.checkReads(fmt.Sprintf("%s: version %d", why, av), imm, s.all[int64(av)], 2)
			imm.Close()
		}
	}
}

func (s *bsim) opExportImport() {
	v := s.pickVersion()
	if s.imp == nil && s.c.Bool() && s.loaded == s.latest && !s.poisoned {
		// state-sync scenario: export the latest version (saving the session first)
		if len(s.session) > 0 {
			s.opSave()
			if s.stop || s.poisoned {
				return
			}
		}
		v = s.latest
	}
	if v == 0 || len(s.all[v]) == 0 {
		return
	}
	imm, err := s.t.GetImmutable(v)
	if err != nil {
		s.fail("retained-version-unreadable", "GetImmutable(%d): %v", v, err)
		return
	}
	defer imm.Close()
	exp, err := imm.Export(nil)
	if err != nil {
		s.fail("export-error", "Export(v%d): %v", v, err)
		return
	}
	defer exp.Close()
	dst := bp.NewMutableTreeWithDB(simdb.NewDisk("import", nil).Open(), []int{0, 10, 10000}[s.c.Intn(3)], nil, bp.FastIndexOption(s.c.Bool()))
	imp, err := dst.Import(v)
	if err != nil {
		s.fail("import-error", "Import(%d) into empty db: %v", v, err)
		return
	}
	n := 0
	for {
		node, err := exp.Next()
		if errors.Is(err, bp.ErrExportDone) {
			break
		}
		if err != nil {
			s.fail("export-error", "Export(v%d).Next: %v", v, err)
			return
		}
		if err := imp.Add(node); err != nil {
			s.fail("import-error", "Import.Add: %v", err)
			return
		}
		n++
	}
	if err := imp.Commit(); err != nil {
		s.fail("import-error", "Import.Commit: %v", err)
		return
	}
	imp.Close()
	s.c.Event("export v%d -> import: %d nodes", v, n)
	s.r.Probe("export_import")
	if !bytes.Equal(dst.Hash(), s.hashes[v]) {
		s.fail("import-hash", "version %d exported and imported into an empty db has hash %x, original %x", v, dst.Hash(), s.hashes[v])
		return
	}
	s.checkReads(fmt.Sprintf("imported v%d", v), dst, s.all[v], 4)
	if !s.stop && v == s.latest && s.loaded == s.latest && len(s.session) == 0 && !s.poisoned {
		// keep the imported tree as a state-synced twin: it receives every later operation and
		// must keep producing the same root hashes as the tree that lived through the history
		s.imp = dst
		s.r.Probe("imported_twin_started")
	}
}

// opFastAudit: C26 (i)+(ii) at a quiescent point. A second handle with the
// index off is the authority; every F entry the stamp vouches for must match.
func (s *bsim) fastAudit(why string) {
	if s.latest == 0 {
		return
	}
	auth := bp.NewMutableTreeWithDB(s.disk.Open(), 0, nil)
	if _, err := auth.LoadReadonly(); err != nil {
		s.fail("authoritative-load", "%s: %v", why, err)
		return
	}
	fastT := bp.NewMutableTreeWithDB(s.disk.Open(), 0, nil, bp.FastIndexOption(true))
	if _, err := fastT.LoadReadonly(); err != nil {
		s.fail("fast-load", "%s: %v", why, err)
		return
	}
	imm, err := fastT.GetImmutable(auth.Version())
	if err != nil {
		s.fail("fast-load", "%s: GetImmutable: %v", why, err)
		return
	}
	defer imm.Close()
	m := s.all[auth.Version()]
	for _, k := range sortedKeys(m) {
		fv, err := imm.Get([]byte(k))
		av, _ := auth.Get([]byte(k))
		if err != nil || !bytes.Equal(fv, av) || !bytes.Equal(fv, m[k]) {
			s.fail("fast-index-stale", "%s: version %d key %q: fast-index handle %q, authoritative walk %q, model %q", why, auth.Version(), k, fv, av, m[k])
			return
		}
	}
	for _, k := range s.keys[:min(len(s.keys), 40)] {
		if _, ok := m[k]; ok {
			continue
		}
		fv, _ := imm.Get([]byte(k))
		if fv != nil {
			s.fail("fast-index-stale", "%s: version %d absent key %q served as %q through the fast index", why, auth.Version(), k, fv)
			return
		}
	}
	s.r.Probe("fast_audits")
	// (ii) byte-level audit of the index itself: every 'F' entry the stamp
	// vouches for (stamp >= version, entry version <= version) must equal the
	// version's content, whether or not anything reads it.
	keys, vals := s.disk.Dump()
	stamp := int64(-1)
	for i, k := range keys {
		if k == "Mfastidx" && len(vals[i]) == 12 {
			stamp = int64(binary.BigEndian.Uint64(vals[i][:8]))
		}
	}
	ver := auth.Version()
	if stamp > ver {
		s.fail("fast-index-stamp-ahead", "%s: fast-index stamp %d is ahead of the latest version %d", why, stamp, ver)
		return
	}
	if stamp == ver {
		s.r.Probe("fast_index_trusted_at_audit")
		for i, k := range keys {
			if len(k) < 2 || k[0] != 'F' || len(vals[i]) < 12 {
				continue
			}
			ev := int64(binary.BigEndian.Uint64(vals[i][:8]))
			if ev > ver {
				continue
			}
			val := vals[i][8 : len(vals[i])-4]
			mv, ok := m[k[1:]]
			if !ok || !bytes.Equal(mv, val) {
				s.fail("fast-index-entry-stale", "%s: trusted index entry for %q (entry version %d, stamp %d) holds %q but version %d has %q (present=%v)", why, k[1:], ev, stamp, val, ver, mv, ok)
				return
			}
			s.r.Probe("fast_entries_audited")
		}
	}
}

// opBulk inserts or removes a long run of keys (ascending, descending or strided) so that
// leaves and INNER nodes split, merge and redistribute; reads are checked afterwards.
func (s *bsim) opBulk() {
	if s.poisoned || len(s.keys) < 64 {
		return
	}
	c := s.c
	n := len(s.keys)
	count := n/8 + c.Intn(n/2+1)
	start := c.Intn(n)
	stride := []int{1, n - 1, 7, 31, 33, 97}[c.Intn(6)] // n-1 == descending
	remove := c.Intn(3) != 0
	if len(s.working) < n/4 {
		remove = false
	}
	s.c.Event("bulk %s count=%d start=%d stride=%d", map[bool]string{true: "remove", false: "insert"}[remove], count, start, stride)
	for i := 0; i < count && !s.stop; i++ {
		k := s.keys[(start+i*stride)%n]
		if remove {
			old, had := s.working[k]
			val, removed, err := s.t.Remove([]byte(k))
			if err != nil || removed != had || (had && !bytes.Equal(val, old)) {
				s.fail("remove-result", "bulk Remove(%q) = (%q,%v,%v), model (%q,%v)", k, val, removed, err, old, had)
				return
			}
			if had {
				delete(s.working, k)
				o := lop{del: true, k: k}
				s.session = append(s.session, o)
				s.applyRef(o)
			}
		} else {
			s.valCtr++
			v := []byte(fmt.Sprintf("b%d", s.valCtr))
			_, had := s.working[k]
			upd, err := s.t.Set([]byte(k), v)
			if err != nil || upd != had {
				s.fail("set-updated-flag", "bulk Set(%q) updated=%v err=%v, model had=%v", k, upd, err, had)
				return
			}
			s.working[k] = v
			o := lop{k: k, v: v}
			s.session = append(s.session, o)
			s.applyRef(o)
		}
	}
	s.r.Probe("bulk_ops")
	if !s.stop {
		s.checkReads("after bulk op", s.t, s.working, 8)
	}
}

// opCollapse: fill the whole key space (a tall tree), save, remove everything but the highest keys in one session
// (the tree loses two or more levels while its right-most leaves stay untouched and shared with the previous
// version), save, prune the tall version, and read the retained one.
func (s *bsim) opCollapse() {
	if s.poisoned || len(s.keys) < 15000 || s.collapses >= 2 || s.loaded != s.latest {
		return
	}
	s.collapses++
	n := len(s.keys)
	s.c.Event("collapse campaign over %d keys", n)
	apply := func(from, to int, remove bool) bool {
		for i := from; i < to && !s.stop; i++ {
			k := s.keys[i]
			if remove {
				old, had := s.working[k]
				val, removed, err := s.t.Remove([]byte(k))
				if err != nil || removed != had || (had && !bytes.Equal(val, old)) {
					s.fail("remove-result", "collapse Remove(%q) = (%q,%v,%v), model (%q,%v)", k, val, removed, err, old, had)
					return false
				}
				if had {
					delete(s.working, k)
					o := lop{del: true, k: k}
					s.session = append(s.session, o)
					s.applyRef(o)
				}
				continue
			}
			if _, had := s.working[k]; had {
				continue
			}
			s.valCtr++
			v := []byte(fmt.Sprintf("c%d", s.valCtr))
			if upd, err := s.t.Set([]byte(k), v); err != nil || upd {
				s.fail("set-updated-flag", "collapse Set(%q) updated=%v err=%v, model had=false", k, upd, err)
				return false
			}
			s.working[k] = v
			o := lop{k: k, v: v}
			s.session = append(s.session, o)
			s.applyRef(o)
		}
		return !s.stop
	}
	if !apply(0, n, false) {
		return
	}
	before := s.latest
	s.opSave()
	if s.stop || s.poisoned || s.latest != before+1 {
		return
	}
	if h := int(s.t.Height()); h > s.maxHeight {
		s.maxHeight = h
	}
	keep := 20 + s.c.Intn(n/24)
	if !apply(0, n-keep, true) {
		return
	}
	tall := s.latest
	s.opSave()
	if s.stop || s.poisoned || s.latest != tall+1 {
		return
	}
	s.r.Probe("collapse_campaigns")
	s.checkReads("after collapse", s.t, s.working, 8)
	if s.stop || !s.ensureLatestClean() {
		return
	}
	if err := s.t.PruneVersionsTo(tall); err != nil {
		s.fail("prune-error", "PruneVersionsTo(%d) after a collapse (latest %d): %v", tall, s.latest, err)
		return
	}
	s.c.Event("Prune to %d after collapse", tall)
	s.r.Probe("prunes")
	for v := range s.avail {
		if v <= tall {
			delete(s.avail, v)
		}
	}
	s.checkReads("after pruning the tall version", s.t, s.working, 24)
	if !s.stop && s.c.Bool() {
		s.opReopen()
		if !s.stop {
			s.checkReads("after collapse, prune and reopen", s.t, s.working, 24)
		}
	}
}

// Run is one simulated history.
func runBptree(c *kernel.Choices, p kernel.Params) *kernel.Result {
	s := &bsim{c: c, r: kernel.NewResult(), prop: p.Property}
	s.mach = simdb.NewMachine()
	s.disk = simdb.NewDisk("tree", s.mach)
	s.working = map[string][]byte{}
	s.all = map[int64]map[string][]byte{0: {}}
	s.hist = map[int64][]lop{}
	s.hashes = map[int64][]byte{}
	s.avail = map[int64]bool{}
	s.cf = s.drawCfg()
	s.genKeys()
	if err := s.open(); err != nil {
		kernel.Harnessf("initial open: %v", err)
	}
	s.rebuildRef(0)
	c.Event("cfg=%+v keys=%d", s.cf, len(s.keys))

	nops := 30 + c.Intn(220)
	if p.Tier == "thorough" {
		nops = 60 + c.Intn(700)
	}
	// swarm: per-run weights
	w := []int{
		30 + c.Intn(40), // set
		5 + c.Intn(25),  // remove
		8,               // read working
		6,               // read version
		6 + c.Intn(8),   // save
		c.Intn(4),       // rollback
		c.Intn(4),       // loadversion
		c.Intn(5),       // prune
		c.Intn(4),       // reopen
		c.Intn(3),       // crash in save
		c.Intn(3),       // crash in prune
		c.Intn(3),       // export/import
		c.Intn(6),       // proof
		c.Intn(3),       // fast audit
		0,               // bulk insert/remove (deep profiles)
		0,               // collapse campaign (20000-key profile)
	}
	if len(s.keys) >= 400 {
		w[14] = 2 + c.Intn(6)
	}
	if len(s.keys) >= 15000 {
		w[15] = 4
	}
	switch p.Property {
	case "C25":
		w[12] += 12
	case "C26":
		w[13] += 4
		w[8] += 2
		w[9] += 2
	case "C24":
		w[8] += 2
		w[11] += 5
	}
	// initial fill so that splits exist early
	fill := c.Intn(len(s.keys) + 1)
	if c.Bool() {
		fill = len(s.keys)/2 + fill/2
	}
	for i := 0; i < fill && !s.stop; i++ {
		s.opSet()
	}
	for i := 0; i < nops && !s.stop; i++ {
		switch c.Weighted(w) {
		case 0:
			s.opSet()
		case 1:
			s.opRemove()
		case 2:
			s.opReadWorking()
		case 3:
			s.opReadVersion()
		case 4:
			s.opSave()
		case 5:
			s.opRollback()
		case 6:
			s.opLoadVersion()
		case 7:
			s.opPrune(false)
		case 8:
			s.opReopen()
		case 9:
			s.opCrashInSave()
		case 10:
			s.opPrune(true)
		case 11:
			s.opExportImport()
		case 12:
			s.opProof()
		case 13:
			s.fastAudit("mid-run")
		case 14:
			s.opBulk()
		case 15:
			s.opCollapse()
		}
		s.r.Steps++
		if h := int(s.t.Height()); h > s.maxHeight {
			s.maxHeight = h
		}
	}
	if !s.stop {
		s.fastAudit("end-of-run")
	}
	if !s.stop {
		for v := range s.avail {
			_ = v
		}
		s.opReadVersion()
	}
	for _, k := range kernel.SortedKeys(s.mach.Counters) {
		s.r.Probes["db."+k] += s.mach.Counters[k]
	}
	s.r.Probes["versions_saved"] += int(s.latest)
	s.r.Probes["max_tree_size"] += len(s.working)
	if s.maxHeight >= 1 {
		s.r.Probe("reached_height>=1")
	}
	if s.maxHeight >= 2 {
		s.r.Probe("reached_height>=2")
	}
	if s.t.Height() >= 2 {
		s.r.Probe("height>=2")
	}
	if s.t.Height() >= 3 {
		s.r.Probe("height>=3")
	}
	s.r.Nontrivial = s.latest >= 2 && (s.r.Faults["reopen"]+s.r.Faults["kill"]+s.r.Faults["power_loss"]+s.r.Faults["db_error_in_save"] > 0)
	s.r.Sample = map[string]any{"first_events": c.Log[:min(len(c.Log), 25)], "events": c.Events(), "versions": s.latest}
	return s.r
}
