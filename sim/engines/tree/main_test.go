package tree

import (
	"os"
	"testing"

	"verif/sim/kernel"
)

func TestSim(t *testing.T) {
	if os.Getenv("VERIF_PROP") == "" {
		t.Skip("driven by /verif/check")
	}
	code := kernel.Main("tree", map[string]kernel.Engine{
		"C23": runBptree,
		"C24": runBptree,
		"C25": runC25,
		"C26": runC26,
	})
	if code != 0 {
		os.Exit(code)
	}
}
