package tree

import (
	"bytes"
	"errors"
	"fmt"
	"io"
	"sort"

	"github.com/gnolang/gno/tm2/pkg/bft/types"
	"github.com/gnolang/gno/tm2/pkg/crypto/merkle"
)

// blockProofs: the block-level uses of the simple Merkle tree, on the tx-like
// records and per-store commit hashes of the multistore history.
func (s *p25) blockProofs(m *msim) {
	c := s.c
	type lst struct {
		label string
		items [][]byte
	}
	var lists []lst
	var all [][]byte
	var hs []int64
	if m != nil {
		all = m.allTxs
		for h := range m.blockTxs {
			hs = append(hs, h)
		}
		sort.Slice(hs, func(i, j int) bool { return hs[i] < hs[j] })
		for i := 0; i < 2 && len(hs) > 0; i++ {
			h := hs[c.Intn(len(hs))]
			lists = append(lists, lst{fmt.Sprintf("txs of block %d", h), m.blockTxs[h]})
		}
	}
	sizes := s.simpleSizes()
	for i := 0; i < 2; i++ {
		n := sizes[c.Intn(len(sizes))]
		items := make([][]byte, n)
		for j := range items {
			if j < len(all) {
				items[j] = all[j]
			} else {
				items[j] = []byte(fmt.Sprintf("pad/%d", j))
			}
		}
		if n >= 2 && c.Chance(1, 6) { // a block may carry the same bytes twice
			items[c.Intn(n)] = items[c.Intn(n)]
		}
		lists = append(lists, lst{fmt.Sprintf("first %d records of the history", n), items})
	}
	var prevRoot []byte
	for _, l := range lists {
		if s.stop {
			return
		}
		c.Event("block-level proofs over %s (%d items)", l.label, len(l.items))
		prevRoot = s.blockList(l.label, l.items, prevRoot)
	}
	// store infos of drawn commits: name -> sub-store commit hash, root = the app hash
	for i := 0; i < 2 && len(hs) > 0 && !s.stop; i++ {
		h := hs[c.Intn(len(hs))]
		c.Event("store-info map proofs at height %d", h)
		s.mapProofs(fmt.Sprintf("store infos @%d", h), m.stHash[h], m.appHash[h])
	}
}

func pickIndices(s *p25, n int) []int {
	if n <= 6 {
		ix := make([]int, n)
		for i := range ix {
			ix[i] = i
		}
		return ix
	}
	k := refSplit(n)
	set := map[int]bool{0: true, n - 1: true, k - 1: true, k: true, s.c.Intn(n): true}
	var ix []int
	for i := range set {
		ix = append(ix, i)
	}
	sort.Ints(ix)
	return ix
}

// pickFew: first, last and one drawn index.
func pickFew(s *p25, n int) []int {
	if n <= 3 {
		return pickIndices(s, n)
	}
	set := map[int]bool{0: true, n - 1: true, s.c.Intn(n): true}
	var ix []int
	for i := range set {
		ix = append(ix, i)
	}
	sort.Ints(ix)
	return ix
}

func anyDupItems(items [][]byte) bool {
	seen := map[string]bool{}
	for _, it := range items {
		if seen[string(it)] {
			return true
		}
		seen[string(it)] = true
	}
	return false
}

func otherItem(items [][]byte, i int) []byte {
	for d := 1; d < len(items); d++ {
		j := (i + d) % len(items)
		if !bytes.Equal(items[j], items[i]) {
			return items[j]
		}
	}
	return nil
}

// blockList runs the four list verifiers over one list; returns the list's root.
func (s *p25) blockList(label string, items [][]byte, otherRoot []byte) []byte {
	n := len(items)
	s.r.Probe(fmt.Sprintf("simple.list_len=%d", n))
	txs := make(types.Txs, n)
	for i := range items {
		txs[i] = types.Tx(items[i])
	}
	dataHash := txs.Hash()
	if n == 0 {
		if len(dataHash) != 0 {
			s.flag("simple-proof-rejected", "empty-list-hash", "%s: hash of the empty tx list is %X", label, dataHash)
		}
		return dataHash
	}
	dup := anyDupItems(items)
	ix := pickIndices(s, n)

	// 1. Txs.Proof / TxProof.Validate (RPC tx query with prove=true, light clients)
	for _, i := range ix {
		if s.stop {
			return dataHash
		}
		tp := txs.Proof(i)
		if !bytes.Equal(tp.RootHash, dataHash) || !bytes.Equal(tp.Data, items[i]) {
			s.flag("simple-proof-rejected", "txproof-root", "%s: Txs.Proof(%d) carries root %X, Txs.Hash() is %X", label, i, tp.RootHash, dataHash)
			return dataHash
		}
		s.sweepSimple(simpleTarget{
			what: "TxProof.Validate", sp: tp.Proof, root: dataHash, leaf: items[i], other: otherItem(items, i), anyDup: dup, otherRoot: otherRoot,
			verify: func(sp merkle.SimpleProof, root, leaf []byte) error {
				return types.TxProof{RootHash: root, Data: types.Tx(leaf), Proof: sp}.Validate(root)
			},
		})
		if s.stop {
			return dataHash
		}
		s.r.Probe("mut.txproof-datahash-mismatch")
		if s.accepts("txproof-datahash-mismatch", func() error { return tp.Validate(flipBit(dataHash, 3)) }) {
			s.flag("simple-mutated-proof-accepted", "wrong-root", "%s: TxProof %d/%d validates against a data hash that differs from its RootHash", label, i, n)
		}
	}

	// 2. SimpleProofsFromByteSlices / SimpleProof.Verify on the raw records
	root, proofs := merkle.SimpleProofsFromByteSlices(items)
	if !bytes.Equal(root, merkle.SimpleHashFromByteSlices(items)) || !bytes.Equal(root, merkle.SimpleHashFromByteSlicesIterative(items)) {
		s.flag("simple-proof-rejected", "root-disagreement", "%s: SimpleProofsFromByteSlices root %X, SimpleHashFromByteSlices %X, iterative %X", label, root, merkle.SimpleHashFromByteSlices(items), merkle.SimpleHashFromByteSlicesIterative(items))
		return dataHash
	}
	for _, i := range ix {
		if s.stop {
			return dataHash
		}
		s.sweepSimple(simpleTarget{
			what: "SimpleProof.Verify", sp: *proofs[i], root: root, leaf: items[i], other: otherItem(items, i), anyDup: dup, otherRoot: dataHash,
			verify: func(sp merkle.SimpleProof, root, leaf []byte) error { return sp.Verify(root, leaf) },
		})
	}

	// 3. ABCIResults.ProveResult (LastResultsHash of the header)
	results := make(types.ABCIResults, n)
	rbz := make([][]byte, n)
	for i := range items {
		results[i] = types.ABCIResult{Data: items[i]}
		rbz[i] = results[i].Bytes()
	}
	rroot := results.Hash()
	for _, i := range pickFew(s, n) {
		if s.stop {
			return dataHash
		}
		s.sweepSimple(simpleTarget{
			what: "ABCIResults.ProveResult", sp: results.ProveResult(i), root: rroot, leaf: rbz[i], other: otherItem(rbz, i), anyDup: dup, otherRoot: root,
			verify: func(sp merkle.SimpleProof, root, leaf []byte) error { return sp.Verify(root, leaf) },
		})
	}

	// 4. PartSet (block gossip): the records joined into one block body, cut into parts
	var data []byte
	for _, it := range items {
		data = append(data, it...)
	}
	want := s.simpleSizes()[s.c.Intn(8)]
	partSize := (len(data) + want - 1) / want
	if partSize < 1 {
		partSize = 1
	}
	ps := types.NewPartSetFromData(data, partSize)
	hdr := ps.Header()
	s.r.Probe(fmt.Sprintf("simple.partset_parts=%d", hdr.Total))
	var pbz [][]byte
	for i := 0; i < hdr.Total; i++ {
		pbz = append(pbz, ps.GetPart(i).Bytes)
	}
	pdup := anyDupItems(pbz)
	re := types.NewPartSetFromHeader(hdr)
	for i := 0; i < hdr.Total; i++ {
		p := ps.GetPart(i)
		added, err := re.AddPart(&types.Part{Index: p.Index, Bytes: cpb(p.Bytes), Proof: cloneSP(p.Proof)})
		if !added || err != nil {
			s.flag("simple-proof-rejected", "partset-part", "%s: genuine part %d/%d not accepted by a part set built from the header: added=%v err=%v", label, i, hdr.Total, added, err)
			return dataHash
		}
	}
	if got, _ := io.ReadAll(re.GetReader()); !re.IsComplete() || !bytes.Equal(got, data) {
		s.flag("simple-proof-rejected", "partset-reassembly", "%s: part set reassembled from %d genuine parts is incomplete or differs from the block body", label, hdr.Total)
		return dataHash
	}
	for _, i := range pickFew(s, hdr.Total) {
		if s.stop {
			return dataHash
		}
		p := ps.GetPart(i)
		total := hdr.Total
		s.sweepSimple(simpleTarget{
			what: "PartSet.AddPart", sp: p.Proof, root: hdr.Hash, leaf: p.Bytes, other: otherItem(pbz, i), anyDup: pdup, otherRoot: root, bindsTotal: true,
			verify: func(sp merkle.SimpleProof, root, leaf []byte) error {
				part := &types.Part{Index: sp.Index, Bytes: leaf, Proof: sp}
				if err := part.ValidateBasic(); err != nil { // what the consensus reactor does on receipt
					return err
				}
				fresh := types.NewPartSetFromHeader(types.PartSetHeader{Total: total, Hash: root})
				added, err := fresh.AddPart(part)
				if added && err == nil {
					return nil
				}
				if err == nil {
					err = errors.New("part not added")
				}
				return err
			},
		})
	}
	return dataHash
}

// mapProofs: SimpleProofsFromMap + SimpleValueOp through the merkle proof
// runtime, for a name -> value map whose root is known independently.
func (s *p25) mapProofs(label string, mp map[string][]byte, wantRoot []byte) {
	if len(mp) == 0 {
		return
	}
	root, proofs, keys := merkle.SimpleProofsFromMap(mp)
	if !bytes.Equal(root, merkle.SimpleHashFromMap(mp)) || (wantRoot != nil && !bytes.Equal(root, wantRoot)) {
		s.flag("simple-proof-rejected", "map-root", "%s: SimpleProofsFromMap root %X, SimpleHashFromMap %X, commit hash %X", label, root, merkle.SimpleHashFromMap(mp), wantRoot)
		return
	}
	if !sort.StringsAreSorted(keys) || len(keys) != len(mp) {
		s.flag("simple-proof-rejected", "map-keys", "%s: SimpleProofsFromMap keys %q", label, keys)
		return
	}
	prt := merkle.DefaultProofRuntime()
	var vals [][]byte
	for _, k := range keys {
		vals = append(vals, mp[k])
	}
	for i, k := range keys {
		if s.stop {
			return
		}
		k := k
		if proofs[k].Index != i || proofs[k].Total != len(keys) {
			s.flag("simple-proof-rejected", "map-index", "%s: proof of key %q has Index/Total %d/%d, sorted position %d/%d", label, k, proofs[k].Index, proofs[k].Total, i, len(keys))
			return
		}
		kp := merkle.KeyPath{}.AppendKey([]byte(k), merkle.KeyEncodingHex).String()
		run := func(opKey []byte, path string) func(sp merkle.SimpleProof, root, leaf []byte) error {
			return func(sp merkle.SimpleProof, root, leaf []byte) error {
				op := merkle.NewSimpleValueOp(opKey, &sp).ProofOp() // amino-encoded, decoded again by the runtime
				return prt.VerifyValue(&merkle.Proof{Ops: []merkle.ProofOp{op}}, root, path, leaf)
			}
		}
		s.sweepSimple(simpleTarget{
			what: "SimpleValueOp", sp: *proofs[k], root: root, leaf: mp[k], other: otherItem(vals, i), otherRoot: nil,
			verify: run([]byte(k), kp),
		})
		if s.stop {
			return
		}
		// the key is bound twice: by the key path and inside the hashed leaf
		ok2 := k + "x"
		if len(keys) > 1 {
			ok2 = keys[(i+1)%len(keys)]
		}
		kp2 := merkle.KeyPath{}.AppendKey([]byte(ok2), merkle.KeyEncodingHex).String()
		for _, t := range []struct {
			kind  string
			opKey string
			path  string
		}{{"map-wrong-key", k, kp2}, {"map-retarget-key", ok2, kp2}, {"map-retarget-op-key-only", ok2, kp}} {
			s.r.Probe("mut." + t.kind)
			t := t
			if s.accepts(t.kind, func() error { return run([]byte(t.opKey), t.path)(cloneSP(*proofs[k]), cpb(root), cpb(mp[k])) }) {
				s.flag("simple-mutated-proof-accepted", "wrong-key", "%s: SimpleValueOp proof of key %q accepted as a proof for key %q (%s)", label, k, ok2, t.kind)
				return
			}
		}
	}
}
