package tree

import (
	"bytes"
	"fmt"
	"sort"

	ics23 "github.com/cosmos/ics23/go"

	abci "github.com/gnolang/gno/tm2/pkg/bft/abci/types"
	"github.com/gnolang/gno/tm2/pkg/crypto/merkle"
	"github.com/gnolang/gno/tm2/pkg/store"
	storebptree "github.com/gnolang/gno/tm2/pkg/store/bptree"
	storeiavl "github.com/gnolang/gno/tm2/pkg/store/iavl"
	"github.com/gnolang/gno/tm2/pkg/store/rootmulti"
	stypes "github.com/gnolang/gno/tm2/pkg/store/types"

	"verif/sim/kernel"
	"verif/sim/simdb"
)

// msim: the real rootmulti store over a simdb disk and its model.
type msim struct {
	*p25
	mach  *simdb.Machine
	disk  *simdb.Disk
	names []string // sorted: position in the store-info Merkle list
	kind  map[string]int
	skeys map[string]stypes.StoreKey
	prune stypes.PruningOptions
	ms    stypes.CommitMultiStore

	keysp   map[string][]string
	working map[string]map[string][]byte
	vers    map[int64]map[string]map[string][]byte
	appHash map[int64][]byte
	stHash  map[int64]map[string][]byte

	blockTxs map[int64][][]byte
	pending  [][]byte
	allTxs   [][]byte

	latest       int64
	retainedFrom int64 // every height >= this one must still be provable
	nReopen      int
	nCrash       int
	valCtr       int

	prt    *merkle.ProofRuntime // the real runtime: ics23 ops only
	prtLeg *merkle.ProofRuntime // + SimpleValueOp as the store-info layer
}

func copy2(m map[string]map[string][]byte) map[string]map[string][]byte {
	n := make(map[string]map[string][]byte, len(m))
	for k, v := range m {
		n[k] = copyMap(v)
	}
	return n
}

func (s *msim) open() error {
	db := s.disk.Open()
	ms := store.NewCommitMultiStore(db)
	ms.SetStoreOptions(stypes.StoreOptions{PruningOptions: s.prune})
	for _, n := range s.names {
		var cons stypes.CommitStoreConstructor
		switch s.kind[n] {
		case 0:
			cons = storebptree.StoreConstructor
		case 1:
			cons = storebptree.FastStoreConstructor
		default:
			cons = storeiavl.StoreConstructor
		}
		ms.MountStoreWithDB(s.skeys[n], cons, nil)
	}
	s.ms = ms
	return ms.LoadLatestVersion()
}

func (s *msim) genStores() {
	c := s.c
	pool := []string{"acc", "bank", "gov", "main", "params", "vm", "zz"}
	n := 1 + c.Intn(4)
	start := c.Intn(len(pool))
	step := 1 + c.Intn(2)
	seen := map[string]bool{}
	for i := 0; len(s.names) < n; i++ {
		nm := pool[(start+i*step)%len(pool)]
		if !seen[nm] {
			seen[nm] = true
			s.names = append(s.names, nm)
		}
	}
	sort.Strings(s.names)
	iavlAt := -1
	if c.Chance(1, 3) {
		iavlAt = c.Intn(n)
	}
	for i, nm := range s.names {
		s.skeys[nm] = stypes.NewStoreKey(nm)
		s.kind[nm] = c.Intn(2)
		if i == iavlAt {
			s.kind[nm] = 2
		}
		// key space of the store
		nk := []int{1, 3, 8, 40, 90}[c.Weighted([]int{1, 2, 4, 3, 1})]
		shape := c.Intn(3)
		set := map[string]bool{}
		for j := 0; j < nk; j++ {
			var k string
			switch shape {
			case 0:
				k = fmt.Sprintf("k%03d", j*7%nk)
			case 1: // length-prefixed segments, the way address-keyed stores lay out their keys
				seg := fmt.Sprintf("a%d", j*j)
				k = string([]byte{0x02, byte(len(seg))}) + seg
			default:
				k = fmt.Sprintf("/%s/%x/%d", nm[:1], j%5, j)
			}
			set[k] = true
		}
		s.keysp[nm] = kernel.SortedKeys(set)
		s.working[nm] = map[string][]byte{}
	}
}

func (s *msim) newVal() []byte {
	s.valCtr++
	if s.c.Intn(10) == 0 {
		return bytes.Repeat([]byte{byte('A' + s.valCtr%26)}, 100+s.c.Intn(400))
	}
	return []byte(fmt.Sprintf("v%d", s.valCtr)) // never empty: ics23 cannot prove empty values (documented)
}

func (s *msim) tx(format string, args ...any) {
	t := []byte(fmt.Sprintf(format, args...))
	s.pending = append(s.pending, t)
	s.allTxs = append(s.allTxs, t)
}

func (s *msim) opSet() {
	nm := s.names[s.c.Intn(len(s.names))]
	ks := s.keysp[nm]
	k := ks[s.c.Intn(len(ks))]
	v := s.newVal()
	s.ms.GetStore(s.skeys[nm]).Set(nil, []byte(k), v)
	s.working[nm][k] = v
	s.tx("set/%s/%x=%s", nm, k, v[:min(len(v), 12)])
	s.c.Event("ms Set %s %q len=%d", nm, k, len(v))
}

func (s *msim) opDelete() {
	nm := s.names[s.c.Intn(len(s.names))]
	ks := s.keysp[nm]
	k := ks[s.c.Intn(len(ks))]
	s.ms.GetStore(s.skeys[nm]).Delete(nil, []byte(k))
	delete(s.working[nm], k)
	s.tx("del/%s/%x", nm, k)
	s.c.Event("ms Delete %s %q", nm, k)
}

func (s *msim) recordCommit(cid stypes.CommitID) bool {
	if cid.Version != s.latest+1 {
		s.flag("multistore-commit-version", "commit-version", "Commit returned version %d after %d", cid.Version, s.latest)
		return false
	}
	s.latest = cid.Version
	s.vers[s.latest] = copy2(s.working)
	s.appHash[s.latest] = cpb(cid.Hash)
	sh := map[string][]byte{}
	for _, nm := range s.names {
		sh[nm] = cpb(s.ms.GetCommitStore(s.skeys[nm]).LastCommitID().Hash)
	}
	s.stHash[s.latest] = sh
	s.blockTxs[s.latest] = s.pending
	s.pending = nil
	if s.prune.KeepEvery == 0 && s.prune.KeepRecent < s.latest-1 {
		if rf := s.latest - s.prune.KeepRecent; rf > s.retainedFrom {
			s.retainedFrom = rf
			s.r.Probe("ms.prunes")
		}
	}
	s.r.Probe("ms.commits")
	s.c.Event("ms Commit v%d %X (%d txs)", cid.Version, cid.Hash, len(s.blockTxs[s.latest]))
	return true
}

func (s *msim) opCommit() {
	s.recordCommit(s.ms.Commit())
}

func (s *msim) guard(f func()) (crashed bool) {
	defer func() {
		if r := recover(); r != nil {
			if _, ok := r.(simdb.CrashSentinel); ok {
				crashed = true
				return
			}
			panic(r)
		}
	}()
	f()
	return false
}

// reload: a new process over whatever the disk holds; the model falls back to
// the last acknowledged commit. maybeNext: the process died inside Commit after
// at least one physical write, so the commit it was making may be the durable
// one (all-or-nothing is C27's business; here the model just follows the disk).
func (s *msim) reload(why string, maybeNext bool) {
	if s.c.Chance(1, 4) { // the operator changed the pruning strategy
		s.prune = s.drawPrune()
	}
	if err := s.open(); err != nil {
		s.flag("multistore-reload", "reload-error", "%s: LoadLatestVersion: %v", why, err)
		return
	}
	got := s.ms.LastCommitID()
	if maybeNext && got.Version == s.latest+1 {
		s.r.Probe("ms.commit_survived_crash")
		s.recordCommit(got)
		return
	}
	if got.Version != s.latest {
		s.flag("multistore-reload", "reload-version", "%s: reloaded at version %d, last acknowledged (WriteSync'ed) commit %d", why, got.Version, s.latest)
		return
	}
	if s.latest > 0 && !bytes.Equal(got.Hash, s.appHash[s.latest]) {
		s.flag("multistore-reload", "reload-hash", "%s: version %d reloads with app hash %X, Commit returned %X", why, s.latest, got.Hash, s.appHash[s.latest])
		return
	}
	s.working = copy2(s.vers[s.latest])
	// records of the block that never committed are gone with the process
	s.allTxs = s.allTxs[:len(s.allTxs)-len(s.pending)]
	s.pending = nil
}

func (s *msim) drawPrune() stypes.PruningOptions {
	switch s.c.Intn(5) {
	case 0:
		return stypes.PruneNothing
	case 1:
		return stypes.NewPruningOptions(0, 0)
	case 2:
		return stypes.NewPruningOptions(1, 0)
	case 3:
		return stypes.NewPruningOptions(3, 0)
	}
	return stypes.NewPruningOptions(int64(2+s.c.Intn(6)), 0)
}

func (s *msim) opReopen() {
	s.c.Event("ms close+reopen")
	s.ms.(interface{ Close() error }).Close()
	s.r.Fault("ms_reopen")
	s.nReopen++
	s.reload("reopen", false)
}

func (s *msim) opCrashInCommit() {
	n := 1 + s.c.Intn(3)
	for i := 0; i < n; i++ {
		if s.c.Intn(3) == 0 {
			s.opDelete()
		} else {
			s.opSet()
		}
	}
	k := uint64(1 + s.c.Intn(2))
	s.mach.CrashAt = s.mach.Ops + k
	var cid stypes.CommitID
	crashed := s.guard(func() { cid = s.ms.Commit() })
	if !crashed {
		s.mach.CrashAt = 0
		s.c.Event("ms crash armed %d ops ahead did not fire inside Commit", k)
		s.recordCommit(cid)
		return
	}
	un := s.disk.Unsynced()
	keep := un
	if un > 0 && s.c.Bool() {
		keep = s.c.Intn(un + 1)
	}
	s.disk.Crash(keep)
	s.mach.Reboot()
	s.r.Fault("ms_crash_in_commit")
	s.nCrash++
	s.c.Event("ms crash inside Commit (op +%d), unsynced=%d kept=%d", k, un, keep)
	s.reload("crash-in-commit", k > 1)
}

func (s *msim) opCrashAfterCommit() {
	s.opSet()
	s.opCommit()
	if s.stop {
		return
	}
	// some uncommitted work dies with the process
	s.opSet()
	un := s.disk.Unsynced()
	keep := un
	if un > 0 && s.c.Bool() {
		keep = s.c.Intn(un + 1)
	}
	s.disk.Crash(keep)
	s.mach.Reboot()
	s.r.Fault("ms_crash_after_commit")
	s.nCrash++
	s.c.Event("ms crash right after Commit v%d, unsynced=%d kept=%d", s.latest, un, keep)
	s.reload("crash-after-commit", false)
}

func keyPath(storeName string, key []byte) string {
	return merkle.KeyPath{}.AppendKey([]byte(storeName), merkle.KeyEncodingURL).AppendKey(key, merkle.KeyEncodingHex).String()
}

// query issues the real ABCI store query, on the frozen snapshot view when
// asked (falling back to the live path on error, as baseapp does). A panic of
// the query path is recovered on purpose and returned as panicked: for a PRUNED
// height it is an observation outside this property (store/iavl panics with
// "version exists in store but could not retrieve ..." when tm2/pkg/iavl still
// lists a deleted version whose root node lives on as a child of a later one:
// the C30 finding deleted-version-listed-after-restart seen through Query); for
// a height that must be provable the caller reports it.
func (s *msim) query(nm string, key []byte, h int64, immutable bool) (res abci.ResponseQuery, panicked any) {
	defer func() {
		if x := recover(); x != nil {
			switch x.(type) {
			case kernel.HarnessError, kernel.ErrTapeOverrun, simdb.CrashSentinel:
				panic(x)
			}
			panicked = x
		}
	}()
	req := abci.RequestQuery{Path: "/" + nm + "/key", Data: key, Height: h, Prove: true}
	if immutable {
		if iq, ok := s.ms.(stypes.ImmutableQueryer); ok {
			if res, err := iq.QueryImmutable(req); err == nil {
				s.r.Probe("ms.query_immutable")
				return res, nil
			}
		}
	}
	s.r.Probe("ms.query_live")
	return s.ms.(stypes.Queryable).Query(req), nil
}

func (s *p25) multistore() *msim {
	c := s.c
	m := &msim{p25: s, kind: map[string]int{}, skeys: map[string]stypes.StoreKey{}, keysp: map[string][]string{},
		working: map[string]map[string][]byte{}, vers: map[int64]map[string]map[string][]byte{}, appHash: map[int64][]byte{},
		stHash: map[int64]map[string][]byte{}, blockTxs: map[int64][][]byte{}}
	m.mach = simdb.NewMachine()
	m.disk = simdb.NewDisk("multistore", m.mach)
	m.disk.NoSnap = c.Chance(1, 5)
	m.prune = m.drawPrune()
	m.genStores()
	m.vers[0] = copy2(m.working)
	m.prt = rootmulti.DefaultProofRuntime()
	m.prtLeg = rootmulti.DefaultProofRuntime()
	m.prtLeg.RegisterOpDecoder(merkle.ProofOpSimpleValue, merkle.SimpleValueOpDecoder)
	if err := m.open(); err != nil {
		kernel.Harnessf("multistore initial open: %v", err)
	}
	c.Event("ms stores=%v kinds=%v prune=%+v nosnap=%v", m.names, kindsOf(m), m.prune, m.disk.NoSnap)
	s.r.Probe(fmt.Sprintf("ms.stores=%d", len(m.names)))

	nops := 12 + c.Intn(50)
	w := []int{12, 4, 5, 1 + c.Intn(2), c.Intn(3), c.Intn(2), 3}
	for i := 0; i < nops && !s.stop; i++ {
		switch c.Weighted(w) {
		case 0:
			m.opSet()
		case 1:
			m.opDelete()
		case 2:
			m.opCommit()
		case 3:
			m.opReopen()
		case 4:
			m.opCrashInCommit()
		case 5:
			m.opCrashAfterCommit()
		case 6:
			m.proofRound(1)
		}
		s.r.Steps++
	}
	if s.stop {
		return m
	}
	if len(m.pending) > 0 || m.latest == 0 {
		if m.latest == 0 && len(m.pending) == 0 {
			m.opSet()
		}
		m.opCommit()
	}
	if !s.stop {
		m.proofRound(3 + c.Intn(4))
	}
	for _, k := range kernel.SortedKeys(m.mach.Counters) {
		s.r.Probes["msdb."+k] += m.mach.Counters[k]
	}
	return m
}

func kindsOf(m *msim) []string {
	var out []string
	for _, n := range m.names {
		out = append(out, []string{"bptree", "bptree+fast", "iavl"}[m.kind[n]])
	}
	return out
}

// proofRound: n drawn (height, store, key) triples.
func (s *msim) proofRound(n int) {
	if s.latest == 0 {
		return
	}
	c := s.c
	for i := 0; i < n && !s.stop; i++ {
		// height: latest, a retained one, any committed one (possibly pruned), or 0 (= "the default")
		var h int64
		switch c.Intn(6) {
		case 0, 1:
			h = s.latest
		case 2, 3:
			lo := max(s.retainedFrom, 1)
			h = lo + int64(c.Intn(int(s.latest-lo)+1))
		case 4:
			h = 1 + int64(c.Intn(int(s.latest)))
		case 5:
			h = 0
		}
		// store: first, last, drawn
		var nm string
		switch c.Intn(3) {
		case 0:
			nm = s.names[0]
		case 1:
			nm = s.names[len(s.names)-1]
		default:
			nm = s.names[c.Intn(len(s.names))]
		}
		// key: from the key space (present or absent at that height), before-first, after-last, in a gap
		ks := s.keysp[nm]
		var key string
		switch c.Intn(6) {
		case 0:
			key = "\x00"
		case 1:
			key = "\xff\xff\xff"
		case 2:
			key = ks[c.Intn(len(ks))] + "~"
		case 3:
			key = ks[c.Intn(len(ks))]
		default: // a key present at that height, if any
			he := h
			if he == 0 {
				he = s.latest
			}
			if pk := sortedKeys(s.vers[he][nm]); len(pk) > 0 {
				key = pk[c.Intn(len(pk))]
			} else {
				key = ks[c.Intn(len(ks))]
			}
		}
		s.checkProof(h, nm, []byte(key), c.Bool())
	}
}

func (s *msim) checkProof(h int64, nm string, key []byte, immutable bool) {
	res, panicked := s.query(nm, key, h, immutable)
	if panicked != nil {
		s.c.Event("ms query %s %q h=%d -> PANIC", nm, key, h)
		// h == 0 asks for "the default height": the sub-store resolves it to latest-1 when it
		// believes that version exists, which is the same stale listing when latest-1 is pruned
		if (h != 0 && h < s.retainedFrom) || (h == 0 && s.latest-1 < s.retainedFrom) {
			s.r.Probe("ms.query_panicked_at_pruned_height")
			return
		}
		s.flag("multistore-proof-rejected", "query-panicked", "store %s (%s) key %q height %d (latest %d, retained from %d): the query panicked: %v", nm, kindsOf(s)[sort.SearchStrings(s.names, nm)], key, h, s.latest, s.retainedFrom, panicked)
		return
	}
	hh := res.Height
	s.c.Event("ms query %s %q h=%d -> height=%d value=%d bytes proof=%v err=%v", nm, key, h, hh, len(res.Value), res.Proof != nil && len(res.Proof.Ops) > 0, res.Error != nil)
	model, committed := s.vers[hh]
	committed = committed && hh >= 1
	if h != 0 && hh != h {
		s.flag("multistore-proof-rejected", "answered-other-height", "query at height %d answered for height %d", h, hh)
		return
	}
	if !committed {
		if res.Error == nil && res.Proof != nil {
			s.flag("multistore-proof-rejected", "proof-for-uncommitted-height", "query h=%d returned a proof for height %d, which was never committed (latest %d)", h, hh, s.latest)
		}
		return
	}
	want, present := model[nm][string(key)]
	if res.Error != nil || res.Proof == nil || len(res.Proof.Ops) == 0 {
		emptyStore := len(model[nm]) == 0
		if hh >= s.retainedFrom && hh >= 1 && !(emptyStore && !present) {
			s.flag("multistore-proof-rejected", "no-proof", "store %s key %q height %d (latest %d, retained from %d, pruning %+v): no proof returned: error=%v log=%q",
				nm, key, hh, s.latest, s.retainedFrom, s.prune, res.Error, res.Log)
			return
		}
		if emptyStore {
			s.r.Probe("ms.no_proof_empty_store")
		} else {
			s.r.Probe("ms.no_proof_pruned_height")
		}
		return
	}
	if (present && !bytes.Equal(res.Value, want)) || (!present && len(res.Value) != 0) {
		s.flag("multistore-proof-rejected", "value-differs-from-model", "store %s key %q height %d: query value %q, model %q (present=%v)", nm, key, hh, res.Value, want, present)
		return
	}
	if !present && len(model[nm]) == 0 {
		// ics23 cannot express absence in an EMPTY tree (no neighbour to anchor on): store/bptree
		// returns no proof (ErrEmptyTree), store/iavl returns one with neither neighbour that
		// cannot verify. Same documented limit as in the tree-level half of this check.
		s.r.Probe("ms.absence_in_empty_store_unprovable")
		return
	}
	root := s.appHash[hh]
	kp := keyPath(nm, key)
	verify := func(proof *merkle.Proof, root []byte, kp string, val []byte, absence bool) error {
		if absence {
			return s.prt.VerifyAbsence(proof, root, kp)
		}
		return s.prt.VerifyValue(proof, root, kp, val)
	}
	// ---- completeness
	if !s.accepts("genuine", func() error { return verify(res.Proof, root, kp, want, !present) }) {
		err := verify(res.Proof, root, kp, want, !present)
		s.flag("multistore-proof-rejected", "genuine", "store %s (%s) key %q height %d present=%v: the proof returned by the query does not verify against the commit's app hash %X: %v",
			nm, kindsOf(s)[sort.SearchStrings(s.names, nm)], key, hh, present, root, err)
		return
	}
	s.r.Probe("ms.proofs_verified")
	if present {
		s.r.Probe("ms.membership_proofs")
	} else {
		s.r.Probe("ms.absence_proofs")
	}
	switch {
	case len(s.names) == 1:
		s.r.Probe("ms.proofs_in_only_store")
	case nm == s.names[0]:
		s.r.Probe("ms.proofs_in_first_store")
	case nm == s.names[len(s.names)-1]:
		s.r.Probe("ms.proofs_in_last_store")
	}
	if s.nCrash > 0 {
		s.r.Probe("ms.proofs_after_crash_recover")
	}
	if s.nReopen > 0 {
		s.r.Probe("ms.proofs_after_reopen")
	}
	if s.retainedFrom > 1 {
		s.r.Probe("ms.proofs_after_prune")
	}
	if hh < s.latest {
		s.r.Probe("ms.proofs_at_past_height")
	}
	if s.kind[nm] == 2 {
		s.r.Probe("ms.proofs_iavl_store")
	}

	// ---- soundness
	reject := func(kind, sig string, proof *merkle.Proof, root []byte, kp string, val []byte, absence bool) {
		if s.stop {
			return
		}
		s.r.Probe("mut." + kind)
		if s.accepts(kind, func() error { return verify(proof, root, kp, val, absence) }) {
			s.flag("multistore-mutated-proof-accepted", sig, "store %s key %q height %d (present=%v): after %q the proof verifies (key path %s, value %.40q, absence=%v, root %X)", nm, key, hh, present, kind, kp, val, absence, root)
		}
	}
	ops := res.Proof.Ops
	withOp := func(i int, op merkle.ProofOp) *merkle.Proof {
		n := append([]merkle.ProofOp(nil), ops...)
		n[i] = op
		return &merkle.Proof{Ops: n}
	}
	sorted := sortedKeys(model[nm])
	var otherPresent, otherAbsent []byte
	for _, k := range sorted {
		if k != string(key) {
			otherPresent = []byte(k)
			break
		}
	}
	for _, k := range s.keysp[nm] {
		if _, ok := model[nm][k]; !ok && k != string(key) {
			otherAbsent = []byte(k)
			break
		}
	}
	otherStore := "nosuchstore"
	for _, n := range s.names {
		if n != nm {
			otherStore = n
		}
	}
	// 1. false claims offered with the genuine proof
	if present {
		reject("wrong-value-extended", "wrong-value", res.Proof, root, kp, append(cpb(want), 'x'), false)
		reject("wrong-value-bit", "wrong-value", res.Proof, root, kp, flipBit(want, s.c.Intn(64)), false)
		reject("wrong-value-empty", "wrong-value", res.Proof, root, kp, nil, false)
		reject("membership-as-absence", "membership-as-absence", res.Proof, root, kp, nil, true)
	} else {
		reject("absence-as-membership", "absence-as-membership", res.Proof, root, kp, []byte("v1"), false)
	}
	for _, ok2 := range [][]byte{otherPresent, otherAbsent, append(cpb(key), 0)} {
		if ok2 != nil {
			reject("wrong-key", "wrong-key", res.Proof, root, keyPath(nm, ok2), want, !present)
		}
	}
	reject("wrong-store", "wrong-store", res.Proof, root, keyPath(otherStore, key), want, !present)
	reject("keypath-without-store", "wrong-keypath", res.Proof, root, merkle.KeyPath{}.AppendKey(key, merkle.KeyEncodingHex).String(), want, !present)
	reject("keypath-without-key", "wrong-keypath", res.Proof, root, merkle.KeyPath{}.AppendKey([]byte(nm), merkle.KeyEncodingURL).String(), want, !present)
	reject("root-bit", "wrong-root", res.Proof, flipBit(root, s.c.Intn(256)), kp, want, !present)
	reject("root-empty", "wrong-root", res.Proof, nil, kp, want, !present)
	reject("root-substore-hash", "wrong-root", res.Proof, s.stHash[hh][nm], kp, want, !present)
	for d := int64(1); d <= s.latest; d++ { // another height's app hash
		oh := (hh+d-1)%s.latest + 1
		if !bytes.Equal(s.appHash[oh], root) {
			reject("root-of-other-height", "wrong-root", res.Proof, s.appHash[oh], kp, want, !present)
			break
		}
	}
	if len(ops) == 2 {
		reject("ops-swapped", "ops-structure", &merkle.Proof{Ops: []merkle.ProofOp{ops[1], ops[0]}}, root, kp, want, !present)
		reject("store-op-dropped", "ops-structure", &merkle.Proof{Ops: ops[:1]}, root, kp, want, !present)
		reject("tree-op-dropped", "ops-structure", &merkle.Proof{Ops: ops[1:]}, root, kp, want, !present)
		reject("store-op-duplicated", "ops-structure", &merkle.Proof{Ops: []merkle.ProofOp{ops[0], ops[1], ops[1]}}, root, kp, want, !present)
	}
	// 2. the same false claims with the op keys rewritten to match them (ProofOp.Key is
	//    attacker-controlled data of the proof; the binding must come from the hashed content)
	retarget := func(i int, k []byte, inner func(cp *ics23.CommitmentProof)) *merkle.Proof {
		op := ops[i]
		op.Key = k
		if inner != nil {
			cp := &ics23.CommitmentProof{}
			if err := cp.Unmarshal(op.Data); err != nil {
				kernel.Harnessf("decoding a genuine proof op: %v", err)
			}
			inner(cp)
			bz, err := cp.Marshal()
			if err != nil {
				kernel.Harnessf("re-encoding a proof op: %v", err)
			}
			op.Data = bz
		}
		return withOp(i, op)
	}
	if present && otherPresent != nil {
		reject("retarget-op-key", "retargeted-key", retarget(0, otherPresent, nil), root, keyPath(nm, otherPresent), want, false)
		reject("retarget-op-key+proof-key", "retargeted-key", retarget(0, otherPresent, func(cp *ics23.CommitmentProof) { cp.GetExist().Key = otherPresent }), root, keyPath(nm, otherPresent), want, false)
	}
	if present && otherAbsent != nil {
		reject("retarget-op-key-absent", "retargeted-key", retarget(0, otherAbsent, nil), root, keyPath(nm, otherAbsent), want, false)
		reject("retarget-op-key-absent+proof-key", "retargeted-key", retarget(0, otherAbsent, func(cp *ics23.CommitmentProof) { cp.GetExist().Key = otherAbsent }), root, keyPath(nm, otherAbsent), want, false)
	}
	if !present {
		// an absence proof re-aimed at PRESENT keys: both neighbours and any other present key
		idx := sort.SearchStrings(sorted, string(key))
		var targets [][]byte
		if idx > 0 {
			targets = append(targets, []byte(sorted[idx-1]))
		}
		if idx < len(sorted) {
			targets = append(targets, []byte(sorted[idx]))
		}
		if len(sorted) > 0 {
			targets = append(targets, []byte(sorted[s.c.Intn(len(sorted))]))
		}
		for _, pk := range targets {
			pk := pk
			reject("absence-retarget-present", "absence-for-present-key", retarget(0, pk, nil), root, keyPath(nm, pk), nil, true)
			reject("absence-retarget-present+proof-key", "absence-for-present-key", retarget(0, pk, func(cp *ics23.CommitmentProof) { cp.GetNonexist().Key = pk }), root, keyPath(nm, pk), nil, true)
		}
	}
	reject("retarget-store-op-key", "retargeted-store", retarget(1, []byte(otherStore), nil), root, keyPath(otherStore, key), want, !present)
	reject("retarget-store-op-key+proof-key", "retargeted-store", retarget(1, []byte(otherStore), func(cp *ics23.CommitmentProof) { cp.GetExist().Key = []byte(otherStore) }), root, keyPath(otherStore, key), want, !present)

	// 3. structured mutations of every op, offered for the TRUE claim
	for i := range ops {
		if s.stop {
			return
		}
		s.sweepIcs23(i, ops, func(kind, sig string, p *merkle.Proof) { reject(kind, sig, p, root, kp, want, !present) },
			func(p *merkle.Proof) bool {
				return s.accepts("ignored-by-design", func() error { return verify(p, root, kp, want, !present) })
			})
	}
	if s.stop {
		return
	}
	// 4. leaf re-framing (false claim + matching proof edit): with a VAR_PROTO length prefix, a
	//    suffix of the real key whose preceding byte equals the suffix's length has the same
	//    leaf preimage if the bytes before it are moved into LeafOp.Prefix.
	if present {
		for j := 1; j < len(key); j++ {
			if int(key[j-1]) != len(key)-j || len(key)-j >= 128 || len(key) >= 128 {
				continue
			}
			suffix := cpb(key[j:])
			if _, ok := model[nm][string(suffix)]; ok {
				continue // (would be a true claim only with the same value; keep it simple)
			}
			p := retarget(0, suffix, func(cp *ics23.CommitmentProof) {
				e := cp.GetExist()
				e.Leaf.Prefix = append(append(cpb(e.Leaf.Prefix), byte(len(key))), key[:j-1]...)
				e.Key = suffix
			})
			s.r.Probe("ms.leaf_reframe_candidates")
			reject("leaf-reframed-to-key-suffix", "leaf-prefix-reframing", p, root, keyPath(nm, suffix), want, false)
		}
	}
	if s.stop {
		return
	}
	// 5. the store-info layer as a SimpleValueOp (merkle.SimpleProofsFromMap over the
	//    per-store commit hashes of THIS commit) chained after the tree op
	_, proofs, _ := merkle.SimpleProofsFromMap(s.stHash[hh])
	sp := proofs[nm]
	if sp == nil {
		kernel.Harnessf("no store-info proof for %s", nm)
	}
	var otherHash []byte
	for _, n := range s.names {
		if !bytes.Equal(s.stHash[hh][n], s.stHash[hh][nm]) {
			otherHash = s.stHash[hh][n]
		}
	}
	s.sweepSimple(simpleTarget{
		what: "tree-op+SimpleValueOp", sp: *sp, root: root, leaf: s.stHash[hh][nm], other: otherHash,
		verify: func(sp merkle.SimpleProof, root, leaf []byte) error {
			// leaf is the sub-store root the SimpleValueOp receives from the tree op; a leaf that
			// differs from the genuine one is modelled by verifying the SimpleValueOp layer alone
			svo := merkle.NewSimpleValueOp([]byte(nm), &sp).ProofOp()
			if !bytes.Equal(leaf, s.stHash[hh][nm]) {
				return s.prtLeg.VerifyValue(&merkle.Proof{Ops: []merkle.ProofOp{svo}}, root, merkle.KeyPath{}.AppendKey([]byte(nm), merkle.KeyEncodingURL).String(), leaf)
			}
			proof := &merkle.Proof{Ops: []merkle.ProofOp{ops[0], svo}}
			if present {
				return s.prtLeg.VerifyValue(proof, root, kp, want)
			}
			return s.prtLeg.VerifyAbsence(proof, root, kp)
		},
	})
}
