package chain

import (
	"fmt"
	"strconv"
	"strings"
)

// boxModel is the reference model of gno/box/box.gno (same semantics, trivial inside).
type mnode struct {
	id   int
	val  string
	next *mnode
	kids []*mnode
}

type boxModel struct {
	counter, nextID int
	head, shared    *mnode
	idx             map[int]bool
	logLen          int
	a, b            int
	items           []int
	recs            [][2]int // tag value, cell value
	twin            int      // len(box.twin)
	twinHW          int      // highest len(twin) ever reached (slots below it hold an emptied string, not a nil value)
	bagTwin, bagLog int      // gno/bag/bag.gno: len(twin), len(log)
}

func newBoxModel() *boxModel { return &boxModel{idx: map[int]bool{}} }

func (m *boxModel) clone() *boxModel {
	n := &boxModel{counter: m.counter, nextID: m.nextID, logLen: m.logLen, a: m.a, b: m.b, idx: map[int]bool{},
		twin: m.twin, twinHW: m.twinHW, bagTwin: m.bagTwin, bagLog: m.bagLog}
	for k := range m.idx {
		n.idx[k] = true
	}
	n.items = append([]int(nil), m.items...)
	n.recs = append([][2]int(nil), m.recs...)
	seen := map[*mnode]*mnode{}
	var cp func(x *mnode) *mnode
	cp = func(x *mnode) *mnode {
		if x == nil {
			return nil
		}
		if y, ok := seen[x]; ok {
			return y
		}
		y := &mnode{id: x.id, val: x.val}
		seen[x] = y
		y.next = cp(x.next)
		for _, k := range x.kids {
			y.kids = append(y.kids, cp(k))
		}
		return y
	}
	n.head = cp(m.head)
	n.shared = cp(m.shared)
	return n
}

func (m *boxModel) push(val string) int {
	m.nextID++
	n := &mnode{id: m.nextID, val: val, next: m.head}
	m.head = n
	m.idx[n.id] = true
	return n.id
}

// apply executes one box call on the model; panics=true means the Gno code panics.
func (m *boxModel) apply(fn string, args []string) (panics bool) {
	ai := func(i int) int { v, _ := strconv.Atoi(args[i]); return v }
	switch fn {
	case "Incr":
		m.counter++
	case "Push":
		m.push(args[0])
	case "Pop":
		if m.head != nil {
			n := m.head
			m.head = n.next
			n.next = nil
			delete(m.idx, n.id)
			if m.shared == n {
				m.shared = nil
			}
		}
	case "Share":
		n := m.head
		for i := 0; i < ai(0) && n != nil; i++ {
			n = n.next
		}
		m.shared = n
	case "Unshare":
		m.shared = nil
	case "Adopt":
		if m.head != nil && m.head.next != nil {
			n := m.head
			m.head = n.next
			n.next = nil
			m.head.kids = append(m.head.kids, n)
		}
	case "DropKids":
		if m.head != nil {
			for _, k := range m.head.kids {
				delete(m.idx, k.id)
				if m.shared == k {
					m.shared = nil
				}
			}
			m.head.kids = nil
		}
	case "Grow":
		m.logLen += ai(0)
	case "Shrink":
		n := ai(0)
		if n > m.logLen {
			n = m.logLen
		}
		m.logLen -= n
	case "Record":
		m.logLen += ai(0)
	case "Forget":
		n := ai(0)
		if n > m.logLen {
			n = m.logLen
		}
		m.logLen -= n
	case "PairBump":
		m.a++
		m.b++
	case "Fail":
		m.counter += 1000
		m.push("doomed")
		m.a += 7
		if ai(0) >= 0 {
			return true
		}
	case "Spin":
		n, w := ai(0), ai(1)
		if w > 0 {
			for i := 0; i < n; i++ {
				if i%w == 0 {
					m.counter++
				}
			}
		}
	case "AddItem":
		m.items = append(m.items, ai(0))
		m.recs = append(m.recs, [2]int{ai(0), -ai(0)})
	case "RemoveItem":
		if len(m.items) > 0 {
			i := ai(0) % len(m.items)
			m.items = append(m.items[:i:i], m.items[i+1:]...)
			if len(m.recs) == 0 {
				// box.gno computes i % len(recs) unguarded: with items non-empty (InsertItem into an
				// empty slice adds an item but no rec) and recs empty the realm panics with a
				// division by zero, so the message -- and the whole tx -- fails.
				return true
			}
			j := i % len(m.recs)
			m.recs = append(m.recs[:j:j], m.recs[j+1:]...)
		}
	case "InsertItem":
		if len(m.items) == 0 {
			m.items = append(m.items, ai(1))
		} else {
			i := ai(0) % len(m.items)
			m.items = append(m.items, 0)
			copy(m.items[i+1:], m.items[i:])
			m.items[i] = ai(1)
		}
	case "SwapItems":
		if len(m.items) >= 2 {
			i, j := ai(0)%len(m.items), ai(1)%len(m.items)
			m.items[i], m.items[j] = m.items[j], m.items[i]
		}
	case "MoveItem":
		if len(m.items) >= 2 {
			i, j := ai(0)%len(m.items), ai(1)%len(m.items)
			if i != j {
				it := m.items[i]
				if i < j {
					copy(m.items[i:j], m.items[i+1:j+1])
				} else {
					copy(m.items[j+1:i+1], m.items[j:i])
				}
				m.items[j] = it
			}
		}
	case "ReplaceItem":
		if len(m.items) > 0 {
			m.items[ai(0)%len(m.items)] = ai(1)
		}
	case "Rehome":
		if len(m.recs) >= 2 {
			i, j := ai(0)%len(m.recs), ai(1)%len(m.recs)
			if i != j {
				m.recs[i][1], m.recs[j][1] = m.recs[j][1], m.recs[i][1]
			}
		}
	case "ResetRec":
		if len(m.recs) > 0 {
			m.recs[ai(0)%len(m.recs)] = [2]int{ai(1), -ai(1)}
		}
	case "GrowTwin":
		m.twin += ai(0)
		m.twinHW = max(m.twinHW, m.twin)
	case "ShrinkTwin":
		m.twin -= min(ai(0), m.twin)
	case "Recurse", "Alloc", "BigString":
	case "Forever":
		return true // never terminates within gas; always out of gas
	default:
		panic("boxModel: unknown fn " + fn)
	}
	return false
}

// applyBag executes one call of gno/bag/bag.gno (which crosses into box).
func (m *boxModel) applyBag(fn string, args []string) (panics bool) {
	ai := func(i int) int { v, _ := strconv.Atoi(args[i]); return v }
	switch fn {
	case "GrowBoth":
		m.bagTwin += ai(0)
		m.twin += ai(0)
		m.twinHW = max(m.twinHW, m.twin)
	case "ShrinkBoth":
		m.bagTwin -= min(ai(0), m.bagTwin)
		m.twin -= min(ai(0), m.twin)
	case "GrowSkew":
		m.bagLog += ai(0)
		m.logLen += ai(2)
	case "Trim":
		m.bagLog -= min(ai(0), m.bagLog)
	default:
		panic("boxModel: unknown bag fn " + fn)
	}
	return false
}

func (m *boxModel) dumpBag() string {
	return fmt.Sprintf("twin=%d log=%d", m.bagTwin, m.bagLog)
}

func (m *boxModel) dump() string {
	var sb strings.Builder
	fmt.Fprintf(&sb, "counter=%d next=%d pair=%d,%d log=%d list=", m.counter, m.nextID, m.a, m.b, m.logLen)
	for n := m.head; n != nil; n = n.next {
		fmt.Fprintf(&sb, "%d:%s", n.id, n.val)
		if len(n.kids) > 0 {
			sb.WriteString("{")
			for _, k := range n.kids {
				fmt.Fprintf(&sb, "%d ", k.id)
			}
			sb.WriteString("}")
		}
		sb.WriteString(",")
	}
	if m.shared != nil {
		fmt.Fprintf(&sb, " shared=%d", m.shared.id)
	}
	fmt.Fprintf(&sb, " idx=%d", len(m.idx))
	sb.WriteString(" items=")
	for _, v := range m.items {
		fmt.Fprintf(&sb, "%d,", v)
	}
	sb.WriteString(" recs=")
	for _, r := range m.recs {
		fmt.Fprintf(&sb, "%d:%d,", r[0], r[1])
	}
	fmt.Fprintf(&sb, " twin=%d", m.twin)
	return sb.String()
}
