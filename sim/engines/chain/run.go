package chain

import (
	"bytes"
	"crypto/sha256"
	"encoding/hex"
	"encoding/json"
	"fmt"
	"regexp"
	"strconv"
	"strings"
	"sync"
	"time"

	"github.com/gnolang/gno/gno.land/pkg/sdk/vm"
	"github.com/gnolang/gno/gnovm/pkg/gnolang"
	"github.com/gnolang/gno/tm2/pkg/amino"
	"github.com/gnolang/gno/tm2/pkg/crypto"
	"github.com/gnolang/gno/tm2/pkg/crypto/ed25519"
	"github.com/gnolang/gno/tm2/pkg/crypto/mock"
	"github.com/gnolang/gno/tm2/pkg/sdk/auth"
	"github.com/gnolang/gno/tm2/pkg/sdk/bank"
	"github.com/gnolang/gno/tm2/pkg/std"
	stypes "github.com/gnolang/gno/tm2/pkg/store/types"

	"verif/sim/kernel"
	"verif/sim/simdb"
)

const boxPath = "gno.land/r/sim/box"
const libPath = "gno.land/p/sim/lib"
const bagPath = "gno.land/r/sim/bag"

// ---- process-level post-genesis images --------------------------------------

type image struct {
	disk   *simdb.Disk
	maxGas int64
	hash   []byte
	nums   map[string]uint64 // actor name -> account number
	extra  bool              // chain-workload image: also holds the realm bag and the silent account erin
}

type imageKey struct {
	maxGas int64
	extra  bool
}

var (
	imgMu  sync.Mutex
	images = map[imageKey]*image{}
)

var actorNames = []string{"alice", "bob", "carol", "chaos1", "chaos2", "dave"}

// silentActor is funded in the genesis of the chain-workload image only and never signs
// anything: its account has no public key on record (the victim of forged-signer txs).
const silentActor = "erin"

func newActors() map[string]*actor {
	m := map[string]*actor{}
	for _, n := range actorNames {
		m[n] = newActor(n)
	}
	return m
}

const genesisBalance = int64(1_000_000_000_000)

// baseImage builds (once per worker process and MaxGas) the disk image after
// InitChain + the first (empty) block. Runs clone it. Every engine of this package
// (and crash.go's own genesis construction) uses exactly this genesis.
func baseImage(maxGas int64) *image { return buildImage(maxGas, false) }

// chainImage is baseImage plus what only the shared chain workload (runChain) needs: the
// second workload realm bag (imports box) and the funded, never-signing account erin.
func chainImage(maxGas int64) *image { return buildImage(maxGas, true) }

func buildImage(maxGas int64, extra bool) *image {
	imgMu.Lock()
	defer imgMu.Unlock()
	key := imageKey{maxGas, extra}
	if im, ok := images[key]; ok {
		return im
	}
	disk := simdb.NewDisk("app", nil)
	n, err := newNode("genesis", disk)
	if err != nil {
		kernel.Harnessf("genesis app: %v", err)
	}
	acts := newActors()
	g := genesisSpec{Balance: genesisBalance, MaxGas: maxGas,
		Packages: []*std.MemPackage{readRealm(gnoDir("lib"), libPath), readRealm(gnoDir("box"), boxPath)}}
	for _, nm := range actorNames {
		if nm == "dave" {
			continue // dave has no account at genesis
		}
		g.Actors = append(g.Actors, acts[nm])
	}
	if extra {
		g.Packages = append(g.Packages, readRealm(gnoDir("bag"), bagPath))
		g.Actors = append(g.Actors, newActor(silentActor))
	}
	res := n.initChain(g, g.state())
	if res.Error != nil {
		kernel.Harnessf("InitChain: %v", res.Error)
	}
	for _, r := range res.TxResponses {
		if r.Error != nil {
			kernel.Harnessf("genesis tx failed: %v %s", r.Error, r.Log)
		}
	}
	br := n.runBlock(blockSpec{Height: 1, Time: genesisTime.Add(time.Second)})
	im := &image{disk: disk, maxGas: maxGas, hash: br.AppHash, nums: map[string]uint64{}, extra: extra}
	for _, a := range g.Actors {
		acc, err := n.account(a.addr)
		if err != nil || acc == nil {
			kernel.Harnessf("genesis account %s: %v", a.name, err)
		}
		im.nums[a.name] = acc.GetAccountNumber()
	}
	n.app.Close()
	images[key] = im
	return im
}

// ---- the simulated world ------------------------------------------------------

type txKind int

const (
	kOK        txKind = iota // must succeed
	kFail                    // passes ante, must fail in msgs (fee paid, seq bumped, nothing else)
	kEither                  // passes ante; may succeed or run out of gas (drawn gas limit)
	kAnteReject              // must be rejected by ante: no state change at all
	kBlockGas                // passes ante; must fail if it crosses the block gas limit, else may succeed
)

type simMsg struct {
	fn   string
	args []string
	send int64 // bank send amount (fn == "@send")
	to   string
	// pkg: realm a plain call goes to ("" = box, "bag" = the second workload realm).
	pkg string
	// maxDep: explicit MaxDeposit of this message in ugnot (0 = none given: the chain default applies).
	maxDep int64
	// calls: fn == "@calls": ONE MsgRun whose script makes these crossing calls in order.
	calls []simMsg
	// private: fn == "@addpkg": the package declares private = true (may be redeployed).
	private bool
}

type simTx struct {
	kind     txKind
	signer   string
	msgs     []simMsg
	gas      int64
	fee      int64
	bytes    []byte
	why      string
	replayOf int // index+1 of an earlier accepted tx whose bytes are resubmitted
	// mayFailDeposit: a message carries an explicit deposit limit the model cannot judge: the tx
	// may fail with "not enough deposit" (no state change) or succeed (locking at most the limit).
	mayFailDeposit bool
	deployOf       string // name of the dynamic package this tx (re)deploys, if any
}

// dynInfo is the model of a package deployed by the workload under gno.land/r/sim/<name>:
// see dynBody: Get() returns 2*val, Read(cur realm) returns 2002*val.
type dynInfo struct {
	private bool
	val     int
}

type world struct {
	c    *kernel.Choices
	r    *kernel.Result
	p    kernel.Params
	prop string

	img    *image
	acts   map[string]*actor
	bal    map[string]int64 // model balances (ugnot) of actors
	box    *boxModel
	height int64
	now    time.Time

	ref *node
	rst *node // restarted twin (nil unless enabled)

	accepted   [][]byte // tx bytes that were accepted (for replay attacks)
	emptyKeys  map[string]bool
	prevDump   stateDump
	genesisDump stateDump
	digest     []string
	stop       bool
	feeCollected int64
	dynPkgs    map[string]bool
	knownSeen  map[string]bool
	dynCount   int
	lastStorage, lastDeposit map[string]int64
	onlyGrowth bool

	dyn      map[string]dynInfo // every dynamic package that exists (public ones are also in dynPkgs)
	pending  []string           // dynamic packages whose (re)deployment failed in the last block: probed first thing in the next block
	pendPriv map[string]bool
	curTxs   []*simTx // txs / results of the block being checked (for checkGraph)
	curRes   []txResult
}

func (w *world) watched() []string {
	if w.img != nil && w.img.extra {
		return []string{boxPath, bagPath}
	}
	return []string{boxPath}
}

func (w *world) fail(prop, oracle, format string, args ...any) {
	w.r.Fail(prop, oracle, format, args...)
	w.stop = true
}

func gnoDir(name string) string {
	return "/verif/sim/engines/chain/gno/" + name
}

func (w *world) openNode(name string, prune ...stypes.PruneStrategy) *node {
	d := w.img.disk.Clone(simdb.NewMachine())
	n, err := newNode(name, d, prune...)
	if err != nil {
		kernel.Harnessf("opening node %s over the genesis image: %v", name, err)
	}
	if !bytes.Equal(n.last, w.img.hash) || n.height != 1 {
		kernel.Harnessf("node %s opened at height %d hash %X, image has %X", name, n.height, n.last, w.img.hash)
	}
	return n
}

// ---- workload generation -----------------------------------------------------------

var okFns = []string{"Incr", "Push", "Pop", "Share", "Unshare", "Adopt", "DropKids", "Grow", "Shrink", "PairBump", "Incr", "Push", "Push", "Grow",
	"AddItem", "AddItem", "AddItem", "RemoveItem", "RemoveItem", "InsertItem", "SwapItems", "Record", "Record", "Forget",
	"MoveItem", "ReplaceItem", "ResetRec"}

func (w *world) genBoxMsg() simMsg {
	c := w.c
	fn := okFns[c.Intn(len(okFns))]
	m := simMsg{fn: fn}
	switch fn {
	case "Push":
		m.args = []string{fmt.Sprintf("v%d", c.Intn(1000))}
	case "Share":
		m.args = []string{strconv.Itoa(c.Intn(4))}
	case "Grow":
		m.args = []string{strconv.Itoa(1 + c.Intn(3)), strconv.Itoa(8 + c.Intn(120))}
	case "Shrink":
		m.args = []string{strconv.Itoa(1 + c.Intn(6))}
	case "Record":
		m.args = []string{strconv.Itoa(1 + c.Intn(3)), strconv.Itoa(c.Intn(300))}
	case "Forget":
		m.args = []string{strconv.Itoa(1 + c.Intn(4))}
	case "AddItem":
		m.args = []string{strconv.Itoa(1 + c.Intn(900))}
	case "RemoveItem":
		m.args = []string{strconv.Itoa(c.Intn(8))}
	case "InsertItem":
		m.args = []string{strconv.Itoa(c.Intn(8)), strconv.Itoa(1 + c.Intn(900))}
	case "SwapItems", "MoveItem":
		m.args = []string{strconv.Itoa(c.Intn(8)), strconv.Itoa(c.Intn(8))}
	case "ReplaceItem", "ResetRec":
		m.args = []string{strconv.Itoa(c.Intn(8)), strconv.Itoa(1 + c.Intn(900))}
	}
	return m
}

func realmPathOf(pkg string) string {
	switch pkg {
	case "":
		return boxPath
	case "bag":
		return bagPath
	}
	return "gno.land/r/sim/" + pkg
}

// dynBody is the source of a dynamic package: the drawn value sits both in the package's STATE (V, computed
// by the initializer at deployment) and in its CODE (the literal inside Get / Read), so that code and state
// of two different deployments cannot be combined unnoticed: Read returns 1000*V + 2*val = 2002*val.
func dynBody(name string, val string) string {
	return fmt.Sprintf("package %s\n\nimport \"gno.land/p/sim/lib\"\n\nvar V = lib.Double(%s)\n\nfunc Get() int { return lib.Double(%s) }\n\nfunc Read(cur realm) int { return 1000*V + lib.Double(%s) }\n", name, val, val, val)
}

// callsScript renders the MsgRun script of an "@calls" message: every call is a separate
// crossing call (its own realm transaction) inside ONE message.
func callsScript(calls []simMsg) string {
	imports := map[string]bool{}
	var body strings.Builder
	for _, cm := range calls {
		pkg := cm.pkg
		if pkg == "" {
			pkg = "box"
		}
		imports[realmPathOf(cm.pkg)] = true
		fmt.Fprintf(&body, "\t%s.%s(cross(cur)", pkg, cm.fn)
		for _, a := range cm.args {
			body.WriteString(", " + a)
		}
		body.WriteString(")\n")
	}
	var sb strings.Builder
	sb.WriteString("package main\n\nimport (\n")
	for _, p := range kernel.SortedKeys(imports) {
		fmt.Fprintf(&sb, "\t%q\n", p)
	}
	sb.WriteString(")\n\nfunc main(cur realm) {\n" + body.String() + "}\n")
	return sb.String()
}

func depositOf(m simMsg) std.Coins {
	if m.maxDep > 0 {
		return coins(m.maxDep)
	}
	return nil
}

func (w *world) buildMsgs(t *simTx, a *actor) []std.Msg {
	var msgs []std.Msg
	for _, m := range t.msgs {
		switch m.fn {
		case "@send":
			msgs = append(msgs, bank.NewMsgSend(a.addr, w.actorOf(m.to).addr, coins(m.send)))
		case "@run":
			// MsgRun script importing the genesis library and the box realm
			script := fmt.Sprintf("package main\n\nimport (\n\t\"gno.land/p/sim/lib\"\n\t\"gno.land/r/sim/box\"\n)\n\nfunc main(cur realm) {\n\tbox.Incr(cross(cur))\n\tprintln(lib.Tag(\"run\", lib.Double(%s)))\n}\n", m.args[0])
			msgs = append(msgs, vm.NewMsgRun(a.addr, nil, []*std.MemFile{{Name: "main.gno", Body: script}}))
		case "@calls":
			mr := vm.NewMsgRun(a.addr, nil, []*std.MemFile{{Name: "main.gno", Body: callsScript(m.calls)}})
			mr.MaxDeposit = depositOf(m)
			msgs = append(msgs, mr)
		case "@addpkg":
			name := m.args[0]
			files := map[string]string{name + ".gno": dynBody(name, m.args[1])}
			if m.private {
				files["gnomod.toml"] = strings.TrimRight(gnolang.GenGnoModLatest("gno.land/r/sim/"+name), "\n") + "\nprivate = true\n"
			}
			msgs = append(msgs, vm.MsgAddPackage{Creator: a.addr, Package: memPkg("gno.land/r/sim/"+name, files), MaxDeposit: depositOf(m)})
		case "@callpkg": // MsgCall of a dynamic package's crossing reader
			msgs = append(msgs, vm.NewMsgCall(a.addr, nil, "gno.land/r/sim/"+m.args[0], "Read", nil))
		case "@runpkg": // MsgRun importing a dynamic package and printing what it returns
			name := m.args[0]
			script := fmt.Sprintf("package main\n\nimport %q\n\nfunc main(cur realm) {\n\tprintln(%s.Get())\n}\n", "gno.land/r/sim/"+name, name)
			msgs = append(msgs, vm.NewMsgRun(a.addr, nil, []*std.MemFile{{Name: "main.gno", Body: script}}))
		default:
			mc := vm.NewMsgCall(a.addr, nil, realmPathOf(m.pkg), m.fn, m.args)
			mc.MaxDeposit = depositOf(m)
			msgs = append(msgs, mc)
		}
	}
	return msgs
}

func (w *world) actorOf(name string) *actor {
	if a, ok := w.acts[name]; ok {
		return a
	}
	a := newActor(name) // not part of this run's genesis (e.g. the silent account on the plain base image)
	w.acts[name] = a
	return a
}

func (w *world) buildTx(t *simTx) {
	a := w.acts[t.signer]
	tx := std.Tx{Msgs: w.buildMsgs(t, a), Fee: std.NewFee(t.gas, std.NewCoin("ugnot", t.fee))}
	signTx(&tx, []*actor{a}, false)
	t.bytes = encTx(tx)
}

func (w *world) payer(chaos bool) string {
	if chaos {
		return []string{"chaos1", "chaos2"}[w.c.Intn(2)]
	}
	return []string{"alice", "bob", "carol"}[w.c.Intn(3)]
}

// genTx draws one transaction. seqUsed tracks, per signer, how many txs of this
// block already consumed a sequence number (so that later txs sign correctly).
func (w *world) genTx(weights []int) *simTx {
	c := w.c
	t := &simTx{gas: 50_000_000, fee: 1_000_000}
	if w.img.maxGas < t.gas {
		t.gas = w.img.maxGas / 2
	}
	switch c.Weighted(weights) {
	case 0: // single successful call
		t.kind, t.signer = kOK, w.payer(false)
		t.msgs = []simMsg{w.genBoxMsg()}
	case 1: // bank send
		t.kind, t.signer = kOK, w.payer(false)
		to := []string{"alice", "bob", "carol", "dave"}[c.Intn(4)]
		t.msgs = []simMsg{{fn: "@send", to: to, send: int64(1 + c.Intn(5000))}}
	case 2: // multi-message success
		t.kind, t.signer = kOK, w.payer(false)
		n := 2 + c.Intn(3)
		for i := 0; i < n; i++ {
			if c.Intn(4) == 0 {
				t.msgs = append(t.msgs, simMsg{fn: "@send", to: "bob", send: int64(1 + c.Intn(100))})
			} else {
				t.msgs = append(t.msgs, w.genBoxMsg())
			}
		}
	case 3: // failure injected at message k of n: Gno panic / unknown function / send too much
		t.kind, t.signer = kFail, w.payer(true)
		n := 1 + c.Intn(4)
		k := c.Intn(n)
		for i := 0; i < n; i++ {
			if i == k {
				switch c.Intn(3) {
				case 0:
					t.msgs = append(t.msgs, simMsg{fn: "Fail", args: []string{strconv.Itoa(c.Intn(9))}})
					t.why = "gno panic"
				case 1:
					t.msgs = append(t.msgs, simMsg{fn: "NoSuchFunction"})
					t.why = "handler error"
				default:
					t.msgs = append(t.msgs, simMsg{fn: "@send", to: "bob", send: genesisBalance * 5})
					t.why = "insufficient coins"
				}
			} else if c.Intn(4) == 0 {
				t.msgs = append(t.msgs, simMsg{fn: "@send", to: "carol", send: int64(1 + c.Intn(100))})
			} else {
				t.msgs = append(t.msgs, w.genBoxMsg())
			}
		}
		t.why += fmt.Sprintf(" at msg %d of %d", k+1, n)
	case 4: // out of gas at a drawn gas limit: sweeps the OOG point through the execution
		t.kind, t.signer = kEither, w.payer(true)
		n := 1 + c.Intn(3)
		for i := 0; i < n; i++ {
			t.msgs = append(t.msgs, w.genBoxMsg())
		}
		if c.Bool() {
			t.msgs = append(t.msgs, simMsg{fn: "Spin", args: []string{strconv.Itoa(100 + c.Intn(3000)), strconv.Itoa(c.Intn(50))}})
		}
		t.gas = int64(1_200_000 + c.Intn(4_000_000))
		t.why = "drawn gas limit"
	case 5: // guaranteed out of gas (unbounded loop / recursion / allocation)
		t.kind, t.signer = kFail, w.payer(true)
		t.msgs = []simMsg{w.genBoxMsg(), {fn: []string{"Forever", "Forever", "Forever"}[c.Intn(3)]}}
		t.gas = int64(3_000_000 + c.Intn(6_000_000))
		t.why = "unbounded loop"
	case 7: // MsgRun script importing a library package and a realm
		t.kind, t.signer = kOK, w.payer(false)
		t.msgs = []simMsg{{fn: "@run", args: []string{strconv.Itoa(c.Intn(50))}}}
		t.why = "msgrun"
	case 8: // deploy a fresh realm importing the library (or a colliding path)
		t.kind, t.signer = kOK, w.payer(false)
		w.dynCount++
		name := fmt.Sprintf("dyn%d", w.dynCount)
		if len(w.dynPkgs) > 0 && c.Intn(4) == 0 {
			name = kernel.SortedKeys(w.dynPkgs)[c.Intn(len(w.dynPkgs))]
			t.kind = kFail
			t.why = "addpkg colliding path"
		} else {
			t.why = "addpkg"
		}
		t.msgs = []simMsg{{fn: "@addpkg", args: []string{name, strconv.Itoa(c.Intn(50))}}}
		t.deployOf = name
	case 9: // an already persisted object is MOVED (detached and re-attached in one call) and a LATER message
		// (or a later crossing call of the same message) of the SAME tx drops exactly that object
		w.genMoveThenDrop(t)
	case 10: // ONE message changes the storage of two realms; explicit deposit limits around the needs
		w.genTwoRealm(t)
	case 11: // (re)deployment of dynamic packages: private redeploys, fresh private / public realms, deploy + failing message
		w.genDeploy(t, false)
	case 12: // use of a dynamic package: the result must be what the successfully deployed body returns
		w.genUsePkg(t, "")
	case 6: // ante rejections: no state change at all, not even a fee
		t.kind, t.signer = kAnteReject, w.payer(c.Bool())
		t.msgs = []simMsg{w.genBoxMsg()}
		t.why = anteWhys[c.Intn(len(anteWhys))]
	}
	return t
}

var anteWhys = []string{"bad signature", "wrong sequence (future)", "wrong sequence (past)", "wrong account number", "wrong chain id", "replay of accepted tx", "unknown signer", "fee above balance",
	// forged signer: the named signer never produced the signature
	"forged: mock key addressing the silent account", "forged: mock key addressing an active account", "forged: ed25519 key not matching the address",
	"forged: wrong secp256k1 key signs, pubkey omitted", "forged: wrong secp256k1 key signs, victim pubkey given", "forged: wrong secp256k1 key signs, own pubkey given",
	"forged: mock key addressing the silent account", "no signatures", "two signatures for one signer"}

// genMoveThenDrop fills t with: [AddItem...] so that enough persisted objects exist, a MOVE of one of
// them (SwapItems / MoveItem on the slice of objects, Rehome on the pointer fields of the records), and then,
// in a later message of the same tx (or a later crossing call of the same MsgRun), the direct removal
// of exactly the object that was moved.
func (w *world) genMoveThenDrop(t *simTx) {
	c := w.c
	t.kind, t.signer, t.why = kOK, w.payer(false), "move then drop"
	trial := w.box.clone()
	var seq []simMsg
	add := func(m simMsg) {
		seq = append(seq, m)
		if trial.apply(m.fn, m.args) {
			t.kind = kFail
			t.why = "move then drop (model: a message fails)"
		}
	}
	// Variant 2 (box.Rehome: a cell moves from one record to ANOTHER, still existing, record) is generated only
	// with the knob rehome=on: on the unchanged tree it persists the moved object with the OwnerID of the record
	// it left (oracle owner-does-not-hold-reference) -- the stale-OwnerID defect already listed for C06 in a
	// shape whose signature is not listed. The default workload keeps to moves within one owner.
	nvar := 2
	if w.p.Knob("rehome", "") == "on" {
		nvar = 3
	}
	variant := c.Intn(nvar)
	asScript := c.Intn(3) == 2
	for len(trial.items) < 3 || len(trial.recs) < 2 {
		add(simMsg{fn: "AddItem", args: []string{strconv.Itoa(1 + c.Intn(900))}})
		if len(seq) > 4 {
			break // cannot happen: every AddItem adds an item and a record
		}
	}
	itoa := strconv.Itoa
	switch variant {
	case 0, 1: // items: the object that was at i ends up at j (j is not the last slot: RemoveItem then overwrites it)
		n := len(trial.items)
		j := c.Intn(n - 1)
		i := (j + 1 + c.Intn(n-1)) % n
		fn := []string{"SwapItems", "MoveItem"}[variant]
		add(simMsg{fn: fn, args: []string{itoa(i), itoa(j)}})
		target := j
		if c.Intn(4) == 3 {
			target = i // the other slot of the move
		}
		if c.Bool() {
			add(simMsg{fn: "ReplaceItem", args: []string{itoa(target), itoa(1 + c.Intn(900))}})
		} else {
			add(simMsg{fn: "RemoveItem", args: []string{itoa(target)}})
		}
	default: // records: the cells of records i and j change places; then one of them is replaced
		n := len(trial.recs)
		i := c.Intn(n)
		j := (i + 1 + c.Intn(n-1)) % n
		add(simMsg{fn: "Rehome", args: []string{itoa(i), itoa(j)}})
		target := j
		if c.Bool() {
			target = i
		}
		add(simMsg{fn: "ResetRec", args: []string{itoa(target), itoa(1 + c.Intn(900))}})
	}
	if asScript {
		// the objects the script moves must be persisted before the script runs: the AddItems stay separate messages
		k := len(seq) - 2
		t.msgs = append(t.msgs, seq[:k]...)
		t.msgs = append(t.msgs, simMsg{fn: "@calls", calls: seq[k:]})
		t.why += " (two crossing calls in one message)"
	} else {
		t.msgs = seq
	}
	if c.Intn(3) == 0 {
		t.msgs = append(t.msgs, w.genBoxMsg())
	}
}

// Estimated per-realm storage needs (bytes) of the two-realm ops, from measurements of the encoding: a string
// appended to a persisted []string costs its length + 62 bytes in a grown array, + 24 in a never used slot of
// the preallocated twin array, + 5 in a slot of it that held a string before; creating the backing array of a
// nil slice costs about 314 bytes. ONLY used to aim the drawn deposit limits; no oracle depends on it.
func growEstimate(n, sz, have int) int64 {
	e := int64(n) * int64(sz+62)
	if have == 0 {
		e += 314
	}
	return e
}

func (m *boxModel) twinEstimate(n, sz int) int64 {
	var e int64
	for k := 0; k < n; k++ {
		if m.twin+k < m.twinHW {
			e += int64(sz + 5)
		} else {
			e += int64(sz + 24)
		}
	}
	return e
}

// genTwoRealm: one message grows (or shrinks) the storage of bag AND box.
func (w *world) genTwoRealm(t *simTx) {
	c := w.c
	t.kind, t.signer, t.why = kOK, w.payer(false), "two-realm message"
	if !w.img.extra {
		t.msgs = []simMsg{w.genBoxMsg()}
		return
	}
	itoa := strconv.Itoa
	var m simMsg
	var needA, needB int64 // estimated deposit needs of the two realms (ugnot, price 100/byte)
	switch c.Intn(6) {
	case 0, 1, 2: // same layout, same sizes: both realms grow by the same number of bytes
		n, sz := 1+c.Intn(3), 8+c.Intn(120)
		m = simMsg{pkg: "bag", fn: "GrowBoth", args: []string{itoa(n), itoa(sz)}}
		needA = 100 * w.box.twinEstimate(n, sz)
		needB = needA
	case 3: // both realms release the same number of bytes
		m = simMsg{pkg: "bag", fn: "ShrinkBoth", args: []string{itoa(1 + c.Intn(4))}}
	case 4: // different growth in the two realms
		n, sz, k, tz := 1+c.Intn(3), 8+c.Intn(120), 1+c.Intn(3), 8+c.Intn(120)
		m = simMsg{pkg: "bag", fn: "GrowSkew", args: []string{itoa(n), itoa(sz), itoa(k), itoa(tz)}}
		needA, needB = 100*growEstimate(n, sz, w.box.bagLog), 100*growEstimate(k, tz+2, w.box.logLen)
	default:
		m = simMsg{pkg: "bag", fn: "Trim", args: []string{itoa(1 + c.Intn(4))}}
	}
	if needA > 0 {
		lo, hi := min(needA, needB), max(needA, needB)
		wNone := 4
		if w.prop == "C09" {
			wNone = 1
		}
		switch c.Weighted([]int{wNone, 1, 1, 1, 1}) {
		case 0: // no explicit limit: the chain default applies
		case 1: // far below every single need
			m.maxDep = 1 + int64(c.Intn(int(lo/2)))
			t.why += ", limit far below the needs"
		case 2, 3: // covers each realm's need alone, not their sum
			m.maxDep = hi + (lo*int64(1+c.Intn(3)))/4
			t.why += ", limit between the larger need and the sum"
		default: // at or above the sum
			m.maxDep = hi + lo + (lo*int64(c.Intn(5)))/4
			t.why += ", limit at or above the sum"
		}
	}
	if m.maxDep > 0 {
		t.kind, t.mayFailDeposit = kEither, true
	}
	if needA > 0 && c.Intn(4) == 0 {
		// the same growth through a MsgRun script: separate crossing calls, ONE message, one limit
		var calls []simMsg
		if m.fn == "GrowBoth" {
			calls = []simMsg{{pkg: "bag", fn: "GrowBoth", args: m.args}}
		} else {
			calls = []simMsg{{pkg: "bag", fn: "GrowSkew", args: m.args}, {fn: "Grow", args: []string{"1", "16"}}}
		}
		m = simMsg{fn: "@calls", calls: calls, maxDep: m.maxDep}
		t.why += " (MsgRun)"
	}
	t.msgs = []simMsg{m}
}

var privNames = []string{"pv1", "pv2"}

// genDeploy: (re)deploys a dynamic package. preferRedeploy: replace an existing private realm if there is one
// (the interesting case when the tx is going to fail as a whole: the old code must stay in force).
func (w *world) genDeploy(t *simTx, preferRedeploy bool) {
	c := w.c
	t.kind, t.signer = kOK, w.payer(false)
	val := strconv.Itoa(c.Intn(50))
	withFail := false
	var m simMsg
	var existing []string
	for _, nm := range privNames {
		if _, ok := w.dyn[nm]; ok {
			existing = append(existing, nm)
		}
	}
	if preferRedeploy && len(existing) > 0 && c.Intn(4) != 3 {
		name := existing[c.Intn(len(existing))]
		t.msgs = []simMsg{{fn: "@addpkg", args: []string{name, val}, private: true}}
		t.deployOf, t.why = name, "addpkg private redeploy"
		return
	}
	switch c.Intn(5) {
	case 0, 1, 2: // private realm: the first free name of the pool, else a redeploy over an existing one
		name := ""
		for _, nm := range privNames {
			if _, ok := w.dyn[nm]; !ok {
				name = nm
				break
			}
		}
		if name == "" || (len(w.dyn) > 0 && c.Bool()) {
			name = privNames[c.Intn(len(privNames))]
		}
		m = simMsg{fn: "@addpkg", args: []string{name, val}, private: true}
		t.why = "addpkg private"
		if _, ok := w.dyn[name]; ok {
			t.why = "addpkg private redeploy"
		}
	case 3: // fresh public realm
		w.dynCount++
		m = simMsg{fn: "@addpkg", args: []string{fmt.Sprintf("dyn%d", w.dynCount), val}}
		t.why = "addpkg"
	default: // a deployment whose tx fails in a later message
		name := privNames[c.Intn(len(privNames))]
		m = simMsg{fn: "@addpkg", args: []string{name, val}, private: true}
		t.why = "addpkg private, then a failing message"
		withFail = true
	}
	t.msgs = []simMsg{m}
	t.deployOf = m.args[0]
	if withFail {
		t.kind = kFail
		t.msgs = append(t.msgs, simMsg{fn: "Fail", args: []string{strconv.Itoa(c.Intn(9))}})
	}
}

// genDeployOf deploys name again (after a failed attempt) with a new body.
func (w *world) genDeployOf(t *simTx, name string, private bool) {
	t.kind, t.signer = kOK, w.payer(false)
	t.msgs = []simMsg{{fn: "@addpkg", args: []string{name, strconv.Itoa(50 + w.c.Intn(50))}, private: private}}
	t.deployOf = name
	t.why = "addpkg after a failed attempt"
	if d, ok := w.dyn[name]; ok && !d.private {
		t.kind, t.why = kFail, "addpkg colliding path"
	}
}

// genUsePkg calls (MsgCall Read) or imports (MsgRun, public packages only) a dynamic package; name ""
// draws one of the existing packages (or a path nothing was ever deployed at).
func (w *world) genUsePkg(t *simTx, name string) {
	c := w.c
	t.kind, t.signer = kOK, w.payer(false)
	if name == "" {
		names := append(kernel.SortedKeys(w.dyn), "dyn0")
		name = names[c.Intn(len(names))]
	}
	d, ok := w.dyn[name]
	switch {
	case !ok:
		t.kind, t.why = kFail, "call of a package that does not exist"
		t.msgs = []simMsg{{fn: "@callpkg", args: []string{name}}}
	case !d.private && c.Bool():
		t.why = "run importing a dynamic package"
		t.msgs = []simMsg{{fn: "@runpkg", args: []string{name}}}
	default:
		t.why = "call of a dynamic package"
		t.msgs = []simMsg{{fn: "@callpkg", args: []string{name}}}
	}
}

// finishTx signs t given the signer's current model sequence; applies the
// ante-reject mutations.
func (w *world) finishTx(t *simTx) {
	a := w.acts[t.signer]
	if t.kind != kAnteReject {
		w.buildTx(t)
		return
	}
	save := *a
	switch {
	case strings.HasPrefix(t.why, "wrong sequence (future)"):
		a.seq += 1 + uint64(w.c.Intn(3))
		w.buildTx(t)
	case strings.HasPrefix(t.why, "wrong sequence (past)"):
		if a.seq == 0 {
			a.seq = 5
		} else {
			a.seq--
		}
		w.buildTx(t)
	case strings.HasPrefix(t.why, "wrong account number"):
		a.num += 1 + uint64(w.c.Intn(3))
		w.buildTx(t)
	case strings.HasPrefix(t.why, "unknown signer"):
		t.signer = "dave"
		if w.bal["dave"] > 0 { // dave got funded: use a never-funded key instead
			w.acts["ghost"] = newActor("ghost")
			t.signer = "ghost"
		}
		w.buildTx(t)
	case strings.HasPrefix(t.why, "fee above balance"):
		t.fee = genesisBalance * 3
		w.buildTx(t)
	case strings.HasPrefix(t.why, "replay") && len(w.accepted) > 0:
		t.bytes = w.accepted[w.c.Intn(len(w.accepted))]
	case strings.HasPrefix(t.why, "wrong chain id"):
		tx := std.Tx{Msgs: w.buildMsgs(t, a), Fee: std.NewFee(t.gas, std.NewCoin("ugnot", t.fee))}
		sb, _ := tx.GetSignBytes("other-chain", a.num, a.seq)
		sig, _ := a.priv.Sign(sb)
		tx.Signatures = []std.Signature{{PubKey: a.priv.PubKey(), Signature: sig}}
		t.bytes = encTx(tx)
	case strings.HasPrefix(t.why, "forged"), t.why == "no signatures", t.why == "two signatures for one signer":
		w.forgeTx(t)
	default: // bad signature: flip one byte of a valid signature
		t.why = "bad signature"
		w.buildTx(t)
		var tx std.Tx
		amino.MustUnmarshal(t.bytes, &tx)
		s := tx.Signatures[0].Signature
		s[w.c.Intn(len(s))] ^= byte(1 + w.c.Intn(255))
		t.bytes = encTx(tx)
	}
	*a = save
}


// forgeTx builds a tx that names a signer who never produced the signature (or that carries a
// malformed signature list). The drawn payer is the attacker; the victim is another account.
// Every variant must be rejected by the ante handler with no state change at all.
func (w *world) forgeTx(t *simTx) {
	c := w.c
	attackerName := t.signer
	attacker := w.acts[attackerName]
	mkFee := func() std.Fee { return std.NewFee(t.gas, std.NewCoin("ugnot", t.fee)) }
	if t.why == "no signatures" || t.why == "two signatures for one signer" {
		tx := std.Tx{Msgs: w.buildMsgs(t, attacker), Fee: mkFee()}
		if t.why != "no signatures" {
			signTx(&tx, []*actor{attacker}, false)
			tx.Signatures = append(tx.Signatures, tx.Signatures[0])
		}
		t.bytes = encTx(tx)
		return
	}
	victimName := silentActor
	if !strings.Contains(t.why, "silent account") {
		victimName = []string{silentActor, "alice", "bob", "carol"}[c.Intn(4)]
		if strings.Contains(t.why, "active account") {
			victimName = []string{"alice", "bob", "carol"}[c.Intn(3)]
		}
		if victimName == attackerName {
			victimName = silentActor
			if strings.Contains(t.why, "active account") {
				victimName = map[string]string{"alice": "bob", "bob": "carol", "carol": "alice"}[attackerName]
			}
		}
	}
	victim := w.actorOf(victimName)
	t.signer = victimName
	if c.Bool() {
		t.msgs = []simMsg{{fn: "@send", to: attackerName, send: int64(1 + c.Intn(5000))}}
	}
	tx := std.Tx{Msgs: w.buildMsgs(t, victim), Fee: mkFee()}
	sb, err := tx.GetSignBytes(chainID, victim.num, victim.seq)
	if err != nil {
		kernel.Harnessf("sign bytes: %v", err)
	}
	var sig std.Signature
	switch {
	case strings.Contains(t.why, "mock key"):
		pk := mock.PubKeyMock(victim.addr[:]) // Address() of a mock key is its bytes: exactly the victim's address
		sig = std.Signature{PubKey: pk, Signature: fmt.Appendf(nil, "signature-for-%X-by-%X", sb, []byte(pk))}
	case strings.Contains(t.why, "ed25519"):
		priv := ed25519.GenPrivKeyFromSecret([]byte("verif-forger-" + attackerName))
		s, _ := priv.Sign(sb)
		sig = std.Signature{PubKey: priv.PubKey(), Signature: s}
	default: // the attacker's secp256k1 key signs the victim's sign bytes
		s, _ := attacker.priv.Sign(sb)
		sig = std.Signature{Signature: s}
		if strings.Contains(t.why, "victim pubkey given") {
			sig.PubKey = victim.priv.PubKey()
		} else if strings.Contains(t.why, "own pubkey given") {
			sig.PubKey = attacker.priv.PubKey()
		}
	}
	tx.Signatures = []std.Signature{sig}
	t.bytes = encTx(tx)
}

// ---- model update from results --------------------------------------------------------

var depositRe = regexp.MustCompile(`"fee_delta":"(\d+)ugnot"`)
var refundRe = regexp.MustCompile(`"fee_refund":"(\d+)ugnot"`)

func eventCoins(events string) (deposit, refund int64) {
	for _, m := range depositRe.FindAllStringSubmatch(events, -1) {
		v, _ := strconv.ParseInt(m[1], 10, 64)
		deposit += v
	}
	for _, m := range refundRe.FindAllStringSubmatch(events, -1) {
		v, _ := strconv.ParseInt(m[1], 10, 64)
		refund += v
	}
	return
}

func isOOG(r txResult) bool { return strings.Contains(r.Err, "OutOfGas") }

// applyResult checks a tx result against what the model allows and updates the model.
func (w *world) applyResult(t *simTx, r txResult, blockGasLeftBefore int64) {
	a := w.acts[t.signer]
	desc := fmt.Sprintf("tx{%s by %s: %s}", t.why, t.signer, msgsString(t.msgs))
	// C10: reported gas used never exceeds gas wanted for a transaction that is reported successful
	if r.ok() && r.GasU > r.GasW {
		w.fail("C10", "gas-used-exceeds-wanted", "%s succeeded with GasUsed %d > GasWanted %d", desc, r.GasU, r.GasW)
		return
	}
	if t.kind == kAnteReject {
		if r.ok() {
			prop := "C15"
			w.fail(prop, "invalid-tx-accepted", "%s was accepted (%s)", desc, r.key())
		}
		return // no model change; the state-diff oracle checks that nothing changed
	}
	if r.GasW == 0 && !r.ok() && isOOG(r) && r.GasU >= blockGasLeftBefore {
		// rejected before the ante handler could set the tx gas meter (block gas nearly exhausted):
		// treated as an ante rejection: nothing may change
		t.kind = kAnteReject
		t.why += " [block gas exhausted before ante]"
		w.r.Probe("rejected_no_block_gas_left")
		return
	}
	// the tx passed ante: fee paid, sequence bumped
	a.seq++
	w.bal[t.signer] -= t.fee
	w.feeCollected += t.fee
	w.accepted = append(w.accepted, t.bytes)
	trial := w.box.clone()
	trialBal := map[string]int64{}
	for k, v := range w.bal {
		trialBal[k] = v
	}
	trialDyn := map[string]dynInfo{}
	for k, v := range w.dyn {
		trialDyn[k] = v
	}
	modelFails := false
	wantData, dataKnown := "", len(t.msgs) == 1 // expected result data of a single-message tx using a dynamic package
	var applyCall func(m simMsg) bool
	applyCall = func(m simMsg) bool { // true: the model says the message fails
		switch {
		case m.fn == "@calls":
			for _, cm := range m.calls {
				if applyCall(cm) {
					return true
				}
			}
			return false
		case m.pkg == "bag":
			return trial.applyBag(m.fn, m.args)
		}
		return trial.apply(m.fn, m.args)
	}
	for _, m := range t.msgs {
		if m.fn == "@send" {
			if trialBal[t.signer] < m.send {
				modelFails = true
				break
			}
			trialBal[t.signer] -= m.send
			trialBal[m.to] += m.send
			continue
		}
		if m.fn == "NoSuchFunction" {
			modelFails = true
			break
		}
		if m.fn == "@run" {
			trial.apply("Incr", nil)
			continue
		}
		if m.fn == "@addpkg" {
			if d, ok := trialDyn[m.args[0]]; ok && !(d.private && m.private) {
				modelFails = true // path already taken (only a private realm may be replaced, by a private one)
				break
			}
			v, _ := strconv.Atoi(m.args[1])
			trialDyn[m.args[0]] = dynInfo{private: m.private, val: v}
			continue
		}
		if m.fn == "@callpkg" || m.fn == "@runpkg" {
			d, ok := trialDyn[m.args[0]]
			if !ok || (d.private && m.fn == "@runpkg") {
				modelFails = true // nothing deployed there (or: a private realm cannot be imported)
				break
			}
			if m.fn == "@callpkg" {
				wantData = fmt.Sprintf("(%d int)\n\n", 2002*d.val)
			} else {
				wantData = fmt.Sprintf("%d\n", 2*d.val)
			}
			continue
		}
		if applyCall(m) {
			modelFails = true
			break
		}
	}
	switch {
	case r.ok():
		if modelFails {
			w.fail("C02", "failing-tx-succeeded", "%s must fail but succeeded", desc)
			return
		}
		if t.kind == kFail {
			w.fail("C02", "failing-tx-succeeded", "%s must fail but succeeded", desc)
			return
		}
		if dataKnown && wantData != "" {
			got, _ := hex.DecodeString(r.Data)
			if string(got) != wantData {
				w.fail("C02", "dynamic-package-result-vs-model", "%s returned %q; the body that was successfully deployed at that path returns %q (model of the deployed packages: %v)", desc, got, wantData, w.dyn)
				return
			}
			w.r.Probe("dynamic_package_results_checked")
		}
		dep, ref := eventCoins(r.Events)
		// C09: a message never locks more than its own deposit limit. Deposit events carry no message
		// index, so the tx is judged as a whole, and only when every VM message states a limit.
		if lim, all := txDepositLimit(t); all {
			if dep > lim {
				w.fail("C09", "deposit-exceeds-message-limit", "%s succeeded and locked %dugnot of storage deposit (events %s) although its message(s) limit the deposit to %dugnot", desc, dep, r.Events, lim)
				return
			}
			w.r.Probe("deposit_limit_respected_on_success")
		}
		if settlesSeveralRealms(r) {
			// one tx settled the storage deposit of several realms (C01: the order of these events is part of the tx result)
			w.r.Probe("tx_ok_settling_several_realms")
			if equalDeltaInTwoRealms(r) {
				w.r.Probe("tx_ok_equal_byte_delta_in_two_realms")
			}
		}
		w.bal = trialBal
		w.bal[t.signer] += ref - dep
		for _, m := range t.msgs {
			if m.fn == "@addpkg" && !m.private {
				w.dynPkgs[m.args[0]] = true
			}
		}
		w.dyn = trialDyn
		w.box = trial
		w.r.Probe("tx_ok")
		if len(t.msgs) > 1 {
			w.r.Probe("tx_ok_multi_msg")
		}
		if t.deployOf != "" {
			w.r.Probe("deploys_ok")
		}
	default:
		// failed after ante: only the fee and the sequence may have changed (C02).
		// Running out of the tx's own gas (GasUsed >= GasWanted) or crossing the block gas
		// limit (GasUsed > block gas left) are legitimate failures of ANY transaction.
		legitOOG := isOOG(r) && (r.GasU >= r.GasW || r.GasU > blockGasLeftBefore)
		// a tx carrying an explicit deposit limit may fail because the limit does not cover the storage it uses
		depositFail := t.mayFailDeposit && strings.Contains(r.Log, "not enough deposit to cover the storage usage")
		if (t.kind == kOK || t.kind == kEither || t.kind == kBlockGas) && !legitOOG && !modelFails && !depositFail {
			kernel.Harnessf("%s was expected to succeed but failed (block gas left %d): %s %s", desc, blockGasLeftBefore, r.Err, clip(r.Log, 600))
		}
		if isOOG(r) {
			w.r.Probe("tx_out_of_gas")
			if strings.Contains(r.Log, "block gas meter") {
				w.r.Probe("tx_crossed_block_gas_limit")
				if t.deployOf != "" && t.kind != kFail {
					w.r.Probe("deploy_crossed_block_gas_limit")
				}
			}
		} else if depositFail {
			w.r.Probe("tx_failed_deposit_limit")
		} else {
			w.r.Probe("tx_failed_in_msgs")
		}
		if t.deployOf != "" {
			// a (re)deployment that did not take effect: the package is used first thing in the next block
			w.notePending(t)
		}
	}
}

// settlesSeveralRealms: the storage-deposit events of the tx result name at least two different realms (a tx
// that crossed the block gas limit after its messages succeeded is reported failed WITH its events).
func settlesSeveralRealms(r txResult) bool {
	locks, unlocks := storageEvents(r.Events)
	paths := map[string]bool{}
	for _, e := range append(locks, unlocks...) {
		paths[e.path] = true
	}
	return len(paths) >= 2
}

// equalDeltaInTwoRealms: two storage-deposit events of the same kind of one tx carry the same byte delta for different realms.
func equalDeltaInTwoRealms(r txResult) bool {
	locks, unlocks := storageEvents(r.Events)
	for _, evs := range [][]storageEv{locks, unlocks} {
		for i := range evs {
			for j := i + 1; j < len(evs); j++ {
				if evs[i].bytes == evs[j].bytes && evs[i].path != evs[j].path {
					return true
				}
			}
		}
	}
	return false
}

// txDepositLimit returns the sum of the explicit deposit limits of t's VM messages and whether
// every VM message of t states one.
func txDepositLimit(t *simTx) (limit int64, all bool) {
	n := 0
	for _, m := range t.msgs {
		if m.fn == "@send" {
			continue
		}
		if m.maxDep <= 0 {
			return 0, false
		}
		limit += m.maxDep
		n++
	}
	return limit, n > 0
}

func (w *world) notePending(t *simTx) {
	for _, p := range w.pending {
		if p == t.deployOf {
			return
		}
	}
	if len(w.pending) >= 2 {
		return
	}
	w.pending = append(w.pending, t.deployOf)
	if w.pendPriv == nil {
		w.pendPriv = map[string]bool{}
	}
	for _, m := range t.msgs {
		if m.fn == "@addpkg" {
			w.pendPriv[t.deployOf] = m.private
		}
	}
}

func clip(s string, n int) string {
	if len(s) > n {
		return s[:n] + "…"
	}
	return s
}

func msgsString(ms []simMsg) string {
	var parts []string
	for _, m := range ms {
		var p string
		switch {
		case m.fn == "@send":
			p = fmt.Sprintf("send(%d→%s)", m.send, m.to)
		case m.fn == "@calls":
			p = "run{" + msgsString(m.calls) + "}"
		case m.fn == "@addpkg" && m.private:
			p = "addpkg-private(" + strings.Join(m.args, ",") + ")"
		case strings.HasPrefix(m.fn, "@"):
			p = m.fn[1:] + "(" + strings.Join(m.args, ",") + ")"
		case m.pkg != "":
			p = m.pkg + "." + m.fn + "(" + strings.Join(m.args, ",") + ")"
		default:
			p = m.fn + "(" + strings.Join(m.args, ",") + ")"
		}
		if m.maxDep > 0 {
			p += fmt.Sprintf("[max_deposit=%d]", m.maxDep)
		}
		parts = append(parts, p)
	}
	return strings.Join(parts, ";")
}

// ---- per-block oracles ----------------------------------------------------------------------

func isAccountKey(k string, addrs ...crypto.Address) bool {
	for _, a := range addrs {
		if k == "main/"+string(auth.AddressStoreKey(a)) {
			return true
		}
	}
	return false
}

func (w *world) checkBlock(b blockSpec, txs []*simTx, res blockResult) {
	au, err := newAuditor(w.ref.disk, b.Height)
	if err != nil {
		w.fail("C27", "audit-store-unloadable", "independent multistore over the durable image of height %d does not load: %v", b.Height, err)
		return
	}
	if au.version != b.Height {
		w.fail("C27", "durable-version", "durable multistore version %d after committing height %d", au.version, b.Height)
		return
	}
	dump := au.dump()
	changed := diffKeys(w.prevDump, dump)
	w.prevDump = dump
	w.curTxs, w.curRes = txs, res.Txs

	// classification of the block's txs
	allNoMsgEffects := true // every tx either ante-rejected or failed
	anyAntePassed := false
	var feePayers []crypto.Address
	for i, t := range txs {
		r := res.Txs[i]
		if t.kind != kAnteReject {
			anyAntePassed = true
			feePayers = append(feePayers, w.acts[t.signer].addr)
		}
		if r.ok() {
			allNoMsgEffects = false
		}
	}
	if len(txs) == 0 {
		for _, k := range changed {
			w.emptyKeys[k] = true
		}
	} else if allNoMsgEffects {
		// C02 / C15: state diff of a block whose txs all failed ⊆ {signer accounts, fee collector, block-level keys}
		feeColl := crypto.AddressFromPreimage([]byte(auth.DefaultFeeCollectorName))
		for _, k := range changed {
			if w.emptyKeys[k] || k == "main/gasPrice" || k == "base/last_header" {
				continue // block-level keys (EndBlocker gas price, Commit header)
			}
			if anyAntePassed && isAccountKey(k, append(feePayers, feeColl)...) {
				continue
			}
			prop, oracle := "C02", "failed-tx-left-state"
			if !anyAntePassed {
				prop, oracle = "C15", "rejected-tx-left-state"
			}
			var ds []string
			for i, t := range txs {
				ds = append(ds, fmt.Sprintf("[%s: %s → %s]", t.why, msgsString(t.msgs), res.Txs[i].Err))
			}
			w.fail(prop, oracle, "height %d: every tx of the block failed %v but key %s changed (changed keys: %d)", b.Height, ds, shortKey(k), len(changed))
			return
		}
		w.r.Probe("all_failed_blocks_classified")
	}

	// realm state vs model (C02: success applies all messages, failure none)
	got, err := w.ref.qeval(boxPath, "Dump()")
	if err != nil {
		kernel.Harnessf("qeval Dump: %v", err)
	}
	want := `("` + w.box.dump() + `" string)`
	if got != want {
		var ds []string
		for i, t := range txs {
			ds = append(ds, fmt.Sprintf("[%s: %s → %s]", t.why, msgsString(t.msgs), res.Txs[i].Err))
		}
		w.fail("C02", "realm-state-vs-model", "height %d after %v:\n realm: %s\n model: %s", b.Height, ds, got, want)
		return
	}
	if w.img.extra {
		got, err := w.ref.qeval(bagPath, "Dump()")
		if err != nil {
			kernel.Harnessf("qeval bag Dump: %v", err)
		}
		if want := `("` + w.box.dumpBag() + `" string)`; got != want {
			var ds []string
			for i, t := range txs {
				ds = append(ds, fmt.Sprintf("[%s: %s → %s]", t.why, msgsString(t.msgs), res.Txs[i].Err))
			}
			w.fail("C02", "realm-state-vs-model", "height %d after %v:\n realm bag: %s\n model: %s", b.Height, ds, got, want)
			return
		}
	}
	// accounts vs model (C15 sequences, C02 fee-only, C08 balances)
	for _, nm := range kernel.SortedKeys(w.acts) {
		a := w.acts[nm]
		seq, _, bal, ok := au.account(a.addr)
		if !ok {
			if w.bal[nm] != 0 || a.seq != 0 {
				w.fail("C15", "account-vs-model", "height %d: account %s missing; model balance %d seq %d", b.Height, nm, w.bal[nm], a.seq)
				return
			}
			continue
		}
		if seq != a.seq {
			w.fail("C15", "sequence-vs-model", "height %d: %s sequence %d, model %d (each accepted tx advances it by exactly one, rejected ones never)", b.Height, nm, seq, a.seq)
			return
		}
		if bal != w.bal[nm] {
			w.fail("C02", "balance-vs-model", "height %d: %s balance %d, model %d (Δ %d)", b.Height, nm, bal, w.bal[nm], bal-w.bal[nm])
			return
		}
	}
	// C06 / C09: persisted object graph and storage accounting of the workload realms, from bytes
	w.checkGraph(b, au)
	if w.stop {
		return
	}
	// C14: the repository's own invariants + raw recomputation
	if msg := au.invariants(); msg != "" {
		w.fail("C14", "bank-auth-invariants", "height %d: %s", b.Height, clip(msg, 1500))
		return
	}
	sum, err := au.sumAllUgnot()
	if err != nil {
		w.fail("C14", "account-iteration", "height %d: %v", b.Height, err)
		return
	}
	if sup := au.totalSupply("ugnot"); sup != sum {
		w.fail("C14", "supply-vs-sum", "height %d: recorded ugnot supply %d, sum of all balances %d", b.Height, sup, sum)
		return
	}
	w.r.Probe("blocks_audited")
}

// ---- the run -----------------------------------------------------------------------------------

func runChain(c *kernel.Choices, p kernel.Params) *kernel.Result {
	w := &world{c: c, r: kernel.NewResult(), p: p, prop: p.Property, emptyKeys: map[string]bool{}, dynPkgs: map[string]bool{}, knownSeen: map[string]bool{}}
	small := false
	switch p.Property {
	case "C02", "C10":
		small = c.Chance(1, 2)
	case "C01":
		small = c.Chance(1, 3) // block-gas crossings of code-deploying txs, seen through the restarted twin
	default:
		small = c.Chance(1, 6)
	}
	maxGas := int64(3_000_000_000)
	if small {
		maxGas = 15_000_000
	}
	w.img = chainImage(maxGas)
	w.acts = newActors()
	w.acts[silentActor] = newActor(silentActor) // funded at genesis, never signs: no public key on record
	w.bal = map[string]int64{}
	w.dyn = map[string]dynInfo{}
	for nm, a := range w.acts {
		if num, ok := w.img.nums[nm]; ok {
			a.num = num
		}
	}
	w.box = newBoxModel()
	w.height = 1
	w.now = genesisTime.Add(time.Second)
	w.ref = w.openNode("ref")
	defer func() { w.ref.app.Close() }()
	// initial balances from the durable image (genesis deploy fees were paid by alice)
	au, err := newAuditor(w.ref.disk, 1)
	if err != nil {
		kernel.Harnessf("auditor over genesis image: %v", err)
	}
	for nm, a := range w.acts {
		seq, num, bal, ok := au.account(a.addr)
		if ok {
			w.bal[nm], a.seq, a.num = bal, seq, num
		}
	}
	w.prevDump = au.dump()

	useTwin := p.Property == "C01" || c.Chance(1, 4)
	if small && p.Property == "C02" {
		// code deployed by a tx that crosses the block gas limit must not stay in the VM's in-memory caches:
		// besides the model, a twin restarted at drawn block boundaries witnesses every later use of the package
		useTwin = true
	}
	if p.Knob("twin", "") == "off" {
		useTwin = false
	}
	if useTwin {
		// pruning is node-local configuration: it must not influence app hashes or results
		w.rst = w.openNode("rst", []stypes.PruneStrategy{"", stypes.PruneEverythingStrategy, stypes.PruneNothingStrategy}[c.Intn(3)])
		defer func() { w.rst.app.Close() }()
	}

	nblocks := 4 + c.Intn(10)
	if p.Tier == "thorough" {
		nblocks = 6 + c.Intn(24)
	}
	// swarm weights: ok-call, send, multi, fail-at-k, oog-sweep, unbounded, ante-reject
	weights := []int{3 + c.Intn(6), c.Intn(4), c.Intn(5), c.Intn(5), c.Intn(5), c.Intn(3), c.Intn(5), c.Intn(4), c.Intn(3)}
	// move-then-drop, two-realm message / deposit limits, dynamic package (re)deployment, dynamic package use
	weights = append(weights, c.Intn(3), c.Intn(3), c.Intn(3), c.Intn(3))
	if small {
		weights[8] = 0 // deployments do not fit the small block gas limit
	}
	if p.Property == "C01" {
		weights[7] += 2
		weights[8] += 2
		weights[10] += 5
		weights[11]++
		weights[12]++
	}
	switch p.Property {
	case "C02":
		weights[3] += 3
		weights[4] += 3
		weights[11] += 2
		weights[12] += 2
	case "C06":
		weights[9] += 4
	case "C09":
		weights[10] += 4
	case "C15":
		weights[6] += 6
	case "C10":
		weights[4] += 3
		weights[5] += 2
	}
	c.Event("run maxGas=%d twin=%v blocks=%d weights=%v", maxGas, useTwin, nblocks, weights)

	for bi := -1; bi < nblocks && !w.stop; bi++ {
		if bi == -1 {
			// one empty block first: learns which keys every block touches (header, gas price, ...)
			w.height++
			w.now = w.now.Add(5 * time.Second)
			b := blockSpec{Height: w.height, Time: w.now}
			res := w.ref.runBlock(b)
			w.digest = append(w.digest, hex.EncodeToString(res.AppHash))
			w.checkBlock(b, nil, res)
			if w.rst != nil && !w.stop {
				w.twinBlock(b, res)
			}
			continue
		}
		w.height++
		w.now = w.now.Add(time.Duration(1+c.Intn(20)) * time.Second)
		b := blockSpec{Height: w.height, Time: w.now}
		ntx := 0
		switch c.Intn(6) {
		case 0:
			ntx = 0
		case 1, 2:
			ntx = 1
		default:
			ntx = 1 + c.Intn(5)
		}
		blockGasScenario := small && c.Chance(1, 2)
		pending, pendPriv := w.pending, w.pendPriv
		w.pending, w.pendPriv = nil, nil
		if len(pending) > 0 {
			blockGasScenario = false // the probes of the packages whose deployment failed need the room
		}
		seedPrivate := small && bi == 0
		if seedPrivate {
			blockGasScenario = false
		}
		var txs []*simTx
		var slots []func() *simTx // every tx is generated (and signed) right before it is delivered
		fresh := func() *simTx {
			t := &simTx{gas: 50_000_000, fee: 1_000_000}
			if w.img.maxGas < t.gas {
				t.gas = w.img.maxGas / 2
			}
			return t
		}
		w.ref.beginBlock(b)
		var results []txResult
		gasLeft := maxGas
		for _, name := range pending {
			// a (re)deployment of name failed in the previous block: whatever is (not) deployed there must
			// behave as the model says -- then the path is deployed (again) with another body and used once more
			name, private := name, pendPriv[name]
			slots = append(slots, func() *simTx { t := fresh(); w.genUsePkg(t, name); return t })
			slots = append(slots, func() *simTx { t := fresh(); w.genDeployOf(t, name, private); return t })
			slots = append(slots, func() *simTx { t := fresh(); w.genUsePkg(t, name); return t })
		}
		if blockGasScenario {
			// first fill the block: an unbounded loop whose gas limit leaves a drawn remainder
			rem := int64(1_200_000 + c.Intn(2_500_000))
			slots = append(slots, func() *simTx {
				return &simTx{kind: kFail, signer: w.payer(true), msgs: []simMsg{{fn: "Forever"}}, gas: maxGas - rem, fee: 1_000_000, why: fmt.Sprintf("block filler leaving %d gas", rem)}
			})
			ntx = 1 + c.Intn(3)
			if c.Chance(2, 3) {
				// a tx that deploys code and (most likely) crosses the block gas limit with all messages successful
				slots = append(slots, func() *simTx { t := fresh(); w.genDeploy(t, true); return t })
			}
		}
		if seedPrivate {
			// small-block runs start with a private realm in place: later (re)deployments that cross the block gas limit replace it
			slots = append(slots, func() *simTx {
				t := fresh()
				t.kind, t.signer, t.why, t.deployOf = kOK, w.payer(false), "addpkg private", privNames[0]
				t.msgs = []simMsg{{fn: "@addpkg", args: []string{privNames[0], strconv.Itoa(c.Intn(50))}, private: true}}
				return t
			})
		}
		for i := 0; i < ntx; i++ {
			slots = append(slots, func() *simTx { return w.genTx(weights) })
		}
		for i, slot := range slots {
			t := slot()
			if blockGasScenario && t.kind == kOK {
				t.kind = kBlockGas
			}
			w.finishTx(t)
			txs = append(txs, t)
			r := resultOf(w.ref.app.DeliverTx(deliverReq(t.bytes)))
			results = append(results, r)
			c.Event("h%d tx%d %s by %s [%s] gas=%d -> err=%s gasU=%d", b.Height, i, msgsString(t.msgs), t.signer, t.why, t.gas, r.Err, r.GasU)
			w.applyResult(t, r, gasLeft)
			charged := r.GasU
			if r.GasW > 0 && charged > r.GasW {
				charged = r.GasW
			}
			gasLeft -= charged
			if w.stop {
				break
			}
			b.Txs = append(b.Txs, t.bytes)
		}
		if w.stop {
			break
		}
		hash := w.ref.endBlockCommit(b)
		res := blockResult{Txs: results, AppHash: hash}
		c.Event("h%d committed %X", b.Height, hash)
		w.digest = append(w.digest, hex.EncodeToString(hash))
		w.r.Steps += len(txs)
		w.checkBlock(b, txs, res)
		if w.stop {
			break
		}
		// C10: every tx's gas is charged to the block; nothing runs once the block gas is exhausted
		w.checkGas(b, txs, res, maxGas)
		if w.stop {
			break
		}
		if w.rst != nil {
			if p.Property == "C01" {
				echoes := 0
				for _, r := range results {
					if settlesSeveralRealms(r) {
						echoes = max(echoes, echoRuns)
						if equalDeltaInTwoRealms(r) {
							echoes = echoRunsTie
						}
					}
				}
				if echoes > 0 {
					w.echoBlock(b, res, echoes)
				}
				if w.stop {
					break
				}
			}
			w.twinBlock(b, res)
		}
	}
	h := sha256.Sum256([]byte(strings.Join(w.digest, ",")))
	w.r.Probes["blocks"] += len(w.digest)
	sample := map[string]any{"chain_digest": hex.EncodeToString(h[:8]), "first_events": c.Log[:min(len(c.Log), 30)]}
	w.r.Sample = sample
	nt := w.r.Probes["tx_failed_in_msgs"] + w.r.Probes["tx_out_of_gas"] + w.r.Faults["restart"]
	w.r.Nontrivial = len(w.digest) >= 3 && nt > 0
	if p.Property == "C14" && w.r.Violation == nil {
		// module-level bank workload (bankmod.go); draws only after the chain body, so no other draw moves
		bankModulePhase(c, p, w.r)
	}
	return w.r
}

func (w *world) checkGraph(b blockSpec, au *auditor) {
	watchedRealms := w.watched()
	var ids []string
	for _, p := range watchedRealms {
		ids = append(ids, pkgIDHex(p))
	}
	g := au.buildGraph(ids...)
	watch := map[string]bool{}
	for _, id := range ids {
		watch[id] = true
	}
	for _, is := range g.check(watch, false) {
		if strings.HasPrefix(is.kind, "anomaly:") {
			// integrity observations beyond the C06 statement: counted, not decided
			w.r.Probe(is.kind)
			continue
		}
		v := &kernel.Violation{Property: "C06", Oracle: is.kind, Signature: is.kind}
		if k := w.p.IsKnown(v); k != nil {
			if !w.knownSeen[is.kind] {
				w.knownSeen[is.kind] = true
				v.Msg = is.msg
				w.r.Known = append(w.r.Known, *v)
			}
			continue
		}
		w.fail("C06", is.kind, "height %d: %s", b.Height, is.msg)
		return
	}
	w.r.ProbeN("objects_audited", len(g.objs))
	for _, id := range sortedObjIDs(g.objs) {
		o := g.objs[id]
		if o.escaped {
			w.r.Probe("escaped_objects_seen")
			// an escaped object's hash is committed in the merkle (main) store under its id
			hv := au.get("main", []byte(id))
			if fmt.Sprintf("%X", hv) != o.hash {
				w.fail("C06", "escaped-hash-entry", "height %d: escaped object %s has stored hash %s but the main store holds %X under its id", b.Height, id, o.hash, hv)
				return
			}
		}
	}
	lockedByBlock := int64(0)
	for i, p := range watchedRealms {
		rec, ok := g.realms[ids[i]]
		if !ok {
			continue
		}
		objBytes := g.bytes[ids[i]]
		prm := au.paramsBytes(p)
		if int64(rec.Storage) != objBytes+prm {
			w.fail("C09", "storage-vs-bytes", "height %d: realm %s records Storage=%d but owns %d object bytes + %d parameter bytes = %d on disk", b.Height, p, rec.Storage, objBytes, prm, objBytes+prm)
			return
		}
		held := au.balanceOf(storageDepositAddr(p))
		if int64(rec.Deposit) > held {
			w.fail("C09", "deposit-not-backed", "height %d: realm %s records Deposit=%d but its storage-deposit address holds %d", b.Height, p, rec.Deposit, held)
			return
		}
		if rec.Storage == 0 && rec.Deposit != 0 {
			w.fail("C09", "deposit-left-after-full-release", "height %d: realm %s has Storage 0 but Deposit %d", b.Height, p, rec.Deposit)
			return
		}
		// constant price in this workload: every byte is backed at the genesis price
		prevDeposit, had := int64(0), false
		if w.lastDeposit != nil {
			prevDeposit, had = w.lastDeposit[p]
		}
		if w.lastStorage != nil {
			ds := int64(rec.Storage) - w.lastStorage[p]
			dd := int64(rec.Deposit) - w.lastDeposit[p]
			if ds > 0 && w.onlyGrowth && dd != ds*100 {
				w.fail("C09", "deposit-vs-price", "height %d: realm %s grew by %d bytes, deposit grew by %d (price 100ugnot/byte)", b.Height, p, ds, dd)
				return
			}
		} else {
			w.lastStorage, w.lastDeposit = map[string]int64{}, map[string]int64{}
		}
		w.lastStorage[p], w.lastDeposit[p] = int64(rec.Storage), int64(rec.Deposit)
		w.r.Probe("realm_storage_audited")
		if had && int64(rec.Deposit) > prevDeposit {
			lockedByBlock += int64(rec.Deposit) - prevDeposit
		}
	}
	// C09 (cross-check of the event-based oracle, from the realm records): when the ONLY successful tx of the
	// block limits the deposit of all of its messages, the deposits of the watched realms cannot have grown by more.
	var okTx *simTx
	nOK := 0
	for i, t := range w.curTxs {
		if i < len(w.curRes) && w.curRes[i].ok() {
			nOK++
			okTx = t
		}
	}
	if nOK == 1 {
		if lim, all := txDepositLimit(okTx); all {
			if lockedByBlock > lim {
				w.fail("C09", "deposit-exceeds-message-limit", "height %d: the only successful tx of the block, tx{%s: %s}, limits its storage deposit to %dugnot, but the deposits recorded by the realms %v grew by %dugnot in this block", b.Height, okTx.why, msgsString(okTx.msgs), lim, watchedRealms, lockedByBlock)
				return
			}
			w.r.Probe("deposit_limit_cross_checked_on_realm_records")
		}
	}
}

func (w *world) checkGas(b blockSpec, txs []*simTx, res blockResult, maxGas int64) {
	var sum int64
	for i, r := range res.Txs {
		charged := r.GasU
		if charged > r.GasW && r.GasW > 0 {
			charged = r.GasW // the block is charged GasConsumedToLimit
		}
		if sum >= maxGas && r.ok() {
			w.fail("C10", "tx-ran-after-block-gas-exhausted", "height %d: tx %d succeeded although the block gas limit %d was already exhausted (%d charged before it)", b.Height, i, maxGas, sum)
			return
		}
		if r.ok() && sum+charged > maxGas {
			w.fail("C10", "block-gas-limit-exceeded-by-successful-tx", "height %d: tx %d succeeded using %d gas with only %d block gas left", b.Height, i, charged, maxGas-sum)
			return
		}
		sum += charged
		_ = txs
	}
}

// echoBlock (C01): a block in which one tx settled the storage deposit of several realms is executed again on
// echoRuns fresh nodes, each opened over a copy of the twin's durable image of the previous height: every one of
// them must report the reference's tx results (error, data, events in the same order, gas) and app hash. Whatever
// order the keeper walks the realms of a message in must not depend on the process executing it.
// When two realms of one message changed by exactly the same number of bytes nothing but the realm path can
// order them: such blocks are repeated more often (an order taken from Go map iteration over two entries shows
// in about one execution of eight).
const (
	echoRuns    = 3
	echoRunsTie = 12
)

func (w *world) echoBlock(b blockSpec, want blockResult, runs int) {
	for k := 0; k < runs; k++ {
		n, err := newNode("echo", w.rst.disk.Clone(simdb.NewMachine()), w.rst.prune)
		if err != nil {
			w.fail("C01", "restart", "a node cannot be opened over a copy of the twin's durable image before height %d: %v", b.Height, err)
			return
		}
		if n.height != b.Height-1 {
			n.app.Close()
			kernel.Harnessf("echo node opened at height %d before block %d", n.height, b.Height)
		}
		got := n.runBlock(b)
		n.app.Close()
		for i := range want.Txs {
			if i >= len(got.Txs) || got.Txs[i].key() != want.Txs[i].key() {
				w.fail("C01", "tx-result-vs-replayed-block", "height %d tx %d: reference node: %s\n fresh node %d over the same durable image executing the same block: %s", b.Height, i, want.Txs[i].key(), k, got.Txs[i].key())
				return
			}
		}
		if !bytes.Equal(got.AppHash, want.AppHash) {
			w.fail("C01", "app-hash-vs-replayed-block", "height %d: app hash %X on the reference node, %X on fresh node %d executing the same block over the same durable image", b.Height, want.AppHash, got.AppHash, k)
			return
		}
	}
	w.r.Probe("blocks_replayed_on_fresh_nodes")
	w.r.ProbeN("fresh_node_block_replays", runs)
}

func (w *world) twinBlock(b blockSpec, want blockResult) {
	c := w.c
	if c.Chance(1, 3) {
		c.Event("restart twin before h%d", b.Height)
		if err := w.rst.restart(); err != nil {
			w.fail("C01", "restart", "twin cannot restart before height %d: %v", b.Height, err)
			return
		}
		w.r.Fault("restart")
	}
	got := w.rst.runBlock(b)
	for i := range want.Txs {
		if i >= len(got.Txs) || got.Txs[i].key() != want.Txs[i].key() {
			w.fail("C01", "tx-result-vs-restarted-twin", "height %d tx %d: never-restarted node: %s\n restarted node (%d restarts): %s", b.Height, i, want.Txs[i].key(), w.rst.restarts, got.Txs[i].key())
			return
		}
	}
	if !bytes.Equal(got.AppHash, want.AppHash) {
		w.fail("C01", "app-hash-vs-restarted-twin", "height %d: app hash %X on the never-restarted node, %X on the twin restarted %d times", b.Height, want.AppHash, got.AppHash, w.rst.restarts)
	}
}

var _ = json.Marshal

var engines = map[string]kernel.Engine{
	"C01": runChain, "C02": runChain, "C10": runChain, "C14": runChain, "C15": runChain,
	"C27": runCrash, "C06": runChain, "C09": runChain, "C53": runGenesis, "C12": runPackages,
}
