package chain

import (
	"bytes"
	"crypto/sha256"
	"encoding/hex"
	"encoding/json"
	"fmt"
	"regexp"
	"strconv"
	"strings"
	"sync"
	"time"

	"github.com/gnolang/gno/gno.land/pkg/sdk/vm"
	"github.com/gnolang/gno/tm2/pkg/amino"
	"github.com/gnolang/gno/tm2/pkg/crypto"
	"github.com/gnolang/gno/tm2/pkg/sdk/auth"
	"github.com/gnolang/gno/tm2/pkg/sdk/bank"
	"github.com/gnolang/gno/tm2/pkg/std"
	stypes "github.com/gnolang/gno/tm2/pkg/store/types"

	"verif/sim/kernel"
	"verif/sim/simdb"
)

const boxPath = "gno.land/r/sim/box"
const libPath = "gno.land/p/sim/lib"

// ---- process-level post-genesis images --------------------------------------

type image struct {
	disk   *simdb.Disk
	maxGas int64
	hash   []byte
	nums   map[string]uint64 // actor name -> account number
}

var (
	imgMu  sync.Mutex
	images = map[int64]*image{}
)

var actorNames = []string{"alice", "bob", "carol", "chaos1", "chaos2", "dave"}

func newActors() map[string]*actor {
	m := map[string]*actor{}
	for _, n := range actorNames {
		m[n] = newActor(n)
	}
	return m
}

const genesisBalance = int64(1_000_000_000_000)

// baseImage builds (once per worker process and MaxGas) the disk image after
// InitChain + the first (empty) block. Runs clone it.
func baseImage(maxGas int64) *image {
	imgMu.Lock()
	defer imgMu.Unlock()
	if im, ok := images[maxGas]; ok {
		return im
	}
	disk := simdb.NewDisk("app", nil)
	n, err := newNode("genesis", disk)
	if err != nil {
		kernel.Harnessf("genesis app: %v", err)
	}
	acts := newActors()
	g := genesisSpec{Balance: genesisBalance, MaxGas: maxGas,
		Packages: []*std.MemPackage{readRealm(gnoDir("lib"), libPath), readRealm(gnoDir("box"), boxPath)}}
	for _, nm := range actorNames {
		if nm == "dave" {
			continue // dave has no account at genesis
		}
		g.Actors = append(g.Actors, acts[nm])
	}
	res := n.initChain(g, g.state())
	if res.Error != nil {
		kernel.Harnessf("InitChain: %v", res.Error)
	}
	for _, r := range res.TxResponses {
		if r.Error != nil {
			kernel.Harnessf("genesis tx failed: %v %s", r.Error, r.Log)
		}
	}
	br := n.runBlock(blockSpec{Height: 1, Time: genesisTime.Add(time.Second)})
	im := &image{disk: disk, maxGas: maxGas, hash: br.AppHash, nums: map[string]uint64{}}
	for _, a := range g.Actors {
		acc, err := n.account(a.addr)
		if err != nil || acc == nil {
			kernel.Harnessf("genesis account %s: %v", a.name, err)
		}
		im.nums[a.name] = acc.GetAccountNumber()
	}
	n.app.Close()
	images[maxGas] = im
	return im
}

// ---- the simulated world ------------------------------------------------------

type txKind int

const (
	kOK        txKind = iota // must succeed
	kFail                    // passes ante, must fail in msgs (fee paid, seq bumped, nothing else)
	kEither                  // passes ante; may succeed or run out of gas (drawn gas limit)
	kAnteReject              // must be rejected by ante: no state change at all
	kBlockGas                // passes ante; must fail if it crosses the block gas limit, else may succeed
)

type simMsg struct {
	fn   string
	args []string
	send int64 // bank send amount (fn == "@send")
	to   string
}

type simTx struct {
	kind     txKind
	signer   string
	msgs     []simMsg
	gas      int64
	fee      int64
	bytes    []byte
	why      string
	replayOf int // index+1 of an earlier accepted tx whose bytes are resubmitted
}

type world struct {
	c    *kernel.Choices
	r    *kernel.Result
	p    kernel.Params
	prop string

	img    *image
	acts   map[string]*actor
	bal    map[string]int64 // model balances (ugnot) of actors
	box    *boxModel
	height int64
	now    time.Time

	ref *node
	rst *node // restarted twin (nil unless enabled)

	accepted   [][]byte // tx bytes that were accepted (for replay attacks)
	emptyKeys  map[string]bool
	prevDump   stateDump
	genesisDump stateDump
	digest     []string
	stop       bool
	feeCollected int64
	dynPkgs    map[string]bool
	knownSeen  map[string]bool
	dynCount   int
	lastStorage, lastDeposit map[string]int64
	onlyGrowth bool
}

func (w *world) fail(prop, oracle, format string, args ...any) {
	w.r.Fail(prop, oracle, format, args...)
	w.stop = true
}

func gnoDir(name string) string {
	return "/verif/sim/engines/chain/gno/" + name
}

func (w *world) openNode(name string, prune ...stypes.PruneStrategy) *node {
	d := w.img.disk.Clone(simdb.NewMachine())
	n, err := newNode(name, d, prune...)
	if err != nil {
		kernel.Harnessf("opening node %s over the genesis image: %v", name, err)
	}
	if !bytes.Equal(n.last, w.img.hash) || n.height != 1 {
		kernel.Harnessf("node %s opened at height %d hash %X, image has %X", name, n.height, n.last, w.img.hash)
	}
	return n
}

// ---- workload generation -----------------------------------------------------------

var okFns = []string{"Incr", "Push", "Pop", "Share", "Unshare", "Adopt", "DropKids", "Grow", "Shrink", "PairBump", "Incr", "Push", "Push", "Grow",
	"AddItem", "AddItem", "AddItem", "RemoveItem", "RemoveItem", "InsertItem", "SwapItems", "Record", "Record", "Forget"}

func (w *world) genBoxMsg() simMsg {
	c := w.c
	fn := okFns[c.Intn(len(okFns))]
	m := simMsg{fn: fn}
	switch fn {
	case "Push":
		m.args = []string{fmt.Sprintf("v%d", c.Intn(1000))}
	case "Share":
		m.args = []string{strconv.Itoa(c.Intn(4))}
	case "Grow":
		m.args = []string{strconv.Itoa(1 + c.Intn(3)), strconv.Itoa(8 + c.Intn(120))}
	case "Shrink":
		m.args = []string{strconv.Itoa(1 + c.Intn(6))}
	case "Record":
		m.args = []string{strconv.Itoa(1 + c.Intn(3)), strconv.Itoa(c.Intn(300))}
	case "Forget":
		m.args = []string{strconv.Itoa(1 + c.Intn(4))}
	case "AddItem":
		m.args = []string{strconv.Itoa(1 + c.Intn(900))}
	case "RemoveItem":
		m.args = []string{strconv.Itoa(c.Intn(8))}
	case "InsertItem":
		m.args = []string{strconv.Itoa(c.Intn(8)), strconv.Itoa(1 + c.Intn(900))}
	case "SwapItems":
		m.args = []string{strconv.Itoa(c.Intn(8)), strconv.Itoa(c.Intn(8))}
	}
	return m
}

func (w *world) buildTx(t *simTx) {
	a := w.acts[t.signer]
	var msgs []std.Msg
	for _, m := range t.msgs {
		if m.fn == "@send" {
			msgs = append(msgs, bank.NewMsgSend(a.addr, w.acts[m.to].addr, coins(m.send)))
		} else if m.fn == "@run" {
			// MsgRun script importing the genesis library and the box realm
			script := fmt.Sprintf("package main\n\nimport (\n\t\"gno.land/p/sim/lib\"\n\t\"gno.land/r/sim/box\"\n)\n\nfunc main(cur realm) {\n\tbox.Incr(cross(cur))\n\tprintln(lib.Tag(\"run\", lib.Double(%s)))\n}\n", m.args[0])
			msgs = append(msgs, vm.NewMsgRun(a.addr, nil, []*std.MemFile{{Name: "main.gno", Body: script}}))
		} else if m.fn == "@addpkg" {
			name := m.args[0]
			body := fmt.Sprintf("package %s\n\nimport \"gno.land/p/sim/lib\"\n\nvar V = lib.Double(%s)\n\nfunc Get() int { return V }\n", name, m.args[1])
			msgs = append(msgs, vm.MsgAddPackage{Creator: a.addr, Package: memPkg("gno.land/r/sim/"+name, map[string]string{name + ".gno": body})})
		} else {
			msgs = append(msgs, vm.NewMsgCall(a.addr, nil, boxPath, m.fn, m.args))
		}
	}
	tx := std.Tx{Msgs: msgs, Fee: std.NewFee(t.gas, std.NewCoin("ugnot", t.fee))}
	signTx(&tx, []*actor{a}, false)
	t.bytes = encTx(tx)
}

func (w *world) payer(chaos bool) string {
	if chaos {
		return []string{"chaos1", "chaos2"}[w.c.Intn(2)]
	}
	return []string{"alice", "bob", "carol"}[w.c.Intn(3)]
}

// genTx draws one transaction. seqUsed tracks, per signer, how many txs of this
// block already consumed a sequence number (so that later txs sign correctly).
func (w *world) genTx(weights []int) *simTx {
	c := w.c
	t := &simTx{gas: 50_000_000, fee: 1_000_000}
	if w.img.maxGas < t.gas {
		t.gas = w.img.maxGas / 2
	}
	switch c.Weighted(weights) {
	case 0: // single successful call
		t.kind, t.signer = kOK, w.payer(false)
		t.msgs = []simMsg{w.genBoxMsg()}
	case 1: // bank send
		t.kind, t.signer = kOK, w.payer(false)
		to := []string{"alice", "bob", "carol", "dave"}[c.Intn(4)]
		t.msgs = []simMsg{{fn: "@send", to: to, send: int64(1 + c.Intn(5000))}}
	case 2: // multi-message success
		t.kind, t.signer = kOK, w.payer(false)
		n := 2 + c.Intn(3)
		for i := 0; i < n; i++ {
			if c.Intn(4) == 0 {
				t.msgs = append(t.msgs, simMsg{fn: "@send", to: "bob", send: int64(1 + c.Intn(100))})
			} else {
				t.msgs = append(t.msgs, w.genBoxMsg())
			}
		}
	case 3: // failure injected at message k of n: Gno panic / unknown function / send too much
		t.kind, t.signer = kFail, w.payer(true)
		n := 1 + c.Intn(4)
		k := c.Intn(n)
		for i := 0; i < n; i++ {
			if i == k {
				switch c.Intn(3) {
				case 0:
					t.msgs = append(t.msgs, simMsg{fn: "Fail", args: []string{strconv.Itoa(c.Intn(9))}})
					t.why = "gno panic"
				case 1:
					t.msgs = append(t.msgs, simMsg{fn: "NoSuchFunction"})
					t.why = "handler error"
				default:
					t.msgs = append(t.msgs, simMsg{fn: "@send", to: "bob", send: genesisBalance * 5})
					t.why = "insufficient coins"
				}
			} else if c.Intn(4) == 0 {
				t.msgs = append(t.msgs, simMsg{fn: "@send", to: "carol", send: int64(1 + c.Intn(100))})
			} else {
				t.msgs = append(t.msgs, w.genBoxMsg())
			}
		}
		t.why += fmt.Sprintf(" at msg %d of %d", k+1, n)
	case 4: // out of gas at a drawn gas limit: sweeps the OOG point through the execution
		t.kind, t.signer = kEither, w.payer(true)
		n := 1 + c.Intn(3)
		for i := 0; i < n; i++ {
			t.msgs = append(t.msgs, w.genBoxMsg())
		}
		if c.Bool() {
			t.msgs = append(t.msgs, simMsg{fn: "Spin", args: []string{strconv.Itoa(100 + c.Intn(3000)), strconv.Itoa(c.Intn(50))}})
		}
		t.gas = int64(1_200_000 + c.Intn(4_000_000))
		t.why = "drawn gas limit"
	case 5: // guaranteed out of gas (unbounded loop / recursion / allocation)
		t.kind, t.signer = kFail, w.payer(true)
		t.msgs = []simMsg{w.genBoxMsg(), {fn: []string{"Forever", "Forever", "Forever"}[c.Intn(3)]}}
		t.gas = int64(3_000_000 + c.Intn(6_000_000))
		t.why = "unbounded loop"
	case 7: // MsgRun script importing a library package and a realm
		t.kind, t.signer = kOK, w.payer(false)
		t.msgs = []simMsg{{fn: "@run", args: []string{strconv.Itoa(c.Intn(50))}}}
		t.why = "msgrun"
	case 8: // deploy a fresh realm importing the library (or a colliding path)
		t.kind, t.signer = kOK, w.payer(false)
		w.dynCount++
		name := fmt.Sprintf("dyn%d", w.dynCount)
		if len(w.dynPkgs) > 0 && c.Intn(4) == 0 {
			name = kernel.SortedKeys(w.dynPkgs)[c.Intn(len(w.dynPkgs))]
			t.kind = kFail
			t.why = "addpkg colliding path"
		} else {
			t.why = "addpkg"
		}
		t.msgs = []simMsg{{fn: "@addpkg", args: []string{name, strconv.Itoa(c.Intn(50))}}}
	case 6: // ante rejections: no state change at all, not even a fee
		t.kind, t.signer = kAnteReject, w.payer(c.Bool())
		t.msgs = []simMsg{w.genBoxMsg()}
		t.why = []string{"bad signature", "wrong sequence (future)", "wrong sequence (past)", "wrong account number", "wrong chain id", "replay of accepted tx", "unknown signer", "fee above balance"}[c.Intn(8)]
	}
	return t
}

// finishTx signs t given the signer's current model sequence; applies the
// ante-reject mutations.
func (w *world) finishTx(t *simTx) {
	a := w.acts[t.signer]
	if t.kind != kAnteReject {
		w.buildTx(t)
		return
	}
	save := *a
	switch {
	case strings.HasPrefix(t.why, "wrong sequence (future)"):
		a.seq += 1 + uint64(w.c.Intn(3))
		w.buildTx(t)
	case strings.HasPrefix(t.why, "wrong sequence (past)"):
		if a.seq == 0 {
			a.seq = 5
		} else {
			a.seq--
		}
		w.buildTx(t)
	case strings.HasPrefix(t.why, "wrong account number"):
		a.num += 1 + uint64(w.c.Intn(3))
		w.buildTx(t)
	case strings.HasPrefix(t.why, "unknown signer"):
		t.signer = "dave"
		if w.bal["dave"] > 0 { // dave got funded: use a never-funded key instead
			w.acts["ghost"] = newActor("ghost")
			t.signer = "ghost"
		}
		w.buildTx(t)
	case strings.HasPrefix(t.why, "fee above balance"):
		t.fee = genesisBalance * 3
		w.buildTx(t)
	case strings.HasPrefix(t.why, "replay") && len(w.accepted) > 0:
		t.bytes = w.accepted[w.c.Intn(len(w.accepted))]
	case strings.HasPrefix(t.why, "wrong chain id"):
		var msgs []std.Msg
		for _, m := range t.msgs {
			msgs = append(msgs, vm.NewMsgCall(a.addr, nil, boxPath, m.fn, m.args))
		}
		tx := std.Tx{Msgs: msgs, Fee: std.NewFee(t.gas, std.NewCoin("ugnot", t.fee))}
		sb, _ := tx.GetSignBytes("other-chain", a.num, a.seq)
		sig, _ := a.priv.Sign(sb)
		tx.Signatures = []std.Signature{{PubKey: a.priv.PubKey(), Signature: sig}}
		t.bytes = encTx(tx)
	default: // bad signature: flip one byte of a valid signature
		t.why = "bad signature"
		w.buildTx(t)
		var tx std.Tx
		amino.MustUnmarshal(t.bytes, &tx)
		s := tx.Signatures[0].Signature
		s[w.c.Intn(len(s))] ^= byte(1 + w.c.Intn(255))
		t.bytes = encTx(tx)
	}
	*a = save
}

// ---- model update from results --------------------------------------------------------

var depositRe = regexp.MustCompile(`"fee_delta":"(\d+)ugnot"`)
var refundRe = regexp.MustCompile(`"fee_refund":"(\d+)ugnot"`)

func eventCoins(events string) (deposit, refund int64) {
	for _, m := range depositRe.FindAllStringSubmatch(events, -1) {
		v, _ := strconv.ParseInt(m[1], 10, 64)
		deposit += v
	}
	for _, m := range refundRe.FindAllStringSubmatch(events, -1) {
		v, _ := strconv.ParseInt(m[1], 10, 64)
		refund += v
	}
	return
}

func isOOG(r txResult) bool { return strings.Contains(r.Err, "OutOfGas") }

// applyResult checks a tx result against what the model allows and updates the model.
func (w *world) applyResult(t *simTx, r txResult, blockGasLeftBefore int64) {
	a := w.acts[t.signer]
	desc := fmt.Sprintf("tx{%s by %s: %s}", t.why, t.signer, msgsString(t.msgs))
	// C10: reported gas used never exceeds gas wanted for a transaction that is reported successful
	if r.ok() && r.GasU > r.GasW {
		w.fail("C10", "gas-used-exceeds-wanted", "%s succeeded with GasUsed %d > GasWanted %d", desc, r.GasU, r.GasW)
		return
	}
	if t.kind == kAnteReject {
		if r.ok() {
			prop := "C15"
			w.fail(prop, "invalid-tx-accepted", "%s was accepted (%s)", desc, r.key())
		}
		return // no model change; the state-diff oracle checks that nothing changed
	}
	if r.GasW == 0 && !r.ok() && isOOG(r) && r.GasU >= blockGasLeftBefore {
		// rejected before the ante handler could set the tx gas meter (block gas nearly exhausted):
		// treated as an ante rejection: nothing may change
		t.kind = kAnteReject
		t.why += " [block gas exhausted before ante]"
		w.r.Probe("rejected_no_block_gas_left")
		return
	}
	// the tx passed ante: fee paid, sequence bumped
	a.seq++
	w.bal[t.signer] -= t.fee
	w.feeCollected += t.fee
	w.accepted = append(w.accepted, t.bytes)
	trial := w.box.clone()
	trialBal := map[string]int64{}
	for k, v := range w.bal {
		trialBal[k] = v
	}
	modelFails := false
	for _, m := range t.msgs {
		if m.fn == "@send" {
			if trialBal[t.signer] < m.send {
				modelFails = true
				break
			}
			trialBal[t.signer] -= m.send
			trialBal[m.to] += m.send
			continue
		}
		if m.fn == "NoSuchFunction" {
			modelFails = true
			break
		}
		if m.fn == "@run" {
			trial.apply("Incr", nil)
			continue
		}
		if m.fn == "@addpkg" {
			if w.dynPkgs[m.args[0]] {
				modelFails = true // path already taken
				break
			}
			continue
		}
		if trial.apply(m.fn, m.args) {
			modelFails = true
			break
		}
	}
	switch {
	case r.ok():
		if modelFails {
			w.fail("C02", "failing-tx-succeeded", "%s must fail but succeeded", desc)
			return
		}
		if t.kind == kFail {
			w.fail("C02", "failing-tx-succeeded", "%s must fail but succeeded", desc)
			return
		}
		dep, ref := eventCoins(r.Events)
		w.bal = trialBal
		w.bal[t.signer] += ref - dep
		for _, m := range t.msgs {
			if m.fn == "@addpkg" {
				w.dynPkgs[m.args[0]] = true
			}
		}
		w.box = trial
		w.r.Probe("tx_ok")
		if len(t.msgs) > 1 {
			w.r.Probe("tx_ok_multi_msg")
		}
	default:
		// failed after ante: only the fee and the sequence may have changed (C02).
		// Running out of the tx's own gas (GasUsed >= GasWanted) or crossing the block gas
		// limit (GasUsed > block gas left) are legitimate failures of ANY transaction.
		legitOOG := isOOG(r) && (r.GasU >= r.GasW || r.GasU > blockGasLeftBefore)
		if (t.kind == kOK || t.kind == kEither || t.kind == kBlockGas) && !legitOOG && !modelFails {
			kernel.Harnessf("%s was expected to succeed but failed (block gas left %d): %s %s", desc, blockGasLeftBefore, r.Err, clip(r.Log, 600))
		}
		if isOOG(r) {
			w.r.Probe("tx_out_of_gas")
			if strings.Contains(r.Log, "block gas meter") {
				w.r.Probe("tx_crossed_block_gas_limit")
			}
		} else {
			w.r.Probe("tx_failed_in_msgs")
		}
	}
}

func clip(s string, n int) string {
	if len(s) > n {
		return s[:n] + "…"
	}
	return s
}

func msgsString(ms []simMsg) string {
	var parts []string
	for _, m := range ms {
		if m.fn == "@send" {
			parts = append(parts, fmt.Sprintf("send(%d→%s)", m.send, m.to))
		} else if m.fn == "@run" || m.fn == "@addpkg" {
			parts = append(parts, m.fn[1:]+"("+strings.Join(m.args, ",")+")")
		} else {
			parts = append(parts, m.fn+"("+strings.Join(m.args, ",")+")")
		}
	}
	return strings.Join(parts, ";")
}

// ---- per-block oracles ----------------------------------------------------------------------

func isAccountKey(k string, addrs ...crypto.Address) bool {
	for _, a := range addrs {
		if k == "main/"+string(auth.AddressStoreKey(a)) {
			return true
		}
	}
	return false
}

func (w *world) checkBlock(b blockSpec, txs []*simTx, res blockResult) {
	au, err := newAuditor(w.ref.disk, b.Height)
	if err != nil {
		w.fail("C27", "audit-store-unloadable", "independent multistore over the durable image of height %d does not load: %v", b.Height, err)
		return
	}
	if au.version != b.Height {
		w.fail("C27", "durable-version", "durable multistore version %d after committing height %d", au.version, b.Height)
		return
	}
	dump := au.dump()
	changed := diffKeys(w.prevDump, dump)
	w.prevDump = dump

	// classification of the block's txs
	allNoMsgEffects := true // every tx either ante-rejected or failed
	anyAntePassed := false
	var feePayers []crypto.Address
	for i, t := range txs {
		r := res.Txs[i]
		if t.kind != kAnteReject {
			anyAntePassed = true
			feePayers = append(feePayers, w.acts[t.signer].addr)
		}
		if r.ok() {
			allNoMsgEffects = false
		}
	}
	if len(txs) == 0 {
		for _, k := range changed {
			w.emptyKeys[k] = true
		}
	} else if allNoMsgEffects {
		// C02 / C15: state diff of a block whose txs all failed ⊆ {signer accounts, fee collector, block-level keys}
		feeColl := crypto.AddressFromPreimage([]byte(auth.DefaultFeeCollectorName))
		for _, k := range changed {
			if w.emptyKeys[k] || k == "main/gasPrice" || k == "base/last_header" {
				continue // block-level keys (EndBlocker gas price, Commit header)
			}
			if anyAntePassed && isAccountKey(k, append(feePayers, feeColl)...) {
				continue
			}
			prop, oracle := "C02", "failed-tx-left-state"
			if !anyAntePassed {
				prop, oracle = "C15", "rejected-tx-left-state"
			}
			var ds []string
			for i, t := range txs {
				ds = append(ds, fmt.Sprintf("[%s: %s → %s]", t.why, msgsString(t.msgs), res.Txs[i].Err))
			}
			w.fail(prop, oracle, "height %d: every tx of the block failed %v but key %s changed (changed keys: %d)", b.Height, ds, shortKey(k), len(changed))
			return
		}
		w.r.Probe("all_failed_blocks_classified")
	}

	// realm state vs model (C02: success applies all messages, failure none)
	got, err := w.ref.qeval(boxPath, "Dump()")
	if err != nil {
		kernel.Harnessf("qeval Dump: %v", err)
	}
	want := `("` + w.box.dump() + `" string)`
	if got != want {
		var ds []string
		for i, t := range txs {
			ds = append(ds, fmt.Sprintf("[%s: %s → %s]", t.why, msgsString(t.msgs), res.Txs[i].Err))
		}
		w.fail("C02", "realm-state-vs-model", "height %d after %v:\n realm: %s\n model: %s", b.Height, ds, got, want)
		return
	}
	// accounts vs model (C15 sequences, C02 fee-only, C08 balances)
	for _, nm := range kernel.SortedKeys(w.acts) {
		a := w.acts[nm]
		seq, _, bal, ok := au.account(a.addr)
		if !ok {
			if w.bal[nm] != 0 || a.seq != 0 {
				w.fail("C15", "account-vs-model", "height %d: account %s missing; model balance %d seq %d", b.Height, nm, w.bal[nm], a.seq)
				return
			}
			continue
		}
		if seq != a.seq {
			w.fail("C15", "sequence-vs-model", "height %d: %s sequence %d, model %d (each accepted tx advances it by exactly one, rejected ones never)", b.Height, nm, seq, a.seq)
			return
		}
		if bal != w.bal[nm] {
			w.fail("C02", "balance-vs-model", "height %d: %s balance %d, model %d (Δ %d)", b.Height, nm, bal, w.bal[nm], bal-w.bal[nm])
			return
		}
	}
	// C06 / C09: persisted object graph and storage accounting of the workload realms, from bytes
	w.checkGraph(b, au)
	if w.stop {
		return
	}
	// C14: the repository's own invariants + raw recomputation
	if msg := au.invariants(); msg != "" {
		w.fail("C14", "bank-auth-invariants", "height %d: %s", b.Height, clip(msg, 1500))
		return
	}
	sum, err := au.sumAllUgnot()
	if err != nil {
		w.fail("C14", "account-iteration", "height %d: %v", b.Height, err)
		return
	}
	if sup := au.totalSupply("ugnot"); sup != sum {
		w.fail("C14", "supply-vs-sum", "height %d: recorded ugnot supply %d, sum of all balances %d", b.Height, sup, sum)
		return
	}
	w.r.Probe("blocks_audited")
}

// ---- the run -----------------------------------------------------------------------------------

func runChain(c *kernel.Choices, p kernel.Params) *kernel.Result {
	w := &world{c: c, r: kernel.NewResult(), p: p, prop: p.Property, emptyKeys: map[string]bool{}, dynPkgs: map[string]bool{}, knownSeen: map[string]bool{}}
	small := false
	switch p.Property {
	case "C02", "C10":
		small = c.Chance(1, 2)
	default:
		small = c.Chance(1, 6)
	}
	maxGas := int64(3_000_000_000)
	if small {
		maxGas = 15_000_000
	}
	w.img = baseImage(maxGas)
	w.acts = newActors()
	w.bal = map[string]int64{}
	for nm, a := range w.acts {
		if num, ok := w.img.nums[nm]; ok {
			a.num = num
		}
	}
	w.box = newBoxModel()
	w.height = 1
	w.now = genesisTime.Add(time.Second)
	w.ref = w.openNode("ref")
	defer func() { w.ref.app.Close() }()
	// initial balances from the durable image (genesis deploy fees were paid by alice)
	au, err := newAuditor(w.ref.disk, 1)
	if err != nil {
		kernel.Harnessf("auditor over genesis image: %v", err)
	}
	for nm, a := range w.acts {
		seq, num, bal, ok := au.account(a.addr)
		if ok {
			w.bal[nm], a.seq, a.num = bal, seq, num
		}
	}
	w.prevDump = au.dump()

	useTwin := p.Property == "C01" || c.Chance(1, 4)
	if p.Knob("twin", "") == "off" {
		useTwin = false
	}
	if useTwin {
		// pruning is node-local configuration: it must not influence app hashes or results
		w.rst = w.openNode("rst", []stypes.PruneStrategy{"", stypes.PruneEverythingStrategy, stypes.PruneNothingStrategy}[c.Intn(3)])
		defer func() { w.rst.app.Close() }()
	}

	nblocks := 4 + c.Intn(10)
	if p.Tier == "thorough" {
		nblocks = 6 + c.Intn(24)
	}
	// swarm weights: ok-call, send, multi, fail-at-k, oog-sweep, unbounded, ante-reject
	weights := []int{3 + c.Intn(6), c.Intn(4), c.Intn(5), c.Intn(5), c.Intn(5), c.Intn(3), c.Intn(5), c.Intn(4), c.Intn(3)}
	if small {
		weights[8] = 0 // deployments do not fit the small block gas limit
	}
	if p.Property == "C01" {
		weights[7] += 2
		weights[8] += 2
	}
	switch p.Property {
	case "C02":
		weights[3] += 3
		weights[4] += 3
	case "C15":
		weights[6] += 6
	case "C10":
		weights[4] += 3
		weights[5] += 2
	}
	c.Event("run maxGas=%d twin=%v blocks=%d weights=%v", maxGas, useTwin, nblocks, weights)

	for bi := -1; bi < nblocks && !w.stop; bi++ {
		if bi == -1 {
			// one empty block first: learns which keys every block touches (header, gas price, ...)
			w.height++
			w.now = w.now.Add(5 * time.Second)
			b := blockSpec{Height: w.height, Time: w.now}
			res := w.ref.runBlock(b)
			w.digest = append(w.digest, hex.EncodeToString(res.AppHash))
			w.checkBlock(b, nil, res)
			if w.rst != nil && !w.stop {
				w.twinBlock(b, res)
			}
			continue
		}
		w.height++
		w.now = w.now.Add(time.Duration(1+c.Intn(20)) * time.Second)
		b := blockSpec{Height: w.height, Time: w.now}
		ntx := 0
		switch c.Intn(6) {
		case 0:
			ntx = 0
		case 1, 2:
			ntx = 1
		default:
			ntx = 1 + c.Intn(5)
		}
		blockGasScenario := small && c.Chance(1, 2)
		var txs []*simTx
		w.ref.beginBlock(b)
		var results []txResult
		gasLeft := maxGas
		if blockGasScenario {
			// first fill the block: an unbounded loop whose gas limit leaves a drawn remainder
			rem := int64(1_200_000 + c.Intn(2_500_000))
			t := &simTx{kind: kFail, signer: w.payer(true), msgs: []simMsg{{fn: "Forever"}}, gas: maxGas - rem, fee: 1_000_000, why: fmt.Sprintf("block filler leaving %d gas", rem)}
			w.finishTx(t)
			txs = append(txs, t)
			ntx = 1 + c.Intn(3)
		}
		for i := 0; i < ntx; i++ {
			txs = append(txs, nil)
		}
		for i := range txs {
			t := txs[i]
			if t == nil {
				t = w.genTx(weights)
				if blockGasScenario {
					if t.kind == kOK {
						t.kind = kBlockGas
					}
				}
				w.finishTx(t)
				txs[i] = t
			}
			r := resultOf(w.ref.app.DeliverTx(deliverReq(t.bytes)))
			results = append(results, r)
			c.Event("h%d tx%d %s by %s [%s] gas=%d -> err=%s gasU=%d", b.Height, i, msgsString(t.msgs), t.signer, t.why, t.gas, r.Err, r.GasU)
			w.applyResult(t, r, gasLeft)
			charged := r.GasU
			if r.GasW > 0 && charged > r.GasW {
				charged = r.GasW
			}
			gasLeft -= charged
			if w.stop {
				break
			}
			b.Txs = append(b.Txs, t.bytes)
		}
		if w.stop {
			break
		}
		hash := w.ref.endBlockCommit(b)
		res := blockResult{Txs: results, AppHash: hash}
		c.Event("h%d committed %X", b.Height, hash)
		w.digest = append(w.digest, hex.EncodeToString(hash))
		w.r.Steps += len(txs)
		w.checkBlock(b, txs, res)
		if w.stop {
			break
		}
		// C10: every tx's gas is charged to the block; nothing runs once the block gas is exhausted
		w.checkGas(b, txs, res, maxGas)
		if w.stop {
			break
		}
		if w.rst != nil {
			w.twinBlock(b, res)
		}
	}
	h := sha256.Sum256([]byte(strings.Join(w.digest, ",")))
	w.r.Probes["blocks"] += len(w.digest)
	sample := map[string]any{"chain_digest": hex.EncodeToString(h[:8]), "first_events": c.Log[:min(len(c.Log), 30)]}
	w.r.Sample = sample
	nt := w.r.Probes["tx_failed_in_msgs"] + w.r.Probes["tx_out_of_gas"] + w.r.Faults["restart"]
	w.r.Nontrivial = len(w.digest) >= 3 && nt > 0
	if p.Property == "C14" && w.r.Violation == nil {
		// module-level bank workload (bankmod.go); draws only after the chain body, so no other draw moves
		bankModulePhase(c, p, w.r)
	}
	return w.r
}

var watchedRealms = []string{boxPath}

func (w *world) checkGraph(b blockSpec, au *auditor) {
	var ids []string
	for _, p := range watchedRealms {
		ids = append(ids, pkgIDHex(p))
	}
	g := au.buildGraph(ids...)
	watch := map[string]bool{}
	for _, id := range ids {
		watch[id] = true
	}
	for _, is := range g.check(watch, false) {
		if strings.HasPrefix(is.kind, "anomaly:") {
			// integrity observations beyond the C06 statement: counted, not decided
			w.r.Probe(is.kind)
			continue
		}
		v := &kernel.Violation{Property: "C06", Oracle: is.kind, Signature: is.kind}
		if k := w.p.IsKnown(v); k != nil {
			if !w.knownSeen[is.kind] {
				w.knownSeen[is.kind] = true
				v.Msg = is.msg
				w.r.Known = append(w.r.Known, *v)
			}
			continue
		}
		w.fail("C06", is.kind, "height %d: %s", b.Height, is.msg)
		return
	}
	w.r.ProbeN("objects_audited", len(g.objs))
	for _, id := range sortedObjIDs(g.objs) {
		o := g.objs[id]
		if o.escaped {
			w.r.Probe("escaped_objects_seen")
			// an escaped object's hash is committed in the merkle (main) store under its id
			hv := au.get("main", []byte(id))
			if fmt.Sprintf("%X", hv) != o.hash {
				w.fail("C06", "escaped-hash-entry", "height %d: escaped object %s has stored hash %s but the main store holds %X under its id", b.Height, id, o.hash, hv)
				return
			}
		}
	}
	for i, p := range watchedRealms {
		rec, ok := g.realms[ids[i]]
		if !ok {
			continue
		}
		objBytes := g.bytes[ids[i]]
		prm := au.paramsBytes(p)
		if int64(rec.Storage) != objBytes+prm {
			w.fail("C09", "storage-vs-bytes", "height %d: realm %s records Storage=%d but owns %d object bytes + %d parameter bytes = %d on disk", b.Height, p, rec.Storage, objBytes, prm, objBytes+prm)
			return
		}
		held := au.balanceOf(storageDepositAddr(p))
		if int64(rec.Deposit) > held {
			w.fail("C09", "deposit-not-backed", "height %d: realm %s records Deposit=%d but its storage-deposit address holds %d", b.Height, p, rec.Deposit, held)
			return
		}
		if rec.Storage == 0 && rec.Deposit != 0 {
			w.fail("C09", "deposit-left-after-full-release", "height %d: realm %s has Storage 0 but Deposit %d", b.Height, p, rec.Deposit)
			return
		}
		// constant price in this workload: every byte is backed at the genesis price
		if w.lastStorage != nil {
			ds := int64(rec.Storage) - w.lastStorage[p]
			dd := int64(rec.Deposit) - w.lastDeposit[p]
			if ds > 0 && w.onlyGrowth && dd != ds*100 {
				w.fail("C09", "deposit-vs-price", "height %d: realm %s grew by %d bytes, deposit grew by %d (price 100ugnot/byte)", b.Height, p, ds, dd)
				return
			}
		} else {
			w.lastStorage, w.lastDeposit = map[string]int64{}, map[string]int64{}
		}
		w.lastStorage[p], w.lastDeposit[p] = int64(rec.Storage), int64(rec.Deposit)
		w.r.Probe("realm_storage_audited")
	}
}

func (w *world) checkGas(b blockSpec, txs []*simTx, res blockResult, maxGas int64) {
	var sum int64
	for i, r := range res.Txs {
		charged := r.GasU
		if charged > r.GasW && r.GasW > 0 {
			charged = r.GasW // the block is charged GasConsumedToLimit
		}
		if sum >= maxGas && r.ok() {
			w.fail("C10", "tx-ran-after-block-gas-exhausted", "height %d: tx %d succeeded although the block gas limit %d was already exhausted (%d charged before it)", b.Height, i, maxGas, sum)
			return
		}
		if r.ok() && sum+charged > maxGas {
			w.fail("C10", "block-gas-limit-exceeded-by-successful-tx", "height %d: tx %d succeeded using %d gas with only %d block gas left", b.Height, i, charged, maxGas-sum)
			return
		}
		sum += charged
		_ = txs
	}
}

func (w *world) twinBlock(b blockSpec, want blockResult) {
	c := w.c
	if c.Chance(1, 3) {
		c.Event("restart twin before h%d", b.Height)
		if err := w.rst.restart(); err != nil {
			w.fail("C01", "restart", "twin cannot restart before height %d: %v", b.Height, err)
			return
		}
		w.r.Fault("restart")
	}
	got := w.rst.runBlock(b)
	for i := range want.Txs {
		if i >= len(got.Txs) || got.Txs[i].key() != want.Txs[i].key() {
			w.fail("C01", "tx-result-vs-restarted-twin", "height %d tx %d: never-restarted node: %s\n restarted node (%d restarts): %s", b.Height, i, want.Txs[i].key(), w.rst.restarts, got.Txs[i].key())
			return
		}
	}
	if !bytes.Equal(got.AppHash, want.AppHash) {
		w.fail("C01", "app-hash-vs-restarted-twin", "height %d: app hash %X on the never-restarted node, %X on the twin restarted %d times", b.Height, want.AppHash, got.AppHash, w.rst.restarts)
	}
}

var _ = json.Marshal

var engines = map[string]kernel.Engine{
	"C01": runChain, "C02": runChain, "C10": runChain, "C14": runChain, "C15": runChain,
	"C27": runCrash, "C06": runChain, "C09": runChain, "C53": runGenesis, "C12": runPackages,
}
