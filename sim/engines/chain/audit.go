package chain

import (
	"bytes"
	"crypto/sha256"
	"fmt"
	"sort"
	"strings"

	"github.com/gnolang/gno/gno.land/pkg/gnoland"
	bft "github.com/gnolang/gno/tm2/pkg/bft/types"
	"github.com/gnolang/gno/tm2/pkg/log"
	"github.com/gnolang/gno/tm2/pkg/sdk"
	"github.com/gnolang/gno/tm2/pkg/sdk/auth"
	"github.com/gnolang/gno/tm2/pkg/sdk/bank"
	"github.com/gnolang/gno/tm2/pkg/sdk/params"
	"github.com/gnolang/gno/tm2/pkg/store"
	storebptree "github.com/gnolang/gno/tm2/pkg/store/bptree"
	"github.com/gnolang/gno/tm2/pkg/store/dbadapter"
	stypes "github.com/gnolang/gno/tm2/pkg/store/types"

	"verif/sim/simdb"
)

// auditor is the simulator's own, independent view of a node's durable state:
// a fresh rootmulti (main = bptree store without fast index, base = dbadapter)
// mounted over a CLONE of the node's disk. It never shares caches with the app.
type auditor struct {
	ms      stypes.CommitMultiStore
	mainKey store.StoreKey
	baseKey store.StoreKey
	acck    auth.AccountKeeper
	view    bank.ViewKeeper
	ctx     sdk.Context
	version int64
}

func newAuditor(disk *simdb.Disk, height int64) (*auditor, error) {
	cl := disk.Clone(nil)
	db := cl.Open()
	a := &auditor{mainKey: store.NewStoreKey("main"), baseKey: store.NewStoreKey("base")}
	a.ms = store.NewCommitMultiStore(db)
	a.ms.MountStoreWithDB(a.mainKey, storebptree.StoreConstructor, db)
	a.ms.MountStoreWithDB(a.baseKey, dbadapter.StoreConstructor, db)
	if err := a.ms.LoadLatestVersion(); err != nil {
		return nil, err
	}
	a.version = a.ms.LastCommitID().Version
	prmk := params.NewParamsKeeper(a.mainKey)
	a.acck = auth.NewAccountKeeper(a.mainKey, prmk.ForModule(auth.ModuleName), gnoland.ProtoGnoAccount, gnoland.ProtoGnoSessionAccount)
	a.view = bank.NewViewKeeper(a.acck, a.mainKey, []string{"ugnot"})
	a.ctx = sdk.NewContext(sdk.RunTxModeDeliver, a.ms.MultiCacheWrap(), &bft.Header{ChainID: chainID, Height: height}, log.NewNoopLogger())
	return a, nil
}

// dump returns key -> sha256(value) (hex-less, raw) for the whole logical key
// space of both stores; keys are prefixed "main/" and "base/".
type stateDump map[string][32]byte

func (a *auditor) dump() stateDump {
	out := stateDump{}
	for _, sk := range []struct {
		name string
		key  store.StoreKey
	}{{"main/", a.mainKey}, {"base/", a.baseKey}} {
		st := a.ms.GetStore(sk.key)
		it := st.Iterator(nil, nil, nil)
		for ; it.Valid(); it.Next() {
			k := it.Key()
			// Both stores are mounted on one DB under the shared prefix "s/_/", so the
			// dbadapter store also iterates the bptree's PHYSICAL records (node 'B',
			// value 'V', root 'R', meta 'M', orphan 'O', fast index 'F'). Those are
			// not logical state: skip them (gno-store and baseapp keys are lower case).
			if sk.name == "base/" && len(k) > 0 && strings.IndexByte("BVRMOF", k[0]) >= 0 {
				continue
			}
			out[sk.name+string(k)] = sha256.Sum256(it.Value())
		}
		it.Close()
	}
	return out
}

func (a *auditor) get(storeName string, key []byte) []byte {
	k := a.mainKey
	if storeName == "base" {
		k = a.baseKey
	}
	return a.ms.GetStore(k).Get(nil, key)
}

// diffKeys returns the sorted keys whose presence or value differs.
func diffKeys(a, b stateDump) []string {
	var out []string
	for k, v := range a {
		if w, ok := b[k]; !ok || w != v {
			out = append(out, k)
		}
	}
	for k := range b {
		if _, ok := a[k]; !ok {
			out = append(out, k)
		}
	}
	sort.Strings(out)
	return out
}

// invariants runs the repository's own bank/auth invariant functions (which the
// test-suite only calls on hand-built states) on the committed state.
func (a *auditor) invariants() string {
	var msgs []string
	if msg, broken := bank.AllInvariants(a.view)(a.ctx); broken {
		msgs = append(msgs, msg)
	}
	if msg, broken := auth.AllInvariants(a.acck)(a.ctx); broken {
		msgs = append(msgs, msg)
	}
	return strings.Join(msgs, "\n")
}

// sumBalances recomputes, from raw account objects and balance keys, the total
// of every denom (independent of the supply counter).
func (a *auditor) balanceOf(addr bft.Address) int64 {
	return a.view.GetCoin(a.ctx, addr, "ugnot")
}

func (a *auditor) totalSupply(denom string) int64 { return a.view.TotalSupply(a.ctx, denom) }

func (a *auditor) account(addr bft.Address) (seq, num uint64, coins int64, ok bool) {
	acc := a.acck.GetAccount(a.ctx, addr)
	if acc == nil {
		return 0, 0, 0, false
	}
	return acc.GetSequence(), acc.GetAccountNumber(), a.view.GetCoin(a.ctx, addr, "ugnot"), true
}

// sumAllUgnot walks every account entry and sums ugnot (raw recomputation for C14).
func (a *auditor) sumAllUgnot() (int64, error) {
	var total int64
	err := a.acck.IterateAccountEntries(a.ctx, func(e auth.AccountEntry) bool {
		if e.Account != nil {
			total += e.Account.GetCoins().AmountOf("ugnot")
		}
		return false
	})
	return total, err
}

func shortKey(k string) string {
	if len(k) > 80 {
		return fmt.Sprintf("%q…(%d bytes)", k[:80], len(k))
	}
	return fmt.Sprintf("%q", k)
}

var _ = bytes.Equal
