package chain

import (
	"fmt"
	"strings"

	"verif/sim/kernel"
)

// C03 program generator ("shapes").
//
// A shape program is ONE body of Gno source used verbatim in two packages: a realm
// (plus one crossing wrapper `OpK(cur realm, a int, s string) string` per operation) and
// the `main` package of a MsgRun script (plus a generated main()). The body consists of
//
//   * declared types T0..Tn (structs whose fields are drawn from a type grammar, and
//     declared slice / map / array / int types), all with methods Tag/Bump, so that each
//     of them (or its pointer) implements the interface Sh; a struct map-key type K;
//   * package-level roots r0..rm of drawn types, initialised by type-directed
//     constructors mk_<type>(k);
//   * type-directed, depth-bounded, side-effect-free printers dmp_<type>(v, d) and a
//     canonical Dump() that also prints an alias matrix (pointer equalities between
//     drawn address expressions: &location, pointer value stored at a location, &slice[0]);
//   * operations: each one navigates a drawn access path from a root (through struct
//     fields, array / slice elements, map entries, pointers) with guards that return
//     before anything is mutated, then applies a drawn terminal action to the target
//     (and possibly to a second navigated location of a matching type).
//
// Everything is a deterministic function of the draws. No package paths, addresses,
// object ids, time, banker, realm introspection or type names rendered by the VM are
// printed; only strconv is imported.

type shKind int

const (
	skInt shKind = iota
	skStr
	skStruct
	skArray
	skSlice
	skMap
	skPtr
	skIface
	skFunc
)

var shKindNames = []string{"int", "string", "struct", "array", "slice", "map", "pointer", "interface", "closure"}

type shField struct {
	name string
	t    *shType
}

type shType struct {
	kind    shKind
	id      string // identifier-safe unique name
	expr    string // Gno type expression
	decl    bool   // declared type (has methods)
	elem    *shType
	key     *shType
	n       int
	fields  []shField
	ptrRecv bool   // declared: Bump has a pointer receiver
	under   string // declared non-struct: underlying type expression
}

type shStepKind int

const (
	stField shStepKind = iota
	stArray
	stSlice
	stMap
	stDeref
)

type shStep struct {
	kind   shStepKind
	field  string
	idx    int
	useArg bool
	viv    bool    // in operations: create what is missing (nil pointer, empty slice, absent key) instead of returning
	from   *shType // type of the value the step is applied to
	to     *shType
}

type shLoc struct {
	root   int
	steps  []shStep
	t      *shType
	stable bool // its address may be kept (no step through a map entry copy)
}

type shRoot struct {
	name string
	t    *shType
	init int // -1: zero value; else mk_<t>(init)
}

type shOp struct {
	act    string // terminal action
	name   string // action and access paths
	src    string // body of func opK(a int, s string) string
	mut    bool   // may mutate state
	kinds  []string
	failer int // 0 ordinary; 1 panics before mutating; 2 runs another op then panics
}

type shGen struct {
	c      *kernel.Choices
	flat   bool // no struct / array directly (by value) inside a struct field or array element
	types  map[string]*shType
	order  []*shType
	decls  []*shType
	tInt   *shType
	tByte  *shType
	tStr   *shType
	tSh    *shType
	tFn    *shType
	tK     *shType
	impls  []*shType // dynamic types stored into Sh
	roots  []shRoot
	locs   []*shLoc
	ops    []*shOp
	adrs   []string // source of adr_i functions
	adrGrp map[string][]int
	cntGrp map[string][]int
	adrOrd []string
	nvar   int
}

func (g *shGen) intern(t *shType) *shType {
	if x, ok := g.types[t.expr]; ok {
		return x
	}
	g.types[t.expr] = t
	g.order = append(g.order, t)
	return t
}

func (g *shGen) ptrTo(e *shType) *shType {
	return g.intern(&shType{kind: skPtr, id: "p" + e.id, expr: "*" + e.expr, elem: e})
}

func (g *shGen) sliceOf(e *shType) *shType {
	return g.intern(&shType{kind: skSlice, id: "s" + e.id, expr: "[]" + e.expr, elem: e})
}

func (g *shGen) arrayOf(n int, e *shType) *shType {
	return g.intern(&shType{kind: skArray, id: fmt.Sprintf("a%d%s", n, e.id), expr: fmt.Sprintf("[%d]%s", n, e.expr), elem: e, n: n})
}

func (g *shGen) mapOf(k, e *shType) *shType {
	return g.intern(&shType{kind: skMap, id: "m" + k.id + "_" + e.id, expr: "map[" + k.expr + "]" + e.expr, key: k, elem: e})
}

// simple draws an element type. Declared types may be contained BY VALUE only when
// their index is < byVal (no infinite types); pointers may target any declared type.
// inner: the result sits directly (by value) inside a struct field or an array element;
// in flat mode such a position never holds a struct or an array.
func (g *shGen) simple(byVal int, inner bool) *shType {
	c := g.c
	for {
		switch c.Weighted([]int{4, 2, 3, 4, 2, 2, 1, 2}) {
		case 7:
			return g.ptrTo(g.tInt) // may point at an int field, an array or slice element, a root, a captured variable
		case 6:
			return g.tByte
		case 0:
			return g.tInt
		case 1:
			return g.tStr
		case 2:
			if byVal > 0 {
				t := g.decls[c.Intn(byVal)]
				if g.flat && inner && (t.kind == skStruct || t.kind == skArray) {
					continue
				}
				return t
			}
		case 3:
			return g.ptrTo(g.decls[c.Intn(len(g.decls))])
		case 4:
			return g.tSh
		case 5:
			return g.tFn
		}
	}
}

func (g *shGen) keyType() *shType {
	return []*shType{g.tStr, g.tInt, g.tK}[g.c.Intn(3)]
}

// fieldType draws the type of a struct field (i = index of the enclosing declared type)
// or of a root (i = len(decls), root = true).
func (g *shGen) fieldType(i int, root bool) *shType {
	c := g.c
	all := len(g.decls)
	switch c.Weighted([]int{5, 3, 2, 2, 1, 1, 1}) {
	case 5: // byte slices and arrays have a representation of their own in the VM
		if g.flat && !root || c.Bool() {
			return g.sliceOf(g.tByte)
		}
		return g.arrayOf(4, g.tByte)
	case 6:
		return g.sliceOf(g.sliceOf(g.tInt))
	case 0:
		return g.simple(i, !root)
	case 1:
		return g.sliceOf(g.simple(all, false))
	case 2:
		if g.flat && !root {
			return g.sliceOf(g.simple(all, false))
		}
		return g.arrayOf(2+c.Intn(2), g.simple(i, true))
	case 3:
		if c.Chance(1, 4) {
			return g.mapOf(g.keyType(), g.sliceOf(g.tInt))
		}
		return g.mapOf(g.keyType(), g.simple(all, false))
	default:
		return g.ptrTo(g.sliceOf(g.tInt)) // pointer to a slice header
	}
}

func newShGen(c *kernel.Choices, flat bool) *shGen {
	g := &shGen{c: c, flat: flat, types: map[string]*shType{}, adrGrp: map[string][]int{}, cntGrp: map[string][]int{}}
	g.tInt = g.intern(&shType{kind: skInt, id: "int", expr: "int"})
	g.tByte = g.intern(&shType{kind: skInt, id: "byte", expr: "byte"})
	g.tStr = g.intern(&shType{kind: skStr, id: "str", expr: "string"})
	g.tSh = g.intern(&shType{kind: skIface, id: "Sh", expr: "Sh"})
	g.tFn = g.intern(&shType{kind: skFunc, id: "fn", expr: "func(int) int"})
	g.tK = g.intern(&shType{kind: skStruct, id: "K", expr: "K", fields: []shField{{"A", g.tInt}, {"B", g.tStr}}})

	// declared types: placeholders first (pointers / slices may target later ones)
	nd := 2 + c.Intn(3)
	for i := 0; i < nd; i++ {
		nm := fmt.Sprintf("T%d", i)
		g.decls = append(g.decls, g.intern(&shType{kind: skStruct, id: nm, expr: nm, decl: true}))
	}
	for i, t := range g.decls {
		shape := 0
		if i > 0 {
			shape = c.Weighted([]int{6, 1, 1, 1, 1})
		}
		switch shape {
		case 0:
			t.kind = skStruct
			t.ptrRecv = !c.Chance(1, 4)
			t.fields = []shField{{"N", g.tInt}}
			nf := 1 + c.Intn(4)
			if i == 0 {
				nf = 4 + c.Intn(2)
			}
			for f := 0; f < nf; f++ {
				ft := g.fieldType(i, false)
				if i == 0 && f < 4 { // the first struct always has a pointer, a slice, a map/array and a closure/interface field
					all := len(g.decls)
					switch f {
					case 3:
						ft = []*shType{g.tFn, g.tSh, g.sliceOf(g.tFn), g.sliceOf(g.tSh), g.mapOf(g.keyType(), g.tFn), g.mapOf(g.keyType(), g.tSh)}[c.Intn(6)]
					case 0:
						ft = g.ptrTo(g.decls[c.Intn(all)])
					case 1:
						ft = g.sliceOf(g.simple(all, false))
					case 2:
						if c.Bool() || g.flat {
							ft = g.mapOf(g.keyType(), g.simple(all, false))
						} else {
							ft = g.arrayOf(2+c.Intn(2), g.simple(0, true))
						}
					}
				}
				t.fields = append(t.fields, shField{fmt.Sprintf("F%d", f+1), ft})
			}
		case 1:
			t.kind, t.elem, t.under = skSlice, g.tInt, "[]int"
		case 2:
			t.kind, t.key, t.elem, t.under = skMap, g.tStr, g.tInt, "map[string]int"
		case 3:
			t.kind, t.under, t.ptrRecv = skInt, "int", c.Bool()
		case 4:
			t.kind, t.elem, t.n, t.under, t.ptrRecv = skArray, g.tInt, 3, "[3]int", c.Bool()
		}
	}
	for _, t := range g.decls {
		if t.ptrRecv {
			g.impls = append(g.impls, g.ptrTo(t))
		} else {
			g.impls = append(g.impls, t)
			if t.kind == skStruct || c.Chance(1, 3) {
				g.impls = append(g.impls, g.ptrTo(t))
			}
		}
	}
	// roots
	nr := 3 + c.Intn(3)
	for i := 0; i < nr; i++ {
		var t *shType
		switch {
		case i == 0:
			t = g.decls[0] // always one struct root by value
		case i == 1:
			t = []*shType{g.ptrTo(g.decls[0]), g.sliceOf(g.decls[0]), g.sliceOf(g.ptrTo(g.decls[0])), g.mapOf(g.keyType(), g.ptrTo(g.decls[0])), g.sliceOf(g.tInt)}[c.Intn(5)]
		case c.Chance(1, 3):
			t = g.roots[1+c.Intn(i-1)].t // a twin of an earlier root: same type, so values can be shared between them
		case c.Chance(1, 4):
			t = g.decls[c.Intn(len(g.decls))]
		default:
			t = g.fieldType(len(g.decls), true)
		}
		init := -1
		if !c.Chance(1, 5) {
			init = 3 + c.Intn(2)
		}
		g.roots = append(g.roots, shRoot{name: fmt.Sprintf("r%d", i), t: t, init: init})
	}
	g.ptrTo(g.decls[0]) // mk_fn builds a method value of a fresh *T0
	return g
}

// ---- type-directed printers ------------------------------------------------------------

func (g *shGen) emitDmp(b *strings.Builder, t *shType) {
	fmt.Fprintf(b, "func dmp_%s(v %s, d int) string {\n", t.id, t.expr)
	tag := ""
	if t.decl && t.kind != skStruct {
		tag = t.id
	}
	switch t.kind {
	case skInt:
		if t.decl {
			fmt.Fprintf(b, "\treturn \"%s(\" + itoa(int(v)) + \")\"\n", t.id)
		} else {
			b.WriteString("\treturn itoa(int(v))\n")
		}
	case skStr:
		b.WriteString("\treturn \"'\" + v + \"'\"\n")
	case skStruct:
		b.WriteString("\tif d <= 0 {\n\t\treturn \"~\"\n\t}\n")
		fmt.Fprintf(b, "\tr := \"%s{\"\n", t.id)
		for i, f := range t.fields {
			sep := ""
			if i > 0 {
				sep = "\",\" + "
			}
			fmt.Fprintf(b, "\tr += %sdmp_%s(v.%s, d-1)\n", sep, f.t.id, f.name)
		}
		b.WriteString("\treturn r + \"}\"\n")
	case skArray:
		b.WriteString("\tif d <= 0 {\n\t\treturn \"~\"\n\t}\n")
		fmt.Fprintf(b, "\tr := \"%s[\"\n", tag)
		fmt.Fprintf(b, "\tfor i := 0; i < %d; i++ {\n\t\tif i > 0 {\n\t\t\tr += \",\"\n\t\t}\n\t\tr += dmp_%s(v[i], d-1)\n\t}\n", t.n, t.elem.id)
		b.WriteString("\treturn r + \"]\"\n")
	case skSlice:
		b.WriteString("\tif v == nil {\n\t\treturn \"nil\"\n\t}\n\tif d <= 0 {\n\t\treturn \"~\"\n\t}\n")
		fmt.Fprintf(b, "\tr := \"%s[\" + itoa(len(v)) + \"/\" + itoa(cap(v)) + \":\"\n", tag)
		b.WriteString("\tw := v[:cap(v)]\n")
		fmt.Fprintf(b, "\tfor i := 0; i < len(w); i++ {\n\t\tif i == len(v) {\n\t\t\tr += \"|\"\n\t\t} else if i > 0 {\n\t\t\tr += \",\"\n\t\t}\n\t\tr += dmp_%s(w[i], d-1)\n\t}\n", t.elem.id)
		b.WriteString("\treturn r + \"]\"\n")
	case skMap:
		b.WriteString("\tif v == nil {\n\t\treturn \"nil\"\n\t}\n\tif d <= 0 {\n\t\treturn \"~\"\n\t}\n")
		fmt.Fprintf(b, "\tr := \"%smap(\" + itoa(len(v)) + \")[\"\n", tag)
		fmt.Fprintf(b, "\tfor k, e := range v {\n\t\tr += dmp_%s(k, 2) + \"=\" + dmp_%s(e, d-1) + \";\"\n\t}\n", t.key.id, t.elem.id)
		b.WriteString("\treturn r + \"]\"\n")
	case skPtr:
		b.WriteString("\tif v == nil {\n\t\treturn \"nil\"\n\t}\n\tif d <= 0 {\n\t\treturn \"~\"\n\t}\n")
		fmt.Fprintf(b, "\treturn \"&\" + dmp_%s(*v, d-1)\n", t.elem.id)
	case skIface:
		b.WriteString("\tif v == nil {\n\t\treturn \"nil\"\n\t}\n\tif d <= 0 {\n\t\treturn \"~\"\n\t}\n")
		b.WriteString("\tswitch x := v.(type) {\n")
		for _, im := range g.shCases() {
			fmt.Fprintf(b, "\tcase %s:\n\t\treturn \"<\" + v.Tag() + \">\" + dmp_%s(x, d-1)\n", im.expr, im.id)
		}
		b.WriteString("\t}\n\treturn \"?\"\n")
	case skFunc:
		b.WriteString("\tif v == nil {\n\t\treturn \"nil\"\n\t}\n\treturn \"f(\" + itoa(v(0)) + \")\"\n")
	}
	b.WriteString("}\n\n")
}

// shCases lists every dynamic type a type switch on Sh may legally name.
func (g *shGen) shCases() []*shType {
	var out []*shType
	for _, t := range g.decls {
		if !t.ptrRecv {
			out = append(out, t)
		}
		out = append(out, g.ptrTo(t))
	}
	return out
}

// ---- type-directed constructors ----------------------------------------------------------

func (g *shGen) emitMk(b *strings.Builder, t *shType) {
	fmt.Fprintf(b, "func mk_%s(k int) %s {\n", t.id, t.expr)
	switch t.kind {
	case skInt:
		fmt.Fprintf(b, "\treturn %s(k*7 + 1)\n", t.expr)
	case skStr:
		b.WriteString("\treturn \"s\" + itoa(k)\n")
	case skStruct:
		fmt.Fprintf(b, "\tvar v %s\n", t.expr)
		for _, f := range t.fields {
			if t == g.tK {
				break
			}
			fmt.Fprintf(b, "\tv.%s = mk_%s(k - 1)\n", f.name, f.t.id)
		}
		if t == g.tK {
			b.WriteString("\tv.A = k % 2\n\tv.B = \"k\" + itoa(k%3)\n")
		}
		b.WriteString("\treturn v\n")
	case skArray:
		fmt.Fprintf(b, "\tvar v %s\n\tfor i := 0; i < %d; i++ {\n\t\tv[i] = mk_%s(k - 1 - i)\n\t}\n\treturn v\n", t.expr, t.n, t.elem.id)
	case skSlice:
		b.WriteString("\tif k <= 0 {\n\t\treturn nil\n\t}\n\tn := k % 3\n")
		fmt.Fprintf(b, "\tv := make(%s, n, n+(k+1)%%2)\n\tfor i := 0; i < n; i++ {\n\t\tv[i] = mk_%s(k - 1 - i)\n\t}\n\treturn v\n", t.expr, t.elem.id)
	case skMap:
		b.WriteString("\tif k <= 0 {\n\t\treturn nil\n\t}\n")
		fmt.Fprintf(b, "\tv := make(%s)\n\tfor i := 0; i < 1+k%%2; i++ {\n\t\tv[key_%s(k+i)] = mk_%s(k - 1 - i)\n\t}\n\treturn v\n", t.expr, t.key.id, t.elem.id)
	case skPtr:
		b.WriteString("\tif k <= 0 {\n\t\treturn nil\n\t}\n")
		if t.elem.kind == skStruct && t.elem.decl {
			// composite literal address every other time, a heap variable otherwise
			fmt.Fprintf(b, "\tif k%%2 == 0 {\n\t\tw := &%s{}\n\t\t*w = mk_%s(k - 1)\n\t\treturn w\n\t}\n", t.elem.expr, t.elem.id)
		}
		fmt.Fprintf(b, "\tv := mk_%s(k - 1)\n\treturn &v\n", t.elem.id)
	case skIface:
		b.WriteString("\tif k <= 0 {\n\t\treturn nil\n\t}\n")
		fmt.Fprintf(b, "\tswitch k %% %d {\n", len(g.impls))
		for i, im := range g.impls {
			fmt.Fprintf(b, "\tcase %d:\n\t\treturn mk_%s(k)\n", i, im.id)
		}
		b.WriteString("\t}\n\treturn nil\n")
	case skFunc:
		t0 := g.decls[0]
		b.WriteString("\tswitch k % 5 {\n")
		b.WriteString("\tcase 1:\n\t\tn := k\n\t\treturn func(d int) int {\n\t\t\tif d != 0 {\n\t\t\t\tn += d\n\t\t\t}\n\t\t\treturn n\n\t\t}\n")
		fmt.Fprintf(b, "\tcase 2:\n\t\tw := mk_p%s(k + 1)\n\t\treturn w.Bump\n", t0.id)
		b.WriteString("\tcase 3:\n\t\treturn twice\n")
		b.WriteString("\tcase 4:\n\t\treturn func(d int) int {\n\t\t\tif d != 0 {\n\t\t\t\tg0 += d\n\t\t\t}\n\t\t\treturn g0\n\t\t}\n")
		b.WriteString("\t}\n\treturn nil\n")
	}
	b.WriteString("}\n\n")
}

func (g *shGen) emitMethods(b *strings.Builder, t *shType) {
	recv := "v " + t.expr
	if t.ptrRecv {
		recv = "v *" + t.expr
	}
	fmt.Fprintf(b, "func (%s) Tag() string { return %q }\n\n", recv, t.id)
	fmt.Fprintf(b, "func (%s) Bump(d int) int {\n", recv)
	if t.ptrRecv {
		b.WriteString("\tif v == nil {\n\t\treturn -1\n\t}\n")
	}
	switch t.kind {
	case skStruct:
		b.WriteString("\tif d != 0 {\n\t\tv.N += d\n\t}\n\treturn v.N\n")
	case skSlice:
		b.WriteString("\tif len(v) == 0 {\n\t\treturn 0\n\t}\n\tif d != 0 {\n\t\tv[0] += d\n\t}\n\treturn v[0]\n")
	case skMap:
		b.WriteString("\tif v == nil {\n\t\treturn 0\n\t}\n\tif d != 0 {\n\t\tv[\"b\"] += d\n\t}\n\treturn v[\"b\"]\n")
	case skInt:
		if t.ptrRecv {
			fmt.Fprintf(b, "\tif d != 0 {\n\t\t*v += %s(d)\n\t}\n\treturn int(*v)\n", t.expr)
		} else {
			b.WriteString("\treturn int(v) + d\n")
		}
	case skArray:
		b.WriteString("\tif d != 0 {\n\t\tv[0] += d\n\t}\n\treturn v[0]\n")
	}
	b.WriteString("}\n\n")
}

// ---- access paths ------------------------------------------------------------------------------

func (g *shGen) walk(maxSteps int) *shLoc {
	c := g.c
	l := &shLoc{root: c.Intn(len(g.roots)), stable: true}
	t := g.roots[l.root].t
	for len(l.steps) < maxSteps {
		if len(l.steps) > 0 && c.Chance(1, 4) {
			break
		}
		st := shStep{from: t, viv: !c.Chance(1, 4)}
		switch t.kind {
		case skStruct:
			f := t.fields[c.Intn(len(t.fields))]
			st.kind, st.field, st.to = stField, f.name, f.t
		case skArray:
			st.kind, st.idx, st.to = stArray, c.Intn(t.n), t.elem
		case skSlice:
			st.kind, st.idx, st.useArg, st.to = stSlice, c.Intn(3), c.Chance(1, 3), t.elem
		case skMap:
			st.kind, st.idx, st.useArg, st.to = stMap, c.Intn(3), c.Chance(1, 3), t.elem
			l.stable = false
		case skPtr:
			st.kind, st.to = stDeref, t.elem
		default:
			l.t = t
			return l
		}
		l.steps = append(l.steps, st)
		t = st.to
		if st.kind == stDeref {
			l.stable = true // what a pointer points at has a stable address again
		}
	}
	l.t = t
	return l
}

func (l *shLoc) key() string {
	var sb strings.Builder
	fmt.Fprintf(&sb, "r%d", l.root)
	for _, s := range l.steps {
		switch s.kind {
		case stField:
			sb.WriteString("." + s.field)
		case stArray:
			fmt.Fprintf(&sb, "[%d]", s.idx)
		case stSlice, stMap:
			if s.useArg {
				fmt.Fprintf(&sb, "[a+%d]", s.idx)
			} else {
				fmt.Fprintf(&sb, "[%d]", s.idx)
			}
		case stDeref:
			sb.WriteString("^")
		}
	}
	return sb.String()
}

func (l *shLoc) kinds() []string {
	var out []string
	for _, s := range l.steps {
		out = append(out, shKindNames[s.from.kind])
	}
	return append(out, shKindNames[l.t.kind])
}

// emitNav writes the guarded navigation to l. fail(n) is the return statement used when
// step n cannot be taken. Returns the name of a variable of type *<l.t> and the
// write-back statements (map entries are copied out and must be stored back).
func (g *shGen) emitNav(b *strings.Builder, l *shLoc, pfx string, fail func(n int) string, viv bool) (string, []string) {
	g.nvar++
	pfx = fmt.Sprintf("%s%d_", pfx, g.nvar)
	cur := pfx + "0"
	fmt.Fprintf(b, "\t%s := &%s\n", cur, g.roots[l.root].name)
	var wbs []string
	for i, s := range l.steps {
		nxt := fmt.Sprintf("%s%d", pfx, i+1)
		v := viv && s.viv
		switch s.kind {
		case stField:
			fmt.Fprintf(b, "\t%s := &%s.%s\n", nxt, cur, s.field)
		case stArray:
			fmt.Fprintf(b, "\t%s := &(*%s)[%d]\n", nxt, cur, s.idx)
		case stSlice:
			ix := fmt.Sprintf("%d", s.idx)
			if s.useArg {
				ix = fmt.Sprintf("(a+%d)", s.idx)
			}
			if v {
				fmt.Fprintf(b, "\tif len(*%s) == 0 {\n\t\t*%s = append(*%s, mk_%s(2))\n\t}\n", cur, cur, cur, s.to.id)
			} else {
				fmt.Fprintf(b, "\tif len(*%s) == 0 {\n\t\t%s\n\t}\n", cur, fail(i))
			}
			fmt.Fprintf(b, "\t%s := &(*%s)[%s%%len(*%s)]\n", nxt, cur, ix, cur)
		case stMap:
			ix := fmt.Sprintf("%d", s.idx)
			if s.useArg {
				ix = fmt.Sprintf("a+%d", s.idx)
			}
			k, t, ok := nxt+"k", nxt+"t", nxt+"ok"
			if v {
				fmt.Fprintf(b, "\tif *%s == nil {\n\t\t*%s = make(%s)\n\t}\n", cur, cur, s.from.expr)
			}
			fmt.Fprintf(b, "\t%s := key_%s(%s)\n\t%s, %s := (*%s)[%s]\n", k, s.from.key.id, ix, t, ok, cur, k)
			if v {
				fmt.Fprintf(b, "\tif !%s {\n\t\t%s = mk_%s(2)\n\t}\n", ok, t, s.to.id)
			} else {
				fmt.Fprintf(b, "\tif !%s {\n\t\t%s\n\t}\n", ok, fail(i))
			}
			fmt.Fprintf(b, "\t%s := &%s\n", nxt, t)
			wbs = append([]string{fmt.Sprintf("if *%s != nil {\n\t\t(*%s)[%s] = %s\n\t}", cur, cur, k, t)}, wbs...)
		case stDeref:
			if v {
				fmt.Fprintf(b, "\tif *%s == nil {\n\t\t*%s = mk_%s(2)\n\t}\n", cur, cur, s.from.id)
			} else {
				fmt.Fprintf(b, "\tif *%s == nil {\n\t\t%s\n\t}\n", cur, fail(i))
			}
			fmt.Fprintf(b, "\t%s := *%s\n", nxt, cur)
		}
		cur = nxt
	}
	return cur, wbs
}

func failStr(tag string) func(int) string {
	return func(n int) string { return fmt.Sprintf("return \"%s%d\"", tag, n) }
}

func failNil(int) string { return "return nil" }

// locsOf returns the pool locations whose type is t (optionally only address-stable ones).
func (g *shGen) locsOf(t *shType, stable bool) []*shLoc {
	var out []*shLoc
	for _, l := range g.locs {
		if l.t == t && (!stable || l.stable) {
			out = append(out, l)
		}
	}
	return out
}

func (g *shGen) pickLoc(t *shType, stable bool, not *shLoc, preferElem bool) *shLoc {
	ls := g.locsOf(t, stable)
	if preferElem && g.c.Chance(2, 3) {
		var es []*shLoc
		for _, l := range ls {
			if n := len(l.steps); n > 0 && (l.steps[n-1].kind == stArray || l.steps[n-1].kind == stSlice) {
				es = append(es, l)
			}
		}
		if len(es) > 0 {
			ls = es
		}
	}
	if len(ls) == 0 {
		return nil
	}
	l := ls[g.c.Intn(len(ls))]
	if l == not && len(ls) > 1 {
		l = ls[(g.c.Intn(len(ls)-1)+1+indexOfLoc(ls, not))%len(ls)]
	}
	return l
}

func indexOfLoc(ls []*shLoc, l *shLoc) int {
	for i, x := range ls {
		if x == l {
			return i
		}
	}
	return 0
}

// ---- operations ------------------------------------------------------------------------------------

// action is one terminal action applicable to a target of some kind.
type shAction struct {
	name string
	// second: type of the second location needed (nil = none); stable2: its address is kept
	second  func(g *shGen, t *shType) *shType
	stable2 bool
	stable1 bool // the target's own address is kept
	elem2   bool // prefer a second location that is an array / slice element
	w       int  // drawing weight (0 = default)
	mut     bool
	body    func(g *shGen, t *shType, p, q string) string
}

func sameType(g *shGen, t *shType) *shType { return t }
func elemType(g *shGen, t *shType) *shType { return t.elem }
func intType(g *shGen, t *shType) *shType  { return g.tInt }
func fnType(g *shGen, t *shType) *shType   { return g.tFn }
func shType_(g *shGen, t *shType) *shType  { return g.tSh }

var arithOps = []string{
	"*P += a", "*P -= a", "*P *= 3", "*P /= a%4 + 1", "*P %= a%5 + 7", "*P &= a | 9", "*P |= a", "*P ^= a", "*P <<= 1", "*P >>= 1", "*P &^= a", "*P++", "*P--", "*P = *P*2 + a",
}

func (g *shGen) actionsFor(t *shType) []shAction {
	c := g.c
	acts := []shAction{
		{name: "read", body: func(g *shGen, t *shType, p, q string) string {
			return fmt.Sprintf("\tres = dmp_%s(*%s, 3)\n", t.id, p)
		}},
		{name: "set", mut: true, body: func(g *shGen, t *shType, p, q string) string {
			return fmt.Sprintf("\t*%s = mk_%s(a %% 4)\n\tres = \"set\"\n", p, t.id)
		}},
		{name: "zero", mut: true, body: func(g *shGen, t *shType, p, q string) string {
			return fmt.Sprintf("\tvar z %s\n\t*%s = z\n\tres = \"zero\"\n", t.expr, p)
		}},
		{name: "copy", mut: true, second: sameType, body: func(g *shGen, t *shType, p, q string) string {
			return fmt.Sprintf("\t*%s = *%s\n\tres = \"copy\"\n", p, q)
		}},
	}
	cast := func(x string) string {
		if t.expr != "int" {
			return t.expr + "(" + x + ")"
		}
		return x
	}
	if t.kind == skStruct || t.kind == skArray {
		// value semantics: a copy of a struct / array is independent of its source, nested arrays and structs included
		lvP, lt := g.valueLeaf(t, "(*P)", 0)
		acts = append(acts,
			shAction{name: "value-copy-then-write", mut: true, w: 8, second: sameType, body: func(g *shGen, t *shType, p, q string) string {
				return fmt.Sprintf("\t*%s = *%s\n\t%s = mk_%s(a %% 4)\n\tres = dmp_%s(*%s, 4) + \"/\" + dmp_%s(*%s, 4)\n", p, q, strings.ReplaceAll(lvP, "(*P)", "(*"+p+")"), lt.id, t.id, q, t.id, p)
			}},
			shAction{name: "local-copy-write", w: 8, body: func(g *shGen, t *shType, p, q string) string {
				return fmt.Sprintf("\tcv := *%s\n\t%s = mk_%s(a %% 4)\n\tres = dmp_%s(*%s, 4) + \"/\" + dmp_%s(cv, 4)\n", p, strings.ReplaceAll(lvP, "(*P)", "cv"), lt.id, t.id, p, t.id)
			}},
		)
	}
	switch t.kind {
	case skInt:
		op := arithOps[c.Intn(len(arithOps))]
		op = strings.ReplaceAll(op, "a", cast("a"))
		acts = append(acts, shAction{name: "arith", mut: true, body: func(g *shGen, t *shType, p, q string) string {
			return "\t" + strings.ReplaceAll(op, "*P", "*"+p) + fmt.Sprintf("\n\tres = itoa(int(*%s))\n", p)
		}})
		acts = append(acts, acts[len(acts)-1]) // weight
	case skStr:
		acts = append(acts, shAction{name: "concat", mut: true, body: func(g *shGen, t *shType, p, q string) string {
			return fmt.Sprintf("\tif len(*%s) > 8 {\n\t\t*%s = \"\"\n\t}\n\t*%s += s\n\tres = *%s\n", p, p, p, p)
		}})
	case skArray:
		i, j := c.Intn(t.n), c.Intn(t.n)
		acts = append(acts, shAction{name: "array-swap", mut: true, body: func(g *shGen, t *shType, p, q string) string {
			return fmt.Sprintf("\t(*%s)[%d], (*%s)[%d] = (*%s)[%d], (*%s)[%d]\n\tres = \"swap\"\n", p, i, p, j, p, j, p, i)
		}})
		acts = append(acts, shAction{name: "array-slice-of", mut: true, stable1: true, w: 8, second: func(g *shGen, t *shType) *shType { return g.sliceOf(t.elem) },
			body: func(g *shGen, t *shType, p, q string) string { // a slice whose backing array is a state array
				return fmt.Sprintf("\t*%s = (*%s)[%d:]\n\tres = itoa(len(*%s))\n", q, p, i, q)
			}})
		acts = append(acts, shAction{name: "array-range-write", mut: true, body: func(g *shGen, t *shType, p, q string) string {
			return fmt.Sprintf("\tfor i := range *%s {\n\t\t(*%s)[i] = mk_%s(a + i)\n\t}\n\tres = \"fill\"\n", p, p, t.elem.id)
		}})
	case skSlice:
		e := t.elem
		acts = append(acts,
			shAction{name: "append", mut: true, body: func(g *shGen, t *shType, p, q string) string {
				return fmt.Sprintf("\tif len(*%s) >= 5 {\n\t\t*%s = (*%s)[:2]\n\t}\n\t*%s = append(*%s, mk_%s(a%%3))\n\tres = itoa(len(*%s)) + \"/\" + itoa(cap(*%s))\n", p, p, p, p, p, e.id, p, p)
			}},
			shAction{name: "append2", mut: true, body: func(g *shGen, t *shType, p, q string) string {
				return fmt.Sprintf("\tif len(*%s) >= 5 {\n\t\t*%s = (*%s)[:1]\n\t}\n\t*%s = append(*%s, mk_%s(a%%3), mk_%s(a%%2+1))\n\tres = itoa(len(*%s)) + \"/\" + itoa(cap(*%s))\n", p, p, p, p, p, e.id, e.id, p, p)
			}},
			shAction{name: "reslice-lo", mut: true, body: func(g *shGen, t *shType, p, q string) string {
				return fmt.Sprintf("\tif len(*%s) == 0 {\n\t\treturn \"E\"\n\t}\n\t*%s = (*%s)[a%%len(*%s):]\n\tres = itoa(len(*%s)) + \"/\" + itoa(cap(*%s))\n", p, p, p, p, p, p)
			}},
			shAction{name: "reslice-cap", mut: true, body: func(g *shGen, t *shType, p, q string) string {
				return fmt.Sprintf("\t*%s = (*%s)[:cap(*%s)]\n\tres = itoa(len(*%s))\n", p, p, p, p)
			}},
			shAction{name: "reslice-0", mut: true, body: func(g *shGen, t *shType, p, q string) string {
				return fmt.Sprintf("\t*%s = (*%s)[:0]\n\tres = itoa(cap(*%s))\n", p, p, p)
			}},
			shAction{name: "reslice-3index", mut: true, body: func(g *shGen, t *shType, p, q string) string {
				return fmt.Sprintf("\tif *%s == nil {\n\t\treturn \"N\"\n\t}\n\tn := len(*%s)\n\t*%s = (*%s)[0:n:n]\n\tres = itoa(cap(*%s))\n", p, p, p, p, p)
			}},
			shAction{name: "slice-alias-from", mut: true, second: sameType, body: func(g *shGen, t *shType, p, q string) string {
				return fmt.Sprintf("\tn := cap(*%s)\n\tif n == 0 {\n\t\treturn \"E\"\n\t}\n\tlo := a %% n\n\thi := lo + (a/3)%%(n-lo+1)\n\t*%s = (*%s)[lo:hi]\n\tres = itoa(lo) + \":\" + itoa(hi)\n", q, p, q)
			}},
			shAction{name: "slice-copy", mut: true, second: sameType, body: func(g *shGen, t *shType, p, q string) string {
				return fmt.Sprintf("\tres = itoa(copy(*%s, *%s))\n", p, q)
			}},
			shAction{name: "slice-swap", mut: true, body: func(g *shGen, t *shType, p, q string) string {
				return fmt.Sprintf("\tn := len(*%s)\n\tif n < 2 {\n\t\treturn \"E\"\n\t}\n\t(*%s)[0], (*%s)[n-1] = (*%s)[n-1], (*%s)[0]\n\tres = \"swap\"\n", p, p, p, p, p)
			}},
			shAction{name: "append-through-prefix", mut: true, second: sameType, body: func(g *shGen, t *shType, p, q string) string {
				return fmt.Sprintf("\t*%s = append((*%s)[:len(*%s)/2], mk_%s(a%%3))\n\tres = itoa(len(*%s)) + \"/\" + itoa(cap(*%s))\n", q, p, p, e.id, q, q)
			}},
			shAction{name: "make", mut: true, body: func(g *shGen, t *shType, p, q string) string {
				return fmt.Sprintf("\t*%s = make(%s, a%%3, a%%3+2)\n\tres = \"make\"\n", p, t.expr)
			}},
			shAction{name: "range-write", mut: true, body: func(g *shGen, t *shType, p, q string) string {
				return fmt.Sprintf("\tfor i := range *%s {\n\t\t(*%s)[i] = mk_%s(a + i)\n\t}\n\tres = itoa(len(*%s))\n", p, p, e.id, p)
			}},
			shAction{name: "elem-addr-link", mut: true, w: 10, second: func(g *shGen, t *shType) *shType { return g.ptrTo(t.elem) },
				body: func(g *shGen, t *shType, p, q string) string { // pointer to a slice element
					return fmt.Sprintf("\tif len(*%s) == 0 {\n\t\treturn \"E\"\n\t}\n\t*%s = &(*%s)[a%%len(*%s)]\n\tres = \"link\"\n", p, q, p, p)
				}},
		)
	case skMap:
		e, k := t.elem, t.key
		acts = append(acts,
			shAction{name: "map-put", mut: true, body: func(g *shGen, t *shType, p, q string) string {
				return fmt.Sprintf("\tif *%s == nil {\n\t\t*%s = make(%s)\n\t}\n\t(*%s)[key_%s(a)] = mk_%s(a%%3)\n\tres = itoa(len(*%s))\n", p, p, t.expr, p, k.id, e.id, p)
			}},
			shAction{name: "map-delete", mut: true, body: func(g *shGen, t *shType, p, q string) string {
				return fmt.Sprintf("\tdelete(*%s, key_%s(a))\n\tres = itoa(len(*%s))\n", p, k.id, p)
			}},
			shAction{name: "map-get", body: func(g *shGen, t *shType, p, q string) string {
				return fmt.Sprintf("\te, ok := (*%s)[key_%s(a)]\n\tres = dmp_%s(e, 2) + btoa(ok)\n", p, k.id, e.id)
			}},
			shAction{name: "map-delete-reinsert", mut: true, body: func(g *shGen, t *shType, p, q string) string {
				return fmt.Sprintf("\te, ok := (*%s)[key_%s(a)]\n\tif !ok {\n\t\treturn \"K\"\n\t}\n\tdelete(*%s, key_%s(a))\n\t(*%s)[key_%s(a)] = e\n\tres = \"moved\"\n", p, k.id, p, k.id, p, k.id)
			}},
			shAction{name: "map-clear", mut: true, body: func(g *shGen, t *shType, p, q string) string {
				return fmt.Sprintf("\tfor k := range *%s {\n\t\tdelete(*%s, k)\n\t}\n\tres = itoa(len(*%s))\n", p, p, p)
			}},
		)
		if e == g.tInt {
			acts = append(acts,
				shAction{name: "map-entry-arith", mut: true, body: func(g *shGen, t *shType, p, q string) string {
					return fmt.Sprintf("\tif *%s == nil {\n\t\treturn \"N\"\n\t}\n\t(*%s)[key_%s(a)] += a + 1\n\t(*%s)[key_%s(a+1)]++\n\tres = itoa((*%s)[key_%s(a)])\n", p, p, k.id, p, k.id, p, k.id)
				}},
				shAction{name: "map-range-update", mut: true, body: func(g *shGen, t *shType, p, q string) string {
					return fmt.Sprintf("\tfor k, e := range *%s {\n\t\t(*%s)[k] = e + a\n\t}\n\tres = itoa(len(*%s))\n", p, p, p)
				}},
			)
		}
		if e.kind == skSlice && e.elem == g.tInt {
			acts = append(acts, shAction{name: "map-slice-append", mut: true, body: func(g *shGen, t *shType, p, q string) string {
				return fmt.Sprintf("\tif *%s == nil {\n\t\treturn \"N\"\n\t}\n\tk := key_%s(a)\n\tif len((*%s)[k]) >= 4 {\n\t\t(*%s)[k] = (*%s)[k][:1]\n\t}\n\t(*%s)[k] = append((*%s)[k], a)\n\tres = itoa(len((*%s)[k]))\n", p, k.id, p, p, p, p, p, p)
			}})
		}
	case skPtr:
		e := t.elem
		acts = append(acts,
			shAction{name: "ptr-new", mut: true, body: func(g *shGen, t *shType, p, q string) string {
				return fmt.Sprintf("\tv := mk_%s(a %% 3)\n\t*%s = &v\n\tres = \"new\"\n", e.id, p)
			}},
			shAction{name: "ptr-link", mut: true, second: elemType, stable2: true, elem2: true, w: 12, body: func(g *shGen, t *shType, p, q string) string {
				return fmt.Sprintf("\t*%s = %s\n\tres = \"link\"\n", p, q)
			}},
			shAction{name: "ptr-swap", mut: true, second: sameType, body: func(g *shGen, t *shType, p, q string) string {
				return fmt.Sprintf("\t*%s, *%s = *%s, *%s\n\tres = btoa(*%s == *%s)\n", p, q, q, p, p, q)
			}},
			shAction{name: "ptr-write-through", mut: true, body: func(g *shGen, t *shType, p, q string) string {
				return fmt.Sprintf("\tif *%s == nil {\n\t\treturn \"N\"\n\t}\n\t**%s = mk_%s(a %% 3)\n\tres = \"thru\"\n", p, p, e.id)
			}},
			shAction{name: "ptr-eq", second: sameType, body: func(g *shGen, t *shType, p, q string) string {
				return fmt.Sprintf("\tres = btoa(*%s == *%s) + btoa(*%s == nil)\n", p, q, p)
			}},
		)
	case skIface:
		im := g.impls[c.Intn(len(g.impls))]
		var pim *shType // an implementer that is a pointer to a declared type
		for _, x := range g.impls {
			if x.kind == skPtr {
				pim = x
				if c.Bool() {
					break
				}
			}
		}
		acts = append(acts,
			shAction{name: "iface-bump", mut: true, body: func(g *shGen, t *shType, p, q string) string {
				return fmt.Sprintf("\tif *%s == nil {\n\t\treturn \"N\"\n\t}\n\tres = (*%s).Tag() + itoa((*%s).Bump(a))\n", p, p, p)
			}},
			shAction{name: "iface-bump", mut: true, body: func(g *shGen, t *shType, p, q string) string {
				return fmt.Sprintf("\tif *%s == nil {\n\t\treturn \"N\"\n\t}\n\tres = (*%s).Tag() + itoa((*%s).Bump(a))\n", p, p, p)
			}},
			shAction{name: "iface-set-dynamic-type", mut: true, body: func(g *shGen, t *shType, p, q string) string {
				return fmt.Sprintf("\t*%s = mk_%s(a%%3 + 1)\n\tres = (*%s).Tag()\n", p, im.id, p)
			}},
		)
		if pim != nil {
			acts = append(acts,
				shAction{name: "iface-holds-state-address", mut: true, second: func(g *shGen, t *shType) *shType { return pim.elem }, stable2: true,
					body: func(g *shGen, t *shType, p, q string) string {
						return fmt.Sprintf("\t*%s = %s\n\tres = (*%s).Tag()\n", p, q, p)
					}},
				shAction{name: "iface-assert-write", mut: true, body: func(g *shGen, t *shType, p, q string) string {
					return fmt.Sprintf("\tx, ok := (*%s).(%s)\n\tif !ok || x == nil {\n\t\treturn \"X\"\n\t}\n\tres = itoa(x.Bump(a + 1))\n", p, pim.expr)
				}},
			)
		}
	case skFunc:
		t0 := g.decls[0]
		acts = append(acts,
			shAction{name: "closure-call", mut: true, body: func(g *shGen, t *shType, p, q string) string {
				return fmt.Sprintf("\tif *%s == nil {\n\t\treturn \"N\"\n\t}\n\tres = itoa((*%s)(a + 1))\n", p, p)
			}},
			shAction{name: "closure-call", mut: true, body: func(g *shGen, t *shType, p, q string) string {
				return fmt.Sprintf("\tif *%s == nil {\n\t\treturn \"N\"\n\t}\n\tres = itoa((*%s)(a + 1))\n", p, p)
			}},
			shAction{name: "closure-captures-state-pointer", mut: true, second: intType, stable2: true, body: func(g *shGen, t *shType, p, q string) string {
				return fmt.Sprintf("\tcq := %s\n\t*%s = func(d int) int {\n\t\tif d != 0 {\n\t\t\t*cq += d\n\t\t}\n\t\treturn *cq\n\t}\n\tres = \"cap\"\n", q, p)
			}},
			shAction{name: "closure-pair-shares-variable", mut: true, second: fnType, body: func(g *shGen, t *shType, p, q string) string {
				return fmt.Sprintf("\tn := a\n\t*%s = func(d int) int {\n\t\tif d != 0 {\n\t\t\tn += d\n\t\t}\n\t\treturn n\n\t}\n\t*%s = func(d int) int {\n\t\tif d != 0 {\n\t\t\tn -= d\n\t\t}\n\t\treturn n\n\t}\n\tres = \"pair\"\n", p, q)
			}},
			shAction{name: "closure-and-pointer-share-local", mut: true, second: func(g *shGen, t *shType) *shType { return g.ptrTo(g.tInt) }, body: func(g *shGen, t *shType, p, q string) string {
				return fmt.Sprintf("\tn := a * 3\n\t*%s = func(d int) int {\n\t\tif d != 0 {\n\t\t\tn += d\n\t\t}\n\t\treturn n\n\t}\n\t*%s = &n\n\tres = \"shl\"\n", p, q)
			}},
			shAction{name: "method-value-of-state", mut: true, second: func(g *shGen, t *shType) *shType { return t0 }, stable2: true, body: func(g *shGen, t *shType, p, q string) string {
				return fmt.Sprintf("\t*%s = %s.Bump\n\tres = \"mv\"\n", p, q)
			}},
			shAction{name: "method-value-of-interface", mut: true, second: shType_, body: func(g *shGen, t *shType, p, q string) string {
				return fmt.Sprintf("\tif *%s == nil {\n\t\treturn \"N\"\n\t}\n\t*%s = (*%s).Bump\n\tres = \"imv\"\n", q, p, q)
			}},
			shAction{name: "closure-loopvar", mut: true, body: func(g *shGen, t *shType, p, q string) string {
				return fmt.Sprintf("\tvar fs []func(int) int\n\tfor i := 0; i < 3; i++ {\n\t\tfs = append(fs, func(d int) int {\n\t\t\tif d != 0 {\n\t\t\t\ti += d\n\t\t\t}\n\t\t\treturn i\n\t\t})\n\t}\n\t*%s = fs[a%%3]\n\tres = itoa(fs[(a+1)%%3](2))\n", p)
			}},
			shAction{name: "closure-nested", mut: true, body: func(g *shGen, t *shType, p, q string) string {
				return fmt.Sprintf("\tn := a\n\tmk := func(m int) func(int) int {\n\t\treturn func(d int) int {\n\t\t\tif d != 0 {\n\t\t\t\tn += d * m\n\t\t\t}\n\t\t\treturn n*10 + m\n\t\t}\n\t}\n\t*%s = mk(a%%3 + 1)\n\tres = \"nest\"\n", p)
			}},
		)
	}
	if t.decl {
		acts = append(acts, shAction{name: "method-bump", mut: true, body: func(g *shGen, t *shType, p, q string) string {
			return fmt.Sprintf("\tres = %s.Tag() + itoa(%s.Bump(a))\n", p, p)
		}})
	}
	return acts
}

var shLocWeight = []int{skInt: 2, skStr: 1, skStruct: 2, skArray: 3, skSlice: 6, skMap: 5, skPtr: 6, skIface: 4, skFunc: 4}

// drawLoc picks a pool location, reference kinds more often than leaves.
func (g *shGen) drawLoc() *shLoc {
	w := make([]int, len(g.locs))
	for i, l := range g.locs {
		w[i] = shLocWeight[l.t.kind]
	}
	return g.locs[g.c.Weighted(w)]
}

// valueLeaf draws an lvalue inside the value x of type t that is reached WITHOUT leaving the
// value (no pointer, slice or map is followed), going through nested arrays / structs first.
func (g *shGen) valueLeaf(t *shType, x string, depth int) (string, *shType) {
	c := g.c
	switch t.kind {
	case skStruct:
		if depth < 3 {
			for _, f := range t.fields {
				if f.t.kind == skStruct || f.t.kind == skArray {
					return g.valueLeaf(f.t, x+"."+f.name, depth+1)
				}
			}
		}
		f := t.fields[c.Intn(len(t.fields))]
		return x + "." + f.name, f.t
	case skArray:
		i := c.Intn(t.n)
		ex := fmt.Sprintf("%s[%d]", x, i)
		if depth < 3 && (t.elem.kind == skStruct || t.elem.kind == skArray) {
			return g.valueLeaf(t.elem, ex, depth+1)
		}
		return ex, t.elem
	}
	return x, t
}

func (g *shGen) genOp() *shOp {
	c := g.c
	for try := 0; try < 50; try++ {
		l := g.drawLoc()
		acts := g.actionsFor(l.t)
		// bias away from the generic first four
		var w []int
		for i := range acts {
			switch {
			case acts[i].w > 0:
				w = append(w, acts[i].w)
			case i < 4:
				w = append(w, []int{1, 2, 1, 3}[i]) // read, set, zero, copy
			default:
				w = append(w, 5)
			}
		}
		act := acts[c.Weighted(w)]
		if act.stable1 && !l.stable {
			continue
		}
		var l2 *shLoc
		if act.second != nil {
			l2 = g.pickLoc(act.second(g, l.t), act.stable2, l, act.elem2)
			if l2 == nil {
				continue
			}
		}
		var b strings.Builder
		b.WriteString("\tres := \"\"\n")
		p, wb := g.emitNav(&b, l, "p", failStr("P"), true)
		q := ""
		var wb2 []string
		if l2 != nil {
			q, wb2 = g.emitNav(&b, l2, "q", failStr("Q"), true)
		}
		// the action body may `return` early: only before it mutated anything
		b.WriteString(act.body(g, l.t, p, q))
		for _, s := range wb2 {
			b.WriteString("\t" + s + "\n")
		}
		for _, s := range wb {
			b.WriteString("\t" + s + "\n")
		}
		name := act.name
		if act.mut && c.Chance(1, 3) {
			// read the whole state back inside the same message (aliases of what was just written included)
			b.WriteString("\tres += \"|\" + Dump()\n")
			name += "+dump"
		}
		b.WriteString("\t_ = s\n\treturn res\n")
		op := &shOp{act: act.name, name: name, src: b.String(), mut: act.mut, kinds: l.kinds()}
		if l2 != nil {
			op.kinds = append(op.kinds, l2.kinds()...)
		}
		op.name += " @" + l.key()
		if l2 != nil {
			op.name += " , " + l2.key()
		}
		return op
	}
	return &shOp{act: "noop", name: "noop", src: "\t_ = s\n\treturn itoa(a)\n"}
}

// ---- alias matrix ----------------------------------------------------------------------------------------

func (g *shGen) genAdrs() {
	c := g.c
	// candidate element types: those some pool location points at
	var elems []*shType
	seenE := map[string]bool{}
	for _, l := range g.locs {
		if l.t.kind == skPtr && !seenE[l.t.elem.expr] {
			seenE[l.t.elem.expr] = true
			elems = append(elems, l.t.elem)
		}
	}
	ngrp := 0
	for len(elems) > 0 && ngrp < 3 {
		k := c.Intn(len(elems))
		e := elems[k]
		elems = append(elems[:k], elems[k+1:]...)
		type cand struct {
			l    *shLoc
			mode int
		}
		var cs, cont []cand
		for _, l := range g.locs {
			switch {
			case l.t.kind == skPtr && l.t.elem == e:
				cs = append(cs, cand{l, 1}) // the pointer value stored at l
			case (l.t.kind == skSlice || l.t.kind == skArray) && l.t.elem == e:
				cont = append(cont, cand{l, 2}) // a container whose elements a pointer may point at
			case l.t == e && l.stable:
				cs = append(cs, cand{l, 0}) // &location
			}
		}
		if len(cs) < 2 && len(cont) == 0 {
			continue
		}
		for len(cs) > 6 {
			k := c.Intn(len(cs))
			cs = append(cs[:k], cs[k+1:]...)
		}
		for len(cont) > 3 {
			k := c.Intn(len(cont))
			cont = append(cont[:k], cont[k+1:]...)
		}
		ngrp++
		g.adrOrd = append(g.adrOrd, e.expr)
		for _, cd := range cs {
			var b strings.Builder
			idx := len(g.adrs)
			fmt.Fprintf(&b, "func adr_%d() *%s {\n\ta := 0\n\t_ = a\n", idx, e.expr)
			p, _ := g.emitNav(&b, cd.l, "p", failNil, false)
			if cd.mode == 0 {
				fmt.Fprintf(&b, "\treturn %s\n", p)
			} else {
				fmt.Fprintf(&b, "\treturn *%s\n", p)
			}
			b.WriteString("}\n\n")
			g.adrs = append(g.adrs, b.String())
			g.adrGrp[e.expr] = append(g.adrGrp[e.expr], idx)
		}
		for _, cd := range cont {
			// cnt_j(p): index of the element of the container that p points at (-1 none, -2 container unreachable)
			var b strings.Builder
			idx := len(g.adrs)
			fmt.Fprintf(&b, "func cnt_%d(x *%s) int {\n\ta := 0\n\t_ = a\n", idx, e.expr)
			p, _ := g.emitNav(&b, cd.l, "p", func(int) string { return "return -2" }, false)
			fmt.Fprintf(&b, "\tfor i := range *%s {\n\t\tif x == &(*%s)[i] {\n\t\t\treturn i\n\t\t}\n\t}\n\treturn -1\n}\n\n", p, p)
			g.adrs = append(g.adrs, b.String())
			g.cntGrp[e.expr] = append(g.cntGrp[e.expr], idx)
		}
	}
}

// ---- whole program ------------------------------------------------------------------------------------------

type shProgram struct {
	body  string // shared by both packages
	ops   []*shOp
	nops  int // ordinary ops (failers follow)
	kinds map[string]int
}

func genShape(c *kernel.Choices, flat bool) *shProgram {
	g := newShGen(c, flat)
	// location pool: every root plus random walks
	seen := map[string]bool{}
	for i := range g.roots {
		l := &shLoc{root: i, t: g.roots[i].t, stable: true}
		g.locs = append(g.locs, l)
		seen[l.key()] = true
	}
	nw := 24 + c.Intn(24)
	for i := 0; i < nw; i++ {
		l := g.walk(1 + c.Intn(5))
		if !seen[l.key()] {
			seen[l.key()] = true
			g.locs = append(g.locs, l)
		}
	}
	nops := 6 + c.Intn(9)
	for i := 0; i < nops; i++ {
		g.ops = append(g.ops, g.genOp())
	}
	g.genAdrs()
	// make sure helper types used by actions exist before emission (interning is append-only)
	pr := &shProgram{ops: g.ops, nops: nops, kinds: map[string]int{}}
	// failers: one that panics at once, one that runs a drawn mutating op first
	pr.ops = append(pr.ops, &shOp{act: "panic", name: "panic-before-mutating", failer: 1, src: "\t_ = s\n\tif a >= 0 {\n\t\tpanic(\"boom\" + itoa(a))\n\t}\n\treturn \"\"\n"})
	victim := c.Intn(nops)
	for i := 0; i < nops; i++ {
		if g.ops[(victim+i)%nops].mut {
			victim = (victim + i) % nops
			break
		}
	}
	pr.ops = append(pr.ops, &shOp{act: "panic", name: fmt.Sprintf("mutate-then-panic via op%d", victim), failer: 2,
		src: fmt.Sprintf("\tr := op%d(a, s)\n\tg0 += 1000\n\tif a >= 0 {\n\t\tpanic(\"late\" + r)\n\t}\n\treturn r\n", victim)})

	var b strings.Builder
	b.WriteString("import \"strconv\"\n\n")
	b.WriteString("type Sh interface {\n\tTag() string\n\tBump(d int) int\n}\n\n")
	b.WriteString("type K struct {\n\tA int\n\tB string\n}\n\n")
	for _, t := range g.decls {
		if t.kind == skStruct {
			fmt.Fprintf(&b, "type %s struct {\n", t.expr)
			for _, f := range t.fields {
				fmt.Fprintf(&b, "\t%s %s\n", f.name, f.t.expr)
			}
			b.WriteString("}\n\n")
		} else {
			fmt.Fprintf(&b, "type %s %s\n\n", t.expr, t.under)
		}
		g.emitMethods(&b, t)
	}
	b.WriteString("var g0 int\n\n")
	for _, r := range g.roots {
		if r.init < 0 {
			fmt.Fprintf(&b, "var %s %s\n", r.name, r.t.expr)
		} else {
			fmt.Fprintf(&b, "var %s %s = mk_%s(%d)\n", r.name, r.t.expr, r.t.id, r.init)
		}
	}
	b.WriteString("\nfunc itoa(i int) string { return strconv.Itoa(i) }\n\n")
	b.WriteString("func btoa(x bool) string {\n\tif x {\n\t\treturn \"T\"\n\t}\n\treturn \"F\"\n}\n\n")
	b.WriteString("func twice(d int) int { return d * 2 }\n\n")
	b.WriteString("func key_int(k int) int { return k % 4 }\n\n")
	b.WriteString("func key_str(k int) string { return \"k\" + itoa(k%4) }\n\n")
	b.WriteString("func key_K(k int) K { return K{k % 2, \"k\" + itoa(k%3)} }\n\n")
	for i := 0; i < len(g.order); i++ { // order may grow while emitting? (it does not: all types are interned by now)
		t := g.order[i]
		g.emitDmp(&b, t)
		g.emitMk(&b, t)
	}
	for _, s := range g.adrs {
		b.WriteString(s)
	}
	// Dump
	b.WriteString("func Dump() string {\n\tr := \"g0=\" + itoa(g0)\n")
	for _, r := range g.roots {
		fmt.Fprintf(&b, "\tr += \" %s=\" + dmp_%s(%s, 6)\n", r.name, r.t.id, r.name)
	}
	for _, e := range g.adrOrd {
		ids, cnts := g.adrGrp[e], g.cntGrp[e]
		fmt.Fprintf(&b, "\tr += \" eq<\"\n")
		for i := 0; i < len(ids); i++ {
			fmt.Fprintf(&b, "\tr += btoa(adr_%d() == nil)\n", ids[i])
			for j := i + 1; j < len(ids); j++ {
				fmt.Fprintf(&b, "\tr += btoa(adr_%d() == adr_%d())\n", ids[i], ids[j])
			}
			for _, j := range cnts {
				fmt.Fprintf(&b, "\tr += itoa(cnt_%d(adr_%d()))\n", j, ids[i])
			}
		}
		fmt.Fprintf(&b, "\tr += \">\"\n")
	}
	b.WriteString("\treturn r\n}\n\n")
	for i, op := range pr.ops {
		fmt.Fprintf(&b, "// op%d: %s\nfunc op%d(a int, s string) string {\n%s}\n\n", i, op.name, i, op.src)
		for _, k := range op.kinds {
			pr.kinds[k]++
		}
	}
	pr.body = b.String()
	return pr
}

func (p *shProgram) realmSource(name string) string {
	var b strings.Builder
	fmt.Fprintf(&b, "package %s\n\n%s", name, p.body)
	for i := range p.ops {
		fmt.Fprintf(&b, "func Op%d(cur realm, a int, s string) string { return op%d(a, s) }\n\n", i, i)
	}
	return b.String()
}

type shCall struct {
	prog int
	op   int
	a    int
	s    string
}

func (p *shProgram) scriptSource(calls []shCall) string {
	var b strings.Builder
	fmt.Fprintf(&b, "package main\n\n%s", p.body)
	b.WriteString("func main() {\n\tprintln(\"@D|\" + Dump())\n")
	for _, cl := range calls {
		fmt.Fprintf(&b, "\tprintln(\"@R|\" + op%d(%d, %q))\n\tprintln(\"@D|\" + Dump())\n", cl.op, cl.a, cl.s)
	}
	b.WriteString("}\n")
	return b.String()
}
