package chain

import (
	"os"
	"testing"

	"verif/sim/kernel"
)

func TestSim(t *testing.T) {
	if os.Getenv("VERIF_PROP") == "" {
		t.Skip("driven by /verif/check")
	}
	code := kernel.Main("chain", engines)
	if code != 0 {
		os.Exit(code)
	}
}
