package chain

import (
	"fmt"
	"sort"
	"strings"
	"time"

	"github.com/gnolang/gno/gno.land/pkg/sdk/vm"
	"github.com/gnolang/gno/gnovm/pkg/gnolang"
	"github.com/gnolang/gno/tm2/pkg/std"

	"verif/sim/kernel"
)

// C12: a registry model — the first successful PUBLIC deployment of a path wins
// for ever — against histories of add-package messages with colliding paths,
// private/public redeploys, test-only file sets, path variants and wrong
// domains, with restarts between blocks. After every block and every restart the
// source returned by vm/qfile for every registered path must equal what was
// deployed; /p/ package state cannot be mutated after initialisation.

type regEntry struct {
	files   map[string]string // name -> body (without gnomod.toml)
	private bool
	creator string
	height  int64
}

type pkgWorld struct {
	*world
	reg     map[string]*regEntry
	marker  int
	pCount  map[string]int // /p/ package path -> expected value of its Counter variable
	wrapTodo []string      // names nm whose gno.land/p/sim/<nm>/internal/core exists and whose wrapper gno.land/p/sim/<nm> does not yet
	targets  []pokeTarget  // (importable /p/ package, function that mutates /p/ state)
	pokers   []string      // deployed realms with a crossing Poke() that mutates /p/ state when CALLED (their init does not)
}

type pokeTarget struct{ path, fn string }

func (w *pkgWorld) src(name string, private bool) map[string]string {
	w.marker++
	files := map[string]string{
		name + ".gno": fmt.Sprintf("package %s\n\n// marker %d\nvar Counter = %d\n\nfunc Inc() int { Counter++; return Counter }\n\nfunc Marker() int { return %d }\n\n// state behind a pointer receiver: a method call borrows the storage realm of its receiver\ntype Ctr struct{ n int }\n\nvar C = &Ctr{n: %d}\n\nfunc (c *Ctr) Inc() int { c.n++; return c.n }\n\nfunc Bump() int { return C.Inc() }\n\nfunc CN() int { return C.n }\n", name, w.marker, w.marker, w.marker, w.marker),
	}
	if w.c.Intn(3) == 0 {
		files[name+"_test.gno"] = fmt.Sprintf("package %s\n\nimport \"testing\"\n\nfunc TestMarker(t *testing.T) { if Marker() != %d { t.Fail() } }\n", name, w.marker)
	}
	if w.c.Intn(4) == 0 {
		files["extra.gno"] = fmt.Sprintf("package %s\n\nconst Extra = %d\n", name, w.marker)
	}
	return files
}

func gnomodFor(path string, private bool) string {
	s := gnolang.GenGnoModLatest(path)
	if private {
		s = strings.TrimRight(s, "\n") + "\nprivate = true\n"
	}
	return s
}

func (w *pkgWorld) deployTx(signer, path string, files map[string]string, private bool) *simTx {
	a := w.acts[signer]
	fs := map[string]string{}
	for k, v := range files {
		fs[k] = v
	}
	fs["gnomod.toml"] = gnomodFor(path, private)
	mp := memPkg(path, fs)
	msg := vm.MsgAddPackage{Creator: a.addr, Package: mp}
	tx := std.Tx{Msgs: []std.Msg{msg}, Fee: std.NewFee(200_000_000, std.NewCoin("ugnot", 1_000_000))}
	signTx(&tx, []*actor{a}, false)
	return &simTx{signer: signer, bytes: encTx(tx), gas: 200_000_000, fee: 1_000_000}
}

func (w *pkgWorld) checkRegistry(n *node, when string) {
	paths := make([]string, 0, len(w.reg))
	for p := range w.reg {
		paths = append(paths, p)
	}
	sort.Strings(paths)
	for _, p := range paths {
		e := w.reg[p]
		r := n.query("vm/qfile", []byte(p))
		if r.Error != nil {
			w.fail("C12", "deployed-package-unavailable", "%s: qfile(%s): %v %s", when, p, r.Error, clip(r.Log, 300))
			return
		}
		got := strings.Split(string(r.Data), "\n")
		sort.Strings(got)
		var want []string
		for f := range e.files {
			want = append(want, f)
		}
		want = append(want, "gnomod.toml")
		sort.Strings(want)
		if strings.Join(got, ",") != strings.Join(want, ",") {
			w.fail("C12", "file-list-changed", "%s: %s lists files %v, deployed %v", when, p, got, want)
			return
		}
		for _, f := range want {
			fr := n.query("vm/qfile", []byte(p+"/"+f))
			if fr.Error != nil {
				w.fail("C12", "deployed-file-unavailable", "%s: qfile(%s/%s): %v", when, p, f, fr.Error)
				return
			}
			if f == "gnomod.toml" {
				body := string(fr.Data)
				if !strings.Contains(body, e.creator) || (e.height > 0 && !strings.Contains(body, fmt.Sprintf("height = %d", e.height))) || !strings.Contains(body, p) {
					w.fail("C12", "deploy-metadata-changed", "%s: %s/gnomod.toml no longer records module %s creator %s height %d:\n%s", when, p, p, e.creator, e.height, body)
					return
				}
				if e.private != strings.Contains(body, "private = true") {
					w.fail("C12", "deploy-metadata-changed", "%s: %s/gnomod.toml private flag changed (registered private=%v):\n%s", when, p, e.private, body)
					return
				}
				continue
			}
			if string(fr.Data) != e.files[f] {
				w.fail("C12", "source-changed", "%s: source of %s/%s differs from what was deployed at height %d:\n--- served\n%s\n--- deployed\n%s", when, p, f, e.height, clip(string(fr.Data), 400), clip(e.files[f], 400))
				return
			}
		}
		w.r.Probe("registry_entries_verified")
	}
	// /p/ package state is frozen after initialisation
	for _, p := range kernel.SortedKeys(w.pCount) {
		v, err := n.qeval(p, "Counter")
		want := fmt.Sprintf("(%d int)", w.pCount[p])
		if err != nil || v != want {
			w.fail("C12", "p-package-state-mutated", "%s: %s.Counter = %s (err %v), initialised to %s", when, p, v, err, want)
			return
		}
		if v, err = n.qeval(p, "CN()"); err != nil || v != want {
			w.fail("C12", "p-package-state-mutated", "%s: %s.C.n = %s (err %v), initialised to %s", when, p, v, err, want)
			return
		}
	}
}

func runPackages(c *kernel.Choices, p kernel.Params) *kernel.Result {
	base := &world{c: c, r: kernel.NewResult(), p: p, prop: "C12", emptyKeys: map[string]bool{}, dynPkgs: map[string]bool{}, knownSeen: map[string]bool{}}
	w := &pkgWorld{world: base, reg: map[string]*regEntry{}, pCount: map[string]int{}}
	w.img = baseImage(3_000_000_000)
	w.acts = newActors()
	w.bal = map[string]int64{}
	w.height = 1
	w.now = genesisTime.Add(time.Second)
	w.ref = w.openNode("ref")
	defer func() { w.ref.app.Close() }()
	au, err := newAuditor(w.ref.disk, 1)
	if err != nil {
		kernel.Harnessf("auditor: %v", err)
	}
	for nm, a := range w.acts {
		if seq, num, bal, ok := au.account(a.addr); ok {
			w.bal[nm], a.seq, a.num = bal, seq, num
		}
	}
	// the genesis box realm is a registered public package too
	boxFiles := map[string]string{}
	for _, f := range readRealm(gnoDir("box"), boxPath).Files {
		if f.Name != "gnomod.toml" {
			boxFiles[f.Name] = f.Body
		}
	}
	w.reg[boxPath] = &regEntry{files: boxFiles, creator: w.acts["alice"].addr.String(), height: 0}
	w.pCount[libPath] = -1 // registered below without a Counter variable
	delete(w.pCount, libPath)

	nblocks := 4 + c.Intn(8)
	var names []string
	// half of the runs start with a scripted chain (internal /p/ package, its wrapper, two realms that can poke them,
	// then the pokes), the rarest path of the random mix; the remaining steps are drawn as usual
	var script []string
	if c.Bool() {
		script = []string{"pint", "pwrap", "poker-inner", "poker", "poke", "poke", "poke"}
	}
	c.Event("packages run: %d blocks", nblocks)
	for bi := 0; bi < nblocks && !w.stop; bi++ {
		w.height++
		w.now = w.now.Add(5 * time.Second)
		b := blockSpec{Height: w.height, Time: w.now}
		w.ref.beginBlock(b)
		ntx := 1 + c.Intn(3)
		for i := 0; i < ntx && !w.stop; i++ {
			signer := []string{"alice", "bob", "carol"}[c.Intn(3)]
			kind := c.Weighted([]int{4, 3, 2, 2, 2, 2, 2, 2, 2, 3})
			step := ""
			if len(script) > 0 {
				step, script = script[0], script[1:]
				kind = map[string]int{"pint": 0, "pwrap": 0, "poker-inner": 8, "poker": 8, "poke": 9}[step]
			}
			wrapOf := ""
			var newTargets []pokeTarget
			pokerDeploy := false
			var t *simTx
			var path string
			var files map[string]string
			private := false
			expect := "" // "ok", "fail", "" = either
			desc := ""
			fresh := func(prefix string) (string, string) {
				nm := fmt.Sprintf("pk%d", len(names))
				names = append(names, nm)
				return prefix + nm, nm
			}
			existing := func(pred func(*regEntry) bool) string {
				var cands []string
				for pth, e := range w.reg {
					if pred(e) && pth != boxPath {
						cands = append(cands, pth)
					}
				}
				sort.Strings(cands)
				if len(cands) == 0 {
					return ""
				}
				return cands[c.Intn(len(cands))]
			}
			base := func(pth string) string { return pth[strings.LastIndexByte(pth, '/')+1:] }
			switch kind {
			case 0: // fresh public realm or /p/ package
				prefix := "gno.land/r/sim/"
				if c.Intn(3) == 0 || step != "" {
					prefix = "gno.land/p/sim/"
				}
				var nm string
				if prefix == "gno.land/p/sim/" && len(w.wrapTodo) > 0 && (c.Bool() || step == "pwrap") {
					// the importable wrapper of an internal /p/ package deployed earlier
					nm = w.wrapTodo[0]
					path = prefix + nm
					files = w.src(nm, false)
					files["wrap.gno"] = fmt.Sprintf("package %s\n\nimport core \"gno.land/p/sim/%s/internal/core\"\n\nfunc IncInner() int { return core.Inc() }\n\nfunc BumpInner() int { return core.Bump() }\n\nfunc Inner() int { return core.Counter }\n", nm, nm)
					wrapOf = nm
					newTargets = []pokeTarget{{path, "Inc"}, {path, "Bump"}, {path, "IncInner"}, {path, "BumpInner"}}
					expect, desc = "ok", "wrapper of an internal /p/ package"
					break
				}
				path, nm = fresh(prefix)
				files = w.src(nm, false)
				expect, desc = "ok", "fresh public deploy"
				if prefix == "gno.land/p/sim/" {
					if c.Intn(3) == 0 || step == "pint" { // a /p/ package below an internal/ path element (importable only from gno.land/p/sim/<nm>/...)
						path = prefix + nm + "/internal/core"
						files = w.src("core", false)
						wrapOf = "+" + nm
						desc = "fresh /p/ package under internal/"
					} else {
						newTargets = []pokeTarget{{path, "Inc"}, {path, "Bump"}}
					}
				}
			case 1: // colliding public path
				path = existing(func(e *regEntry) bool { return !e.private })
				if path == "" {
					path = boxPath
				}
				files = w.src(base(path), false)
				private = c.Intn(4) == 0 // also: private over public
				expect, desc = "fail", "redeploy over a public package"
			case 2: // fresh private realm
				var nm string
				path, nm = fresh("gno.land/r/sim/")
				files = w.src(nm, true)
				private = true
				expect, desc = "ok", "fresh private realm"
			case 3: // private over private (allowed: replaces) / public over private (refused)
				path = existing(func(e *regEntry) bool { return e.private })
				if path == "" {
					continue
				}
				files = w.src(base(path), true)
				private = c.Intn(3) != 0
				if private {
					expect, desc = "ok", "private redeploy over private"
				} else {
					expect, desc = "fail", "public over private"
				}
			case 4: // test-only file set
				var nm string
				path, nm = fresh("gno.land/r/sim/")
				files = map[string]string{nm + "_test.gno": fmt.Sprintf("package %s\n", nm)}
				expect, desc = "fail", "test-only file set"
			case 5: // path variants of an existing path / wrong domain / reserved suffix
				ex := existing(func(e *regEntry) bool { return true })
				if ex == "" {
					ex = boxPath
				}
				variants := []string{ex + "/", strings.ToUpper(ex[:9]) + ex[9:], strings.Replace(ex, "/r/", "//r/", 1), ex + "/../" + base(ex),
					"example.com/r/sim/" + base(ex), ex + "_test", "gno.land/x/sim/" + base(ex), ex + "/v2", " " + ex, ex + "\x00"}
				path = variants[c.Intn(len(variants))]
				files = w.src(base(ex), false)
				desc = fmt.Sprintf("path variant %q", path)
				if _, already := w.reg[path]; already {
					expect = "fail"
				}
			case 6: // a realm that tries to mutate a /p/ package's state after init
				pp := ""
				for _, k := range kernel.SortedKeys(w.pCount) {
					pp = k
				}
				if pp == "" {
					continue
				}
				var nm string
				path, nm = fresh("gno.land/r/sim/")
				files = map[string]string{nm + ".gno": fmt.Sprintf("package %s\n\nimport px %q\n\nvar Seen int\n\nfunc init() { Seen = px.Inc() }\n\nfunc Poke(cur realm) int { Seen = px.Inc(); return Seen }\n", nm, pp)}
				desc = "realm mutating /p/ state in init"
				expect = "fail"
			case 8: // a realm whose init leaves /p/ alone but whose crossing Poke() mutates /p/ state when called later
				if len(w.targets) == 0 {
					continue
				}
				tg := w.targets[c.Intn(len(w.targets))]
				if step == "poker-inner" {
					for _, x := range w.targets {
						if x.fn == "BumpInner" {
							tg = x
						}
					}
				}
				var nm string
				path, nm = fresh("gno.land/r/sim/")
				files = map[string]string{nm + ".gno": fmt.Sprintf("package %s\n\nimport px %q\n\nvar Seen int\n\nfunc Poke(cur realm) int { Seen = px.%s(); return Seen }\n\nfunc Look(cur realm) int { Seen++; return px.Marker() }\n", nm, tg.path, tg.fn)}
				desc = fmt.Sprintf("realm that can poke %s.%s", tg.path, tg.fn)
				expect = "ok"
				pokerDeploy = true
			case 9: // MsgCall into a poker realm: the mutation of /p/ state must abort the tx (Look is the control: must pass)
				if len(w.pokers) == 0 {
					continue
				}
				pk := w.pokers[c.Intn(len(w.pokers))]
				fn := "Poke"
				if c.Intn(4) == 0 {
					fn = "Look"
				}
				a := w.acts[signer]
				tx := std.Tx{Msgs: []std.Msg{vm.NewMsgCall(a.addr, nil, pk, fn, nil)}, Fee: std.NewFee(100_000_000, std.NewCoin("ugnot", 1_000_000))}
				signTx(&tx, []*actor{a}, false)
				t = &simTx{signer: signer, bytes: encTx(tx)}
				desc = fmt.Sprintf("MsgCall %s.%s", pk, fn)
				path = pk
				r := resultOf(w.ref.app.DeliverTx(deliverReq(t.bytes)))
				c.Event("h%d %s by %s -> err=%s", b.Height, desc, signer, r.Err)
				if r.GasW != 0 || r.ok() {
					w.acts[t.signer].seq++
				}
				if fn == "Poke" && r.ok() {
					w.fail("C12", "p-package-mutation-accepted", "height %d: %s succeeded although it mutates the state of a /p/ package after initialisation", b.Height, desc)
				} else if fn == "Look" && !r.ok() {
					kernel.Harnessf("height %d: control call %s failed: %s %s", b.Height, desc, r.Err, clip(r.Log, 400))
				} else if fn == "Poke" {
					w.r.Probe("p_mutation_calls_refused")
				}
				continue
			case 7: // call Inc on an existing public realm (state changes, code must not)
				ex := existing(func(e *regEntry) bool { return !e.private && strings.Contains(boxPath+"x", "/r/") })
				if ex == "" || !strings.Contains(ex, "/r/") {
					continue
				}
				a := w.acts[signer]
				// non-crossing Inc cannot be called via MsgCall; use MsgRun script importing it
				script := fmt.Sprintf("package main\n\nimport x %q\n\nfunc main() { println(x.Marker()) }\n", ex)
				msg := vm.NewMsgRun(a.addr, nil, []*std.MemFile{{Name: "main.gno", Body: script}})
				tx := std.Tx{Msgs: []std.Msg{msg}, Fee: std.NewFee(100_000_000, std.NewCoin("ugnot", 1_000_000))}
				signTx(&tx, []*actor{a}, false)
				t = &simTx{signer: signer, bytes: encTx(tx)}
				desc = "MsgRun reading a deployed package"
			}
			if t == nil {
				t = w.deployTx(signer, path, files, private)
			}
			r := resultOf(w.ref.app.DeliverTx(deliverReq(t.bytes)))
			c.Event("h%d %s by %s: %s -> err=%s", b.Height, desc, signer, path, r.Err)
			if r.GasW != 0 || r.ok() { // passed ante
				w.acts[t.signer].seq++
			}
			if kind == 7 {
				continue
			}
			if r.ok() {
				if expect == "fail" {
					w.fail("C12", "forbidden-deploy-accepted", "height %d: %s at %q was accepted", b.Height, desc, path)
					break
				}
				if old, ok := w.reg[path]; ok && !old.private {
					w.fail("C12", "public-package-replaced", "height %d: deployment at already-registered public path %q was accepted", b.Height, path)
					break
				}
				w.reg[path] = &regEntry{files: files, private: private, creator: w.acts[signer].addr.String(), height: b.Height}
				if strings.HasPrefix(path, "gno.land/p/") {
					w.pCount[path] = w.marker
				}
				if strings.HasPrefix(wrapOf, "+") {
					w.wrapTodo = append(w.wrapTodo, wrapOf[1:])
					w.r.Probe("p_internal_deployed")
				} else if wrapOf != "" {
					w.wrapTodo = w.wrapTodo[1:]
					w.r.Probe("p_internal_wrapper_deployed")
				}
				w.targets = append(w.targets, newTargets...)
				if pokerDeploy {
					w.pokers = append(w.pokers, path)
				}
				w.r.Probe("deploys_accepted")
				if private {
					w.r.Probe("private_deploys_accepted")
				}
			} else {
				if expect == "ok" {
					kernel.Harnessf("height %d: %s at %q expected to succeed: %s %s", b.Height, desc, path, r.Err, clip(r.Log, 500))
				}
				w.r.Probe("deploys_refused")
			}
		}
		if w.stop {
			break
		}
		w.ref.endBlockCommit(b)
		w.r.Steps += ntx
		w.checkRegistry(w.ref, fmt.Sprintf("after height %d", b.Height))
		if !w.stop && c.Chance(1, 4) {
			c.Event("restart after h%d", b.Height)
			if err := w.ref.restart(); err != nil {
				w.fail("C01", "restart", "cannot restart after height %d: %v", b.Height, err)
				break
			}
			w.r.Fault("restart")
			w.checkRegistry(w.ref, fmt.Sprintf("after restart at height %d", b.Height))
		}
	}
	w.r.Nontrivial = w.r.Probes["deploys_accepted"] >= 2 && w.r.Probes["deploys_refused"] >= 1
	w.r.Sample = map[string]any{"events": c.Log[:min(len(c.Log), 30)]}
	return w.r
}
