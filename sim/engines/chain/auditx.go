package chain

import (
	"regexp"
	"strconv"

	bft "github.com/gnolang/gno/tm2/pkg/bft/types"
	"github.com/gnolang/gno/tm2/pkg/std"
)

// Generic auditor helpers shared by the C08 (coins.go) and C13 (params.go) engines.

// coinsOf returns every denomination held by addr in the durable image
// (account-tier coins and split balance keys), through the bank ViewKeeper the
// auditor mounted over its own multistore.
func (a *auditor) coinsOf(addr bft.Address) std.Coins {
	return a.view.GetCoins(a.ctx, addr)
}

// paramsDump returns every key of the params keeper ("/pv/" prefix of the main
// store) with its raw value, prefix stripped.
func (a *auditor) paramsDump() map[string]string {
	out := map[string]string{}
	st := a.ms.GetStore(a.mainKey)
	it := st.Iterator(nil, []byte("/pv/"), []byte("/pv0"))
	defer it.Close()
	for ; it.Valid(); it.Next() {
		out[string(it.Key()[len("/pv/"):])] = string(it.Value())
	}
	return out
}

// storage deposit lock / refund events of a tx result, per realm path.
var (
	lockEvRe   = regexp.MustCompile(`"bytes_delta":"(-?\d+)","fee_delta":"(\d+)ugnot","pkg_path":"([^"]*)"`)
	unlockEvRe = regexp.MustCompile(`"bytes_delta":"(-?\d+)","fee_refund":"(\d+)ugnot","pkg_path":"([^"]*)"`)
)

type storageEv struct {
	path   string
	bytes  int64
	amount int64
}

func storageEvents(events string) (locks, unlocks []storageEv) {
	for _, m := range lockEvRe.FindAllStringSubmatch(events, -1) {
		b, _ := strconv.ParseInt(m[1], 10, 64)
		v, _ := strconv.ParseInt(m[2], 10, 64)
		locks = append(locks, storageEv{path: m[3], bytes: b, amount: v})
	}
	for _, m := range unlockEvRe.FindAllStringSubmatch(events, -1) {
		b, _ := strconv.ParseInt(m[1], 10, 64)
		v, _ := strconv.ParseInt(m[2], 10, 64)
		unlocks = append(unlocks, storageEv{path: m[3], bytes: b, amount: v})
	}
	return
}
