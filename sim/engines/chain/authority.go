package chain

import (
	"bytes"
	"fmt"
	"regexp"
	"strconv"
	"strings"
	"time"

	"github.com/gnolang/gno/gno.land/pkg/sdk/vm"
	"github.com/gnolang/gno/tm2/pkg/std"

	"verif/sim/kernel"
)

// C07 — a realm's persisted state changes only under that realm's authority.
//
// Victim realm gno.land/r/sim/citadel (gno/citadel): exported state of every
// reachable shape, read-only getters, NO code that writes through an argument or
// runs a callback, declared types without mutating methods. Its only writers are
// Bump / Renew, which the simulator itself calls (authority = citadel), so the
// model knows exactly when the state may change and to what.
//
// Attacker programs are GENERATED per run from the template grammar of
// authgrammar.go (access path x operation x wrapper) and hosted by a caller kind
// (MsgRun script, attacker realm crossing function, attacker realm non-crossing
// helper, script calling either, package initialisation of a freshly deployed
// realm) against a victim of a drawn temperature (warm, cold = node restarted,
// just modified in this block, modified by an earlier message of the SAME tx).
//
// Oracle (state invariant): the independent auditor reads every
// `oid:<citadel pkgid>:*` record of the durable image before and after each
// block and splits them into the victim's state (records reachable from its
// package object), records that merely carry its package id (values of a victim
// type kept by ANOTHER realm are stored under the declaring realm's id, by
// design: zero values, struct copies) and the realm's ledger record. Across a
// block whose successful txs contain no Bump/Renew, every record of the victim's
// state must be there, byte-identical, and nothing may get attached to it; the
// ledger record may only differ when foreign-held records moved. After every
// block and every restart citadel.Dump() (vm/qeval) must equal the model. A
// forbidden write that is not wrapped in the program's own recover() must end
// the tx in an error (a write that goes through while records and rendered state
// stay what the victim's own mutators produce landed in a copy: probe, not
// violation); construction of a victim-declared type outside the victim and
// persisting a realm value must fail. Violations of the last two kinds carry a
// root-cause signature and honour KNOWN_FINDINGS.jsonl (the run goes on).
//
// Development aid: VERIF_KNOBS=grammar=all,host=script|realm|helper|init,wrap=N,
// from=I,to=J[,stride=S,dense=D] runs every program of the grammar once, one
// block each, and returns the outcome table in the run's sample.

const (
	citadelPath = "gno.land/r/sim/citadel"
	pokePath    = "gno.land/p/sim/poke"
)

// ---- the model of the victim ------------------------------------------------------

type citModel struct {
	epoch int
	g     [3]int
}

func (m citModel) v(id, grp int) int { return id*1000 + m.g[grp] }

func (m citModel) ints(grp, from, n int) string {
	var p []string
	for i := 0; i < n; i++ {
		p = append(p, strconv.Itoa(m.v(from+i, grp)))
	}
	return strings.Join(p, ",")
}

func (m citModel) dump() string {
	it := strconv.Itoa
	g0, g1, g2 := m.g[0], m.g[1], m.g[2]
	by := func(base byte, g int) string {
		b := make([]byte, 3)
		for i := range b {
			b[i] = base + byte((g+i)%26)
		}
		return string(b)
	}
	o := "e=" + it(m.epoch) + " g=" + it(g0) + "," + it(g1) + "," + it(g2)
	o += " C=" + it(m.v(1, 0)) + " N=n" + it(g0)
	o += " Arr=" + m.ints(0, 2, 4) + " Sl=3/6:" + m.ints(0, 6, 3) + ",903,904,905"
	o += " M=2:a=" + it(m.v(9, 0)) + ",b=" + it(m.v(10, 0)) + " By=3/8:" + by('a', g0) + "zzzzz"
	o += " L=3/3:" + m.ints(0, 11, 3) + " D=1:a=" + it(m.v(14, 0)) + ",b=0 Lv=" + it(m.v(15, 0))
	o += " MI=2:1=" + it(m.v(16, 0)) + ",2=" + it(m.v(17, 0))
	o += " S.In=" + it(m.v(20, 1)) + ".s" + it(g1) + " S.Arr=" + m.ints(1, 21, 4) + " S.Sl=3/6:" + m.ints(1, 25, 3) + ",803,804,805"
	o += " S.M=2:a=" + it(m.v(28, 1)) + ",b=" + it(m.v(29, 1)) + " S.By=3/8:" + by('A', g1) + "yyyyy"
	o += " S.Ins=2:" + it(m.v(30, 1)) + ".i" + it(g1) + "," + it(m.v(31, 1)) + ".i" + it(g1)
	p := it(m.v(40, 2)) + ".p" + it(g2)
	o += " P=" + p + " PI=" + it(m.v(41, 2)) + " S.P=" + it(m.v(42, 2)) + ".q" + it(g2) + " S.PI=" + it(m.v(43, 2))
	o += " Box=" + it(m.v(44, 2)) + ". Ptrs=2:" + it(m.v(45, 2)) + ".," + p
	o += " S.MP=1:a=" + it(m.v(46, 2)) + ". S.Any=" + it(m.v(47, 2)) + "."
	return o
}

func (m *citModel) apply(legit string) {
	switch legit {
	case "Bump0":
		m.g[0]++
	case "Bump1":
		m.g[1]++
	case "Bump2":
		m.g[2]++
	case "Renew":
		m.epoch++
	default:
		kernel.Harnessf("unknown legit mutator %q", legit)
	}
}

// ---- the world ----------------------------------------------------------------------

type c07Inst struct {
	prog c07Prog
	wrap int
	val  int
}

func (i c07Inst) name() string { return i.prog.id + " wrap=" + c07Wraps[i.wrap] }

func (i c07Inst) body() string { return c07Body(i.prog, i.wrap, i.val) }

// mayRecover: the program itself swallows the refusal; the tx may then succeed.
func (i c07Inst) mayRecover() bool { return c07Wraps[i.wrap] == "recover" }

type raider struct {
	name  string
	path  string
	insts []c07Inst
}

// caller kinds
const (
	ckScript      = "script"           // MsgRun, func main()
	ckScriptCur   = "script-cur"       // MsgRun, func main(cur realm)
	ckRealmCross  = "realm-crossing"   // MsgCall of the attacker realm's crossing function holding the program
	ckRealmHelper = "realm-helper"     // MsgCall of a crossing function that calls the realm's non-crossing helper
	ckScriptNC    = "script-to-helper" // MsgRun script calling the attacker realm's exported non-crossing function
	ckScriptCross = "script-to-realm"  // MsgRun script cross-calling the attacker realm's crossing function
	ckInit        = "init"             // MsgAddPackage of a realm whose init() holds the program
	ckVarInit     = "var-initialiser"  // MsgAddPackage of a realm whose package-level initialiser holds the program
)

type auPart struct {
	legit  string   // "Bump0".."Bump2", "Renew"
	atk    *c07Inst // an attack program ...
	caller string   // ... hosted by this caller kind
	noise  string   // a message that fails on its own
	temp   string   // victim temperature when the part runs
	lone   bool
	keepFn string // the attacker realm's KeepN: keeps a reference to a victim container (follow-up of a recovered write)
}

type auTx struct {
	signer string
	msgs   []std.Msg
	gas    int64
	desc   string
	parts  []auPart
	deploy *raider // a successful tx adds this attacker realm
}

type authWorld struct {
	*world
	model    citModel
	victimID string
	prev     victimState
	raiders  []*raider
	nRaider  int
	nInit    int
	nVal     int
	cold     bool // the node was restarted at the boundary before the current block
	all      []c07Prog
	byCat    map[string][]int
	judged   int
	multiHit int
}

var msgIdxRe = regexp.MustCompile(`msg:(\d+),success:false`)

func failedMsg(r txResult) int {
	if m := msgIdxRe.FindStringSubmatch(r.Log); m != nil {
		n, _ := strconv.Atoi(m[1])
		return n
	}
	return -1
}

// abortReason classifies the error of a refused program (deterministic text of the VM).
func abortReason(r txResult) string {
	l := r.Log
	switch {
	case strings.Contains(l, "invariant violation: DidUpdate"):
		return "didupdate-guard"
	case strings.Contains(l, "readonly tainted"):
		return "readonly-check"
	case strings.Contains(l, "cannot directly mutate"):
		return "static-check"
	case strings.Contains(l, "illegal conversion"):
		return "conversion-check"
	case strings.Contains(l, "cannot allocate"):
		return "construction-check"
	case strings.Contains(l, "cannot persist realm value"):
		return "persist-realm-check"
	case isOOG(r):
		return "out-of-gas"
	}
	return "other"
}

func (w *authWorld) sign(signer string, gas int64, msgs ...std.Msg) []byte {
	a := w.acts[signer]
	tx := std.Tx{Msgs: msgs, Fee: std.NewFee(gas, std.NewCoin("ugnot", 1_000_000))}
	signTx(&tx, []*actor{a}, false)
	return encTx(tx)
}

func (w *authWorld) deliver(signer string, gas int64, msgs ...std.Msg) txResult {
	r := resultOf(w.ref.app.DeliverTx(deliverReq(w.sign(signer, gas, msgs...))))
	if r.GasW != 0 || r.ok() {
		w.acts[signer].seq++
	}
	return r
}

// victimRecords reads every record of the victim's object-id space from the
// auditor's own multistore over a clone of the durable image.
func (a *auditor) victimRecords(pkgidHex string) map[string][]byte {
	out := map[string][]byte{}
	st := a.ms.GetStore(a.baseKey)
	pfx := "oid:" + pkgidHex
	it := st.Iterator(nil, []byte(pfx), []byte(pfx+"\xff"))
	defer it.Close()
	for ; it.Valid(); it.Next() {
		out[string(it.Key())] = append([]byte(nil), it.Value()...)
	}
	return out
}

// victimState is the auditor's view of the victim's object-id space: `own` holds the
// records reachable from the victim's package object (its persisted state), `held` the
// records that merely carry the victim's package id (values of a victim type kept by
// another realm are stored under the id of the type's realm, by design), `ledger` the
// realm's bookkeeping record (object counter, storage, deposit).
type victimState struct {
	own    map[string][]byte
	held   map[string][]byte
	ledger []byte
}

func (a *auditor) victimState(pkgidHex string) victimState {
	recs := a.victimRecords(pkgidHex)
	g := a.buildGraph(pkgidHex)
	if len(g.errs) > 0 {
		kernel.Harnessf("victim records do not decode: %v", g.errs)
	}
	reach := map[string]bool{}
	var stack []string
	for _, id := range sortedObjIDs(g.objs) {
		if strings.HasSuffix(g.objs[id].typ, "PackageValue") {
			reach[id] = true
			stack = append(stack, id)
		}
	}
	for len(stack) > 0 {
		id := stack[len(stack)-1]
		stack = stack[:len(stack)-1]
		for _, r := range g.objs[id].refs {
			if _, in := g.objs[r.to]; in && !reach[r.to] {
				reach[r.to] = true
				stack = append(stack, r.to)
			}
		}
	}
	vs := victimState{own: map[string][]byte{}, held: map[string][]byte{}}
	for k, v := range recs {
		switch {
		case isLedgerRecord(k):
			vs.ledger = v
		case reach[strings.TrimPrefix(k, "oid:")]:
			vs.own[k] = v
		default:
			vs.held[k] = v
		}
	}
	return vs
}

func (w *authWorld) legitMsg(signer, which string) std.Msg {
	a := w.acts[signer]
	if which == "Renew" {
		return vm.NewMsgCall(a.addr, nil, citadelPath, "Renew", nil)
	}
	return vm.NewMsgCall(a.addr, nil, citadelPath, "Bump", []string{which[4:]})
}

func (w *authWorld) drawLegit() string {
	return []string{"Bump0", "Bump1", "Bump2", "Bump0", "Bump1", "Bump2", "Renew"}[w.c.Intn(7)]
}

func (w *authWorld) drawInst(realmOK, staticOK bool) c07Inst {
	c := w.c
	p := w.all[w.byCat["scalar"][0]]
	for try := 0; try < 8; try++ {
		idx := w.byCat[c07Cats[c.Weighted(c07CatWeights)]]
		q := w.all[idx[c.Intn(len(idx))]]
		if (q.needState && !realmOK) || (q.static && !staticOK) {
			continue
		}
		p = q
		break
	}
	w.nVal++
	wrap := c.Weighted(c07WrapWeights)
	if p.noWrap {
		wrap = 0 // the program brings its own recover()
	}
	return c07Inst{prog: p, wrap: wrap, val: 7_000_000 + w.nVal*11}
}

func (w *authWorld) newRaider() *raider {
	n := 6 + w.c.Intn(9)
	rd := &raider{name: fmt.Sprintf("raider%d", w.nRaider)}
	rd.path = "gno.land/r/sim/" + rd.name
	w.nRaider++
	for i := 0; i < n; i++ {
		rd.insts = append(rd.insts, w.drawInst(true, false))
	}
	return rd
}

func (w *authWorld) deployMsg(signer string, rd *raider) std.Msg {
	return vm.MsgAddPackage{Creator: w.acts[signer].addr, Package: memPkg(rd.path, map[string]string{rd.name + ".gno": raiderSource(rd)})}
}

// attackMsg builds the message hosting inst under a drawn caller kind.
func (w *authWorld) attackMsg(signer string) (std.Msg, *c07Inst, string) {
	c := w.c
	a := w.acts[signer]
	kinds := []string{ckScript, ckRealmCross, ckRealmHelper, ckScriptNC, ckScriptCross, ckScriptCur, ckInit, ckVarInit}
	kind := kinds[c.Weighted([]int{4, 4, 3, 2, 2, 1, 1, 1})]
	if len(w.raiders) == 0 && (kind == ckRealmCross || kind == ckRealmHelper || kind == ckScriptNC || kind == ckScriptCross) {
		kind = ckScript
	}
	switch kind {
	case ckScript, ckScriptCur:
		in := w.drawInst(false, true)
		return vm.NewMsgRun(a.addr, nil, []*std.MemFile{{Name: "main.gno", Body: scriptSourceC07(in, kind == ckScriptCur)}}), &in, kind
	case ckInit, ckVarInit:
		in := w.drawInst(false, true)
		w.nInit++
		name := fmt.Sprintf("rinit%d", w.nInit)
		src := initSource(name, in, kind == ckVarInit)
		return vm.MsgAddPackage{Creator: a.addr, Package: memPkg("gno.land/r/sim/"+name, map[string]string{name + ".gno": src})}, &in, kind
	}
	rd := w.raiders[c.Intn(len(w.raiders))]
	i := c.Intn(len(rd.insts))
	in := rd.insts[i]
	if in.prog.needCur && kind != ckRealmCross && kind != ckScriptCross {
		kind = ckRealmCross // only the crossing function has the program (it needs `cur`)
	}
	switch kind {
	case ckRealmCross:
		return vm.NewMsgCall(a.addr, nil, rd.path, fmt.Sprintf("A%d", i), nil), &in, kind
	case ckRealmHelper:
		return vm.NewMsgCall(a.addr, nil, rd.path, fmt.Sprintf("B%d", i), nil), &in, kind
	case ckScriptNC:
		src := fmt.Sprintf("package main\n\nimport %q\n\nfunc main() {\n\t%s.H%d()\n}\n", rd.path, rd.name, i)
		return vm.NewMsgRun(a.addr, nil, []*std.MemFile{{Name: "main.gno", Body: src}}), &in, kind
	default:
		src := fmt.Sprintf("package main\n\nimport %q\n\nfunc main(cur realm) {\n\t%s.A%d(cross(cur))\n}\n", rd.path, rd.name, i)
		return vm.NewMsgRun(a.addr, nil, []*std.MemFile{{Name: "main.gno", Body: src}}), &in, ckScriptCross
	}
}

func (w *authWorld) genTx(justModified bool) *auTx {
	c := w.c
	t := &auTx{gas: 400_000_000}
	atkSigner := []string{"chaos1", "chaos2"}[c.Intn(2)]
	user := users[c.Intn(3)]
	temp := func(sameTx bool) string {
		switch {
		case sameTx:
			return "same-tx"
		case justModified:
			return "just-modified"
		case w.cold:
			return "cold"
		}
		return "warm"
	}
	addAtk := func(signer string, sameTx bool) {
		m, in, kind := w.attackMsg(signer)
		t.msgs = append(t.msgs, m)
		t.parts = append(t.parts, auPart{atk: in, caller: kind, temp: temp(sameTx)})
		// a later message of the same tx dirties the container the recovered write touched
		switch f := in.prog.follow; {
		case strings.HasPrefix(f, "keep:") && len(w.raiders) > 0:
			rd := w.raiders[0]
			t.msgs = append(t.msgs, vm.NewMsgCall(w.acts[signer].addr, nil, rd.path, "Keep"+f[5:], nil))
			t.parts = append(t.parts, auPart{keepFn: rd.name + ".Keep" + f[5:]})
		case strings.HasPrefix(f, "bump:"):
			t.msgs = append(t.msgs, w.legitMsg(signer, "Bump"+f[5:]))
			t.parts = append(t.parts, auPart{legit: "Bump" + f[5:]})
		}
	}
	addLegit := func(signer string) {
		l := w.drawLegit()
		t.msgs = append(t.msgs, w.legitMsg(signer, l))
		t.parts = append(t.parts, auPart{legit: l})
	}
	switch c.Weighted([]int{8, 4, 3, 2, 2, 1, 1, 1}) {
	case 0: // the attack is the only message
		t.signer = atkSigner
		addAtk(t.signer, false)
		t.parts[0].lone = len(t.parts) == 1
	case 1: // a legitimate mutation
		t.signer = user
		addLegit(t.signer)
		if c.Chance(1, 3) {
			addLegit(t.signer)
		}
	case 2: // legit first, attack second: the refusal must take the legit message's effects with it
		t.signer = []string{atkSigner, user}[c.Intn(2)]
		addLegit(t.signer)
		addAtk(t.signer, true)
	case 3: // attack first, legit second
		t.signer = []string{atkSigner, user}[c.Intn(2)]
		addAtk(t.signer, false)
		addLegit(t.signer)
	case 4: // two attacks in one tx (the second only runs if the first was not refused)
		t.signer = atkSigner
		addAtk(t.signer, false)
		addAtk(t.signer, false)
	case 5: // legit, attack, legit
		t.signer = atkSigner
		addLegit(t.signer)
		addAtk(t.signer, true)
		addLegit(t.signer)
	case 6: // a tx that fails on its own (interleaved failures)
		t.signer = user
		if c.Bool() {
			addLegit(t.signer)
		}
		a := w.acts[t.signer]
		if c.Bool() {
			t.msgs = append(t.msgs, vm.NewMsgCall(a.addr, nil, citadelPath, "NoSuchFunction", nil))
			t.parts = append(t.parts, auPart{noise: "unknown function"})
		} else {
			t.msgs = append(t.msgs, vm.NewMsgCall(a.addr, nil, citadelPath, "Bump", []string{"not-a-number"}))
			t.parts = append(t.parts, auPart{noise: "bad argument"})
		}
	case 7: // another attacker realm appears
		t.signer = atkSigner
		rd := w.newRaider()
		t.msgs = append(t.msgs, w.deployMsg(t.signer, rd))
		t.parts = append(t.parts, auPart{})
		t.deploy = rd
		t.gas = 2_000_000_000
	}
	var ds []string
	for _, p := range t.parts {
		switch {
		case p.legit != "":
			ds = append(ds, "citadel."+p.legit)
		case p.atk != nil:
			ds = append(ds, fmt.Sprintf("%s{%s}@%s", p.caller, p.atk.name(), p.temp))
		case p.noise != "":
			ds = append(ds, "noise("+p.noise+")")
		case p.keepFn != "":
			ds = append(ds, p.keepFn)
		default:
			ds = append(ds, "deploy "+t.deploy.name)
		}
	}
	t.desc = strings.Join(ds, " ; ")
	return t
}

func diffRecords(a, b map[string][]byte) (changed, gone, added []string) {
	for _, k := range kernel.SortedKeys(a) {
		v, ok := b[k]
		if !ok {
			gone = append(gone, k)
		} else if !bytes.Equal(v, a[k]) {
			changed = append(changed, k)
		}
	}
	for _, k := range kernel.SortedKeys(b) {
		if _, ok := a[k]; !ok {
			added = append(added, k)
		}
	}
	return
}

// failKnown reports a violation unless it is listed in KNOWN_FINDINGS.jsonl by (property, oracle,
// signature); a listed one is recorded once and the run goes on.
func (w *authWorld) failKnown(oracle, sig, format string, args ...any) {
	v := &kernel.Violation{Property: "C07", Oracle: oracle, Signature: sig, Msg: fmt.Sprintf(format, args...)}
	if w.p.IsKnown(v) != nil {
		if !w.knownSeen[oracle+"/"+sig] {
			w.knownSeen[oracle+"/"+sig] = true
			w.r.Known = append(w.r.Known, *v)
		}
		w.r.Probe("known:" + oracle + "/" + sig)
		return
	}
	if w.r.Violation == nil {
		w.r.Violation = v
	}
	w.stop = true
}

func isLedgerRecord(k string) bool { return strings.HasSuffix(k, "#realm") }

func (w *authWorld) checkDump(when string) bool {
	got, err := w.ref.qeval(citadelPath, "Dump()")
	want := `("` + w.model.dump() + `" string)`
	if err != nil {
		w.fail("C07", "victim-state-changed-without-authority", "%s: citadel.Dump() cannot be evaluated any more: %v\n model: %s", when, err, want)
		return false
	}
	if got != want {
		w.fail("C07", "victim-state-changed-without-authority", "%s: the victim's state differs from what its own mutators produce:\n realm: %s\n model: %s", when, got, want)
		return false
	}
	return true
}

func runAuthority(c *kernel.Choices, p kernel.Params) *kernel.Result {
	base := &world{c: c, r: kernel.NewResult(), p: p, prop: "C07", emptyKeys: map[string]bool{}, knownSeen: map[string]bool{}}
	w := &authWorld{world: base, byCat: map[string][]int{}}
	w.all = c07Programs()
	for i, pr := range w.all {
		w.byCat[pr.cat] = append(w.byCat[pr.cat], i)
	}
	for _, cat := range c07Cats {
		if len(w.byCat[cat]) == 0 {
			kernel.Harnessf("grammar category %s is empty", cat)
		}
	}
	w.img = baseImage(3_000_000_000)
	w.acts = newActors()
	w.bal = map[string]int64{}
	w.height = 1
	w.now = genesisTime.Add(time.Second)
	w.ref = w.openNode("ref")
	defer func() { w.ref.app.Close() }()
	au, err := newAuditor(w.ref.disk, 1)
	if err != nil {
		kernel.Harnessf("auditor: %v", err)
	}
	for nm, a := range w.acts {
		if seq, num, bal, ok := au.account(a.addr); ok {
			w.bal[nm], a.seq, a.num = bal, seq, num
		}
	}
	w.victimID = pkgIDHex(citadelPath)

	if p.Knob("grammar", "") == "all" {
		return w.runWholeGrammar()
	}

	// ---- setup block: the helper library, the victim, the first attacker realm --------
	w.height++
	w.now = w.now.Add(5 * time.Second)
	b := blockSpec{Height: w.height, Time: w.now}
	w.ref.beginBlock(b)
	first := w.newRaider()
	setup := []struct {
		signer, desc string
		msg          func() std.Msg
	}{
		{"chaos1", "deploy poke", func() std.Msg {
			return vm.MsgAddPackage{Creator: w.acts["chaos1"].addr, Package: readRealm(gnoDir("poke"), pokePath)}
		}},
		{"alice", "deploy citadel", func() std.Msg {
			return vm.MsgAddPackage{Creator: w.acts["alice"].addr, Package: readRealm(gnoDir("citadel"), citadelPath)}
		}},
		{"chaos1", "deploy " + first.name, func() std.Msg { return w.deployMsg("chaos1", first) }},
	}
	for _, st := range setup {
		r := w.deliver(st.signer, 2_000_000_000, st.msg())
		if !r.ok() {
			extra := ""
			if strings.HasPrefix(st.desc, "deploy raider") {
				extra = "\n--- generated source ---\n" + raiderSource(first)
			}
			kernel.Harnessf("setup tx %q failed: %s %s%s", st.desc, r.Err, clip(r.Log, 2500), extra)
		}
		c.Event("setup %s gasU=%d", st.desc, r.GasU)
	}
	w.raiders = append(w.raiders, first)
	w.ref.endBlockCommit(b)
	for i, in := range first.insts {
		c.Event("%s.%d = %s", first.name, i, in.name())
	}
	au, err = newAuditor(w.ref.disk, b.Height)
	if err != nil {
		kernel.Harnessf("auditor after setup: %v", err)
	}
	w.prev = au.victimState(w.victimID)
	if len(w.prev.own) < 10 || len(w.prev.held) != 0 || len(w.prev.ledger) == 0 {
		kernel.Harnessf("the freshly deployed victim realm has %d records of its own, %d unreachable ones, ledger %d bytes", len(w.prev.own), len(w.prev.held), len(w.prev.ledger))
	}
	if got, err := w.ref.qeval(citadelPath, "Dump()"); err != nil || got != `("`+w.model.dump()+`" string)` {
		kernel.Harnessf("the model does not describe the freshly deployed victim (err %v):\n realm: %s\n model: %s", err, got, w.model.dump())
	}

	nblocks := 4 + c.Intn(6)
	if p.Tier == "thorough" {
		nblocks = 5 + c.Intn(10)
	}
	restartDen := 2 + c.Intn(3)
	c.Event("authority run: %d blocks, restart chance 1/%d, %d victim records", nblocks, restartDen, len(w.prev.own))
	reach := map[string]bool{}
	for bi := 0; bi < nblocks && !w.stop; bi++ {
		w.height++
		w.now = w.now.Add(time.Duration(1+c.Intn(20)) * time.Second)
		b := blockSpec{Height: w.height, Time: w.now}
		w.ref.beginBlock(b)
		ntx := 1 + c.Intn(5)
		legitOK := false      // a successful tx of this block ran a victim mutator
		mayAlloc := false     // a successful program of this block may allocate under the victim's id by design
		var okWrites []string // forbidden-write programs whose tx succeeded in this block
		unrecovered := 0      // ... of which the program has no recover() of its own
		refMoved := false     // a successful program keeps (or drops) a reference to a victim object: refcount / escape metadata of the victim's records move by design
		var blockDesc []string
		for i := 0; i < ntx && !w.stop; i++ {
			t := w.genTx(legitOK)
			r := w.deliver(t.signer, t.gas, t.msgs...)
			c.Event("h%d tx%d by %s: %s -> err=%s gasU=%d %s", b.Height, i, t.signer, t.desc, r.Err, r.GasU, failReason(r))
			blockDesc = append(blockDesc, fmt.Sprintf("[%s -> %s]", t.desc, map[bool]string{true: "ok", false: "failed " + abortReason(r)}[r.ok()]))
			if r.GasW == 0 && !r.ok() {
				kernel.Harnessf("tx %s rejected before/at ante: %s %s", t.desc, r.Err, clip(r.Log, 400))
			}
			if isOOG(r) {
				kernel.Harnessf("tx %s ran out of gas (%d used of %d): the workload's gas limits are wrong", t.desc, r.GasU, r.GasW)
			}
			w.r.Steps++
			fm := -1
			unattributed := false
			if !r.ok() {
				fm = failedMsg(r)
				if fm >= len(t.parts) {
					kernel.Harnessf("cannot tell which message of %s failed: %s", t.desc, clip(r.Log, 600))
				}
				if fm < 0 {
					// a panic recovered by BaseApp.runTx carries no message index. The citadel mutators
					// never panic: with a single other message it is that one; with several the failure
					// cannot be attributed and the programs of the tx are not judged (nothing of the tx
					// is applied; the block oracle still sees the victim's records)
					var cand []int
					for k, pt := range t.parts {
						if pt.legit == "" {
							cand = append(cand, k)
						}
					}
					switch len(cand) {
					case 0:
						kernel.Harnessf("a tx of legitimate messages only failed: %s: %s", t.desc, clip(r.Log, 600))
					case 1:
						fm = cand[0]
					default:
						unattributed = true
					}
					w.r.Probe("failure_without_message_index")
				}
			}
			if len(t.parts) > 1 {
				for _, pt := range t.parts {
					if pt.atk != nil {
						w.multiHit++
						w.r.Fault("attack_in_multi_msg_tx")
						break
					}
				}
			}
			for k, pt := range t.parts {
				ran := r.ok() || k <= fm || unattributed
				failedHere := !r.ok() && k == fm && !unattributed
				switch {
				case pt.legit != "":
					if failedHere {
						kernel.Harnessf("legitimate %s failed: %s", pt.legit, clip(r.Log, 800))
					}
					if r.ok() {
						w.model.apply(pt.legit)
						legitOK = true
						w.r.Probe("legit_ok")
					} else if ran {
						w.r.Probe("legit_rolled_back_with_refused_attack")
					}
				case pt.noise != "":
					if r.ok() {
						kernel.Harnessf("noise message (%s) succeeded", pt.noise)
					}
				case pt.atk != nil:
					if unattributed {
						w.r.Probe("attack_in_unattributable_failure")
						continue
					}
					if !ran {
						w.r.Probe("attack_not_reached")
						continue
					}
					w.judge(b.Height, t, pt, r, failedHere, reach)
					if w.stop {
						break
					}
					if r.ok() {
						if pt.atk.prog.class == clsWrite {
							okWrites = append(okWrites, pt.caller+"{"+pt.atk.name()+"}")
							if !pt.atk.mayRecover() {
								unrecovered++
							}
						}
						if pt.atk.prog.mayAlloc {
							mayAlloc = true
						}
						if pt.atk.prog.keepsRef {
							refMoved = true
						}
						if k := pt.atk.prog.bump; k > 0 {
							// the program itself cross-called the victim's mutator (authority = citadel)
							w.model.apply(fmt.Sprintf("Bump%d", k-1))
							legitOK = true
							w.r.Probe("legit_ok")
						}
					}
				case pt.keepFn != "":
					switch {
					case r.ok():
						refMoved = true
						w.r.Probe("victim_reference_kept_by_later_message")
					case failedHere:
						w.r.Probe("keeping_a_victim_reference_refused")
					}
				default: // deployment of another attacker realm
					if !r.ok() {
						kernel.Harnessf("deploying %s failed: %s %s\n--- generated source ---\n%s", t.deploy.name, r.Err, clip(r.Log, 2500), raiderSource(t.deploy))
					}
					w.raiders = append(w.raiders, t.deploy)
					for i, in := range t.deploy.insts {
						c.Event("%s.%d = %s", t.deploy.name, i, in.name())
					}
					w.r.Probe("attacker_realms_deployed")
				}
			}
		}
		if w.stop {
			break
		}
		w.ref.endBlockCommit(b)
		au, err := newAuditor(w.ref.disk, b.Height)
		if err != nil {
			w.fail("C27", "audit-store-unloadable", "independent multistore over the durable image of height %d does not load: %v", b.Height, err)
			break
		}
		cur := au.victimState(w.victimID)
		changed, gone, added := diffRecords(w.prev.own, cur.own)
		hc, hg, ha := diffRecords(w.prev.held, cur.held)
		heldMoved := len(hc)+len(hg)+len(ha) > 0
		if heldMoved {
			// records that carry the victim's package id without being part of its state (values of a
			// victim type kept by another realm): allocated, rewritten or released by their holder
			w.r.Probe("records_held_elsewhere_under_victim_id_moved")
			if len(ha) > 0 && !mayAlloc {
				w.r.Probe("records_under_victim_id_allocated_by_unlisted_program")
			}
		}
		if refMoved && !legitOK {
			// byte identity is off (reference counts / escape flags of the victim's records move when
			// another realm keeps or drops a reference); the value-level oracle below still applies
			w.r.Probe("blocks_with_victim_references_kept")
		} else if !legitOK {
			var bad []string
			for _, k := range changed {
				bad = append(bad, "changed "+k)
			}
			for _, k := range gone {
				bad = append(bad, "deleted "+k)
			}
			for _, k := range added {
				bad = append(bad, "attached "+k)
			}
			if !bytes.Equal(w.prev.ledger, cur.ledger) && !heldMoved {
				bad = append(bad, "changed the realm's ledger record")
			}
			if len(bad) > 0 {
				oracle := "victim-state-changed-without-authority"
				if len(okWrites) > 0 {
					oracle = "foreign-write-not-aborted"
				}
				w.fail("C07", oracle, "height %d: no successful tx of the block ran a citadel mutator, yet %d of the victim's persisted records differ (%s). Successful forbidden-write programs: %v. Block: %s",
					b.Height, len(bad), strings.Join(bad[:min(len(bad), 6)], ", "), okWrites, strings.Join(blockDesc, " "))
				break
			}
			w.r.Probe("blocks_victim_bytes_identical")
		} else {
			w.r.Probe("blocks_with_legit_mutation")
			if len(changed) == 0 && len(added) == 0 {
				kernel.Harnessf("height %d: a citadel mutator succeeded but no victim record changed", b.Height)
			}
		}
		if !w.checkDump(fmt.Sprintf("height %d, block %s", b.Height, strings.Join(blockDesc, " "))) {
			break
		}
		// a forbidden-write program without a recover() of its own went through, yet the victim's
		// records and its rendered state are what its own mutators produce: the write landed in a copy
		w.r.ProbeN("write_hit_a_copy", unrecovered)
		w.prev = cur
		w.r.Probe("blocks_audited")
		w.cold = false
		if c.Chance(1, restartDen) {
			c.Event("restart after h%d", b.Height)
			if err := w.ref.restart(); err != nil {
				w.fail("C01", "restart", "cannot restart after height %d: %v", b.Height, err)
				break
			}
			w.r.Fault("restart")
			w.cold = true
			if !w.checkDump(fmt.Sprintf("after the restart following height %d", b.Height)) {
				break
			}
		}
	}
	w.r.Probes["attacks_judged"] += w.judged
	w.r.Probes["reach_cells"] += len(reach)
	w.r.Nontrivial = (w.r.Faults["restart"] > 0 || w.multiHit > 0) && w.judged >= 5
	w.r.Sample = map[string]any{"events": c.Log[:min(len(c.Log), 40)], "gnoroot": rootDir()}
	return w.r
}

// judge evaluates one attack program that ran (its tx succeeded, or it is the message that failed).
func (w *authWorld) judge(height int64, t *auTx, pt auPart, r txResult, failedHere bool, reach map[string]bool) {
	in := pt.atk
	pr := in.prog
	what := fmt.Sprintf("height %d: %s program {%s} run as %s against a %s victim", height, c07ClassNames[pr.class], in.name(), pt.caller, pt.temp)
	compileErr := !r.ok() && (strings.Contains(r.Err, "TypeCheck") || strings.Contains(r.Log, "preprocess stack") || strings.Contains(r.Log, "invalid gno package"))
	reason := ""
	if failedHere {
		reason = abortReason(r)
		if compileErr && reason != "static-check" {
			kernel.Harnessf("generated program does not compile (grammar bug): %s: %s", what, clip(r.Log, 1500))
		}
	}
	w.judged++
	w.r.Probe("attacks")
	w.r.Probe("class:" + c07ClassNames[pr.class])
	w.r.Probe("path:" + pr.path)
	w.r.Probe("op:" + pr.op)
	w.r.Probe("caller:" + pt.caller)
	w.r.Probe("temp:" + pt.temp)
	w.r.Probe("wrap:" + c07Wraps[in.wrap])
	cell := pr.path + "/" + pt.caller + "/" + pt.temp
	w.r.Probe("reach:" + cell)
	reach[cell] = true
	if pt.lone {
		w.r.Probe("placement:only-msg")
	} else {
		w.r.Probe("placement:multi-msg")
	}
	if failedHere {
		w.r.Probe("attack_aborted")
		w.r.Probe("abort:" + reason)
	}
	if !r.ok() && !failedHere {
		// the program's own message went through; a later message failed and took it along
		w.r.Probe("program_passed_then_rolled_back:" + c07ClassNames[pr.class])
		return
	}
	switch pr.class {
	case clsWrite:
		if r.ok() {
			if in.mayRecover() {
				w.r.Probe("refusal_recovered_by_program")
			}
			// judged with the block: the records and the rendered state must be untouched
		} else if reason == "other" {
			w.r.Probe("abort_other:" + pr.path + "/" + pr.op)
		}
	case clsCopy:
		if r.ok() {
			w.r.Probe("copy_write_ok:" + pr.path + "/" + pr.op)
		} else {
			w.r.Probe("copy_write_refused:" + pr.path + "/" + pr.op)
		}
	case clsResidue:
		// judged with the block and after the restart: Dump() must equal the model
		if r.ok() {
			w.r.Probe("recovered_write_then_dirty_ok:" + pr.op)
		} else {
			w.r.Probe("recovered_write_then_dirty_failed:" + reason)
		}
	case clsObserve:
		if r.ok() {
			w.r.Probe("observed_ok:" + pr.id)
		} else {
			w.r.Probe("observed_refused:" + pr.id)
		}
	case clsRead:
		if !r.ok() {
			kernel.Harnessf("%s must succeed (reading is always allowed) but failed: %s %s", what, r.Err, clip(r.Log, 1200))
		}
		w.r.Probe("read_ok")
	case clsConstruct:
		if r.ok() {
			w.failKnown("realm-type-constructed-outside", pr.sig, "%s succeeded: a value of a citadel-declared type was built by code running outside citadel. Tx: %s", what, t.desc)
		}
	case clsPersist:
		if r.ok() {
			w.failKnown("realm-value-persisted", pr.sig, "%s succeeded: the attacker realm kept a realm value in its persisted state. Tx: %s", what, t.desc)
		}
	}
}

// ---- development aid: every program of the grammar, once per hosting form ------------

func (w *authWorld) runWholeGrammar() *kernel.Result {
	c := w.c
	block := func(f func()) {
		w.height++
		w.now = w.now.Add(5 * time.Second)
		b := blockSpec{Height: w.height, Time: w.now}
		w.ref.beginBlock(b)
		f()
		w.ref.endBlockCommit(b)
	}
	block(func() {
		for _, st := range []struct {
			s string
			m std.Msg
		}{
			{"chaos1", vm.MsgAddPackage{Creator: w.acts["chaos1"].addr, Package: readRealm(gnoDir("poke"), pokePath)}},
			{"alice", vm.MsgAddPackage{Creator: w.acts["alice"].addr, Package: readRealm(gnoDir("citadel"), citadelPath)}},
		} {
			if r := w.deliver(st.s, 2_000_000_000, st.m); !r.ok() {
				kernel.Harnessf("setup failed: %s %s", r.Err, clip(r.Log, 3000))
			}
		}
	})
	if got, err := w.ref.qeval(citadelPath, "Dump()"); err != nil || got != `("`+w.model.dump()+`" string)` {
		kernel.Harnessf("model vs fresh victim (err %v):\n realm: %s\n model: %s", err, got, w.model.dump())
	}
	au, _ := newAuditor(w.ref.disk, w.height)
	prevAll := au.victimRecords(w.victimID)
	from, to := w.p.KnobInt("from", 0), w.p.KnobInt("to", len(w.all))
	wrap := w.p.KnobInt("wrap", 0)
	host := w.p.Knob("host", "script")
	var rows []string
	stride := w.p.KnobInt("stride", 1)
	dense := w.p.KnobInt("dense", len(w.all)) // programs from this index on are all run
	for i := from; i < to && i < len(w.all); i++ {
		if i < dense && i%stride != 0 {
			continue
		}
		pr := w.all[i]
		in := c07Inst{prog: pr, wrap: wrap, val: 7_000_000 + i}
		var r txResult
		if pr.needState && (host == "script" || host == "init") {
			continue
		}
		block(func() {
			a := w.acts["chaos1"]
			switch host {
			case "script":
				r = w.deliver("chaos1", 400_000_000, vm.NewMsgRun(a.addr, nil, []*std.MemFile{{Name: "main.gno", Body: scriptSourceC07(in, pr.needCur)}}))
			case "init":
				name := fmt.Sprintf("rinit%d", i)
				r = w.deliver("chaos1", 900_000_000, vm.MsgAddPackage{Creator: a.addr, Package: memPkg("gno.land/r/sim/"+name, map[string]string{name + ".gno": initSource(name, in, false)})})
			default: // realm: deploy a one-program realm, then call it
				rd := &raider{name: fmt.Sprintf("solo%d", i), insts: []c07Inst{in}}
				rd.path = "gno.land/r/sim/" + rd.name
				r = w.deliver("chaos1", 900_000_000, w.deployMsg("chaos1", rd))
				if r.ok() {
					fn := "A0"
					if host == "helper" && !pr.needCur {
						fn = "B0"
					}
					r = w.deliver("chaos1", 400_000_000, vm.NewMsgCall(a.addr, nil, rd.path, fn, nil))
				} else {
					r.Log = "DEPLOY: " + r.Log
				}
			}
		})
		au, _ := newAuditor(w.ref.disk, w.height)
		cur := au.victimRecords(w.victimID)
		ch, gone, added := diffRecords(prevAll, cur)
		prevAll = cur
		got, _ := w.ref.qeval(citadelPath, "Dump()")
		state := "same"
		if got != `("`+w.model.dump()+`" string)` {
			state = "DUMP-DIFFERS " + got
		}
		out := "ok"
		if !r.ok() {
			out = "FAIL " + abortReason(r) + " " + failReason(r) + tcDetail(r)
			if strings.HasPrefix(r.Log, "DEPLOY: ") {
				out = "DEPLOY-" + out
			}
		}
		if host != "script" && host != "init" && (pr.class == clsPersist || pr.class == clsObserve) {
			k1, e1 := w.ref.qeval(fmt.Sprintf("gno.land/r/sim/solo%d", i), "Kept()")
			u1, e2 := w.ref.qeval(fmt.Sprintf("gno.land/r/sim/solo%d", i), "Use()")
			if err := w.ref.restart(); err != nil {
				state += " RESTART-FAILS " + err.Error()
			}
			k2, e3 := w.ref.qeval(fmt.Sprintf("gno.land/r/sim/solo%d", i), "Kept()")
			u2, e4 := w.ref.qeval(fmt.Sprintf("gno.land/r/sim/solo%d", i), "Use()")
			state += fmt.Sprintf(" kept=%s/%v use=%s/%v after-restart kept=%s/%v use=%s/%v", k1, e1, u1, e2, k2, e3, u2, e4)
		}
		row := fmt.Sprintf("%4d %-9s %-60s %s | records changed=%d gone=%d added=%d | %s", i, c07ClassNames[pr.class], pr.id, out, len(ch), len(gone), len(added), state)
		rows = append(rows, row)
		c.Event("%s", row)
	}
	w.r.Sample = map[string]any{"rows": rows, "scalars": len(c07Scalars()), "total": len(w.all)}
	w.r.Nontrivial = true
	return w.r
}

func init() { engines["C07"] = runAuthority }

func tcDetail(r txResult) string {
	if strings.Contains(r.Err, "TypeCheck") {
		return " " + clip(r.Log, 700)
	}
	return ""
}
