package chain

import (
	"bytes"
	"fmt"
	"strconv"
	"strings"
	"time"

	"github.com/gnolang/gno/gno.land/pkg/sdk/vm"
	"github.com/gnolang/gno/tm2/pkg/std"

	"verif/sim/coop"
	"verif/sim/kernel"
)

// C28: queries never interfere with consensus and see one committed version.
//
// Two kinds of cooperative tasks share ONE application: the consensus task
// (BeginBlock / DeliverTx* / EndBlock / Commit) and query tasks (vm/qeval,
// params, vm/qfile, .app/simulate). Exactly one task runs at a time; every
// operation on the simulated disk (Get / Has / iterator / snapshot / batch
// write) is a yield point where the seeded scheduler may switch tasks, so a
// query can be suspended in the middle of loading its stores or reading an
// object while Commit's atomic write and snapshot refresh happen, and vice versa.
//
// Oracles: (i) app hashes and tx results equal those of an idle twin that
// executed the same blocks without any query; (ii) the box realm keeps
// a.N == b.N == param "pair" at every committed height (PairBump updates the three
// in one tx): a query seeing unequal values saw two heights; (iii) every query
// result equals the idle twin's answer at SOME height between the committed height
// when the query started and when it ended.
//
// Query tasks take a cooperative query mutex around each request, as the node's query
// connection does (proxy.localClientCreator.queryMtx): queries interleave with the
// consensus calls at every disk operation, but never with each other.
//
// One run in four uses a disk without snapshot support (simdb.NoSnap: NewSnapshot errors as
// goleveldb/boltdb/lmdbdb/mdbxdb do), which drives rootmulti's ImmutableDB-over-the-live-DB
// fallback. Isolation violations there carry the signature "no-snapshot-backend" so that
// the known finding recorded for that fallback (KNOWN_FINDINGS.jsonl) never hides a torn
// read on the snapshot path; the interference oracles (i) stay fully armed in both modes.

func init() { engines["C28"] = runQueries }

type qrec struct {
	pair string // "a,b"
	prm  string // params value
	dump string
}

func runQueries(c *kernel.Choices, p kernel.Params) *kernel.Result {
	w := &world{c: c, r: kernel.NewResult(), p: p, prop: "C28", emptyKeys: map[string]bool{}, dynPkgs: map[string]bool{}, knownSeen: map[string]bool{}}
	w.img = baseImage(3_000_000_000)
	w.acts = newActors()
	w.bal = map[string]int64{}
	w.box = newBoxModel()
	w.height = 1
	w.now = genesisTime.Add(time.Second)
	idle := w.openNode("idle")
	defer func() { idle.app.Close() }()
	au, err := newAuditor(idle.disk, 1)
	if err != nil {
		kernel.Harnessf("auditor: %v", err)
	}
	for nm, a := range w.acts {
		if seq, num, bal, ok := au.account(a.addr); ok {
			w.bal[nm], a.seq, a.num = bal, seq, num
		}
	}
	noSnap := c.Chance(1, 4) // backends without snapshot support: queries fall back to an ImmutableDB over the live DB

	// ---- 1. generate the block sequence and execute it on the idle twin --------------
	nblocks := 4 + c.Intn(6)
	type blk struct {
		spec blockSpec
		res  blockResult
	}
	var blocks []blk
	answers := map[int64]qrec{}
	record := func(h int64) {
		pr, _ := idle.qeval(boxPath, "Pair()")
		dm, _ := idle.qeval(boxPath, "Dump()")
		q := idle.query("params/vm:"+boxPath+":pair", nil)
		answers[h] = qrec{pair: pr, prm: string(q.Data), dump: dm}
	}
	record(1)
	alice := w.acts["alice"]
	for i := 0; i < nblocks; i++ {
		w.height++
		w.now = w.now.Add(5 * time.Second)
		b := blockSpec{Height: w.height, Time: w.now}
		ntx := 1 + c.Intn(3)
		for j := 0; j < ntx; j++ {
			var msgs []std.Msg
			switch c.Intn(4) {
			case 0, 1:
				msgs = []std.Msg{vm.NewMsgCall(alice.addr, nil, boxPath, "PairBump", nil)}
			case 2:
				msgs = []std.Msg{vm.NewMsgCall(alice.addr, nil, boxPath, "Push", []string{fmt.Sprintf("q%d", i*10+j)}), vm.NewMsgCall(alice.addr, nil, boxPath, "PairBump", nil)}
			default:
				msgs = []std.Msg{vm.NewMsgCall(alice.addr, nil, boxPath, "Grow", []string{"2", "40"})}
			}
			tx := mkTx(msgs, 50_000_000, 1_000_000, alice)
			alice.seq++
			b.Txs = append(b.Txs, encTx(tx))
		}
		res := idle.runBlock(b)
		for k, tr := range res.Txs {
			if !tr.ok() {
				kernel.Harnessf("workload tx %d of height %d failed on the idle twin: %s %s", k, b.Height, tr.Err, clip(tr.Log, 300))
			}
		}
		blocks = append(blocks, blk{b, res})
		record(b.Height)
	}
	c.Event("queries run: %d blocks, noSnapshot=%v", nblocks, noSnap)

	// ---- 2. the same blocks on a node that is being queried ------------------------------
	qn := w.openNode("queried")
	defer func() { qn.app.Close() }()
	qn.disk.NoSnap = noSnap
	if noSnap {
		// the query snapshot taken at load time must be dropped too: restart under the no-snapshot configuration
		if err := qn.restart(); err != nil {
			kernel.Harnessf("restart queried node: %v", err)
		}
	}
	sched := coop.New(c)
	committed := int64(1) // last height whose Commit has RETURNED on the queried node
	qn.mach.Yield = func(op string) { coop.Yield(op) }
	// knob fsyncwin (recorded in replay files, so tapes recorded without it keep their meaning): a query may also be
	// scheduled inside Commit's WriteSync, after the batch became visible and before the call returns
	qn.mach.YieldAfterSync = p.Knob("fsyncwin", "0") != "0"
	defer func() { qn.mach.Yield = nil }()

	if noSnap {
		w.r.Probe("runs_no_snapshot_backend")
	} else {
		w.r.Probe("runs_snapshot_backend")
	}
	violation := func(oracle, format string, args ...any) {
		w.fail("C28", oracle, format, args...)
	}
	// isolation reports whether the run must stop. On the no-snapshot fallback a listed
	// known finding is recorded once per oracle and the run goes on (the interference
	// oracles still have blocks to check); anything not listed is a violation.
	isolation := func(oracle, format string, args ...any) (stop bool) {
		sig := "snapshot-backend"
		if noSnap {
			sig = "no-snapshot-backend"
		}
		v := &kernel.Violation{Property: "C28", Oracle: oracle, Signature: sig, Msg: fmt.Sprintf(format, args...)}
		if noSnap && w.p.IsKnown(v) != nil {
			if !w.knownSeen[oracle] {
				w.knownSeen[oracle] = true
				w.r.Known = append(w.r.Known, *v)
			}
			w.r.Probe("known_unisolated_read_on_no_snapshot_backend")
			return false
		}
		if w.r.Violation == nil {
			w.r.Violation = v
		}
		w.stop = true
		return true
	}
	queryBusy := false // the query connection's mutex
	sched.Go("consensus", func() {
		for _, bl := range blocks {
			if w.stop {
				return
			}
			got := qn.runBlock(bl.spec)
			for i := range bl.res.Txs {
				if got.Txs[i].key() != bl.res.Txs[i].key() {
					violation("tx-result-vs-idle-twin", "height %d tx %d: %s on the queried node, %s on the idle twin", bl.spec.Height, i, got.Txs[i].key(), bl.res.Txs[i].key())
					return
				}
			}
			if !bytes.Equal(got.AppHash, bl.res.AppHash) {
				violation("app-hash-vs-idle-twin", "height %d: app hash %X on the queried node, %X on the idle twin", bl.spec.Height, got.AppHash, bl.res.AppHash)
				return
			}
			committed = bl.spec.Height
			c.Event("consensus committed h%d", committed)
		}
	})
	nq := 1 + c.Intn(3)
	for qi := 0; qi < nq; qi++ {
		name := fmt.Sprintf("query%d", qi)
		count := 3 + c.Intn(10)
		kinds := make([]int, count)
		for i := range kinds {
			kinds[i] = c.Intn(5)
		}
		sched.Go(name, func() {
			for _, kind := range kinds {
				if w.stop {
					return
				}
				coop.Block("queryMtx", func() bool { return !queryBusy })
				queryBusy = true
				h0 := committed
				var got, what string
				switch kind {
				case 0, 1:
					what = "qeval Pair()"
					got, _ = qn.qeval(boxPath, "Pair()")
				case 2:
					what = "params pair"
					got = string(qn.query("params/vm:"+boxPath+":pair", nil).Data)
				case 3:
					what = "qeval Dump()"
					got, _ = qn.qeval(boxPath, "Dump()")
				default:
					what = "qfile"
					got = string(qn.query("vm/qfile", []byte(boxPath)).Data)
				}
				h1 := committed
				queryBusy = false
				w.r.Probe("queries")
				if h1 != h0 {
					w.r.Probe("queries_spanning_a_commit")
				}
				c.Event("%s %s started at h%d ended at h%d -> %s", name, what, h0, h1, clip(got, 60))
				// a Commit that has written its batch but not yet returned may already be visible: allow h1+1
				ok := false
				var want []string
				for h := h0; h <= h1+1 && h <= int64(len(blocks))+1; h++ {
					a, exists := answers[h]
					if !exists {
						continue
					}
					var exp string
					switch kind {
					case 0, 1:
						exp = a.pair
					case 2:
						exp = a.prm
					case 3:
						exp = a.dump
					default:
						exp = got // file list never changes
					}
					want = append(want, fmt.Sprintf("h%d:%s", h, clip(exp, 60)))
					if exp == got {
						ok = true
					}
				}
				if kind <= 1 && got != "" {
					// torn read detector: a.N and b.N are bumped together
					inner := strings.TrimSuffix(strings.TrimPrefix(got, `("`), `" string)`)
					parts := strings.Split(inner, ",")
					if len(parts) == 2 && parts[0] != parts[1] {
						if isolation("torn-read", "%s returned %s: the two objects are updated together in one tx, so this query mixed two heights", what, got) {
							return
						}
						continue
					}
					if _, err := strconv.Atoi(parts[0]); err != nil {
						ok = false
					}
				}
				if !ok {
					if isolation("query-not-at-one-committed-height", "%s started at committed height %d and ended at %d returned %q, which is the answer at none of those heights (%v)", what, h0, h1, clip(got, 200), want) {
						return
					}
				}
			}
		})
	}
	err = sched.Run(2_000_000)
	sched.Kill()
	if err != nil && !w.stop {
		switch e := err.(type) {
		case *coop.TaskPanic:
			w.fail("C28", "panic-under-interleaving", "a task panicked under this interleaving: %v", e)
		default:
			kernel.Harnessf("scheduler: %v", err)
		}
	}
	w.r.Steps = int(sched.Stamp())
	w.r.Probes["blocks"] += len(blocks)
	w.r.Nontrivial = w.r.Probes["queries_spanning_a_commit"] > 0 || w.r.Probes["queries"] > 2
	w.r.Sample = map[string]any{"events": c.Log[:min(len(c.Log), 40)]}
	return w.r
}
