package chain

import (
	"bytes"
	"fmt"
	"os"
	"path/filepath"
	"time"

	"github.com/gnolang/gno/gno.land/pkg/gnoland"
	"github.com/gnolang/gno/gno.land/pkg/sdk/vm"
	abci "github.com/gnolang/gno/tm2/pkg/bft/abci/types"
	bft "github.com/gnolang/gno/tm2/pkg/bft/types"
	"github.com/gnolang/gno/tm2/pkg/crypto"
	"github.com/gnolang/gno/tm2/pkg/sdk/bank"
	"github.com/gnolang/gno/tm2/pkg/sdk/params"
	"github.com/gnolang/gno/tm2/pkg/std"

	"verif/sim/kernel"
	"verif/sim/simdb"
)

// C53: the same generated genesis document is applied (A) in memory
// (GnoGenesisState decoded from the file) and (B) streamed from the on-disk
// cache (LoadStreamingGenesisDoc → *GenesisStateRef); InitChain responses and
// the first commit hash must agree; a crash at the first commit's physical write
// followed by a restart and a second InitChain must reproduce them too; and a
// cold re-open after the commit must report the same hash.

func genRealmSrc(c *kernel.Choices, name string, i int) map[string]string {
	body := fmt.Sprintf("package %s\n\nvar n = %d\nvar log []string\n\nfunc Bump(cur realm, by int) int { n += by; log = append(log, \"b\"); return n }\n\nfunc Get() int { return n }\n", name, i)
	switch c.Intn(6) {
	case 0: // does not type-check: the deployment tx fails
		body += "\nfunc Broken() int { return undefinedSymbol }\n"
	case 1: // init panics: the deployment tx fails
		body += "\nfunc init() { panic(\"no\") }\n"
	case 2: // init with state
		body += "\nfunc init() { n *= 3; log = append(log, \"init\") }\n"
	}
	return map[string]string{name + ".gno": body}
}

func runGenesis(c *kernel.Choices, p kernel.Params) *kernel.Result {
	r := kernel.NewResult()
	fail := func(oracle, format string, args ...any) *kernel.Result {
		r.Fail("C53", oracle, format, args...)
		return r
	}
	scratch := os.Getenv("VERIF_SCRATCH")
	if scratch == "" {
		scratch = os.TempDir()
	}
	dir, err := os.MkdirTemp(scratch, "genesis-")
	if err != nil {
		kernel.Harnessf("mkdtemp: %v", err)
	}
	defer os.RemoveAll(dir)

	// ---- generate the genesis state ------------------------------------------------
	st := gnoland.DefaultGenState()
	nacc := 1 + c.Intn(6)
	var accs []*actor
	for i := 0; i < nacc; i++ {
		a := newActor(fmt.Sprintf("g%d", i))
		accs = append(accs, a)
		st.Balances = append(st.Balances, gnoland.Balance{Address: a.addr, Amount: coins(int64(1_000_000_000 + c.Intn(1_000_000)))})
	}
	fee := std.NewFee(100_000_000, std.NewCoin("ugnot", 1_000_000))
	ntx := c.Intn(8)
	var deployed []string
	for i := 0; i < ntx; i++ {
		a := accs[c.Intn(len(accs))]
		var msg std.Msg
		switch c.Intn(4) {
		case 0, 1:
			name := fmt.Sprintf("gen%d", i)
			path := "gno.land/r/sim/" + name
			if len(deployed) > 0 && c.Intn(5) == 0 {
				path = deployed[c.Intn(len(deployed))] // colliding path: must fail
				name = filepath.Base(path)
			}
			msg = vm.MsgAddPackage{Creator: a.addr, Package: memPkg(path, genRealmSrc(c, name, i))}
			deployed = append(deployed, path)
		case 2:
			if len(deployed) == 0 {
				msg = bank.NewMsgSend(a.addr, accs[c.Intn(len(accs))].addr, coins(int64(1+c.Intn(1000))))
			} else {
				msg = vm.NewMsgCall(a.addr, nil, deployed[c.Intn(len(deployed))], "Bump", []string{fmt.Sprint(c.Intn(9))})
			}
		default:
			to := accs[c.Intn(len(accs))].addr
			if c.Intn(3) == 0 {
				to = crypto.AddressFromPreimage([]byte(fmt.Sprintf("fresh%d", i)))
			}
			amt := int64(1 + c.Intn(5000))
			if c.Intn(6) == 0 {
				amt = 5_000_000_000_000 // more than the balance: fails
			}
			msg = bank.NewMsgSend(a.addr, to, coins(amt))
		}
		tx := std.Tx{Msgs: []std.Msg{msg}, Fee: fee}
		tx.Signatures = make([]std.Signature, len(tx.GetSigners()))
		twm := gnoland.TxWithMetadata{Tx: tx}
		// per-tx metadata (hardfork replay): absent, or a drawn subset of its optional fields, so that
		// consecutive txs differ in WHICH fields they carry (a decoder that reuses a value across txs shows)
		switch c.Intn(6) {
		case 0, 1, 2:
		case 3:
			twm.Metadata = &gnoland.GnoTxMetadata{Timestamp: genesisTime.Add(-time.Duration(c.Intn(1000)) * time.Hour).Unix()}
		case 4: // failed on the source chain: skipped at replay
			twm.Metadata = &gnoland.GnoTxMetadata{Timestamp: genesisTime.Add(-time.Duration(c.Intn(1000)) * time.Hour).Unix(), Failed: true,
				GasUsed: int64(1000 + c.Intn(100000)), Source: gnoland.SourceHistorical}
		default: // historical tx: original height (the ante then verifies its — absent — signatures: fails the same way everywhere)
			twm.Metadata = &gnoland.GnoTxMetadata{Timestamp: int64(c.Intn(2)) * genesisTime.Add(-time.Duration(c.Intn(1000)) * time.Hour).Unix(),
				BlockHeight: int64(c.Intn(3)) * int64(1+c.Intn(5000)), GasWanted: int64(c.Intn(2)) * 50_000_000, Note: []string{"", "patched: see issue"}[c.Intn(2)],
				Source: []string{"", gnoland.SourceMigration, gnoland.SourcePatched}[c.Intn(3)]}
		}
		st.Txs = append(st.Txs, twm)
	}
	if c.Bool() {
		st.VM.RealmParams = []params.Param{
			params.NewParam("gno.land/r/sys/testrealm:bar_string", fmt.Sprintf("s%d", c.Intn(100))),
			params.NewParam("gno.land/r/sys/testrealm:bar_int64", int64(c.Intn(1000))-500),
			params.NewParam("gno.land/r/sys/testrealm:bar_bool", c.Bool()),
		}
	}
	c.Event("genesis: %d balances, %d txs, %d realm params", len(st.Balances), len(st.Txs), len(st.VM.RealmParams))

	cp := *defaultConsensusParams(3_000_000_000)
	cp.Validator = &abci.ValidatorParams{PubKeyTypeURLs: []string{"/tm.PubKeyEd25519"}}
	doc := &bft.GenesisDoc{GenesisTime: genesisTime, ChainID: chainID, ConsensusParams: cp, AppState: st}
	path := filepath.Join(dir, "genesis.json")
	if err := doc.SaveAs(path); err != nil {
		kernel.Harnessf("saving genesis: %v", err)
	}
	memDoc, err := bft.GenesisDocFromFile(path)
	if err != nil {
		kernel.Harnessf("re-reading genesis: %v", err)
	}
	streamDoc, err := gnoland.LoadStreamingGenesisDoc(path, filepath.Join(dir, "cache"), nil)
	if err != nil {
		return fail("streaming-load-error", "LoadStreamingGenesisDoc rejects a genesis file that GenesisDocFromFile accepts: %v", err)
	}

	type outcome struct {
		txs  []string
		hash []byte
		disk *simdb.Disk
	}
	apply := func(name string, appState any, crashFirst bool) (outcome, *kernel.Result) {
		mach := simdb.NewMachine()
		disk := simdb.NewDisk(name, mach)
		attempt := 0
	again:
		attempt++
		n, err := newNode(name, disk)
		if err != nil {
			return outcome{}, fail("open-error", "%s: %v", name, err)
		}
		res := n.app.InitChain(abci.RequestInitChain{Time: genesisTime, ChainID: chainID,
			ConsensusParams: defaultConsensusParams(3_000_000_000), Validators: []abci.ValidatorUpdate{}, AppState: appState})
		if res.Error != nil {
			return outcome{}, fail("initchain-error", "%s: InitChain failed: %v %s", name, res.Error, clip(res.Log, 400))
		}
		var o outcome
		for _, tr := range res.TxResponses {
			o.txs = append(o.txs, resultOf(tr).key())
		}
		b := blockSpec{Height: 1, Time: genesisTime.Add(time.Second)}
		n.beginBlock(b)
		if crashFirst && attempt == 1 {
			mach.CrashAt = mach.Ops + 1
			if !guardCrash(func() { n.endBlockCommit(b) }) {
				kernel.Harnessf("first commit issued no physical write")
			}
			disk.Crash(disk.Unsynced())
			mach.Reboot()
			r.Fault("crash_at_first_commit")
			c.Event("%s: crash at the first commit's write; restarting from the (empty) disk", name)
			if disk.Len() != 0 {
				return outcome{}, fail("partial-genesis-on-disk", "%s: a crash before the first commit's only write left %d keys on disk", name, disk.Len())
			}
			goto again
		}
		o.hash = n.endBlockCommit(b)
		o.disk = disk
		n.app.Close()
		return o, nil
	}
	crashA, crashB := c.Chance(1, 3), c.Chance(1, 3)
	a, bad := apply("mem", memDoc.AppState, crashA)
	if bad != nil {
		return bad
	}
	b, bad := apply("stream", streamDoc.AppState, crashB)
	if bad != nil {
		return bad
	}
	c.Event("in-memory: %d tx results hash %X; streamed: %d tx results hash %X", len(a.txs), a.hash, len(b.txs), b.hash)
	if len(a.txs) != len(b.txs) {
		return fail("tx-count", "in-memory application returned %d genesis tx results, streamed %d", len(a.txs), len(b.txs))
	}
	nfail := 0
	for i := range a.txs {
		if a.txs[i] != b.txs[i] {
			return fail("tx-result", "genesis tx %d: in-memory %s, streamed %s", i, a.txs[i], b.txs[i])
		}
		if !bytes.Contains([]byte(a.txs[i]), []byte("err= ")) {
			nfail++
		}
	}
	if !bytes.Equal(a.hash, b.hash) {
		return fail("app-hash", "first commit hash %X (in-memory) vs %X (streamed from disk)", a.hash, b.hash)
	}
	// logical contents (independent multistore over each durable image). Raw images may
	// legitimately differ in rootmulti's commitInfo record, whose store order follows Go
	// map iteration; it does not enter the app hash.
	aua, err := newAuditor(a.disk, 1)
	if err != nil {
		return fail("audit-store-unloadable", "in-memory image: %v", err)
	}
	aub, err := newAuditor(b.disk, 1)
	if err != nil {
		return fail("audit-store-unloadable", "streamed image: %v", err)
	}
	if d := diffKeys(aua.dump(), aub.dump()); len(d) > 0 {
		return fail("state-contents", "%d logical keys differ between the in-memory and the streamed application, first %s", len(d), shortKey(d[0]))
	}
	// cold reopen reports the same committed hash
	n, err := newNode("reopen", b.disk)
	if err != nil {
		return fail("reopen-error", "cannot reopen after genesis: %v", err)
	}
	if !bytes.Equal(n.last, a.hash) || n.height != 1 {
		return fail("reopen-hash", "reopened node at height %d hash %X, committed %X", n.height, n.last, a.hash)
	}
	n.app.Close()
	r.Probes["genesis_txs"] += len(a.txs)
	r.Probes["genesis_txs_failed"] += nfail
	r.Steps = len(a.txs)
	r.Nontrivial = len(a.txs) >= 2
	r.Sample = map[string]any{"events": c.Log}
	return r
}
