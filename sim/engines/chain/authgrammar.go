package chain

import (
	"fmt"
	"strings"
)

// The C07 attack grammar: program = access path x operation, wrapped, hosted.

type c07Class int

const (
	clsWrite     c07Class = iota // targets memory owned by the victim: must be refused
	clsCopy                      // lands in a copy / in memory the attacker owns: either outcome, victim untouched
	clsRead                      // only reads: must succeed
	clsConstruct                 // builds a value of a victim-declared type outside the victim: must fail
	clsPersist                   // keeps a realm value in persisted state: must fail
	clsObserve                   // outcome recorded only (the specification is silent or explicitly permissive)
	clsResidue                   // a refused write recovered by the program, then the touched container is kept / dirtied legitimately: no value-level residue
)

var c07ClassNames = []string{"forbidden-write", "copy-write", "read", "construct", "persist-realm", "observe", "recovered-write-then-dirty"}

type c07Prog struct {
	id        string
	cat       string // drawing category
	path      string // access-path kind (evidence bucket)
	op        string // operation kind (evidence bucket)
	pre       string // statements acquiring the alias
	stmt      string // the operation; V is the value written
	class     c07Class
	static    bool   // refused when the package is preprocessed: scripts and init deployments only
	needCur   bool   // needs `cur` (a crossing function)
	needState bool   // uses the attacker realm's package variables
	mayAlloc  bool   // may, by design, allocate records under the victim's package id
	sig       string // violation signature of a construct / persist program (root cause class)
	noWrap    bool   // the program brings its own recover(): no outer wrapper
	keepsRef  bool   // keeps a reference to a victim object in the attacker's state (refcount/escape metadata of the victim's records legitimately move)
	bump      int    // 1+k: the program itself cross-calls citadel.Bump(k) after the recovered write
	follow    string // a later message of the same tx: "keep:<j>" (attacker realm's Keep<j>) or "bump:<k>" (citadel.Bump(k))
}

var c07Cats = []string{"scalar", "container", "read", "construct", "persist", "copy", "observe", "static", "residue"}
var c07CatWeights = []int{10, 9, 2, 3, 3, 2, 1, 1, 6}

var c07Wraps = []string{"direct", "closure", "defer", "captured", "captured-defer", "recover", "nested-defer"}
var c07WrapWeights = []int{6, 2, 2, 2, 1, 1, 1}

// ---- scalar targets -----------------------------------------------------------------

type c07Target struct {
	name, kind string
	pre, lv    string
	typ        byte // 'i' int, 's' string, 'b' byte
	addr       bool // &lv is legal
	alias      bool // lv is memory owned by the victim
	static     bool // lv is a package-level variable of the victim (plain assignment is refused statically)
	mapEl      bool
}

var c07Targets = []c07Target{
	// selector / index chains on exported variables
	{name: "S.In.A", kind: "selector", lv: "citadel.S.In.A", typ: 'i', addr: true, alias: true},
	{name: "S.P.A", kind: "selector", lv: "citadel.S.P.A", typ: 'i', addr: true, alias: true},
	{name: "P.A", kind: "selector", lv: "citadel.P.A", typ: 'i', addr: true, alias: true},
	{name: "S.Arr[1]", kind: "selector", lv: "citadel.S.Arr[1]", typ: 'i', addr: true, alias: true},
	{name: "Arr[2]", kind: "selector", lv: "citadel.Arr[2]", typ: 'i', addr: true, alias: true},
	{name: "Sl[0]", kind: "selector", lv: "citadel.Sl[0]", typ: 'i', addr: true, alias: true},
	{name: "S.Sl[1]", kind: "selector", lv: "citadel.S.Sl[1]", typ: 'i', addr: true, alias: true},
	{name: "S.Ins[1].A", kind: "selector", lv: "citadel.S.Ins[1].A", typ: 'i', addr: true, alias: true},
	{name: "S.MP[a].A", kind: "selector", lv: `citadel.S.MP["a"].A`, typ: 'i', addr: true, alias: true},
	{name: "Ptrs[0].A", kind: "selector", lv: "citadel.Ptrs[0].A", typ: 'i', addr: true, alias: true},
	{name: "Ptrs[1].A", kind: "selector", lv: "citadel.Ptrs[1].A", typ: 'i', addr: true, alias: true},
	{name: "L[0]", kind: "declared-type", lv: "citadel.L[0]", typ: 'i', addr: true, alias: true},
	{name: "S.In.B", kind: "selector", lv: "citadel.S.In.B", typ: 's', addr: true, alias: true},
	{name: "P.B", kind: "selector", lv: "citadel.P.B", typ: 's', addr: true, alias: true},
	{name: "By[0]", kind: "selector", lv: "citadel.By[0]", typ: 'b', addr: true, alias: true},
	{name: "S.By[1]", kind: "selector", lv: "citadel.S.By[1]", typ: 'b', addr: true, alias: true},
	// maps
	{name: "M[a]", kind: "map", lv: `citadel.M["a"]`, typ: 'i', alias: true, mapEl: true},
	{name: "M[new]", kind: "map", lv: `citadel.M["zz"]`, typ: 'i', alias: true, mapEl: true},
	{name: "S.M[b]", kind: "map", lv: `citadel.S.M["b"]`, typ: 'i', alias: true, mapEl: true},
	{name: "GetMap()[a]", kind: "getter-map", lv: `citadel.GetMap()["a"]`, typ: 'i', alias: true, mapEl: true},
	{name: "D[a]", kind: "declared-type", lv: `citadel.D["a"]`, typ: 'i', alias: true, mapEl: true},
	{name: "GetDict()[a]", kind: "getter-map", lv: `citadel.GetDict()["a"]`, typ: 'i', alias: true, mapEl: true},
	{name: "GetStruct().M[a]", kind: "getter-copy", lv: `citadel.GetStruct().M["a"]`, typ: 'i', alias: true, mapEl: true},
	// pointer dereference
	{name: "*PI", kind: "ptr-deref", lv: "*citadel.PI", typ: 'i', addr: true, alias: true},
	{name: "*S.PI", kind: "ptr-deref", lv: "*citadel.S.PI", typ: 'i', addr: true, alias: true},
	{name: "*GetIntPtr()", kind: "getter-ptr", lv: "*citadel.GetIntPtr()", typ: 'i', addr: true, alias: true},
	{name: "*GetCounterPtr()", kind: "getter-ptr", lv: "*citadel.GetCounterPtr()", typ: 'i', addr: true, alias: true},
	{name: "(*GetPtr()).A", kind: "getter-ptr", lv: "(*citadel.GetPtr()).A", typ: 'i', addr: true, alias: true},
	// getter-returned aliases
	{name: "GetPtr().A", kind: "getter-ptr", lv: "citadel.GetPtr().A", typ: 'i', addr: true, alias: true},
	{name: "p:=GetPtr();p.A", kind: "getter-ptr", pre: "p := citadel.GetPtr()", lv: "p.A", typ: 'i', addr: true, alias: true},
	{name: "GetPtr().B", kind: "getter-ptr", lv: "citadel.GetPtr().B", typ: 's', addr: true, alias: true},
	{name: "GetInPtr().A", kind: "getter-ptr", lv: "citadel.GetInPtr().A", typ: 'i', addr: true, alias: true},
	{name: "GetDeepPtr().In.A", kind: "getter-ptr", lv: "citadel.GetDeepPtr().In.A", typ: 'i', addr: true, alias: true},
	{name: "GetDeepPtr().Arr[2]", kind: "getter-ptr", lv: "citadel.GetDeepPtr().Arr[2]", typ: 'i', addr: true, alias: true},
	{name: "GetDeepPtr().Sl[0]", kind: "getter-ptr", lv: "citadel.GetDeepPtr().Sl[0]", typ: 'i', addr: true, alias: true},
	{name: "GetArrPtr()[1]", kind: "getter-ptr", lv: "citadel.GetArrPtr()[1]", typ: 'i', addr: true, alias: true},
	{name: "GetPtrs()[1].A", kind: "getter-slice", lv: "citadel.GetPtrs()[1].A", typ: 'i', addr: true, alias: true},
	{name: "GetSlice()[0]", kind: "getter-slice", lv: "citadel.GetSlice()[0]", typ: 'i', addr: true, alias: true},
	{name: "s:=GetSlice();s[2]", kind: "getter-slice", pre: "s := citadel.GetSlice()", lv: "s[2]", typ: 'i', addr: true, alias: true},
	{name: "GetSub()[0]", kind: "getter-slice", lv: "citadel.GetSub()[0]", typ: 'i', addr: true, alias: true},
	{name: "GetList()[1]", kind: "getter-slice", lv: "citadel.GetList()[1]", typ: 'i', addr: true, alias: true},
	{name: "GetBytes()[2]", kind: "getter-slice", lv: "citadel.GetBytes()[2]", typ: 'b', addr: true, alias: true},
	// aliases reached through a struct COPY (its reference fields still point into the victim)
	{name: "GetStruct().P.A", kind: "getter-copy", lv: "citadel.GetStruct().P.A", typ: 'i', addr: true, alias: true},
	{name: "GetStruct().Sl[0]", kind: "getter-copy", lv: "citadel.GetStruct().Sl[0]", typ: 'i', addr: true, alias: true},
	{name: "sc:=S;sc.Sl[1]", kind: "getter-copy", pre: "sc := citadel.S", lv: "sc.Sl[1]", typ: 'i', addr: true, alias: true},
	{name: "sc:=GetStruct();*sc.PI", kind: "getter-copy", pre: "sc := citadel.GetStruct()", lv: "*sc.PI", typ: 'i', addr: true, alias: true},
	// interface wrapping a pointer: type assertion, then write
	{name: "GetIface().(*Inner).A", kind: "iface-assert", lv: "citadel.GetIface().(*citadel.Inner).A", typ: 'i', addr: true, alias: true},
	{name: "Box.(*Inner).A", kind: "iface-assert", lv: "citadel.Box.(*citadel.Inner).A", typ: 'i', addr: true, alias: true},
	{name: "S.Any.(*Inner).A", kind: "iface-assert", lv: "citadel.S.Any.(*citadel.Inner).A", typ: 'i', addr: true, alias: true},
	{name: "GetPeeker().(*Inner).A", kind: "iface-assert", lv: "citadel.GetPeeker().(*citadel.Inner).A", typ: 'i', addr: true, alias: true},
	{name: "x:=GetIface();x.(*Inner).B", kind: "iface-assert", pre: "x := citadel.GetIface()", lv: "x.(*citadel.Inner).B", typ: 's', addr: true, alias: true},
	{name: "typeswitch(Box).A", kind: "iface-assert", pre: "var ip *citadel.Inner\n\tswitch t := citadel.Box.(type) {\n\tcase *citadel.Inner:\n\t\tip = t\n\t}", lv: "ip.A", typ: 'i', addr: true, alias: true},
	// function / method values
	{name: "f:=GetPtr;f().A", kind: "func-value", pre: "f := citadel.GetPtr", lv: "f().A", typ: 'i', addr: true, alias: true},
	{name: "f:=GetSlice;f()[1]", kind: "func-value", pre: "f := citadel.GetSlice", lv: "f()[1]", typ: 'i', addr: true, alias: true},
	{name: "f:=GetMap;f()[b]", kind: "func-value", pre: "f := citadel.GetMap", lv: `f()["b"]`, typ: 'i', alias: true, mapEl: true},
	// address-of, re-slicing
	{name: "q:=&S.Arr[1];*q", kind: "addr-of", pre: "q := &citadel.S.Arr[1]", lv: "*q", typ: 'i', addr: true, alias: true},
	{name: "q:=&Sl[0];*q", kind: "addr-of", pre: "q := &citadel.Sl[0]", lv: "*q", typ: 'i', addr: true, alias: true},
	{name: "q:=&S.In.A;*q", kind: "addr-of", pre: "q := &citadel.S.In.A", lv: "*q", typ: 'i', addr: true, alias: true},
	{name: "q:=&S.In;q.A", kind: "addr-of", pre: "q := &citadel.S.In", lv: "q.A", typ: 'i', addr: true, alias: true},
	{name: "q:=&Counter;*q", kind: "addr-of", pre: "q := &citadel.Counter", lv: "*q", typ: 'i', addr: true, alias: true},
	{name: "q:=&S;q.In.A", kind: "addr-of", pre: "q := &citadel.S", lv: "q.In.A", typ: 'i', addr: true, alias: true},
	{name: "q:=&Arr;q[3]", kind: "addr-of", pre: "q := &citadel.Arr", lv: "q[3]", typ: 'i', addr: true, alias: true},
	{name: "rs:=Sl[:];rs[2]", kind: "reslice", pre: "rs := citadel.Sl[:]", lv: "rs[2]", typ: 'i', addr: true, alias: true},
	{name: "ra:=S.Arr[:];ra[0]", kind: "reslice", pre: "ra := citadel.S.Arr[:]", lv: "ra[0]", typ: 'i', addr: true, alias: true},
	{name: "hc:=Sl[:cap];hc[4]", kind: "reslice", pre: "hc := citadel.Sl[:cap(citadel.Sl)]", lv: "hc[4]", typ: 'i', addr: true, alias: true},
	{name: "ga:=GetArrPtr()[1:3];ga[0]", kind: "reslice", pre: "ga := citadel.GetArrPtr()[1:3]", lv: "ga[0]", typ: 'i', addr: true, alias: true},
	// package-level variables directly
	{name: "Counter", kind: "pkgvar", lv: "citadel.Counter", typ: 'i', addr: true, alias: true, static: true},
	{name: "Name", kind: "pkgvar", lv: "citadel.Name", typ: 's', addr: true, alias: true, static: true},
	// true copies
	{name: "copy:sc.In.A", kind: "copy", pre: "sc := citadel.GetStruct()", lv: "sc.In.A", typ: 'i', addr: true},
	{name: "copy:sc.Arr[0]", kind: "copy", pre: "sc := citadel.S", lv: "sc.Arr[0]", typ: 'i', addr: true},
	{name: "copy:ic.A", kind: "copy", pre: "ic := citadel.GetInner()", lv: "ic.A", typ: 'i', addr: true},
	{name: "copy:ac[0]", kind: "copy", pre: "ac := citadel.Arr", lv: "ac[0]", typ: 'i', addr: true},
	{name: "copy:dp.A", kind: "copy", pre: "dp := *citadel.GetPtr()", lv: "dp.A", typ: 'i', addr: true},
	{name: "copy:n", kind: "copy", pre: "n := citadel.Counter\n\t_ = n", lv: "n", typ: 'i', addr: true},
}

type c07Op struct {
	name, kind string
	stmt       string // L = lvalue, V = value
	typs       string // target types it applies to
	needAddr   bool
	assign     bool // an assignment statement with L on its left-hand side
}

var c07Ops = []c07Op{
	{name: "assign", kind: "assign", stmt: "L = V", typs: "isb", assign: true},
	{name: "inc", kind: "incdec", stmt: "L++", typs: "ib"},
	{name: "dec", kind: "incdec", stmt: "L--", typs: "ib"},
	{name: "add-assign", kind: "compound", stmt: "L += V", typs: "isb", assign: true},
	{name: "sub-assign", kind: "compound", stmt: "L -= V", typs: "ib", assign: true},
	{name: "mul-assign", kind: "compound", stmt: "L *= 3", typs: "ib", assign: true},
	{name: "quo-assign", kind: "compound", stmt: "L /= 2", typs: "i", assign: true},
	{name: "rem-assign", kind: "compound", stmt: "L %= 7", typs: "i", assign: true},
	{name: "and-assign", kind: "compound", stmt: "L &= 6", typs: "ib", assign: true},
	{name: "or-assign", kind: "compound", stmt: "L |= 1", typs: "ib", assign: true},
	{name: "xor-assign", kind: "compound", stmt: "L ^= 5", typs: "ib", assign: true},
	{name: "shl-assign", kind: "compound", stmt: "L <<= 1", typs: "ib", assign: true},
	{name: "shr-assign", kind: "compound", stmt: "L >>= 1", typs: "ib", assign: true},
	{name: "andnot-assign", kind: "compound", stmt: "L &^= 1", typs: "ib", assign: true},
	{name: "multi-assign", kind: "multi-assign", stmt: "t0 := 0\n\tL, t0 = V, 1\n\t_ = t0", typs: "isb", assign: true},
	{name: "swap", kind: "swap", stmt: "t0 := V\n\tL, t0 = t0, L\n\t_ = t0", typs: "isb", assign: true},
	{name: "addr-deref", kind: "addr-write", stmt: "*(&L) = V", typs: "isb", needAddr: true},
	{name: "addr-local", kind: "addr-write", stmt: "a0 := &L\n\t*a0 = V", typs: "isb", needAddr: true},
	{name: "addr-inc", kind: "addr-write", stmt: "a0 := &L\n\t*a0++", typs: "ib", needAddr: true},
	{name: "addr-add", kind: "addr-write", stmt: "a0 := &L\n\t*a0 += V", typs: "isb", needAddr: true},
	{name: "poke.Int", kind: "p-func", stmt: "poke.Int(&L, V)", typs: "i", needAddr: true},
	{name: "poke.IntInc", kind: "p-func", stmt: "poke.IntInc(&L)", typs: "i", needAddr: true},
	{name: "poke.IntAdd", kind: "p-func", stmt: "poke.IntAdd(&L, V)", typs: "i", needAddr: true},
	{name: "poke.Any", kind: "p-func", stmt: "poke.Any(&L, V)", typs: "i", needAddr: true},
	{name: "defer-poke.Int", kind: "p-func", stmt: "defer poke.Int(&L, V)", typs: "i", needAddr: true},
	{name: "poke.Mint", kind: "p-closure", stmt: "poke.Mint(&L, V)()", typs: "i", needAddr: true},
	{name: "defer-poke.Mint", kind: "p-closure", stmt: "defer poke.Mint(&L, V)()", typs: "i", needAddr: true},
	{name: "poke.Poker.Hit", kind: "p-method", stmt: "poke.Poker{P: &L}.Hit(V)", typs: "i", needAddr: true},
	{name: "poke.Poker.HitPtr", kind: "p-method", stmt: "(&poke.Poker{P: &L}).HitPtr(V)", typs: "i", needAddr: true},
	{name: "poke.Poker.Hit-method-value", kind: "method-value", stmt: "mv0 := poke.Poker{P: &L}.Hit\n\tmv0(V)", typs: "i", needAddr: true},
	{name: "own.hitI", kind: "own-method", stmt: "(&own{i: &L}).hitI(V)", typs: "i", needAddr: true},
	{name: "own.hitI-method-value", kind: "method-value", stmt: "mv0 := (&own{i: &L}).hitI\n\tmv0(V)", typs: "i", needAddr: true},
	{name: "own.hitI-iface", kind: "own-method", stmt: "var h0 hitterI = &own{i: &L}\n\th0.hitI(V)", typs: "i", needAddr: true},
	{name: "own.hitI-method-expr", kind: "method-value", stmt: "(*own).hitI(&own{i: &L}, V)", typs: "i", needAddr: true},
}

func c07Scalars() []c07Prog {
	var out []c07Prog
	for _, t := range c07Targets {
		for _, o := range c07Ops {
			if !strings.ContainsRune(o.typs, rune(t.typ)) {
				continue
			}
			if o.needAddr && (!t.addr || t.mapEl) {
				continue
			}
			p := c07Prog{id: t.name + " " + o.name, path: t.kind, op: o.kind, pre: t.pre, class: clsWrite, cat: "scalar"}
			if !t.alias {
				p.class, p.cat = clsCopy, "copy"
			}
			if t.static && o.assign {
				p.static, p.cat = true, "static"
			}
			s := strings.ReplaceAll(o.stmt, "L", t.lv)
			switch t.typ {
			case 's':
				s = strings.ReplaceAll(s, "[]T{", "[]string{")
				s = strings.ReplaceAll(s, "t0 := 0", `t0 := ""`)
				s = strings.ReplaceAll(s, ", 1\n", ", \"o\"\n")
				s = strings.ReplaceAll(s, "V", `"pwnV"`)
			case 'b':
				s = strings.ReplaceAll(s, "[]T{", "[]byte{")
				s = strings.ReplaceAll(s, "t0 := 0", "t0 := byte(0)")
				s = strings.ReplaceAll(s, "V", "byte(33+V%64)")
			default:
				s = strings.ReplaceAll(s, "[]T{", "[]int{")
			}
			p.stmt = s
			out = append(out, p)
		}
	}
	return out
}

// ---- container-level programs ------------------------------------------------------------

type c07Alias struct {
	name, kind, pre, x string
	spare              bool // (slices) append within capacity writes the victim's backing array
}

var c07Slices = []c07Alias{
	{name: "Sl", kind: "selector", x: "citadel.Sl", spare: true},
	{name: "S.Sl", kind: "selector", x: "citadel.S.Sl", spare: true},
	{name: "GetSlice()", kind: "getter-slice", x: "citadel.GetSlice()", spare: true},
	{name: "GetSub()[:2]", kind: "getter-slice", x: "citadel.GetSub()[:2]", spare: true},
	{name: "GetStruct().Sl", kind: "getter-copy", x: "citadel.GetStruct().Sl", spare: true},
	{name: "GetDeepPtr().Sl", kind: "getter-ptr", x: "citadel.GetDeepPtr().Sl", spare: true},
	{name: "S.Arr[:]", kind: "reslice", x: "citadel.S.Arr[:]"},
	{name: "GetArrPtr()[:]", kind: "reslice", x: "citadel.GetArrPtr()[:]"},
	{name: "sl:=GetSlice()", kind: "getter-slice", pre: "sl := citadel.GetSlice()", x: "sl", spare: true},
}

var c07SliceOps = []struct {
	name, kind, stmt string
	class            c07Class // for aliases with spare capacity / without
	classNoSpare     c07Class
}{
	{"copy", "copy", "copy(X, []int{V, V})", clsWrite, clsWrite},
	{"copy-self", "copy", "copy(X[1:], X)", clsWrite, clsWrite},
	{"append-within", "append", "_ = append(X[:1], V)", clsWrite, clsWrite},
	{"append-within-many", "append", "_ = append(X[:0], V, V)", clsWrite, clsWrite},
	{"append-within-slice", "append", "_ = append(X[:1], []int{V}...)", clsWrite, clsWrite},
	{"append-at-len", "append", "_ = append(X, V)", clsWrite, clsCopy},
	{"append-beyond", "append", "nx := append(X[:len(X):len(X)], V)\n\tnx[0] = V", clsCopy, clsCopy},
	{"swap-elems", "swap", "X[0], X[1] = X[1], X[0]", clsWrite, clsWrite},
	{"range-write", "range-assign", "for i := range X {\n\t\tX[i] = V\n\t}", clsWrite, clsWrite},
	{"poke.Slice", "p-func", "poke.Slice(X, V)", clsWrite, clsWrite},
	{"poke.SliceAll", "p-func", "poke.SliceAll(X, V)", clsWrite, clsWrite},
	{"poke.SliceCopy", "p-func", "poke.SliceCopy(X, V)", clsWrite, clsWrite},
	{"poke.SliceAppend", "p-func", "_ = poke.SliceAppend(X[:1], V)", clsWrite, clsWrite},
	{"poke.Any", "p-func", "poke.Any(X, V)", clsWrite, clsWrite},
	{"defer-poke.Slice", "p-func", "defer poke.Slice(X, V)", clsWrite, clsWrite},
	{"poke.Poker.Hit", "p-method", "poke.Poker{S: X}.Hit(V)", clsWrite, clsWrite},
	{"poke.Poker.HitPtr", "p-method", "(&poke.Poker{S: X}).HitPtr(V)", clsWrite, clsWrite},
	{"poke.Poker.Hit-method-value", "method-value", "mv0 := poke.Poker{S: X}.Hit\n\tmv0(V)", clsWrite, clsWrite},
	{"poke.MintSlice", "p-closure", "poke.MintSlice(X, V)()", clsWrite, clsWrite},
	{"typepun-Ints.Set", "typepun", "poke.Ints(X).Set(V)", clsWrite, clsWrite},
	{"assignable-Ints.Set", "typepun", "var ni poke.Ints = X\n\tni.Set(V)", clsWrite, clsWrite},
	{"assignable-Ints-arg", "typepun", "poke.SetArg(X, V)", clsWrite, clsWrite},
	{"assignable-Ints-field", "typepun", "poke.Wrap{S: X}.Set(V)", clsWrite, clsWrite},
	{"assignable-Ints-iface", "typepun", "var ni poke.Ints = X\n\tvar st0 poke.Setter = ni\n\tst0.Set(V)", clsWrite, clsWrite},
	{"ptrpun-Ints.Set", "typepun", "sl0 := X\n\tnp := (*poke.Ints)(&sl0)\n\tnp.Set(V)", clsWrite, clsWrite},
	{"ptrpun-Ints-deref.Set", "typepun", "sl0 := X\n\tni := *(*poke.Ints)(&sl0)\n\tni.Set(V)", clsWrite, clsWrite},
	{"assign-stmt-Ints.Set", "typepun", "var ni poke.Ints\n\tni = X\n\tni.Set(V)", clsWrite, clsWrite},
	{"return-conv-Ints.Set", "typepun", "cv := func() poke.Ints { return X }\n\tcv().Set(V)", clsWrite, clsWrite},
	{"elem-conv-Ints.Set", "typepun", "es := []poke.Ints{X}\n\tes[0].Set(V)", clsWrite, clsWrite},
	{"mapval-conv-Ints.Set", "typepun", "em := map[string]poke.Ints{\"k\": X}\n\tem[\"k\"].Set(V)", clsWrite, clsWrite},
	{"assignable-Ints-method-value", "typepun", "var ni poke.Ints = X\n\tmv0 := ni.Set\n\tmv0(V)", clsWrite, clsWrite},
	{"own.hitS", "own-method", "own{s: X}.hitS(V)", clsWrite, clsWrite},
	{"own.hitS-method-value", "method-value", "mv0 := own{s: X}.hitS\n\tmv0(V)", clsWrite, clsWrite},
	{"own.hitS-iface", "own-method", "var h0 hitterS = own{s: X}\n\th0.hitS(V)", clsWrite, clsWrite},
	{"own.hitS-defer", "own-method", "defer own{s: X}.hitS(V)", clsWrite, clsWrite},
}

var c07Maps = []c07Alias{
	{name: "M", kind: "map", x: "citadel.M"},
	{name: "S.M", kind: "map", x: "citadel.S.M"},
	{name: "GetMap()", kind: "getter-map", x: "citadel.GetMap()"},
	{name: "GetStruct().M", kind: "getter-copy", x: "citadel.GetStruct().M"},
	{name: "m:=GetMap()", kind: "getter-map", pre: "m := citadel.GetMap()", x: "m"},
	{name: "GetDeepPtr().M", kind: "getter-ptr", x: "citadel.GetDeepPtr().M"},
}

var c07MapOps = []struct {
	name, kind, stmt string
	class            c07Class
}{
	{"insert", "map-insert", `X["fresh"] = V`, clsWrite},
	{"delete", "map-delete", `delete(X, "a")`, clsWrite},
	{"delete-missing", "map-delete", `delete(X, "nokey")`, clsCopy},
	{"range-overwrite", "range-assign", "for k := range X {\n\t\tX[k] = V\n\t}", clsWrite},
	{"range-delete", "map-delete", "for k := range X {\n\t\tdelete(X, k)\n\t}", clsWrite},
	{"poke.Map", "p-func", "poke.Map(X, V)", clsWrite},
	{"poke.MapInsert", "p-func", "poke.MapInsert(X)", clsWrite},
	{"poke.MapDelete", "p-func", "poke.MapDelete(X)", clsWrite},
	{"poke.Any", "p-func", "poke.Any(X, V)", clsWrite},
	{"poke.Poker.Hit", "p-method", "poke.Poker{M: X}.Hit(V)", clsWrite},
	{"poke.Poker.Hit-method-value", "method-value", "mv0 := poke.Poker{M: X}.Hit\n\tmv0(V)", clsWrite},
	{"typepun-Dictp.Put", "typepun", "poke.Dictp(X).Put(V)", clsWrite},
	{"assignable-Dictp.Put", "typepun", "var nd poke.Dictp = X\n\tnd.Put(V)", clsWrite},
	{"ptrpun-Dictp.Put", "typepun", "m0 := X\n\tnp := (*poke.Dictp)(&m0)\n\tnp.Put(V)", clsWrite},
	{"return-conv-Dictp.Put", "typepun", "cv := func() poke.Dictp { return X }\n\tcv().Put(V)", clsWrite},
	{"assignable-Dictp-arg", "typepun", "poke.PutArg(X, V)", clsWrite},
	{"assignable-Dictp-field", "typepun", "poke.Wrap{D: X}.Set(V)", clsWrite},
	{"own.hitM", "own-method", "own{m: X}.hitM(V)", clsWrite},
	{"own.hitM-method-value", "method-value", "mv0 := own{m: X}.hitM\n\tmv0(V)", clsWrite},
}

var c07Bytes = []c07Alias{
	{name: "By", kind: "selector", x: "citadel.By"},
	{name: "S.By", kind: "selector", x: "citadel.S.By"},
	{name: "GetBytes()", kind: "getter-slice", x: "citadel.GetBytes()"},
}

var c07ByteOps = []struct{ name, kind, stmt string }{
	{"copy-string", "copy", `copy(X, "xyz")`},
	{"copy-bytes", "copy", `copy(X, []byte{1, 2})`},
	{"append-within-string", "append", `_ = append(X[:1], "zz"...)`},
	{"append-at-len", "append", `_ = append(X, 'q')`},
	{"poke.Bytes", "p-func", `poke.Bytes(X, 'k')`},
	{"poke.BytesCopy", "p-func", `poke.BytesCopy(X, "kk")`},
	{"poke.Any", "p-func", `poke.Any(X, V)`},
}

// whole-value writes and everything that does not fit the cross products
var c07Misc = []c07Prog{
	{id: "*P = *S.P", path: "ptr-deref", op: "struct-assign", stmt: "*citadel.P = *citadel.S.P"},
	{id: "*GetPtr() = GetInner()", path: "getter-ptr", op: "struct-assign", stmt: "*citadel.GetPtr() = citadel.GetInner()"},
	{id: "S.In = GetInner()", path: "selector", op: "struct-assign", stmt: "citadel.S.In = citadel.GetInner()"},
	{id: "S.In = *P", path: "selector", op: "struct-assign", stmt: "citadel.S.In = *citadel.P"},
	{id: "S.Arr = Arr", path: "selector", op: "struct-assign", stmt: "citadel.S.Arr = citadel.Arr"},
	{id: "*GetArrPtr() = S.Arr", path: "getter-ptr", op: "struct-assign", stmt: "*citadel.GetArrPtr() = citadel.S.Arr"},
	{id: "*GetDeepPtr() = GetStruct()", path: "getter-ptr", op: "struct-assign", stmt: "*citadel.GetDeepPtr() = citadel.GetStruct()"},
	{id: "S.Ins[0] = S.Ins[1]", path: "selector", op: "struct-assign", stmt: "citadel.S.Ins[0] = citadel.S.Ins[1]"},
	{id: "S.Ins swap", path: "selector", op: "swap", stmt: "citadel.S.Ins[0], citadel.S.Ins[1] = citadel.S.Ins[1], citadel.S.Ins[0]"},
	{id: "S.P = P", path: "selector", op: "whole-field", stmt: "citadel.S.P = citadel.P"},
	{id: "S.P = nil", path: "selector", op: "whole-field", stmt: "citadel.S.P = nil"},
	{id: "S.PI = nil", path: "selector", op: "whole-field", stmt: "citadel.S.PI = nil"},
	{id: "S.PI = PI", path: "selector", op: "whole-field", stmt: "citadel.S.PI = citadel.PI"},
	{id: "S.Any = nil", path: "selector", op: "whole-field", stmt: "citadel.S.Any = nil"},
	{id: "S.Any = V", path: "selector", op: "whole-field", stmt: "citadel.S.Any = V"},
	{id: "S.M = nil", path: "selector", op: "whole-field", stmt: "citadel.S.M = nil"},
	{id: "S.M = M", path: "selector", op: "whole-field", stmt: "citadel.S.M = citadel.M"},
	{id: "S.MP = nil", path: "selector", op: "whole-field", stmt: "citadel.S.MP = nil"},
	{id: "S.Ins = nil", path: "selector", op: "whole-field", stmt: "citadel.S.Ins = nil"},
	{id: "S.By = nil", path: "selector", op: "whole-field", stmt: "citadel.S.By = nil"},
	{id: "S.Sl = nil", path: "selector", op: "whole-field", stmt: "citadel.S.Sl = nil"},
	{id: "S.Sl = S.Sl[:1]", path: "selector", op: "whole-field", stmt: "citadel.S.Sl = citadel.S.Sl[:1]"},
	{id: "S.Sl = append(S.Sl, V) store-back", path: "selector", op: "append", stmt: "citadel.S.Sl = append(citadel.S.Sl, V)"},
	{id: "S.Sl = append-beyond store-back", path: "selector", op: "append", stmt: "citadel.S.Sl = append(citadel.S.Sl[:3:3], V)"},
	{id: "GetDeepPtr().Sl = own slice", path: "getter-ptr", op: "whole-field", stmt: "citadel.GetDeepPtr().Sl = []int{V}"},
	{id: "GetDeepPtr().P = nil", path: "getter-ptr", op: "whole-field", stmt: "citadel.GetDeepPtr().P = nil"},
	{id: "GetDeepPtr().M = own map", path: "getter-ptr", op: "whole-field", stmt: "citadel.GetDeepPtr().M = map[string]int{\"a\": V}"},
	{id: "Ptrs[0] = Ptrs[1]", path: "selector", op: "whole-field", stmt: "citadel.Ptrs[0] = citadel.Ptrs[1]"},
	{id: "GetPtrs()[0] = nil", path: "getter-slice", op: "whole-field", stmt: "citadel.GetPtrs()[0] = nil"},
	{id: "S.MP[a] = P", path: "map", op: "map-insert", stmt: `citadel.S.MP["a"] = citadel.P`},
	{id: "S.MP[n] = nil", path: "map", op: "map-insert", stmt: `citadel.S.MP["n"] = nil`},
	{id: "delete(S.MP, a)", path: "map", op: "map-delete", stmt: `delete(citadel.S.MP, "a")`},
	{id: "delete(D, a)", path: "declared-type", op: "map-delete", stmt: `delete(citadel.D, "a")`},
	{id: "D[new] = V", path: "declared-type", op: "map-insert", stmt: `citadel.D["n"] = V`},
	{id: "copy(L, ...)", path: "declared-type", op: "copy", stmt: "copy(citadel.L, []int{V})"},
	{id: "copy(GetList(), ...)", path: "declared-type", op: "copy", stmt: "copy(citadel.GetList(), []int{V})"},
	{id: "append(L[:1], V)", path: "declared-type", op: "append", stmt: "_ = append(citadel.L[:1], V)"},
	{id: "poke.Slice(L)", path: "declared-type", op: "p-func", stmt: "poke.Slice(citadel.L, V)"},
	{id: "poke.Map(D)", path: "declared-type", op: "p-func", stmt: "poke.Map(citadel.D, V)"},
	{id: "typepun (*Twin)(GetPtr()).Set", path: "getter-ptr", op: "typepun", stmt: "(*poke.Twin)(citadel.GetPtr()).Set(V)"},
	{id: "typepun (*Twin)(P) via iface", path: "selector", op: "typepun", stmt: "var st poke.Setter = (*poke.Twin)(citadel.P)\n\tst.Set(V)"},
	{id: "typepun (*Twin)(&S.In).Set", path: "addr-of", op: "typepun", stmt: "(*poke.Twin)(&citadel.S.In).Set(V)"},
	{id: "typepun Ints(L).Set", path: "declared-type", op: "typepun", stmt: "poke.Ints(citadel.L).Set(V)"},
	{id: "typepun (*twin)(GetPtr()).A", path: "getter-ptr", op: "typepun", stmt: "(*twin)(citadel.GetPtr()).A = V"},
	{id: "poke.Arr(GetArrPtr())", path: "getter-ptr", op: "p-func", stmt: "poke.Arr(citadel.GetArrPtr(), V)"},
	{id: "poke.Arr(&S.Arr)", path: "addr-of", op: "p-func", stmt: "poke.Arr(&citadel.S.Arr, V)"},
	{id: "poke.Any(GetArrPtr())", path: "getter-ptr", op: "p-func", stmt: "poke.Any(citadel.GetArrPtr(), V)"},
	{id: "poke.Any(PI)", path: "ptr-deref", op: "p-func", stmt: "poke.Any(citadel.PI, V)"},
	{id: "poke.Int(GetIntPtr())", path: "getter-ptr", op: "p-func", stmt: "poke.Int(citadel.GetIntPtr(), V)"},
	{id: "poke.Int(S.PI)", path: "selector", op: "p-func", stmt: "poke.Int(citadel.S.PI, V)"},
	{id: "poke.PtrPtr(&S.PI)", path: "addr-of", op: "p-func", stmt: "poke.PtrPtr(&citadel.S.PI, nil)"},
	{id: "poke.Poker{P: PI}.Hit", path: "ptr-deref", op: "p-method", stmt: "poke.Poker{P: citadel.PI}.Hit(V)"},
	{id: "poke.Poker{P: GetIntPtr()}.HitPtr", path: "getter-ptr", op: "p-method", stmt: "pk := &poke.Poker{P: citadel.GetIntPtr()}\n\tpk.HitPtr(V)"},
	{id: "poke.Poker all aliases", path: "getter-ptr", op: "p-method", stmt: "poke.Poker{P: citadel.GetIntPtr(), S: citadel.GetSlice(), M: citadel.GetMap()}.Hit(V)"},
	{id: "defer poke.Poker{M: M}.Hit", path: "map", op: "method-value", stmt: "var f0 func(int) = poke.Poker{M: citadel.M}.Hit\n\tdefer f0(V)"},
	{id: "poke.Mint(PI)", path: "ptr-deref", op: "p-closure", stmt: "poke.Mint(citadel.PI, V)()"},
	{id: "own.hitP(GetPtr())", path: "getter-ptr", op: "own-method", stmt: "own{p: citadel.GetPtr()}.hitP(V)"},
	{id: "own.hitP method value", path: "getter-ptr", op: "method-value", stmt: "mv0 := own{p: citadel.GetPtr()}.hitP\n\tmv0(V)"},
	{id: "own.hitP method value over iface-asserted ptr", path: "iface-assert", op: "method-value", stmt: "mv0 := own{p: citadel.GetIface().(*citadel.Inner)}.hitP\n\tmv0(V)"},
	{id: "own.hitP iface", path: "getter-ptr", op: "own-method", stmt: "var h0 hitterP = own{p: citadel.P}\n\th0.hitP(V)"},
	{id: "own.hitP method expr", path: "selector", op: "method-value", stmt: "own.hitP(own{p: citadel.S.P}, V)"},
	{id: "own.hitP deferred method value", path: "getter-ptr", op: "method-value", stmt: "mv0 := own{p: citadel.GetPtr()}.hitP\n\tdefer mv0(V)"},
	{id: "closure over GetPtr result, called twice", path: "getter-ptr", op: "assign", stmt: "p := citadel.GetPtr()\n\tf0 := func(n int) { p.A = n }\n\tf0(V)\n\tf0(V + 1)"},
	{id: "goto-loop write Sl", path: "selector", op: "assign", stmt: "for i := 0; i < 3; i++ {\n\t\tcitadel.Sl[i] = V + i\n\t}"},
	{id: "range Ptrs write field", path: "selector", op: "range-assign", stmt: "for _, ip := range citadel.Ptrs {\n\t\tip.A = V\n\t}"},
	{id: "range GetPtrs write field", path: "getter-slice", op: "range-assign", stmt: "for _, ip := range citadel.GetPtrs() {\n\t\tip.A = V\n\t}"},
	{id: "range S.MP write field", path: "map", op: "range-assign", stmt: "for _, ip := range citadel.S.MP {\n\t\tip.A = V\n\t}"},
	{id: "range S.Ins by index write field", path: "selector", op: "range-assign", stmt: "for i := range citadel.S.Ins {\n\t\tcitadel.S.Ins[i].A = V\n\t}"},
	{id: "range key into S.Arr[0]", path: "selector", op: "range-assign", stmt: "for citadel.S.Arr[0] = range citadel.Sl {\n\t}"},
	{id: "range value into M[a]", path: "map", op: "range-assign", stmt: "for _, citadel.M[\"a\"] = range []int{V} {\n\t}"},
}

var c07Static = []c07Prog{
	{id: "P = nil", stmt: "citadel.P = nil"},
	{id: "Sl = nil", stmt: "citadel.Sl = nil"},
	{id: "Sl = append(Sl, V)", stmt: "citadel.Sl = append(citadel.Sl, V)"},
	{id: "M = nil", stmt: "citadel.M = nil"},
	{id: "M = own map", stmt: `citadel.M = map[string]int{"a": V}`},
	{id: "S = GetStruct()", stmt: "citadel.S = citadel.GetStruct()"},
	{id: "Box = nil", stmt: "citadel.Box = nil"},
	{id: "Arr = S.Arr", stmt: "citadel.Arr = citadel.S.Arr"},
	{id: "Lv = 3", stmt: "citadel.Lv = 3"},
	{id: "L = nil", stmt: "citadel.L = nil"},
	{id: "PI, P = nil, nil", stmt: "citadel.PI, citadel.P = nil, nil"},
}

var c07Reads = []c07Prog{
	{id: "read selectors", stmt: "n := citadel.S.In.A + citadel.Counter + len(citadel.Sl) + citadel.M[\"a\"] + citadel.P.A + *citadel.PI + citadel.S.Arr[1] + int(citadel.By[0]) + len(citadel.Name)\n\t_ = n"},
	{id: "read getters", stmt: "n := citadel.GetPtr().A + citadel.GetSlice()[0] + citadel.GetMap()[\"b\"] + citadel.GetStruct().In.A + citadel.GetInner().A + *citadel.GetIntPtr() + citadel.GetArrPtr()[2]\n\t_ = n"},
	{id: "call the victim's reading closure", stmt: "n := citadel.GetReader()()\n\t_ = n"},
	{id: "call read-only methods", stmt: "n := citadel.GetPtr().Peek() + citadel.GetInner().Sum() + citadel.L.Len() + citadel.P.Peek() + citadel.S.In.Sum()\n\t_ = n"},
	{id: "method value of a read-only method", stmt: "mv0 := citadel.P.Peek\n\tn := mv0()\n\t_ = n"},
	{id: "range over slice and map", stmt: "n := 0\n\tfor _, x := range citadel.Sl {\n\t\tn += x\n\t}\n\tfor k, x := range citadel.M {\n\t\tn += x + len(k)\n\t}\n\t_ = n"},
	{id: "Dump", stmt: "s0 := citadel.Dump()\n\t_ = s0"},
	{id: "pass victim values back to the victim", stmt: "n := citadel.Inspect(citadel.GetInner()) + citadel.InspectPtr(citadel.GetPtr()) + citadel.InspectList(citadel.GetList())\n\t_ = n"},
	{id: "string(By)", stmt: "s0 := string(citadel.By)\n\t_ = s0"},
	{id: "struct copy then read", stmt: "sc := citadel.GetStruct()\n\tn := sc.Arr[1] + sc.Sl[0] + sc.P.A + sc.M[\"a\"]\n\t_ = n"},
	{id: "copy out with append", stmt: "mine := append([]int(nil), citadel.Sl...)\n\tmine[0] = V\n\t_ = mine"},
	{id: "copy out with copy()", stmt: "mine := make([]int, 3)\n\tcopy(mine, citadel.GetSlice())\n\tmine[1] = V"},
	{id: "iface assert then read", stmt: "n := citadel.GetIface().(*citadel.Inner).A\n\t_, ok := citadel.GetIface().(citadel.Peeker)\n\t_, _ = n, ok"},
	{id: "pointer compare and len/cap", stmt: "ok := citadel.GetPtr() == citadel.P && cap(citadel.Sl) > len(citadel.Sl)\n\t_ = ok"},
	{id: "reslice and read", stmt: "rs := citadel.Sl[1:]\n\tn := rs[0] + len(citadel.S.Arr[:2])\n\t_ = n"},
}

var c07Constructs = []c07Prog{
	{id: "Inner{...}", op: "composite-literal", stmt: "x := citadel.Inner{A: V}\n\tSINK"},
	{id: "&Inner{...}", op: "composite-literal", stmt: "x := &citadel.Inner{A: V, B: \"f\"}\n\tSINK"},
	{id: "Deep{}", op: "composite-literal", stmt: "x := citadel.Deep{}\n\tSINK"},
	{id: "&Deep{...}", op: "composite-literal", stmt: "x := &citadel.Deep{Sl: []int{V}}\n\tSINK"},
	{id: "new(Inner)", op: "new", stmt: "x := new(citadel.Inner)\n\tSINK"},
	{id: "new(Deep)", op: "new", stmt: "x := new(citadel.Deep)\n\tSINK"},
	{id: "List{...}", op: "composite-literal", stmt: "x := citadel.List{V, V}\n\tSINK"},
	{id: "Dict{...}", op: "composite-literal", stmt: "x := citadel.Dict{\"a\": V}\n\tSINK"},
	{id: "make(List)", op: "make", stmt: "x := make(citadel.List, 2)\n\tSINK"},
	{id: "make(Dict)", op: "make", stmt: "x := make(citadel.Dict)\n\tSINK"},
	{id: "[]Inner{{...}}", op: "composite-literal", stmt: "x := []citadel.Inner{{A: V}}\n\tSINK"},
	{id: "List(own slice)", op: "conversion", stmt: "x := citadel.List([]int{V})\n\tSINK"},
	{id: "Dict(own map)", op: "conversion", stmt: "x := citadel.Dict(map[string]int{\"a\": V})\n\tSINK"},
	{id: "Inner(twin)", op: "conversion", stmt: "tw := twin{A: V, B: \"f\"}\n\tx := citadel.Inner(tw)\n\tSINK"},
	{id: "Inspect(Inner{...})", op: "composite-literal", stmt: "n := citadel.Inspect(citadel.Inner{A: V})\n\t_ = n"},
	{id: "InspectPtr(&Inner{...})", op: "composite-literal", stmt: "n := citadel.InspectPtr(&citadel.Inner{A: V})\n\t_ = n"},
	{id: "InspectList(List{...})", op: "composite-literal", stmt: "n := citadel.InspectList(citadel.List{V})\n\t_ = n"},
	// a value of the victim's struct type with attacker-chosen contents, through a POINTER conversion
	{id: "forged Inner VALUE by deref of converted pointer, kept", op: "pointer-conversion", sig: "pointer-conversion", mayAlloc: true, stmt: "tw := twin{A: V, B: \"f\"}\n\tx := *(*citadel.Inner)(&tw)\n\tif x.A != V {\n\t\tpanic(\"not forged\")\n\t}\n\tSINK"},
	{id: "forged Inner VALUE passed to the victim", op: "pointer-conversion", sig: "pointer-conversion", stmt: "tw := twin{A: V, B: \"f\"}\n\tn := citadel.Inspect(*(*citadel.Inner)(&tw))\n\tif n != V+1 {\n\t\tpanic(\"victim did not read the forged value\")\n\t}"},
}

// outcome recorded only: the specification lists them (make of a slice of a victim type) without the
// implementation refusing them, or is explicitly permissive (zero values), or says nothing (integer kinds)
var c07Observes = []c07Prog{
	{id: "make([]Inner, 2)", op: "make", stmt: "x := make([]citadel.Inner, 2)\n\tSINK", mayAlloc: true},
	{id: "[2]Inner{}", op: "composite-literal", stmt: "x := [2]citadel.Inner{}\n\tSINK", mayAlloc: true},
	{id: "map[string]Inner{}", op: "composite-literal", stmt: "x := map[string]citadel.Inner{}\n\tSINK", mayAlloc: true},
	{id: "[]*Inner{nil}", op: "composite-literal", stmt: "x := []*citadel.Inner{nil}\n\tSINK"},
	{id: "var x Inner (zero value)", op: "zero-value", stmt: "var x citadel.Inner\n\tSINK", mayAlloc: true},
	{id: "var x Deep (zero value)", op: "zero-value", stmt: "var x citadel.Deep\n\tSINK", mayAlloc: true},
	{id: "zero value then field write", op: "zero-value", stmt: "var x citadel.Inner\n\tx.A = V\n\tSINK", mayAlloc: true},
	{id: "keep a struct COPY of the victim's state", op: "copy", stmt: "x := citadel.GetInner()\n\tSINK", mayAlloc: true},
	{id: "Level(5)", op: "conversion", stmt: "x := citadel.Level(5)\n\tSINK"},
	{id: "forged *Inner by pointer conversion, kept", op: "pointer-conversion", stmt: "tw := twin{A: V, B: \"f\"}\n\tx := (*citadel.Inner)(&tw)\n\tSINK"},
	{id: "forged *Inner passed to the victim", op: "pointer-conversion", stmt: "tw := twin{A: V, B: \"f\"}\n\tn := citadel.InspectPtr((*citadel.Inner)(&tw))\n\tif n != V {\n\t\tpanic(\"victim did not read the forged value\")\n\t}"},
	{id: "victim method on forged *Inner", op: "pointer-conversion", stmt: "tw := twin{A: V, B: \"f\"}\n\tn := (*citadel.Inner)(&tw).Peek()\n\tif n != V {\n\t\tpanic(\"victim method did not read the forged value\")\n\t}"},
	{id: "var l Level = 3", op: "zero-value", stmt: "var x citadel.Level = 3\n\tSINK"},
}

var c07Persists = []c07Prog{
	{id: "any = cur", stmt: "stash = cur"},
	{id: "any = cur.Previous()", stmt: "stash = cur.Previous()", sig: "previous-realm-value"},
	{id: "slice append cur.Previous()", stmt: "stashSl = append(stashSl, cur.Previous())", sig: "previous-realm-value"},
	{id: "map[k] = cur.Previous()", stmt: "stashMap[\"p\"] = cur.Previous()", sig: "previous-realm-value"},
	{id: "struct field = cur.Previous()", stmt: "stashSt.R = cur.Previous()", sig: "previous-realm-value"},
	{id: "realm-typed variable = cur.Previous()", stmt: "stashRealm = cur.Previous()", sig: "previous-realm-value"},
	{id: "local copy of cur.Previous() kept", stmt: "pv := cur.Previous()\n\tstash = pv", sig: "previous-realm-value"},
	{id: "struct field = cur", stmt: "stashSt.R = cur\n\tstashSt.N++"},
	{id: "slice append cur", stmt: "stashSl = append(stashSl, cur)"},
	{id: "slice literal with cur", stmt: "stashSl = []any{1, cur}"},
	{id: "map[k] = cur", stmt: "stashMap[\"k\"] = cur"},
	{id: "closure capturing cur", stmt: "stashFn = func() string { return cur.PkgPath() }"},
	{id: "pointer to struct holding cur", stmt: "stash = &holder{R: cur}"},
	{id: "closure capturing cur.Previous()", stmt: "pv := cur.Previous()\n\tstashFn = func() string { return pv.PkgPath() }", sig: "previous-realm-value"},
	{id: "array holding cur", stmt: "stash = [2]any{cur, nil}"},
	{id: "realm-typed variable = cur", stmt: "stashRealm = cur"},
	{id: "realm-typed struct field = cur", stmt: "stashRS.R = cur"},
}

func c07Programs() []c07Prog {
	out := c07Scalars()
	add := func(p c07Prog) { out = append(out, p) }
	for _, a := range c07Slices {
		for _, o := range c07SliceOps {
			cl := o.classNoSpare
			if a.spare {
				cl = o.class
			}
			cat := "container"
			if cl == clsCopy {
				cat = "copy"
			}
			add(c07Prog{id: o.name + "(" + a.name + ")", cat: cat, path: a.kind, op: o.kind, pre: a.pre, stmt: strings.ReplaceAll(o.stmt, "X", a.x), class: cl})
		}
	}
	for _, a := range c07Maps {
		for _, o := range c07MapOps {
			cat := "container"
			if o.class == clsCopy {
				cat = "copy"
			}
			add(c07Prog{id: o.name + "(" + a.name + ")", cat: cat, path: a.kind, op: o.kind, pre: a.pre, stmt: strings.ReplaceAll(o.stmt, "X", a.x), class: o.class})
		}
	}
	for _, a := range c07Bytes {
		for _, o := range c07ByteOps {
			add(c07Prog{id: o.name + "(" + a.name + ")", cat: "container", path: a.kind, op: o.kind, pre: a.pre, stmt: strings.ReplaceAll(o.stmt, "X", a.x), class: clsWrite})
		}
	}
	for _, p := range c07Misc {
		p.cat, p.class = "container", clsWrite
		add(p)
	}
	for _, p := range c07Static {
		p.cat, p.class, p.static, p.path, p.op = "static", clsWrite, true, "pkgvar", "assign"
		add(p)
	}
	for _, p := range c07Reads {
		p.cat, p.class, p.path, p.op = "read", clsRead, "read", "read"
		add(p)
	}
	for _, p := range c07Constructs {
		// the built value is kept in the attacker's own state (realms) or just dropped (scripts)
		p.cat, p.class, p.path = "construct", clsConstruct, "construct"
		if p.sig == "" {
			p.sig = "construction"
		}
		add(p)
	}
	for _, p := range c07Observes {
		p.cat, p.class, p.path = "observe", clsObserve, "construct"
		add(p)
	}
	out = append(out, c07Residues()...)
	for _, p := range c07Persists {
		p.cat, p.class, p.path, p.op, p.needCur, p.needState = "persist", clsPersist, "persist-realm", "persist-realm", true, true
		if p.sig == "" {
			p.sig = "current-realm-value"
		}
		add(p)
	}
	return out
}

// ---- source generation --------------------------------------------------------------------

const c07Imports = `
import (
	"gno.land/p/sim/poke"
	"gno.land/r/sim/citadel"
)

// own carries aliases in its fields; its methods write through them.
type own struct {
	p *citadel.Inner
	s []int
	m map[string]int
	i *int
}

func (o own) hitP(v int)  { o.p.A = v }
func (o own) hitS(v int)  { o.s[0] = v }
func (o own) hitM(v int)  { o.m["a"] = v }
func (o *own) hitI(v int) { *o.i = v }

type hitterP interface{ hitP(v int) }
type hitterS interface{ hitS(v int) }
type hitterI interface{ hitI(v int) }

// twin has the layout of citadel.Inner.
type twin struct {
	A int
	B string
}

var (
	_ = poke.Int
	_ = citadel.Dump
)
`

const c07State = `
type holder struct {
	R any
	N int
}

type rholder struct {
	R realm
}

var (
	stash      any
	stashSl    []any
	stashMap   = map[string]any{}
	stashFn    func() string
	stashSt    holder
	stashRealm realm
	stashRS    rholder
	calls      int
)

// slots in which the realm keeps REFERENCES to victim objects
type keeper struct {
	F any
}

var (
	heldAny any
	heldSt  keeper
	heldSl  = make([]any, 1)
	heldMap = map[string]any{}
)
`

// c07Keeps are the attacker realm's crossing functions that keep a reference to a victim container
// (called as a LATER message of the tx whose earlier message had a write refused).
var c07Keeps = []string{
	"heldAny = citadel.M",
	"heldSt.F = citadel.GetMap()",
	"heldSl = append(heldSl, citadel.MI)",
	"heldMap[\"s\"] = citadel.S.M",
	"heldSl[0] = citadel.D",
	"heldAny = citadel.GetSlice()",
	"heldSt.F = citadel.GetPtr()",
	"heldMap[\"p\"] = citadel.S.P",
	"heldAny = citadel.S.Sl",
}

type c07Residue struct {
	name, kind, x string
	shape         string // "smap", "imap", "slice", "ptr"
	keep, grp     int    // matching Keep<j>, citadel group that Bump(grp) rewrites
}

var c07ResidueTargets = []c07Residue{
	{"M", "map", "citadel.M", "smap", 0, 0},
	{"GetMap()", "getter-map", "citadel.GetMap()", "smap", 1, 0},
	{"S.M", "map", "citadel.S.M", "smap", 3, 1},
	{"GetStruct().M", "getter-copy", "citadel.GetStruct().M", "smap", 3, 1},
	{"D", "declared-type", "citadel.D", "smap", 4, 0},
	{"MI", "map", "citadel.MI", "imap", 2, 0},
	{"GetIntMap()", "getter-map", "citadel.GetIntMap()", "imap", 2, 0},
	{"GetSlice()", "getter-slice", "citadel.GetSlice()", "slice", 5, 0},
	{"S.Sl", "selector", "citadel.S.Sl", "slice", 8, 1},
	{"GetPtr()", "getter-ptr", "citadel.GetPtr()", "ptr", 6, 2},
	{"S.P", "selector", "citadel.S.P", "ptr", 7, 2},
}

var c07ResidueWrites = map[string][]struct{ name, op, stmt string }{
	"smap": {
		{"new-key", "map-insert", `X["fresh"] = V`},
		{"existing-key", "assign", `X["a"] = V`},
		{"add-assign-missing-key", "compound", `X["fresh"] += V`},
		{"inc-missing-key", "incdec", `X["fresh"]++`},
		{"dec-missing-key", "incdec", `X["gone"]--`},
		{"or-assign-missing-key", "compound", `X["fresh"] |= 1`},
		{"delete-present-key", "map-delete", `delete(X, "a")`},
		{"two-new-keys", "multi-assign", `X["n1"], X["n2"] = V, V`},
		{"swap-with-missing-key", "swap", `X["a"], X["fresh"] = X["fresh"], X["a"]`},
		{"poke.MapInsert", "p-func", `poke.MapInsert(X)`},
		{"inc-existing-key", "incdec", `X["b"]++`},
	},
	"imap": {
		{"new-int-key", "map-insert", `X[77] = V`},
		{"existing-int-key", "assign", `X[1] = V`},
		{"add-assign-missing-int-key", "compound", `X[77] += V`},
		{"inc-missing-int-key", "incdec", `X[78]++`},
		{"or-assign-missing-int-key", "compound", `X[-3] |= 1`},
		{"delete-present-int-key", "map-delete", `delete(X, 1)`},
		{"two-new-int-keys", "multi-assign", `X[5], X[6] = V, V`},
	},
	"slice": {
		{"elem", "assign", `X[0] = V`},
		{"elem-inc", "incdec", `X[1]++`},
		{"append-within", "append", `_ = append(X[:1], V)`},
		{"copy", "copy", `copy(X, []int{V})`},
	},
	"ptr": {
		{"field", "assign", `X.A = V`},
		{"field-inc", "incdec", `X.A++`},
		{"field-string", "compound", `X.B += "r"`},
	},
}

var c07KeepForms = []string{"heldAny = X", "heldSt.F = X", "heldSl = append(heldSl, X)", "heldMap[\"k\"] = X", "heldSl[0] = X"}

func c07Residues() []c07Prog {
	var out []c07Prog
	n := 0
	for _, t := range c07ResidueTargets {
		for _, wr := range c07ResidueWrites[t.shape] {
			write := "func() {\n\t\tdefer func() {\n\t\t\trecover()\n\t\t}()\n\t\t" + strings.ReplaceAll(wr.stmt, "X", t.x) + "\n\t}()"
			base := c07Prog{cat: "residue", class: clsResidue, path: t.kind, op: wr.op, noWrap: true}
			id := wr.name + "(" + t.name + ") recovered"
			// same message: keep a reference in the attacker realm's own state
			p := base
			p.id, p.needState, p.keepsRef = id+", then kept in "+[]string{"a variable", "a struct field", "an appended slice element", "a map value", "a slice element"}[n%len(c07KeepForms)], true, true
			p.stmt = write + "\n\t" + strings.ReplaceAll(c07KeepForms[n%len(c07KeepForms)], "X", t.x)
			out = append(out, p)
			// same message: the program itself enters the victim's own mutator of that group
			p = base
			p.id, p.needState, p.needCur, p.bump = id+", then citadel.Bump in the same message", true, true, 1+t.grp
			p.stmt = write + "\n\tcitadel.Bump(cross(cur), " + fmt.Sprint(t.grp) + ")"
			out = append(out, p)
			// a later message of the same tx keeps the reference / runs the victim's mutator
			p = base
			p.id, p.follow = id+", kept by a later message", fmt.Sprintf("keep:%d", t.keep)
			p.stmt = write
			out = append(out, p)
			p = base
			p.id, p.follow = id+", citadel.Bump by a later message", fmt.Sprintf("bump:%d", t.grp)
			p.stmt = write
			out = append(out, p)
			n++
		}
	}
	return out
}

// c07Body renders the program under a wrapper. SINK keeps a constructed value:
// in the attacker realm's own persisted state when there is one.
func c07Body(p c07Prog, wrap, val int) string {
	v := fmt.Sprint(val)
	pre := strings.ReplaceAll(p.pre, "V", v)
	stmt := strings.ReplaceAll(p.stmt, "V", v)
	ind := func(s string) string { return strings.ReplaceAll(s, "\n\t", "\n\t\t") }
	join := func(a, b string) string {
		if a == "" {
			return b
		}
		return a + "\n\t" + b
	}
	whole := join(pre, stmt)
	switch c07Wraps[wrap] {
	case "closure":
		return "\tfunc() {\n\t\t" + ind(whole) + "\n\t}()\n"
	case "defer":
		return "\tdefer func() {\n\t\t" + ind(whole) + "\n\t}()\n"
	case "captured":
		if pre != "" {
			return "\t" + pre + "\n\tfunc() {\n\t\t" + ind(stmt) + "\n\t}()\n"
		}
		return "\tw0 := func() {\n\t\t" + ind(stmt) + "\n\t}\n\tw0()\n"
	case "captured-defer":
		if pre != "" {
			return "\t" + pre + "\n\tdefer func() {\n\t\t" + ind(stmt) + "\n\t}()\n"
		}
		return "\tw0 := func() {\n\t\t" + ind(stmt) + "\n\t}\n\tdefer w0()\n"
	case "recover":
		return "\tdefer func() {\n\t\trecover()\n\t}()\n\t" + whole + "\n"
	case "nested-defer":
		return "\tfunc() {\n\t\tdefer func() {\n\t\t\t" + ind(ind(whole)) + "\n\t\t}()\n\t}()\n"
	}
	return "\t" + whole + "\n"
}

func sinkFor(realm bool) string {
	if realm {
		return "stash = x"
	}
	return "_ = x"
}

func raiderSource(rd *raider) string {
	var sb strings.Builder
	fmt.Fprintf(&sb, "// Package %s is GENERATED by the C07 engine from its attack grammar.\npackage %s\n", rd.name, rd.name)
	sb.WriteString(c07Imports)
	sb.WriteString(c07State)
	sb.WriteString("\n// Kept reports which of the realm's own slots hold something.\nfunc Kept() string {\n\to := \"\"\n\tif stash != nil {\n\t\to += \"any \"\n\t}\n\tif len(stashSl) > 0 {\n\t\to += \"slice \"\n\t}\n\tif len(stashMap) > 0 {\n\t\to += \"map \"\n\t}\n\tif stashFn != nil {\n\t\to += \"func \"\n\t}\n\tif stashSt.R != nil {\n\t\to += \"struct \"\n\t}\n\treturn o\n}\n\n// Use reads the kept realm value back.\nfunc Use() string {\n\tif r, ok := stash.(realm); ok {\n\t\treturn \"realm:\" + r.Address().String() + \"|\" + r.PkgPath()\n\t}\n\treturn \"none\"\n}\n")
	for j, k := range c07Keeps {
		fmt.Fprintf(&sb, "\nfunc Keep%d(cur realm) {\n\tcalls++\n\t%s\n}\n", j, k)
	}
	for i, in := range rd.insts {
		body := strings.ReplaceAll(in.body(), "SINK", sinkFor(true))
		fmt.Fprintf(&sb, "\n// %d: %s\nfunc A%d(cur realm) {\n\tcalls++\n%s}\n", i, in.name(), i, body)
		if !in.prog.needCur {
			fmt.Fprintf(&sb, "\nfunc H%d() {\n%s}\n\nfunc B%d(cur realm) {\n\tcalls++\n\tH%d()\n}\n", i, body, i, i)
		}
	}
	return sb.String()
}

func scriptSourceC07(in c07Inst, withCur bool) string {
	var sb strings.Builder
	sb.WriteString("package main\n")
	sb.WriteString(c07Imports)
	sig := "func main() {"
	if withCur {
		sig = "func main(cur realm) {"
	}
	fmt.Fprintf(&sb, "\n// %s\n%s\n%s}\n", in.name(), sig, strings.ReplaceAll(in.body(), "SINK", sinkFor(false)))
	return sb.String()
}

// initSource hosts the program in the package initialisation of a fresh realm.
func initSource(name string, in c07Inst, varInit bool) string {
	var sb strings.Builder
	fmt.Fprintf(&sb, "// Package %s is GENERATED by the C07 engine: %s\npackage %s\n", name, in.name(), name)
	sb.WriteString(c07Imports)
	sb.WriteString(c07State)
	body := strings.ReplaceAll(in.body(), "SINK", sinkFor(true))
	if varInit {
		fmt.Fprintf(&sb, "\nvar booted = func() int {\n%s\treturn 1\n}()\n", body)
	} else {
		fmt.Fprintf(&sb, "\nfunc init() {\n%s}\n", body)
	}
	return sb.String()
}
