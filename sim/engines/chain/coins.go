package chain

import (
	"fmt"
	"sort"
	"strconv"
	"strings"
	"time"

	"github.com/gnolang/gno/gno.land/pkg/sdk/vm"
	gno "github.com/gnolang/gno/gnovm/pkg/gnolang"
	"github.com/gnolang/gno/tm2/pkg/crypto"
	"github.com/gnolang/gno/tm2/pkg/sdk/auth"
	"github.com/gnolang/gno/tm2/pkg/sdk/bank"
	"github.com/gnolang/gno/tm2/pkg/std"

	"verif/sim/kernel"
)

// C08 — coins leave an address only with that address's authority.
//
// Victim realm gno.land/r/sim/vault (gno/vault): spends only through bankers it
// instantiates itself, only when entered by a user's direct MsgCall. Attacker
// realm gno.land/r/sim/thief and MsgRun scripts are GENERATED per run from a
// template grammar (banker acquisition x banker type x realm expression x
// `from` address x operation x wrapper x placement x repetition).
//
// Oracle = authority ledger. Before every block the simulator holds, for every
// watched address and denomination, the balance of the durable image. While
// the block executes it subtracts from that figure ONLY what the property
// authorises (fees, sends, attached coins and storage deposits of the txs an
// address signed; vault.Withdraw/Burn calls that succeeded; refunds announced by
// a storage-unlock event of a realm whose storage a known call released; the
// thief's spending of its own coins, bounded by the origin-send rule) and adds
// the receipts it is sure of. After the block, the independent auditor's
// balance of every watched address must be >= that lower bound, the vault
// denomination's supply must equal mint - burn of successful vault calls, and
// the ugnot supply must be what it was at genesis.

const (
	vaultPath  = "gno.land/r/sim/vault"
	thiefPath  = "gno.land/r/sim/thief"
	vaultDenom = "/" + vaultPath + ":vlt"
)

// ---- attack grammar ---------------------------------------------------------

type atk struct {
	acq   int  // 0 NewBanker, 1 kept (package variable, stored by an earlier tx), 2 hand-rolled fake, 3 struct embedding a real banker
	bt    int  // 0 OriginSend, 1 RealmSend, 2 RealmIssue
	rlm   int  // 0 cur, 1 cur.Previous()
	from  int  // 0 vault, 1 vault storage deposit, 2 victim argument, 3 cur.Previous().Address(), 4 OriginCaller, 5 cur.Address() (own)
	op    int  // see atkOps
	wrap  int  // see atkWraps
	inner bool // acquisition happens inside the wrapper (e.g. inside the vault's callback)
	rep   int  // the operation is issued rep times
}

var btNames = []string{"OriginSend", "RealmSend", "RealmIssue"}
var acqNames = []string{"new", "kept", "fake", "embed"}
var rlmExprs = []string{"cur", "cur.Previous()"}
var fromExprs = []string{"vaultAddr", "vaultStore", "victim", "cur.Previous().Address()", "unsafe.OriginCaller()", "cur.Address()"}
var fromNames = []string{"vault", "vault-storage", "victim", "previous", "origin", "own"}

type atkOp struct {
	name  string
	stmt  string // uses b, FROM, to, amt, cur
	send  string // denomination moved by a SendCoins with from=own ("" = not a send)
	usesB bool
}

var atkOps = []atkOp{
	{"send-ugnot", `b.SendCoins(FROM, to, chain.Coins{{"ugnot", amt}})`, "ugnot", true},
	{"send-vlt", `b.SendCoins(FROM, to, chain.Coins{{vault.Denom, amt}})`, vaultDenom, true},
	{"issue-vlt", `b.IssueCoin(to, vault.Denom, amt)`, "", true},
	{"remove-vlt", `b.RemoveCoin(FROM, vault.Denom, amt)`, "", true},
	{"issue-ugnot", `b.IssueCoin(to, "ugnot", amt)`, "", true},
	{"remove-ugnot", `b.RemoveCoin(FROM, "ugnot", amt)`, "", true},
	{"methodvalue-send", `mv := b.SendCoins; mv(FROM, to, chain.Coins{{"ugnot", amt}})`, "ugnot", true},
	{"iface-send", `var s sender = b; s.SendCoins(FROM, to, chain.Coins{{"ugnot", amt}})`, "ugnot", true},
	{"probe", `vault.Probe(cross(cur), b)`, "", true},
	{"vault-withdraw", `vault.Withdraw(cross(cur), to, amt)`, "", false},
	{"vault-door-pay", `vault.Door.Pay(cross(cur), to, amt)`, "", false},
	{"vault-withdraw-funcvalue", `f := vault.Withdraw; f(cross(cur), to, amt)`, "", false},
	{"vault-door-iface", `var p payer = vault.Door; p.Pay(cross(cur), to, amt)`, "", false},
	{"vault-burn", `vault.Burn(cross(cur), amt)`, "", false},
	{"vault-mint", `vault.Mint(cross(cur), to, amt)`, "", false},
	{"vault-door-methodvalue", `pm := vault.Door.Pay; pm(cross(cur), to, amt)`, "", false},
}

var atkWraps = []string{"direct", "closure", "defer", "recover", "notify", "defer-notify"}

func (a atk) name() string {
	s := "op=" + atkOps[a.op].name
	if atkOps[a.op].usesB {
		s += " acq=" + acqNames[a.acq]
		if a.acq != 2 {
			s += "/" + btNames[a.bt]
		}
		if a.acq != 1 {
			s += "/" + rlmExprs[a.rlm]
		}
		if strings.Contains(atkOps[a.op].stmt, "FROM") {
			s += " from=" + fromNames[a.from]
		}
	}
	s += " wrap=" + atkWraps[a.wrap]
	if a.inner && atkOps[a.op].usesB {
		s += "/inner-acq"
	}
	if a.rep > 1 {
		s += fmt.Sprintf(" x%d", a.rep)
	}
	return s
}

// template is the evidence bucket of an attack (coarser than name()).
func (a atk) template() string {
	t := atkOps[a.op].name
	if atkOps[a.op].usesB {
		t += "/" + acqNames[a.acq]
		if a.acq != 1 && a.rlm == 1 {
			t += "-previous"
		}
	}
	return t + "/" + atkWraps[a.wrap]
}

// drawAtk draws one attacker program. Half of the draws are unconstrained; the
// others come from families that keep the early checks satisfied so that the
// later ones are reached (a valid banker with a foreign `from`; an issuing
// banker with a foreign denomination; an origin-send banker spending the
// thief's own coins beyond / twice / after the call that carried them).
func drawAtk(c *kernel.Choices, script bool) atk {
	pick := func(xs ...int) int { return xs[c.Intn(len(xs))] }
	a := atk{
		op:   c.Weighted([]int{6, 2, 3, 3, 2, 2, 2, 2, 2, 2, 2, 1, 1, 1, 1, 1}),
		acq:  c.Weighted([]int{6, 2, 1, 1}),
		bt:   pick(1, 0, 2),
		rlm:  c.Weighted([]int{3, 1}),
		from: c.Weighted([]int{4, 2, 3, 2, 1, 2}),
		wrap: c.Weighted([]int{5, 1, 1, 2, 2, 1}),
		rep:  1 + c.Weighted([]int{4, 1}),
	}
	a.inner = c.Chance(1, 4)
	switch c.Weighted([]int{5, 2, 2, 2, 2, 1}) {
	case 1: // origin-send rules: own coins through an origin-send banker
		a.op, a.acq, a.bt, a.rlm, a.from = pick(0, 0, 6, 7, 1, 1), pick(0, 0, 1, 3), 0, 0, 5 // incl. a denomination that did NOT come with the call
		if a.wrap >= 4 {
			a.inner = false
		}
	case 2: // valid banker, foreign from
		a.op, a.acq, a.rlm, a.from = pick(0, 0, 1, 6, 7, 3, 5), pick(0, 0, 1, 3), 0, pick(0, 0, 1, 2, 2, 3, 4)
		if a.wrap >= 4 {
			a.inner = false
		}
	case 3: // issuing banker, foreign denomination
		a.op, a.acq, a.bt, a.rlm, a.from = pick(2, 2, 3, 3, 4, 5), pick(0, 0, 1, 3), 2, 0, pick(0, 2, 5)
		if a.wrap >= 4 {
			a.inner = false
		}
	case 4: // a realm value that is not the live cur
		a.rlm, a.acq, a.from = 1, pick(0, 0, 0, 2, 3), pick(3, 3, 4, 4, 2, 0)
		if !atkOps[a.op].usesB || c.Bool() {
			a.op = pick(0, 0, 0, 6, 7, 1, 3, 8)
		}
		if a.bt == 0 {
			a.bt = 1 // (an origin-send banker needs more than a stale realm value)
		}
	case 5: // entering the vault's own spending functions
		a.op = 9 + c.Intn(7)
	}
	if script && a.acq == 1 {
		a.acq = 0 // a script has no package state of its own to keep a banker in
	}
	return a
}

func (a atk) body() string {
	op := atkOps[a.op]
	stmt := strings.ReplaceAll(op.stmt, "FROM", fromExprs[a.from])
	var ops []string
	for i := 0; i < a.rep; i++ {
		ops = append(ops, "{ "+stmt+" }")
	}
	work := strings.Join(ops, "\n\t\t")
	acq := ""
	if op.usesB {
		switch a.acq {
		case 0:
			acq = fmt.Sprintf("b := banker.NewBanker(banker.BankerType%s, %s)", btNames[a.bt], rlmExprs[a.rlm])
		case 1:
			acq = fmt.Sprintf("b := kept%s\n\tif b == nil { panic(\"nothing kept\") }", btNames[a.bt])
		case 2:
			acq = fmt.Sprintf("b := banker.Banker(&fake{rlm: %s, to: to, amt: amt})", rlmExprs[a.rlm])
		case 3:
			acq = fmt.Sprintf("b := banker.Banker(wrapped{banker.NewBanker(banker.BankerType%s, %s)})", btNames[a.bt], rlmExprs[a.rlm])
		}
		acq += "\n\t_ = b"
	}
	inner := work
	outer := acq
	if a.inner {
		inner = acq + "\n\t\t" + work
		outer = ""
	}
	var w string
	switch a.wrap {
	case 0:
		w = inner
	case 1:
		w = "func() {\n\t\t" + inner + "\n\t}()"
	case 2:
		w = "defer func() {\n\t\t" + inner + "\n\t}()"
	case 3:
		w = "defer func() { recover() }()\n\t" + inner
	case 4:
		w = "vault.Notify(cross(cur), func() {\n\t\t" + inner + "\n\t})"
	case 5:
		// (a crossing call cannot be deferred directly: the preprocessor demands a closure)
		w = "defer func() {\n\t\tvault.Notify(cross(cur), func() {\n\t\t" + inner + "\n\t\t})\n\t}()"
	}
	return "\t" + outer + "\n\t" + w + "\n"
}

// helper declarations shared by the generated realm and the generated scripts.
const atkPrelude = `
import (
	"chain"
	"chain/banker"
	"chain/runtime/unsafe"

	"gno.land/r/sim/vault"
)

var (
	vaultAddr  = chain.PackageAddress("gno.land/r/sim/vault")
	vaultStore = chain.DeriveStorageDepositAddr("gno.land/r/sim/vault")
)

type sender interface {
	SendCoins(from, to address, amt chain.Coins)
}

type payer interface {
	Pay(cur realm, to address, amt int64)
}

// wrapped embeds a real banker: every method is promoted.
type wrapped struct{ banker.Banker }

// fake is a hand-rolled banker.Banker. When somebody calls it, it tries to
// spend the vault's coins with whatever realm value it was given.
type fake struct {
	rlm realm
	to  address
	amt int64
}

func (f *fake) steal() {
	nb := banker.NewBanker(banker.BankerTypeRealmSend, f.rlm)
	nb.SendCoins(vaultAddr, f.to, chain.Coins{{"ugnot", f.amt}})
}
func (f *fake) GetCoins(addr address) chain.Coins                  { f.steal(); return nil }
func (f *fake) GetCoin(addr address, denom string) int64           { f.steal(); return 0 }
func (f *fake) SendCoins(from, to address, amt chain.Coins)        { f.steal() }
func (f *fake) TotalCoin(denom string) int64                       { f.steal(); return 0 }
func (f *fake) IssueCoin(addr address, denom string, amount int64) { f.steal() }
func (f *fake) RemoveCoin(addr address, denom string, amount int64) { f.steal() }

var _ = unsafe.OriginCaller
var _ = vault.Denom
`

func thiefSource(atks []atk) string {
	var sb strings.Builder
	sb.WriteString("// Package thief is GENERATED by the C08 engine from its attack grammar.\npackage thief\n")
	sb.WriteString(atkPrelude)
	sb.WriteString(`
var (
	keptOriginSend banker.Banker
	keptRealmSend  banker.Banker
	keptRealmIssue banker.Banker
	calls          int
)

// Keep stores bankers of the thief's own realm in package variables (legitimate).
func Keep(cur realm) {
	keptRealmSend = banker.NewBanker(banker.BankerTypeRealmSend, cur)
	keptRealmIssue = banker.NewBanker(banker.BankerTypeRealmIssue, cur)
	keptOriginSend = banker.NewBanker(banker.BankerTypeOriginSend, cur)
	calls++
}

func Address() address { return chain.PackageAddress("gno.land/r/sim/thief") }
`)
	for i, a := range atks {
		fmt.Fprintf(&sb, "\n// A%d: %s\nfunc A%d(cur realm, victim address, to address, amt int64) {\n\tcalls++\n%s}\n", i, a.name(), i, a.body())
	}
	return sb.String()
}

func scriptSource(a atk, victim, to crypto.Address, amt int64, viaThief int) string {
	var sb strings.Builder
	sb.WriteString("package main\n")
	pre := atkPrelude
	if viaThief >= 0 {
		pre = strings.Replace(pre, "\"gno.land/r/sim/vault\"\n", "\"gno.land/r/sim/vault\"\n\t\"gno.land/r/sim/thief\"\n", 1)
	}
	sb.WriteString(pre)
	fmt.Fprintf(&sb, "\nfunc main(cur realm) {\n\tvictim := address(%q)\n\tto := address(%q)\n\tamt := int64(%d)\n\t_, _, _ = victim, to, amt\n", victim.String(), to.String(), amt)
	if viaThief >= 0 {
		fmt.Fprintf(&sb, "\tthief.A%d(cross(cur), victim, to, amt)\n", viaThief)
	} else {
		sb.WriteString(a.body())
	}
	sb.WriteString("}\n")
	return sb.String()
}

// ---- the ledger -----------------------------------------------------------------

type watched struct {
	name string
	addr crypto.Address
}

type coinWorld struct {
	*world
	watch                                     []watched
	lower                                     map[string]map[string]int64 // name -> denom -> lower bound of the balance after the block
	why                                       map[string][]string         // name -> authorised decreases of the current block (for messages)
	vltSupply                                 int64
	ugnotSupply                               int64
	atks                                      []atk
	kept                                      bool // thief.Keep succeeded earlier
	vaultAddr, vaultStore, thiefAddr, feeColl crypto.Address
}

func (w *coinWorld) nameOf(a crypto.Address) string {
	for _, x := range w.watch {
		if x.addr == a {
			return x.name
		}
	}
	return ""
}

func (w *coinWorld) debit(name, denom string, amt int64, why string) {
	if name == "" || amt == 0 {
		return
	}
	if w.lower[name] == nil {
		w.lower[name] = map[string]int64{}
	}
	w.lower[name][denom] -= amt
	if amt > 0 {
		w.why[name] = append(w.why[name], fmt.Sprintf("%d%s %s", amt, denom, why))
	}
}

func (w *coinWorld) credit(name, denom string, amt int64) { w.debit(name, denom, -amt, "") }

func (w *coinWorld) sync(au *auditor) {
	w.lower = map[string]map[string]int64{}
	w.why = map[string][]string{}
	for _, x := range w.watch {
		m := map[string]int64{}
		for _, cn := range au.coinsOf(x.addr) {
			m[cn.Denom] = cn.Amount
		}
		w.lower[x.name] = m
	}
}

// ctx of a generated attack: who is `cur`, who signed, what was attached.
type ctTx struct {
	signer     string
	bytes      []byte
	fee        int64
	desc       string
	attack     string // template bucket ("" = legitimate traffic)
	onOK       func(r txResult)
	mustFail   string // non-empty: reason why this tx may never succeed
	legit      bool   // a state-changing legitimate operation
	mayRelease bool   // a user's direct call of a vault function that rewrites the vault's journal (its storage may shrink)
}

func (w *coinWorld) sign(signer string, gas int64, msgs ...std.Msg) []byte {
	a := w.acts[signer]
	tx := std.Tx{Msgs: msgs, Fee: std.NewFee(gas, std.NewCoin("ugnot", 1_000_000))}
	signTx(&tx, []*actor{a}, false)
	return encTx(tx)
}

func (w *coinWorld) call(signer, pkg, fn string, send int64, args ...string) []byte {
	a := w.acts[signer]
	var s std.Coins
	if send > 0 {
		s = coins(send)
	}
	return w.sign(signer, 100_000_000, vm.NewMsgCall(a.addr, s, pkg, fn, args))
}

func (w *coinWorld) run(signer, src string, send int64) []byte {
	a := w.acts[signer]
	var s std.Coins
	if send > 0 {
		s = coins(send)
	}
	return w.sign(signer, 150_000_000, vm.NewMsgRun(a.addr, s, []*std.MemFile{{Name: "main.gno", Body: src}}))
}

var users = []string{"alice", "bob", "carol"}

// authorised own-spending of an attack program: the coins of the address `cur`
// stands for, moved by a banker made from the live `cur` (or kept from one).
func (a atk) ownSpend(script bool, send, amt int64) (denom string, allowed int64) {
	op := atkOps[a.op]
	if op.send == "" || !op.usesB {
		return "", 0
	}
	own := a.from == 5 || (script && (a.from == 3 || a.from == 4))
	if !own {
		return "", 0
	}
	if a.acq == 2 || (a.acq != 1 && a.rlm != 0) {
		return "", 0
	}
	total := int64(a.rep) * amt
	if a.bt == 0 {
		// origin-send banker: never more than what came with the call, denomination by denomination;
		// the simulator only ever attaches ugnot, so no other denomination can leave through it
		if op.send != "ugnot" {
			return "", 0
		}
		if total > send {
			total = send
		}
	}
	return op.send, total
}

func (w *coinWorld) genAttack() *ctTx {
	c := w.c
	signer := []string{"chaos1", "chaos2", "alice", "bob", "carol"}[c.Weighted([]int{3, 3, 1, 1, 1})]
	victims := []crypto.Address{w.acts["alice"].addr, w.acts["bob"].addr, w.acts["carol"].addr, w.acts["dave"].addr, w.vaultAddr, w.vaultStore, w.feeColl}
	victim := victims[c.Intn(len(victims))]
	dests := []crypto.Address{w.acts[signer].addr, w.thiefAddr, w.acts["chaos1"].addr, w.acts["dave"].addr}
	to := dests[c.Intn(len(dests))]
	amt := []int64{1, 7, 1000, 250_000, 3_000_000}[c.Intn(5)]
	var send int64
	if c.Chance(1, 3) {
		send = []int64{1, 1000, 250_000}[c.Intn(3)]
	}
	t := &ctTx{signer: signer, fee: 1_000_000}
	form := c.Weighted([]int{5, 3, 1}) // realm function, script, script calling the realm function
	var a atk
	script := false
	switch form {
	case 0:
		i := c.Intn(len(w.atks))
		a = w.atks[i]
		if a.bt == 0 && a.from == 5 && send == 0 && c.Chance(2, 3) {
			send = []int64{1, 1000, 250_000}[c.Intn(3)] // an origin-send banker is only interesting with coins attached
		}
		t.bytes = w.call(signer, thiefPath, fmt.Sprintf("A%d", i), send, victim.String(), to.String(), strconv.FormatInt(amt, 10))
		t.desc = fmt.Sprintf("call thief.A%d{%s}(victim=%s,to=%s,amt=%d) send=%d", i, a.name(), w.label(victim), w.label(to), amt, send)
		t.attack = a.template()
	case 1:
		a = drawAtk(c, true)
		script = true
		t.bytes = w.run(signer, scriptSource(a, victim, to, amt, -1), send)
		t.desc = fmt.Sprintf("run script{%s}(victim=%s,to=%s,amt=%d) send=%d", a.name(), w.label(victim), w.label(to), amt, send)
		t.attack = "script:" + a.template()
	case 2:
		i := c.Intn(len(w.atks))
		a = w.atks[i]
		t.bytes = w.run(signer, scriptSource(a, victim, to, amt, i), send)
		t.desc = fmt.Sprintf("run script->thief.A%d{%s}(victim=%s,to=%s,amt=%d) send=%d", i, a.name(), w.label(victim), w.label(to), amt, send)
		t.attack = "script-via-realm:" + a.template()
	}
	spender := "thief"
	if script {
		spender = signer
	}
	t.onOK = func(r txResult) {
		if form == 0 && send > 0 {
			w.debit(signer, "ugnot", send, "attached to "+t.desc)
			w.credit("thief", "ugnot", send)
		}
		// MsgRun: the attached coins stay at the signer's own address, but they are the tx's origin send
		if denom, allowed := a.ownSpend(script, send, amt); allowed > 0 {
			w.debit(spender, denom, allowed, "own coins spent by its own program "+a.name())
			if a.wrap != 3 && allowed == int64(a.rep)*amt { // no recover() in the program and the tx succeeded: every send happened
				w.credit(w.nameOf(to), denom, allowed)
			}
			w.r.Probe("own_spend_ok")
		}
	}
	return t
}

func (w *coinWorld) label(a crypto.Address) string {
	if n := w.nameOf(a); n != "" {
		return n
	}
	return a.String()
}

func (w *coinWorld) genLegit() *ctTx {
	c := w.c
	signer := users[c.Intn(3)]
	a := w.acts[signer]
	t := &ctTx{signer: signer, fee: 1_000_000, legit: true}
	switch c.Weighted([]int{3, 3, 3, 2, 2, 2, 2, 1, 1, 2}) {
	case 0: // deposit
		amt := int64(1 + c.Intn(2_000_000))
		t.bytes = w.call(signer, vaultPath, "Deposit", amt, fmt.Sprintf("memo-%d-%s", c.Intn(1000), strings.Repeat("x", c.Intn(40))))
		t.desc = fmt.Sprintf("vault.Deposit send=%d", amt)
		t.mayRelease = true
		t.onOK = func(txResult) {
			w.debit(signer, "ugnot", amt, "attached to vault.Deposit")
			w.credit("vault", "ugnot", amt)
		}
	case 1: // withdraw (may exceed the balance: then it must fail by itself)
		amt := []int64{1, 500, 40_000, 900_000, 1 << 40}[c.Intn(5)]
		to := []string{"alice", "bob", "carol", "dave"}[c.Intn(4)]
		t.bytes = w.call(signer, vaultPath, "Withdraw", 0, w.acts[to].addr.String(), strconv.FormatInt(amt, 10))
		t.desc = fmt.Sprintf("vault.Withdraw(%s,%d)", to, amt)
		t.onOK = func(txResult) {
			w.debit("vault", "ugnot", amt, "vault.Withdraw succeeded")
			w.credit(to, "ugnot", amt)
			w.r.Probe("legit_withdraw_ok")
		}
	case 2: // bank send
		to := []string{"alice", "bob", "carol", "dave", "vault", "thief"}[c.Intn(6)]
		amt := int64(1 + c.Intn(500_000))
		dst := w.addrOf(to)
		t.bytes = w.sign(signer, 50_000_000, bank.NewMsgSend(a.addr, dst, coins(amt)))
		t.desc = fmt.Sprintf("bank send %d to %s", amt, to)
		t.onOK = func(txResult) {
			w.debit(signer, "ugnot", amt, "bank send")
			w.credit(to, "ugnot", amt)
		}
	case 3: // mint
		amt := int64(1 + c.Intn(10_000))
		to := []string{"vault", "thief", "alice", "bob", "thief"}[c.Intn(5)]
		t.bytes = w.call(signer, vaultPath, "Mint", 0, w.addrOf(to).String(), strconv.FormatInt(amt, 10))
		t.desc = fmt.Sprintf("vault.Mint(%s,%d)", to, amt)
		t.onOK = func(txResult) {
			w.vltSupply += amt
			w.credit(to, vaultDenom, amt)
			w.r.Probe("legit_mint_ok")
		}
	case 4: // burn
		amt := []int64{1, 50, 3000, 1 << 40}[c.Intn(4)]
		t.bytes = w.call(signer, vaultPath, "Burn", 0, strconv.FormatInt(amt, 10))
		t.desc = fmt.Sprintf("vault.Burn(%d)", amt)
		t.onOK = func(txResult) {
			w.vltSupply -= amt
			w.debit("vault", vaultDenom, amt, "vault.Burn succeeded")
			w.r.Probe("legit_burn_ok")
		}
	case 5: // trim: releases vault storage, the deposit is refunded to the caller
		n := 1 + c.Intn(4)
		t.bytes = w.call(signer, vaultPath, "Trim", 0, strconv.Itoa(n))
		t.desc = fmt.Sprintf("vault.Trim(%d)", n)
		t.mayRelease = true
		t.onOK = func(txResult) {}
	case 6: // note: grows storage
		t.bytes = w.call(signer, vaultPath, "Note", 0, strings.Repeat("n", 1+c.Intn(200)))
		t.desc = "vault.Note"
		t.mayRelease = true
		t.onOK = func(txResult) {}
	case 7: // thief keeps bankers of its own realm in package variables (allowed)
		signer = []string{"chaos1", "chaos2"}[c.Intn(2)]
		t.signer = signer
		t.bytes = w.call(signer, thiefPath, "Keep", 0)
		t.desc = "thief.Keep"
		t.legit = false
		t.onOK = func(txResult) { w.kept = true }
	case 8: // a user's own script spends the user's own coins (signed by the user)
		amt := int64(1 + c.Intn(100_000))
		to := []string{"bob", "carol", "dave", "vault"}[c.Intn(4)]
		src := fmt.Sprintf("package main\n\nimport (\n\t\"chain\"\n\t\"chain/banker\"\n)\n\nfunc main(cur realm) {\n\tb := banker.NewBanker(banker.BankerTypeRealmSend, cur)\n\tb.SendCoins(cur.Address(), address(%q), chain.Coins{{\"ugnot\", %d}})\n}\n", w.addrOf(to).String(), amt)
		t.bytes = w.run(signer, src, 0)
		t.desc = fmt.Sprintf("own script sends %d to %s", amt, to)
		t.onOK = func(txResult) {
			w.debit(signer, "ugnot", amt, "own signed script")
			w.credit(to, "ugnot", amt)
		}
	case 9: // txs that fail on their own: unknown function / out of gas
		t.legit = false
		if c.Bool() {
			t.bytes = w.call(signer, vaultPath, "NoSuchFunction", 1000)
			t.desc = "vault.NoSuchFunction send=1000"
			t.mustFail = "unknown function"
		} else {
			t.bytes = w.sign(signer, int64(1_100_000+c.Intn(1_500_000)), vm.NewMsgCall(a.addr, coins(5000), vaultPath, "Deposit", []string{strings.Repeat("g", 300)}))
			t.desc = "vault.Deposit send=5000 with a drawn small gas limit"
			t.mayRelease = true
			t.onOK = func(txResult) {
				w.debit(signer, "ugnot", 5000, "attached to vault.Deposit")
				w.credit("vault", "ugnot", 5000)
			}
		}
	}
	return t
}

func (w *coinWorld) addrOf(name string) crypto.Address {
	for _, x := range w.watch {
		if x.name == name {
			return x.addr
		}
	}
	kernel.Harnessf("unknown watched name %s", name)
	return crypto.Address{}
}

func (w *coinWorld) audit(height int64, when string) *auditor {
	au, err := newAuditor(w.ref.disk, height)
	if err != nil {
		w.fail("C27", "audit-store-unloadable", "independent multistore over the durable image of height %d does not load: %v", height, err)
		return nil
	}
	for _, x := range w.watch {
		have := map[string]int64{}
		for _, cn := range au.coinsOf(x.addr) {
			have[cn.Denom] = cn.Amount
		}
		for _, d := range kernel.SortedKeys(w.lower[x.name]) {
			if have[d] < w.lower[x.name][d] {
				oracle := "unauthorised-decrease"
				switch {
				case x.name == "vault":
					oracle = "vault-coins-left-without-vault-code"
				case x.name == "vault-storage":
					oracle = "storage-deposit-left-without-release"
				case x.name == "thief":
					oracle = "origin-send-rule-exceeded"
				}
				w.fail("C08", oracle, "%s: %s (%s) holds %d%s, but everything it authorised leaves at least %d (missing %d). Authorised decreases in this block: %v",
					when, x.name, x.addr, have[d], d, w.lower[x.name][d], w.lower[x.name][d]-have[d], w.why[x.name])
				return nil
			}
		}
	}
	if s := au.totalSupply(vaultDenom); s != w.vltSupply {
		w.fail("C08", "realm-denom-supply", "%s: supply of %s is %d; successful vault.Mint/Burn calls account for %d", when, vaultDenom, s, w.vltSupply)
		return nil
	}
	if s := au.totalSupply("ugnot"); s != w.ugnotSupply {
		w.fail("C08", "ugnot-supply-changed", "%s: ugnot supply is %d, it was %d after genesis", when, s, w.ugnotSupply)
		return nil
	}
	if msg := au.invariants(); msg != "" {
		w.fail("C14", "bank-auth-invariants", "%s: %s", when, clip(msg, 1500))
		return nil
	}
	if sum, err := au.sumAllUgnot(); err != nil || sum != w.ugnotSupply {
		w.fail("C14", "supply-vs-sum", "%s: sum of all ugnot balances %d (err %v), supply %d", when, sum, err, w.ugnotSupply)
		return nil
	}
	w.r.Probe("blocks_audited")
	return au
}

func runCoins(c *kernel.Choices, p kernel.Params) *kernel.Result {
	base := &world{c: c, r: kernel.NewResult(), p: p, prop: "C08", emptyKeys: map[string]bool{}}
	w := &coinWorld{world: base}
	w.img = baseImage(3_000_000_000)
	w.acts = newActors()
	w.bal = map[string]int64{}
	w.height = 1
	w.now = genesisTime.Add(time.Second)
	w.ref = w.openNode("ref")
	defer func() { w.ref.app.Close() }()
	au, err := newAuditor(w.ref.disk, 1)
	if err != nil {
		kernel.Harnessf("auditor: %v", err)
	}
	for nm, a := range w.acts {
		if seq, num, bal, ok := au.account(a.addr); ok {
			w.bal[nm], a.seq, a.num = bal, seq, num
		}
	}
	w.ugnotSupply = au.totalSupply("ugnot")
	w.vaultAddr = gno.DerivePkgCryptoAddr(vaultPath)
	w.vaultStore = gno.DeriveStorageDepositCryptoAddr(vaultPath)
	w.thiefAddr = gno.DerivePkgCryptoAddr(thiefPath)
	w.feeColl = crypto.AddressFromPreimage([]byte(auth.DefaultFeeCollectorName))
	for _, nm := range []string{"alice", "bob", "carol", "dave", "chaos1", "chaos2"} {
		w.watch = append(w.watch, watched{nm, w.acts[nm].addr})
	}
	w.watch = append(w.watch, watched{"vault", w.vaultAddr}, watched{"vault-storage", w.vaultStore},
		watched{"thief", w.thiefAddr}, watched{"fee-collector", w.feeColl})

	// the attacker programs of this run
	natk := 4 + c.Intn(7)
	for i := 0; i < natk; i++ {
		w.atks = append(w.atks, drawAtk(c, false))
	}
	if p.Knob("grammar", "") == "all" { // development aid: every operation under every wrapper, acquisition forms cycling
		w.atks = nil
		k := 0
		for op := range atkOps {
			for wr := range atkWraps {
				w.atks = append(w.atks, atk{op: op, wrap: wr, acq: k % 4, bt: k % 3, rlm: k % 2, from: k % 6, inner: k%5 == 0, rep: 1 + k%2})
				k++
			}
		}
		natk = len(w.atks)
	}
	c.Event("coins run: %d generated attack functions", natk)
	for i, a := range w.atks {
		c.Event("A%d = %s", i, a.name())
	}

	// ---- setup block: deploy vault and thief, fund the thief and dave -----------------
	deliver := func(t *ctTx) txResult {
		r := resultOf(w.ref.app.DeliverTx(deliverReq(t.bytes)))
		if r.GasW != 0 || r.ok() {
			w.acts[t.signer].seq++
		}
		return r
	}
	w.height++
	w.now = w.now.Add(5 * time.Second)
	b := blockSpec{Height: w.height, Time: w.now}
	w.ref.beginBlock(b)
	vaultPkg := readRealm(gnoDir("vault"), vaultPath)
	thiefSrc := thiefSource(w.atks)
	type setupTx struct {
		signer, desc string
		mk           func() []byte // signed just before delivery (sequence numbers)
	}
	setup := []setupTx{
		{"alice", "deploy vault", func() []byte {
			return w.sign("alice", 300_000_000, vm.MsgAddPackage{Creator: w.acts["alice"].addr, Package: vaultPkg})
		}},
		{"chaos1", "deploy thief", func() []byte {
			return w.sign("chaos1", 900_000_000, vm.MsgAddPackage{Creator: w.acts["chaos1"].addr, Package: memPkg(thiefPath, map[string]string{"thief.gno": thiefSrc})})
		}},
		{"chaos2", "fund thief", func() []byte {
			return w.sign("chaos2", 50_000_000, bank.NewMsgSend(w.acts["chaos2"].addr, w.thiefAddr, coins(20_000_000)))
		}},
		{"chaos2", "fund dave", func() []byte {
			return w.sign("chaos2", 50_000_000, bank.NewMsgSend(w.acts["chaos2"].addr, w.acts["dave"].addr, coins(50_000_000)))
		}},
		{"alice", "seed vault", func() []byte { return w.call("alice", vaultPath, "Deposit", 30_000_000, "seed") }},
		{"alice", "seed vault denom", func() []byte { return w.call("alice", vaultPath, "Mint", 0, w.vaultAddr.String(), "100000") }},
		// the thief holds some of the vault's denomination too: its own coins of a denomination that never comes
		// attached to a call (origin-send rules are per denomination)
		{"alice", "thief gets vault denom", func() []byte { return w.call("alice", vaultPath, "Mint", 0, w.thiefAddr.String(), "5000") }},
	}
	if c.Bool() {
		setup = append(setup, setupTx{"chaos1", "thief keeps its own bankers", func() []byte { return w.call("chaos1", thiefPath, "Keep", 0) }})
		w.kept = true
	}
	for _, st := range setup {
		t := &ctTx{signer: st.signer, desc: st.desc, bytes: st.mk()}
		r := deliver(t)
		if !r.ok() {
			extra := ""
			if t.desc == "deploy thief" {
				extra = "\n--- generated source ---\n" + thiefSrc
			}
			kernel.Harnessf("setup tx %q failed: %s %s%s", t.desc, r.Err, clip(r.Log, 1500), extra)
		}
	}
	w.ref.endBlockCommit(b)
	w.vltSupply = 105000
	au, err = newAuditor(w.ref.disk, b.Height)
	if err != nil {
		kernel.Harnessf("auditor after setup: %v", err)
	}
	if a, ok := w.acts["dave"], true; ok {
		if _, num, _, found := au.account(a.addr); found {
			a.num = num
		}
	}
	w.sync(au)
	if w.lower["vault"]["ugnot"] != 30_000_000 || w.lower["thief"]["ugnot"] != 20_000_000 || w.lower["vault"][vaultDenom] != 100000 || w.lower["thief"][vaultDenom] != 5000 || w.lower["vault-storage"]["ugnot"] == 0 {
		kernel.Harnessf("setup balances: vault %v thief %v vault-storage %v", w.lower["vault"], w.lower["thief"], w.lower["vault-storage"])
	}

	nblocks := 4 + c.Intn(7)
	if p.Tier == "thorough" {
		nblocks = 6 + c.Intn(14)
	}
	attackW := 2 + c.Intn(5)
	legitW := 2 + c.Intn(4)
	c.Event("blocks=%d weights attack=%d legit=%d", nblocks, attackW, legitW)
	templates := map[string]bool{}
	for bi := 0; bi < nblocks && !w.stop; bi++ {
		w.height++
		w.now = w.now.Add(time.Duration(1+c.Intn(20)) * time.Second)
		b := blockSpec{Height: w.height, Time: w.now}
		w.ref.beginBlock(b)
		ntx := 1 + c.Intn(4)
		for i := 0; i < ntx && !w.stop; i++ {
			var t *ctTx
			if c.Weighted([]int{attackW, legitW}) == 0 {
				t = w.genAttack()
			} else {
				t = w.genLegit()
			}
			r := deliver(t)
			c.Event("h%d tx%d by %s: %s -> err=%s gasU=%d %s", b.Height, i, t.signer, t.desc, r.Err, r.GasU, failReason(r))
			if !r.ok() && t.attack != "" && (strings.Contains(r.Err, "TypeCheck") || strings.Contains(r.Log, "preprocess stack")) {
				kernel.Harnessf("generated attack program does not compile (grammar bug): %s: %s", t.desc, clip(r.Log, 1200))
			}
			if r.GasW == 0 && !r.ok() {
				kernel.Harnessf("tx %s rejected before/at ante: %s %s", t.desc, r.Err, clip(r.Log, 400))
			}
			w.debit(t.signer, "ugnot", t.fee, "fee")
			locks, unlocks := storageEvents(r.Events)
			if strings.Count(r.Events, "fee_delta") != len(locks) || strings.Count(r.Events, "fee_refund") != len(unlocks) {
				kernel.Harnessf("storage events not understood: %s", clip(r.Events, 800))
			}
			if r.ok() {
				if t.mustFail != "" {
					w.fail("C08", "forbidden-tx-succeeded", "height %d: %s succeeded (%s)", b.Height, t.desc, t.mustFail)
					break
				}
				if t.onOK != nil {
					t.onOK(r)
				}
				for _, e := range locks { // paid by the caller (the signer) to the realm's storage-deposit address
					w.debit(t.signer, "ugnot", e.amount, "storage deposit for "+e.path)
					w.credit(w.nameOf(gno.DeriveStorageDepositCryptoAddr(e.path)), "ugnot", e.amount)
				}
				for _, e := range unlocks {
					if e.path == vaultPath && !t.mayRelease {
						w.fail("C08", "vault-storage-released-by-foreign-tx", "height %d: %s released %d bytes of the vault's storage (refund %d) although it is not a user's direct call of a vault function that rewrites the vault's own state", b.Height, t.desc, -e.bytes, e.amount)
						break
					}
					w.debit(w.nameOf(gno.DeriveStorageDepositCryptoAddr(e.path)), "ugnot", e.amount, fmt.Sprintf("refund of %d released bytes of %s", -e.bytes, e.path))
					w.credit(t.signer, "ugnot", e.amount)
					if e.path == vaultPath {
						w.r.Probe("vault_storage_released")
					}
				}
				if t.attack != "" {
					w.r.Probe("attacks_accepted")
				} else if t.legit {
					w.r.Probe("legit_ok")
				}
			} else {
				if len(locks)+len(unlocks) > 0 {
					w.fail("C02", "failed-tx-emitted-storage-events", "height %d: failed %s carries storage events %s", b.Height, t.desc, clip(r.Events, 300))
					break
				}
				if t.attack != "" {
					w.r.Probe("attacks_rejected")
				} else {
					w.r.Probe("legit_failed")
				}
			}
			if t.attack != "" {
				w.r.Probe("attacks")
				templates[t.attack] = true
				w.r.Probe("tmpl:" + strings.SplitN(t.attack, "/", 2)[0])
			}
		}
		if w.stop {
			break
		}
		w.ref.endBlockCommit(b)
		w.r.Steps += ntx
		au := w.audit(b.Height, fmt.Sprintf("after height %d", b.Height))
		if au == nil {
			break
		}
		w.sync(au)
		if c.Chance(1, 4) {
			c.Event("restart after h%d", b.Height)
			if err := w.ref.restart(); err != nil {
				w.fail("C01", "restart", "cannot restart after height %d: %v", b.Height, err)
				break
			}
			w.r.Fault("restart")
		}
	}
	w.r.Probes["templates_run"] = len(templates)
	w.r.Nontrivial = w.r.Probes["attacks"] >= 1 && w.r.Probes["legit_ok"] >= 1
	w.r.Sample = map[string]any{"events": c.Log[:min(len(c.Log), 40)], "gnoroot": rootDir()}
	return w.r
}

// failReason is the first line of the error data of a failed tx (deterministic text).
func failReason(r txResult) string {
	if r.ok() {
		return ""
	}
	l := r.Log
	if i := strings.Index(l, "Data: "); i >= 0 {
		l = l[i+6:]
	}
	if i := strings.IndexByte(l, '\n'); i >= 0 {
		l = l[:i]
	}
	return "[" + clip(l, 200) + "]"
}

func init() { engines["C08"] = runCoins }

var _ = sort.Strings
