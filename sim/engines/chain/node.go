// Engine chain: the real gno.land application (BaseApp, ante handler,
// auth/bank/params/vm keepers, GnoVM, gno store, cache/prefix stores, rootmulti,
// store/bptree with fast index, dbadapter) over the simulated disk. The
// simulator is the block proposer: it issues exactly the ABCI sequence
// BlockExecutor issues. Consensus, p2p, mempool and RPC are not run.
package chain

import (
	"bytes"
	"crypto/sha256"
	"encoding/hex"
	"fmt"
	"os"
	"path/filepath"
	"sort"
	"strings"
	"time"

	"github.com/gnolang/gno/gno.land/pkg/gnoland"
	"github.com/gnolang/gno/gnovm/pkg/gnoenv"
	"github.com/gnolang/gno/gnovm/pkg/gnolang"
	"github.com/gnolang/gno/tm2/pkg/amino"
	abci "github.com/gnolang/gno/tm2/pkg/bft/abci/types"
	bft "github.com/gnolang/gno/tm2/pkg/bft/types"
	"github.com/gnolang/gno/tm2/pkg/crypto"
	"github.com/gnolang/gno/tm2/pkg/crypto/secp256k1"
	"github.com/gnolang/gno/tm2/pkg/sdk"
	"github.com/gnolang/gno/tm2/pkg/std"
	stypes "github.com/gnolang/gno/tm2/pkg/store/types"

	"verif/sim/kernel"
	"verif/sim/simdb"
)

const chainID = "verif-sim"

var genesisTime = time.Date(2026, 1, 1, 0, 0, 0, 0, time.UTC)

// actor is a keyed account the workload signs with.
type actor struct {
	name string
	priv secp256k1.PrivKeySecp256k1
	addr crypto.Address
	num  uint64 // account number (read back from the chain after genesis)
	seq  uint64 // model of the next sequence
}

func newActor(name string) *actor {
	h := sha256.Sum256([]byte("verif-actor-" + name))
	priv := secp256k1.GenPrivKeySecp256k1(h[:])
	return &actor{name: name, priv: priv, addr: priv.PubKey().Address()}
}

// node is one process running the application over one disk.
type node struct {
	name   string
	mach   *simdb.Machine
	disk   *simdb.Disk
	app    *sdk.BaseApp
	height int64 // last committed height
	last   []byte
	restarts int
	prune    stypes.PruneStrategy
}

func openApp(disk *simdb.Disk, prune ...stypes.PruneStrategy) (*sdk.BaseApp, error) {
	opts := gnoland.TestAppOptions(disk.Open())
	if len(prune) > 0 && prune[0] != "" {
		opts.PruneStrategy = prune[0]
	}
	opts.SkipGenesisSigVerification = true
	opts.GenesisTxResultHandler = gnoland.NoopGenesisTxResultHandler
	a, err := gnoland.NewAppWithOptions(opts)
	if err != nil {
		return nil, err
	}
	return a.(*sdk.BaseApp), nil
}

func newNode(name string, disk *simdb.Disk, prune ...stypes.PruneStrategy) (*node, error) {
	app, err := openApp(disk, prune...)
	if err != nil {
		return nil, err
	}
	n := &node{name: name, mach: disk.M, disk: disk, app: app}
	if len(prune) > 0 {
		n.prune = prune[0]
	}
	n.height = app.LastBlockHeight()
	n.last = app.LastCommitID().Hash
	return n, nil
}

// restart drops the process (all in-memory caches) and reopens over the same disk.
func (n *node) restart() error {
	n.app.Close()
	app, err := openApp(n.disk, n.prune)
	if err != nil {
		return err
	}
	n.app = app
	n.restarts++
	if h := app.LastBlockHeight(); h != n.height {
		return fmt.Errorf("after restart LastBlockHeight=%d, committed %d", h, n.height)
	}
	if !bytes.Equal(app.LastCommitID().Hash, n.last) {
		return fmt.Errorf("after restart LastCommitID.Hash=%X, committed %X", app.LastCommitID().Hash, n.last)
	}
	return nil
}

func defaultConsensusParams(maxGas int64) *abci.ConsensusParams {
	return &abci.ConsensusParams{
		Block: &abci.BlockParams{
			MaxTxBytes:    1_000_000,
			MaxDataBytes:  2_000_000,
			MaxBlockBytes: 0,
			MaxGas:        maxGas,
			TimeIotaMS:    100,
		},
		Validator: &abci.ValidatorParams{PubKeyTypeURLs: []string{}},
	}
}

// txResult is the part of a DeliverTx response the results hash and clients see.
type txResult struct {
	Err    string
	Log    string
	Data   string
	Events string
	GasW   int64
	GasU   int64
}

func resultOf(r abci.ResponseDeliverTx) txResult {
	tr := txResult{GasW: r.GasWanted, GasU: r.GasUsed, Data: hex.EncodeToString(r.Data)}
	if r.Error != nil {
		tr.Err = fmt.Sprintf("%T", r.Error)
		tr.Log = r.Log
	}
	if len(r.Events) > 0 {
		tr.Events = string(amino.MustMarshalJSON(r.Events))
	}
	return tr
}

func (t txResult) ok() bool { return t.Err == "" }

// key compares what consensus compares (results hash covers Error, Data, Events) plus gas.
func (t txResult) key() string {
	return fmt.Sprintf("err=%s data=%s events=%s gasU=%d gasW=%d", t.Err, t.Data, t.Events, t.GasU, t.GasW)
}

type blockSpec struct {
	Height int64
	Time   time.Time
	Txs    [][]byte
}

type blockResult struct {
	Txs     []txResult
	AppHash []byte
}

func (n *node) beginBlock(b blockSpec) {
	n.app.BeginBlock(abci.RequestBeginBlock{Header: &bft.Header{
		ChainID: chainID, Height: b.Height, Time: b.Time, AppHash: n.last,
	}})
}

func (n *node) endBlockCommit(b blockSpec) []byte {
	n.app.EndBlock(abci.RequestEndBlock{Height: b.Height})
	res := n.app.Commit()
	n.height = b.Height
	n.last = res.Data
	return res.Data
}

// runBlock executes one block with the ABCI sequence BlockExecutor uses.
func (n *node) runBlock(b blockSpec) blockResult {
	n.beginBlock(b)
	var out blockResult
	for _, tx := range b.Txs {
		out.Txs = append(out.Txs, resultOf(n.app.DeliverTx(abci.RequestDeliverTx{Tx: tx})))
	}
	out.AppHash = n.endBlockCommit(b)
	return out
}

func deliverReq(tx []byte) abci.RequestDeliverTx { return abci.RequestDeliverTx{Tx: tx} }

// anteGas measures the gas the ante handler charges to the tx meter for tx (CheckTx runs ante only).
func (n *node) anteGas(tx []byte) (int64, string) {
	r := n.app.CheckTx(abci.RequestCheckTx{Tx: tx})
	if r.Error != nil {
		return r.GasUsed, fmt.Sprintf("%v %s", r.Error, r.Log)
	}
	return r.GasUsed, ""
}

func (n *node) query(path string, data []byte) abci.ResponseQuery {
	return n.app.Query(abci.RequestQuery{Path: path, Data: data})
}

func (n *node) qeval(pkgPath, expr string) (string, error) {
	r := n.query("vm/qeval", []byte(pkgPath+"."+expr))
	if r.Error != nil {
		return "", fmt.Errorf("%v: %s", r.Error, r.Log)
	}
	return string(r.Data), nil
}

func (n *node) account(addr crypto.Address) (std.Account, error) {
	r := n.query("auth/accounts/"+addr.String(), nil)
	if r.Error != nil {
		return nil, fmt.Errorf("%v: %s", r.Error, r.Log)
	}
	if len(r.Data) == 0 || string(r.Data) == "null" {
		return nil, nil
	}
	var acc gnoland.GnoAccount
	if err := amino.UnmarshalJSON(r.Data, &acc); err != nil {
		return nil, fmt.Errorf("decoding account %s: %v (%s)", addr, err, r.Data)
	}
	return &acc, nil
}

// ---- transactions ---------------------------------------------------------

func signTx(tx *std.Tx, signers []*actor, bump bool) {
	tx.Signatures = nil
	for _, a := range signers {
		sb, err := tx.GetSignBytes(chainID, a.num, a.seq)
		if err != nil {
			kernel.Harnessf("sign bytes: %v", err)
		}
		sig, err := a.priv.Sign(sb)
		if err != nil {
			kernel.Harnessf("sign: %v", err)
		}
		tx.Signatures = append(tx.Signatures, std.Signature{PubKey: a.priv.PubKey(), Signature: sig})
	}
	_ = bump
}

func mkTx(msgs []std.Msg, gasWanted int64, fee int64, signers ...*actor) std.Tx {
	tx := std.Tx{Msgs: msgs, Fee: std.NewFee(gasWanted, std.NewCoin("ugnot", fee))}
	signTx(&tx, signers, false)
	return tx
}

func encTx(tx std.Tx) []byte { return amino.MustMarshal(tx) }

func coins(n int64) std.Coins { return std.Coins{std.NewCoin("ugnot", n)} }

// ---- genesis ----------------------------------------------------------------

func rootDir() string { return gnoenv.RootDir() }

func readRealm(dir, pkgPath string) *std.MemPackage {
	ents, err := os.ReadDir(dir)
	if err != nil {
		kernel.Harnessf("reading %s: %v", dir, err)
	}
	mp := &std.MemPackage{Name: filepath.Base(pkgPath), Path: pkgPath, Type: gnolang.MPUserProd}
	var names []string
	for _, e := range ents {
		names = append(names, e.Name())
	}
	sort.Strings(names)
	hasMod := false
	for _, nm := range names {
		if !strings.HasSuffix(nm, ".gno") && nm != "gnomod.toml" {
			continue
		}
		b, err := os.ReadFile(filepath.Join(dir, nm))
		if err != nil {
			kernel.Harnessf("%v", err)
		}
		if nm == "gnomod.toml" {
			hasMod = true
		}
		mp.Files = append(mp.Files, &std.MemFile{Name: nm, Body: string(b)})
	}
	if !hasMod {
		mp.Files = append(mp.Files, &std.MemFile{Name: "gnomod.toml", Body: gnolang.GenGnoModLatest(pkgPath)})
	}
	mp.Sort()
	return mp
}

func memPkg(pkgPath string, files map[string]string) *std.MemPackage {
	mp := &std.MemPackage{Name: filepath.Base(pkgPath), Path: pkgPath, Type: gnolang.MPUserProd}
	for _, nm := range kernel.SortedKeys(files) {
		mp.Files = append(mp.Files, &std.MemFile{Name: nm, Body: files[nm]})
	}
	if _, ok := files["gnomod.toml"]; !ok {
		mp.Files = append(mp.Files, &std.MemFile{Name: "gnomod.toml", Body: gnolang.GenGnoModLatest(pkgPath)})
	}
	mp.Sort()
	return mp
}

type genesisSpec struct {
	Actors   []*actor
	Balance  int64
	Packages []*std.MemPackage // deployed by Actors[0] in genesis
	MaxGas   int64
}

func (g genesisSpec) state() gnoland.GnoGenesisState {
	st := gnoland.DefaultGenState()
	for _, a := range g.Actors {
		st.Balances = append(st.Balances, gnoland.Balance{Address: a.addr, Amount: coins(g.Balance)})
	}
	for _, mp := range g.Packages {
		tx, err := gnoland.LoadPackage(mp, g.Actors[0].addr, std.NewFee(min(100_000_000, g.MaxGas), std.NewCoin("ugnot", 1_000_000)), nil)
		if err != nil {
			kernel.Harnessf("genesis package %s: %v", mp.Path, err)
		}
		st.Txs = append(st.Txs, gnoland.TxWithMetadata{Tx: tx})
	}
	return st
}

func (n *node) initChain(g genesisSpec, appState any) abci.ResponseInitChain {
	return n.app.InitChain(abci.RequestInitChain{
		Time:            genesisTime,
		ChainID:         chainID,
		ConsensusParams: defaultConsensusParams(g.MaxGas),
		Validators:      []abci.ValidatorUpdate{},
		AppState:        appState,
	})
}
