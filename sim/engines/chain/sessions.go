package chain

import (
	"fmt"
	"regexp"
	"sort"
	"strings"
	"time"

	"github.com/gnolang/gno/gno.land/pkg/sdk/vm"
	"github.com/gnolang/gno/tm2/pkg/crypto"
	"github.com/gnolang/gno/tm2/pkg/sdk/auth"
	"github.com/gnolang/gno/tm2/pkg/sdk/bank"
	"github.com/gnolang/gno/tm2/pkg/std"

	"verif/sim/kernel"
)

// C16: session keys stay within their spend limit and their granted actions.
//
// The simulator keeps a SESSION LEDGER per (master, session incarnation): for
// every block that carries transactions signed by that session (blocks are
// homogeneous: all transactions of a block are signed by one identity, except
// for the explicit "revoke then use" and "co-signed" shapes) the value that
// left the master is MEASURED from an independent multistore mounted over the
// durable image (master balance before/after, fee collector before/after). The
// ledger is then checked against the granted SpendLimit
//   - over the whole life of the session when SpendPeriod == 0,
//   - inside each period of the documented reset rule (a period starts at
//     creation; a spending transaction at block time >= start+SpendPeriod starts
//     a new one at that block time) when SpendPeriod > 0,
//   - and, independent of any reset rule, 2*limit in every window shorter than
//     one SpendPeriod.
// Transactions signed by expired, revoked, never-created or foreign sessions,
// and transactions carrying a message kind / package path outside the grant,
// must leave the state untouched.
//
// What the model of "must be accepted" predicts (a transaction inside the
// grant and inside the budget is not turned away by the session logic) is not
// part of the property: a disagreement there is reported as an inconclusive
// run, never as a violation.

const (
	boxerPath  = "gno.land/r/sim/boxer"   // shares the string prefix of boxPath without being a sub-path
	boxSubPath = "gno.land/r/sim/box/sub" // a real sub-path of boxPath
)

const boxerSrc = `package %s

var n int
var keep []string

func Tick(cur realm) int { n++; return n }

func Keep(cur realm, s string) int { keep = append(keep, s); return len(keep) }
`

type ledgerEntry struct {
	t   int64 // block time (unix seconds)
	out int64 // ugnot that left the master in that block because of this session's txs
	h   int64
}

type sess struct {
	master string
	slot   int
	inc    int // incarnation (re-created after revocation)
	key    *actor

	live      bool
	revoked   bool // was granted and then revoked (and not granted again)
	num, seq  uint64
	expiresAt int64
	limit     int64 // ugnot part of SpendLimit
	limitStr  string
	period    int64
	allow     []string
	created   int64

	// reference implementation of the documented period rule, fed with measurements only
	reset  int64
	usedLo int64 // measured outflow inside the current period (lower bound of what was spent)
	usedHi int64 // same plus refunds reported by events (upper bound; drives "must be accepted" only)

	ledger   []ledgerEntry
	okTxs  int
	weight int
}

func (s *sess) id() string { return fmt.Sprintf("%s/s%d#%d", s.master, s.slot, s.inc) }

// ---- the documented allow_paths grammar, reimplemented --------------------

type msgInfo struct {
	route, typ, path string
	desc             string
	spend            int64 // coins the message itself moves out of the master when it executes (send / attached)
	calls            bool  // may change realm storage (deposit / refund)
	shrink           bool
	mustFail         string // non-empty: the message is built to fail after the ante handler
	session          bool   // signed for by the session (false: message of a co-signing master)
}

func alwaysDenied(m msgInfo) bool {
	return m.route == "auth" || (m.route == "vm" && m.typ == "add_package")
}

func allowMatches(allow []string, m msgInfo) bool {
	for _, e := range allow {
		if e == "*" {
			return true
		}
		rt, p, hasPath := strings.Cut(e, ":")
		if rt != m.route+"/"+m.typ {
			continue
		}
		switch rt {
		case "vm/exec", "vm/run", "bank/send", "bank/multisend":
		default:
			continue
		}
		if !hasPath {
			return true
		}
		if rt != "vm/exec" || p == "" || strings.HasSuffix(p, "/") {
			continue
		}
		if m.path == p || strings.HasPrefix(m.path, p+"/") {
			return true
		}
	}
	return false
}

// ---- transactions ------------------------------------------------------------

type sigSpec struct {
	master *actor
	sess   *sess  // nil: signed by the master key
	asAddr crypto.Address
}

type stx struct {
	kind   string // create | revoke | revokeall | master | deploy | session | cosigned | foreign
	payer  string // master that pays the fee (first signer)
	sess   *sess  // the session involved (nil for master-only txs)
	msgs   []std.Msg
	infos  []msgInfo
	sigs   []sigSpec
	fee    int64
	gas    int64
	bytes  []byte
	hard   string // non-empty: MUST be rejected without any effect (reason)
	soft   string // "pass": model expects the ante handler to accept; "limit": expects a limit rejection; "": no expectation
	res    txResult
	passed bool // ante passed (fee charged, sequences bumped)
	// effects on the model when the tx succeeds
	creates []*sess
	revokes []*sess
	revokeAllOf string
}

func (t *stx) desc() string {
	var ms []string
	for _, m := range t.infos {
		ms = append(ms, m.desc)
	}
	return strings.Join(ms, ";")
}

type sessWorld struct {
	*world
	sessions []*sess
	masters  []string
	feeUnit  int64
	feeColl  crypto.Address
	bals     map[string]int64 // last audited balances: actor names + "@fee"
	txW      []int
	anom     []string
	t0       int64
	boxerOK  bool
	// after a block aimed at a boundary of a session, the next block mostly carries a tx of the same session
	follow    *sess
	probeNext bool // the next session tx is a budget-sized spend
}

func (w *sessWorld) unix() int64 { return w.now.Unix() }

func (w *sessWorld) sign(t *stx) {
	tx := std.Tx{Msgs: t.msgs, Fee: std.NewFee(t.gas, std.NewCoin("ugnot", t.fee))}
	signers := tx.GetSigners()
	for _, addr := range signers {
		var sp *sigSpec
		for i := range t.sigs {
			if t.sigs[i].asAddr == addr {
				sp = &t.sigs[i]
				break
			}
		}
		if sp == nil {
			kernel.Harnessf("no signer spec for %s in %s", addr, t.desc())
		}
		if sp.sess == nil {
			sb, err := tx.GetSignBytes(chainID, sp.master.num, sp.master.seq)
			if err != nil {
				kernel.Harnessf("sign bytes: %v", err)
			}
			sig, err := sp.master.priv.Sign(sb)
			if err != nil {
				kernel.Harnessf("sign: %v", err)
			}
			tx.Signatures = append(tx.Signatures, std.Signature{PubKey: sp.master.priv.PubKey(), Signature: sig})
			continue
		}
		s := sp.sess
		sb, err := tx.GetSignBytes(chainID, s.num, s.seq)
		if err != nil {
			kernel.Harnessf("sign bytes: %v", err)
		}
		sig, err := s.key.priv.Sign(sb)
		if err != nil {
			kernel.Harnessf("sign: %v", err)
		}
		sg := std.Signature{Signature: sig, SessionAddr: s.key.addr}
		if w.c.Chance(1, 3) {
			sg.PubKey = s.key.priv.PubKey() // optional: must equal the stored key
		}
		tx.Signatures = append(tx.Signatures, sg)
	}
	t.bytes = encTx(tx)
}

func antePassed(r txResult) bool { return r.ok() || r.GasW != 0 }

func resultClass(t *stx) string {
	r := t.res
	switch {
	case r.ok():
		return "ok"
	case !antePassed(r):
		return "rejected(" + r.Err + ")"
	default:
		return "failed-after-fee(" + r.Err + ")"
	}
}

// ---- generation: grants ------------------------------------------------------------

func (w *sessWorld) drawAllow() []string {
	c := w.c
	opts := [][]string{
		{"*"},
		{"bank/send"},
		{"vm/exec:" + boxPath},
		{"vm/exec"},
		{"bank/send", "vm/exec:" + boxPath},
		{"vm/exec:gno.land/r/sim"},                // parent path: box, boxer and box/sub are sub-paths
		{"vm/exec:gno.land/r/sim/bo"},             // string prefix of box that is NOT a parent path
		{"vm/exec:" + boxerPath},                  // only the look-alike realm
		{"vm/exec:" + boxSubPath, "bank/multisend"}, // only the sub-realm (bank/multisend is in the grammar but cannot be encoded in a tx)
		{"vm/run"},
		{"vm/exec:gno.land/r/other", "bank/send"},
		{"bank/multisend", "bank/send", "vm/run", "vm/exec:" + boxPath},
		{},                                 // empty: the grammar requires at least one entry
		{"bank"},                           // bare route: not in the grammar
		{"vm/exec:" + boxPath + "/"},       // trailing slash: not in the grammar
		{"*:" + boxPath},                   // wildcard with a path: not in the grammar
	}
	return opts[c.Weighted([]int{6, 3, 4, 3, 4, 3, 4, 3, 2, 2, 2, 3, 1, 1, 1, 1})]
}

func (w *sessWorld) drawLimit() (std.Coins, int64) {
	c := w.c
	F := w.feeUnit
	var n int64
	switch c.Weighted([]int{5, 1, 2, 2, 2, 3, 2, 1, 1}) {
	case 0: // several fees plus room for sends, often also for deposits
		n = F*int64(2+c.Intn(8)) + int64(c.Intn(int(F)))
		if c.Bool() {
			n += int64(20_000 + c.Intn(400_000))
		}
	case 1: // empty: no spending at all
		return nil, 0
	case 2: // tiny: below one fee
		n = 1 + int64(c.Intn(int(F-1)))
	case 3: // exactly one fee
		n = F
	case 4: // one fee and a little more
		n = F + 1 + int64(c.Intn(2000))
	case 5: // sized for deposits
		n = F*int64(1+c.Intn(3)) + int64(20_000+c.Intn(200_000))
	case 6: // large
		n = F*50 + 5_000_000
	case 7: // only another denomination: nothing in ugnot
		return std.NewCoins(std.NewCoin("foo", 1_000_000_000)), 0
	case 8: // two denominations
		n = F * int64(1+c.Intn(6))
		return std.NewCoins(std.NewCoin("foo", 5), std.NewCoin("ugnot", n)), n
	}
	return std.NewCoins(std.NewCoin("ugnot", n)), n
}

func (w *sessWorld) drawPeriod() int64 {
	c := w.c
	switch c.Weighted([]int{6, 9, 4, 1, 1}) {
	case 0:
		return 0
	case 1:
		return int64(3 + c.Intn(40))
	case 2:
		return int64(60 + c.Intn(600))
	case 3:
		return std.MaxSpendPeriod
	default:
		return std.MaxSpendPeriod + 1 // refused at creation
	}
}

func (w *sessWorld) drawExpiry() int64 {
	c := w.c
	now := w.unix()
	switch c.Weighted([]int{8, 6, 8, 2, 1, 1, 1}) {
	case 0:
		return 0
	case 1:
		return now + int64(5+c.Intn(150))
	case 2:
		return now + int64(3600+c.Intn(100_000))
	case 3:
		return now + 1
	case 4:
		return now // already expired at creation
	case 5:
		return now + std.MaxSessionDuration
	default:
		return now + std.MaxSessionDuration + 1 // refused at creation
	}
}

func (w *sessWorld) slotsOf(master string) []*sess {
	var out []*sess
	for _, s := range w.sessions {
		if s.master == master {
			out = append(out, s)
		}
	}
	return out
}

func (w *sessWorld) baseTx(kind, payer string) *stx {
	return &stx{kind: kind, payer: payer, fee: w.feeUnit, gas: 60_000_000,
		sigs: []sigSpec{{master: w.acts[payer], asAddr: w.acts[payer].addr}}}
}

// genCreate: a master-signed tx creating 1..2 sessions in free slots of master.
func (w *sessWorld) genCreate(master string, slots []*sess) *stx {
	t := w.baseTx("create", master)
	ma := w.acts[master]
	for _, s := range slots {
		ns := *s
		ns.expiresAt = w.drawExpiry()
		var lim std.Coins
		lim, ns.limit = w.drawLimit()
		ns.limitStr = lim.String()
		ns.period = w.drawPeriod()
		ns.allow = w.drawAllow()
		msg := auth.MsgCreateSession{Creator: ma.addr, SessionKey: s.key.priv.PubKey(), ExpiresAt: ns.expiresAt,
			AllowPaths: ns.allow, SpendLimit: lim, SpendPeriod: ns.period}
		t.msgs = append(t.msgs, msg)
		t.infos = append(t.infos, msgInfo{route: "auth", typ: "create_session",
			desc: fmt.Sprintf("create(s%d exp=%s limit=%q period=%d allow=%v)", s.slot, relTime(ns.expiresAt, w.t0), ns.limitStr, ns.period, ns.allow)})
		cp := ns
		t.creates = append(t.creates, &cp)
	}
	return t
}

func indexOf(xs []string, x string) int {
	for i, v := range xs {
		if v == x {
			return i
		}
	}
	return 0
}

func relTime(t, t0 int64) string {
	if t == 0 {
		return "0"
	}
	return fmt.Sprintf("T+%d", t-t0)
}

// ---- generation: messages of a session-signed (or master-signed) tx ----------------------

func (w *sessWorld) recipient(not string) string {
	cands := []string{"bob", "carol", "dave", "chaos1", "alice"}
	i := w.c.Intn(len(cands))
	for k := 0; k < len(cands); k++ {
		if cands[(i+k)%len(cands)] != not {
			return cands[(i+k)%len(cands)]
		}
	}
	return "chaos2"
}

func (w *sessWorld) amount() int64 {
	c := w.c
	F := w.feeUnit
	switch c.Intn(4) {
	case 0:
		return int64(1 + c.Intn(100))
	case 1:
		return 1 + int64(c.Intn(int(F)))
	case 2:
		return F * int64(1+c.Intn(4))
	default:
		return F/2 + int64(c.Intn(int(F)))
	}
}

func (w *sessWorld) sendMsg(master string, amt int64) (std.Msg, msgInfo) {
	to := w.recipient(master)
	return bank.NewMsgSend(w.acts[master].addr, w.acts[to].addr, coins(amt)),
		msgInfo{route: "bank", typ: "send", desc: fmt.Sprintf("send(%d→%s)", amt, to), spend: amt, session: true}
}

func (w *sessWorld) callMsg(master, path, fn string, args []string, attach int64, maxDep int64) (std.Msg, msgInfo) {
	m := vm.MsgCall{Caller: w.acts[master].addr, PkgPath: path, Func: fn, Args: args}
	d := fmt.Sprintf("%s.%s(%s)", path[strings.LastIndexByte(path, '/')+1:], fn, strings.Join(args, ","))
	if path == boxSubPath {
		d = "box/sub." + fn + "(" + strings.Join(args, ",") + ")"
	}
	if attach > 0 {
		m.Send = coins(attach)
		d += fmt.Sprintf("+%d", attach)
	}
	if maxDep > 0 {
		m.MaxDeposit = coins(maxDep)
		d += fmt.Sprintf(" maxdep=%d", maxDep)
	}
	return m, msgInfo{route: "vm", typ: "exec", path: path, desc: d, spend: attach, calls: true, session: true}
}

// genMsgs draws the messages of one tx whose messages are all signed for master.
// kindW are the per-run swarm weights.
func (w *sessWorld) genMsgs(t *stx, master string, fit *sess) {
	forSession := fit != nil
	c := w.c
	add := func(m std.Msg, mi msgInfo) {
		t.msgs = append(t.msgs, m)
		t.infos = append(t.infos, mi)
	}
	one := func(k int) {
		switch k {
		case 0: // bank send
			add(w.sendMsg(master, w.amount()))
		case 1: // small call
			if c.Bool() {
				add(w.callMsg(master, boxPath, "Incr", nil, 0, 0))
			} else {
				add(w.callMsg(master, boxPath, "Push", []string{fmt.Sprintf("v%d", c.Intn(1000))}, 0, 0))
			}
		case 2: // call with attached coins
			add(w.callMsg(master, boxPath, "Incr", nil, w.amount(), 0))
		case 3: // storage growth: deposit
			add(w.callMsg(master, boxPath, "Grow", []string{fmt.Sprint(1 + c.Intn(3)), fmt.Sprint(8 + c.Intn(400))}, 0, 0))
		case 4: // storage release: refund
			m, mi := w.callMsg(master, boxPath, "Shrink", []string{fmt.Sprint(1 + c.Intn(4))}, 0, 0)
			mi.shrink = true
			add(m, mi)
		case 5: // the look-alike realm and the sub-path realm
			p := boxerPath
			if c.Bool() {
				p = boxSubPath
			}
			if c.Bool() {
				add(w.callMsg(master, p, "Tick", nil, 0, 0))
			} else {
				add(w.callMsg(master, p, "Keep", []string{strings.Repeat("k", 1+c.Intn(200))}, int64(c.Intn(2))*w.amount(), 0))
			}
		case 6: // script
			body := "package main\n\nimport \"gno.land/r/sim/box\"\n\nfunc main(cur realm) { box.Incr(cross(cur)) }\n"
			m := vm.NewMsgRun(w.acts[master].addr, nil, []*std.MemFile{{Name: "main.gno", Body: body}})
			add(m, msgInfo{route: "vm", typ: "run", desc: "run{box.Incr}", calls: true, session: true})
		case 7: // coins sized to the budget: exactly what is left, one more, or what a fresh period would allow
			amt := w.amount()
			asSend := true
			if fit != nil && fit.live {
				used := fit.usedLo
				if fit.period > 0 && w.unix() >= fit.reset+fit.period {
					used = 0
				}
				switch v := c.Intn(4); {
				case v >= 2 && fit.limit-t.fee > 0:
					amt = fit.limit - t.fee // fits only if nothing was spent in the current period
					w.r.Probe("spends_sized_to_a_fresh_period")
				case fit.limit-used-t.fee > 0:
					amt = fit.limit - used - t.fee + int64(v)
					w.r.Probe("spends_sized_to_the_remaining_budget")
				}
				asSend = allowMatches(fit.allow, msgInfo{route: "bank", typ: "send"})
			}
			if asSend {
				add(w.sendMsg(master, amt))
			} else {
				add(w.callMsg(master, boxPath, "Incr", nil, amt, 0))
			}
		case 8: // fails after the fee: gno panic
			m, mi := w.callMsg(master, boxPath, "Fail", []string{fmt.Sprint(c.Intn(9))}, 0, 0)
			mi.mustFail = "deliberate failure"
			add(m, mi)
		case 9: // fails after the fee: out of gas
			m, mi := w.callMsg(master, boxPath, "Forever", nil, 0, 0)
			mi.mustFail = "out of gas"
			add(m, mi)
			t.gas = int64(2_000_000 + c.Intn(4_000_000))
		case 10: // fails after the fee: deposit cap too small for the growth
			m, mi := w.callMsg(master, boxPath, "Grow", []string{"3", "300"}, 0, int64(1+c.Intn(500)))
			mi.mustFail = "deposit cap"
			add(m, mi)
		case 11: // kinds no session may ever sign
			switch c.Intn(4) {
			case 0:
				nm := fmt.Sprintf("esc%d", c.Intn(1000))
				mp := memPkg("gno.land/r/sim/"+nm, map[string]string{nm + ".gno": "package " + nm + "\n\nvar X = 1\n"})
				add(vm.MsgAddPackage{Creator: w.acts[master].addr, Package: mp}, msgInfo{route: "vm", typ: "add_package", desc: "addpkg(" + nm + ")", calls: true, session: true})
			case 1:
				k := newActor(fmt.Sprintf("sub-%s-%d", master, c.Intn(4)))
				add(auth.MsgCreateSession{Creator: w.acts[master].addr, SessionKey: k.priv.PubKey(), AllowPaths: []string{"*"},
					SpendLimit: coins(1_000_000_000)}, msgInfo{route: "auth", typ: "create_session", desc: "create-sub-session", session: true})
			case 2:
				var k *actor
				if ss := w.slotsOf(master); len(ss) > 0 {
					k = ss[c.Intn(len(ss))].key
				} else {
					k = newActor("nobody")
				}
				add(auth.MsgRevokeSession{Creator: w.acts[master].addr, SessionKey: k.priv.PubKey()}, msgInfo{route: "auth", typ: "revoke_session", desc: "revoke-by-session", session: true})
			default:
				add(auth.MsgRevokeAllSessions{Creator: w.acts[master].addr}, msgInfo{route: "auth", typ: "revoke_all_sessions", desc: "revoke-all-by-session", session: true})
			}
		}
	}
	kindW := w.txW
	if forSession && fit.live && c.Chance(5, 6) {
		kindW = w.grantedKinds(fit)
	}
	k := c.Weighted(kindW)
	if !forSession && k == 11 {
		k = 0
	}
	if forSession && w.probeNext {
		k = 7
	}
	if k == 12 { // multi-message
		n := 2 + c.Intn(3)
		for i := 0; i < n; i++ {
			kk := c.Weighted(kindW)
			if kk == 12 || (!forSession && kk == 11) {
				kk = 1
			}
			one(kk)
		}
		return
	}
	one(k)
}

// expectation fills t.hard / t.soft for a tx that session s signs at block time now.
func (w *sessWorld) expectation(t *stx, s *sess, sessionPaysFee bool) {
	now := w.unix()
	switch {
	case !s.live && s.revoked:
		t.hard = "revoked"
		return
	case !s.live:
		t.hard = "unknown-session" // never granted (or the grant was refused)
		return
	case s.expiresAt > 0 && now >= s.expiresAt:
		t.hard = "expired"
		return
	}
	for _, m := range t.infos {
		if m.session && alwaysDenied(m) {
			t.hard = "kind"
			return
		}
	}
	for _, m := range t.infos {
		if m.session && !allowMatches(s.allow, m) {
			if m.route == "vm" && m.typ == "exec" {
				t.hard = "path"
			} else {
				t.hard = "kind-not-granted"
			}
			return
		}
	}
	declared := int64(0)
	if sessionPaysFee {
		declared = t.fee
	}
	for _, m := range t.infos {
		if m.session {
			declared += m.spend
		}
	}
	lo, hi := s.usedLo, s.usedHi
	if s.period > 0 && now >= s.reset+s.period {
		lo, hi = 0, 0
	}
	switch {
	case declared == 0:
		t.soft = "pass"
	case lo+declared > s.limit:
		t.soft = "limit"
	case hi+declared <= s.limit:
		t.soft = "pass"
	}
}

func (w *sessWorld) genSessionTx(s *sess) *stx {
	t := w.baseTx("session", s.master)
	t.sess = s
	t.sigs = []sigSpec{{master: w.acts[s.master], sess: s, asAddr: w.acts[s.master].addr}}
	switch w.c.Intn(6) {
	case 0:
		t.fee = w.feeUnit / 2
	case 1:
		t.fee = w.feeUnit + int64(w.c.Intn(int(w.feeUnit)))
	}
	fee, gas := t.fee, t.gas
	// mostly messages the grant covers (a bounded number of redraws), sometimes anything
	tries := 1
	if w.c.Chance(4, 5) {
		tries = 4
	}
	for i := 0; i < tries; i++ {
		t.msgs, t.infos, t.hard, t.soft, t.fee, t.gas = nil, nil, "", "", fee, gas
		w.genMsgs(t, s.master, s)
		w.expectation(t, s, true)
		if t.hard != "path" && t.hard != "kind-not-granted" && t.hard != "kind" {
			break
		}
	}
	return t
}

// kindRep: a representative of what message shape k needs from a grant.
func kindRep(k int) []msgInfo {
	box := msgInfo{route: "vm", typ: "exec", path: boxPath}
	switch k {
	case 0, 7:
		return []msgInfo{{route: "bank", typ: "send"}}
	case 5:
		return []msgInfo{{route: "vm", typ: "exec", path: boxerPath}, {route: "vm", typ: "exec", path: boxSubPath}}
	case 6:
		return []msgInfo{{route: "vm", typ: "run"}}
	case 11:
		return nil
	}
	return []msgInfo{box}
}

// grantedKinds: the per-run shape weights restricted to shapes the grant of s covers
// (all of them again when it covers none).
func (w *sessWorld) grantedKinds(s *sess) []int {
	out := make([]int, len(w.txW))
	any := false
	for k := range w.txW {
		if k == 12 {
			continue
		}
		for _, m := range kindRep(k) {
			if allowMatches(s.allow, m) && w.txW[k] > 0 {
				out[k] = w.txW[k]
				any = true
			}
		}
	}
	if !any {
		return w.txW
	}
	out[12] = w.txW[12]
	return out
}

func grantUseful(s *sess) bool {
	for _, k := range []int{0, 1, 5, 6} {
		for _, m := range kindRep(k) {
			if allowMatches(s.allow, m) {
				return true
			}
		}
	}
	return false
}

// usable: the session can still authorise something by the model.
func (w *sessWorld) usable(s *sess) bool {
	nowU := w.unix()
	if !s.live || (s.expiresAt > 0 && nowU >= s.expiresAt) || !grantUseful(s) {
		return false
	}
	if s.period == 0 && s.limit-s.usedLo < w.feeUnit/2 {
		return false
	}
	return s.limit >= w.feeUnit/2
}

// genCosigned: one message of another master (signed with its own key) and the
// messages of s.master signed by session s. first=true: the session's master is the
// first signer and therefore pays the fee.
func (w *sessWorld) genCosigned(s *sess, first bool) *stx {
	other := "bob"
	if s.master == "bob" {
		other = "carol"
	}
	t := w.baseTx("cosigned", other)
	t.sess = s
	t.sigs = []sigSpec{{master: w.acts[other], asAddr: w.acts[other].addr}, {master: w.acts[s.master], sess: s, asAddr: w.acts[s.master].addr}}
	om := bank.NewMsgSend(w.acts[other].addr, w.acts["chaos2"].addr, coins(1+int64(w.c.Intn(50))))
	oi := msgInfo{route: "bank", typ: "send", desc: "[" + other + "]send→chaos2"}
	var m std.Msg
	var mi msgInfo
	switch w.c.Intn(3) {
	case 0:
		m, mi = w.sendMsg(s.master, w.amount())
	case 1:
		m, mi = w.callMsg(s.master, boxPath, "Grow", []string{"1", fmt.Sprint(8 + w.c.Intn(200))}, 0, 0)
	default:
		m, mi = w.callMsg(s.master, boxPath, "Incr", nil, int64(w.c.Intn(2))*w.amount(), 0)
	}
	if first {
		t.payer = s.master
		t.msgs, t.infos = []std.Msg{m, om}, []msgInfo{mi, oi}
	} else {
		t.msgs, t.infos = []std.Msg{om, m}, []msgInfo{oi, mi}
	}
	w.expectation(t, s, first)
	return t
}

// genForeign: a tx of master signed with a session that belongs to ANOTHER master.
func (w *sessWorld) genForeign(master string, s *sess) *stx {
	t := w.baseTx("foreign", master)
	t.sess = s
	t.sigs = []sigSpec{{master: w.acts[master], sess: s, asAddr: w.acts[master].addr}}
	m, mi := w.sendMsg(master, w.amount())
	t.msgs, t.infos = []std.Msg{m}, []msgInfo{mi}
	t.hard = "foreign-session"
	return t
}

// ---- block execution and observation ------------------------------------------------------

type blockObs struct {
	changed []string
	au      *auditor
}

func (w *sessWorld) observe(height int64) blockObs {
	au, err := newAuditor(w.ref.disk, height)
	if err != nil {
		kernel.Harnessf("auditor at height %d: %v", height, err)
	}
	dump := au.dump()
	o := blockObs{changed: diffKeys(w.prevDump, dump), au: au}
	w.prevDump = dump
	return o
}

func (w *sessWorld) readBalances(au *auditor) map[string]int64 {
	out := map[string]int64{}
	for _, nm := range kernel.SortedKeys(w.acts) {
		out[nm] = au.balanceOf(w.acts[nm].addr)
	}
	out["@fee"] = au.balanceOf(w.feeColl)
	return out
}

func (w *sessWorld) stateTouched(changed []string) []string {
	var out []string
	for _, k := range changed {
		if w.emptyKeys[k] || k == "main/gasPrice" || k == "base/last_header" {
			continue
		}
		out = append(out, k)
	}
	return out
}

// deliver runs txs as one block at w.now and applies every oracle.
func (w *sessWorld) deliver(txs []*stx, tag string) {
	c := w.c
	w.height++
	b := blockSpec{Height: w.height, Time: w.now}
	w.ref.beginBlock(b)
	for i, t := range txs {
		w.sign(t)
		t.res = resultOf(w.ref.app.DeliverTx(deliverReq(t.bytes)))
		t.passed = antePassed(t.res)
		if t.passed {
			for _, sp := range t.sigs {
				if sp.sess != nil {
					sp.sess.seq++
				} else {
					sp.master.seq++
				}
			}
		}
		sid := "-"
		if t.sess != nil {
			sid = t.sess.id()
		}
		c.Event("h%d T+%d%s tx%d %s payer=%s session=%s fee=%d gas=%d {%s} expect[hard=%s soft=%s] -> %s",
			b.Height, w.unix()-w.t0, tag, i, t.kind, t.payer, sid, t.fee, t.gas, t.desc(), t.hard, t.soft, resultClass(t))
		b.Txs = append(b.Txs, t.bytes)
		w.r.Steps++
	}
	hash := w.ref.endBlockCommit(b)
	c.Event("h%d committed %X", b.Height, hash)
	obs := w.observe(b.Height)
	bals := w.readBalances(obs.au)
	prev := w.bals
	w.bals = bals
	now := w.unix()

	// 1. hard rejections: no effect at all
	allHard := len(txs) > 0
	for _, t := range txs {
		if t.hard == "" {
			allHard = false
			continue
		}
		if t.hard == "revoked-in-same-block" && !txs[0].res.ok() {
			kernel.Harnessf("height %d: the master's revocation of live session %s failed: %s %s", b.Height, t.sess.id(), txs[0].res.Err, clip(txs[0].res.Log, 300))
		}
		if t.res.ok() || t.passed {
			w.fail("C16", "unauthorized-session-tx-"+t.hard, "height %d (T+%d): tx {%s} signed by session %s must be refused (%s: %s) but %s",
				b.Height, now-w.t0, t.desc(), t.sess.id(), t.hard, w.sessState(t.sess), resultClass(t))
			return
		}
		w.r.Probe("rejected_" + t.hard)
		if t.hard == "expired" {
			switch now - t.sess.expiresAt {
			case 0:
				w.r.Probe("rejected_exactly_at_expiry")
			case 1:
				w.r.Probe("rejected_one_second_after_expiry")
			}
		}
	}
	if allHard {
		if touched := w.stateTouched(obs.changed); len(touched) > 0 {
			t := txs[0]
			w.fail("C16", "refused-session-tx-left-state", "height %d (T+%d): every tx of the block was signed by session %s and refused (%s), but %d keys changed, first %s",
				b.Height, now-w.t0, t.sess.id(), t.hard, len(touched), shortKey(touched[0]))
			return
		}
		w.r.Probe("refused_blocks_state_unchanged")
	}

	// 2. model updates from master-signed session management
	for _, t := range txs {
		if !t.res.ok() {
			if t.kind == "create" {
				w.r.Probe("session_create_refused")
			}
			continue
		}
		for _, ns := range t.creates {
			for i, s := range w.sessions {
				if s.master == ns.master && s.slot == ns.slot {
					if s.live {
						kernel.Harnessf("session %s created twice", s.id())
					}
					ns.inc = s.inc + 1
					ns.live, ns.revoked, ns.created, ns.reset = true, false, now, now
					ns.usedLo, ns.usedHi, ns.ledger, ns.okTxs, ns.seq = 0, 0, nil, 0, 0
					ns.weight = s.weight
					sa := obs.au.acck.GetSessionAccount(obs.au.ctx, w.acts[ns.master].addr, ns.key.addr)
					if sa == nil {
						kernel.Harnessf("session %s: creation succeeded but no session account in the durable state", ns.id())
					}
					ns.num, ns.seq = sa.GetAccountNumber(), sa.GetSequence()
					w.sessions[i] = ns
					w.r.Probe("sessions_created")
					if ns.period > 0 {
						w.r.Probe("sessions_created_with_period")
					}
				}
			}
		}
		for _, s := range t.revokes {
			cur := w.find(s.master, s.slot)
			if cur.live {
				cur.live, cur.revoked = false, true
				w.r.Probe("sessions_revoked")
			}
		}
		if t.revokeAllOf != "" {
			for _, s := range w.slotsOf(t.revokeAllOf) {
				if s.live {
					s.live, s.revoked = false, true
					w.r.Probe("sessions_revoked")
					w.r.Probe("sessions_revoked_by_revoke_all")
				}
			}
		}
	}

	// 3. master-signed txs are neither limited nor refused
	for _, t := range txs {
		if t.sess == nil && !t.passed && !strings.HasPrefix(t.kind, "create") {
			w.anomaly("height %d: master-signed tx {%s} by %s was refused: %s %s", b.Height, t.desc(), t.payer, t.res.Err, clip(t.res.Log, 200))
		}
		if t.sess == nil && t.kind == "master" {
			if t.res.ok() {
				w.r.Probe("master_tx_ok")
			} else if t.passed {
				if limitHitInMsgs(t.res.Log) {
					w.anomaly("height %d: master-signed tx {%s} by %s was limited by a session budget: %s", b.Height, t.desc(), t.payer, clip(t.res.Log, 200))
				} else {
					w.checkMsgFailure(b.Height, t)
				}
			}
		}
	}

	// harness self-check: the sequences the simulator signs with follow the durable state
	for _, nm := range kernel.SortedKeys(w.acts) {
		if seq, _, _, ok := obs.au.account(w.acts[nm].addr); ok && seq != w.acts[nm].seq {
			kernel.Harnessf("height %d: %s sequence %d in the durable state, simulator counts %d", b.Height, nm, seq, w.acts[nm].seq)
		}
	}
	for _, s := range w.sessions {
		sa := obs.au.acck.GetSessionAccount(obs.au.ctx, w.acts[s.master].addr, s.key.addr)
		if s.live && (sa == nil || sa.GetSequence() != s.seq || sa.GetAccountNumber() != s.num) {
			kernel.Harnessf("height %d: session %s: durable account %v, simulator counts num %d seq %d", b.Height, s.id(), sa, s.num, s.seq)
		}
	}

	// 4. the ledger of the session that signed in this block
	var s *sess
	for _, t := range txs {
		if t.sess != nil && t.hard == "" {
			s = t.sess
		}
	}
	if s == nil {
		return
	}
	s = w.find(s.master, s.slot)
	var refunds int64
	for _, t := range txs {
		if t.sess != nil && t.hard == "" && t.res.ok() {
			_, ref := eventCoins(t.res.Events)
			refunds += ref
		}
	}
	net := prev[s.master] - bals[s.master]
	// other txs of the block paid by the same master with its own key (revoke-then-use shape) are known exactly
	for _, t := range txs {
		if t.sess == nil && t.payer == s.master && t.passed {
			net -= t.fee
		}
	}
	feeObs := bals["@fee"] - prev["@fee"]
	out := net
	if out < 0 {
		out = 0
	}
	// the fee collector's gain is value that left the master when the master paid all fees of the block
	onlyThisMaster := true
	for _, t := range txs {
		if t.payer != s.master || t.sess == nil {
			onlyThisMaster = false
		}
	}
	if onlyThisMaster && feeObs > out {
		out = feeObs
	}
	hi := net + refunds
	if hi < out {
		hi = out
	}
	c.Event("h%d ledger %s: out=%d (net=%d fees=%d refunds=%d) limit=%d period=%d", b.Height, s.id(), out, net, feeObs, refunds, s.limit, s.period)

	if out > 0 {
		if s.period > 0 && now >= s.reset+s.period {
			if now == s.reset+s.period {
				w.r.Probe("spend_at_exact_reset_boundary")
			}
			w.r.Probe("period_resets_crossed")
			if now >= s.reset+2*s.period {
				w.r.Probe("period_resets_after_skipped_periods")
			}
			s.reset, s.usedLo, s.usedHi = now, 0, 0
		} else if s.period > 0 && now == s.reset+s.period-1 {
			w.r.Probe("spend_one_second_before_reset")
		}
		s.usedLo += out
		s.usedHi += hi
		s.ledger = append(s.ledger, ledgerEntry{t: now, out: out, h: b.Height})
		if s.usedLo > s.limit {
			if s.period == 0 {
				w.fail("C16", "lifetime-outflow-exceeds-limit", "session %s (limit %q, no period): %d ugnot left master %s through session-signed txs, limit %d; ledger %s",
					s.id(), s.limitStr, s.usedLo, s.master, s.limit, ledgerString(s.ledger, w.t0))
			} else {
				w.fail("C16", "period-outflow-exceeds-limit", "session %s (limit %q per %d s): %d ugnot left master %s inside the spend period that started at T+%d (block time now T+%d), limit %d; ledger %s",
					s.id(), s.limitStr, s.period, s.usedLo, s.master, s.reset-w.t0, now-w.t0, s.limit, ledgerString(s.ledger, w.t0))
			}
			return
		}
		// implementation-independent: a window shorter than one period touches at most two periods
		if s.period > 0 {
			var sum int64
			for i := len(s.ledger) - 1; i >= 0 && now-s.ledger[i].t < s.period; i-- {
				sum += s.ledger[i].out
				if sum > 2*s.limit {
					w.fail("C16", "window-outflow-exceeds-twice-limit", "session %s (limit %q per %d s): %d ugnot left master %s within %d s (< one period), more than twice the limit %d; ledger %s",
						s.id(), s.limitStr, s.period, sum, s.master, now-s.ledger[i].t, s.limit, ledgerString(s.ledger, w.t0))
					return
				}
			}
		}
	}

	// 5. evidence and the honesty side of the model
	for _, t := range txs {
		if t.sess == nil || t.hard != "" {
			continue
		}
		if s.expiresAt > 0 {
			switch now {
			case s.expiresAt - 1:
				w.r.Probe("session_tx_one_second_before_expiry")
			}
		}
		if t.passed && len(t.infos) > 1 {
			w.r.Probe("session_tx_multi_msg_past_ante")
		}
		switch {
		case t.res.ok():
			s.okTxs++
			w.r.Probe("session_tx_ok")
			if len(t.infos) > 1 {
				w.r.Probe("session_tx_ok_multi_msg")
			}
			if dep, _ := eventCoins(t.res.Events); dep > 0 {
				w.r.Probe("session_tx_ok_with_deposit")
			}
			if _, ref := eventCoins(t.res.Events); ref > 0 {
				w.r.Probe("session_tx_ok_with_refund")
			}
			for _, m := range t.infos {
				if m.session && m.spend > 0 && m.calls {
					w.r.Probe("session_tx_ok_with_attached_coins")
				}
			}
			if t.kind == "cosigned" {
				w.r.Probe("session_tx_ok_cosigned")
			}
		case t.passed:
			w.r.Probe("session_tx_failed_after_fee")
			if isOOG(t.res) {
				w.r.Probe("session_tx_out_of_gas_after_fee")
			}
			if limitHitInMsgs(t.res.Log) {
				w.r.Probe("session_tx_limit_hit_in_messages")
			}
			w.checkMsgFailure(b.Height, t)
		default: // refused by the ante handler
			switch {
			case strings.Contains(t.res.Err, "SessionNotAllowed"):
				w.r.Probe("rejected_limit")
				if t.soft == "pass" && len(txs) == 1 {
					w.anomaly("height %d (T+%d): tx {%s} fee %d of session %s (%s) is inside grant and budget by the model but was refused: %s",
						b.Height, now-w.t0, t.desc(), t.fee, s.id(), w.sessState(s), clip(t.res.Log, 300))
				}
			default:
				kernel.Harnessf("height %d: session tx {%s} of %s (%s) refused for a reason the harness does not expect: %s %s",
					b.Height, t.desc(), s.id(), w.sessState(s), t.res.Err, clip(t.res.Log, 400))
			}
		}
		if t.soft == "limit" && t.passed && len(txs) == 1 {
			// Declared outflow above the remaining budget, yet the ante handler accepted: not a
			// violation by itself (the ledger decides), but worth counting.
			w.r.Probe("over_declared_tx_passed_ante")
		}
	}
}

// checkMsgFailure: a tx that paid its fee and then failed must have a reason the harness understands.
func (w *sessWorld) checkMsgFailure(h int64, t *stx) {
	for _, m := range t.infos {
		if m.mustFail != "" {
			return
		}
	}
	lg := t.res.Log
	switch {
	case t.sess != nil && limitHitInMsgs(lg):
		return // a deposit or a send hit the limit during execution
	case isOOG(t.res) && t.res.GasU >= t.res.GasW:
		return
	case !w.boxerOK && (strings.Contains(t.desc(), "boxer.") || strings.Contains(t.desc(), "box/sub.")):
		return
	}
	kernel.Harnessf("height %d: tx {%s} (%s, payer %s) failed after the fee for a reason the harness does not expect: %s %s", h, t.desc(), t.kind, t.payer, t.res.Err, clip(lg, 600))
}

// limitHitInMsgs: the session budget refused a send or a storage deposit while messages ran.
func limitHitInMsgs(log string) bool {
	return strings.Contains(log, "session spend limit") || strings.Contains(log, "session has no spend limit") ||
		(strings.Contains(log, "unable to lock deposit") && strings.Contains(log, "session not allowed"))
}

var ptrRe = regexp.MustCompile(`0x[0-9a-f]+`)

func (w *sessWorld) anomaly(format string, args ...any) {
	s := ptrRe.ReplaceAllString(fmt.Sprintf(format, args...), "0x…")
	w.anom = append(w.anom, s)
	w.r.Probe("model_disagreements")
	w.c.Event("MODEL-DISAGREEMENT %s", s)
}

func (w *sessWorld) find(master string, slot int) *sess {
	for _, s := range w.sessions {
		if s.master == master && s.slot == slot {
			return s
		}
	}
	kernel.Harnessf("no session %s/%d", master, slot)
	return nil
}

func (w *sessWorld) sessState(s *sess) string {
	return fmt.Sprintf("live=%v created=T+%d expires=%s limit=%q period=%d allow=%v period-start=T+%d spent-in-period=%d..%d",
		s.live, s.created-w.t0, relTime(s.expiresAt, w.t0), s.limitStr, s.period, s.allow, s.reset-w.t0, s.usedLo, s.usedHi)
}

func ledgerString(l []ledgerEntry, t0 int64) string {
	var parts []string
	from := 0
	if len(l) > 12 {
		from = len(l) - 12
		parts = append(parts, "…")
	}
	for _, e := range l[from:] {
		parts = append(parts, fmt.Sprintf("h%d@T+%d:%d", e.h, e.t-t0, e.out))
	}
	return "[" + strings.Join(parts, " ") + "]"
}

// ---- the clock ---------------------------------------------------------------------------------

// advance picks the next block time. It may aim at a boundary of a session, which is
// then returned so that the block carries a tx of that session.
func (w *sessWorld) advance(timeW []int) (*sess, string) {
	c := w.c
	nowU := w.unix()
	nanos := []int64{0, 0, 1, 999_999_999, 500_000_000}[c.Intn(5)]
	set := func(u int64) { w.now = time.Unix(u, nanos).UTC() }
	var live []*sess
	for _, s := range w.sessions {
		if s.live && (s.period > 0 || s.expiresAt > 0) && (s.expiresAt == 0 || s.expiresAt > nowU-2) && s.weight > 0 {
			live = append(live, s)
		}
	}
	mode := c.Weighted(timeW)
	if len(live) == 0 && mode != 0 {
		mode = 0
	}
	switch mode {
	case 1: // on / just before / just after a boundary
		s := live[c.Intn(len(live))]
		off := int64(c.Intn(3)) - 1
		var base int64
		var what string
		useExpiry := s.expiresAt > 0 && (s.period == 0 || c.Bool())
		if useExpiry {
			base, what = s.expiresAt, "expiry"
		} else if s.period > 0 {
			base, what = s.reset+s.period, "reset"
		}
		if base > 0 && base+off > nowU && base+off-nowU < 2000 {
			set(base + off)
			tag := fmt.Sprintf(" [%s%+d of %s]", what, off, s.id())
			if off == 0 {
				w.r.Probe("block_exactly_at_" + what + "_boundary")
			} else {
				w.r.Probe("block_next_to_" + what + "_boundary")
			}
			return s, tag
		}
		set(nowU + 1)
		return s, ""
	case 2: // jump over several periods
		s := live[c.Intn(len(live))]
		if s.period > 0 && s.period < 30*24*3600 {
			k := int64(1 + c.Intn(4))
			set(nowU + k*s.period + int64(c.Intn(3)))
			w.r.Probe("clock_jumps_over_periods")
			return s, fmt.Sprintf(" [jump %d periods of %s]", k, s.id())
		}
		set(nowU + 1 + int64(c.Intn(30)))
		return s, ""
	case 3: // same second is not possible for a chain; the smallest step
		set(nowU + 1)
		return nil, ""
	}
	set(nowU + 1 + int64(c.Intn(12)))
	return nil, ""
}

// ---- the run -----------------------------------------------------------------------------------------

func runSessions(c *kernel.Choices, p kernel.Params) *kernel.Result {
	base := &world{c: c, r: kernel.NewResult(), p: p, prop: "C16", emptyKeys: map[string]bool{}}
	w := &sessWorld{world: base}
	w.img = baseImage(3_000_000_000)
	w.acts = newActors()
	w.height = 1
	w.now = genesisTime.Add(time.Second)
	w.ref = w.openNode("ref")
	defer func() { w.ref.app.Close() }()
	au, err := newAuditor(w.ref.disk, 1)
	if err != nil {
		kernel.Harnessf("auditor: %v", err)
	}
	for _, nm := range kernel.SortedKeys(w.acts) {
		a := w.acts[nm]
		if seq, num, _, ok := au.account(a.addr); ok {
			a.seq, a.num = seq, num
		}
	}
	w.feeColl = crypto.AddressFromPreimage([]byte(auth.DefaultFeeCollectorName))
	w.prevDump = au.dump()
	w.bals = w.readBalances(au)

	// per-run swarm
	w.feeUnit = []int64{1_000_000, 1_000, 50_000, 200_000}[c.Intn(4)]
	nMasters := 1 + c.Intn(3)
	w.masters = []string{"alice", "bob", "carol"}[:nMasters]
	for _, m := range w.masters {
		n := 1 + c.Intn(3)
		for i := 0; i < n; i++ {
			w.sessions = append(w.sessions, &sess{master: m, slot: i, key: newActor(fmt.Sprintf("sess-%s-%d", m, i)), weight: []int{1, 6, 1, 0, 3}[c.Intn(5)]})
		}
	}
	totW := 0
	for _, s := range w.sessions {
		totW += s.weight
	}
	if totW == 0 {
		w.sessions[0].weight = 1
	}
	// message-shape weights: send, small call, attached, grow, shrink, other realms, run, budget-sized spend,
	// fail, oog, deposit cap, denied kinds, multi-message
	w.txW = []int{2 + c.Intn(5), 1 + c.Intn(4), c.Intn(4), c.Intn(6), c.Intn(3), c.Intn(4), c.Intn(2), c.Intn(4),
		c.Intn(4), c.Intn(3), c.Intn(2), c.Intn(3), 1 + c.Intn(4)}
	// block-shape weights: session txs, create, master txs, revoke one, revoke all, co-signed, foreign session, revoke-then-use
	blockW := []int{8 + c.Intn(10), 1 + c.Intn(3), c.Intn(4), c.Intn(3), c.Intn(2), c.Intn(3), c.Intn(2), c.Intn(2)}
	// clock weights: small step, boundary, jump, +1 s
	timeW := []int{2 + c.Intn(6), c.Intn(8), c.Intn(3), c.Intn(3)}
	nblocks := 36 + c.Intn(45)
	if p.Tier == "thorough" {
		nblocks = 50 + c.Intn(150)
	}
	// cold restarts are expensive (the VM re-preprocesses the standard library): a few per run, at drawn blocks
	restartAt := map[int]bool{}
	for i, n := 0, c.Intn(4); i < n; i++ {
		restartAt[c.Intn(nblocks)] = true
	}
	c.Event("sessions run: fee unit %d, masters %v, %d session slots, %d blocks, txW=%v blockW=%v timeW=%v", w.feeUnit, w.masters, len(w.sessions), nblocks, w.txW, blockW, timeW)

	// an empty block: learns the keys every block touches
	w.now = w.now.Add(5 * time.Second)
	w.t0 = w.unix()
	w.height++
	{
		b := blockSpec{Height: w.height, Time: w.now}
		w.ref.runBlock(b)
		for _, k := range w.observe(b.Height).changed {
			w.emptyKeys[k] = true
		}
	}
	// deploy the look-alike realm and the sub-path realm (a tx of this run, not of the shared image)
	{
		w.now = w.now.Add(2 * time.Second)
		t := w.baseTx("deploy", "chaos1")
		t.fee, t.gas = 1_000_000, 300_000_000
		for _, pth := range []string{boxerPath, boxSubPath} {
			nm := pth[strings.LastIndexByte(pth, '/')+1:]
			t.msgs = append(t.msgs, vm.MsgAddPackage{Creator: w.acts["chaos1"].addr, Package: memPkg(pth, map[string]string{nm + ".gno": fmt.Sprintf(boxerSrc, nm)})})
			t.infos = append(t.infos, msgInfo{route: "vm", typ: "add_package", desc: "deploy " + pth})
		}
		w.deliver([]*stx{t}, "")
		w.boxerOK = t.res.ok()
		if !w.boxerOK {
			kernel.Harnessf("deploying the auxiliary realms failed: %s %s", t.res.Err, clip(t.res.Log, 600))
		}
	}
	// initial grants: every master creates its sessions (1..2 per tx)
	for _, m := range w.masters {
		slots := w.slotsOf(m)
		for len(slots) > 0 && !w.stop {
			n := 1 + c.Intn(2)
			if n > len(slots) {
				n = len(slots)
			}
			w.advance([]int{1})
			w.deliver([]*stx{w.genCreate(m, slots[:n])}, "")
			slots = slots[n:]
		}
	}

	pickSess := func(pred func(*sess) bool) *sess {
		var cands []*sess
		var ws []int
		for _, s := range w.sessions {
			if pred(s) {
				cands = append(cands, s)
				ws = append(ws, 1+s.weight)
			}
		}
		if len(cands) == 0 {
			return nil
		}
		return cands[c.Weighted(ws)]
	}
	anySess := func(*sess) bool { return true }

	for bi := 0; bi < nblocks && !w.stop; bi++ {
		if restartAt[bi] {
			c.Event("restart before h%d", w.height+1)
			if err := w.ref.restart(); err != nil {
				w.fail("C01", "restart", "cannot restart after height %d: %v", w.height, err)
				break
			}
			w.r.Fault("restart")
		}
		var forced *sess
		var tag string
		if w.follow != nil && c.Chance(2, 3) {
			w.now = time.Unix(w.unix()+1+int64(c.Intn(2)), 0).UTC()
			forced, tag = w.find(w.follow.master, w.follow.slot), " [follow-up]"
			w.follow = nil
			w.probeNext = c.Bool()
			w.r.Probe("follow_up_blocks_after_a_boundary")
		} else {
			forced, tag = w.advance(timeW)
			w.follow = nil
			if forced != nil && tag != "" {
				w.follow = forced
				w.probeNext = c.Chance(1, 3)
			}
		}
		shape := c.Weighted(blockW)
		if forced != nil {
			shape = 0
		}
		// keep the history alive: when no session with a positive weight can act any more, the
		// masters mostly clear and re-grant
		nUsable := 0
		for _, s := range w.sessions {
			if w.usable(s) && s.weight > 0 {
				nUsable++
			}
		}
		if nUsable == 0 && forced == nil && c.Chance(3, 4) {
			shape = 1
		}
		var txs []*stx
		switch shape {
		case 0: // 1..3 txs signed by one session
			s := forced
			if s == nil {
				// mostly sessions that can still act, sometimes dead ones
				if c.Chance(5, 6) {
					s = pickSess(func(s *sess) bool { return w.usable(s) && s.weight > 0 })
				}
				if s == nil {
					s = pickSess(anySess)
				}
			}
			n := 1
			if c.Chance(1, 4) {
				n = 2 + c.Intn(2)
			}
			for i := 0; i < n; i++ {
				t := w.genSessionTx(s)
				if i > 0 {
					t.soft = "" // the budget left after the earlier txs of the block is only measured after the commit
				}
				txs = append(txs, t)
			}
		case 1: // (re-)create sessions in free slots; sometimes over a live slot (refused: duplicate)
			m := w.masters[c.Intn(len(w.masters))]
			for k := 0; k < len(w.masters); k++ { // first master (from the drawn one on) that has an unusable slot
				cand := w.masters[(indexOf(w.masters, m)+k)%len(w.masters)]
				dead := false
				for _, s := range w.slotsOf(cand) {
					if !w.usable(s) {
						dead = true
					}
				}
				if dead {
					m = cand
					break
				}
			}
			var free []*sess
			for _, s := range w.slotsOf(m) {
				if !s.live {
					free = append(free, s)
				}
			}
			if len(free) == 0 && c.Chance(2, 3) {
				t := w.baseTx("revokeall", m)
				t.msgs = []std.Msg{auth.MsgRevokeAllSessions{Creator: w.acts[m].addr}}
				t.infos = []msgInfo{{route: "auth", typ: "revoke_all_sessions", desc: "revoke-all"}}
				t.revokeAllOf = m
				txs = append(txs, t)
				break
			}
			if len(free) == 0 {
				s := w.slotsOf(m)[0]
				t := w.genCreate(m, []*sess{s})
				t.creates = nil // duplicate: must not replace the grant; the model keeps the old one
				t.kind = "create-duplicate"
				txs = append(txs, t)
				break
			}
			txs = append(txs, w.genCreate(m, free[:1+c.Intn(min(2, len(free)))]))
		case 2: // master-signed traffic: never limited, never counted
			m := w.masters[c.Intn(len(w.masters))]
			n := 1 + c.Intn(2)
			for i := 0; i < n; i++ {
				t := w.baseTx("master", m)
				if c.Bool() {
					mm, mi := w.sendMsg(m, w.feeUnit*int64(20+c.Intn(100))) // far above any session limit
					t.msgs, t.infos = []std.Msg{mm}, []msgInfo{mi}
				} else {
					w.genMsgs(t, m, nil)
				}
				txs = append(txs, t)
			}
		case 3: // revoke one session (live or not)
			s := pickSess(anySess)
			t := w.baseTx("revoke", s.master)
			t.msgs = []std.Msg{auth.MsgRevokeSession{Creator: w.acts[s.master].addr, SessionKey: s.key.priv.PubKey()}}
			t.infos = []msgInfo{{route: "auth", typ: "revoke_session", desc: fmt.Sprintf("revoke(s%d)", s.slot)}}
			t.revokes = []*sess{s}
			txs = append(txs, t)
		case 4: // revoke all
			m := w.masters[c.Intn(len(w.masters))]
			t := w.baseTx("revokeall", m)
			t.msgs = []std.Msg{auth.MsgRevokeAllSessions{Creator: w.acts[m].addr}}
			t.infos = []msgInfo{{route: "auth", typ: "revoke_all_sessions", desc: "revoke-all"}}
			t.revokeAllOf = m
			txs = append(txs, t)
		case 5: // co-signed
			s := pickSess(func(s *sess) bool { return s.live })
			if s == nil {
				s = pickSess(anySess)
			}
			txs = append(txs, w.genCosigned(s, c.Bool()))
		case 6: // a session of another master
			if len(w.masters) < 2 {
				s := pickSess(anySess)
				txs = append(txs, w.genForeign("chaos1", s))
				break
			}
			s := pickSess(anySess)
			m := w.masters[0]
			if s.master == m {
				m = w.masters[1]
			}
			txs = append(txs, w.genForeign(m, s))
		case 7: // revoke and use inside one block: the use must already be refused
			s := pickSess(func(s *sess) bool { return s.live })
			if s == nil {
				s = pickSess(anySess)
			}
			t := w.baseTx("revoke", s.master)
			if c.Bool() {
				t.msgs = []std.Msg{auth.MsgRevokeSession{Creator: w.acts[s.master].addr, SessionKey: s.key.priv.PubKey()}}
				t.infos = []msgInfo{{route: "auth", typ: "revoke_session", desc: fmt.Sprintf("revoke(s%d)", s.slot)}}
				t.revokes = []*sess{s}
			} else {
				t.kind = "revokeall"
				t.msgs = []std.Msg{auth.MsgRevokeAllSessions{Creator: w.acts[s.master].addr}}
				t.infos = []msgInfo{{route: "auth", typ: "revoke_all_sessions", desc: "revoke-all"}}
				t.revokeAllOf = s.master
			}
			wasLive := s.live
			u := w.genSessionTx(s)
			if wasLive {
				// whether the revocation succeeds is only known after delivery: decided in two steps below
				u.hard, u.soft = "revoked-in-same-block", ""
			}
			txs = append(txs, t, u)
		}
		w.probeNext = false
		if len(txs) == 0 {
			continue
		}
		w.deliver(txs, tag)
	}

	// final state of the grants: what expired
	nowU := w.unix()
	for _, s := range w.sessions {
		if s.live && s.expiresAt > 0 && nowU >= s.expiresAt {
			w.r.Probe("sessions_expired")
		}
	}
	w.r.SimSeconds = float64(nowU - w.t0)
	rejected := 0
	for _, k := range kernel.SortedKeys(w.r.Probes) {
		if strings.HasPrefix(k, "rejected_") {
			rejected += w.r.Probes[k]
		}
	}
	w.r.Nontrivial = w.r.Probes["session_tx_ok"] >= 1 && rejected >= 1
	if len(w.anom) > 0 && w.r.Violation == nil {
		w.r.Inconcl = "model of accepted session txs disagrees with the implementation (not a C16 violation): " + clip(w.anom[0], 400)
	}
	var grants []string
	for _, s := range w.sessions {
		grants = append(grants, s.id()+": "+w.sessState(s)+" ok-txs="+fmt.Sprint(s.okTxs)+" ledger="+ledgerString(s.ledger, w.t0))
	}
	sort.Strings(grants)
	nlog := 40
	if p.Knob("fulllog", "") != "" {
		nlog = len(c.Log)
	}
	w.r.Sample = map[string]any{"grants": grants, "events": c.Log[:min(len(c.Log), nlog)]}
	return w.r
}

func init() { engines["C16"] = runSessions }
