package chain

import (
	"bytes"
	"encoding/json"
	"fmt"
	"sort"
	"strings"

	gno "github.com/gnolang/gno/gnovm/pkg/gnolang"
	"github.com/gnolang/gno/tm2/pkg/amino"
	"github.com/gnolang/gno/tm2/pkg/crypto"
)

// Persisted-object-graph audit (C06, C09). Works from the stored BYTES through
// public API only: value = hash(20) ‖ amino-any(object); child objects appear as
// RefValue{ObjectID,Hash|Escaped}. Nothing is taken from the VM's caches.

type pobj struct {
	id       string
	size     int
	typ      string
	owner    string
	refCount int
	escaped  bool
	hashOK   bool
	hash     string
	refs     []pref // outgoing references
}

type pref struct {
	to      string
	hash    string
	escaped bool
}

type realmRec struct {
	Path    string
	Deposit uint64
	Storage uint64
}

type graph struct {
	objs   map[string]*pobj
	realms map[string]realmRec // pkgid hex -> realm record
	bytes  map[string]int64    // pkgid hex -> Σ len(value) of oid:<pkgid>:* object keys
	errs   []string
}

func collectRefs(v any, out *[]pref, depth int) {
	switch x := v.(type) {
	case map[string]any:
		if t, _ := x["@type"].(string); t == "/gno.RefValue" {
			if id, _ := x["ObjectID"].(string); id != "" {
				p := pref{to: id}
				if h, ok := x["Hash"].(string); ok {
					p.hash = h
				}
				if e, ok := x["Escaped"].(bool); ok {
					p.escaped = e
				}
				*out = append(*out, p)
			}
			return
		}
		for _, k := range sortedAnyKeys(x) {
			if depth == 0 && k == "ObjectInfo" {
				continue
			}
			collectRefs(x[k], out, depth+1)
		}
	case []any:
		for _, e := range x {
			collectRefs(e, out, depth+1)
		}
	}
}

func sortedAnyKeys(m map[string]any) []string {
	ks := make([]string, 0, len(m))
	for k := range m {
		ks = append(ks, k)
	}
	sort.Strings(ks)
	return ks
}

// buildGraph decodes every oid: key of the base store.
func (a *auditor) buildGraph(only ...string) *graph {
	filter := map[string]bool{}
	for _, o := range only {
		filter[o] = true
	}
	g := &graph{objs: map[string]*pobj{}, realms: map[string]realmRec{}, bytes: map[string]int64{}}
	st := a.ms.GetStore(a.baseKey)
	it := st.Iterator(nil, []byte("oid:"), []byte("oid;"))
	defer it.Close()
	for ; it.Valid(); it.Next() {
		key := string(it.Key())
		val := it.Value()
		id := strings.TrimPrefix(key, "oid:")
		pkgid := id
		if i := strings.IndexByte(id, ':'); i >= 0 {
			pkgid = id[:i]
		}
		if len(filter) > 0 && !filter[pkgid] {
			continue
		}
		if strings.HasSuffix(id, "#realm") {
			var r gno.Realm
			if err := amino.Unmarshal(val, &r); err != nil {
				g.errs = append(g.errs, fmt.Sprintf("realm record %s does not decode: %v", key, err))
				continue
			}
			g.realms[pkgid] = realmRec{Path: r.Path, Deposit: r.Deposit, Storage: r.Storage}
			continue
		}
		g.bytes[pkgid] += int64(len(val))
		o := &pobj{id: id, size: len(val)}
		g.objs[id] = o
		if len(val) < gno.HashSize {
			g.errs = append(g.errs, fmt.Sprintf("object %s: value shorter than a hash", id))
			continue
		}
		h := gno.HashBytes(val[gno.HashSize:])
		o.hashOK = bytes.Equal(h.Bytes(), val[:gno.HashSize])
		o.hash = fmt.Sprintf("%X", val[:gno.HashSize])
		var obj gno.Object
		if err := amino.UnmarshalAny(val[gno.HashSize:], &obj); err != nil {
			g.errs = append(g.errs, fmt.Sprintf("object %s does not decode: %v", id, err))
			continue
		}
		oi := obj.GetObjectInfo()
		o.typ = fmt.Sprintf("%T", obj)
		o.refCount = oi.RefCount
		o.escaped = oi.IsEscaped
		if !oi.OwnerID.IsZero() {
			o.owner = oi.OwnerID.String()
		}
		if oi.ID.String() != id {
			g.errs = append(g.errs, fmt.Sprintf("object stored under %s records id %s", id, oi.ID.String()))
		}
		js, err := amino.MarshalJSONAny(obj)
		if err != nil {
			g.errs = append(g.errs, fmt.Sprintf("object %s: json: %v", id, err))
			continue
		}
		var tree any
		if err := json.Unmarshal(js, &tree); err != nil {
			g.errs = append(g.errs, fmt.Sprintf("object %s: json parse: %v", id, err))
			continue
		}
		if m, ok := tree.(map[string]any); ok {
			if v, ok := m["value"]; ok { // amino Any wrapper
				tree = v
			}
		}
		collectRefs(tree, &o.refs, 0)
	}
	return g
}

// check evaluates the C06 invariants restricted to objects of the given packages
// (pkgid hex prefixes); all=true checks every object.
type issue struct {
	kind string
	msg  string
}

func (g *graph) check(pkgids map[string]bool, all bool) []issue {
	var out []issue
	add := func(kind, format string, args ...any) { out = append(out, issue{kind, fmt.Sprintf(format, args...)}) }
	for _, e := range g.errs {
		add("undecodable-object", "%s", e)
	}
	in := map[string]int{}       // incoming persisted references
	holders := map[string][]string{}
	for _, id := range sortedObjIDs(g.objs) {
		o := g.objs[id]
		for _, r := range o.refs {
			in[r.to]++
			holders[r.to] = append(holders[r.to], id)
		}
	}
	want := func(id string) bool {
		if all {
			return true
		}
		i := strings.IndexByte(id, ':')
		return i > 0 && pkgids[id[:i]]
	}
	for _, id := range sortedObjIDs(g.objs) {
		o := g.objs[id]
		if !want(id) {
			continue
		}
		if !o.hashOK {
			add("stored-hash", "%s (%s): stored hash != hash(stored bytes)", id, o.typ)
		}
		for _, r := range o.refs {
			t, ok := g.objs[r.to]
			if !ok {
				add("dangling-reference", "%s (%s) references missing object %s", id, o.typ, r.to)
				continue
			}
			if !r.escaped && r.hash != "" && !strings.EqualFold(r.hash, t.hash) {
				add("anomaly:child-hash-stale-in-parent", "%s holds hash %s for child %s whose stored hash is %s", id, r.hash, r.to, t.hash)
			}
		}
		isPkg := strings.HasSuffix(o.typ, "PackageValue")
		if isPkg {
			continue
		}
		if o.refCount != in[id] {
			add("refcount", "%s (%s): RefCount %d but %d persisted references (held by %v)", id, o.typ, o.refCount, in[id], holders[id])
		}
		if _, ownerExists := g.objs[o.owner]; o.owner != "" && !ownerExists {
			// The recorded owner is not a persisted object (any more). One issue per object, so that
			// the two listed manifestations of the stale-OwnerID defect (KNOWN_FINDINGS.jsonl) are
			// told apart from every violation that involves an EXISTING owner, which stays strict below.
			if o.escaped {
				add("stale-owner-kept-on-escape", "%s (%s): escaped (RefCount %d) but still records owner %s, which is not a persisted object (any more); references held by %v", id, o.typ, o.refCount, o.owner, holders[id])
			} else if o.refCount != 1 {
				add("owner-with-refcount-not-1", "%s (%s): records owner %s (not a persisted object any more) with RefCount %d", id, o.typ, o.owner, o.refCount)
			} else {
				add("owner-no-longer-exists", "%s (%s): recorded owner %s is not a persisted object (any more); the reference is held by %v", id, o.typ, o.owner, holders[id])
			}
		} else if o.owner != "" {
			if o.escaped {
				add("escaped-with-owner", "%s (%s): escaped but still records owner %s", id, o.typ, o.owner)
			}
			if o.refCount != 1 {
				add("owner-with-refcount-not-1", "%s (%s): records owner %s with RefCount %d", id, o.typ, o.owner, o.refCount)
			}
			held := false
			for _, h := range holders[id] {
				if h == o.owner {
					held = true
				}
			}
			if !held {
				add("owner-does-not-hold-reference", "%s (%s): recorded owner %s exists but does not hold a reference to it (holders %v)", id, o.typ, o.owner, holders[id])
			}
		} else if o.refCount == 1 && !o.escaped {
			add("no-owner-recorded", "%s (%s): singly referenced, not escaped, but no owner recorded", id, o.typ)
		}
		if o.refCount > 1 && !o.escaped {
			add("shared-not-escaped", "%s (%s): RefCount %d but not marked escaped", id, o.typ, o.refCount)
		}
	}
	// reachability from packages
	reach := map[string]bool{}
	var stack []string
	for _, id := range sortedObjIDs(g.objs) {
		if strings.HasSuffix(g.objs[id].typ, "PackageValue") {
			stack = append(stack, id)
			reach[id] = true
		}
	}
	for len(stack) > 0 {
		id := stack[len(stack)-1]
		stack = stack[:len(stack)-1]
		if o := g.objs[id]; o != nil {
			for _, r := range o.refs {
				if !reach[r.to] {
					reach[r.to] = true
					stack = append(stack, r.to)
				}
			}
		}
	}
	for _, id := range sortedObjIDs(g.objs) {
		if want(id) && !reach[id] && !inCycle(g, id) {
			add("unreachable", "%s (%s): persisted, not part of a cycle, yet unreachable from any package", id, g.objs[id].typ)
		}
	}
	return out
}

func inCycle(g *graph, start string) bool {
	seen := map[string]bool{}
	stack := []string{}
	if o := g.objs[start]; o != nil {
		for _, r := range o.refs {
			stack = append(stack, r.to)
		}
	}
	for len(stack) > 0 {
		id := stack[len(stack)-1]
		stack = stack[:len(stack)-1]
		if id == start {
			return true
		}
		if seen[id] {
			continue
		}
		seen[id] = true
		if o := g.objs[id]; o != nil {
			for _, r := range o.refs {
				stack = append(stack, r.to)
			}
		}
	}
	return false
}

func sortedObjIDs(m map[string]*pobj) []string {
	ks := make([]string, 0, len(m))
	for k := range m {
		ks = append(ks, k)
	}
	sort.Strings(ks)
	return ks
}

func pkgIDHex(path string) string {
	return strings.SplitN(gno.ObjectIDFromPkgPath(path).String(), ":", 2)[0]
}

func storageDepositAddr(path string) crypto.Address {
	return gno.DeriveStorageDepositCryptoAddr(path)
}

// paramsBytes re-derives a realm's chain-parameter bytes from the main store:
// Σ len("vm:<path>:<key>") + len(value).
func (a *auditor) paramsBytes(path string) int64 {
	st := a.ms.GetStore(a.mainKey)
	pfx := "/pv/vm:" + path + ":"
	it := st.Iterator(nil, []byte(pfx), []byte(pfx[:len(pfx)-1]+";"))
	defer it.Close()
	var n int64
	for ; it.Valid(); it.Next() {
		n += int64(len(it.Key())-len("/pv/")) + int64(len(it.Value()))
	}
	return n
}
