package chain

import (
	"crypto/sha256"
	"encoding/hex"
	"fmt"
	"os"
	"path/filepath"
	"strconv"
	"strings"
	"time"

	"github.com/gnolang/gno/gno.land/pkg/sdk/vm"
	"github.com/gnolang/gno/tm2/pkg/std"

	"verif/sim/kernel"
	"verif/sim/simdb"
)

// C03 — realm behaviour is independent of persistence boundaries.
//
// Differential, per run (everything drawn from the seed):
//
//   A   generated "shape" programs (shapes_gen.go) are deployed as realms
//       gno.land/r/sim/shape<i> by MsgAddPackage; a drawn call sequence is issued as
//       MsgCall messages — one per tx up to a whole batch in one multi-message tx, one or
//       several txs per block — on a node that is RESTARTED (new app over the same simdb
//       image: no object cache, no preprocessed-node cache, cold stdlib cache) at drawn
//       block boundaries. Failing txs are interleaved (an operation that panics before
//       mutating; an operation that runs a mutating operation and then panics).
//   A'  the same blocks on a node that is never restarted.
//   B   per program ONE MsgRun script whose package main holds the same source body and
//       whose main() makes the calls of the program's successful txs in order, printing
//       every result and the canonical Dump() after every call: one in-memory execution,
//       nothing is ever persisted or reloaded.
//
// Oracles: result strings of A equal those of B call by call (call-result-differs); a call
// that fails in A although B ran it (call-fails-only-when-persisted); after every block
// the vm/qeval Dump() of A equals B's dump after the same call prefix (state-dump-differs);
// the dump right after a restart equals the one right before it (dump-changed-by-restart);
// A and A' agree on every tx result and dump (restart-twin-differs); a failing tx leaves
// the dump unchanged (covered by state-dump-differs: B never runs the calls of failing txs).

const shapeGasCall = 400_000_000
const shapeGasDeploy = 1_500_000_000
const shapeGasRun = 2_900_000_000

type shTx struct {
	calls []shCall
	fails bool
}

type shBlock struct {
	txs           []shTx
	restartBefore bool
}

type shWorld struct {
	c     *kernel.Choices
	r     *kernel.Result
	progs []*shProgram
	paths []string
	alice *actor
	a, w  *node // restarted, warm
	now   time.Time
	h     int64
}

func shapeHash(s string) string {
	h := sha256.Sum256([]byte(s))
	return hex.EncodeToString(h[:6])
}

// unquoteResult turns `("..." string)` into the string.
func unquoteResult(s string) (string, bool) {
	s = strings.TrimSpace(s)
	if !strings.HasPrefix(s, "(") || !strings.HasSuffix(s, " string)") {
		return "", false
	}
	u, err := strconv.Unquote(s[1 : len(s)-len(" string)")])
	if err != nil {
		return "", false
	}
	return u, true
}

func (w *shWorld) sign(gas int64, msgs ...std.Msg) []byte {
	tx := std.Tx{Msgs: msgs, Fee: std.NewFee(gas, std.NewCoin("ugnot", 1_000_000))}
	signTx(&tx, []*actor{w.alice}, false)
	return encTx(tx)
}

func (w *shWorld) nextBlock() blockSpec {
	w.h++
	w.now = w.now.Add(5 * time.Second)
	return blockSpec{Height: w.h, Time: w.now}
}

func (w *shWorld) describe(blocks []shBlock) string {
	var b strings.Builder
	for bi, blk := range blocks {
		if blk.restartBefore {
			fmt.Fprintf(&b, "  -- restart of node A --\n")
		}
		fmt.Fprintf(&b, "  block %d:\n", bi)
		for ti, tx := range blk.txs {
			fmt.Fprintf(&b, "    tx %d", ti)
			if tx.fails {
				b.WriteString(" (must fail)")
			}
			b.WriteString(":")
			for _, cl := range tx.calls {
				fmt.Fprintf(&b, " shape%d.Op%d(%d,%q)", cl.prog, cl.op, cl.a, cl.s)
			}
			b.WriteString("\n")
		}
	}
	return b.String()
}

func (w *shWorld) report(blocks []shBlock, prog int) string {
	var b strings.Builder
	b.WriteString("\n--- schedule (node A; node A' runs the same blocks without restarts; B = one MsgRun of the successful calls) ---\n")
	b.WriteString(w.describe(blocks))
	if prog >= 0 {
		fmt.Fprintf(&b, "--- source of realm %s (the MsgRun script has the same body in package main) ---\n%s", w.paths[prog], w.progs[prog].realmSource(fmt.Sprintf("shape%d", prog)))
	}
	return b.String()
}

func runShapes(c *kernel.Choices, p kernel.Params) *kernel.Result {
	r := kernel.NewResult()
	w := &shWorld{c: c, r: r}
	img := baseImage(3_000_000_000)
	acts := newActors()
	w.alice = acts["alice"]
	w.h = 1
	w.now = genesisTime.Add(time.Second)

	// ---- generate programs and the schedule (all draws happen before anything runs) -----
	nprog := 1 + c.Intn(3)
	// Half of the runs use "flat" programs: no struct or array sits directly (by value) inside a
	// struct field or an array element. Violations met by the other half are reported under the
	// oracle id differs-with-nested-value-types, signature nested-value-types/<oracle> (finding of
	// 2026-09-22: a value copy of a reloaded struct or array shares its not-yet-loaded nested
	// arrays/structs, TypedValue.Copy keeps the RefValue), so that listing that finding never
	// hides a divergence in a program that cannot trigger it.
	flat := c.Chance(1, 2)
	switch p.Knob("nested", "") {
	case "off":
		flat = true
	case "on":
		flat = false
	}
	fail := func(oracle, format string, args ...any) {
		if r.Violation != nil {
			return
		}
		v := &kernel.Violation{Property: "C03", Oracle: oracle, Signature: oracle, Msg: fmt.Sprintf(format, args...)}
		if !flat {
			// one stable (oracle, signature-prefix) pair for every divergence of a program that has
			// structs / arrays nested by value: a single known-findings line can cover them
			v.Oracle, v.Signature = "differs-with-nested-value-types", "nested-value-types/"+oracle
			v.Msg = "[" + oracle + ", program with structs/arrays nested by value] " + v.Msg + nestedFindingNote
		}
		if p.IsKnown(v) != nil {
			v.Msg = clip(v.Msg, 600)
			r.Known = append(r.Known, *v)
			return
		}
		r.Violation = v
	}
	for i := 0; i < nprog; i++ {
		pr := genShape(c, flat)
		w.progs = append(w.progs, pr)
		w.paths = append(w.paths, fmt.Sprintf("gno.land/r/sim/shape%d", i))
		r.Probe("programs_generated")
		for _, k := range kernel.SortedKeys(pr.kinds) {
			r.ProbeN("kind:"+k, pr.kinds[k])
		}
		c.Event("program %d: %d ops, body %s (%d bytes)", i, len(pr.ops), shapeHash(pr.body), len(pr.body))
	}
	dbg := p.Knob("dumpdir", "")
	if dir := dbg; dir != "" { // development aid: sources and dumps of every run
		for i, pr := range w.progs {
			os.MkdirAll(dir, 0o755)
			os.WriteFile(filepath.Join(dir, fmt.Sprintf("%d-shape%d.gno", c.Seed, i)), []byte(pr.realmSource(fmt.Sprintf("shape%d", i))), 0o644)
		}
	}
	ncalls := 0
	for i := 0; i < nprog; i++ {
		ncalls += 6 + c.Intn(13)
	}
	failW := c.Intn(3) // 0: no failing txs in this run
	batchW := c.Intn(4)
	var blocks []shBlock
	left := ncalls
	for left > 0 {
		blk := shBlock{}
		ntx := 1
		if c.Chance(1, 3) {
			ntx = 2 + c.Intn(3)
		}
		for t := 0; t < ntx && left > 0; t++ {
			nmsg := 1
			if c.Chance(batchW, 6) {
				nmsg = 2 + c.Intn(4)
			}
			var tx shTx
			failAt := -1
			if c.Chance(failW, 8) {
				failAt = c.Intn(nmsg)
			}
			for m := 0; m < nmsg && left > 0; m++ {
				pi := c.Intn(nprog)
				pr := w.progs[pi]
				cl := shCall{prog: pi, op: c.Intn(pr.nops), a: c.Intn(12), s: string(rune('a'+c.Intn(6))) + strconv.Itoa(c.Intn(10))}
				if m == failAt {
					cl.op = pr.nops + c.Intn(2)
					tx.fails = true
				}
				tx.calls = append(tx.calls, cl)
				left--
			}
			blk.txs = append(blk.txs, tx)
		}
		blocks = append(blocks, blk)
	}
	nrestart := c.Intn(4) // a restart costs as much as hundreds of txs: at most three per run
	for i := 0; i < nrestart; i++ {
		blocks[c.Intn(len(blocks))].restartBefore = true
	}
	c.Event("schedule: %d programs (flat=%v), %d calls in %d blocks", nprog, flat, ncalls, len(blocks))
	t0 := time.Now()
	lap := func(what string) { // development aid (wall time never enters the trace)
		if dbg != "" {
			fmt.Fprintf(os.Stderr, "C03 %d %s: %v\n", c.Seed, what, time.Since(t0))
		}
	}
	if dbg != "" {
		os.WriteFile(filepath.Join(dbg, fmt.Sprintf("%d.trace", c.Seed)), []byte(w.describe(blocks)), 0o644)
	}

	// ---- nodes ---------------------------------------------------------------------------
	open := func(name string) *node {
		d := img.disk.Clone(simdb.NewMachine())
		n, err := newNode(name, d)
		if err != nil {
			kernel.Harnessf("opening node %s: %v", name, err)
		}
		return n
	}
	w.a, w.w = open("A"), open("Aw")
	defer func() { w.a.app.Close(); w.w.app.Close() }()
	if acc, err := w.a.account(w.alice.addr); err != nil || acc == nil {
		kernel.Harnessf("alice's account: %v", err)
	} else {
		w.alice.num, w.alice.seq = acc.GetAccountNumber(), acc.GetSequence()
	}

	// both nodes execute the same block; returns A's results after checking A' agrees
	twinBlock := func(b blockSpec, what string) ([]txResult, bool) {
		ra := w.a.runBlock(b)
		rw := w.w.runBlock(b)
		for i := range ra.Txs {
			x, y := ra.Txs[i], rw.Txs[i]
			if x.Err != y.Err || x.Data != y.Data {
				fail("restart-twin-differs", "%s, tx %d: node A (restarted %d times) answers err=%q data=%q log=%s\nnode A' (never restarted) answers err=%q data=%q log=%s%s",
					what, i, w.a.restarts, x.Err, dataString(x), clip(x.Log, 600), y.Err, dataString(y), clip(y.Log, 600), w.report(blocks, -1))
				return nil, false
			}
		}
		return ra.Txs, true
	}
	dumpOf := func(n *node, prog int) string {
		s, err := n.qeval(w.paths[prog], "Dump()")
		if err != nil {
			return "QUERY-ERROR " + clip(err.Error(), 600)
		}
		u, ok := unquoteResult(s)
		if !ok {
			kernel.Harnessf("qeval Dump() of %s returned %s", w.paths[prog], clip(s, 300))
		}
		return u
	}

	// ---- deploy -------------------------------------------------------------------------------
	b := w.nextBlock()
	for i, pr := range w.progs {
		name := fmt.Sprintf("shape%d", i)
		msg := vm.MsgAddPackage{Creator: w.alice.addr, Package: memPkg(w.paths[i], map[string]string{name + ".gno": pr.realmSource(name)})}
		b.Txs = append(b.Txs, w.sign(shapeGasDeploy, msg))
		w.alice.seq++
	}
	res, ok := twinBlock(b, "deployment block")
	if !ok {
		return r
	}
	for i, tr := range res {
		if !tr.ok() {
			kernel.Harnessf("deploying generated realm %d failed: %s %s\n--- source ---\n%s", i, tr.Err, clip(tr.Log, 3000), w.progs[i].realmSource(fmt.Sprintf("shape%d", i)))
		}
	}
	// dumpsA[prog] = list of (number of successful calls of prog so far, dump) observations
	type obs struct {
		ncalls int
		dump   string
		when   string
	}
	scripts := make([][]shCall, nprog) // successful calls so far, per program
	dumpsA := make([][]obs, nprog)
	lastDump := make([]string, nprog)
	done := make([]int, nprog) // successful calls so far per program
	observe := func(when string, only map[int]bool) bool {
		for i := 0; i < nprog; i++ {
			if only != nil && !only[i] {
				continue
			}
			da, dw := dumpOf(w.a, i), dumpOf(w.w, i)
			if da != dw {
				fail("restart-twin-differs", "%s: Dump() of %s differs between node A (restarted %d times) and node A' (never restarted)\n A : %s\n A': %s%s",
					when, w.paths[i], w.a.restarts, da, dw, w.report(blocks, i))
				return false
			}
			if strings.HasPrefix(da, "QUERY-ERROR") {
				// B decides: the in-memory execution of the same calls must be unable to dump, too
				if _, _, berr := w.runScript(i, scripts[i]); berr != "" {
					kernel.Harnessf("%s: Dump() of %s fails persisted (%s) AND in memory (%s): generator bug%s", when, w.paths[i], da, clip(berr, 600), w.report(blocks, i))
				}
				fail("dump-fails-only-when-persisted", "%s: vm/qeval Dump() of %s fails on the chain: %s\nbut the same call sequence and every Dump() run to completion in one in-memory execution (MsgRun)%s", when, w.paths[i], da, w.report(blocks, i))
				return false
			}
			dumpsA[i] = append(dumpsA[i], obs{done[i], da, when})
			lastDump[i] = da
			r.ProbeN("dump_bytes", len(da))
			c.Event("%s: dump shape%d %s (%d bytes)", when, i, shapeHash(da), len(da))
			if dbg != "" {
				f, _ := os.OpenFile(filepath.Join(dbg, fmt.Sprintf("%d.trace", c.Seed)), os.O_APPEND|os.O_CREATE|os.O_WRONLY, 0o644)
				fmt.Fprintf(f, "%s shape%d: %s\n", when, i, da)
				f.Close()
			}
		}
		return true
	}
	lap("nodes opened, programs deployed")
	if !observe("after deployment", nil) {
		return r
	}
	lap("first dumps")

	// ---- the call history on A and A' -----------------------------------------------------------
	type callRes struct {
		prog, idx int // idx = position among the program's successful calls
		res       string
		where     string
	}
	var resultsA []callRes
	boundaryAfterWrite := false
	wrote := make([]bool, nprog)
	for bi, blk := range blocks {
		if blk.restartBefore {
			c.Event("restart of node A before block %d", bi)
			if err := w.a.restart(); err != nil {
				fail("node-cannot-restart", "node A cannot restart before block %d: %v%s", bi, err, w.report(blocks, -1))
				return r
			}
			r.Fault("restart")
			r.Probe("restarts")
			for i := 0; i < nprog; i++ {
				d := dumpOf(w.a, i)
				if d != lastDump[i] {
					fail("dump-changed-by-restart", "Dump() of %s before the restart preceding block %d:\n %s\nafter the restart:\n %s%s", w.paths[i], bi, lastDump[i], d, w.report(blocks, i))
					return r
				}
				if wrote[i] {
					boundaryAfterWrite = true
				}
			}
		}
		b := w.nextBlock()
		for _, tx := range blk.txs {
			var msgs []std.Msg
			for _, cl := range tx.calls {
				msgs = append(msgs, vm.NewMsgCall(w.alice.addr, nil, w.paths[cl.prog], fmt.Sprintf("Op%d", cl.op), []string{strconv.Itoa(cl.a), cl.s}))
			}
			b.Txs = append(b.Txs, w.sign(shapeGasCall*int64(len(msgs)), msgs...))
			w.alice.seq++
			if len(msgs) > 1 {
				r.Probe("multi_msg_txs")
			}
		}
		res, ok := twinBlock(b, fmt.Sprintf("block %d", bi))
		if !ok {
			return r
		}
		touched := map[int]bool{}
		for ti, tx := range blk.txs {
			tr := res[ti]
			c.Event("block %d tx %d: %d msgs fails=%v -> err=%s data=%s", bi, ti, len(tx.calls), tx.fails, tr.Err, shapeHash(tr.Data))
			if tr.GasW == 0 && !tr.ok() {
				kernel.Harnessf("block %d tx %d rejected at ante: %s %s", bi, ti, tr.Err, clip(tr.Log, 400))
			}
			for _, cl := range tx.calls {
				touched[cl.prog] = true
			}
			if tx.fails {
				r.Probe("failing_txs")
				if tr.ok() {
					fail("failing-call-succeeded", "block %d tx %d contains an operation that panics, yet the tx succeeded%s", bi, ti, w.report(blocks, tx.calls[0].prog))
					return r
				}
				if strings.Contains(tr.Log, "boom") || strings.Contains(tr.Log, "late") {
					continue
				}
				// an ordinary call placed before the panicking one failed first: decided by the ordinary-call rule
				r.Probe("failing_tx_failed_elsewhere")
				for k, cl := range tx.calls {
					if w.progs[cl.prog].ops[cl.op].failer != 0 {
						tx.calls = tx.calls[:k]
						break
					}
				}
			}
			if !tr.ok() {
				if strings.Contains(tr.Err, "OutOfGas") {
					kernel.Harnessf("block %d tx %d ran out of gas (%d): generated programs are too expensive", bi, ti, tr.GasU)
				}
				// B decides: if the in-memory execution runs these calls, the persisted one must too
				scripts2 := make([][]shCall, nprog)
				for i := range scripts {
					scripts2[i] = append([]shCall(nil), scripts[i]...)
				}
				for _, cl := range tx.calls {
					scripts2[cl.prog] = append(scripts2[cl.prog], cl)
				}
				for i := 0; i < nprog; i++ {
					if len(scripts2[i]) == len(scripts[i]) {
						continue
					}
					if _, _, berr := w.runScript(i, scripts2[i]); berr != "" {
						kernel.Harnessf("block %d tx %d fails persisted (%s) AND in memory (%s): generator bug%s", bi, ti, clip(tr.Log, 600), clip(berr, 600), w.report(blocks, i))
					}
				}
				fail("call-fails-only-when-persisted", "block %d tx %d fails on the chain: %s %s\nbut the same call sequence runs to completion in one in-memory execution (MsgRun)%s",
					bi, ti, tr.Err, clip(tr.Log, 1500), w.report(blocks, tx.calls[0].prog))
				return r
			}
			parts := strings.Split(dataString(tr), "\n\n")
			if len(parts) < len(tx.calls) {
				kernel.Harnessf("block %d tx %d: %d results for %d calls: %q", bi, ti, len(parts), len(tx.calls), dataString(tr))
			}
			for mi, cl := range tx.calls {
				u, ok := unquoteResult(parts[mi])
				if !ok {
					kernel.Harnessf("block %d tx %d msg %d: result %q", bi, ti, mi, parts[mi])
				}
				resultsA = append(resultsA, callRes{cl.prog, done[cl.prog], u, fmt.Sprintf("block %d tx %d msg %d shape%d.Op%d(%d,%q)", bi, ti, mi, cl.prog, cl.op, cl.a, cl.s)})
				scripts[cl.prog] = append(scripts[cl.prog], cl)
				done[cl.prog]++
				if w.progs[cl.prog].ops[cl.op].mut {
					wrote[cl.prog] = true
				}
				r.Probe("act:" + w.progs[cl.prog].ops[cl.op].act)
			}
			r.Steps += len(tx.calls)
		}
		for i := 0; i < nprog; i++ {
			if touched[i] && wrote[i] {
				boundaryAfterWrite = true // the qeval below reads, in a new transaction, what an earlier tx wrote
			}
		}
		if !observe(fmt.Sprintf("after block %d", bi), touched) {
			return r
		}
	}

	lap("history done")
	// ---- B: one in-memory execution per program ---------------------------------------------------
	for i := 0; i < nprog; i++ {
		resB, dumpsB, berr := w.runScript(i, scripts[i])
		if berr != "" {
			kernel.Harnessf("the MsgRun script of program %d failed: %s\n%s", i, clip(berr, 3000), w.report(blocks, i))
		}
		if len(resB) != len(scripts[i]) || len(dumpsB) != len(scripts[i])+1 {
			kernel.Harnessf("script of program %d printed %d results and %d dumps for %d calls", i, len(resB), len(dumpsB), len(scripts[i]))
		}
		for k := 0; k+1 < len(dumpsB); k++ {
			if dumpsB[k] != dumpsB[k+1] {
				r.Probe("calls_changing_state")
			}
		}
		for _, cr := range resultsA {
			if cr.prog != i {
				continue
			}
			r.Probe("calls_compared")
			if cr.res != resB[cr.idx] {
				fail("call-result-differs", "%s (call #%d of the program) returned\n persisted : %q\n in memory : %q%s", cr.where, cr.idx, cr.res, resB[cr.idx], w.report(blocks, i))
				return r
			}
		}
		for _, o := range dumpsA[i] {
			r.Probe("dumps_compared")
			if o.dump != dumpsB[o.ncalls] {
				fail("state-dump-differs", "Dump() of %s %s (after %d successful calls of the program)\n persisted : %s\n in memory : %s\n%s%s",
					w.paths[i], o.when, o.ncalls, o.dump, dumpsB[o.ncalls], firstDiffAt(o.dump, dumpsB[o.ncalls]), w.report(blocks, i))
				return r
			}
		}
		c.Event("program %d: %d calls and %d dumps agree with the in-memory execution", i, len(scripts[i]), len(dumpsA[i]))
	}
	lap("scripts done")
	r.Nontrivial = boundaryAfterWrite && r.Probes["calls_compared"] >= 4
	r.Sample = map[string]any{"events": c.Log[:min(len(c.Log), 30)], "gnoroot": rootDir()}
	return r
}

// nestedFindingNote is appended to every violation of a run whose programs nest structs / arrays
// by value: the one defect known to show there (2026-09-22), for the reader of a replay file.
const nestedFindingNote = `
--- known cause of divergences in programs with nested value types (check it first) ---
A value copy (by-value argument, c := a, b = a, *p = *q) of a struct or array that was LOADED from the
store shares its nested by-value arrays/structs with the original when they have not been read yet.
Minimal realm:
    type In struct{ X int }
    type T struct{ N int; Arr [2]int; S In }
    var a = T{1, [2]int{10, 20}, In{5}}
    func mod(t T)          { t.Arr[0] = 9; t.S.X = 6 }
    func Mod(cur realm)    { mod(a) }
    func Local(cur realm)  { c := a; c.Arr[1] = 77; c.S.X = 8 }
A (deploy, then MsgCall Mod and MsgCall Local in later txs, then vm/qeval): a.Arr == [9 77], a.S.X == 8.
B (the same code in one MsgRun main package, or calls made in the tx that created a): a stays {[10 20] 5}.
Code path: TypedValue.Assign / argument passing -> TypedValue.Copy (gnovm/pkg/gnolang/values.go):
StructValue.Copy and ArrayValue.Copy copy every field / element with TypedValue.Copy, whose default case
returns a RefValue (child object not loaded yet: fillValueTV fills children lazily) unchanged; the copy is
saved (realm.go copyValueWithRefs) referring to the SAME child object, so both values alias it from then on.
unrefCopy (values.go) resolves such references but is only used by append() and copy(), one level deep.
`

func firstDiffAt(a, b string) string {
	i := 0
	for i < len(a) && i < len(b) && a[i] == b[i] {
		i++
	}
	lo := max(0, i-40)
	return fmt.Sprintf(" first difference at byte %d: persisted …%s | in memory …%s", i, clip(a[lo:], 120), clip(b[lo:], 120))
}

func dataString(t txResult) string {
	b, _ := hex.DecodeString(t.Data)
	return string(b)
}

// runScript executes program i's calls as ONE MsgRun on the warm node (in a block of its
// own) and parses the printed results and dumps.
func (w *shWorld) runScript(i int, calls []shCall) (results, dumps []string, errs string) {
	src := w.progs[i].scriptSource(calls)
	b := w.nextBlock()
	b.Txs = [][]byte{w.sign(shapeGasRun, vm.NewMsgRun(w.alice.addr, nil, []*std.MemFile{{Name: "main.gno", Body: src}}))}
	w.alice.seq++
	br := w.w.runBlock(b)
	tr := br.Txs[0]
	if tr.GasW == 0 && !tr.ok() {
		kernel.Harnessf("MsgRun rejected at ante: %s %s", tr.Err, clip(tr.Log, 400))
	}
	if !tr.ok() {
		return nil, nil, tr.Err + " " + tr.Log
	}
	for _, ln := range strings.Split(dataString(tr), "\n") {
		switch {
		case strings.HasPrefix(ln, "@R|"):
			results = append(results, ln[3:])
		case strings.HasPrefix(ln, "@D|"):
			dumps = append(dumps, ln[3:])
		case ln == "":
		default:
			kernel.Harnessf("unexpected script output line %q", clip(ln, 200))
		}
	}
	w.r.Probe("scripts_run")
	return results, dumps, ""
}

func init() { engines["C03"] = runShapes }
