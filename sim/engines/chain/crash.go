package chain

import (
	"bytes"
	"fmt"
	"time"

	"github.com/gnolang/gno/tm2/pkg/std"
	stypes "github.com/gnolang/gno/tm2/pkg/store/types"

	"verif/sim/kernel"
	"verif/sim/simdb"
)

// C27: for sampled histories and selected heights, EVERY prefix of the physical
// database writes of that block's Commit is turned into a crash image; the
// reopened application must be exactly at the previous or the new version with
// the contents and app hash of the never-crashed reference, and continuing from
// it must reproduce the reference's later hashes.

type recordedBlock struct {
	spec blockSpec
	res  blockResult
	dump stateDump // logical state after the block (from the auditor over ref's disk)
}

func guardCrash(f func()) (crashed bool) {
	defer func() {
		if r := recover(); r != nil {
			if _, ok := r.(simdb.CrashSentinel); ok {
				crashed = true
				return
			}
			panic(r)
		}
	}()
	f()
	return false
}

func runCrash(c *kernel.Choices, p kernel.Params) *kernel.Result {
	w := &world{c: c, r: kernel.NewResult(), p: p, prop: "C27", emptyKeys: map[string]bool{}, dynPkgs: map[string]bool{}, knownSeen: map[string]bool{}}
	maxGas := int64(3_000_000_000)
	w.img = baseImage(maxGas)
	w.acts = newActors()
	w.bal = map[string]int64{}
	w.box = newBoxModel()
	w.height = 1
	w.now = genesisTime.Add(1e9)
	prune := []stypes.PruneStrategy{stypes.PruneEverythingStrategy, stypes.PruneSyncableStrategy, stypes.PruneNothingStrategy}[c.Intn(3)]
	w.ref = w.openNode("ref", prune)
	defer func() { w.ref.app.Close() }()
	au, err := newAuditor(w.ref.disk, 1)
	if err != nil {
		kernel.Harnessf("auditor: %v", err)
	}
	for nm, a := range w.acts {
		if seq, num, bal, ok := au.account(a.addr); ok {
			w.bal[nm], a.seq, a.num = bal, seq, num
		}
	}
	w.prevDump = au.dump()
	w.genesisDump = w.prevDump
	nblocks := 3 + c.Intn(5)
	weights := []int{5, 2, 3, 2, 2, 0, 1, 1, 1}
	c.Event("crash-run prune=%q blocks=%d", prune, nblocks)

	// 1. reference history, remembering the durable image before every block
	var hist []recordedBlock
	pre := []*simdb.Disk{}
	opsPerCommit := []uint64{}
	for bi := 0; bi < nblocks && !w.stop; bi++ {
		w.height++
		w.now = w.now.Add(5e9)
		b := blockSpec{Height: w.height, Time: w.now}
		ntx := c.Intn(4)
		pre = append(pre, w.ref.disk.Clone(nil))
		w.ref.beginBlock(b)
		var txs []*simTx
		var results []txResult
		for i := 0; i < ntx; i++ {
			t := w.genTx(weights)
			w.finishTx(t)
			r := resultOf(w.ref.app.DeliverTx(deliverReq(t.bytes)))
			w.applyResult(t, r, maxGas)
			if w.stop {
				return w.r
			}
			txs = append(txs, t)
			results = append(results, r)
			b.Txs = append(b.Txs, t.bytes)
		}
		before := w.ref.mach.Ops
		hash := w.ref.endBlockCommit(b)
		opsPerCommit = append(opsPerCommit, w.ref.mach.Ops-before)
		res := blockResult{Txs: results, AppHash: hash}
		w.checkBlock(b, txs, res)
		if w.stop {
			return w.r
		}
		hist = append(hist, recordedBlock{spec: b, res: res, dump: w.prevDump})
		c.Event("h%d: %d txs, commit issued %d physical ops, hash %X", b.Height, len(txs), opsPerCommit[bi], hash)
	}
	w.r.Probes["commit_physical_ops_total"] += int(sumU(opsPerCommit))
	for _, n := range opsPerCommit {
		if n > 1 {
			w.r.Probe("commits_with_more_than_one_physical_op")
		}
	}

	// 2. enumerate crash points for two drawn heights
	targets := map[int]bool{c.Intn(len(hist)): true, c.Intn(len(hist)): true}
	for bi := 0; bi < len(hist) && !w.stop; bi++ {
		if !targets[bi] {
			continue
		}
		rb := hist[bi]
		nops := opsPerCommit[bi]
		// k = 1..nops: die when about to issue the k-th write; k = nops+1: die right after the last write
		for k := uint64(1); k <= nops+1 && !w.stop; k++ {
			for _, power := range []bool{false, true} {
				w.crashPoint(hist, pre, bi, k, nops, power, prune, rb)
				if w.stop {
					break
				}
			}
		}
	}
	// 3. the first commit of a chain (InitChain's state: by far the largest commit a node ever makes), in a third of the runs
	if !w.stop && c.Chance(1, 3) {
		w.genesisCommitCrashes(maxGas)
	}
	w.r.Nontrivial = w.r.Faults["crash_in_commit"] > 0 && len(hist) >= 3
	w.r.Sample = map[string]any{"events": c.Log[:min(len(c.Log), 30)]}
	return w.r
}

// genesisNode runs InitChain of the harness genesis on a node over disk and stops right before the first Commit.
func genesisNode(name string, disk *simdb.Disk, maxGas int64) (*node, blockSpec) {
	n, err := newNode(name, disk)
	if err != nil {
		kernel.Harnessf("genesis app: %v", err)
	}
	acts := newActors()
	g := genesisSpec{Balance: genesisBalance, MaxGas: maxGas,
		Packages: []*std.MemPackage{readRealm(gnoDir("lib"), libPath), readRealm(gnoDir("box"), boxPath)}}
	for _, nm := range actorNames {
		if nm != "dave" {
			g.Actors = append(g.Actors, acts[nm])
		}
	}
	if res := n.initChain(g, g.state()); res.Error != nil {
		kernel.Harnessf("InitChain: %v", res.Error)
	}
	b := blockSpec{Height: 1, Time: genesisTime.Add(time.Second)}
	n.beginBlock(b)
	return n, b
}

// genesisCommitCrashes: the process dies when it is about to issue the k-th physical write of the chain's FIRST
// commit (k = 1 .. number of writes that commit issues, at most 4 of them, plus "right after the last"). The disk a
// restarted node finds must be either untouched (nothing of the genesis state, LastCommitID 0) or the complete
// first version, equal to the image every other run of this worker starts from.
func (w *world) genesisCommitCrashes(maxGas int64) {
	c := w.c
	mach := simdb.NewMachine()
	refDisk := simdb.NewDisk("gen-ref", mach)
	n, b := genesisNode("gen-ref", refDisk, maxGas)
	before := mach.Ops
	hash := n.endBlockCommit(b)
	nops := mach.Ops - before
	n.app.Close()
	if !bytes.Equal(hash, w.img.hash) {
		kernel.Harnessf("genesis commit hash %X differs from the worker's base image %X", hash, w.img.hash)
	}
	w.r.Probes["genesis_commit_physical_ops"] += int(nops)
	c.Event("genesis commit issues %d physical ops", nops)
	refAu, err := newAuditor(refDisk, 1)
	if err != nil {
		kernel.Harnessf("auditor over the genesis image: %v", err)
	}
	want := refAu.dump()
	top := nops + 1
	if top > 5 {
		top = 5
	}
	for k := uint64(1); k <= top && !w.stop; k++ {
		power := c.Bool()
		m2 := simdb.NewMachine()
		disk := simdb.NewDisk("gen-crash", m2)
		n2, b2 := genesisNode("gen-crash", disk, maxGas)
		m2.CrashAt = m2.Ops + k
		crashed := guardCrash(func() { n2.endBlockCommit(b2) })
		if !crashed {
			m2.CrashAt = 0
			n2.app.Close() // k = nops+1: every write was issued; the process dies right after
		}
		keep := disk.Unsynced()
		if power && keep > 0 {
			keep = c.Intn(keep + 1)
		}
		disk.Crash(keep)
		m2.Reboot()
		w.r.Fault("crash_in_commit")
		w.r.Fault("crash_in_genesis_commit")
		c.Event("genesis commit: crash at physical op %d of %d (power loss=%v)", k, nops, power)
		var re *node
		if pmsg := catchPanic(func() { re, err = newNode("gen-reopen", disk) }); pmsg != "" || err != nil {
			w.fail("C27", "genesis-reopen-fails", "crash at physical op %d of %d of the first commit (power loss=%v): the node does not reopen: %v %s", k, nops, power, err, clip(pmsg, 300))
			return
		}
		switch {
		case re.height == 0:
			if disk.Len() != 0 {
				w.fail("C27", "torn-genesis", "crash at physical op %d of %d of the first commit (power loss=%v): the node reopens at height 0 but %d keys of the unfinished genesis state are on disk", k, nops, power, disk.Len())
				re.app.Close()
				return
			}
			w.r.Probe("recovered_at_previous_version")
		case re.height == 1:
			if !bytes.Equal(re.last, hash) {
				w.fail("C27", "torn-genesis", "crash at physical op %d of %d of the first commit: reopened at height 1 with hash %X, the uncrashed commit has %X", k, nops, re.last, hash)
				re.app.Close()
				return
			}
			au, aerr := newAuditor(disk, 1)
			if aerr != nil {
				w.fail("C27", "audit-store-unloadable", "genesis commit crash op %d: independent multistore does not load: %v", k, aerr)
				re.app.Close()
				return
			}
			if d := diffKeys(want, au.dump()); len(d) > 0 {
				w.fail("C27", "torn-genesis", "crash at physical op %d of %d of the first commit (power loss=%v): recovered at height 1 but %d logical keys differ from the uncrashed genesis, first %s", k, nops, power, len(d), shortKey(d[0]))
				re.app.Close()
				return
			}
			w.r.Probe("recovered_at_new_version")
		default:
			w.fail("C27", "torn-genesis", "crash in the first commit: reopened at height %d", re.height)
		}
		re.app.Close()
		w.r.Probe("crash_points_enumerated")
	}
}

func catchPanic(f func()) (msg string) {
	defer func() {
		if r := recover(); r != nil {
			if _, ok := r.(simdb.CrashSentinel); ok {
				panic(r)
			}
			msg = fmt.Sprint(r)
		}
	}()
	f()
	return ""
}

func sumU(xs []uint64) (s uint64) {
	for _, x := range xs {
		s += x
	}
	return
}

func (w *world) crashPoint(hist []recordedBlock, pre []*simdb.Disk, bi int, k, nops uint64, power bool, prune stypes.PruneStrategy, rb recordedBlock) {
	c := w.c
	mach := simdb.NewMachine()
	disk := pre[bi].Clone(mach)
	n, err := newNode("crashy", disk, prune)
	if err != nil {
		w.fail("C27", "reopen-before-crash", "cannot open app over the durable image before height %d: %v", rb.spec.Height, err)
		return
	}
	n.beginBlock(rb.spec)
	for i, tx := range rb.spec.Txs {
		r := resultOf(n.app.DeliverTx(deliverReq(tx)))
		if r.key() != rb.res.Txs[i].key() {
			w.fail("C01", "tx-result-vs-reopened-twin", "height %d tx %d: reference %s, node reopened from the durable image %s", rb.spec.Height, i, rb.res.Txs[i].key(), r.key())
			return
		}
	}
	base := mach.Ops
	mach.CrashAt = base + k
	crashed := guardCrash(func() { n.endBlockCommit(rb.spec) })
	if !crashed {
		if k <= nops {
			w.fail("C01", "commit-op-count-differs", "height %d: reference commit issued %d physical ops, reopened node only %d", rb.spec.Height, nops, mach.Ops-base)
			return
		}
		// k == nops+1: the commit completed; the process dies right after
		mach.CrashAt = 0
	}
	un := disk.Unsynced()
	if power && un == 0 {
		return // every write so far was synced: the power-loss image equals the kill image already checked
	}
	w.r.Fault("crash_in_commit")
	keep := un
	if power {
		keep = 0
		if un > 0 {
			w.r.Fault("power_loss_dropped_unsynced_ops")
		}
	}
	disk.Crash(keep)
	mach.Reboot()
	c.Event("h%d crash at op %d/%d power=%v unsynced=%d", rb.spec.Height, k, nops, power, un)

	// reopen
	m, err := newNode("recovered", disk, prune)
	if err != nil {
		w.fail("C27", "reopen-after-crash", "height %d, crash at physical op %d of %d (power loss=%v): the application does not reopen: %v", rb.spec.Height, k, nops, power, err)
		return
	}
	defer m.app.Close()
	prevHash := w.img.hash
	if bi > 0 {
		prevHash = hist[bi-1].res.AppHash
	}
	prevDump := w.genesisDump
	if bi > 0 {
		prevDump = hist[bi-1].dump
	}
	at := -1
	switch {
	case m.height == rb.spec.Height-1 && bytes.Equal(m.last, prevHash):
		at = bi - 1
		w.r.Probe("recovered_at_previous_version")
	case m.height == rb.spec.Height && bytes.Equal(m.last, rb.res.AppHash):
		at = bi
		w.r.Probe("recovered_at_new_version")
	default:
		w.fail("C27", "torn-version", "height %d, crash at physical op %d of %d (power loss=%v): reopened at height %d hash %X; expected (%d,%X) or (%d,%X)",
			rb.spec.Height, k, nops, power, m.height, m.last, rb.spec.Height-1, prevHash, rb.spec.Height, rb.res.AppHash)
		return
	}
	if k <= nops && at == bi && !power {
		// fine: legal only if all writes landed; with k<=nops the k-th write never happened, so the new version must not be visible
		w.fail("C27", "new-version-visible-before-last-write", "height %d: crash before physical op %d of %d, yet the new version is visible", rb.spec.Height, k, nops)
		return
	}
	// contents equal to the never-crashed reference at that version
	au, err := newAuditor(disk, m.height)
	if err != nil {
		w.fail("C27", "audit-store-unloadable", "height %d crash op %d: independent multistore does not load: %v", rb.spec.Height, k, err)
		return
	}
	want := rb.dump
	if at == bi-1 {
		want = prevDump
	}
	if want != nil {
		if d := diffKeys(want, au.dump()); len(d) > 0 {
			w.fail("C27", "torn-contents", "height %d, crash at physical op %d of %d (power loss=%v): recovered at height %d but %d logical keys differ from the never-crashed node, first %s",
				rb.spec.Height, k, nops, power, m.height, len(d), shortKey(d[0]))
			return
		}
	}
	// continue from it: must reproduce the reference's later hashes
	for j := at + 1; j < len(hist) && j <= bi+2; j++ {
		var got blockResult
		if pmsg := catchPanic(func() { got = m.runBlock(hist[j].spec) }); pmsg != "" {
			w.fail("C27", "continuation-panics", "after recovering from a crash at height %d op %d of %d (power loss=%v) at height %d, executing height %d panics: %s", rb.spec.Height, k, nops, power, m.height, hist[j].spec.Height, clip(pmsg, 400))
			return
		}
		for i := range hist[j].res.Txs {
			if got.Txs[i].key() != hist[j].res.Txs[i].key() {
				w.fail("C27", "continuation-diverges", "after recovering from a crash at height %d op %d, height %d tx %d: %s vs reference %s", rb.spec.Height, k, hist[j].spec.Height, i, got.Txs[i].key(), hist[j].res.Txs[i].key())
				return
			}
		}
		if !bytes.Equal(got.AppHash, hist[j].res.AppHash) {
			w.fail("C27", "continuation-diverges", "after recovering from a crash at height %d op %d (power loss=%v), height %d app hash %X, reference %X", rb.spec.Height, k, power, hist[j].spec.Height, got.AppHash, hist[j].res.AppHash)
			return
		}
	}
	w.r.Probe("crash_points_enumerated")
	_ = fmt.Sprint
}
