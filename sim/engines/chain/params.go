package chain

import (
	"fmt"
	"strconv"
	"strings"
	"time"

	"github.com/gnolang/gno/gno.land/pkg/sdk/vm"
	"github.com/gnolang/gno/tm2/pkg/amino"
	"github.com/gnolang/gno/tm2/pkg/sdk"
	"github.com/gnolang/gno/tm2/pkg/sdk/auth"
	"github.com/gnolang/gno/tm2/pkg/sdk/bank"
	sdkparams "github.com/gnolang/gno/tm2/pkg/sdk/params"
	"github.com/gnolang/gno/tm2/pkg/std"

	"verif/sim/kernel"
)

// C13 — chain parameters can be written only by their owners.
//
// Realms gno.land/r/sim/pa and /pb forward caller-chosen keys, drawn from an
// adversarial alphabet, to chain/params (directly, through a /p/ helper,
// through the other realm's non-crossing helper, by crossing into the other
// realm, under recover()); MsgRun scripts do the same from package main;
// every non-designated caller also tries the sys/params API; a minimal open
// realm deployed at the designated path gno.land/r/sys/params forwards valid
// and invalid module-parameter changes.
//
// Oracle = params namespace model. The auditor dumps every key under "/pv/" of
// the main store after each block. The set of keys that changed in a block
// must be a subset of the union, over the block's SUCCESSFUL txs, of
// {"vm:<realm-context of the write>:<key>", "_realmmeta_<that realm>"} for
// chain/params writes and {"<module>:<sub>:<name>"} for writes made by the
// designated realm; every stored key must have one of the known shapes; the
// auth/bank/vm/node parameters decoded from the store with the modules' own
// types must pass the modules' own Validate; a write the module must reject
// may not succeed; the node must restart over the image.

const (
	paPath        = "gno.land/r/sim/pa"
	pbPath        = "gno.land/r/sim/pb"
	phelperPath   = "gno.land/p/sim/phelper"
	sysParamsPath = "gno.land/r/sys/params"
	realmMetaPfx  = "_realmmeta_"
)

type prmTx struct {
	signer   string
	bytes    []byte
	desc     string
	template string   // evidence bucket; "" = legitimate traffic
	allowed  []string // params keys (without "/pv/") this tx may change if it succeeds
	mustFail string   // non-empty: why this tx can never be allowed to succeed
	mustOK   bool     // plain legitimate write: a failure is harness trouble
	legit    bool
	// value model (simple writes only)
	setKey string
	setVal []byte // nil with del=true: the key must be absent
	del    bool
	sure   bool // the tx, if it succeeds, certainly performed the write (no recover())
}

type prmWorld struct {
	*world
	prev        map[string]string
	blockKeys   map[string]bool // keys every block touches (learned from an empty block)
	sysDeployed bool
	written     map[string][]string // realm path -> plain keys it has written (for deletes / overwrites)
}

var advKeys = []string{
	"x", "k1", "foo_bar", "bank_lockTransfer",
	"a:b", ":", "x:", ":x", "p:x", pbPath + ":x", paPath + ":x", "vm:p", "auth:max_memo_bytes", "auth:p:max_memo_bytes", "bank:restricted_denoms", "bank:p:restricted_denoms", "node:p:halt_height", "vm:p:chain_domain", "vm:" + pbPath + ":x",
	"a/b", "/", "../x", "..", pbPath, pbPath + "/x", "gno.land/r/sys/params",
	"a\x00b", "\x00", "x\x00:y",
	" ", "a b", "x ", " x", "\t", "a\nb",
	realmMetaPfx + pbPath, realmMetaPfx + paPath, realmMetaPfx,
	"", "p", "auth", "vm",
	"ключ", "🔑", "‮x", "é",
}

func (w *prmWorld) drawKey() string {
	c := w.c
	switch c.Weighted([]int{3, 8, 1, 1}) {
	case 0:
		return advKeys[c.Intn(4)]
	case 1:
		return advKeys[c.Intn(len(advKeys))]
	case 2:
		return strings.Repeat("k", 200+c.Intn(1500))
	default:
		return strings.Repeat("a/", 50) + ":" + strings.Repeat("b", 100)
	}
}

func (w *prmWorld) sign(signer string, gas int64, msgs ...std.Msg) []byte {
	a := w.acts[signer]
	tx := std.Tx{Msgs: msgs, Fee: std.NewFee(gas, std.NewCoin("ugnot", 1_000_000))}
	signTx(&tx, []*actor{a}, false)
	return encTx(tx)
}

func (w *prmWorld) call(signer, pkg, fn string, args ...string) []byte {
	return w.sign(signer, 150_000_000, vm.NewMsgCall(w.acts[signer].addr, nil, pkg, fn, args))
}

func (w *prmWorld) run(signer, src string) []byte {
	return w.sign(signer, 150_000_000, vm.NewMsgRun(w.acts[signer].addr, nil, []*std.MemFile{{Name: "main.gno", Body: src}}))
}

func keyOK(k string) bool { return k != "" && !strings.Contains(k, ":") }

func fullKey(realm, k string) string { return "vm:" + realm + ":" + k }

func runPathOf(a *actor) string { return "gno.land/e/" + a.addr.String() + "/run" }

// a chain/params write through one of the realms' forwarding functions.
func (w *prmWorld) genRealmWrite() *prmTx {
	c := w.c
	signer := users[c.Intn(3)]
	t := &prmTx{signer: signer}
	rp := []string{paPath, pbPath}[c.Intn(2)]
	key := w.drawKey()
	val := fmt.Sprintf("v%d", c.Intn(1000))
	ctx := rp // realm-context the write runs in
	variant := c.Weighted([]int{6, 2, 2, 2, 2, 2, 2, 2, 2, 2})
	if rp == pbPath && (variant == 2 || variant == 3) {
		variant = 0
	}
	short := rp[len("gno.land/r/sim/"):]
	switch variant {
	case 0: // direct typed setters
		switch c.Intn(5) {
		case 0:
			t.bytes = w.call(signer, rp, "SetString", key, val)
			t.desc = fmt.Sprintf("%s.SetString(%q,%q)", short, clip(key, 60), val)
			t.setVal = amino.MustMarshalJSON(val)
		case 1:
			n := int64(c.Intn(2000)) - 1000
			t.bytes = w.call(signer, rp, "SetInt64", key, strconv.FormatInt(n, 10))
			t.desc = fmt.Sprintf("%s.SetInt64(%q,%d)", short, clip(key, 60), n)
			t.setVal = amino.MustMarshalJSON(n)
		case 2:
			n := uint64(c.Intn(100000))
			t.bytes = w.call(signer, rp, "SetUint64", key, strconv.FormatUint(n, 10))
			t.desc = fmt.Sprintf("%s.SetUint64(%q,%d)", short, clip(key, 60), n)
			t.setVal = amino.MustMarshalJSON(n)
		case 3:
			bv := c.Bool()
			t.bytes = w.call(signer, rp, "SetBool", key, strconv.FormatBool(bv))
			t.desc = fmt.Sprintf("%s.SetBool(%q,%v)", short, clip(key, 60), bv)
			t.setVal = amino.MustMarshalJSON(bv)
		case 4:
			t.bytes = w.call(signer, rp, "SetBytes", key, val)
			t.desc = fmt.Sprintf("%s.SetBytes(%q,%q)", short, clip(key, 60), val)
			t.setVal = []byte(val)
		}
		t.sure = true
		t.template = "realm-direct"
	case 1: // through the /p/ helper
		t.bytes = w.call(signer, rp, "ViaHelper", key, val)
		t.desc = fmt.Sprintf("%s.ViaHelper(%q,%q)", short, clip(key, 60), val)
		t.setVal, t.sure = amino.MustMarshalJSON(val), true
		t.template = "p-helper"
	case 2: // pa -> pb.SetNC (non-crossing: pa's realm-context)
		t.bytes = w.call(signer, paPath, "ViaPB", key, val)
		t.desc = fmt.Sprintf("pa.ViaPB(%q,%q) [pb's non-crossing helper]", clip(key, 60), val)
		t.setVal, t.sure = amino.MustMarshalJSON(val), true
		t.template = "foreign-noncrossing-helper"
	case 3: // pa crosses into pb
		t.bytes = w.call(signer, paPath, "CrossPB", key, val)
		t.desc = fmt.Sprintf("pa.CrossPB(%q,%q) [crossing into pb]", clip(key, 60), val)
		ctx = pbPath
		t.setVal, t.sure = amino.MustMarshalJSON(val), true
		t.template = "cross-into-other-realm"
	case 4: // recover(): succeeds whatever the API does
		t.bytes = w.call(signer, rp, "Swallow", key, val)
		t.desc = fmt.Sprintf("%s.Swallow(%q,%q)", short, clip(key, 60), val)
		t.setVal = amino.MustMarshalJSON(val)
		t.template = "recover"
	case 5: // string lists
		switch c.Intn(3) {
		case 0:
			t.bytes = w.call(signer, rp, "SetStrings", key, val, "w")
			t.desc = fmt.Sprintf("%s.SetStrings(%q)", short, clip(key, 60))
		case 1:
			t.bytes = w.call(signer, rp, "AddString", key, val)
			t.desc = fmt.Sprintf("%s.AddString(%q,%q)", short, clip(key, 60), val)
		default:
			t.bytes = w.call(signer, rp, "DelString", key, val)
			t.desc = fmt.Sprintf("%s.DelString(%q,%q)", short, clip(key, 60), val)
		}
		t.template = "string-list"
	case 6: // delete / overwrite of a key this realm wrote earlier
		ks := w.written[rp]
		if len(ks) > 0 {
			key = ks[c.Intn(len(ks))]
		}
		if c.Bool() {
			t.bytes = w.call(signer, rp, "DelBytes", key)
			t.desc = fmt.Sprintf("%s.DelBytes(%q)", short, clip(key, 60))
			t.del, t.sure = true, true
		} else {
			t.bytes = w.call(signer, rp, "SetString", key, val)
			t.desc = fmt.Sprintf("%s.SetString(%q,%q) [overwrite]", short, clip(key, 60), val)
			t.setVal, t.sure = amino.MustMarshalJSON(val), true
		}
		t.template = "delete-or-overwrite"
	case 7: // MsgRun script writing from package main
		a := w.acts[signer]
		ctx = runPathOf(a)
		src := fmt.Sprintf("package main\n\nimport \"chain/params\"\n\nfunc main(cur realm) {\n\tparams.SetString(%q, %q)\n}\n", key, val)
		t.bytes = w.run(signer, src)
		t.desc = fmt.Sprintf("script SetString(%q,%q)", clip(key, 60), val)
		t.template = "script"
	case 8: // script calling pb's non-crossing helper / the /p/ helper: the script's own realm-context
		a := w.acts[signer]
		ctx = runPathOf(a)
		if c.Bool() {
			src := fmt.Sprintf("package main\n\nimport \"gno.land/r/sim/pb\"\n\nfunc main(cur realm) {\n\tpb.SetNC(%q, %q)\n}\n", key, val)
			t.bytes = w.run(signer, src)
			t.desc = fmt.Sprintf("script pb.SetNC(%q,%q)", clip(key, 60), val)
		} else {
			src := fmt.Sprintf("package main\n\nimport \"gno.land/p/sim/phelper\"\n\nfunc main(cur realm) {\n\tphelper.Set(%q, %q)\n}\n", key, val)
			t.bytes = w.run(signer, src)
			t.desc = fmt.Sprintf("script phelper.Set(%q,%q)", clip(key, 60), val)
		}
		t.template = "script-via-helper"
	case 9: // script crossing into a realm
		src := fmt.Sprintf("package main\n\nimport \"gno.land/r/sim/pa\"\n\nfunc main(cur realm) {\n\tpa.SetString(cross(cur), %q, %q)\n}\n", key, val)
		t.bytes = w.run(signer, src)
		t.desc = fmt.Sprintf("script pa.SetString(cross,%q,%q)", clip(key, 60), val)
		ctx = paPath
		t.setVal, t.sure = amino.MustMarshalJSON(val), true
		t.template = "script-cross"
	}
	if !keyOK(key) {
		if variant != 4 {
			t.mustFail = "chain/params must reject an empty key or a key containing ':'"
		}
		t.template += "/bad-key"
		t.setVal, t.sure, t.del = nil, false, false
		return t
	}
	t.allowed = []string{fullKey(ctx, key), realmMetaPfx + ctx}
	if t.setVal != nil || t.del {
		t.setKey = fullKey(ctx, key)
	}
	if variant <= 1 && len(key) < 40 && isPlain(key) {
		t.mustOK, t.legit = true, true
	}
	if strings.HasPrefix(ctx, "gno.land/r/") && len(key) < 100 {
		w.written[ctx] = append(w.written[ctx], key)
	}
	return t
}

func isPlain(k string) bool {
	for _, r := range k {
		if !(r == '_' || (r >= 'a' && r <= 'z') || (r >= 'A' && r <= 'Z') || (r >= '0' && r <= '9')) {
			return false
		}
	}
	return k != ""
}

type sysOp struct {
	module, sub, name string
	fn                string // SetString / SetInt64 / SetBool / SetStrings0 / SetStrings1 / SetBytes / AddString
	val               string
	valid             int // 1 must be accepted by the module, 0 must be rejected, -1 either
}

var sysOps = []sysOp{
	// valid changes
	{"auth", "p", "max_memo_bytes", "SetInt64", "1024", 1},
	{"auth", "p", "max_memo_bytes", "SetInt64", "65536", 1},
	{"auth", "p", "tx_sig_limit", "SetInt64", "3", 1},
	{"auth", "p", "tx_sig_limit", "SetInt64", "7", 1},
	{"auth", "p", "sig_verify_cost_ed25519", "SetInt64", "600", 1},
	{"bank", "p", "restricted_denoms", "SetStrings0", "", 1},
	{"bank", "p", "restricted_denoms", "SetStrings1", "foocoin", 1},
	{"vm", "p", "storage_price", "SetString", "50ugnot", 1},
	{"vm", "p", "storage_price", "SetString", "100ugnot", 1},
	{"vm", "p", "default_deposit", "SetString", "500000000ugnot", 1},
	{"vm", "p", "iter_next_cost_flat", "SetInt64", "2000", 1},
	{"vm", "p", "min_get_read_depth_100", "SetInt64", "150", 1},
	{"node", "p", "halt_min_version", "SetString", "chain/gnoland9.9", 1},
	{"node", "p", "halt_height", "SetInt64", "0", 1},
	{"vm", pbPath, "governed", "SetString", "by-governance", 1},
	// invalid values / keys: the module must reject them
	{"auth", "p", "max_memo_bytes", "SetInt64", "0", 0},
	{"auth", "p", "max_memo_bytes", "SetInt64", "-1", 0},
	{"auth", "p", "tx_sig_limit", "SetInt64", "-5", 0},
	{"auth", "p", "target_gas_ratio", "SetInt64", "101", 0},
	{"auth", "p", "target_gas_ratio", "SetInt64", "-1", 0},
	{"auth", "p", "gas_price_change_compressor", "SetInt64", "0", 0},
	{"auth", "p", "tx_size_cost_per_byte", "SetInt64", "0", 0},
	{"auth", "p", "fee_collector", "SetString", "not-an-address", 0},
	{"auth", "p", "initial_gasprice", "SetString", "garbage", 0},
	{"auth", "p", "max_memo_bytes", "SetString", "12", 0},
	{"auth", "p", "max_memo_bytes", "SetBool", "true", 0},
	{"auth", "p", "nosuch", "SetInt64", "1", 0},
	{"auth", "q", "max_memo_bytes", "SetInt64", "5", 0},
	{"bank", "p", "restricted_denoms", "SetStrings1", "NOT A DENOM", 0},
	{"bank", "p", "restricted_denoms", "SetStrings1", "1x", 0},
	{"bank", "p", "restricted_denoms", "SetString", "ugnot", 0},
	{"bank", "p", "nosuch", "SetString", "v", 0},
	{"bank", "x", "y", "SetString", "v", 0},
	{"vm", "p", "storage_price", "SetString", "garbage", 0},
	{"vm", "p", "storage_price", "SetString", "", 0},
	{"vm", "p", "default_deposit", "SetString", "-5ugnot", -1},
	{"vm", "p", "chain_domain", "SetString", "not a domain!", 0},
	{"vm", "p", "iter_next_cost_flat", "SetInt64", "0", 0},
	{"vm", "p", "iter_next_cost_flat", "SetInt64", "200000", 0},
	{"vm", "p", "min_write_depth_100", "SetInt64", "-1", 0},
	{"vm", "p", "fixed_write_depth_100", "SetInt64", "10001", 0},
	{"vm", "p", "preprocess_gas_per_byte", "SetInt64", "0", 0},
	{"vm", "p", "storage_fee_collector", "SetString", "zzz", 0},
	{"vm", "p", "storage_price", "SetInt64", "5", 0},
	{"vm", "p", "nosuch", "SetString", "v", 0},
	{"node", "p", "halt_height", "SetInt64", "-1", 0},
	{"node", "p", "halt_height", "SetString", "7", 0},
	{"node", "p", "nosuch", "SetString", "v", 0},
	{"node", "valset", "current", "SetStrings1", "x:1", 0},
	{"node", "valset", "pubkey_types", "SetStrings1", "x", 0},
	{"node", "valset", "proposed", "SetStrings1", "garbage", 0},
	{"node", "valset", "nosuch", "SetString", "v", 0},
	{"nosuchmodule", "p", "x", "SetString", "v", 0},
	{"", "p", "x", "SetString", "v", 0},
	{"", "p", "max_memo_bytes", "SetInt64", "5", 0},
	{"", "gno.land/r/sim/pb", "x", "SetString", "v", 0},
	{"", "x", "y", "SetBool", "true", 0},
	{"auth", "", "max_memo_bytes", "SetInt64", "9", 0},
	{"auth", "p", "max_memo_bytes:x", "SetInt64", "9", 0},
	{"params", "p", "x", "SetString", "v", 0},
	// either
	{"auth", "p", "max_memo_bytes", "SetUint64", "70000", -1},
	{"node", "p", "halt_height", "SetInt64", "1", -1}, // in the past: rejected once the chain is past height 1
	{"vm", "p", "sysnames_pkgpath", "SetString", "gno.land/r/sys/names", -1},
	{"vm", "p", "storage_price", "SetBytes", "100ugnot", -1},
	{"bank", "p", "restricted_denoms", "AddString", "barcoin", -1},
}

func (o sysOp) args() []string {
	a := []string{o.module, o.sub, o.name}
	if o.fn != "SetStrings0" {
		a = append(a, o.val)
	}
	return a
}

func (o sysOp) key() string { return o.module + ":" + o.sub + ":" + o.name }

func (o sysOp) String() string {
	return fmt.Sprintf("%s(%q,%q,%q,%q)", o.fn, o.module, o.sub, o.name, o.val)
}

// a call of the designated realm (the governance path).
func (w *prmWorld) genSysWrite() *prmTx {
	c := w.c
	signer := users[c.Intn(3)]
	var o sysOp
	switch c.Weighted([]int{3, 4, 1}) {
	case 0:
		o = sysOps[c.Intn(15)]
	default:
		o = sysOps[c.Intn(len(sysOps))]
	}
	t := &prmTx{signer: signer, template: "designated-realm"}
	t.bytes = w.call(signer, sysParamsPath, o.fn, o.args()...)
	t.desc = "sys/params(designated)." + o.String()
	if !w.sysDeployed {
		t.mustFail = "the designated realm is not deployed"
		t.template = "designated-realm-absent"
		return t
	}
	if c.Chance(1, 8) && (o.fn == "SetString") {
		t.bytes = w.call(signer, sysParamsPath, "ViaHelper", o.args()...)
		t.desc = "sys/params(designated).ViaHelper->" + o.String()
		t.template = "designated-realm-via-p-helper"
		o.valid = -1
	}
	switch o.valid {
	case 0:
		t.mustFail = "the module's validation must reject this write"
		t.template += "/invalid"
	case 1:
		t.mustOK, t.legit = true, true
		t.template += "/valid"
	}
	t.allowed = []string{o.key()}
	if o.module == "vm" && strings.Contains(o.sub, "/") {
		t.allowed = append(t.allowed, realmMetaPfx+o.sub)
	}
	return t
}

// the sys/params API from callers that are NOT the designated realm.
func (w *prmWorld) genForeignSys() *prmTx {
	c := w.c
	signer := users[c.Intn(3)]
	t := &prmTx{signer: signer}
	o := sysOps[c.Intn(len(sysOps))]
	for o.fn != "SetString" && o.fn != "SetInt64" && o.fn != "SetStrings1" {
		o = sysOps[c.Intn(15)]
	}
	rp := []string{paPath, pbPath}[c.Intn(2)]
	short := rp[len("gno.land/r/sim/"):]
	t.mustFail = "sys/params may be used only from " + sysParamsPath
	switch v := c.Intn(5); {
	case v == 0 && o.fn == "SetInt64":
		t.bytes = w.call(signer, rp, "SysSwallow", o.args()...)
		t.desc = short + ".SysSwallow " + o.String()
		t.template = "foreign-sys/recover"
		t.mustFail = ""
	case v == 1 && o.fn == "SetString":
		t.bytes = w.call(signer, rp, "SysViaHelper", o.args()...)
		t.desc = short + ".SysViaHelper " + o.String()
		t.template = "foreign-sys/p-helper"
	case v == 2: // script
		call := fmt.Sprintf("sys.SetSysParamString(%q, %q, %q, %q)", o.module, o.sub, o.name, o.val)
		if o.fn == "SetInt64" {
			call = fmt.Sprintf("sys.SetSysParamInt64(%q, %q, %q, %s)", o.module, o.sub, o.name, o.val)
		} else if o.fn == "SetStrings1" {
			call = fmt.Sprintf("sys.SetSysParamStrings(%q, %q, %q, []string{%q})", o.module, o.sub, o.name, o.val)
		}
		t.bytes = w.run(signer, "package main\n\nimport sys \"sys/params\"\n\nfunc main(cur realm) {\n\t"+call+"\n}\n")
		t.desc = "script " + call
		t.template = "foreign-sys/script"
	default:
		fn := map[string]string{"SetString": "Sys", "SetInt64": "SysInt", "SetStrings1": "SysStrings"}[o.fn]
		t.bytes = w.call(signer, rp, fn, o.args()...)
		t.desc = short + "." + fn + " " + o.String()
		t.template = "foreign-sys/realm"
	}
	return t
}

// ---- oracles ------------------------------------------------------------------------

type dummyParamful struct{}

func (dummyParamful) WillSetParam(ctx sdk.Context, key string, value any) {}

func keyShapeOK(k string) bool {
	switch {
	case strings.HasPrefix(k, realmMetaPfx):
		return strings.Contains(k[len(realmMetaPfx):], "/")
	case strings.HasPrefix(k, "auth:p:"), strings.HasPrefix(k, "bank:p:"), strings.HasPrefix(k, "vm:p:"), strings.HasPrefix(k, "node:p:"), strings.HasPrefix(k, "node:valset:"):
		return true
	case strings.HasPrefix(k, "vm:"):
		rest := k[3:]
		i := strings.IndexByte(rest, ':')
		return i > 0 && strings.Contains(rest[:i], "/")
	}
	return false
}

// moduleParamsValid decodes the module parameters from the auditor's store with
// the modules' own types and runs the modules' own validation.
func (a *auditor) moduleParamsValid() (msg string) {
	defer func() {
		if r := recover(); r != nil {
			msg = fmt.Sprintf("stored module parameters cannot be decoded: %v", r)
		}
	}()
	pk := sdkparams.NewParamsKeeper(a.mainKey)
	for _, m := range []string{"auth", "bank", "vm", "node"} {
		pk.Register(m, dummyParamful{})
	}
	var ap auth.Params
	pk.GetStruct(a.ctx, "auth:p", &ap)
	if err := ap.Validate(); err != nil {
		return "auth: " + err.Error()
	}
	var bp bank.Params
	pk.GetStruct(a.ctx, "bank:p", &bp)
	if err := bp.Validate(); err != nil {
		return "bank: " + err.Error()
	}
	var vp vm.Params
	pk.GetStruct(a.ctx, "vm:p", &vp)
	if err := vp.Validate(); err != nil {
		return "vm: " + err.Error()
	}
	var hh int64
	if pk.GetInt64(a.ctx, "node:p:halt_height", &hh) && hh < 0 {
		return fmt.Sprintf("node: halt_height %d", hh)
	}
	var hv string
	pk.GetString(a.ctx, "node:p:halt_min_version", &hv)
	return ""
}

func (w *prmWorld) checkBlock(height int64, txs []*prmTx, res []txResult) bool {
	au, err := newAuditor(w.ref.disk, height)
	if err != nil {
		w.fail("C27", "audit-store-unloadable", "independent multistore over the durable image of height %d does not load: %v", height, err)
		return false
	}
	cur := au.paramsDump()
	allowed := map[string]string{}
	for i, t := range txs {
		if res[i].ok() {
			for _, k := range t.allowed {
				allowed[k] = t.desc
			}
		}
	}
	var descs []string
	for i, t := range txs {
		descs = append(descs, fmt.Sprintf("[%s -> %s]", t.desc, map[bool]string{true: "ok", false: "failed"}[res[i].ok()]))
	}
	changed := 0
	for _, k := range kernel.SortedKeys(mergeKeys(w.prev, cur)) {
		ov, had := w.prev[k]
		nv, has := cur[k]
		if had == has && ov == nv {
			continue
		}
		if w.blockKeys[k] {
			continue
		}
		changed++
		if txs == nil {
			w.blockKeys[k] = true
			continue
		}
		if _, ok := allowed[k]; ok {
			continue
		}
		oracle := "foreign-params-key-changed"
		switch {
		case strings.HasPrefix(k, "vm:gno.land/") || strings.HasPrefix(k, realmMetaPfx):
			oracle = "other-realm-namespace-written"
		case keyShapeOK(k):
			oracle = "module-param-written-by-non-owner"
		}
		what := "changed"
		if !had {
			what = "was created"
		} else if !has {
			what = "was deleted"
		}
		w.fail("C13", oracle, "height %d: params key %s %s (%q -> %q) but no successful tx of the block owns it; txs: %v", height, shortKey(k), what, clip(ov, 80), clip(nv, 80), descs)
		return false
	}
	for _, k := range kernel.SortedKeys(cur) {
		if !keyShapeOK(k) {
			w.fail("C13", "params-key-outside-any-namespace", "height %d: stored params key %s belongs to no registered module and to no realm namespace; txs: %v", height, shortKey(k), descs)
			return false
		}
	}
	if msg := au.moduleParamsValid(); msg != "" {
		w.fail("C13", "stored-module-params-invalid", "height %d: %s; txs: %v", height, msg, descs)
		return false
	}
	// value model: the last certain simple write of the block to a key decides its value
	last := map[string]*prmTx{}
	for i, t := range txs {
		if !res[i].ok() || len(t.allowed) == 0 {
			continue
		}
		if t.setKey != "" && t.sure {
			last[t.setKey] = t
		} else {
			for _, k := range t.allowed {
				delete(last, k) // an uncertain write (recover(), list update) may have touched it later
			}
		}
	}
	for _, k := range kernel.SortedKeys(last) {
		t := last[k]
		v, has := cur[k]
		if t.del {
			if has {
				w.fail("C13", "params-value-vs-owner-write", "height %d: %s succeeded but key %s still holds %q", height, t.desc, shortKey(k), clip(v, 80))
				return false
			}
			continue
		}
		if !has || v != string(t.setVal) {
			w.fail("C13", "params-value-vs-owner-write", "height %d: after %s key %s holds %q (present=%v), its owner wrote %q", height, t.desc, shortKey(k), clip(v, 80), has, clip(string(t.setVal), 80))
			return false
		}
		w.r.Probe("values_verified")
	}
	w.prev = cur
	w.r.ProbeN("params_keys_changed", changed)
	w.r.Probe("blocks_audited")
	return true
}

func mergeKeys(a, b map[string]string) map[string]bool {
	m := map[string]bool{}
	for k := range a {
		m[k] = true
	}
	for k := range b {
		m[k] = true
	}
	return m
}

func runParams(c *kernel.Choices, p kernel.Params) *kernel.Result {
	base := &world{c: c, r: kernel.NewResult(), p: p, prop: "C13", emptyKeys: map[string]bool{}}
	w := &prmWorld{world: base, blockKeys: map[string]bool{}, written: map[string][]string{}}
	w.img = baseImage(3_000_000_000)
	w.acts = newActors()
	w.bal = map[string]int64{}
	w.height = 1
	w.now = genesisTime.Add(time.Second)
	w.ref = w.openNode("ref")
	defer func() { w.ref.app.Close() }()
	au, err := newAuditor(w.ref.disk, 1)
	if err != nil {
		kernel.Harnessf("auditor: %v", err)
	}
	for nm, a := range w.acts {
		if seq, num, bal, ok := au.account(a.addr); ok {
			w.bal[nm], a.seq, a.num = bal, seq, num
		}
	}
	w.prev = au.paramsDump()
	if msg := au.moduleParamsValid(); msg != "" {
		kernel.Harnessf("genesis module params: %s", msg)
	}
	for k := range w.prev {
		if !keyShapeOK(k) {
			kernel.Harnessf("genesis params key %q has an unknown shape", k)
		}
	}
	deliver := func(signer string, bz []byte) txResult {
		r := resultOf(w.ref.app.DeliverTx(deliverReq(bz)))
		if r.GasW != 0 || r.ok() {
			w.acts[signer].seq++
		}
		return r
	}
	nextBlock := func(step int) blockSpec {
		w.height++
		w.now = w.now.Add(time.Duration(step) * time.Second)
		return blockSpec{Height: w.height, Time: w.now}
	}
	// an empty block: learns the params keys every block touches
	b := nextBlock(5)
	w.ref.runBlock(b)
	if !w.checkBlock(b.Height, nil, nil) {
		return w.r
	}
	// setup block: deploy the workload packages (and, most of the time, the designated realm)
	w.sysDeployed = c.Chance(5, 6)
	b = nextBlock(5)
	w.ref.beginBlock(b)
	deploys := []struct{ dir, path string }{{"phelper", phelperPath}, {"pb", pbPath}, {"pa", paPath}}
	if w.sysDeployed {
		deploys = append(deploys, struct{ dir, path string }{"sysparams", sysParamsPath})
	}
	var setupTxs []*prmTx
	var setupRes []txResult
	for _, d := range deploys {
		mp := readRealm(gnoDir(d.dir), d.path)
		bz := w.sign("alice", 400_000_000, vm.MsgAddPackage{Creator: w.acts["alice"].addr, Package: mp})
		r := deliver("alice", bz)
		if !r.ok() {
			kernel.Harnessf("deploying %s failed: %s %s", d.path, r.Err, clip(r.Log, 1500))
		}
		setupTxs = append(setupTxs, &prmTx{signer: "alice", desc: "deploy " + d.path})
		setupRes = append(setupRes, r)
	}
	w.ref.endBlockCommit(b)
	if !w.checkBlock(b.Height, setupTxs, setupRes) { // deployments may not touch any parameter
		return w.r
	}
	c.Event("params run: designated realm deployed=%v", w.sysDeployed)

	nblocks := 4 + c.Intn(8)
	if p.Tier == "thorough" {
		nblocks = 6 + c.Intn(16)
	}
	weights := []int{3 + c.Intn(5), 1 + c.Intn(4), 1 + c.Intn(4)}
	c.Event("blocks=%d weights realm-write=%d designated=%d foreign-sys=%d", nblocks, weights[0], weights[1], weights[2])
	templates := map[string]bool{}
	for bi := 0; bi < nblocks && !w.stop; bi++ {
		b := nextBlock(1 + c.Intn(20))
		w.ref.beginBlock(b)
		ntx := 1 + c.Intn(4)
		var txs []*prmTx
		var res []txResult
		for i := 0; i < ntx && !w.stop; i++ {
			var t *prmTx
			switch c.Weighted(weights) {
			case 0:
				t = w.genRealmWrite()
			case 1:
				t = w.genSysWrite()
			default:
				t = w.genForeignSys()
			}
			r := deliver(t.signer, t.bytes)
			c.Event("h%d tx%d by %s: %s -> err=%s gasU=%d %s", b.Height, i, t.signer, t.desc, r.Err, r.GasU, failReason(r))
			if r.GasW == 0 && !r.ok() {
				kernel.Harnessf("tx %s rejected before/at ante: %s %s", t.desc, r.Err, clip(r.Log, 400))
			}
			if !r.ok() && (strings.Contains(r.Err, "TypeCheck") || strings.Contains(r.Log, "preprocess stack")) {
				kernel.Harnessf("generated program does not compile: %s: %s", t.desc, clip(r.Log, 1200))
			}
			txs, res = append(txs, t), append(res, r)
			if r.ok() && t.mustFail != "" {
				w.fail("C13", "forbidden-params-write-accepted", "height %d: %s succeeded: %s", b.Height, t.desc, t.mustFail)
				break
			}
			if !r.ok() && t.mustOK {
				kernel.Harnessf("height %d: %s was expected to succeed: %s %s", b.Height, t.desc, r.Err, clip(r.Log, 800))
			}
			templates[t.template] = true
			w.r.Probe("tmpl:" + t.template)
			switch {
			case t.legit && r.ok():
				w.r.Probe("legit_ok")
			case t.legit:
			case r.ok():
				w.r.Probe("attacks")
				w.r.Probe("attacks_accepted")
			default:
				w.r.Probe("attacks")
				w.r.Probe("attacks_rejected")
			}
		}
		if w.stop {
			break
		}
		w.ref.endBlockCommit(b)
		w.r.Steps += ntx
		if !w.checkBlock(b.Height, txs, res) {
			break
		}
		if c.Chance(1, 4) {
			c.Event("restart after h%d", b.Height)
			if err := w.ref.restart(); err != nil {
				w.fail("C13", "node-cannot-restart-after-params-write", "the node cannot restart over the image of height %d: %v", b.Height, err)
				break
			}
			w.r.Fault("restart")
		}
	}
	w.r.Probes["templates_run"] = len(templates)
	w.r.Nontrivial = w.r.Probes["attacks"] >= 1 && w.r.Probes["legit_ok"] >= 1
	w.r.Sample = map[string]any{"events": c.Log[:min(len(c.Log), 40)], "gnoroot": rootDir()}
	return w.r
}

func init() { engines["C13"] = runParams }
